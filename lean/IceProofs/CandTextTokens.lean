import IceModel.CandText
/-! Decimal digits, tokenisers and split/join lemmas for `IceModel.CandText`. -/
namespace IceProofs.CandText
open IceModel.CandText

/-! ### decimal -/

/-- the value `readDigits` accumulates -/
def digitsVal (ds : Str) (v : Nat) : Nat := ds.foldl (fun v c => v * 10 + (c - 48)) v

theorem digitsVal_append (a : Str) (d v : Nat) : digitsVal (a ++ [d]) v = digitsVal a v * 10 + (d - 48) := by
  simp [digitsVal, List.foldl_append]

/-- THE decimal round-trip lemma: printing with `natToDigitsF` and reading back with the digit
loop gives the number; the string is a non-empty string of digits. -/
theorem natToDigitsF_spec : ∀ (f n : Nat), n < f →
    digitsVal (natToDigitsF f n) 0 = n ∧ (∀ c ∈ natToDigitsF f n, isDigit c = true) ∧ natToDigitsF f n ≠ []
  | 0, n, h => by omega
  | f + 1, n, h => by
    unfold natToDigitsF
    split
    · rename_i h10
      refine ⟨by simp [digitsVal], ?_, by simp⟩
      intro c hc
      simp only [List.mem_singleton] at hc
      subst hc; simp only [isDigit, Bool.and_eq_true, decide_eq_true_eq]; omega
    · rename_i h10
      have hlt : n / 10 < f := by omega
      obtain ⟨h1, h2, _⟩ := natToDigitsF_spec f (n / 10) hlt
      refine ⟨?_, ?_, by simp⟩
      · rw [digitsVal_append, h1]; omega
      · intro c hc
        rcases List.mem_append.mp hc with hc | hc
        · exact h2 c hc
        · simp only [List.mem_singleton] at hc
          subst hc; simp only [isDigit, Bool.and_eq_true, decide_eq_true_eq]; omega

theorem natToDigitsF_length : ∀ (f n k : Nat), n < f → n < 10 ^ (k + 1) → (natToDigitsF f n).length ≤ k + 1
  | 0, n, k, h, _ => by omega
  | f + 1, n, k, h, hk => by
    unfold natToDigitsF
    split
    · simp
    · rename_i h10
      match k with
      | 0 => simp at hk; omega
      | k + 1 =>
        have : n / 10 < 10 ^ (k + 1) := by
          apply Nat.div_lt_of_lt_mul
          rw [Nat.pow_succ] at hk; omega
        have := natToDigitsF_length f (n / 10) k (by omega) this
        simp only [List.length_append, List.length_singleton]; omega

theorem natToDigits_val (n : Nat) : digitsVal (natToDigits n) 0 = n := (natToDigitsF_spec (n + 1) n (by omega)).1
theorem natToDigits_digits (n : Nat) : ∀ c ∈ natToDigits n, isDigit c = true := (natToDigitsF_spec (n + 1) n (by omega)).2.1
theorem natToDigits_ne_nil (n : Nat) : natToDigits n ≠ [] := (natToDigitsF_spec (n + 1) n (by omega)).2.2
theorem natToDigits_length (n k : Nat) (h : n < 10 ^ (k + 1)) : (natToDigits n).length ≤ k + 1 :=
  natToDigitsF_length (n + 1) n k (by omega) h

theorem natToDigits_nospace (n : Nat) : 32 ∉ natToDigits n := by
  intro h
  have := natToDigits_digits n 32 h
  simp [isDigit] at this

theorem readDigits_digits (limit : Nat) : ∀ (ds : Str) (i v : Nat), (∀ c ∈ ds, isDigit c = true) →
    i + ds.length ≤ limit → readDigits limit ds i v = some (digitsVal ds v)
  | [], _, _, _, _ => rfl
  | c :: cs, i, v, hd, hl => by
    simp only [List.length_cons] at hl
    unfold readDigits
    rw [if_neg (by omega)]
    have hc := hd c List.mem_cons_self
    simp only [hc, Bool.not_true, Bool.false_eq_true, if_false]
    rw [readDigits_digits limit cs (i + 1) _ (fun x hx => hd x (List.mem_cons_of_mem c hx)) (by omega)]
    rfl

/-- reading what `%d` printed (5-digit fields: component, port) -/
theorem readDigits5_natToDigits (n : Nat) (h : n < 100000) : readDigits 5 (natToDigits n) 0 0 = some n := by
  rw [readDigits_digits 5 _ 0 0 (natToDigits_digits n) (by have := natToDigits_length n 4 (by omega); omega),
    natToDigits_val]

/-- … and the 10-digit priority field -/
theorem readDigits10_natToDigits (n : Nat) (h : n < 10000000000) : readDigits 10 (natToDigits n) 0 0 = some n := by
  rw [readDigits_digits 10 _ 0 0 (natToDigits_digits n) (by have := natToDigits_length n 9 (by omega); omega),
    natToDigits_val]

theorem readPort_natToDigits (n : Nat) (h : n ≤ 65535) : readPort (natToDigits n) = some n := by
  unfold readPort
  rw [readDigits5_natToDigits n (by omega)]
  simp only
  rw [if_neg (by omega)]

/-- whatever the digit loop accepts is below 10^limit (used for: parsed fields are in range) -/
theorem readDigits_bound (limit : Nat) : ∀ (ds : Str) (i v r : Nat), readDigits limit ds i v = some r →
    i ≤ limit → v < 10 ^ i → r < 10 ^ limit
  | [], i, v, r, h, hi, hv => by
    simp only [readDigits, Option.some.injEq] at h
    subst h
    exact Nat.lt_of_lt_of_le hv (Nat.pow_le_pow_right (by omega) hi)
  | c :: cs, i, v, r, h, hi, hv => by
    unfold readDigits at h
    split at h
    · cases h
    · rename_i hne
      split at h
      · cases h
      · rename_i hd
        have hd : isDigit c = true := by simpa using hd
        simp only [isDigit, Bool.and_eq_true, decide_eq_true_eq] at hd
        apply readDigits_bound limit cs (i + 1) _ r h (by omega)
        rw [Nat.pow_succ]; omega

theorem readChars_ok (limit : Nat) : ∀ (s : Str) (i : Nat), (∀ c ∈ s, isIceChar c = true) →
    i + s.length ≤ limit → readChars limit s i = true
  | [], _, _, _ => rfl
  | c :: cs, i, hd, hl => by
    simp only [List.length_cons] at hl
    unfold readChars
    rw [if_neg (by omega)]
    have hc := hd c List.mem_cons_self
    simp only [hc, Bool.not_true, Bool.false_eq_true, if_false]
    exact readChars_ok limit cs (i + 1) (fun x hx => hd x (List.mem_cons_of_mem c hx)) (by omega)

/-- what the ice-char loop accepts: at most `limit - i` ice-chars -/
theorem readChars_true (limit : Nat) : ∀ (s : Str) (i : Nat), readChars limit s i = true → i ≤ limit →
    (∀ c ∈ s, isIceChar c = true) ∧ i + s.length ≤ limit
  | [], i, _, hi => ⟨by simp, by simpa using hi⟩
  | c :: cs, i, h, hi => by
    unfold readChars at h
    split at h
    · cases h
    · rename_i hne
      split at h
      · cases h
      · rename_i hc
        have hc : isIceChar c = true := by simpa using hc
        have := readChars_true limit cs (i + 1) h (by omega)
        refine ⟨?_, by simp only [List.length_cons]; omega⟩
        intro x hx
        rcases List.mem_cons.mp hx with rfl | hx
        · exact hc
        · exact this.1 x hx

/-! ### cutting at spaces -/

theorem splitSp_ne_nil (s : Str) : splitSp s ≠ [] := by
  cases s with
  | nil => simp [splitSp]
  | cons c cs =>
    unfold splitSp
    split
    · simp
    · split <;> simp

theorem splitSp_append_space (t rest : Str) (h : 32 ∉ t) : splitSp (t ++ 32 :: rest) = t :: splitSp rest := by
  induction t with
  | nil => simp [splitSp]
  | cons c t ih =>
    have hc : c ≠ 32 := fun e => h (by simp [e])
    have ht : 32 ∉ t := fun e => h (List.mem_cons_of_mem c e)
    simp only [List.cons_append]
    rw [splitSp, if_neg hc, ih ht]

theorem splitSp_nospace (t : Str) (h : 32 ∉ t) : splitSp t = [t] := by
  induction t with
  | nil => rfl
  | cons c t ih =>
    have hc : c ≠ 32 := fun e => h (by simp [e])
    have ht : 32 ∉ t := fun e => h (List.mem_cons_of_mem c e)
    rw [splitSp, if_neg hc, ih ht]

/-- split ∘ join = id on non-empty lists of space-free tokens -/
theorem splitSp_joinSp : ∀ (toks : List Str), toks ≠ [] → (∀ t ∈ toks, 32 ∉ t) → splitSp (joinSp toks) = toks
  | [], h, _ => absurd rfl h
  | [t], _, hs => by simpa [joinSp] using splitSp_nospace t (hs t (by simp))
  | t :: t2 :: ts, _, hs => by
    simp only [joinSp]
    rw [splitSp_append_space t _ (hs t (by simp)),
      splitSp_joinSp (t2 :: ts) (by simp) (fun x hx => hs x (List.mem_cons_of_mem t hx))]

/-- the tokens `splitSp` produces never contain a space -/
theorem splitSp_nospace_tokens : ∀ (s : Str), ∀ t ∈ splitSp s, 32 ∉ t
  | [], t, ht => by simp [splitSp] at ht; subst ht; simp
  | c :: cs, t, ht => by
    unfold splitSp at ht
    split at ht
    · rcases List.mem_cons.mp ht with rfl | ht
      · simp
      · exact splitSp_nospace_tokens cs t ht
    · rename_i hc
      have ih := splitSp_nospace_tokens cs
      split at ht
      · rename_i t0 ts heq
        rcases List.mem_cons.mp ht with rfl | ht
        · intro hm
          rcases List.mem_cons.mp hm with e | hm
          · exact hc e.symm
          · exact ih t0 (by rw [heq]; simp) hm
        · exact ih t (by rw [heq]; exact List.mem_cons_of_mem _ ht)
      · simp only [List.mem_singleton] at ht
        subst ht
        intro hm
        simp only [List.mem_singleton] at hm
        exact hc hm.symm

/-! ### small facts -/

theorem stripZone_id (a : Str) (h : 37 ∉ a) : stripZone a = a := by
  unfold stripZone
  induction a with
  | nil => rfl
  | cons c a ih =>
    have hc : c ≠ 37 := fun e => h (by simp [e])
    have ha : 37 ∉ a := fun e => h (List.mem_cons_of_mem c e)
    simp only [List.takeWhile_cons, bne_iff_ne, ne_eq, hc, not_false_eq_true, ↓reduceIte, ih ha]

theorem stripZone_no37 (a : Str) : 37 ∉ stripZone a := by
  unfold stripZone
  induction a with
  | nil => simp
  | cons c a ih =>
    simp only [List.takeWhile_cons]
    split
    · rename_i hc
      have hc : c ≠ 37 := by simpa using hc
      intro hm
      rcases List.mem_cons.mp hm with e | hm
      · exact hc e.symm
      · exact ih hm
    · simp

theorem stripZone_sub (a : Str) (x : Nat) (h : x ∈ stripZone a) : x ∈ a := by
  unfold stripZone at h
  exact (List.takeWhile_sublist _).subset h

/-- A prefix that reaches past `f` contains the separator. -/
theorem prefix_append_sep {p f rest : Str} {a : Nat} (h : p <+: f ++ a :: rest) : p <+: f ∨ a ∈ p := by
  induction f generalizing p with
  | nil =>
    cases p with
    | nil => left; exact List.nil_prefix
    | cons x p =>
      simp only [List.nil_append, List.cons_prefix_cons] at h
      right; simp [h.1]
  | cons c f ih =>
    cases p with
    | nil => left; exact List.nil_prefix
    | cons x p =>
      simp only [List.cons_append, List.cons_prefix_cons] at h
      rcases ih h.2 with h2 | h2
      · left; rw [h.1]; exact List.cons_prefix_cons.mpr ⟨rfl, h2⟩
      · right; exact List.mem_cons_of_mem x h2

end IceProofs.CandText
