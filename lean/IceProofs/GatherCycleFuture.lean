import IceProofs.GatherCycle
/-!
# A cancelled cycle that has not completed never completes (used by `C11_cancelled_cycle_no_nil`);
a cancelled cycle publishes nothing, in any continuation (used by `C11_cancelled_cycle_publishes_nothing`,
`C11_restart_silences_old_cycles`); the meaning of `nilLast`.
-/
namespace IceProofs.GatherCycle
open IceModel.GatherCycle

/-- what `nilLast` says: no candidate of cycle `i` after a `nil i` -/
theorem nilLast_spec (i : Nat) (l pre post : List Pub) (h : nilLast i l = true) (hl : l = pre ++ Pub.nil i :: post) :
    ∀ t, Pub.cand i t ∉ post := by
  subst hl
  induction pre with
  | nil =>
    simp [nilLast] at h
    intro t ht
    have := h _ ht
    simp [Pub.isCandOf] at this
  | cons p pre ih =>
    cases p with
    | cand c t => simp [nilLast] at h; exact ih h
    | nil j =>
      by_cases hj : j = i
      · subst hj
        simp [nilLast, List.all_append] at h
        intro t ht
        have := h.2.2 _ ht
        simp [Pub.isCandOf] at this
      · simp [nilLast, hj] at h; exact ih h

theorem get_app_old {cs : List Cycle} {i : Nat} {cy x : Cycle} (h : cs[i]? = some cy) : (cs ++ [x])[i]? = some cy := by
  have hlt : i < cs.length := by
    rcases Nat.lt_or_ge i cs.length with h' | h'
    · exact h'
    · rw [List.getElem?_eq_none h'] at h; cases h
  rw [List.getElem?_append_left hlt]; exact h

theorem cancelCur_keeps {s : State} {i : Nat} {cy : Cycle} (hget : s.cycles[i]? = some cy)
    (hc : cy.cancelled = true) (hm : cy.completed = false) :
    ∃ cy', (cancelCur s)[i]? = some cy' ∧ cy'.cancelled = true ∧ cy'.completed = false := by
  rw [get_cancelCur]
  split
  · exact ⟨cancelCycle cy, by simp [hget], rfl, hm⟩
  · exact ⟨cy, hget, hc, hm⟩

theorem set_keeps {cs : List Cycle} {c i : Nat} {cy0 cy cy' : Cycle} (h0 : cs[c]? = some cy0) (hget : cs[i]? = some cy)
    (hc : cy.cancelled = true) (hm : cy.completed = false)
    (hc' : cy'.cancelled = cy0.cancelled) (hm' : cy'.completed = cy0.completed) :
    ∃ x, (cs.set c cy')[i]? = some x ∧ x.cancelled = true ∧ x.completed = false := by
  rw [get_set_of_get h0]
  split
  · rename_i hci; subst hci
    rw [h0] at hget; cases hget
    exact ⟨cy', rfl, by rw [hc', hc], by rw [hm', hm]⟩
  · exact ⟨cy, hget, hc, hm⟩

/-- cancelled ∧ not completed is stable under every transition -/
theorem cancelled_step {s s' : State} (a : Action) {i : Nat} {cy : Cycle} (hget : s.cycles[i]? = some cy)
    (hc : cy.cancelled = true) (hm : cy.completed = false) (h : step s a = some s') :
    ∃ cy', s'.cycles[i]? = some cy' ∧ cy'.cancelled = true ∧ cy'.completed = false := by
  cases a with
  | gatherCall =>
    simp only [step] at h
    split at h
    · cases h; exact ⟨cy, hget, hc, hm⟩
    · split at h
      · cases h; exact ⟨cy, hget, hc, hm⟩
      · cases h
        obtain ⟨x, hx, h1, h2⟩ := cancelCur_keeps hget hc hm
        exact ⟨x, get_app_old hx, h1, h2⟩
  | restart u =>
    simp only [step] at h
    split at h
    · cases h; exact ⟨cy, hget, hc, hm⟩
    · cases h; exact cancelCur_keeps hget hc hm
  | close =>
    simp only [step] at h
    split at h
    · cases h
    · cases h; exact ⟨cy, hget, hc, hm⟩
  | cycleStart c =>
    simp only [step] at h
    split at h
    · rename_i cy0 h0
      split at h
      · cases h
      · split at h
        · cases h; exact set_keeps h0 hget hc hm rfl rfl
        · split at h
          · cases h; exact set_keeps h0 hget hc hm rfl rfl
          · cases h; exact set_keeps h0 hget hc hm rfl rfl
    · cases h
  | pubCheck c =>
    simp only [step] at h
    split at h
    · rename_i cy0 h0
      split at h
      · cases h; exact set_keeps h0 hget hc hm rfl rfl
      · cases h
    · cases h
  | pubTask c =>
    simp only [step] at h
    split at h
    · rename_i cy0 h0
      split at h
      · cases h; exact set_keeps h0 hget hc hm rfl rfl
      · cases h
    · cases h
  | pubSkip c =>
    simp only [step] at h
    split at h
    · rename_i cy0 h0
      split at h
      · cases h; exact set_keeps h0 hget hc hm rfl rfl
      · cases h
    · cases h
  | pubAbort c =>
    simp only [step] at h
    split at h
    · rename_i cy0 h0
      split at h
      · cases h; exact set_keeps h0 hget hc hm rfl rfl
      · cases h
    · cases h
  | pubRefuse c =>
    simp only [step] at h
    split at h
    · rename_i cy0 h0
      split at h
      · cases h; exact set_keeps h0 hget hc hm rfl rfl
      · cases h
    · cases h
  | gatherersDone c =>
    simp only [step] at h
    split at h
    · rename_i cy0 h0
      split at h
      · cases h; exact set_keeps h0 hget hc hm rfl rfl
      · cases h
    · cases h
  | cycleFinish c =>
    simp only [step] at h
    split at h
    · rename_i cy0 h0
      split at h
      · cases h
      · split at h
        · cases h; exact set_keeps h0 hget hc hm rfl rfl
        · split at h
          · cases h; exact set_keeps h0 hget hc hm rfl rfl
          · rename_i hcan
            cases h
            -- the Complete task is applied only to a cycle that is not cancelled: it is not cycle `i`
            simp only [get_set_of_get h0]
            split
            · rename_i hci; subst hci
              rw [h0] at hget; cases hget
              exact absurd hc hcan
            · exact ⟨cy, hget, hc, hm⟩
    · cases h

theorem cancelled_run {s s' : State} (as : List Action) {i : Nat} {cy : Cycle} (hget : s.cycles[i]? = some cy)
    (hc : cy.cancelled = true) (hm : cy.completed = false) (h : run s as = some s') :
    ∃ cy', s'.cycles[i]? = some cy' ∧ cy'.cancelled = true ∧ cy'.completed = false := by
  induction as generalizing s cy with
  | nil => simp [run] at h; subst h; exact ⟨cy, hget, hc, hm⟩
  | cons a as ih =>
    simp only [run] at h
    split at h
    · rename_i s1 hs
      obtain ⟨x, hx, h1, h2⟩ := cancelled_step a hget hc hm hs
      exact ih hx h1 h2 h
    · cases h

/-! ## a cancelled cycle stays cancelled and is silent -/

theorem cancelCur_keeps_c {s : State} {i : Nat} {cy : Cycle} (hget : s.cycles[i]? = some cy)
    (hc : cy.cancelled = true) : ∃ cy', (cancelCur s)[i]? = some cy' ∧ cy'.cancelled = true := by
  rw [get_cancelCur]
  split
  · exact ⟨cancelCycle cy, by simp [hget], rfl⟩
  · exact ⟨cy, hget, hc⟩

theorem set_keeps_c {cs : List Cycle} {c i : Nat} {cy0 cy cy' : Cycle} (h0 : cs[c]? = some cy0) (hget : cs[i]? = some cy)
    (hc : cy.cancelled = true) (hc' : cy'.cancelled = cy0.cancelled) :
    ∃ x, (cs.set c cy')[i]? = some x ∧ x.cancelled = true := by
  rw [get_set_of_get h0]
  split
  · rename_i hci; subst hci
    rw [h0] at hget; cases hget
    exact ⟨cy', rfl, by rw [hc', hc]⟩
  · exact ⟨cy, hget, hc⟩

/-- the step acts on a cycle whose context is not cancelled: it is not the cancelled cycle `i` -/
theorem ne_of_live {cs : List Cycle} {c i : Nat} {cy0 cy : Cycle} (h0 : cs[c]? = some cy0) (hget : cs[i]? = some cy)
    (hc : cy.cancelled = true) (h0c : cy0.cancelled = false) : c ≠ i := by
  intro hci; subst hci
  rw [h0] at hget; cases hget
  rw [hc] at h0c; cases h0c

/-- One step: the cancelled cycle `i` stays cancelled, and whatever the step appends to `published`
belongs to another cycle. -/
theorem silent_step {s s' : State} (a : Action) {i : Nat} {cy : Cycle} (hget : s.cycles[i]? = some cy)
    (hc : cy.cancelled = true) (h : step s a = some s') :
    ∃ cy' ext, s'.cycles[i]? = some cy' ∧ cy'.cancelled = true
      ∧ s'.published = s.published ++ ext ∧ ∀ p ∈ ext, Pub.cycle p ≠ i := by
  cases a with
  | gatherCall =>
    simp only [step] at h
    split at h
    · cases h; exact ⟨cy, [], hget, hc, by simp, by simp⟩
    · split at h
      · cases h; exact ⟨cy, [], hget, hc, by simp, by simp⟩
      · cases h
        obtain ⟨x, hx, h1⟩ := cancelCur_keeps_c hget hc
        exact ⟨x, [], get_app_old hx, h1, by simp, by simp⟩
  | restart u =>
    simp only [step] at h
    split at h
    · cases h; exact ⟨cy, [], hget, hc, by simp, by simp⟩
    · cases h
      obtain ⟨x, hx, h1⟩ := cancelCur_keeps_c hget hc
      exact ⟨x, [], hx, h1, by simp, by simp⟩
  | close =>
    simp only [step] at h
    split at h
    · cases h
    · cases h; exact ⟨cy, [], hget, hc, by simp, by simp⟩
  | cycleStart c =>
    simp only [step] at h
    split at h
    · rename_i cy0 h0
      split at h
      · cases h
      · split at h
        · cases h
          obtain ⟨x, hx, h1⟩ := set_keeps_c (cy' := { cy0 with pc := .done }) h0 hget hc rfl
          exact ⟨x, [], hx, h1, by simp, by simp⟩
        · split at h
          · cases h
            obtain ⟨x, hx, h1⟩ := set_keeps_c (cy' := { cy0 with pc := .done }) h0 hget hc rfl
            exact ⟨x, [], hx, h1, by simp, by simp⟩
          · cases h
            obtain ⟨x, hx, h1⟩ := set_keeps_c (cy' := { cy0 with pc := .gathering }) h0 hget hc rfl
            exact ⟨x, [], hx, h1, by simp, by simp⟩
    · cases h
  | pubCheck c =>
    simp only [step] at h
    split at h
    · rename_i cy0 h0
      split at h
      · cases h
        obtain ⟨x, hx, h1⟩ := set_keeps_c (cy' := { cy0 with checked := cy0.checked + 1 }) h0 hget hc rfl
        exact ⟨x, [], hx, h1, by simp, by simp⟩
      · cases h
    · cases h
  | pubTask c =>
    simp only [step] at h
    split at h
    · rename_i cy0 h0
      split at h
      · rename_i hcond
        cases h
        -- the in-task re-check: the publishing cycle is not cancelled, hence it is not cycle `i`
        have hne : c ≠ i := ne_of_live h0 hget hc hcond.2.2.2
        obtain ⟨x, hx, h1⟩ := set_keeps_c (cy' := { cy0 with checked := cy0.checked - 1 }) h0 hget hc rfl
        refine ⟨x, [Pub.cand c s.ufrag], hx, h1, rfl, ?_⟩
        intro p hp
        simp only [List.mem_singleton] at hp
        subst hp; exact hne
      · cases h
    · cases h
  | pubSkip c =>
    simp only [step] at h
    split at h
    · rename_i cy0 h0
      split at h
      · cases h
        obtain ⟨x, hx, h1⟩ := set_keeps_c (cy' := { cy0 with checked := cy0.checked - 1 }) h0 hget hc rfl
        exact ⟨x, [], hx, h1, by simp, by simp⟩
      · cases h
    · cases h
  | pubAbort c =>
    simp only [step] at h
    split at h
    · rename_i cy0 h0
      split at h
      · cases h
        obtain ⟨x, hx, h1⟩ := set_keeps_c (cy' := { cy0 with checked := cy0.checked - 1 }) h0 hget hc rfl
        exact ⟨x, [], hx, h1, by simp, by simp⟩
      · cases h
    · cases h
  | pubRefuse c =>
    simp only [step] at h
    split at h
    · rename_i cy0 h0
      split at h
      · cases h
        obtain ⟨x, hx, h1⟩ := set_keeps_c (cy' := { cy0 with checked := cy0.checked - 1 }) h0 hget hc rfl
        exact ⟨x, [], hx, h1, by simp, by simp⟩
      · cases h
    · cases h
  | gatherersDone c =>
    simp only [step] at h
    split at h
    · rename_i cy0 h0
      split at h
      · cases h
        obtain ⟨x, hx, h1⟩ := set_keeps_c (cy' := { cy0 with pc := .finishing }) h0 hget hc rfl
        exact ⟨x, [], hx, h1, by simp, by simp⟩
      · cases h
    · cases h
  | cycleFinish c =>
    simp only [step] at h
    split at h
    · rename_i cy0 h0
      split at h
      · cases h
      · split at h
        · cases h
          obtain ⟨x, hx, h1⟩ := set_keeps_c (cy' := { cy0 with pc := .done }) h0 hget hc rfl
          exact ⟨x, [], hx, h1, by simp, by simp⟩
        · split at h
          · cases h
            obtain ⟨x, hx, h1⟩ := set_keeps_c (cy' := { cy0 with pc := .done }) h0 hget hc rfl
            exact ⟨x, [], hx, h1, by simp, by simp⟩
          · rename_i hcan
            cases h
            have hne : c ≠ i := ne_of_live h0 hget hc (by simpa using hcan)
            obtain ⟨x, hx, h1⟩ := set_keeps_c (cy' := { cy0 with pc := .done, completed := true }) h0 hget hc rfl
            refine ⟨x, _, hx, h1, rfl, ?_⟩
            intro p hp
            split at hp
            · simp only [List.mem_singleton] at hp; subst hp; exact hne
            · cases hp
    · cases h

/-- Any continuation: the cancelled cycle `i` stays cancelled, `published` only grows, and nothing of
what is appended belongs to cycle `i`. -/
theorem silent_run {s s' : State} (as : List Action) {i : Nat} {cy : Cycle} (hget : s.cycles[i]? = some cy)
    (hc : cy.cancelled = true) (h : run s as = some s') :
    ∃ cy' ext, s'.cycles[i]? = some cy' ∧ cy'.cancelled = true
      ∧ s'.published = s.published ++ ext ∧ ∀ p ∈ ext, Pub.cycle p ≠ i := by
  induction as generalizing s cy with
  | nil => simp [run] at h; subst h; exact ⟨cy, [], hget, hc, by simp, by simp⟩
  | cons a as ih =>
    simp only [run] at h
    split at h
    · rename_i s1 hs
      obtain ⟨x, e1, hx, h1, hp1, hn1⟩ := silent_step a hget hc hs
      obtain ⟨y, e2, hy, h2, hp2, hn2⟩ := ih hx h1 h
      refine ⟨y, e1 ++ e2, hy, h2, by rw [hp2, hp1, List.append_assoc], ?_⟩
      intro p hp
      rcases List.mem_append.mp hp with hp | hp
      · exact hn1 p hp
      · exact hn2 p hp
    · cases h

/-- `published` only grows -/
theorem grows_step {s s' : State} (a : Action) (h : step s a = some s') : ∃ ext, s'.published = s.published ++ ext := by
  cases a <;> simp only [step] at h <;> (repeat' split at h) <;>
    first
    | (cases h; done)
    | (cases h; exact ⟨[], (List.append_nil _).symm⟩)
    | (cases h; exact ⟨_, rfl⟩)

theorem grows_run {s s' : State} (as : List Action) (h : run s as = some s') : ∃ ext, s'.published = s.published ++ ext := by
  induction as generalizing s with
  | nil => simp [run] at h; subst h; exact ⟨[], by simp⟩
  | cons a as ih =>
    simp only [run] at h
    split at h
    · rename_i s1 hs
      obtain ⟨e1, h1⟩ := grows_step a hs
      obtain ⟨e2, h2⟩ := ih h
      exact ⟨e1 ++ e2, by rw [h2, h1, List.append_assoc]⟩
    · cases h

/-- When every existing cycle is cancelled (the situation right after a `Restart` task), whatever is
published afterwards belongs to a cycle created later. -/
theorem all_cancelled_run {s s' : State} (as : List Action)
    (hall : ∀ (i : Nat) (cy : Cycle), s.cycles[i]? = some cy → cy.cancelled = true) (h : run s as = some s') :
    ∃ ext, s'.published = s.published ++ ext ∧ ∀ p ∈ ext, s.cycles.length ≤ Pub.cycle p := by
  obtain ⟨ext, hext⟩ := grows_run as h
  refine ⟨ext, hext, ?_⟩
  intro p hp
  rcases Nat.lt_or_ge (Pub.cycle p) s.cycles.length with hlt | hge
  · have hget : s.cycles[Pub.cycle p]? = some s.cycles[Pub.cycle p] := by simp [hlt]
    obtain ⟨_, ext', _, _, hp', hn'⟩ := silent_run as hget (hall _ _ hget) h
    have : ext = ext' := List.append_cancel_left (hext.symm.trans hp')
    subst this
    exact absurd rfl (hn' p hp)
  · exact hge

end IceProofs.GatherCycle
