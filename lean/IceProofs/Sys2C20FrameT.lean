import IceProofs.Sys2C20FrameQ
import IceProofs.AgentAuto
/-!
# C20 on `Sys2` — the frame relation along the timer path

Every function of the timer path is quiet, or leaves the agent Failed (and Failed persists to the end of the step).
`pingAll` moves pair states among Waiting / InProgress / Failed only; with unique pair ids no valid pair is touched.
-/
namespace IceProofs.C20S
open IceModel.AgentCore IceProofs.Agent IceProofs.AgentC06

/-- quiet, or Failed afterwards -/
def GF (wa : Bool) (a a' : Agent) : Prop := G wa none none none a a' ∨ a'.connState = .failed

theorem GF.refl (wa : Bool) (a : Agent) : GF wa a a := Or.inl (G.refl _ _ _ _ _)

theorem evoW_ids {a a' : Agent} (h : EvoW a a') (hnf : a'.connState ≠ .failed) : idsOf a' = idsOf a := by
  cases h with
  | evo h => exact h.ids
  | wf h => exact absurd h.failed hnf

/-- setting the pairs of an id that are all not valid to another not-valid state -/
theorem G.modPair_state {wa : Bool} (a : Agent) (id : Nat) (s : PairState) (hs : s ≠ .succeeded)
    (hq : ∀ q ∈ a.checklist, q.id = id → q.state ≠ .succeeded) :
    G wa none none none a (a.modPair id fun q => { q with state := s }) := by
  refine G.modPair a id _ (fun _ => rfl) (fun _ => rfl) (fun _ => rfl) ?_
  intro _ p hp e
  have h1 := hq p hp e
  unfold nk
  have e1 : (p.state == PairState.succeeded) = false := by
    cases hh : p.state <;> simp_all
  have e2 : (s == PairState.succeeded) = false := by
    cases hh : s <;> simp_all
  simp only [e1, e2]

theorem pairById_unique {a : Agent} (hn : (idsOf a).Nodup) {id : Nat} {p q : Pair} (hp : a.pairById id = some p)
    (hq : q ∈ a.checklist) (hid : q.id = id) : q = p :=
  pair_unique hn hp hq hid

theorem pingStep_g {wa : Bool} (now : Nat) (a : Agent) (o : List Out) (id : Nat) (hn : (idsOf a).Nodup) :
    G wa none none none a (C03.pingStep now (a, o) id).1 ∧ idsOf (C03.pingStep now (a, o) id).1 = idsOf a := by
  unfold C03.pingStep
  simp only []
  cases hp : a.pairById id with
  | none => exact ⟨G.refl _ _ _ _ _, rfl⟩
  | some p =>
    simp only []
    have tail : ∀ (b : Agent) (q : Pair), G wa none none none a b → idsOf b = idsOf a →
        (∀ x ∈ b.checklist, x.id = id → x.state ≠ .succeeded) →
        G wa none none none a
        (if q.reqCount > b.cfg.maxBindingRequests then
          (b.modPair id fun p => { p with state := .failed }, o)
        else
          match b.localOf q.l, b.remoteOf q.r with
          | some l, some r =>
            let (a, o') := b.ping now l r
            (a.modPair id fun p => { p with reqCount := p.reqCount + 1 }, o ++ o')
          | _, _ => (b, o)).1 ∧
        idsOf (if q.reqCount > b.cfg.maxBindingRequests then
          (b.modPair id fun p => { p with state := .failed }, o)
        else
          match b.localOf q.l, b.remoteOf q.r with
          | some l, some r =>
            let (a, o') := b.ping now l r
            (a.modPair id fun p => { p with reqCount := p.reqCount + 1 }, o ++ o')
          | _, _ => (b, o)).1 = idsOf a := by
      intro b q hb hib hqb
      split
      · exact ⟨hb.trans (G.modPair_state b id .failed (by decide) hqb),
          (idsOf_modPair b id (fun p => { p with state := .failed }) (fun _ => rfl)).trans hib⟩
      · split
        · rename_i l r _ _
          refine ⟨(hb.trans (ping_g b now l r)).trans (G.modPair_keep _ id
            (fun p => { p with reqCount := p.reqCount + 1 }) (fun _ => rfl) (fun _ => rfl) (fun _ => rfl)
            (fun _ => rfl)), ?_⟩
          exact ((idsOf_modPair (b.ping now l r).1 id (fun p => { p with reqCount := p.reqCount + 1 })
            (fun _ => rfl)).trans (Same.ping b now l r).evo.ids).trans hib
        · exact ⟨hb, hib⟩
    by_cases hw : p.state = .waiting
    · have e : (p.state == PairState.waiting) = true := by simp [hw]
      simp only [e, if_true, Bool.not_true, Bool.false_eq_true, if_false]
      refine tail _ _ (G.modPair_state a id .inProgress (by decide) ?_)
        (idsOf_modPair a id (fun q => { q with state := .inProgress }) (fun _ => rfl)) ?_
      · intro q hq hid
        rw [pairById_unique hn hp hq hid, hw]; decide
      · intro x hx hid
        obtain ⟨y, _, h | h⟩ := C03.mem_updPair (l := a.checklist) hx
        · rw [h.2]; simp
        · rw [h.2] at hid; exact absurd hid h.1
    · have e : (p.state == PairState.waiting) = false := by simp [hw]
      simp only [e, Bool.false_eq_true, if_false]
      by_cases hip : p.state = .inProgress
      · have e2 : (p.state == PairState.inProgress) = true := by simp [hip]
        simp only [e2, Bool.not_true, Bool.false_eq_true, if_false]
        refine tail _ _ (G.refl _ _ _ _ _) rfl ?_
        intro q hq hid
        rw [pairById_unique hn hp hq hid, hip]; decide
      · have e2 : (p.state == PairState.inProgress) = false := by simp [hip]
        simp only [e2, Bool.not_false, if_true]
        exact ⟨G.refl _ _ _ _ _, trivial⟩

theorem pingAll_g {wa : Bool} (a : Agent) (now : Nat) (hn : (idsOf a).Nodup) :
    G wa none none none a (a.pingAll now).1 := by
  rw [C03.pingAll_eq]
  have : G wa none none none a ((a.checklist.map (·.id)).foldl (C03.pingStep now) (a, [])).1 ∧
      idsOf ((a.checklist.map (·.id)).foldl (C03.pingStep now) (a, [])).1 = idsOf a := by
    apply IceProofs.List.foldl_inv
      (fun (acc : Agent × List Out) => G wa none none none a acc.1 ∧ idsOf acc.1 = idsOf a)
    · exact ⟨G.refl _ _ _ _ _, rfl⟩
    · intro b id hb
      obtain ⟨b1, o⟩ := b
      have hn1 : (idsOf b1).Nodup := by rw [hb.2]; exact hn
      obtain ⟨h1, h2⟩ := pingStep_g (wa := wa) now b1 o id hn1
      exact ⟨hb.1.trans h1, h2.trans hb.2⟩
  exact this.1

theorem validateSelected_gf {wa : Bool} (a : Agent) (now : Nat) : GF wa a (a.validateSelected now).1 := by
  unfold Agent.validateSelected
  split
  · exact GF.refl _ _
  · exact setConnState_gf a _

theorem keepalive_g {wa : Bool} (a : Agent) (now : Nat) : G wa none none none a (a.keepalive now).1 := by
  unfold Agent.keepalive
  split
  · exact G.refl _ _ _ _ _
  · split
    · split
      · exact ping_g _ _ _ _
      · exact G.refl _ _ _ _ _
    · exact G.refl _ _ _ _ _

theorem keepalive_connState (a : Agent) (now : Nat) : (a.keepalive now).1.connState = a.connState := by
  unfold Agent.keepalive
  split
  · rfl
  · split
    · split
      · exact sendRequest_connState _ _ _ _ _ _
      · rfl
    · rfl

theorem nominate_g {wa : Bool} (a : Agent) (now : Nat) (p : Pair) : G wa none none none a (a.nominate now p).1 := by
  unfold Agent.nominate
  split
  · exact sendRequest_g _ _ _ _ _ _ (Or.inl rfl)
  · exact G.refl _ _ _ _ _

/-- the automatic-renomination block: quiet — the one valued transaction it may add is logged in `nomIssued` -/
theorem autoRenom_g {wa : Bool} (a : Agent) (now : Nat) (hn : (idsOf a).Nodup) :
    G wa none none none a (a.autoRenom now).1 := by
  refine (IceProofs.Auto.autoRenom_closed (P := fun x => G wa none none none a x.1 ∧ idsOf x.1 = idsOf a) ?_ a
    ⟨G.refl _ _ _ _ _, rfl⟩).1
  exact {
    mark := fun b _ id p h hp hw => ⟨h.1.trans (G.modPair_state b id .inProgress (by decide) (fun q hq hid => by
        rw [pairById_unique (by rw [h.2]; exact hn) hp hq hid, hw]; decide)),
      (idsOf_modPair b id (fun q => { q with state := .inProgress }) (fun _ => rfl)).trans h.2⟩
    ping := fun b _ l r h _ _ => ⟨h.1.trans (ping_g b now l r), (Same.ping b now l r).evo.ids.trans h.2⟩
    time := fun _ _ h => ⟨h.1.trans (G.of_eq rfl rfl rfl rfl (fun _ h => h) rfl), h.2⟩
    count := fun _ _ h => ⟨h.1.trans (G.of_eq rfl rfl rfl rfl (fun _ h => h) rfl), h.2⟩
    issue := fun b _ l r v h _ _ _ _ _ => ⟨h.1.trans (issueRequest_g b now l r v),
      (Same.sendRequest b now l r true _).evo.ids.trans h.2⟩ }

theorem autoRenom_connState (a : Agent) (now : Nat) : (a.autoRenom now).1.connState = a.connState :=
  IceProofs.Auto.autoRenom_proj (fun x => x.connState) now (fun _ _ _ => rfl)
    (fun b l r u n => sendRequest_connState b now l r u n) (fun _ _ => rfl) (fun _ _ => rfl) (fun _ _ => rfl) a

theorem valKeepAuto_gf {wa : Bool} (a : Agent) (now : Nat) (hn : (idsOf a).Nodup) :
    GF wa a (C03.valKeepAuto a now).1 := by
  unfold C03.valKeepAuto
  have h1 := validateSelected_gf (wa := wa) a now
  have hw := EvoW.validateSelected a now
  rcases hv : a.validateSelected now with ⟨a1, o1, ok⟩
  rw [hv] at h1 hw
  simp only [] at h1 hw ⊢
  split
  · rcases h1 with h1 | h1
    · have hk := keepalive_g (wa := wa) a1 now
      have hn2 : (idsOf (a1.keepalive now).1).Nodup := by
        have hf : a1.connState ≠ .failed ∨ a1.connState = .failed := by
          by_cases h : a1.connState = .failed
          · exact Or.inr h
          · exact Or.inl h
        rcases hf with hf | hf
        · rw [(Same.keepalive a1 now).evo.ids, evoW_ids hw hf]; exact hn
        · rw [(Same.keepalive a1 now).evo.ids]
          cases hw with
          | evo e => rw [e.ids]; exact hn
          | wf w => unfold idsOf; rw [w.wiped.1]; exact List.nodup_nil
      exact Or.inl ((h1.trans hk).trans (autoRenom_g _ now hn2))
    · exact Or.inr ((autoRenom_connState _ now).trans ((keepalive_connState a1 now).trans h1))
  · exact h1

theorem valKeep_gf {wa : Bool} (a : Agent) (now : Nat) : GF wa a (C03.valKeep a now).1 := by
  unfold C03.valKeep
  have h1 := validateSelected_gf (wa := wa) a now
  rcases hv : a.validateSelected now with ⟨a1, o1, ok⟩
  rw [hv] at h1
  simp only []
  split
  · rcases h1 with h1 | h1
    · exact Or.inl (h1.trans (keepalive_g a1 now))
    · exact Or.inr ((keepalive_connState a1 now).trans h1)
  · exact h1

theorem contactCandidates_gf {wa : Bool} (a : Agent) (now : Nat) (hn : (idsOf a).Nodup) :
    GF wa a (a.contactCandidates now).1 := by
  unfold Agent.contactCandidates
  split
  · split
    · exact valKeepAuto_gf a now hn
    · split
      · exact Or.inl (nominate_g _ _ _)
      · split
        · exact GF.refl _ _
        · split
          · split
            · split
              · rename_i p _ _ _ _ _ _ _ _
                refine Or.inl (G.trans (b := { (a.modPair p.id fun p => { p with nominated := true }) with
                    nominatedPair := some p.id }) ?_ (nominate_g _ _ _))
                exact (G.modPair_keep a p.id (fun p => { p with nominated := true }) (fun _ => rfl)
                  (fun _ => rfl) (fun _ => rfl) (fun _ => rfl)).trans (G.of_eq rfl rfl rfl rfl (fun _ h => h) rfl)
              · exact Or.inl (pingAll_g a now hn)
            · exact Or.inl (pingAll_g a now hn)
          · exact Or.inl (pingAll_g a now hn)
  · split
    · exact validateSelected_gf a now
    · split
      · exact valKeep_gf a now
      · exact Or.inl (pingAll_g a now hn)

theorem finish_gf {wa : Bool} {a : Agent} {r : Agent × List Out} (h : GF wa a r.1) : GF wa a (C03.finish r).1 := by
  rcases h with h | h
  · exact Or.inl (h.trans (G.of_eq rfl rfl rfl rfl (fun _ h => h) rfl))
  · exact Or.inr h

theorem chk_g {wa : Bool} (a : Agent) (now : Nat) : G wa none none none a (C03.chk a now) := by
  unfold C03.chk
  split
  · exact G.of_eq rfl rfl rfl rfl (fun _ h => h) rfl
  · exact G.refl _ _ _ _ _

theorem chk_ids (a : Agent) (now : Nat) : idsOf (C03.chk a now) = idsOf a := by
  unfold C03.chk
  split <;> rfl

theorem GF.after {wa : Bool} {a b c : Agent} (h1 : G wa none none none a b) (h2 : GF wa b c) : GF wa a c := by
  rcases h2 with h2 | h2
  · exact Or.inl (h1.trans h2)
  · exact Or.inr h2

theorem contact_gf {wa : Bool} (a : Agent) (now : Nat) (hn : (idsOf a).Nodup) : GF wa a (a.contact now).1 := by
  rw [C03.contact_eq]
  split
  · exact GF.refl _ _
  · split
    · exact finish_gf (r := (a, [])) (GF.refl _ _)
    · split
      · exact finish_gf (GF.after (chk_g a now) (setConnState_gf _ _))
      · exact finish_gf (GF.after (chk_g a now) (contactCandidates_gf _ _ (by rw [chk_ids]; exact hn)))
    · exact finish_gf (contactCandidates_gf a now hn)

theorem runForced_gf {wa : Bool} (a : Agent) (now : Nat) (hn : (idsOf a).Nodup) : GF wa a (a.runForced now).1 := by
  unfold Agent.runForced
  split
  · have h := contact_gf (wa := wa) { a with forcePending := false } now hn
    rcases hk : Agent.contact { a with forcePending := false } now with ⟨a1, o1⟩
    rw [hk] at h
    simp only []
    have h0 : G wa none none none a ({ a with forcePending := false } : Agent) :=
      G.of_eq rfl rfl rfl rfl (fun _ h => h) rfl
    rcases h with h | h
    · exact Or.inl ((h0.trans h).trans (b := a1) (G.of_eq rfl rfl rfl rfl (fun _ h => h) rfl))
    · exact Or.inr h
  · exact GF.refl _ _

theorem runTimers_gf {wa : Bool} (a : Agent) (now fuel : Nat) (hn : (idsOf a).Nodup) :
    GF wa a (a.runTimers now fuel).1 := by
  induction fuel generalizing a with
  | zero => exact GF.refl _ _
  | succ n ih =>
    unfold Agent.runTimers
    split
    · rename_i t _
      split
      · have h := contact_gf (wa := wa) a t hn
        have hw := EvoW.contact a t
        rcases hk : a.contact t with ⟨a1, o1⟩
        rw [hk] at h hw
        simp only [] at hw ⊢
        by_cases hf : a1.connState = .failed
        · have hs := runTimers_failed { a1 with nextTick := some (t + a1.interval) } now n hf
          rcases hr : Agent.runTimers { a1 with nextTick := some (t + a1.interval) } now n with ⟨a2, o2⟩
          rw [hr] at hs
          simp only []
          exact Or.inr (hs.connState.trans hf)
        · have hg : G wa none none none a a1 := by
            rcases h with h | h
            · exact h
            · exact absurd h hf
          have hn1 : (idsOf ({ a1 with nextTick := some (t + a1.interval) } : Agent)).Nodup := by
            have : idsOf a1 = idsOf a := evoW_ids hw hf
            show (idsOf a1).Nodup
            rw [this]; exact hn
          have h2 := ih { a1 with nextTick := some (t + a1.interval) } hn1
          rcases hr : Agent.runTimers { a1 with nextTick := some (t + a1.interval) } now n with ⟨a2, o2⟩
          rw [hr] at h2
          simp only []
          exact GF.after (hg.trans (c := { a1 with nextTick := some (t + a1.interval) })
            (G.of_eq rfl rfl rfl rfl (fun _ h => h) rfl)) h2
      · exact GF.refl _ _
    · exact GF.refl _ _

end IceProofs.C20S
