import IceProofs.Sys2C20Defs
import IceProofs.AgentAuto
/-!
# C20 on `Sys2` — frame walk for the ghost log `nomIssued`

`Agent.ilog` projects an agent on the fields `nomIssued` (the nominations it has issued) and `nomCounter` (the state of
its value generator).  Every helper of `step` below the timer ticks leaves the projection alone; the writers are `step` on
`.renominate` (appends to the log) and `Agent.autoIssue` (the automatic check, inside `contactCandidates`: appends to the
log and draws a value from the counter).
-/
namespace IceProofs.C20S

structure ILog where
  v : List (Nat × Nat × Nat)
  c : Nat

end IceProofs.C20S

namespace IceModel.AgentCore
/-- the ghost log of issued nominations and the counter of the value generator, boxed -/
def Agent.ilog (a : Agent) : IceProofs.C20S.ILog := ⟨a.nomIssued, a.nomCounter⟩
end IceModel.AgentCore

namespace IceProofs.C20S
open IceModel.AgentCore IceProofs.Agent

@[simp] theorem ilog_mk (cfg tieBreaker controlling started closed connState localUfrag localPwd remoteUfrag remotePwd
    locals remotes checklist nextPairID nextUid nextTid tag pending selected selStart nominatedPair lastNomination answeredNomination
    lastSeen checkingStart checkingTimeout forcePending nextTick caches rx connBytesSent connBytesRecv
    onConnectedFired generation nomIssued lastRenomTime nomCounter) :
    (Agent.mk cfg tieBreaker controlling started closed connState localUfrag localPwd remoteUfrag remotePwd
    locals remotes checklist nextPairID nextUid nextTid tag pending selected selStart nominatedPair lastNomination answeredNomination
    lastSeen checkingStart checkingTimeout forcePending nextTick caches rx connBytesSent connBytesRecv
    onConnectedFired generation nomIssued lastRenomTime nomCounter).ilog = ⟨nomIssued, nomCounter⟩ := rfl

@[simp] theorem ilog_eta (y : Agent) : ILog.mk y.nomIssued y.nomCounter = y.ilog := rfl
theorem ilog_v (a : Agent) : a.ilog.v = a.nomIssued := rfl

theorem ilog_counter {a b : Agent} (h : b.ilog = a.ilog) : b.nomCounter = a.nomCounter :=
  congrArg ILog.c h

theorem ilog_field {a b : Agent} (h : b.ilog = a.ilog) : b.nomIssued = a.nomIssued :=
  congrArg ILog.v h

theorem fst_ilog {α : Type} {x : Agent × α} {a' : Agent} {r : α} (h : x = (a', r)) : a'.ilog = x.1.ilog := by
  subst h; rfl

open Lean Elab Tactic Meta in
/-- for every hypothesis `h : e = (a', r)` with `a' : Agent` add `a'.ilog = e.1.ilog` (proof automation only) -/
elab "ilog_pair_eqs" : tactic => withMainContext do
  let lctx ← getLCtx
  for d in lctx do
    if d.isImplementationDetail then continue
    let ty ← instantiateMVars d.type
    if let some (_, _, rhs) := ty.eq? then
      if rhs.isAppOfArity ``Prod.mk 4 then
        try
          let pf ← mkAppM ``fst_ilog #[d.toExpr]
          let t ← inferType pf
          liftMetaTactic fun g => do
            let g ← g.assert `hc t pf
            let (_, g) ← g.intro1
            return [g]
        catch _ => pure ()

/-- split every `if`/`match`, turn the equations of destructured calls into `ilog` facts, simplify -/
macro "ilog_cases" : tactic =>
  `(tactic| ((try simp only []); (repeat' split) <;> (ilog_pair_eqs; (try simp at *) <;> (try simp_all))))

/-! ### record updates -/
@[simp] theorem ilog_modPair (a : Agent) (id : Nat) (f : Pair → Pair) : (a.modPair id f).ilog = a.ilog := rfl
@[simp] theorem ilog_seenLocalSent (a : Agent) (u n : Nat) : (a.seenLocalSent u n).ilog = a.ilog := rfl
@[simp] theorem ilog_seenRemoteRecv (a : Agent) (u n : Nat) : (a.seenRemoteRecv u n).ilog = a.ilog := rfl
@[simp] theorem ilog_invalidatePending (a : Agent) (n : Nat) : (a.invalidatePending n).ilog = a.ilog := rfl
@[simp] theorem ilog_wipe (a : Agent) : a.wipe.ilog = a.ilog := rfl
@[simp] theorem ilog_requestCheck (a : Agent) : a.requestCheck.ilog = a.ilog := rfl

@[simp] theorem ilog_setConnState (a : Agent) (s : ConnState) : (a.setConnState s).1.ilog = a.ilog := by
  unfold Agent.setConnState
  split
  · rfl
  · split <;> rfl

@[simp] theorem ilog_select (a : Agent) (id : Nat) : (a.select id).1.ilog = a.ilog := by
  unfold Agent.select
  simp

/-! ### sending -/
@[simp] theorem ilog_sendRequest (a : Agent) (now : Nat) (l r : Cand) (u : Bool) (n : Option Nat) :
    (a.sendRequest now l r u n).1.ilog = a.ilog := by
  unfold Agent.sendRequest
  simp
  split <;> simp

@[simp] theorem ilog_ping (a : Agent) (now : Nat) (l r : Cand) : (a.ping now l r).1.ilog = a.ilog := by
  unfold Agent.ping; simp

@[simp] theorem ilog_sendSuccess (a : Agent) (now : Nat) (m : Msg) (l r : Cand) :
    (a.sendSuccess now m l r).1.ilog = a.ilog := by
  unfold Agent.sendSuccess
  simp
  split <;> simp

@[simp] theorem ilog_pingAll (a : Agent) (now : Nat) : (a.pingAll now).1.ilog = a.ilog := by
  unfold Agent.pingAll
  refine IceProofs.List.foldl_inv (fun acc : Agent × List Out => acc.1.ilog = a.ilog) _ _ _ rfl ?_
  · intro acc id h
    obtain ⟨b, o⟩ := acc
    simp only at h ⊢
    split
    · exact h
    · split
      · split
        · exact h
        · split
          · simp [h]
          · split <;> simp [h]
      · split
        · exact h
        · split
          · simp [h]
          · split <;> simp [h]

/-! ### timer-driven work -/
@[simp] theorem ilog_validateSelected (a : Agent) (now : Nat) : (a.validateSelected now).1.ilog = a.ilog := by
  unfold Agent.validateSelected
  split <;> simp

@[simp] theorem ilog_keepalive (a : Agent) (now : Nat) : (a.keepalive now).1.ilog = a.ilog := by
  unfold Agent.keepalive
  split
  · rfl
  · split
    · split <;> simp
    · rfl

@[simp] theorem ilog_nominate (a : Agent) (now : Nat) (p : Pair) : (a.nominate now p).1.ilog = a.ilog := by
  unfold Agent.nominate
  split <;> simp

/-! ### candidates and pairs -/
@[simp] theorem ilog_addPair (a : Agent) (l r : Cand) : (a.addPair l r).1.ilog = a.ilog := rfl

@[simp] theorem ilog_replaceRemoteInPairs (a : Agent) (old c : Cand) :
    (a.replaceRemoteInPairs old c).1.ilog = a.ilog := by
  unfold Agent.replaceRemoteInPairs
  refine IceProofs.List.foldl_inv (fun acc : Agent × List Out => acc.1.ilog = a.ilog) _ _ _ rfl ?_
  intro acc id h
  obtain ⟨b, o⟩ := acc
  simp only at h ⊢
  ilog_cases

@[simp] theorem ilog_addRemoteCandidate (a : Agent) (c : Cand) : (a.addRemoteCandidate c).1.ilog = a.ilog := by
  unfold Agent.addRemoteCandidate
  split
  · rfl
  split
  · rfl
  simp only [ilog_requestCheck]
  refine IceProofs.List.foldl_inv (fun b : Agent => b.ilog = a.ilog) _ _ _ ?_ ?_
  · simp only [ilog_mk, ilog_eta]
    refine IceProofs.List.foldl_inv (fun acc : Agent × List Out => acc.1.ilog = a.ilog) _ _ _ ?_ ?_
    · simp
    · intro acc old h
      simp [h]
  · intro b l h
    split <;> simp [h]

@[simp] theorem ilog_addLocalCandidate (a : Agent) (c : Cand) : (a.addLocalCandidate c).1.ilog = a.ilog := by
  unfold Agent.addLocalCandidate
  split
  · rfl
  split
  · rfl
  simp only [ilog_requestCheck]
  refine IceProofs.List.foldl_inv (fun b : Agent => b.ilog = a.ilog) _ _ _ ?_ ?_
  · simp
  · intro b l h
    simp [h]

/-! ### inbound STUN -/
@[simp] theorem ilog_takePending (a : Agent) (now tid : Nat) : (a.takePending now tid).1.ilog = a.ilog := by
  unfold Agent.takePending
  ilog_cases

@[simp] theorem ilog_ctlHandleRequest (a : Agent) (now : Nat) (m : Msg) (l r : Cand) :
    (a.ctlHandleRequest now m l r).1.ilog = a.ilog := by
  unfold Agent.ctlHandleRequest
  ilog_cases

@[simp] theorem ilog_cldNominate (a : Agent) (m : Msg) (id : Nat) : (cldNominate a m id).1.ilog = a.ilog := by
  unfold cldNominate
  ilog_cases

@[simp] theorem ilog_cldProceed (a : Agent) (now : Nat) (m : Msg) (l r : Cand) (id : Nat) :
    (cldProceed a now m l r id).1.ilog = a.ilog := by
  unfold cldProceed
  ilog_cases

@[simp] theorem ilog_ensurePair (a : Agent) (l r : Cand) : (ensurePair a l r).1.ilog = a.ilog := by
  unfold ensurePair
  split <;> rfl

@[simp] theorem ilog_cldHandleRequest (a : Agent) (now : Nat) (m : Msg) (l r : Cand) :
    (a.cldHandleRequest now m l r).1.ilog = a.ilog := by
  rw [cldHandleRequest_nf]
  simp only []
  split
  · simp
  · simp

/-! ### data plane -/
@[simp] theorem ilog_writeVia (a : Agent) (now : Nat) (p : Pair) (len : Nat) : (a.writeVia now p len).1.ilog = a.ilog := by
  unfold Agent.writeVia
  ilog_cases

@[simp] theorem ilog_write (a : Agent) (now len : Nat) (s : Bool) : (a.write now len s).1.ilog = a.ilog := by
  unfold Agent.write
  ilog_cases

@[simp] theorem ilog_writeToPair (a : Agent) (now id len : Nat) (s : Bool) :
    (a.writeToPair now id len s).1.ilog = a.ilog := by
  unfold Agent.writeToPair
  ilog_cases

@[simp] theorem ilog_inboundData (a : Agent) (now : Nat) (l : Cand) (src len : Nat) :
    (a.inboundData now l src len).1.ilog = a.ilog := by
  unfold Agent.inboundData Agent.enqueue
  ilog_cases

@[simp] theorem ilog_resetSelector (a : Agent) (n : Nat) : (a.resetSelector n).ilog = a.ilog := rfl

@[simp] theorem ilog_handleSuccess (a : Agent) (now : Nat) (m : Msg) (l r : Cand) (src : Nat) :
    (a.handleSuccess now m l r src).1.ilog = a.ilog := by
  unfold Agent.handleSuccess
  ilog_cases

@[simp] theorem ilog_handleInbound (a : Agent) (now : Nat) (l : Cand) (src : Nat) (m : Msg) :
    (a.handleInbound now l src m).1.ilog = a.ilog := by
  unfold Agent.handleInbound
  ilog_cases

@[simp] theorem ilog_doRestart (a : Agent) (now : Nat) (x p : String) : (a.doRestart now x p).1.ilog = a.ilog := by
  unfold Agent.doRestart
  ilog_cases

end IceProofs.C20S
