import IceProofs.TcpMuxDrained
/-!
# Lemmas behind the C15 property theorems (computations of single steps of the TCP-mux model)
-/
namespace IceProofs.TcpMux
open IceModel.TcpMux

theorem classify_iff (f : Frame) (u : String) :
    classify f = some u ↔ f.len ≤ 512 ∧ f.kind = .user u := by
  unfold classify firstFrameMax
  split
  · rename_i h
    cases hk : f.kind <;> simp [h]
  · rename_i h; simp [h]

theorem classify_none_iff (f : Frame) :
    classify f = none ↔ ¬ (f.len ≤ 512 ∧ ∃ u, f.kind = .user u) := by
  unfold classify firstFrameMax
  split
  · rename_i h
    cases hk : f.kind <;> simp [h]
  · rename_i h; simp [h]

theorem run_cfg (s : State) (ops : List Op) (hi : Inv s) (h2 : Inv2 s) : (run s ops).cfg = s.cfg :=
  (run_ext s ops hi h2).cfg

theorem reachable_cfg (cfg : Config) (ops : List Op) : (run (init cfg) ops).cfg = cfg :=
  run_cfg _ ops (inv_init cfg) (inv2_init cfg)

/-- a reader given exactly one frame that fits the receive buffer -/
theorem drain_single (cap k p : Nat) (peer : Addr) (f : Frame) (pc : PConn) (hl : f.len ≤ receiveMTU) :
    drain cap k p peer [.frame f] pc =
      if pc.recvQ.length < cap then
        { pc := enqueue pc { src := peer, fid := f.fid, len := f.len, err := none, conn := k },
          phase := .attached p, reader := .idle, inbox := [] }
      else
        { pc := { pc with blockedQ := pc.blockedQ ++ [k] }, phase := .attached p,
          reader := .blocked { src := peer, fid := f.fid, len := f.len, err := none, conn := k } false, inbox := [] } := by
  unfold drain
  rw [if_neg (by omega)]
  simp only
  split
  · unfold drain; rfl
  · rfl

theorem lookupConn_some_of_mem {conns : List (Addr × Nat)} (hn : (conns.map (·.1)).Nodup) {a : Addr} {k : Nat}
    (h : (a, k) ∈ conns) : lookupConn conns a = some k := by
  unfold lookupConn
  cases hf : conns.find? (fun e => decide (e.1 = a)) with
  | none =>
    have := List.find?_eq_none.1 hf (a, k) h
    simp at this
  | some e =>
    have h1 := List.find?_some hf
    have h2 := List.mem_of_find?_eq_some hf
    simp only [decide_eq_true_eq] at h1
    have : e = (a, e.2) := by rw [← h1]
    rw [this] at h2
    simp only [Option.map_some, Option.some.injEq]
    exact nodup_fst_unique hn h2 h

theorem lookupConn_some_mem {conns : List (Addr × Nat)} {a : Addr} {k : Nat}
    (h : lookupConn conns a = some k) : (a, k) ∈ conns := by
  unfold lookupConn at h
  cases hf : conns.find? (fun e => decide (e.1 = a)) with
  | none => rw [hf] at h; cases h
  | some e =>
    rw [hf] at h
    simp only [Option.map_some, Option.some.injEq] at h
    have h1 := List.find?_some hf
    have h2 := List.mem_of_find?_eq_some hf
    simp only [decide_eq_true_eq] at h1
    rw [← h1, ← h]; exact h2

/-- the packet a first (or later) frame becomes -/
def pktOf (peer : Addr) (k : Nat) (f : Frame) : Pkt := { src := peer, fid := f.fid, len := f.len, err := none, conn := k }

/-- what the accepting branch of `AddConn` leaves behind -/
theorem addConn_attached (s : State) (p k : Nat) (t : Tcp) (f : Frame) (pc : PConn)
    (ht : s.tcps[k]? = some t) (hp : s.pcs[p]? = some pc) (hopen : pc.closed = false)
    (hnd : lookupConn pc.conns t.peer = none) (hl : f.len ≤ receiveMTU) :
    ∃ t' pc', (addConn s p k t f).tcps[k]? = some t' ∧ (addConn s p k t f).pcs[p]? = some pc' ∧
      t'.phase = .attached p ∧ t'.pc = some p ∧ t'.peer = t.peer ∧ t'.sent = t.sent ++ [f] ∧
      pc'.key = pc.key ∧ pc'.closed = false ∧ pc'.conns = pc.conns ++ [(t.peer, k)] ∧
      ((pc.recvQ.length < s.cfg.cap ∧ t'.reader = .idle ∧ pc'.hist = pc.hist ++ [pktOf t.peer k f] ∧
          pc'.recvQ = pc.recvQ ++ [pktOf t.peer k f]) ∨
       (¬ pc.recvQ.length < s.cfg.cap ∧ t'.reader = .blocked (pktOf t.peer k f) false ∧
          pc'.blockedQ = pc.blockedQ ++ [k] ∧ pc'.recvQ = pc.recvQ ∧ pc'.hist = pc.hist)) ∧
      (∀ j, j ≠ k → (addConn s p k t f).tcps[j]? = s.tcps[j]?) ∧
      (∀ q, q ≠ p → (addConn s p k t f).pcs[q]? = s.pcs[q]?) := by
  unfold addConn
  simp only [hp, hopen, hnd, Option.isSome_none, Bool.or_self, Bool.false_eq_true, if_false]
  -- the state handed to the reader
  generalize hs3 : setTcp (setPc s p (fun pc => { pc with conns := pc.conns ++ [(t.peer, k)] })) k
      (fun t => { t with phase := .attached p, reader := .idle, pc := some p, inbox := [.frame f], sent := t.sent ++ [f] }) = s3
  have h3t : s3.tcps[k]? = some { t with phase := .attached p, reader := .idle, pc := some p, inbox := [.frame f], sent := t.sent ++ [f] } := by
    rw [← hs3]; simp only [setTcp, setPc]; rw [getElem?_modify_eq, ht]; rfl
  have h3p : s3.pcs[p]? = some { pc with conns := pc.conns ++ [(t.peer, k)] } := by
    rw [← hs3]; simp only [setTcp, setPc]; rw [getElem?_modify_eq, hp]; rfl
  have h3c : s3.cfg = s.cfg := by rw [← hs3]; rfl
  have h3tj : ∀ j, j ≠ k → s3.tcps[j]? = s.tcps[j]? := by
    intro j hj; rw [← hs3]; simp only [setTcp, setPc]; exact getElem?_modify_ne _ _ _ _ hj
  have h3pq : ∀ q, q ≠ p → s3.pcs[q]? = s.pcs[q]? := by
    intro q hq; rw [← hs3]; simp only [setTcp, setPc]; exact getElem?_modify_ne _ _ _ _ hq
  unfold runReader
  simp only [h3t, h3p]
  rw [drain_single _ _ _ _ _ _ hl]
  simp only [h3c]
  by_cases hcap : pc.recvQ.length < s.cfg.cap
  · simp only [hcap, if_true]
    refine ⟨{ t with phase := .attached p, reader := .idle, pc := some p, inbox := [], sent := t.sent ++ [f] },
      enqueue { pc with conns := pc.conns ++ [(t.peer, k)] } (pktOf t.peer k f),
      by rw [getElem?_modify_eq, h3t]; rfl, by rw [getElem?_modify_eq, h3p]; rfl, rfl, rfl, rfl, rfl, rfl, hopen, rfl,
      Or.inl ⟨trivial, rfl, rfl, rfl⟩,
      fun j hj => by rw [getElem?_modify_ne _ _ _ _ hj]; exact h3tj j hj,
      fun q hq => by rw [getElem?_modify_ne _ _ _ _ hq]; exact h3pq q hq⟩
  · simp only [hcap, if_false]
    refine ⟨{ t with phase := .attached p, reader := .blocked (pktOf t.peer k f) false, pc := some p, inbox := [], sent := t.sent ++ [f] },
      { pc with conns := pc.conns ++ [(t.peer, k)], blockedQ := pc.blockedQ ++ [k] },
      by rw [getElem?_modify_eq, h3t]; rfl, by rw [getElem?_modify_eq, h3p]; rfl, rfl, rfl, rfl, rfl, rfl, hopen, rfl,
      Or.inr ⟨not_false, rfl, rfl, rfl, rfl⟩,
      fun j hj => by rw [getElem?_modify_ne _ _ _ _ hj]; exact h3tj j hj,
      fun q hq => by rw [getElem?_modify_ne _ _ _ _ hq]; exact h3pq q hq⟩

/-! ## closing packet connections never revives or attaches a TCP connection -/

def PhaseKeep (s s' : State) : Prop :=
  ∀ (k : Nat) (t : Tcp), s.tcps[k]? = some t →
    ∃ t', s'.tcps[k]? = some t' ∧ (t'.phase = t.phase ∨ t'.phase = .closed)

theorem PhaseKeep.refl (s : State) : PhaseKeep s s := fun _ t h => ⟨t, h, Or.inl rfl⟩

theorem PhaseKeep.trans {a b c : State} (h1 : PhaseKeep a b) (h2 : PhaseKeep b c) : PhaseKeep a c := by
  intro k t ht
  obtain ⟨t', ht', e'⟩ := h1 k t ht
  obtain ⟨t'', ht'', e''⟩ := h2 k t' ht'
  refine ⟨t'', ht'', ?_⟩
  rcases e'' with e'' | e''
  · rcases e' with e' | e'
    · exact Or.inl (e''.trans e')
    · exact Or.inr (e''.trans e')
  · exact Or.inr e''

theorem closePc1_phaseKeep (s : State) (p : Nat) : PhaseKeep s (closePc1 s p) := by
  cases hp : s.pcs[p]? with
  | none => rw [closePc1_noop s p (by simp [hp])]; exact PhaseKeep.refl s
  | some pc =>
    cases hc : pc.closed with
    | true => rw [closePc1_noop s p (by intro pc' h'; rw [hp] at h'; cases h'; exact hc)]; exact PhaseKeep.refl s
    | false =>
      rw [closePc1_eq s p pc hp hc]
      intro k t ht
      refine ⟨closeEffect pc k t, by simp only; rw [List.getElem?_mapIdx, ht]; rfl, ?_⟩
      unfold closeEffect
      split
      · exact Or.inr rfl
      · split <;> exact Or.inl rfl

theorem closePc_phaseKeep (s : State) (p : Nat) : PhaseKeep s (closePc s p) := closePc1_phaseKeep s p

theorem closePcsWhere_phaseKeep (sel : PConn → Bool) (s : State) : PhaseKeep s (closePcsWhere sel s) := by
  unfold closePcsWhere
  apply foldl_inv (fun x => PhaseKeep s x) _ _ _ (PhaseKeep.refl s)
  intro b a hb
  split
  · split
    · exact hb.trans (closePc_phaseKeep b a)
    · exact hb
  · exact hb

end IceProofs.TcpMux
