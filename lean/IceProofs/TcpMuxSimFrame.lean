import IceProofs.TcpMuxSimOps
/-!
# The `frame` operation: first-frame classification and routing, later frames
-/
namespace IceProofs.TcpMux
open IceModel.TcpMux IceSpec.C15 IceSpec.C15.View

theorem findOpen_abs (pcs : List PConn) (key : Key) :
    findOpen (pcs.map absPc) key.ufrag key.v6 key.lip = findPc pcs key := by
  unfold findOpen findPc
  rw [List.findIdx?_map]
  congr 1
  funext pc
  simp only [Function.comp, absPc]
  obtain ⟨u, v, l⟩ := key
  cases hk : pc.key with
  | mk u' v' l' =>
    simp only [Key.mk.injEq]
    have e1 : (u' == u) = decide (u' = u) := by by_cases h : u' = u <;> simp [h]
    have e2 : (v' == v) = decide (v' = v) := by by_cases h : v' = v <;> simp [h]
    have e3 : (l' == l) = decide (l' = l) := by by_cases h : l' = l <;> simp [h]
    cases pc.closed <;> simp [Bool.and_assoc, e1, e2, e3]

/-- `getConn`/`createConn` of the model and `ensureRec` of the monitor pick the same record -/
theorem ensureRec_abs {s : State} {m : Mon} (hu : SimU s m) (key : Key) :
    (ensureRec m key.ufrag key.v6 key.lip).1 = (ensurePc s key).1.pcs.map absPc ∧
    (ensureRec m key.ufrag key.v6 key.lip).2 = (ensurePc s key).2 := by
  unfold ensureRec ensurePc
  rw [hu.pcs, findOpen_abs]
  cases findPc s.pcs key with
  | some p => exact ⟨rfl, rfl⟩
  | none =>
    simp only [List.map_append, List.map_cons, List.map_nil, List.length_map, and_true]
    congr 2
    simp only [absPc]
    rw [hu.now, hu.t2]
    rfl

theorem quiet_refl (s : State) : Quiet s s :=
  quiet_of_pointwise s s (fun _ t => t) (fun _ pc => pc) rfl rfl rfl (fun _ => map_id_pointwise _)
    (fun _ => map_id_pointwise _) (fun _ t _ => ⟨TcpQ.refl t, fun h p hp => by rw [h] at hp; cases hp⟩)
    (fun _ pc _ => ⟨fun h => h, [], by simp, by simp⟩)

/-- a new packet connection with empty logs -/
theorem appendPc_quiet (s : State) (npc : PConn) (hh : npc.hist = []) :
    Quiet s { s with pcs := s.pcs ++ [npc] } ∧ OutQ s { s with pcs := s.pcs ++ [npc] } ∧
    RLSame s { s with pcs := s.pcs ++ [npc] } := by
  refine ⟨?_, OutQ.refl s, ?_⟩
  · constructor
    · rfl
    · rfl
    · rfl
    · rfl
    · intro k t ht; exact ⟨t, ht, TcpQ.refl t⟩
    · simp
    · intro p pc hp
      exact ⟨pc, getElem?_append_old _ _ _ _ hp, fun h => h, [], by simp, by simp⟩
    · intro p pc' hle hp'
      have hlen : p < (s.pcs ++ [npc]).length := getElem?_lt hp'
      simp at hlen
      have : p = s.pcs.length := by omega
      subst this
      have : (s.pcs ++ [npc])[s.pcs.length]? = some pc' := hp'
      rw [List.getElem?_concat_length] at this
      cases this; exact hh
    · intro k t t' p pc' ht hph ht' hcl _
      rw [ht] at ht'; cases ht'
      rw [hph] at hcl; cases hcl
  · intro p pc hp
    exact ⟨pc, getElem?_append_old _ _ _ _ hp, rfl⟩

theorem ensurePc_quiet (s : State) (key : Key) :
    Quiet s (ensurePc s key).1 ∧ OutQ s (ensurePc s key).1 ∧ RLSame s (ensurePc s key).1 ∧
    (ensurePc s key).1.handles = s.handles ∧ (ensurePc s key).1.now = s.now := by
  unfold ensurePc
  cases findPc s.pcs key with
  | some p => exact ⟨quiet_refl s, OutQ.refl s, RLSame.refl s, rfl, rfl⟩
  | none =>
    obtain ⟨a, b, c⟩ := appendPc_quiet s
      { key := key, provisional := true, alive := some (s.now + effTimeout s.cfg.t2), refs := 0, created := s.now } rfl
    exact ⟨a, b, c, rfl, rfl⟩

/-- the monitor's "this remote address already has a connection here" is the model's lookup in `conns` -/
theorem dup_iff {s : State} {m : Mon} (hu : SimU s m) (hf : Flags s.tcps m) (hi : Inv s) (h2 : Inv2 s)
    (p : Nat) (pc : PConn) (hp : s.pcs[p]? = some pc) (a : Addr) :
    (liveOn m p).any (fun x => x.2.ip == a.ip && x.2.port == a.port) = (lookupConn pc.conns a).isSome := by
  apply Bool.eq_iff_iff.2
  rw [List.any_eq_true]
  constructor
  · rintro ⟨⟨k, c⟩, hmem, hm⟩
    unfold liveOn at hmem
    rw [List.mem_filter, mem_indexed] at hmem
    obtain ⟨hc, hcond⟩ := hmem
    simp only [Bool.and_eq_true, beq_iff_eq, Bool.not_eq_true'] at hcond hm
    have hlt : k < s.tcps.length := by rw [← hu.len]; exact getElem?_lt hc
    obtain ⟨t, ht⟩ := getElem?_of_lt hlt
    have r := hu.cl k t c ht hc
    have hpc : t.pc = some p := by rw [← r.target]; exact hcond.1
    have hncl : t.isClosed = false := by rw [← hf k t c ht hc]; exact hcond.2
    have hpeer : t.peer = a := by
      have h1 := r.ip; have h2' := r.port
      cases hpe : t.peer with
      | mk i po =>
        cases a with
        | mk i' po' =>
          rw [hpe] at h1 h2'
          simp only at h1 h2' hm
          rw [← h1, ← h2', hm.1, hm.2]
    cases hph : t.phase with
    | closed => rw [isClosed_iff.2 hph] at hncl; cases hncl
    | pending d =>
      have := ((h2.tcp k t ht).fresh d hph).1
      rw [hpc] at this; cases this
    | attached q =>
      have := hi.phase k t ht
      simp only [PhaseOk, hph] at this
      obtain ⟨e, pc2, hp2, _, hm2⟩ := this
      rw [hpc] at e; cases e
      rw [hp] at hp2; cases hp2
      rw [hpeer] at hm2
      rw [lookupConn_some_of_mem (hi.pc p pc hp).2.1 hm2]; rfl
  · intro h
    cases hl : lookupConn pc.conns a with
    | none => rw [hl] at h; cases h
    | some k =>
      obtain ⟨t, ht, hph, hpe⟩ := (hi.pc p pc hp).1 a k (lookupConn_some_mem hl)
      obtain ⟨c, hc, r⟩ := client_of hu ht
      have hpc : t.pc = some p := by
        have := hi.phase k t ht
        simp only [PhaseOk, hph] at this
        exact this.1
      refine ⟨(k, c), ?_, ?_⟩
      · unfold liveOn
        rw [List.mem_filter, mem_indexed]
        refine ⟨hc, ?_⟩
        simp only [Bool.and_eq_true, beq_iff_eq, Bool.not_eq_true']
        refine ⟨by rw [r.target]; exact hpc, ?_⟩
        rw [hf k t c ht hc]
        unfold Tcp.isClosed; rw [hph]
      · simp only [Bool.and_eq_true, beq_iff_eq]
        rw [r.ip, r.port, hpe]
        exact ⟨rfl, rfl⟩

theorem ensurePc_spec (s : State) (key : Key) :
    ∃ pc, (ensurePc s key).1.pcs[(ensurePc s key).2]? = some pc ∧ pc.closed = false := by
  unfold ensurePc
  cases hf : findPc s.pcs key with
  | some p =>
    obtain ⟨pc, hp, ho, _⟩ := findPc_some hf
    exact ⟨pc, hp, ho⟩
  | none => exact ⟨_, List.getElem?_concat_length, rfl⟩

theorem route_none {f : Frame} (h : classify f = none) : routeUfrag (userOf f.kind) f.len = none := by
  unfold routeUfrag
  split
  · rfl
  · rename_i hl
    have := (classify_none_iff f).1 h
    cases hk : f.kind with
    | user u => exact absurd ⟨by omega, u, hk⟩ this
    | noUser => rfl
    | otherMethod => rfl
    | notStun => rfl

theorem route_some {f : Frame} {u : String} (h : classify f = some u) : routeUfrag (userOf f.kind) f.len = some u := by
  obtain ⟨hl, hk⟩ := (classify_iff f u).1 h
  unfold routeUfrag
  rw [if_neg (by omega), hk]; rfl

/-- nobody but `k` was closed by the operation -/
theorem others_nil {s s' : State} {m : Mon} (hf : Flags s.tcps m) (hlen : m.clients.length = s.tcps.length) (k : Nat)
    (hsame : ∀ j, j ≠ k → s'.tcps[j]? = s.tcps[j]?) (old : List Tcp) (res : ORes) :
    othersClosed m (obsOf old s' res) k = [] := by
  unfold othersClosed obsOf
  simp only
  rw [List.filter_eq_nil_iff]
  intro j hj
  obtain ⟨t, ht, hcl⟩ := mem_idxWhere.1 hj
  simp only [Bool.and_eq_true, decide_eq_true_eq, not_and, Bool.not_eq_true]
  intro hjk
  rw [hsame j hjk] at ht
  have hlt : j < m.clients.length := by rw [hlen]; exact getElem?_lt ht
  obtain ⟨c, hc⟩ := getElem?_of_lt hlt
  unfold clOpenBefore
  rw [hc]
  simp only [Bool.not_eq_false']
  rw [hf j t c ht hc]; exact hcl

theorem closedNow_true {s' : State} {k : Nat} {t' : Tcp} (ht' : s'.tcps[k]? = some t') (hph : t'.phase = .closed)
    (old : List Tcp) (res : ORes) : (obsOf old s' res).closed.contains k = true :=
  contains_closedSet.2 ⟨t', ht', isClosed_iff.2 hph⟩

theorem closedNow_false {s' : State} {k : Nat} {t' : Tcp} (ht' : s'.tcps[k]? = some t') (hph : t'.phase ≠ .closed)
    (old : List Tcp) (res : ORes) : (obsOf old s' res).closed.contains k = false := by
  apply Bool.eq_false_iff.2
  intro h
  obtain ⟨t2, ht2, hc⟩ := contains_closedSet.1 h
  rw [ht'] at ht2; cases ht2
  exact hph (isClosed_iff.1 hc)

theorem getElem?_setTcp_eq (s : State) (k : Nat) (g : Tcp → Tcp) (t : Tcp) (ht : s.tcps[k]? = some t) :
    (setTcp s k g).tcps[k]? = some (g t) := by
  simp only [setTcp]; rw [getElem?_modify_eq, ht]; rfl

theorem getElem?_setTcp_ne (s : State) (k j : Nat) (g : Tcp → Tcp) (h : j ≠ k) :
    (setTcp s k g).tcps[j]? = s.tcps[j]? := by
  simp only [setTcp]; exact getElem?_modify_ne _ _ _ _ h

theorem outQ_setTcp (s : State) (k : Nat) (g : Tcp → Tcp) (hg : ∀ t, (g t).out = t.out) : OutQ s (setTcp s k g) := by
  intro j tj htj
  simp only [setTcp]
  rw [getElem?_modify_map, htj]
  refine ⟨_, rfl, ?_⟩
  split
  · exact hg tj
  · rfl

theorem newReplies_of_outQ {s s' : State} (hl : s'.tcps.length = s.tcps.length) (h : OutQ s s') :
    newReplies s.tcps s'.tcps = [] := newReplies_nil hl h

/-- a later frame arrives at an attached connection -/
def pushFrame (f : Frame) (t : Tcp) : Tcp := { t with inbox := t.inbox ++ [.frame f], sent := t.sent ++ [f] }

/-- a first frame is refused -/
def rejectWith (f : Frame) (t : Tcp) : Tcp := { closeTcp t with sent := t.sent ++ [f] }

/-! ## the operation -/

theorem op_frame {s : State} {m : Mon} (hs : Sim s m) (hi : Inv s) (h2 : Inv2 s) (h3 : Inv3 s) (k : Nat) (f : Frame)
    (hnb : (step s (.frame k f)).2 ≠ .bad) :
    BookOK s (step s (.frame k f)).1 m
      (book m (.frame k f.fid (userOf f.kind) f.len) (obsOf s.tcps (step s (.frame k f)).1
        (oresOf (.frame k f) (step s (.frame k f)).2))) := by
  have hi' := step_inv s (.frame k f) hi
  have hext := step_ext s (.frame k f) (inv2_pendingFresh s h2)
  show BookOK s _ m (bookFrame m _ k f.fid (userOf f.kind) f.len)
  cases ht : s.tcps[k]? with
  | none => simp [step, ht] at hnb
  | some t =>
    obtain ⟨c, hc, r⟩ := client_of hs.u ht
    have hflag := hs.flags k t c ht hc
    rcases Bool.eq_false_or_eq_true (t.cEnd || t.stuck) with hd | hd
    · -- the client has stopped sending: nothing happens
      have hst : step s (.frame k f) = (s, .noop) := by simp [step, ht, hd]
      rw [hst]
      have hdone : c.done = true := by rw [r.done]; exact hd
      unfold bookFrame
      simp only [hc, hdone, Bool.true_or, if_true]
      exact bookOK_same hs hi
    · have hdone : c.done = false := by rw [r.done]; exact hd
      cases hph : t.phase with
      | closed =>
        have hst : step s (.frame k f) = (s, .sent f.len) := by simp [step, ht, hd, hph]
        rw [hst]
        have hcl : c.closed = true := by rw [hflag]; exact isClosed_iff.2 hph
        unfold bookFrame
        simp only [hc, hdone, Bool.false_or]
        have hres : ((obsOf s.tcps s (oresOf (.frame k f) (.sent f.len))).res == ORes.noop) = false := rfl
        rw [hres]
        rcases Bool.eq_false_or_eq_true c.accepted with ha | ha
        · simp only [ha, Bool.not_true, Bool.or_false, Bool.false_eq_true, if_false, hcl, if_true]
          rcases Bool.eq_false_or_eq_true c.hasFirst with hf | hf
          · simp only [hf, if_true]; exact bookOK_same hs hi
          · simp only [hf, Bool.false_eq_true, if_false]
            apply bookOK_client hs hi k t c _ ht hc
            · exact ⟨r.ip, r.port, r.lip, fun d hd' => (by rw [hph] at hd'; cases hd'),
                fun h => (by cases h), r.target, r.done, r.gone, r.sent, fun _ => hph⟩
            · rfl
            · rfl
            · intro _; rfl
        · simp only [ha, Bool.not_false]
          exact bookOK_same hs hi
      | pending d =>
        obtain ⟨ha, hf, hdl⟩ := r.pend d hph
        have hcl : c.closed = false := by rw [hflag]; unfold Tcp.isClosed; rw [hph]
        have hnow : m.now < c.deadline := by
          have := hi.phase k t ht
          simp only [PhaseOk, hph] at this
          rw [hs.u.now, hdl]; exact this
        obtain ⟨hpcn, hsentn, _⟩ := (h2.tcp k t ht).fresh d hph
        have hrdn := (pending_unref s hi k t ht d hph).2.2
        cases hcls : classify f with
        | none =>
          have hst : step s (.frame k f) = (setTcp s k (rejectWith f), .sent f.len) := by
            simp [step, ht, hd, hph, hcls]; rfl
          rw [hst] at hi' hext ⊢
          simp only at hi' hext ⊢
          unfold bookFrame
          simp only [hc, hdone, ha, Bool.false_or, Bool.not_true]
          have hres : ((obsOf s.tcps (setTcp s k (rejectWith f))
              (oresOf (.frame k f) (.sent f.len))).res == ORes.noop) = false := rfl
          rw [hres]
          simp only [Bool.false_eq_true, if_false, hf, hcl, if_pos hnow, route_none hcls]
          unfold bookFirst bookReject
          simp only
          rw [closedNow_true (getElem?_setTcp_eq s k _ t ht) rfl,
            others_nil hs.flags hs.u.len k (fun j hj => getElem?_setTcp_ne s k j _ hj)]
          simp only [Bool.not_true, Bool.false_eq_true, if_false, List.isEmpty_nil]
          apply bookOK_modify hs k t c _ _ hi' hext ht hc rfl rfl (Or.inr ⟨hpcn, rfl⟩)
            (fun h => by rw [hph] at h; cases h) hrdn.symm
          · intro a b it hin; simp [rejectWith, closeTcp] at hin
          · refine ⟨r.ip, r.port, r.lip, ?_, ?_, r.target, r.done, ?_, ?_, fun _ => rfl⟩
            · intro d' hd'; simp [rejectWith, closeTcp] at hd'
            · intro h; cases h
            · show c.gone = _
              rw [r.gone, hpcn]; simp [rejectWith, closeTcp, hpcn]
            · intro h; simp [rejectWith, closeTcp, hpcn] at h
          · rfl
          · rfl
          · rfl
          · intro _; rfl
        | some u =>
          have hst : step s (.frame k f) = (attach s k t u f, .sent f.len) := by
            simp [step, ht, hd, hph, hcls]
          rw [hst] at hi' hext ⊢
          simp only at hi' hext ⊢
          unfold bookFrame
          simp only [hc, hdone, ha, Bool.false_or, Bool.not_true]
          have hres : ((obsOf s.tcps (attach s k t u f) (oresOf (.frame k f) (.sent f.len))).res == ORes.noop) = false := rfl
          rw [hres]
          simp only [Bool.false_eq_true, if_false, hf, hcl, if_pos hnow, route_some hcls]
          unfold bookFirst bookRoute
          simp only
          -- the record the monitor picks is the packet connection the model picks
          have hv6 : decide (2 ≤ c.ip) = t.peer.v6 := by rw [r.ip]; rfl
          obtain ⟨hpp1, hpp2⟩ := ensureRec_abs hs.u ⟨u, t.peer.v6, t.lip⟩
          simp only at hpp1 hpp2
          rw [hv6, r.lip, hpp1, hpp2]
          generalize hse : ensurePc s ⟨u, t.peer.v6, t.lip⟩ = se at *
          obtain ⟨qe, oqe, rle, hhe, hne⟩ := hse ▸ ensurePc_quiet s ⟨u, t.peer.v6, t.lip⟩
          obtain ⟨pc, hp, hopen⟩ := hse ▸ ensurePc_spec s ⟨u, t.peer.v6, t.lip⟩
          have htce : se.1.tcps = s.tcps := hse ▸ ensurePc_tcps s ⟨u, t.peer.v6, t.lip⟩
          have hie : Inv se.1 := hse ▸ ensurePc_inv s ⟨u, t.peer.v6, t.lip⟩ hi
          have h2e : Inv2 se.1 := hse ▸ ensurePc_inv2 s ⟨u, t.peer.v6, t.lip⟩ h2
          have hte : se.1.tcps[k]? = some t := by rw [htce]; exact ht
          -- the relation after the record was (possibly) created
          have hqs := quiet_step qe rle hi h2 hs.u hs.nread
          have hm1 : ({ m with pcs := se.1.pcs.map absPc, handles := se.1.handles.map absH, now := se.1.now } : Mon) =
              { m with pcs := se.1.pcs.map absPc } := by
            rw [hhe, hne, ← hs.u.handles, ← hs.u.now]
          rw [hm1] at hqs
          obtain ⟨hu1, hn1⟩ := hqs
          have hfl1 : Flags se.1.tcps { m with pcs := se.1.pcs.map absPc } := by rw [htce]; exact hs.flags
          have hc1 : ({ m with pcs := se.1.pcs.map absPc } : Mon).clients[k]? = some c := hc
          rw [dup_iff hu1 hfl1 hie h2e se.2 pc hp ⟨c.ip, c.port⟩]
          have hpeer : (⟨c.ip, c.port⟩ : Addr) = t.peer := by rw [r.ip, r.port]
          rw [hpeer]
          have hatt : attach s k t u f = addConn se.1 se.2 k t f := by unfold attach; rw [hse]
          rw [hatt] at hi' hext ⊢
          rcases Bool.eq_false_or_eq_true (lookupConn pc.conns t.peer).isSome with hdup | hdup
          · -- a connection from this address is already there: refused
            have hadd : addConn se.1 se.2 k t f = setTcp se.1 k (rejectWith f) := by
              unfold addConn; simp only [hp, hopen, hdup, Bool.or_true, if_true]; rfl
            rw [hadd] at hi' hext ⊢
            rw [hdup]
            simp only [if_true]
            rw [closedNow_true (getElem?_setTcp_eq se.1 k _ t hte) rfl]
            simp only [Bool.not_true, Bool.false_eq_true, if_false]
            obtain ⟨hu, hn⟩ := modify_simU hu1 hn1 k t c (rejectWith f)
              (fun c => { c with hasFirst := true }) hte hc1 rfl rfl (Or.inr ⟨hpcn, rfl⟩)
              (fun h => by rw [hph] at h; cases h) hrdn.symm
              (by intro a b it hin; simp [rejectWith, closeTcp] at hin)
              (by
                refine ⟨r.ip, r.port, r.lip, ?_, ?_, r.target, r.done, ?_, ?_, fun _ => rfl⟩
                · intro d' hd'; simp [rejectWith, closeTcp] at hd'
                · intro h; cases h
                · show c.gone = _
                  rw [r.gone, hpcn]; simp [rejectWith, closeTcp, hpcn]
                · intro h; simp [rejectWith, closeTcp, hpcn] at h) rfl rfl
            apply bookOK_mk rfl hu hn hi'
            · exact old_of_flags hs.flags hs.u.len hext (closed_setAt (fun _ => rfl))
            · rfl
            · intro _
              apply newReplies_of_outQ (by simp [setTcp, htce])
              exact oqe.trans (outQ_setTcp se.1 k (rejectWith f) (fun _ => rfl))
          · -- attached
            have hnd : lookupConn pc.conns t.peer = none := by
              cases hl : lookupConn pc.conns t.peer with
              | none => rfl
              | some j => rw [hl] at hdup; cases hdup
            have hlen : f.len ≤ 512 := ((classify_iff f u).1 hcls).1
            have hadd : addConn se.1 se.2 k t f = runReader (registered se.1 se.2 k t.peer f) k := by
              unfold addConn registered; simp only [hp, hopen, hdup, Bool.or_self, Bool.false_eq_true, if_false]
            obtain ⟨t', pc', a1, _, a3, _, _, _, _, _, _, _, a11, _⟩ :=
              addConn_attached se.1 se.2 k t f pc hte hp hopen hnd (by unfold receiveMTU; omega)
            have hsame : ∀ j, j ≠ k → (addConn se.1 se.2 k t f).tcps[j]? = s.tcps[j]? := by
              intro j hj; rw [a11 j hj, htce]
            rw [hdup]
            simp only [Bool.false_eq_true, if_false]
            rw [closedNow_false a1 (by rw [a3]; intro h; cases h), others_nil hs.flags hs.u.len k hsame]
            simp only [Bool.false_eq_true, if_false, List.isEmpty_nil, Bool.not_true]
            obtain ⟨hu3, hn3⟩ := register_simU hu1 hn1 hie h2e k se.2 d t c pc f hte hc1 hph hp hopen hnd hlen
            have hi3 : Inv (registered se.1 se.2 k t.peer f) :=
              register_inv se.1 hie k se.2 t pc hte d hph hp hopen hnd _ ⟨rfl, rfl, rfl, rfl⟩
            have h23 : Inv2 (registered se.1 se.2 k t.peer f) := register_inv2 se.1 h2e k se.2 t pc f hte d hph hp
            obtain ⟨hu, hn, oq⟩ := reader_chain k hi3 h23 hu3 hn3
            rw [hadd] at hi' hext ⊢
            apply bookOK_mk rfl hu hn hi'
            · exact old_of_flags hs.flags hs.u.len hext (closed_setAt (fun _ => rfl))
            · rfl
            · intro _
              apply newReplies_of_outQ
              · rw [(runReader_quiet _ k hi3 h23 hu3.endLast).1.tlen]; simp [registered, setTcp, setPc, htce]
              · refine oqe.trans (OutQ.trans ?_ oq)
                intro j tj htj
                simp only [registered, setTcp, setPc]
                rw [getElem?_modify_map, htj]
                refine ⟨_, rfl, ?_⟩
                split <;> rfl
      | attached q =>
        have hst : step s (.frame k f) = (runReader (setTcp s k (pushFrame f)) k, .sent f.len) := by
          simp [step, ht, hd, hph]; rfl
        rw [hst] at hi' hext ⊢
        simp only at hi' hext ⊢
        have hcl : c.closed = false := by rw [hflag]; unfold Tcp.isClosed; rw [hph]
        have hf : c.hasFirst = true := by
          cases hf : c.hasFirst with
          | true => rfl
          | false => exact absurd hph (r.first hf q)
        have hce : t.cEnd = false := by
          cases h : t.cEnd with
          | false => rfl
          | true => rw [h] at hd; cases hd
        have htpc : t.pc = some q := by
          have := hi.phase k t ht
          simp only [PhaseOk, hph] at this
          exact this.1
        unfold bookFrame
        simp only [hc, hdone, Bool.false_or]
        have hres : ((obsOf s.tcps (runReader (setTcp s k (pushFrame f)) k)
              (oresOf (.frame k f) (.sent f.len))).res == ORes.noop) = false := rfl
        rw [hres]
        have ha : c.accepted = true ∨ c.accepted = false := by cases c.accepted <;> simp
        rcases ha with ha | ha
        · simp only [ha, Bool.not_true, Bool.or_false, Bool.false_eq_true, if_false, hf, if_true, hcl]
          have hi1 : Inv (setTcp s k (pushFrame f)) :=
            setTcp_irrel_inv s k _ (fun t => ⟨rfl, rfl, rfl, rfl⟩) hi
          have h21 : Inv2 (setTcp s k (pushFrame f)) := by
            apply push_inv2 s h2 k t ht _ (.frame f) [f] ⟨rfl, rfl, rfl, rfl, rfl, rfl⟩
            · rfl
            · intro d hd'; rw [hph] at hd'; cases hd'
          obtain ⟨hu1, hn1⟩ := modify_simU hs.u hs.nread k t c
            (pushFrame f)
            (fun c => { c with sent := c.sent ++ [⟨f.fid, f.len⟩], gone := c.gone || decide (8192 < f.len) })
            ht hc rfl rfl (Or.inl rfl) (fun h => by rw [hph] at h; cases h) rfl
            (endLast_push (no_end_of_open h3 ht hce))
            (by
              refine ⟨r.ip, r.port, r.lip, r.pend, r.first, r.target, r.done, ?_, ?_, r.acc⟩
              · show (c.gone || decide (8192 < f.len)) = _
                rw [r.gone, htpc]
                simp only [big, pushFrame, List.any_append, List.any_cons, List.any_nil, Bool.or_false, Option.isSome_some, Bool.true_and]
                rw [htpc]; simp [Bool.or_assoc]
              · intro _
                show c.sent ++ [⟨f.fid, f.len⟩] = mframes (t.sent ++ [f])
                rw [r.sent (by rw [htpc]; rfl)]
                simp [mframes]) rfl rfl
          obtain ⟨hu, hn, oq⟩ := reader_chain k hi1 h21 hu1 hn1
          apply bookOK_mk rfl hu hn hi'
          · exact old_of_flags hs.flags hs.u.len hext (closed_setAt (fun _ => rfl))
          · rfl
          · intro _
            apply newReplies_of_outQ
            · rw [(runReader_quiet _ k hi1 h21 hu1.endLast).1.tlen]; simp [setTcp]
            · exact (outQ_setTcp s k (pushFrame f) (fun _ => rfl)).trans oq
        · -- a connection that was never accepted cannot be attached
          have := r.acc ha
          rw [hph] at this; cases this

end IceProofs.TcpMux
