import IceProofs.TcpMuxSimDefs
/-!
# The helper transformations of the TCP-mux model are `Quiet`

`closePc1` / `closePcsWhere` (closing packet connections), `runReader` (the reader loop), the clock tick,
and pointwise updates that keep what the simulation relation talks about.  Beside `Quiet` every lemma
also records that replies (`Tcp.out`) and read logs are untouched (`OutQ`, `RLSame`) and what happens
to the abstraction of the packet connections.
-/
namespace IceProofs.TcpMux
open IceModel.TcpMux IceSpec.C15 IceSpec.C15.View

/-- nothing was written to any client -/
def OutQ (s s' : State) : Prop :=
  ∀ (k : Nat) (t : Tcp), s.tcps[k]? = some t → ∃ t', s'.tcps[k]? = some t' ∧ t'.out = t.out

/-- nothing was read -/
def RLSame (s s' : State) : Prop :=
  ∀ (p : Nat) (pc : PConn), s.pcs[p]? = some pc → ∃ pc', s'.pcs[p]? = some pc' ∧ pc'.readLog = pc.readLog

theorem OutQ.refl (s : State) : OutQ s s := fun _ t h => ⟨t, h, rfl⟩
theorem RLSame.refl (s : State) : RLSame s s := fun _ pc h => ⟨pc, h, rfl⟩

theorem OutQ.trans {a b c : State} (h1 : OutQ a b) (h2 : OutQ b c) : OutQ a c := by
  intro k t ht
  obtain ⟨t', ht', e⟩ := h1 k t ht
  obtain ⟨t'', ht'', e'⟩ := h2 k t' ht'
  exact ⟨t'', ht'', e'.trans e⟩

theorem RLSame.trans {a b c : State} (h1 : RLSame a b) (h2 : RLSame b c) : RLSame a c := by
  intro p pc hp
  obtain ⟨pc', hp', e⟩ := h1 p pc hp
  obtain ⟨pc'', hp'', e'⟩ := h2 p pc' hp'
  exact ⟨pc'', hp'', e'.trans e⟩

theorem length_of_pointwise {α : Type} {l l' : List α} {g : Nat → α → α}
    (h : ∀ j : Nat, l'[j]? = (l[j]?).map (g j)) : l'.length = l.length := by
  apply Nat.le_antisymm
  · apply Nat.le_of_not_lt
    intro hlt
    have := h l.length
    rw [List.getElem?_eq_none_iff.2 (Nat.le_refl _)] at this
    obtain ⟨a, ha⟩ := getElem?_of_lt hlt
    rw [ha] at this; cases this
  · apply Nat.le_of_not_lt
    intro hlt
    have := h l'.length
    rw [List.getElem?_eq_none_iff.2 (Nat.le_refl _)] at this
    obtain ⟨a, ha⟩ := getElem?_of_lt hlt
    rw [ha] at this; cases this

/-! ## the reader loop -/

structure DrainQ (k : Nat) (peer : Addr) (inbox : List Item) (pc : PConn) (d : Drain) : Prop where
  suffix : ∃ pre, inbox = pre ++ d.inbox
  blk : ∀ bp, d.reader = .blocked bp false → bp.len ≤ 8192
  ex : ∃ new, d.pc.hist = pc.hist ++ new ∧
    (∀ x, x ∈ new → x.conn = k ∧ x.src = peer ∧ (x.err = none → x.len ≤ 8192)) ∧
    (d.phase = .closed → (∀ (a b : List Item) (it : Item), inbox = a ++ it :: b → isEnd it = true → b = []) →
      ∃ rest, frameIds inbox = dataIds new ++ rest ∧ ∀ f, rest.head? = some f → 8192 < f.2)

theorem drainFail_q (cap k p : Nat) (peer : Addr) (e : ErrKind) (pc : PConn) (inbox : List Item)
    (hrest : ∀ f, (frameIds inbox).head? = some f → 8192 < f.2) :
    DrainQ k peer inbox pc (drainFail cap k p peer e pc) := by
  have key : ∀ new : List Pkt, (∀ x, x ∈ new → x.conn = k ∧ x.src = peer ∧ x.err ≠ none) →
      (∀ x, x ∈ new → x.conn = k ∧ x.src = peer ∧ (x.err = none → x.len ≤ 8192)) ∧
      ∃ rest, frameIds inbox = dataIds new ++ rest ∧ ∀ f, rest.head? = some f → 8192 < f.2 := by
    intro new hn
    refine ⟨fun x hx => ⟨(hn x hx).1, (hn x hx).2.1, fun h => absurd h (hn x hx).2.2⟩, frameIds inbox, ?_, hrest⟩
    have : dataIds new = [] := by
      unfold dataIds
      simp only [List.map_eq_nil_iff, List.filter_eq_nil_iff]
      intro x hx hnone
      have := (hn x hx).2.2
      cases h : x.err <;> simp [h] at hnone this
    rw [this, List.nil_append]
  unfold drainFail
  simp only
  split
  · split
    · refine ⟨⟨inbox, by simp⟩, by simp, [{ src := peer, fid := 0, len := 0, err := some e, conn := k }], by simp [enqueue], ?_⟩
      have := key [{ src := peer, fid := 0, len := 0, err := some e, conn := k }] (by simp)
      exact ⟨this.1, fun _ _ => this.2⟩
    · refine ⟨⟨inbox, by simp⟩, by simp, [], by simp, ?_⟩
      have := key [] (by simp)
      exact ⟨this.1, fun _ _ => this.2⟩
  · refine ⟨⟨inbox, by simp⟩, by simp, [], by simp, ?_⟩
    have := key [] (by simp)
    exact ⟨this.1, fun _ _ => this.2⟩

theorem drain_q (cap k p : Nat) (peer : Addr) (inbox : List Item) (pc : PConn) :
    DrainQ k peer inbox pc (drain cap k p peer inbox pc) := by
  induction inbox generalizing pc with
  | nil =>
    unfold drain
    exact ⟨⟨[], rfl⟩, by simp, [], by simp, by simp, by simp⟩
  | cons it rest ih =>
    cases it with
    | frame f =>
      unfold drain
      split
      · rename_i hbig
        apply drainFail_q
        intro g hg
        simp only [frameIds, List.filterMap_cons, frameId, List.head?_cons, Option.some.injEq] at hg
        rw [← hg]; exact hbig
      · rename_i hsmall
        have hle : f.len ≤ 8192 := by unfold receiveMTU at hsmall; omega
        simp only
        split
        · have h := ih (enqueue pc { src := peer, fid := f.fid, len := f.len, err := none, conn := k })
          obtain ⟨⟨pre, hpre⟩, hb, new, h1, h2, h3⟩ := h
          refine ⟨⟨.frame f :: pre, by rw [List.cons_append, ← hpre]⟩, hb,
            { src := peer, fid := f.fid, len := f.len, err := none, conn := k } :: new, ?_, ?_, ?_⟩
          · rw [h1]; simp [enqueue]
          · intro x hx
            rcases List.mem_cons.1 hx with rfl | hx
            · exact ⟨rfl, rfl, fun _ => hle⟩
            · exact h2 x hx
          · intro hc hel
            have hel' : ∀ (a b : List Item) (it : Item), rest = a ++ it :: b → isEnd it = true → b = [] := by
              intro a b it hab hit
              exact hel (.frame f :: a) b it (by rw [hab]; rfl) hit
            obtain ⟨r, hr1, hr2⟩ := h3 hc hel'
            refine ⟨r, ?_, hr2⟩
            simp only [frameIds, List.filterMap_cons, frameId, dataIds, List.filter_cons, Option.isNone_none, if_true,
              List.map_cons, List.cons_append] at hr1 ⊢
            rw [hr1]
        · refine ⟨⟨[.frame f], rfl⟩, ?_, [], by simp, by simp, by simp⟩
          intro bp hbp
          simp only [Reader.blocked.injEq, and_true] at hbp
          rw [← hbp]; exact hle
    | eof =>
      unfold drain
      have base := drainFail_q cap k p peer .eof pc (.eof :: rest)
      by_cases hel : ∀ (a b : List Item) (it : Item), Item.eof :: rest = a ++ it :: b → isEnd it = true → b = []
      · have hr : rest = [] := hel [] rest .eof rfl rfl
        subst hr
        exact base (by simp [frameIds, frameId])
      · -- the claim about a closed result is vacuous: build it from the unconditional parts
        have b0 := drainFail_q cap k p peer .eof pc ([] : List Item) (by simp [frameIds])
        obtain ⟨_, hb, new, h1, h2, _⟩ := b0
        refine ⟨⟨.eof :: rest, by rw [drainFail_inbox]; simp⟩, hb, new, h1, h2, ?_⟩
        intro _ hel'
        exact absurd hel' hel
    | reset =>
      unfold drain
      have base := drainFail_q cap k p peer .reset pc (.reset :: rest)
      by_cases hel : ∀ (a b : List Item) (it : Item), Item.reset :: rest = a ++ it :: b → isEnd it = true → b = []
      · have hr : rest = [] := hel [] rest .reset rfl rfl
        subst hr
        exact base (by simp [frameIds, frameId])
      · have b0 := drainFail_q cap k p peer .reset pc ([] : List Item) (by simp [frameIds])
        obtain ⟨_, hb, new, h1, h2, _⟩ := b0
        refine ⟨⟨.reset :: rest, by rw [drainFail_inbox]; simp⟩, hb, new, h1, h2, ?_⟩
        intro _ hel'
        exact absurd hel' hel

/-- the abstraction of the packet connections does not see the reader loop -/
theorem drain_abs (cap k p : Nat) (peer : Addr) (inbox : List Item) (pc : PConn) :
    absPc (drain cap k p peer inbox pc).pc = absPc pc := by
  have h := drain_ok cap k p peer inbox pc
  unfold absPc
  rw [h.key, h.provisional, h.alive, h.refs, h.closed]

/-! ## pointwise updates -/

/-- a pointwise update of connections and packet connections in which no attached connection gets closed -/
theorem quiet_of_pointwise (s s' : State) (g : Nat → Tcp → Tcp) (h : Nat → PConn → PConn)
    (hcfg : s'.cfg = s.cfg) (hmux : s'.muxClosed = s.muxClosed) (hcat : s'.closedAt = s.closedAt)
    (htc : ∀ j : Nat, s'.tcps[j]? = (s.tcps[j]?).map (g j))
    (hpc : ∀ q : Nat, s'.pcs[q]? = (s.pcs[q]?).map (h q))
    (hg : ∀ (j : Nat) (t : Tcp), s.tcps[j]? = some t → TcpQ t (g j t) ∧ ((g j t).phase = .closed → ∀ p, t.phase ≠ .attached p))
    (hh : ∀ (q : Nat) (pc : PConn), s.pcs[q]? = some pc → (pc.closed = true → (h q pc).closed = true) ∧
      ∃ new, (h q pc).hist = pc.hist ++ new ∧ ∀ y, y ∈ new → y.err = none →
        y.len ≤ 8192 ∧ ∃ t, s.tcps[y.conn]? = some t ∧ t.phase = .attached q ∧ y.src = t.peer) :
    Quiet s s' := by
  have plen : s'.pcs.length = s.pcs.length := length_of_pointwise hpc
  constructor
  · exact hcfg
  · exact hmux
  · exact hcat
  · exact length_of_pointwise htc
  · intro k t ht
    exact ⟨g k t, by rw [htc k, ht]; rfl, (hg k t ht).1⟩
  · omega
  · intro p pc hp
    exact ⟨h p pc, by rw [hpc p, hp]; rfl, hh p pc hp⟩
  · intro p pc' hle hp'
    have : p < s'.pcs.length := getElem?_lt hp'
    omega
  · intro k t t' p pc' ht hph ht' hcl _
    rw [htc k, ht] at ht'
    simp only [Option.map_some, Option.some.injEq] at ht'
    subst ht'
    exact absurd hph ((hg k t ht).2 hcl p)

theorem outQ_of_pointwise (s s' : State) (g : Nat → Tcp → Tcp)
    (htc : ∀ j : Nat, s'.tcps[j]? = (s.tcps[j]?).map (g j)) (hg : ∀ (j : Nat) (t : Tcp), (g j t).out = t.out) : OutQ s s' := by
  intro k t ht
  exact ⟨g k t, by rw [htc k, ht]; rfl, hg k t⟩

theorem rlSame_of_pointwise (s s' : State) (h : Nat → PConn → PConn)
    (hpc : ∀ q : Nat, s'.pcs[q]? = (s.pcs[q]?).map (h q)) (hh : ∀ (q : Nat) (pc : PConn), (h q pc).readLog = pc.readLog) : RLSame s s' := by
  intro p pc hp
  exact ⟨h p pc, by rw [hpc p, hp]; rfl, hh p pc⟩

/-! ## closing a packet connection -/

theorem closeEffect_q (pc : PConn) (k : Nat) (t : Tcp) : TcpQ t (closeEffect pc k t) := by
  unfold closeEffect
  split
  · exact ⟨rfl, rfl, rfl, rfl, rfl, rfl, Or.inr rfl, ⟨t.inbox, by simp [closeTcp]⟩, by simp [closeTcp]⟩
  · split
    · exact ⟨rfl, rfl, rfl, rfl, rfl, rfl, Or.inl rfl, ⟨[], rfl⟩, by simp⟩
    · exact TcpQ.refl t

theorem closeEffect_out (pc : PConn) (k : Nat) (t : Tcp) : (closeEffect pc k t).out = t.out := by
  unfold closeEffect
  split
  · rfl
  · split <;> rfl

theorem closePc1_quiet (s : State) (p : Nat) (hi : Inv s) :
    Quiet s (closePc1 s p) ∧ OutQ s (closePc1 s p) ∧ RLSame s (closePc1 s p) := by
  cases hp : s.pcs[p]? with
  | none =>
    rw [closePc1_noop s p (by simp [hp])]
    exact ⟨quiet_of_pointwise s s (fun _ t => t) (fun _ pc => pc) rfl rfl rfl (fun _ => map_id_pointwise _)
      (fun _ => map_id_pointwise _) (fun _ t _ => ⟨TcpQ.refl t, fun h p hp => by rw [h] at hp; cases hp⟩)
      (fun _ pc _ => ⟨fun h => h, [], by simp, by simp⟩), OutQ.refl s, RLSame.refl s⟩
  | some pc =>
    cases hc : pc.closed with
    | true =>
      rw [closePc1_noop s p (by intro pc' h'; rw [hp] at h'; cases h'; exact hc)]
      exact ⟨quiet_of_pointwise s s (fun _ t => t) (fun _ pc => pc) rfl rfl rfl (fun _ => map_id_pointwise _)
        (fun _ => map_id_pointwise _) (fun _ t _ => ⟨TcpQ.refl t, fun h p hp => by rw [h] at hp; cases hp⟩)
        (fun _ pc _ => ⟨fun h => h, [], by simp, by simp⟩), OutQ.refl s, RLSame.refl s⟩
    | false =>
      rw [closePc1_eq s p pc hp hc]
      have htc : ∀ j : Nat, (s.tcps.mapIdx (closeEffect pc))[j]? = (s.tcps[j]?).map (closeEffect pc j) := by
        intro j; rw [List.getElem?_mapIdx]
      have hpcs : ∀ q : Nat, (s.pcs.modify p closedPc)[q]? = (s.pcs[q]?).map (fun qc => if p = q then closedPc qc else qc) :=
        fun q => getElem?_modify_map ..
      refine ⟨?_, ?_, ?_⟩
      · constructor
        · rfl
        · rfl
        · rfl
        · simp
        · intro k t ht
          exact ⟨closeEffect pc k t, by rw [htc k, ht]; rfl, closeEffect_q pc k t⟩
        · simp
        · intro q qc hq
          refine ⟨if p = q then closedPc qc else qc, by rw [hpcs q, hq]; rfl, ?_, [], ?_, by simp⟩
          · intro h; split
            · rfl
            · exact h
          · split <;> simp [closedPc]
        · intro q qc' hle hq'
          have : q < (s.pcs.modify p closedPc).length := getElem?_lt hq'
          simp at this; omega
        · intro k t t' p0 pc' ht hph ht' hcl hp'
          right
          rw [htc k, ht] at ht'
          simp only [Option.map_some, Option.some.injEq] at ht'
          subst ht'
          -- `k` was closed by this operation, so it is in `conns` of `pc`, hence attached to `p`
          have hk : k ∈ pc.conns.map (·.2) := by
            apply Classical.byContradiction
            intro hk
            unfold closeEffect at hcl
            simp only [hk, if_false] at hcl
            split at hcl <;> (rw [hph] at hcl; cases hcl)
          obtain ⟨a, ha⟩ := mem_conns_snd.1 hk
          obtain ⟨t2, ht2, hph2, _⟩ := (hi.pc p pc hp).1 a k ha
          rw [ht] at ht2; cases ht2
          rw [hph] at hph2; cases hph2
          rw [hpcs p, hp] at hp'
          simp only [Option.map_some, if_true, Option.some.injEq] at hp'
          rw [← hp']; rfl
      · exact outQ_of_pointwise _ _ (closeEffect pc) htc (closeEffect_out pc)
      · apply rlSame_of_pointwise _ _ (fun q qc => if p = q then closedPc qc else qc) hpcs
        intro q qc; split <;> rfl

/-- exact effect of `closePc1` on the packet connections -/
theorem closePc1_pcs_map (s : State) (p : Nat) :
    (closePc1 s p).pcs = s.pcs.modify p (fun qc => if qc.closed = false then closedPc qc else qc) := by
  apply List.ext_getElem?
  intro q
  rw [closePc1_pcs, getElem?_modify_map]
  cases s.pcs[q]? with
  | none => rfl
  | some qc =>
    simp only [Option.map_some, Option.some.injEq]
    by_cases e : p = q
    · simp [e]
    · simp [e]

/-! ## the reader -/

theorem runReader_quiet (s : State) (k : Nat) (hi : Inv s) (h2 : Inv2 s)
    (hel : ∀ (k : Nat) (t : Tcp) (a b : List Item) (it : Item), s.tcps[k]? = some t → t.inbox = a ++ it :: b →
      isEnd it = true → b = []) :
    Quiet s (runReader s k) ∧ OutQ s (runReader s k) ∧ RLSame s (runReader s k) ∧
      (runReader s k).pcs.map absPc = s.pcs.map absPc := by
  have triv : Quiet s s ∧ OutQ s s ∧ RLSame s s ∧ s.pcs.map absPc = s.pcs.map absPc :=
    ⟨quiet_of_pointwise s s (fun _ t => t) (fun _ pc => pc) rfl rfl rfl (fun _ => map_id_pointwise _)
      (fun _ => map_id_pointwise _) (fun _ t _ => ⟨TcpQ.refl t, fun h p hp => by rw [h] at hp; cases hp⟩)
      (fun _ pc _ => ⟨fun h => h, [], by simp, by simp⟩), OutQ.refl s, RLSame.refl s, rfl⟩
  unfold runReader
  cases ht : s.tcps[k]? with
  | none => exact triv
  | some t =>
    simp only
    cases hph : t.phase with
    | pending d => exact triv
    | closed => exact triv
    | attached p =>
      cases hrd : t.reader with
      | none => exact triv
      | blocked _ _ => exact triv
      | idle =>
        simp only
        cases hp : s.pcs[p]? with
        | none => exact triv
        | some pc =>
          simp only
          generalize hd : drain s.cfg.cap k p t.peer t.inbox pc = d
          have dok : DrainOk k p t.peer pc d := hd ▸ drain_ok ..
          have dq : DrainQ k t.peer t.inbox pc d := hd ▸ drain_q ..
          have dabs : absPc d.pc = absPc pc := hd ▸ drain_abs ..
          have htpc : t.pc = some p := by
            have := hi.phase k t ht
            simp only [PhaseOk, hph] at this
            exact this.1
          have htc : ∀ j : Nat, (s.tcps.modify k (fun t => { t with phase := d.phase, reader := d.reader, inbox := d.inbox }))[j]? =
              (s.tcps[j]?).map (fun a => if k = j then { a with phase := d.phase, reader := d.reader, inbox := d.inbox } else a) :=
            fun j => getElem?_modify_map ..
          have hpcs : ∀ q : Nat, (s.pcs.modify p (fun _ => d.pc))[q]? = (s.pcs[q]?).map (fun a => if p = q then d.pc else a) :=
            fun q => getElem?_modify_map ..
          have dphase : d.phase = .attached p ∨ d.phase = .closed := by
            rcases dok.shape with ⟨h, _⟩ | ⟨h, _⟩
            · exact Or.inl h
            · exact Or.inr h
          obtain ⟨new, hnew, hnprop, hnclosed⟩ := dq.ex
          refine ⟨?_, ?_, ?_, ?_⟩
          · constructor
            · rfl
            · rfl
            · rfl
            · simp
            · intro j tj htj
              refine ⟨_, by rw [htc j, htj]; rfl, ?_⟩
              by_cases hjk : k = j
              · subst hjk
                rw [ht] at htj; cases htj
                simp only [if_true]
                refine ⟨rfl, rfl, rfl, rfl, rfl, rfl, ?_, dq.suffix, fun bp hbp => Or.inr (dq.blk bp hbp)⟩
                rcases dphase with h | h
                · left; rw [hph]; exact h
                · right; exact h
              · simp only [hjk, if_false]; exact TcpQ.refl tj
            · simp
            · intro q qc hq
              refine ⟨_, by rw [hpcs q, hq]; rfl, ?_⟩
              by_cases hpq : p = q
              · subst hpq
                rw [hp] at hq; cases hq
                simp only [if_true]
                refine ⟨fun h => by rw [dok.closed]; exact h, new, hnew, ?_⟩
                intro y hy hye
                obtain ⟨yc, ys, yl⟩ := hnprop y hy
                exact ⟨yl hye, t, by rw [yc]; exact ht, hph, ys⟩
              · simp only [hpq, if_false]
                exact ⟨fun h => h, [], by simp, by simp⟩
            · intro q qc' hle hq'
              have : q < (s.pcs.modify p (fun _ => d.pc)).length := getElem?_lt hq'
              simp at this; omega
            · intro j tj tj' p0 pc' htj hphj htj' hcl hp'
              rw [htc j, htj] at htj'
              simp only [Option.map_some, Option.some.injEq] at htj'
              by_cases hjk : k = j
              · subst hjk
                rw [ht] at htj; cases htj
                rw [hph] at hphj; cases hphj
                simp only [if_true] at htj'
                subst htj'
                rw [hpcs p, hp] at hp'
                simp only [Option.map_some, if_true, Option.some.injEq] at hp'
                subst hp'
                left
                obtain ⟨rest, hr1, hr2⟩ := hnclosed hcl (hel k t · · · ht)
                have ho := ((h2.tcp k t ht).order p pc htpc hp).1 p hph
                rw [hrd] at ho
                simp only [blkIds, List.append_nil] at ho
                intro f hf
                apply hr2 f
                simp only at hf
                rw [← ho, hr1, hnew, fromConn_append, dataIds_append,
                  fromConn_all (l := new) (fun x hx => (hnprop x hx).1)] at hf
                rw [← List.append_assoc, List.getElem?_append_right (Nat.le_refl _), Nat.sub_self] at hf
                rw [List.head?_eq_getElem?]; exact hf
              · simp only [hjk, if_false] at htj'
                subst htj'
                rw [hphj] at hcl; cases hcl
          · apply outQ_of_pointwise _ _ _ htc
            intro j tj; split <;> rfl
          · intro q qc hq
            refine ⟨_, by rw [hpcs q, hq]; rfl, ?_⟩
            by_cases hpq : p = q
            · subst hpq
              rw [hp] at hq; cases hq
              simp only [if_true]; exact dok.readLog
            · simp only [hpq, if_false]
          · apply List.ext_getElem?
            intro q
            simp only [List.getElem?_map]
            rw [hpcs q]
            cases hq : s.pcs[q]? with
            | none => rfl
            | some qc =>
              simp only [Option.map_some, Option.some.injEq]
              by_cases hpq : p = q
              · subst hpq
                rw [hp] at hq; cases hq
                simp only [if_true]; exact dabs
              · simp only [hpq, if_false]

theorem runReader_misc (s : State) (k : Nat) :
    (runReader s k).handles = s.handles ∧ (runReader s k).now = s.now ∧ (runReader s k).cfg = s.cfg ∧
    (runReader s k).muxClosed = s.muxClosed ∧ (runReader s k).closedAt = s.closedAt ∧
    (runReader s k).listenerOpen = s.listenerOpen := by
  unfold runReader
  split
  · simp
  · split
    · split
      · simp
      · simp
    · simp

/-! ## the clock -/

theorem expireTcp_q (now : Nat) (t : Tcp) : TcpQ t (expireTcp now t) := by
  unfold expireTcp
  split
  · split
    · exact ⟨rfl, rfl, rfl, rfl, rfl, rfl, Or.inr rfl, ⟨t.inbox, by simp [closeTcp]⟩, by simp [closeTcp]⟩
    · exact TcpQ.refl t
  · exact TcpQ.refl t

theorem tick_quiet (s : State) (now' : Nat) :
    Quiet s { s with now := now', tcps := s.tcps.map (expireTcp now') } ∧
    OutQ s { s with now := now', tcps := s.tcps.map (expireTcp now') } ∧
    RLSame s { s with now := now', tcps := s.tcps.map (expireTcp now') } := by
  have htc : ∀ j : Nat, (s.tcps.map (expireTcp now'))[j]? = (s.tcps[j]?).map (fun a => expireTcp now' a) := by
    intro j; rw [List.getElem?_map]
  refine ⟨?_, ?_, ?_⟩
  · apply quiet_of_pointwise s { s with now := now', tcps := s.tcps.map (expireTcp now') }
      (fun _ t => expireTcp now' t) (fun _ pc => pc) rfl rfl rfl htc (fun _ => map_id_pointwise _)
    · intro j t _
      refine ⟨expireTcp_q now' t, ?_⟩
      intro hcl p hp
      unfold expireTcp at hcl
      rw [hp] at hcl
      simp only at hcl
      rw [hp] at hcl; cases hcl
    · intro q pc _
      exact ⟨fun h => h, [], by simp, by simp⟩
  · apply outQ_of_pointwise _ _ (fun _ t => expireTcp now' t) htc
    intro j t
    unfold expireTcp
    split
    · split <;> rfl
    · rfl
  · exact rlSame_of_pointwise _ _ (fun _ pc => pc) (fun _ => map_id_pointwise _) (fun _ _ => rfl)

/-! ## closing several packet connections -/

/-- what `closePcsWhere sel` does to one packet connection -/
def closeSel (sel : PConn → Bool) (pc : PConn) : PConn :=
  if sel pc = true ∧ pc.closed = false then closedPc pc else pc

/-- exact effect of `closePcsWhere` on the packet connections -/
theorem closePcsWhere_pcs (sel : PConn → Bool) (s : State) :
    (closePcsWhere sel s).pcs = s.pcs.map (closeSel sel) := by
  let f : State → Nat → State := fun s p => match s.pcs[p]? with
    | some pc => if sel pc then closePc s p else s
    | none => s
  have key : ∀ n (q : Nat), ((List.range n).foldl f s).pcs[q]? =
      (s.pcs[q]?).map (fun pc => if q < n then closeSel sel pc else pc) := by
    intro n
    induction n with
    | zero => intro q; simp
    | succ n ih =>
      intro q
      rw [List.range_succ, List.foldl_append]
      simp only [List.foldl_cons, List.foldl_nil]
      generalize hs' : (List.range n).foldl f s = s' at ih
      have hn := ih n
      simp only [Nat.lt_irrefl, if_false, Option.map_id'] at hn
      -- one step of `f` at index `n`
      have step : (f s' n).pcs[q]? = (s'.pcs[q]?).map (fun qc => if n = q then closeSel sel qc else qc) := by
        simp only [f]
        cases hq : s'.pcs[n]? with
        | none =>
          simp only
          cases hq' : s'.pcs[q]? with
          | none => rfl
          | some qc =>
            have : n ≠ q := by intro e; subst e; rw [hq] at hq'; cases hq'
            simp [this]
        | some pc =>
          simp only
          by_cases hsel : sel pc = true
          · simp only [hsel, if_true]
            show (closePc1 s' n).pcs[q]? = _
            rw [closePc1_pcs]
            cases hq' : s'.pcs[q]? with
            | none => rfl
            | some qc =>
              simp only [Option.map_some, Option.some.injEq]
              by_cases e : n = q
              · subst e; rw [hq] at hq'; cases hq'
                simp [closeSel, hsel]
              · simp [e]
          · have hself : sel pc = false := by simpa using hsel
            simp only [hself, Bool.false_eq_true, if_false]
            cases hq' : s'.pcs[q]? with
            | none => rfl
            | some qc =>
              simp only [Option.map_some, Option.some.injEq]
              by_cases e : n = q
              · subst e; rw [hq] at hq'; cases hq'
                simp [closeSel, hself]
              · simp [e]
      rw [step, ih q]
      cases hq : s.pcs[q]? with
      | none => rfl
      | some qc =>
        simp only [Option.map_some, Option.some.injEq]
        by_cases e : n = q
        · subst e; simp
        · have : q < n + 1 ↔ q < n := by omega
          simp only [e, if_false, this]
  apply List.ext_getElem?
  intro q
  have hk := key s.pcs.length q
  show ((List.range s.pcs.length).foldl f s).pcs[q]? = _
  rw [hk, List.getElem?_map]
  cases hq : s.pcs[q]? with
  | none => rfl
  | some qc =>
    have := getElem?_lt hq
    simp [this]

theorem absPc_closedPc (pc : PConn) (h : pc.closed = false) : absPc (closedPc pc) = closeOne (absPc pc) := by
  simp [absPc, closedPc, closeOne, h]

theorem absPc_closed_closeOne (pc : PConn) (h : pc.closed = true) : closeOne (absPc pc) = absPc pc := by
  simp [absPc, closeOne, h]

/-- the monitor's `closeWhere` is the model's `closePcsWhere`, seen through `absPc` -/
theorem closeWhere_abs (sel : PConn → Bool) (msel : MPc → Bool) (pcs : List PConn)
    (h : ∀ pc, pc ∈ pcs → pc.closed = false → msel (absPc pc) = sel pc) :
    closeWhere (pcs.map absPc) msel = (pcs.map (closeSel sel)).map absPc := by
  unfold closeWhere
  rw [List.map_map, List.map_map]
  apply List.map_congr_left
  intro pc hpc
  simp only [Function.comp]
  unfold closeSel
  cases hc : pc.closed with
  | true =>
    simp only [Bool.true_eq_false, and_false, if_false]
    split
    · exact absPc_closed_closeOne pc hc
    · rfl
  | false =>
    rw [h pc hpc hc]
    by_cases hs : sel pc = true
    · simp only [hs, and_self, if_true]; exact (absPc_closedPc pc hc).symm
    · simp [hs]

end IceProofs.TcpMux
