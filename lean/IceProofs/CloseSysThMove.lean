import IceProofs.CloseSysTh
/-! # CloseSys — workhorse: one user thread moves, possibly taking / finishing the loop's close-once -/
namespace IceProofs.CloseSys
open IceModel.CloseSys

/-- what a thread's own record must satisfy (liveness flags, gather restriction). -/
def ThLocal (s : State) (t : Tid) (x : Th) : Prop :=
  match t with
  | .api _ => (x.loc ≠ .idle → x.live = true) ∧ (x.kind = .gather → GProg x.prog ∧ GLoc x.loc)
  | .dr i => ∀ st : Stream, s.streams[i]? = some st → ((x.loc ≠ .idle ∨ x.prog ≠ []) → st.running = true)
  | .rl _ => False

def OnceNum (o : Once) (snap : Nat) (cands : List Cand) : Prop :=
  match o with
  | .free => True
  | .running _ k => k ≤ snap ∧ snap ≤ cands.length ∧
      ∀ (i : Nat) (cd : Cand), i < k → cands[i]? = some cd → cd.aborted = true
  | .finished => snap ≤ cands.length ∧ ∀ (i : Nat) (cd : Cand), i < snap → cands[i]? = some cd → cd.aborted = true

def OnceTrans (o o' : Once) (t : Tid) : Prop :=
  o' = o ∨ (o = .free ∧ o' = .running t 0) ∨ (∃ k, o = .running t k ∧ o' = .finished) ∨
    (∃ k, o = .running t k ∧ o' = .running t (k + 1))

theorem ThOK.onceTrans {s : State} {tid t : Tid} {y : Th} {d' : Bool} {o' : Once} {snap' : Nat}
    (h : ThOK s tid y) (hne : tid ≠ t) (tr : OnceTrans s.once o' t) :
    ThOK { s with done := d', once := o', snap := snap' } tid y := by
  unfold ThOK at *
  split at h
  · obtain ⟨k, hk⟩ := h
    rcases tr with e | ⟨e, _⟩ | ⟨k', e, _⟩ | ⟨k', e, _⟩
    · exact ⟨k, by simp [e, hk]⟩
    · simp [hk] at e
    · rw [hk] at e; cases e; exact absurd rfl hne
    · rw [hk] at e; cases e; exact absurd rfl hne
  · rcases tr with e | ⟨e, _⟩ | ⟨k', e, _⟩ | ⟨k', e, _⟩
    · simp [e, h]
    · simp [h] at e
    · simp [h] at e
    · simp [h] at e
  · obtain ⟨h1, h2, h3⟩ := h
    rcases tr with e | ⟨e, _⟩ | ⟨k', e, _⟩ | ⟨k', e, _⟩
    · exact ⟨by simp [e, h1], h2, h3⟩
    · simp [h1] at e
    · simp [h1] at e
    · simp [h1] at e
  · obtain ⟨h0, h1, h2, h3, h4⟩ := h
    rcases tr with e | ⟨e, _⟩ | ⟨k', e, _⟩ | ⟨k', e, _⟩
    · exact ⟨h0, by simp [e, h1], h2, h3, h4⟩
    · simp [h1] at e
    · simp [h1] at e
    · simp [h1] at e
  · trivial

theorem gatherFinished_setTh {s : State} {t : Tid} {th x : Th} (hget : getTh s t = some th)
    (hnf : ∀ n, t = .api n → th.finished = false)
    (hg : gatherFinished s = true) : gatherFinished (setTh s t x) = true := by
  unfold gatherFinished at *
  simp only [setTh_gcur]
  cases hgc : s.gcur with
  | none => rfl
  | some g =>
    simp only [hgc] at hg ⊢
    cases t with
    | api n =>
      by_cases e : n = g
      · subst e
        simp only [getTh] at hget
        simp [hget, hnf n rfl] at hg
      · simp only [setTh]; rw [List.getElem?_set_ne e]; exact hg
    | dr i => exact hg
    | rl c => exact hg

theorem Inv.thMove {s : State} (h : Inv s) {t : Tid} {th : Th} (hget : getTh s t = some th) (x : Th)
    (d' : Bool) (o' : Once) (snap' : Nat)
    (c1 : d' = true ↔ o' ≠ .free) (c1' : s.done = true → d' = true)
    (c2 : OnceTrans s.once o' t)
    (c4 : ThOK { s with done := d', once := o', snap := snap' } t x)
    (c5 : x.kind = th.kind ∧ x.live = th.live)
    (c6 : ThLocal s t x)
    (c7 : ∀ k, o' = .running t k → ∃ g, x.loc = .cPre g)
    (c8 : OnceNum o' snap' s.cands)
    (c9 : ∀ n, t = .api n → th.finished = false)
    (c10 : o' ≠ .free → ∀ c, TOp.write c ∈ loopOps s.loop → c < snap') :
    Inv (setTh { s with done := d', once := o', snap := snap' } t x) := by
  generalize hs1 : ({ s with done := d', once := o', snap := snap' } : State) = s1 at c4 ⊢
  have e_thr : s1.thr = s.thr := by rw [← hs1]
  have e_str : s1.streams = s.streams := by rw [← hs1]
  have e_cands : s1.cands = s.cands := by rw [← hs1]
  have e_loop : s1.loop = s.loop := by rw [← hs1]
  have e_once : s1.once = o' := by rw [← hs1]
  have e_done : s1.done = d' := by rw [← hs1]
  have e_snap : s1.snap = snap' := by rw [← hs1]
  have e_gcur : s1.gcur = s.gcur := by rw [← hs1]
  have hget1 : getTh s1 t = some th := by rw [← hs1]; cases t <;> exact hget
  have htr : ∀ (tid : Tid) (y : Th), tid ≠ t → ThOK s tid y → ThOK (setTh s1 t x) tid y := by
    intro tid y hne hy
    have := hy.onceTrans (d' := d') (snap' := snap') hne c2
    rw [hs1] at this
    exact ThOK_setTh this
  refine ⟨?_, ?_, ?_, ?_, ?_, ?_, ?_, ?_, ?_, ?_, ?_, ?_⟩
  · simp only [setTh_done, setTh_once, e_done, e_once]; exact c1
  · simp only [setTh_loop, setTh_done, e_loop, e_done]; intro hx; exact c1' (h.closing hx)
  · intro n th1 hn
    rcases setTh_thr s1 t x n th1 hn with ⟨rfl, rfl, _⟩ | ⟨hne, h1⟩
    · exact ⟨ThOK_setTh c4, c6.1, c6.2⟩
    · rw [e_thr] at h1
      obtain ⟨a1, a2, a3⟩ := h.apiOK n th1 h1
      exact ⟨htr _ _ (fun e => hne e.symm) a1, a2, a3⟩
  · intro j st' hj
    obtain ⟨st, h1, h2, h3, _, _, h5⟩ := setTh_streams s1 t x j st' hj
    rw [e_str] at h1
    obtain ⟨a1, a2, a3⟩ := h.drOK j st h1
    refine ⟨?_, ?_, ?_⟩
    · rcases h5 with ⟨rfl, e⟩ | ⟨hne, e⟩
      · rw [e]; exact ThOK_setTh c4
      · rw [e]; exact htr _ _ (fun e => hne e.symm) a1
    · rcases h5 with ⟨rfl, e⟩ | ⟨hne, e⟩
      · rw [e, h3]; exact c6 st h1
      · rw [e, h3]; exact a2
    · rw [h2, setTh_loop, e_loop]; exact a3
  · intro c cd hc
    simp only [setTh_cands, e_cands] at hc
    simp only [setTh_loop, e_loop]
    exact h.candOK c cd hc
  · unfold OnceOK
    simp only [setTh_once, setTh_snap, setTh_cands, e_once, e_snap, e_cands]
    cases ho : o' with
    | free => trivial
    | finished => rw [ho] at c8; exact c8
    | running o k =>
      rw [ho] at c8
      refine ⟨?_, c8⟩
      by_cases hot : o = t
      · subst hot
        obtain ⟨g, hg⟩ := c7 k ho
        exact ⟨x, g, getTh_setTh_self hget1, hg⟩
      · have hso : s.once = .running o k := by
          rcases c2 with e | ⟨_, e⟩ | ⟨_, _, e⟩ | ⟨_, _, e⟩
          · rw [← e]; exact ho
          · rw [ho] at e; cases e; exact absurd rfl hot
          · rw [ho] at e; cases e
          · rw [ho] at e; cases e; exact absurd rfl hot
        have h0 := h.onceOK
        unfold OnceOK at h0
        simp only [hso] at h0
        obtain ⟨⟨tho, g, h1, h2⟩, _⟩ := h0
        refine ⟨tho, g, ?_, h2⟩
        rw [getTh_setTh_ne (fun e => hot e.symm), ← hs1]
        cases o <;> exact h1
  · intro c hc
    simp only [setTh_loop, setTh_cands, e_loop, e_cands] at hc ⊢
    exact h.writesLen c hc
  · intro hf c hc
    simp only [setTh_loop, setTh_once, setTh_snap, e_loop, e_once, e_snap] at hf hc ⊢
    exact c10 hf c hc
  · simp only [setTh_loop, setTh_rtask, e_loop]
    rw [← hs1]; exact h.rlTask
  · simp only [setTh_loop, setTh_bufClosed, setTh_lastAcc, e_loop]
    refine ⟨?_, ?_, ?_⟩
    · intro hx; rw [← hs1]; exact h.stages.1 hx
    · intro hx st' h0
      obtain ⟨st, h1, _⟩ := setTh_streams s1 t x 0 st' h0
      rw [e_str] at h1
      rw [← hs1]; exact h.stages.2.1 hx st h1
    · intro hx
      have hg : gatherFinished s1 = true := by
        rw [gatherFinished_congr e_gcur e_thr]; exact h.stages.2.2 hx
      exact gatherFinished_setTh hget1 c9 hg
  · intro g hg
    simp only [setTh_gcur, e_gcur] at hg
    obtain ⟨thg, h1, h2, h3⟩ := h.gcurOK g hg
    by_cases htg : t = .api g
    · subst htg
      simp only [getTh] at hget
      rw [hget] at h1; cases h1
      have : g < s1.thr.length := by
        rw [e_thr]
        rcases Nat.lt_or_ge g s.thr.length with h1 | h1
        · exact h1
        · simp [List.getElem?_eq_none h1] at hget
      exact ⟨x, by simp [setTh, this], by rw [c5.1, h2], by rw [c5.2, h3]⟩
    · refine ⟨thg, ?_, h2, h3⟩
      cases t with
      | api n =>
        simp only [setTh]
        rw [List.getElem?_set_ne (by intro e; exact htg (by rw [e])), e_thr]; exact h1
      | dr i => simp only [setTh]; rw [e_thr]; exact h1
      | rl c => simp only [setTh]; rw [e_thr]; exact h1
  · simp only [setTh_closeRet, setTh_gcloseRet, setTh_loop, e_loop]
    have ecr : s1.closeRet = s.closeRet := by rw [← hs1]
    have egr : s1.gcloseRet = s.gcloseRet := by rw [← hs1]
    rw [ecr, egr]
    refine ⟨fun hx => ⟨(h.ghost.1 hx).1, ?_⟩, fun hx => ?_⟩
    · intro j st' hj
      obtain ⟨st, h1, h2, _⟩ := setTh_streams s1 t x j st' hj
      rw [e_str] at h1
      rw [h2]; exact (h.ghost.1 hx).2 j st h1
    · intro j st' hj
      obtain ⟨st, h1, h2, h3, _⟩ := setTh_streams s1 t x j st' hj
      rw [e_str] at h1
      rw [h2, h3]; exact h.ghost.2 hx j st h1


theorem Inv.thLocal {s : State} (h : Inv s) {t : Tid} {th : Th} (hget : getTh s t = some th) : ThLocal s t th := by
  cases t with
  | api n => exact (h.apiOK n th hget).2
  | dr i =>
    intro st hst
    simp only [getTh, hst] at hget
    simp at hget; subst hget
    exact (h.drOK i st hst).2.1
  | rl c => simp [getTh] at hget

theorem Inv.thOK {s : State} (h : Inv s) {t : Tid} {th : Th} (hget : getTh s t = some th) : ThOK s t th := by
  cases t with
  | api n => exact (h.apiOK n th hget).1
  | dr i =>
    simp only [getTh] at hget
    cases hst : s.streams[i]? with
    | none => simp [hst] at hget
    | some st => simp [hst] at hget; subst hget; exact (h.drOK i st hst).1
  | rl c => simp [getTh] at hget

end IceProofs.CloseSys
