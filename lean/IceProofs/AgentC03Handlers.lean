import IceProofs.AgentC03Cand
/-!
# C03 — the STUN handlers: the only places where a NEW pair gets selected

`HSel wp a r`: running from `a` with result `r` keeps `Inv3`, is `Rel wp`, keeps the configuration;
every Binding request emitted carries the role of the RESULT state (USE-CANDIDATE only if controlling);
and if a pair becomes selected, the role did not change and the pair carries the nomination proof of
that role.
-/
namespace IceProofs.C03
open IceModel.AgentCore

/-- the nomination proof a role needs -/
def NomProof (ctl : Bool) (p : Pair) : Prop := if ctl then p.gRespUC = true else p.gNomReq = true

structure HSel (wp : Prop) (a : Agent) (r : Agent × List Out) : Prop where
  inv : Inv3 a → Inv3 r.1
  rel : Inv3 a → Rel wp a r.1
  cfg : r.1.cfg = a.cfg
  out : OutR r.1.controlling r.2
  sel : Inv3 a → ∀ id, r.1.selected = some id → a.selected ≠ some id →
    r.1.controlling = a.controlling ∧ ∃ p' ∈ r.1.checklist, p'.id = id ∧ NomProof a.controlling p'
  /-- unless the selection ends up cleared (wipe), no pair is dropped -/
  fwd : Inv3 a → r.1.selected ≠ none → Fwd a r.1

theorem HOK.hsel {wp ex : Prop} {a : Agent} {r : Agent × List Out} (h : HOK wp ex a r) : HSel wp a r := by
  refine ⟨fun hi => (h.pres hi).1, fun hi => (h.pres hi).2.toRel, h.cfg, by rw [h.ctl]; exact h.out, ?_, ?_⟩
  · intro hi id hs hn
    rcases (h.pres hi).2.sel with e | e
    · rw [e.1] at hs; exact absurd hs hn
    · rw [e.2] at hs; cases hs
  · intro hi hne
    rcases (h.pres hi).2.sel with e | e
    · exact e.2
    · exact absurd e.2 hne

theorem HSel.weaken {wp wp' : Prop} {a : Agent} {r : Agent × List Out} (h : HSel wp a r) (hw : wp' → wp) :
    HSel wp' a r := ⟨h.inv, fun hi => (h.rel hi).weaken hw, h.cfg, h.out, h.sel, h.fwd⟩

/-- the pair `id` of the new state, given a listed pair of the old one and `Rel` -/
theorem Rel.flag_transfer {wp : Prop} {a b : Agent} (hr : Rel wp a b) (hia : Inv3 a) {p : Pair}
    (hp : p ∈ a.checklist) {q : Pair} (hq : q ∈ b.checklist) (e : q.id = p.id) : PLe p q := by
  obtain ⟨p0, hp0, hid, hle, _⟩ := hr.old q hq (by rw [e]; exact hia.ids.le p hp)
  have : p0 = p := mem_unique hia.ids hp0 hp (hid.trans e)
  exact this ▸ hle

theorem NomProof.mono {c : Bool} {p q : Pair} (h : PLe p q) (hp : NomProof c p) : NomProof c q := by
  unfold NomProof at *
  cases c
  · exact h.gNomReq hp
  · exact h.gRespUC hp

theorem HSel.seq_hok {wp ex : Prop} {a a1 a2 : Agent} {o1 o2 : List Out} (h1 : HSel wp a (a1, o1))
    (h2 : HOK wp ex a1 (a2, o2)) : HSel wp a (a2, o1 ++ o2) := by
  refine ⟨fun hi => (h2.pres (h1.inv hi)).1, fun hi => (h1.rel hi).trans (h2.pres (h1.inv hi)).2.toRel,
    h2.cfg.trans h1.cfg, ?_, ?_, ?_⟩
  · show OutR a2.controlling (o1 ++ o2)
    rw [h2.ctl]
    exact h1.out.append h2.out
  · intro hi id hs hn
    have hi1 := h1.inv hi
    have hq := (h2.pres hi1).2
    have hs1 : a1.selected = some id := by
      rcases hq.sel with e | e
      · exact e.1 ▸ hs
      · have hs' : a2.selected = some id := hs
        rw [e.2] at hs'; cases hs'
    obtain ⟨hc, p1, hp1, hid1, hn1⟩ := h1.sel hi id hs1 hn
    refine ⟨h2.ctl.trans hc, ?_⟩
    obtain ⟨p2, hp2, hid2, _⟩ := (h2.pres hi1).1.sel id hs
    exact ⟨p2, hp2, hid2, hn1.mono (hq.toRel.flag_transfer hi1 hp1 hp2 (hid2.trans hid1.symm))⟩
  · intro hi hne
    have hi1 := h1.inv hi
    rcases (h2.pres hi1).2.sel with e | e
    · have hne1 : a1.selected ≠ none := by
        have : a2.selected ≠ none := hne
        rw [e.1] at this; exact this
      exact (h1.fwd hi hne1).trans e.2
    · exact absurd e.2 hne

/-- a quiet, request-free prefix -/
theorem HSel.after_hok {wp : Prop} {a a1 a2 : Agent} {o1 o2 : List Out} (h1 : HOK wp True a (a1, o1))
    (hn1 : NoReq o1) (h2 : HSel wp a1 (a2, o2)) : HSel wp a (a2, o1 ++ o2) := by
  refine ⟨fun hi => h2.inv (h1.pres hi).1, fun hi => (h1.pres hi).2.toRel.trans (h2.rel (h1.pres hi).1),
    h2.cfg.trans h1.cfg, (hn1.outR _).append h2.out, ?_, ?_⟩
  · intro hi id hs hn
    have hq := (h1.pres hi).2
    have hn1' : a1.selected ≠ some id := by
      rcases hq.sel with e | e
      · rw [e.1]; exact hn
      · rw [e.2]; exact fun h => by cases h
    obtain ⟨hc, p, hp, hid, hnp⟩ := h2.sel (h1.pres hi).1 id hs hn1'
    exact ⟨hc.trans h1.ctl, p, hp, hid, h1.ctl ▸ hnp⟩
  · intro hi hne
    rcases (h1.pres hi).2.sel with e | e
    · exact e.2.trans (h2.fwd (h1.pres hi).1 hne)
    · exact absurd trivial e.1

/-- followed by a silent update -/
theorem HSel.andThen {wp : Prop} {a a1 a2 : Agent} {o1 : List Out} (h1 : HSel wp a (a1, o1))
    (hp : Pres wp True a1 a2) (hc : a2.cfg = a1.cfg) (hr : a2.controlling = a1.controlling) :
    HSel wp a (a2, o1) := by
  have := h1.seq_hok (HOK.silent hp hc hr)
  simpa using this

/-! ## `addLocalCandidate` -/

theorem addLocalCandidate_hok {ex : Prop} (a : Agent) (c : Cand) :
    HOK False ex a (a.addLocalCandidate c) ∧ NoReq (a.addLocalCandidate c).2 := by
  unfold Agent.addLocalCandidate
  split
  · exact ⟨⟨Pres.refl _ _ _, rfl, rfl, NoReq.outR (fun f t m hm => by simp at hm) _⟩, fun f t m hm => by simp at hm⟩
  · split
    · exact ⟨⟨Pres.refl _ _ _, rfl, rfl, NoReq.outR (fun f t m hm => by simp at hm) _⟩, fun f t m hm => by simp at hm⟩
    · have h0 : HOK False ex a
          (({ a with nextUid := a.nextUid + 1, locals := a.locals ++ [{ c with uid := a.nextUid }] } : Agent), []) :=
        HOK.silent (Pres.of_eq_np rfl rfl rfl rfl) rfl rfl
      have h3 : ∀ (c' : Cand) (rs : List Cand) (b : Agent), HOK False ex a (b, []) →
          HOK False ex a (rs.foldl (fun a r => (a.addPair c' r).1) b, []) := by
        intro c' rs
        induction rs with
        | nil => intro b hb; exact hb
        | cons r rs ih =>
          intro b hb
          exact ih _ (hb.andThen (addPair_pres b c' r) rfl rfl)
      have h4 := (h3 { c with uid := a.nextUid } (a.remotes.filter (·.net == c.net)) _ h0).andThen
        (a2 := Agent.requestCheck _) (Pres.of_eq_np rfl rfl rfl rfl) rfl rfl
      exact ⟨⟨h4.pres, h4.cfg, h4.ctl, NoReq.outR (fun f t m hm => by simp at hm) _⟩, fun f t m hm => by simp at hm⟩

end IceProofs.C03
