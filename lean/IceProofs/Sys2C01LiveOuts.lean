import IceProofs.Sys2C01LiveStep
/-!
# C01 liveness, layer 3b — what a `Good` agent puts on the wire during an inbound step / a tick

Every Binding request it emits carries its credentials, its role and no nomination value, leaves from one of its
local candidate addresses, has a fresh transaction id of its own tag, and (single-time contexts) its transaction is
pending afterwards; a USE-CANDIDATE request is sent by a controlling agent on the ends of a listed Succeeded pair.
Responses are emitted only as answers to an authenticated request, with its transaction id.
-/
namespace IceProofs.C01Live
open IceModel.AgentCore IceProofs.C03 IceProofs.Agent

/-- a Binding request `m` emitted from `f` to `t` by the agent `a` (state before the step) -/
structure ReqOut (a : Agent) (f t : Nat) (m : Msg) : Prop where
  isReq : IsReq a m.useCand m
  src : ∃ l ∈ a.locals, l.addr = f
  tid : ∃ n, a.nextTid ≤ n ∧ m.tid = 2 * n + a.tag
  ucCtl : m.useCand = true → a.controlling = true

/-- the requests among the outputs of `r`, all sent at time `now`, with the state `r.1` afterwards -/
structure ReqsOK (a : Agent) (now : Nat) (r : Agent × List Out) : Prop where
  req : ∀ f t m, Out.dgram f t m ∈ r.2 → m.cls = 0 → ReqOut a f t m
  pend : ∀ f t m, Out.dgram f t m ∈ r.2 → m.cls = 0 →
    r.1.pending.find? (·.tid == m.tid) = some (pendOf m.tid f t 0 m.useCand now)
  uc : ∀ f t m, Out.dgram f t m ∈ r.2 → m.cls = 0 → m.useCand = true →
    ∃ p l r', p ∈ r.1.checklist ∧ p.state = .succeeded ∧ r.1.localOf p.l = some l ∧ r.1.remoteOf p.r = some r' ∧
      l.addr = f ∧ r'.addr = t

/-! ## the output walk: vocabulary -/

section walk
variable {T0 now : Nat} {ex : Option Nat} {Q : Msg → Prop}

/-- a listed Succeeded pair whose ends resolve to the addresses `f`, `t` (the `uc` clause of `ReqsOK`) -/
def UcOK (b : Agent) (f t : Nat) : Prop :=
  ∃ p l r', p ∈ b.checklist ∧ p.state = .succeeded ∧ b.localOf p.l = some l ∧ b.remoteOf p.r = some r' ∧
    l.addr = f ∧ r'.addr = t

theorem UcOK.of_lk {b b' : Agent} {f t : Nat} (hk : LK T0 now ex b b') (h : UcOK b f t) : UcOK b' f t := by
  obtain ⟨p, l, r, hp, hs, hl, hr, e1, e2⟩ := h
  obtain ⟨p', hp', kp⟩ := hk.mem_pair hp
  obtain ⟨l', hl', kl⟩ := hk.localOf hl
  obtain ⟨r', hr', kr⟩ := hk.remoteOf hr
  refine ⟨p', l', r', hp', kp.succ hs, by rw [kp.l]; exact hl', by rw [kp.r]; exact hr', ?_, ?_⟩
  · rw [ckey_addr kl]; exact e1
  · rw [ckey_addr kr.key]; exact e2

/-- a request of a later state of the same step is a request of the state the step started from -/
theorem ReqOut.of_earlier {a b : Agent} {f t : Nat} {m : Msg} (hid : SameId a b)
    (hloc : b.locals.map ckey = a.locals.map ckey) (hn : a.nextTid ≤ b.nextTid) (h : ReqOut b f t m) :
    ReqOut a f t m := by
  obtain ⟨hr, ⟨l, hl, hla⟩, ⟨n, hn', ht⟩, hu⟩ := h
  refine ⟨⟨hr.cls, hr.method, ?_, ?_, ?_, hr.nom, hr.uc⟩, ?_, ⟨n, Nat.le_trans hn hn', by rw [ht, hid.tag]⟩, ?_⟩
  · rw [hr.user, hid.remoteUfrag, hid.localUfrag]
  · rw [hr.key, hid.remotePwd]
  · rw [hr.role, hid.controlling, hid.tieBreaker]
  · have : ckey l ∈ b.locals.map ckey := List.mem_map_of_mem hl
    rw [hloc] at this
    obtain ⟨l0, hl0, e⟩ := List.mem_map.mp this
    exact ⟨l0, hl0, by rw [← hla, ← ckey_addr e]⟩
  · intro h; rw [← hid.controlling]; exact hu h

def NoDgram (o : List Out) : Prop := ∀ f t m, Out.dgram f t m ∉ o

theorem NoDgram.nil : NoDgram [] := fun _ _ _ h => by cases h
theorem NoDgram.append {o1 o2 : List Out} (h1 : NoDgram o1) (h2 : NoDgram o2) : NoDgram (o1 ++ o2) := by
  intro f t m h
  rcases List.mem_append.mp h with h | h
  · exact h1 f t m h
  · exact h2 f t m h

/-- running from `a` (time `now`) with result `r`: the frame, the identity, transaction ids only grow, the
requests among the outputs are as `ReqsOK` says, every other datagram satisfies `Q` -/
structure Walk (T0 now : Nat) (ex : Option Nat) (Q : Msg → Prop) (a : Agent) (r : Agent × List Out) : Prop where
  lk : LK T0 now ex a r.1
  id : SameId a r.1
  tid : a.nextTid ≤ r.1.nextTid
  reqs : ReqsOK a now r
  other : ∀ f t m, Out.dgram f t m ∈ r.2 → m.cls ≠ 0 → Q m

theorem ReqsOK.silent {a : Agent} {r : Agent × List Out} (h : NoDgram r.2) : ReqsOK a now r :=
  ⟨fun f t m hm => absurd hm (h f t m), fun f t m hm => absurd hm (h f t m), fun f t m hm => absurd hm (h f t m)⟩

theorem Walk.silent {a : Agent} {r : Agent × List Out} (hk : LK T0 now ex a r.1) (hid : SameId a r.1)
    (ht : a.nextTid ≤ r.1.nextTid) (h : NoDgram r.2) : Walk T0 now ex Q a r :=
  ⟨hk, hid, ht, ReqsOK.silent h, fun f t m hm => absurd hm (h f t m)⟩

theorem Walk.step {a b : Agent} (hk : LK T0 now ex a b) (hid : SameId a b) (ht : a.nextTid ≤ b.nextTid) :
    Walk T0 now ex Q a (b, []) := Walk.silent hk hid ht NoDgram.nil

theorem Walk.refl (a : Agent) : Walk T0 now ex Q a (a, []) :=
  Walk.step (LK.refl _ _ _ _) (SameId.refl a) (Nat.le_refl _)

theorem Walk.mono {Q' : Msg → Prop} {a : Agent} {r : Agent × List Out} (h : Walk T0 now ex Q a r)
    (hq : ∀ m, Q m → Q' m) : Walk T0 now ex Q' a r :=
  ⟨h.lk, h.id, h.tid, h.reqs, fun f t m hm hc => hq m (h.other f t m hm hc)⟩

theorem pend_young (tid f t net : Nat) (uc : Bool) (now : Nat) :
    now - (pendOf tid f t net uc now).ts < maxBindingRequestTimeout := by
  show now - now < 4000000000
  omega

/-- sequential composition: the second part runs at the same time `now` and consumes nothing -/
theorem Walk.seq {a : Agent} {r1 r2 : Agent × List Out} (h1 : Walk T0 now ex Q a r1)
    (h2 : Walk T0 now none Q r1.1 r2) : Walk T0 now ex Q a (r2.1, r1.2 ++ r2.2) := by
  refine ⟨h1.lk.trans h2.lk.weaken, h1.id.trans h2.id, Nat.le_trans h1.tid h2.tid, ⟨?_, ?_, ?_⟩, ?_⟩
  · intro f t m hm hc
    rcases List.mem_append.mp hm with hm | hm
    · exact h1.reqs.req f t m hm hc
    · exact (h2.reqs.req f t m hm hc).of_earlier h1.id h1.lk.locals h1.tid
  · intro f t m hm hc
    rcases List.mem_append.mp hm with hm | hm
    · exact h2.lk.pend _ _ (h1.reqs.pend f t m hm hc) (pend_young _ _ _ _ _ _) (by simp)
    · exact h2.reqs.pend f t m hm hc
  · intro f t m hm hc hu
    rcases List.mem_append.mp hm with hm | hm
    · exact UcOK.of_lk h2.lk (h1.reqs.uc f t m hm hc hu)
    · exact h2.reqs.uc f t m hm hc hu
  · intro f t m hm hc
    rcases List.mem_append.mp hm with hm | hm
    · exact h1.other f t m hm hc
    · exact h2.other f t m hm hc

/-- a silent update after `r1` -/
theorem Walk.andThen {a b : Agent} {r1 : Agent × List Out} (h1 : Walk T0 now ex Q a r1)
    (hk : LK T0 now none r1.1 b) (hid : SameId r1.1 b) (ht : r1.1.nextTid ≤ b.nextTid) :
    Walk T0 now ex Q a (b, r1.2) := by
  have := h1.seq (Walk.step (Q := Q) hk hid ht)
  simpa using this

/-- a silent update before `r2` -/
theorem Walk.after {a b : Agent} {r2 : Agent × List Out} (hk : LK T0 now ex a b) (hid : SameId a b)
    (ht : a.nextTid ≤ b.nextTid) (h2 : Walk T0 now none Q b r2) : Walk T0 now ex Q a r2 :=
  (Walk.step (Q := Q) hk hid ht).seq h2

theorem sameId_rfl {a b : Agent} (h : b.core = a.core) : SameId a b := SameId.of_core h

/-! ## sending -/

theorem localOf_mem {a : Agent} {u : Nat} {l : Cand} (h : a.localOf u = some l) : l ∈ a.locals :=
  List.mem_of_find?_eq_some h
theorem remoteOf_mem {a : Agent} {u : Nat} {r : Cand} (h : a.remoteOf u = some r) : r ∈ a.remotes :=
  List.mem_of_find?_eq_some h

/-- the one emitter of Binding requests -/
theorem sendRequest_walk (b : Agent) (l r : Cand) (uc : Bool) (hinv : LInv b) (hl : ∃ l0 ∈ b.locals, l0.addr = l.addr)
    (hr : r.net = 0) (hctl : uc = true → b.controlling = true) (huc : uc = true → UcOK b l.addr r.addr) :
    Walk T0 now none Q b (b.sendRequest now l r uc none) := by
  obtain ⟨m, ho, hm, htid, hfind⟩ := sendRequest_emits b now l r uc hinv.pendOK
  have hk := sendRequest_lk (T0 := T0) (now := now) (ex := none) b l r uc none
  have hmem : ∀ f t m', Out.dgram f t m' ∈ (b.sendRequest now l r uc none).2 → f = l.addr ∧ t = r.addr ∧ m' = m := by
    intro f t m' h
    rw [ho] at h
    simpa using h
  refine ⟨hk, SameId.of_core (core_sendRequest b now l r uc none),
    (IceProofs.AgentC02.frame_sendRequest b now l r uc none).tid, ⟨?_, ?_, ?_⟩, ?_⟩
  · intro f t m' h _
    obtain ⟨rfl, rfl, rfl⟩ := hmem f t m' h
    refine ⟨by rw [hm.uc]; exact hm, hl, ⟨b.nextTid, Nat.le_refl _, htid⟩, fun h => hctl (hm.uc ▸ h)⟩
  · intro f t m' h _
    obtain ⟨rfl, rfl, rfl⟩ := hmem f t m' h
    rw [htid, hfind, hr, hm.uc]
  · intro f t m' h _ hu
    obtain ⟨rfl, rfl, rfl⟩ := hmem f t m' h
    exact UcOK.of_lk hk (huc (hm.uc ▸ hu))
  · intro f t m' h hc
    obtain ⟨rfl, rfl, rfl⟩ := hmem f t m' h
    exact absurd hm.cls hc

theorem ping_walk (b : Agent) (l r : Cand) (hinv : LInv b) (hl : ∃ l0 ∈ b.locals, l0.addr = l.addr) (hr : r.net = 0) :
    Walk T0 now none Q b (b.ping now l r) :=
  sendRequest_walk b l r false hinv hl hr (fun h => by cases h) (fun h => by cases h)

/-! ## the timer path -/

local macro "sid" : term => `(⟨rfl, rfl, rfl, rfl, rfl, rfl, rfl, rfl, rfl, rfl⟩)
local macro "lkeq" : term => `(LK.of_eq rfl rfl rfl rfl rfl rfl rfl rfl rfl rfl rfl)

theorem setConnState_noDgram (a : Agent) (s : ConnState) : NoDgram (a.setConnState s).2 := by
  unfold Agent.setConnState
  split
  · exact NoDgram.nil
  · intro f t m h; simp at h

theorem select_noDgram (a : Agent) (id : Nat) : NoDgram (a.select id).2 := by
  have h : ∃ x y, (a.select id).2 = (({ (a.modPair id fun p => { p with nominated := true }) with
      selected := some id, onConnectedFired := true } : Agent).setConnState .connected).2 ++ [.cbPair x y] :=
    ⟨_, _, rfl⟩
  obtain ⟨x, y, h⟩ := h
  rw [h]
  apply NoDgram.append (setConnState_noDgram _ _)
  intro f t m hm; simp at hm

theorem pingStep_full (t : Nat) (a : Agent) (o : List Out) (id : Nat) :
    pingStep t (a, o) id = (a, o) ∨
    ∃ p, a.pairById id = some p ∧ (p.state = .waiting ∨ p.state = .inProgress) ∧
      (pingStep t (a, o) id = (pingPre a id p, o) ∨
       pingStep t (a, o) id = ((pingPre a id p).modPair id (fun p => { p with state := .failed }), o) ∨
       ∃ l r, (pingPre a id p).localOf p.l = some l ∧ (pingPre a id p).remoteOf p.r = some r ∧
         pingStep t (a, o) id =
           (((pingPre a id p).ping t l r).1.modPair id (fun p => { p with reqCount := p.reqCount + 1 }),
            o ++ ((pingPre a id p).ping t l r).2)) := by
  unfold pingStep
  simp only []
  cases hp : a.pairById id with
  | none => exact Or.inl rfl
  | some p =>
    simp only []
    have tail : ∀ (b : Agent) (q : Pair) (res : Agent × List Out),
        (if q.reqCount > b.cfg.maxBindingRequests then
          (b.modPair id fun p => { p with state := .failed }, o)
        else
          match b.localOf q.l, b.remoteOf q.r with
          | some l, some r =>
            let (a, o') := b.ping t l r
            (a.modPair id fun p => { p with reqCount := p.reqCount + 1 }, o ++ o')
          | _, _ => (b, o)) = res →
        res = (b, o) ∨ res = (b.modPair id (fun p => { p with state := .failed }), o) ∨
        ∃ l r, b.localOf q.l = some l ∧ b.remoteOf q.r = some r ∧
          res = ((b.ping t l r).1.modPair id (fun p => { p with reqCount := p.reqCount + 1 }), o ++ (b.ping t l r).2) := by
      intro b q res hres
      split at hres
      · exact Or.inr (Or.inl hres.symm)
      · split at hres
        · rename_i l r hl hr
          exact Or.inr (Or.inr ⟨l, r, hl, hr, hres.symm⟩)
        · exact Or.inl hres.symm
    by_cases hw : p.state = .waiting
    · have e : (p.state == PairState.waiting) = true := by simp [hw]
      have hpre : pingPre a id p = a.modPair id fun q => { q with state := .inProgress } := by
        unfold pingPre; rw [if_pos e]
      simp only [e, if_true, Bool.not_true, Bool.false_eq_true, if_false]
      refine Or.inr ⟨p, rfl, Or.inl hw, ?_⟩
      rw [hpre]
      exact tail _ { p with state := .inProgress } _ rfl
    · have e : (p.state == PairState.waiting) = false := by simp [hw]
      have hpre : pingPre a id p = a := by
        unfold pingPre; rw [e]; rfl
      simp only [e, Bool.false_eq_true, if_false]
      by_cases hip : p.state = .inProgress
      · have e2 : (p.state == PairState.inProgress) = true := by simp [hip]
        simp only [e2, Bool.not_true, Bool.false_eq_true, if_false]
        refine Or.inr ⟨p, rfl, Or.inr hip, ?_⟩
        rw [hpre]
        exact tail _ p _ rfl
      · have e2 : (p.state == PairState.inProgress) = false := by simp [hip]
        simp only [e2, Bool.not_false, if_true]
        first | exact Or.inl rfl | exact Or.inl trivial

theorem pingPre_lk (a : Agent) (id : Nat) (p : Pair) (hi : IdsOK a) (hp : a.pairById id = some p) :
    LK T0 now ex a (pingPre a id p) := by
  unfold pingPre
  split
  · rename_i hw
    have hw' : p.state = .waiting := by simpa using hw
    refine LK.setState a id .inProgress (by decide) ?_
    intro x hx e
    have := pairById_of_mem hi hx
    rw [e, hp] at this
    cases this
    rw [hw']; decide
  · exact LK.refl _ _ _ _

theorem pingPre_sameId (a : Agent) (id : Nat) (p : Pair) : SameId a (pingPre a id p) := by
  unfold pingPre; split
  · exact sid
  · exact SameId.refl a

theorem pingPre_tid (a : Agent) (id : Nat) (p : Pair) : (pingPre a id p).nextTid = a.nextTid := by
  unfold pingPre; split <;> rfl

/-- one iteration of `pingAllCandidates`, outputs included -/
theorem pingStep_walk (b : Agent) (o : List Out) (id : Nat) (hinv : LInv b) :
    ∃ o2, (pingStep now (b, o) id).2 = o ++ o2 ∧ Walk T0 now none Q b ((pingStep now (b, o) id).1, o2) := by
  have hk := (pingStep_w (T0 := T0) (now := now) (ex := none) b o id).2 hinv.ids
  rcases pingStep_full now b o id with h | ⟨p, hp, hst, h | h | ⟨l, r, hl, hr, h⟩⟩
  · rw [h] at hk ⊢
    exact ⟨[], (List.append_nil o).symm, Walk.refl b⟩
  · rw [h] at hk ⊢
    exact ⟨[], (List.append_nil o).symm, Walk.step hk (pingPre_sameId b id p) (Nat.le_of_eq (pingPre_tid b id p).symm)⟩
  · rw [h] at hk ⊢
    exact ⟨[], (List.append_nil o).symm, Walk.step hk ((pingPre_sameId b id p).trans sid)
      (Nat.le_of_eq (pingPre_tid b id p).symm)⟩
  · rw [h]
    refine ⟨_, rfl, ?_⟩
    have k1 := pingPre_lk (T0 := T0) (now := now) (ex := none) b id p hinv.ids hp
    have hinv1 := k1.inv hinv
    refine Walk.after k1 (pingPre_sameId b id p) (Nat.le_of_eq (pingPre_tid b id p).symm) ?_
    refine (ping_walk _ l r hinv1 ⟨l, localOf_mem hl, rfl⟩ (hinv1.remOK.1 r (remoteOf_mem hr)).1).andThen ?_ sid
      (Nat.le_refl _)
    exact LK.modPair_keep _ id (fun p => { p with reqCount := p.reqCount + 1 }) (fun _ => rfl) (fun _ => rfl)
      (fun _ => rfl) (fun _ => rfl) (fun _ => rfl) (fun _ => rfl)

theorem pingAll_walk (a : Agent) (hinv : LInv a) : Walk T0 now none Q a (a.pingAll now) := by
  rw [pingAll_eq]
  apply IceProofs.List.foldl_inv (fun (acc : Agent × List Out) => Walk T0 now none Q a acc)
  · exact Walk.refl a
  · intro acc id hb
    obtain ⟨b1, o⟩ := acc
    obtain ⟨o2, ho2, hw⟩ := pingStep_walk (T0 := T0) (Q := Q) b1 o id (hb.lk.inv hinv)
    have := hb.seq hw
    have e : pingStep now (b1, o) id = ((pingStep now (b1, o) id).1, o ++ o2) := Prod.ext rfl ho2
    rw [e]
    exact this

theorem validateSelected_noDgram (a : Agent) (t : Nat) : NoDgram (a.validateSelected t).2.1 := by
  unfold Agent.validateSelected
  split
  · exact NoDgram.nil
  · exact setConnState_noDgram a _

theorem validateSelected_walk (a : Agent) (hv : ValOK a now) :
    Walk T0 now none Q a ((a.validateSelected now).1, (a.validateSelected now).2.1) :=
  Walk.silent (validateSelected_lk a hv) (SameId.of_core (core_validateSelected a now))
    (IceProofs.AgentC02.frame_validateSelected a now).tid (validateSelected_noDgram a now)

theorem keepalive_walk (a : Agent) (hinv : LInv a) : Walk T0 now none Q a (a.keepalive now) := by
  unfold Agent.keepalive
  split
  · exact Walk.refl a
  · split
    · split
      · rename_i l r hl hr
        exact ping_walk a l r hinv ⟨l, localOf_mem hl, rfl⟩ (hinv.remOK.1 r (remoteOf_mem hr)).1
      · exact Walk.refl a
    · exact Walk.refl a

/-- `nominatePair` on the ends of a listed valid pair, by a controlling agent -/
theorem nominate_walk (a : Agent) (p : Pair) (hinv : LInv a) (hc : a.controlling = true)
    (hq : ∃ q ∈ a.checklist, q.l = p.l ∧ q.r = p.r ∧ q.state = .succeeded) :
    Walk T0 now none Q a (a.nominate now p) := by
  unfold Agent.nominate
  split
  · rename_i l r hl hr
    obtain ⟨q, hqm, e1, e2, hs⟩ := hq
    exact sendRequest_walk a l r true hinv ⟨l, localOf_mem hl, rfl⟩ (hinv.remOK.1 r (remoteOf_mem hr)).1
      (fun _ => hc) (fun _ => ⟨q, l, r, hqm, hs, by rw [e1]; exact hl, by rw [e2]; exact hr, rfl, rfl⟩)
  · exact Walk.refl a

theorem valKeep_walk (a : Agent) (hinv : LInv a) (hv : ValOK a now) : Walk T0 now none Q a (valKeep a now) := by
  unfold valKeep
  have h1 := validateSelected_walk (T0 := T0) (Q := Q) a hv
  rcases hk : a.validateSelected now with ⟨a1, o1, ok⟩
  rw [hk] at h1
  simp only [] at h1 ⊢
  split
  · exact h1.seq (keepalive_walk a1 (h1.lk.inv hinv))
  · exact h1

theorem contactCandidates_walk (a : Agent) (hinv : LInv a) (hv : ValOK a now) :
    Walk T0 now none Q a (a.contactCandidates now) := by
  unfold Agent.contactCandidates
  split
  · rename_i hctl
    split
    · show Walk T0 now none Q a (valKeepAuto a now)
      rw [valKeepAuto_off a now hv.2]
      exact valKeep_walk a hinv hv
    · split
      · rename_i p hp
        refine nominate_walk a p hinv hctl ?_
        cases hn : a.nominatedPair with
        | none => rw [hn] at hp; cases hp
        | some nid =>
          rw [hn] at hp
          simp only [Option.bind_some] at hp
          obtain ⟨q, hqm, hqid, hqs⟩ := hinv.nomOK nid hn
          obtain ⟨hpm, hpid⟩ := pairById_mem hp
          have : q = p := mem_unique hinv.ids hqm hpm (hqid.trans hpid.symm)
          subst this
          exact ⟨q, hqm, rfl, rfl, hqs⟩
      · split
        · exact Walk.refl a
        · split
          · split
            · split
              · rename_i hnone _ p hbest _ _ _ _ _ _ _
                have hb := bestBy_some (ok := fun q => q.state == .succeeded) hbest
                have hps : p.state = .succeeded := by simpa using hb.2
                have hmem : ({ p with nominated := true } : Pair) ∈
                    (a.modPair p.id fun p => { p with nominated := true }).checklist := by
                  have := mem_updPair_of_mem (id := p.id) (f := fun p : Pair => { p with nominated := true }) hb.1
                  simp only [beq_self_eq_true, if_true] at this
                  exact this
                have k1 : LK T0 now none a ({ (a.modPair p.id fun p => { p with nominated := true }) with
                    nominatedPair := some p.id } : Agent) :=
                  (LK.modPair_keep a p.id (fun p => { p with nominated := true }) (fun _ => rfl) (fun _ => rfl)
                    (fun _ => rfl) (fun _ => rfl) (fun _ => rfl) (fun _ => rfl)).trans
                  (LK.setNominated _ p.id hnone ⟨{ p with nominated := true }, hmem, rfl, hps⟩)
                refine Walk.after k1 sid (Nat.le_refl _) ?_
                exact nominate_walk _ p (k1.inv hinv) hctl ⟨{ p with nominated := true }, hmem, rfl, rfl, hps⟩
              · exact pingAll_walk a hinv
            · exact pingAll_walk a hinv
          · exact pingAll_walk a hinv
  · split
    · exact validateSelected_walk a hv
    · split
      · exact valKeep_walk a hinv hv
      · exact pingAll_walk a hinv

theorem finish_walk {a : Agent} {r : Agent × List Out} (h : Walk T0 now ex Q a r) : Walk T0 now ex Q a (finish r) :=
  h.andThen (b := { r.1 with lastSeen := r.1.connState }) lkeq sid (Nat.le_refl _)

theorem chk_lk (a : Agent) (t : Nat) : LK T0 now ex a (chk a t) := by
  unfold chk; split
  · exact lkeq
  · exact LK.refl _ _ _ _

theorem chk_sameId (a : Agent) (t : Nat) : SameId a (chk a t) := by
  unfold chk; split
  · exact sid
  · exact SameId.refl a

theorem chk_tid (a : Agent) (t : Nat) : (chk a t).nextTid = a.nextTid := by
  unfold chk; split <;> rfl

/-- one tick: requests only -/
theorem contact_walk (a : Agent) (hinv : LInv a) (hv : ValOK a now) (hck : CkOK a now) :
    Walk T0 now none Q a (a.contact now) := by
  rw [contact_eq]
  split
  · exact Walk.refl a
  · split
    · exact finish_walk (r := (a, [])) (Walk.refl a)
    · rename_i hcs
      split
      · rename_i hdl
        rw [hck hcs] at hdl
        cases hdl
      · have k := chk_lk (T0 := T0) (now := now) (ex := none) a now
        exact finish_walk (Walk.after k (chk_sameId a now) (Nat.le_of_eq (chk_tid a now).symm)
          (contactCandidates_walk _ (k.inv hinv) (chk_valOK a now hv)))
    · exact finish_walk (contactCandidates_walk a hinv hv)

theorem runForced_walk {H : Nat} (b : Agent) (hg : Good0 T0 H b) (hn : now ≤ H) :
    Walk T0 now none Q b (b.runForced now) := by
  unfold Agent.runForced
  split
  · have k0 : LK T0 now none b ({ b with forcePending := false } : Agent) := lkeq
    have hv := hg.timely.valOK hn
    have hck := hg.timely.ckOK hn
    have hck' : CkOK { b with forcePending := false } now := by
      intro hc
      have := hck hc
      rw [chk_forcePending]
      exact this
    have h := contact_walk (T0 := T0) (Q := Q) { b with forcePending := false } (k0.inv hg.linv)
      (ValOK.of_eq rfl rfl rfl rfl rfl hv) hck'
    rcases hk : Agent.contact { b with forcePending := false } now with ⟨a1, o1⟩
    rw [hk] at h
    simp only []
    exact (Walk.after k0 sid (Nat.le_refl _) h).andThen (b := { a1 with nextTick := some (now + a1.interval) })
      lkeq sid (Nat.le_refl _)
  · exact Walk.refl b

/-! ## inbound STUN -/

theorem Walk.resp {a : Agent} {r : Agent × List Out} (hk : LK T0 now ex a r.1) (hid : SameId a r.1)
    (ht : a.nextTid ≤ r.1.nextTid) (h : ∀ f t m, Out.dgram f t m ∈ r.2 → m.cls ≠ 0 ∧ Q m) : Walk T0 now ex Q a r :=
  ⟨hk, hid, ht, ⟨fun f t m hm hc => absurd hc (h f t m hm).1, fun f t m hm hc => absurd hc (h f t m hm).1,
    fun f t m hm hc => absurd hc (h f t m hm).1⟩, fun f t m hm _ => (h f t m hm).2⟩

/-- what a response to `m` looks like -/
def RespTo (m m' : Msg) : Prop := (m'.cls = 2 ∨ m'.cls = 3) ∧ m'.tid = m.tid

theorem sendSuccess_walk (b : Agent) (m : Msg) (l r : Cand) :
    Walk T0 now none (RespTo m) b (b.sendSuccess now m l r) := by
  refine Walk.resp (sendSuccess_lk b m l r) (SameId.of_core (core_sendSuccess b now m l r))
    (IceProofs.AgentC02.frame_sendSuccess b now m l r).tid ?_
  intro f t m' h
  unfold Agent.sendSuccess at h
  simp only [List.mem_singleton, Out.dgram.injEq] at h
  obtain ⟨_, _, rfl⟩ := h
  exact ⟨by simp, Or.inl rfl, rfl⟩

theorem LK.locals_addr {a b : Agent} (hk : LK T0 now ex a b) {f : Nat} (h : ∃ l0 ∈ a.locals, l0.addr = f) :
    ∃ l0 ∈ b.locals, l0.addr = f := by
  obtain ⟨l0, hl0, e⟩ := h
  have : ckey l0 ∈ a.locals.map ckey := List.mem_map_of_mem hl0
  rw [← hk.locals] at this
  obtain ⟨l1, hl1, e1⟩ := List.mem_map.mp this
  exact ⟨l1, hl1, by rw [ckey_addr e1]; exact e⟩

theorem reqMark_step (a : Agent) (id : Nat) (m : Msg) : Walk T0 now ex Q a (a.modPair id (reqMark m), []) :=
  Walk.step (reqMark_lk a id m) sid (Nat.le_refl _)

theorem ctlHandleRequest_walk (a : Agent) (m : Msg) (l r : Cand) (hinv : LInv a) (hc : a.controlling = true) :
    Walk T0 now none (RespTo m) a (a.ctlHandleRequest now m l r) := by
  rw [ctlHandleRequest_eq]
  have h1 := sendSuccess_walk (T0 := T0) (now := now) a m l r
  generalize a.sendSuccess now m l r = ss at h1 ⊢
  obtain ⟨a1, o1⟩ := ss
  split
  · exact h1.andThen ((addPair_lk a1 l r).trans (reqMark_lk _ _ m)) sid (Nat.le_refl _)
  · rename_i p hfp
    have h2 : Walk T0 now none (RespTo m) a (a1.modPair p.id (reqMark m), o1) :=
      h1.andThen (reqMark_lk a1 p.id m) sid (Nat.le_refl _)
    have hmem : reqMark m p ∈ (a1.modPair p.id (reqMark m)).checklist := by
      have := mem_updPair_of_mem (id := p.id) (f := reqMark m) (findPair_mem hfp)
      simp only [beq_self_eq_true, if_true] at this
      exact this
    rcases ctlNominate_cases' (a1.modPair p.id (reqMark m)) now l r p o1 with h | ⟨hs, hn, h⟩
    · rw [h]; exact h2
    · rw [h]
      have k3 : LK T0 now none (a1.modPair p.id (reqMark m))
          ({ (a1.modPair p.id (reqMark m)) with nominatedPair := some p.id } : Agent) :=
        LK.setNominated _ p.id hn ⟨reqMark m p, hmem, rfl, hs⟩
      have h3 : Walk T0 now none (RespTo m) a
          (({ (a1.modPair p.id (reqMark m)) with nominatedPair := some p.id } : Agent), o1) :=
        h2.andThen k3 sid (Nat.le_refl _)
      exact h3.seq (nominate_walk _ p (h3.lk.inv hinv) (h3.id.controlling.trans hc) ⟨reqMark m p, hmem, rfl, rfl, hs⟩)

theorem cldPre_sameId (a : Agent) (m : Msg) (l r : Cand) : SameId a (cldPre a m l r).1 := by
  unfold cldPre; split <;> exact sid

theorem cldPre_tid (a : Agent) (m : Msg) (l r : Cand) : (cldPre a m l r).1.nextTid = a.nextTid := by
  unfold cldPre; split <;> rfl

theorem cldAccept_sameId (a : Agent) (m : Msg) : SameId a (cldAccept a m).1 := by
  rcases cldAccept_cases a m with h | ⟨v, h⟩ <;> rw [h]
  · exact SameId.refl a
  · exact sid

theorem cldAccept_tid (a : Agent) (m : Msg) : (cldAccept a m).1.nextTid = a.nextTid := by
  rcases cldAccept_cases a m with h | ⟨v, h⟩ <;> rw [h]

theorem cldNom_walk (a : Agent) (id : Nat) (m : Msg) (hnom : m.nom = none) (hfull : a.cfg.lite = false) :
    Walk T0 now none Q a (cldNom a id m) := by
  have hk := cldNom_lk' (T0 := T0) (now := now) (ex := none) a id m hnom hfull
  have hL := cldLite_full a id hfull
  rcases cldNom_cases a id m with ⟨h, _⟩ | ⟨_, h | ⟨p, _, _, _, h⟩ | ⟨p, _, _, h⟩⟩
  · rw [h]; exact Walk.refl a
  · rw [h, hL]; exact Walk.refl a
  · rw [h, hL] at hk ⊢
    exact Walk.silent hk (SameId.of_core (core_select a id)) (IceProofs.AgentC02.frame_select a id).tid
      (select_noDgram a id)
  · rw [h, hL] at hk ⊢
    exact Walk.step hk sid (Nat.le_refl _)

theorem cldPing_walk (a : Agent) (l r : Cand) (id : Nat) (hinv : LInv a) (hl : ∃ l0 ∈ a.locals, l0.addr = l.addr)
    (hr : r.net = 0) : Walk T0 now none Q a (cldPing a now l r id) := by
  unfold cldPing
  split
  · split
    · exact ping_walk a l r hinv hl hr
    · exact Walk.refl a
  · exact Walk.refl a

theorem cldHandleRequest_walk (a : Agent) (m : Msg) (l r : Cand) (hinv : LInv a) (hnom : m.nom = none)
    (hfull : a.cfg.lite = false) (hl : ∃ l0 ∈ a.locals, l0.addr = l.addr) (hr : r.net = 0) :
    Walk T0 now none (RespTo m) a (a.cldHandleRequest now m l r) := by
  rw [cldHandleRequest_eq]
  have h2 : Walk T0 now none (RespTo m) a ((cldAccept (cldPre a m l r).1 m).1, []) :=
    Walk.step ((cldPre_lk a m l r).trans (cldAccept_lk _ m)) ((cldPre_sameId a m l r).trans (cldAccept_sameId _ m))
      (by rw [cldAccept_tid, cldPre_tid]; exact Nat.le_refl _)
  have hf2 : (cldAccept (cldPre a m l r).1 m).1.cfg.lite = false := by
    rw [h2.id.cfg]; exact hfull
  split
  · exact h2.seq (sendSuccess_walk _ m l r)
  · unfold cldTail
    have h3 := h2.seq (cldNom_walk (Q := RespTo m) (cldAccept (cldPre a m l r).1 m).1 (cldPre a m l r).2 m hnom hf2)
    have h4 := h3.seq (sendSuccess_walk (cldNom (cldAccept (cldPre a m l r).1 m).1 (cldPre a m l r).2 m).1 m l r)
    exact h4.seq (cldPing_walk _ l r _ (h4.lk.inv hinv) (h4.lk.locals_addr hl) hr)

theorem hiReq_walk (a : Agent) (l r : Cand) (m : Msg) (h0 : T0 ≤ now) (hinv : LInv a) (hnom : m.nom = none)
    (hfull : a.cfg.lite = false) (hl : ∃ l0 ∈ a.locals, l0.addr = l.addr) (hr : r.net = 0) :
    Walk T0 now none (RespTo m) a (hiReq a now l r m []) := by
  unfold hiReq
  cases hc : a.controlling
  · simp only [Bool.false_eq_true, if_false]
    exact (cldHandleRequest_walk a m l r hinv hnom hfull hl hr).andThen (seenRemoteRecv_lk _ _ _ h0) sid (Nat.le_refl _)
  · simp only [if_true]
    exact (ctlHandleRequest_walk a m l r hinv hc).andThen (seenRemoteRecv_lk _ _ _ h0) sid (Nat.le_refl _)

theorem hiRole_walk (a : Agent) (l r : Cand) (m : Msg) (h0 : T0 ≤ now) (hinv : LInv a) (hnom : m.nom = none)
    (hnc : NoConflict a m) (hfull : a.cfg.lite = false) (hl : ∃ l0 ∈ a.locals, l0.addr = l.addr) (hr : r.net = 0) :
    Walk T0 now none (RespTo m) a (hiRole a now l r m []) := by
  unfold hiRole
  split
  · rename_i ctl tb hrole
    split
    · rename_i hc
      exact absurd (by simpa using hc) (hnc ctl tb hrole)
    · exact hiReq_walk a l r m h0 hinv hnom hfull hl hr
  · exact hiReq_walk a l r m h0 hinv hnom hfull hl hr

theorem hiDisc_out (a : Agent) (l : Cand) (src : Nat) (m : Msg) : (hiDisc a l src m).2.1 = [] := by
  unfold hiDisc
  split
  · rfl
  · exact (addRemoteCandidate_prflx a _ rfl).2

theorem addRemoteCandidate_prflx_net (a : Agent) (c : Cand) (hty : c.ty = 3) (r : Cand)
    (h : (a.addRemoteCandidate c).2.2 = some r) : r.net = c.net := by
  unfold Agent.addRemoteCandidate at h
  split at h
  · cases h
  · split at h
    · rename_i e he
      simp only [Option.some.injEq] at h
      subst h
      have hm := List.mem_of_find?_eq_some he
      have := (List.mem_filter.mp hm).2
      simpa using this
    · simp only [hty, beq_self_eq_true, if_true, List.foldl_nil, Option.some.injEq] at h
      subst h
      rfl

/-- the resolved source of a request has the network type of the receiving candidate -/
theorem hiDisc_net (a : Agent) (l : Cand) (src : Nat) (m : Msg) (r : Cand) (h : (hiDisc a l src m).2.2 = some r) :
    r.net = l.net := by
  unfold hiDisc at h
  cases hf : a.findRemote l.net src with
  | some r0 =>
    rw [hf] at h
    simp only [Option.some.injEq] at h
    subst h
    have := List.find?_some hf
    simp only [Bool.and_eq_true, beq_iff_eq] at this
    exact this.1
  | none =>
    rw [hf] at h
    exact addRemoteCandidate_prflx_net a (prflxCand l src m) rfl r h

theorem hsSel_noDgram (a : Agent) (p : Pair) (pd : Pending) : NoDgram (hsSel a p pd).2 := by
  rcases hsSel_cases a p pd with h | ⟨h, _⟩
  · rw [h]; exact NoDgram.nil
  · rw [h]; exact select_noDgram _ _

theorem handleSuccess_noDgram (a : Agent) (t : Nat) (m : Msg) (l r : Cand) (src : Nat) :
    NoDgram (a.handleSuccess t m l r src).2 := by
  rw [handleSuccess_eq]
  split
  · exact NoDgram.nil
  · split
    · exact NoDgram.nil
    · split
      · exact NoDgram.nil
      · exact hsSel_noDgram _ _ _

/-- the outputs of `handleInbound` on a full agent -/
theorem handleInbound_outs (a : Agent) (l : Cand) (src : Nat) (m : Msg) (h0 : T0 ≤ now) (hnet : l.net = 0)
    (hfull : a.cfg.lite = false) (hinv : LInv a) (hl : l ∈ a.locals)
    (hok : AuthRequest a m → m.nom = none ∧ NoConflict a m) :
    ReqsOK a now (a.handleInbound now l src m) ∧
    ∀ f t m', Out.dgram f t m' ∈ (a.handleInbound now l src m).2 → m'.cls ≠ 0 →
      (m'.cls = 2 ∨ m'.cls = 3) ∧ m.cls = 0 ∧ m'.tid = m.tid ∧ AuthRequest a m := by
  have silent : ∀ r : Agent × List Out, NoDgram r.2 → ReqsOK a now r ∧
      ∀ f t m', Out.dgram f t m' ∈ r.2 → m'.cls ≠ 0 →
        (m'.cls = 2 ∨ m'.cls = 3) ∧ m.cls = 0 ∧ m'.tid = m.tid ∧ AuthRequest a m :=
    fun r h => ⟨ReqsOK.silent h, fun f t m' hm => absurd hm (h f t m')⟩
  rw [IceProofs.C03.handleInbound_eq]
  split
  · exact silent _ NoDgram.nil
  · rename_i hmeth
    split
    · split
      · exact silent _ NoDgram.nil
      · split
        · exact silent _ NoDgram.nil
        · exact silent _ (handleSuccess_noDgram a now m l _ src)
    · split
      · rename_i hcls0
        split
        · exact silent _ NoDgram.nil
        · rename_i huser
          split
          · exact silent _ NoDgram.nil
          · rename_i hkey
            have hauth : AuthRequest a m := by
              simp only [Bool.not_eq_true, Bool.not_eq_false', Bool.and_eq_true, beq_iff_eq] at hmeth
              exact ⟨hmeth.1, by simpa using hcls0, by simpa using huser, by simpa using hkey⟩
            obtain ⟨hnom, hnc⟩ := hok hauth
            have hd : Walk T0 now none (RespTo m) a ((hiDisc a l src m).1, (hiDisc a l src m).2.1) :=
              Walk.silent (hiDisc_lk a l src m hnet) (SameId.of_core (hiDisc_core a l src m))
                (IceProofs.AgentC02.tid_hiDiscover a l src m).tid (by rw [hiDisc_out]; exact NoDgram.nil)
            have fin : ∀ r : Agent × List Out, Walk T0 now none (RespTo m) a r → ReqsOK a now r ∧
                ∀ f t m', Out.dgram f t m' ∈ r.2 → m'.cls ≠ 0 →
                  (m'.cls = 2 ∨ m'.cls = 3) ∧ m.cls = 0 ∧ m'.tid = m.tid ∧ AuthRequest a m := by
              intro r w
              refine ⟨w.reqs, fun f t m' hm hc => ?_⟩
              obtain ⟨h1, h2⟩ := w.other f t m' hm hc
              exact ⟨h1, hauth.2.1, h2, hauth⟩
            split
            · exact fin _ hd
            · rename_i r hrc
              have hnc1 : NoConflict (hiDisc a l src m).1 m := by
                intro ctl tb hr
                rw [hd.id.controlling]
                exact hnc ctl tb hr
              have h2 := hiRole_walk (T0 := T0) (now := now) (hiDisc a l src m).1 l r m h0 (hd.lk.inv hinv) hnom hnc1
                (by rw [hd.id.cfg]; exact hfull) (hd.lk.locals_addr ⟨l, hl, rfl⟩)
                ((hiDisc_net a l src m r hrc).trans hnet)
              have h3 := hd.seq h2
              have e : hiRole (hiDisc a l src m).1 now l r m (hiDisc a l src m).2.1 =
                  ((hiRole (hiDisc a l src m).1 now l r m []).1,
                   (hiDisc a l src m).2.1 ++ (hiRole (hiDisc a l src m).1 now l r m []).2) :=
                Prod.ext (hiRole_out _ now l r m _).1 (hiRole_out _ now l r m _).2
              rw [e]
              exact fin _ h3
      · split
        · exact silent _ NoDgram.nil
        · exact silent _ NoDgram.nil

/-- `handleInbound` on a full agent, as a `Walk` -/
theorem handleInbound_walk (a : Agent) (l : Cand) (src : Nat) (m : Msg) (h0 : T0 ≤ now) (hnet : l.net = 0)
    (hfull : a.cfg.lite = false) (hinv : LInv a) (hl : l ∈ a.locals)
    (hok : AuthRequest a m → m.nom = none ∧ NoConflict a m) :
    Walk T0 now (if m.cls = 2 then some m.tid else none)
      (fun m' => (m'.cls = 2 ∨ m'.cls = 3) ∧ m.cls = 0 ∧ m'.tid = m.tid ∧ AuthRequest a m) a
      (a.handleInbound now l src m) :=
  ⟨handleInbound_lk' a l src m h0 hnet hfull hok, handleInbound_sameId a now l src m (fun h => (hok h).2),
   (IceProofs.AgentC02.tid_handleInbound a now l src m).tid,
   (handleInbound_outs a l src m h0 hnet hfull hinv hl hok).1, (handleInbound_outs a l src m h0 hnet hfull hinv hl hok).2⟩

end walk

/-- the state between `handleInbound` and the forced tick of an inbound step (the middle of `step_inbound_good`) -/
theorem handleInbound_good0 {T0 H now : Nat} (h0 : T0 ≤ now) {a : Agent} (hg : Good T0 H a) (l : Cand)
    (hlm : l ∈ a.locals) (src : Nat) (m : Msg) (hok : AuthRequest a m → m.nom = none ∧ NoConflict a m) :
    Good0 T0 H (a.handleInbound now l src m).1 := by
  have hnet : l.net = 0 := (hg.locOK.1 l hlm).1
  have k1 := handleInbound_lk' (T0 := T0) (now := now) a l src m h0 hnet hg.full hok
  have id1 := handleInbound_sameId a now l src m (fun h => (hok h).2)
  have tf1 := tf_handleInbound a now l src m
  have ht1 : Timely T0 H (a.handleInbound now l src m).1 := by
    apply hg.timely.of_lk k1 id1.cfg (congrArg TF.checkingTimeout tf1)
    · intro hls
      rw [show (a.handleInbound now l src m).1.lastSeen = a.lastSeen from congrArg TF.lastSeen tf1] at hls
      rw [show (a.handleInbound now l src m).1.checkingTimeout = a.checkingTimeout from congrArg TF.checkingTimeout tf1,
        show (a.handleInbound now l src m).1.checkingStart = a.checkingStart from congrArg TF.checkingStart tf1]
      rcases hg.timely.ck with h | ⟨_, h⟩
      · exact Or.inl h
      · exact Or.inr (h hls)
    · intro id hid
      rcases handleInbound_selFresh a now l src m hg.linv (fun h => (hok h).2) hnet id hid with h | ⟨p, r, h1, h2, h3⟩
      · exact Or.inl h
      · exact Or.inr ⟨p, r, now, h1, h2, h3, h0⟩
  exact hg.good0.of_lk k1 id1 ht1

/-- one tick at `now` -/
theorem contact_reqs {T0 H now : Nat} (h0 : T0 ≤ now) (hn : now ≤ H) {a : Agent} (hg : Good0 T0 H a) :
    ReqsOK a now (a.contact now) ∧ ∀ f t m, Out.dgram f t m ∈ (a.contact now).2 → m.cls = 0 := by
  have _ := h0
  have w := contact_walk (T0 := T0) (Q := fun _ => False) a hg.linv (hg.timely.valOK hn) (hg.timely.ckOK hn)
  exact ⟨w.reqs, fun f t m hm => Decidable.byContradiction (fun hc => w.other f t m hm hc)⟩

/-- one inbound STUN message (`handleInbound` followed by a forced tick, if any) -/
theorem step_inbound_reqs {T0 H now : Nat} (h0 : T0 ≤ now) (hn : now ≤ H) {a : Agent} (hg : Good T0 H a)
    (la src : Nat) (m : Msg) (hok : AuthRequest a m → m.nom = none ∧ NoConflict a m) :
    ReqsOK a now (step a (.inbound now la src m)) ∧
    ∀ f t m', Out.dgram f t m' ∈ (step a (.inbound now la src m)).2 → m'.cls ≠ 0 →
      (m'.cls = 2 ∨ m'.cls = 3) ∧ m.cls = 0 ∧ m'.tid = m.tid ∧ AuthRequest a m := by
  rw [step_inbound_proj]
  simp only [hg.open_, hg.started, Bool.not_true, Bool.or_self, Bool.false_eq_true, if_false]
  cases hl : a.localByAddr la with
  | none => exact ⟨ReqsOK.silent NoDgram.nil, fun f t m' h => by cases h⟩
  | some l =>
    simp only []
    obtain ⟨hlm, _⟩ := IceProofs.C01.localByAddr_spec hl
    have hnet : l.net = 0 := (hg.locOK.1 l hlm).1
    have w1 := handleInbound_walk (T0 := T0) (now := now) a l src m h0 hnet hg.full hg.linv hlm hok
    have g1 := handleInbound_good0 (now := now) h0 hg l hlm src m hok
    have w := w1.seq ((runForced_walk (T0 := T0) (Q := fun _ => False) _ g1 hn).mono (fun _ h => h.elim))
    exact ⟨w.reqs, w.other⟩

/-- all due ticks up to `T` (any number of catch-up ticks at different times: no statement about `pending`) -/
theorem runTimers_reqs {T0 H T : Nat} (hT : T ≤ H) (fuel : Nat) {a : Agent} (hg : Good T0 H a) :
    ∀ f t m, Out.dgram f t m ∈ (a.runTimers T fuel).2 → m.cls = 0 ∧ ReqOut a f t m := by
  induction fuel generalizing a with
  | zero => intro f t m h; cases h
  | succ n ih =>
    obtain ⟨tk, htk, ht0⟩ := hg.tick
    unfold Agent.runTimers
    rw [htk]
    simp only [hg.started, hg.open_, Bool.not_false, Bool.and_self, Bool.true_and, decide_eq_true_eq]
    by_cases hle : tk ≤ T
    · simp only [hle, if_true]
      obtain ⟨g1, k1, f1, n1⟩ := contact_good0 hg.good0 ht0 (Nat.le_trans hle hT)
      have id1 := SameId.of_core (core_contact a tk)
      have c1 := contact_reqs ht0 (Nat.le_trans hle hT) hg.good0
      have tid1 := (IceProofs.AgentC02.frame_contact a tk).tid
      rcases hk : a.contact tk with ⟨a1, o1⟩
      rw [hk] at g1 k1 f1 n1 id1 c1 tid1
      simp only [] at g1 k1 f1 n1 id1 c1 tid1 ⊢
      have g2 : Good T0 H { a1 with nextTick := some (tk + a1.interval) } :=
        Good.mk0 (g1.nextTick _) (by simpa using f1.trans hg.noForce) ⟨_, rfl, by omega⟩
      have ih2 := ih g2
      rcases hr : Agent.runTimers { a1 with nextTick := some (tk + a1.interval) } T n with ⟨a2, o2⟩
      rw [hr] at ih2
      simp only [] at ih2 ⊢
      intro f t m hm
      rcases List.mem_append.mp hm with hm | hm
      · exact ⟨c1.2 f t m hm, c1.1.req f t m hm (c1.2 f t m hm)⟩
      · obtain ⟨hc, hq⟩ := ih2 f t m hm
        exact ⟨hc, hq.of_earlier (b := { a1 with nextTick := some (tk + a1.interval) })
          (id1.trans (sameId_nextTick a1 _)) k1.locals tid1⟩
    · simp only [hle, if_false]
      intro f t m h; cases h

/-! ## the conditional form of `ReqsOK` (any number of catch-up ticks) -/

/-- the requests among the outputs of `r`: conditional form that also holds for several ticks at different times -/
structure ReqsOK' (a : Agent) (r : Agent × List Out) : Prop where
  req : ∀ f t m, Out.dgram f t m ∈ r.2 → m.cls = 0 → ReqOut a f t m
  pend : ∀ f t m, Out.dgram f t m ∈ r.2 → m.cls = 0 → ∀ pd ∈ r.1.pending, pd.tid = m.tid →
    pd.src = f ∧ pd.dest = t ∧ pd.useCand = m.useCand
  uc : ∀ f t m, Out.dgram f t m ∈ r.2 → m.cls = 0 → m.useCand = true →
    ∃ p l r', p ∈ r.1.checklist ∧ p.state = .succeeded ∧ r.1.localOf p.l = some l ∧ r.1.remoteOf p.r = some r' ∧
      l.addr = f ∧ r'.addr = t

theorem pairwise_tid_eq' {l : List Pending} (hu : l.Pairwise (fun x y => x.tid ≠ y.tid)) {p q : Pending}
    (hp : p ∈ l) (hq : q ∈ l) (h : p.tid = q.tid) : p = q := by
  induction l with
  | nil => cases hp
  | cons y ys ih =>
    rw [List.pairwise_cons] at hu
    rcases List.mem_cons.mp hp with h1 | h1 <;> rcases List.mem_cons.mp hq with h2 | h2
    · rw [h1, h2]
    · subst h1; exact absurd h (hu.1 q h2)
    · subst h2; exact absurd h.symm (hu.1 p h1)
    · exact ih hu.2 h1 h2

theorem find?_unique' {l : List Pending} (hu : l.Pairwise (fun x y => x.tid ≠ y.tid)) {t : Nat} {x pd : Pending}
    (hx : l.find? (·.tid == t) = some x) (hpd : pd ∈ l) (ht : pd.tid = t) : pd = x := by
  have hxm := List.mem_of_find?_eq_some hx
  have hxt : x.tid = t := by simpa using List.find?_some hx
  exact pairwise_tid_eq' hu hpd hxm (ht.trans hxt.symm)

theorem ReqsOK.weak {a : Agent} {now : Nat} {r : Agent × List Out} (h : ReqsOK a now r)
    (hu : r.1.pending.Pairwise (fun x y => x.tid ≠ y.tid)) : ReqsOK' a r := by
  refine ⟨h.req, ?_, h.uc⟩
  intro f t m hm hc pd hpd htid
  have e := find?_unique' hu (h.pend f t m hm hc) hpd htid
  subst e
  exact ⟨rfl, rfl, rfl⟩

/-- all due ticks up to `T` (any number of catch-up ticks at different times) -/
theorem runTimers_reqs' {T0 H T : Nat} (hT : T ≤ H) (fuel : Nat) {a : Agent} (hg : Good T0 H a) :
    ReqsOK' a (a.runTimers T fuel) := by
  induction fuel generalizing a with
  | zero =>
    exact ⟨fun _ _ _ hm => absurd hm List.not_mem_nil, fun _ _ _ hm => absurd hm List.not_mem_nil,
        fun _ _ _ hm => absurd hm List.not_mem_nil⟩
  | succ n ih =>
    obtain ⟨tk, htk, ht0⟩ := hg.tick
    unfold Agent.runTimers
    rw [htk]
    simp only [hg.started, hg.open_, Bool.not_false, Bool.and_self, Bool.true_and, decide_eq_true_eq]
    by_cases hle : tk ≤ T
    · simp only [hle, if_true]
      obtain ⟨g1, k1, f1, n1⟩ := contact_good0 hg.good0 ht0 (Nat.le_trans hle hT)
      have id1 := SameId.of_core (core_contact a tk)
      have c1 := contact_reqs ht0 (Nat.le_trans hle hT) hg.good0
      have tid1 := (IceProofs.AgentC02.frame_contact a tk).tid
      rcases hk : a.contact tk with ⟨a1, o1⟩
      rw [hk] at g1 k1 f1 n1 id1 c1 tid1
      simp only [] at g1 k1 f1 n1 id1 c1 tid1 ⊢
      have g2 : Good T0 H { a1 with nextTick := some (tk + a1.interval) } :=
        Good.mk0 (g1.nextTick _) (by simpa using f1.trans hg.noForce) ⟨_, rfl, by omega⟩
      have ih2 := ih g2
      have k2 := (runTimers_good hT n g2).2.1
      have fr2 := IceProofs.AgentC02.frame_runTimers { a1 with nextTick := some (tk + a1.interval) } T n
      rcases hr : Agent.runTimers { a1 with nextTick := some (tk + a1.interval) } T n with ⟨a2, o2⟩
      rw [hr] at ih2 k2 fr2
      simp only [] at ih2 k2 fr2 ⊢
      refine ⟨?_, ?_, ?_⟩
      · intro f t m hm hc
        rcases List.mem_append.mp hm with hm | hm
        · exact c1.1.req f t m hm hc
        · exact (ih2.req f t m hm hc).of_earlier (b := { a1 with nextTick := some (tk + a1.interval) })
            (id1.trans (sameId_nextTick a1 _)) k1.locals tid1
      · intro f t m hm hc pd hpd htid
        rcases List.mem_append.mp hm with hm | hm
        · have hf := c1.1.pend f t m hm hc
          have hpo := g2.linv.pendOK
          have hxm : pendOf m.tid f t 0 m.useCand tk ∈ a1.pending := List.mem_of_find?_eq_some hf
          rcases fr2.pend pd hpd with hold | hnew
          · have e := find?_unique' hpo.2 hf hold htid
            subst e
            exact ⟨rfl, rfl, rfl⟩
          · exfalso
            have hlt := hpo.1 _ hxm
            have e1 : (pendOf m.tid f t 0 m.useCand tk).tid = m.tid := rfl
            rw [e1] at hlt
            rw [htid] at hnew
            exact Nat.lt_irrefl _ (Nat.lt_of_lt_of_le hlt hnew)
        · exact ih2.pend f t m hm hc pd hpd htid
      · intro f t m hm hc hu
        rcases List.mem_append.mp hm with hm | hm
        · exact UcOK.of_lk k2 (c1.1.uc f t m hm hc hu)
        · exact ih2.uc f t m hm hc hu
    · simp only [hle, if_false]
      exact ⟨fun _ _ _ hm => absurd hm List.not_mem_nil, fun _ _ _ hm => absurd hm List.not_mem_nil,
        fun _ _ _ hm => absurd hm List.not_mem_nil⟩

/-! ## application data is never emitted on these paths (no hypothesis on the state) -/

def NoData (o : List Out) : Prop := ∀ f t n, Out.data f t n ∉ o

theorem NoData.nil : NoData [] := fun _ _ _ h => by cases h
theorem NoData.append {o1 o2 : List Out} (h1 : NoData o1) (h2 : NoData o2) : NoData (o1 ++ o2) := by
  intro f t n h
  rcases List.mem_append.mp h with h | h
  · exact h1 f t n h
  · exact h2 f t n h

theorem setConnState_nd (a : Agent) (s : ConnState) : NoData (a.setConnState s).2 := by
  unfold Agent.setConnState
  split
  · exact NoData.nil
  · intro f t n h; simp at h

theorem select_nd (a : Agent) (id : Nat) : NoData (a.select id).2 := by
  have h : ∃ x y, (a.select id).2 = (({ (a.modPair id fun p => { p with nominated := true }) with
      selected := some id, onConnectedFired := true } : Agent).setConnState .connected).2 ++ [.cbPair x y] :=
    ⟨_, _, rfl⟩
  obtain ⟨x, y, h⟩ := h
  rw [h]
  apply NoData.append (setConnState_nd _ _)
  intro f t n hm; simp at hm

theorem sendRequest_nd (a : Agent) (t : Nat) (l r : Cand) (uc : Bool) (nom : Option Nat) :
    NoData (a.sendRequest t l r uc nom).2 := by
  intro f t' n h
  unfold Agent.sendRequest at h
  simp at h

theorem sendSuccess_nd (a : Agent) (t : Nat) (m : Msg) (l r : Cand) : NoData (a.sendSuccess t m l r).2 := by
  intro f t' n h
  unfold Agent.sendSuccess at h
  simp at h

theorem pingAll_nd (a : Agent) (t : Nat) : NoData (a.pingAll t).2 := by
  rw [pingAll_eq]
  apply IceProofs.List.foldl_inv (fun (acc : Agent × List Out) => NoData acc.2)
  · exact NoData.nil
  · intro acc id hb
    obtain ⟨b, o⟩ := acc
    rcases pingStep_full t b o id with h | ⟨p, _, _, h | h | ⟨l, r, _, _, h⟩⟩ <;> rw [h]
    · exact hb
    · exact hb
    · exact hb
    · exact NoData.append hb (sendRequest_nd _ _ _ _ _ _)

theorem validateSelected_nd (a : Agent) (t : Nat) : NoData (a.validateSelected t).2.1 := by
  unfold Agent.validateSelected
  split
  · exact NoData.nil
  · exact setConnState_nd a _

theorem keepalive_nd (a : Agent) (t : Nat) : NoData (a.keepalive t).2 := by
  unfold Agent.keepalive
  split
  · exact NoData.nil
  · split
    · split
      · exact sendRequest_nd _ _ _ _ _ _
      · exact NoData.nil
    · exact NoData.nil

theorem nominate_nd (a : Agent) (t : Nat) (p : Pair) : NoData (a.nominate t p).2 := by
  unfold Agent.nominate
  split
  · exact sendRequest_nd _ _ _ _ _ _
  · exact NoData.nil

theorem valKeep_nd (a : Agent) (t : Nat) : NoData (valKeep a t).2 := by
  unfold valKeep
  have h1 := validateSelected_nd a t
  rcases hk : a.validateSelected t with ⟨a1, o1, ok⟩
  rw [hk] at h1
  simp only [] at h1 ⊢
  split
  · exact NoData.append h1 (keepalive_nd a1 t)
  · exact h1

theorem autoRenom_nd (a : Agent) (t : Nat) : NoData (a.autoRenom t).2 := by
  refine IceProofs.Auto.autoRenom_parts (P := fun x => NoData x.2) ?_ a NoData.nil
  exact {
    mark := fun _ _ _ _ h _ _ => h
    ping := fun b _ l r h _ _ => NoData.append h (sendRequest_nd b t l r false none)
    time := fun _ _ h => h
    count := fun _ _ h => h
    issue := fun b _ l r nom h _ _ _ _ _ => NoData.append h (sendRequest_nd b t l r true nom)
    log := fun _ _ _ h => h }

theorem valKeepAuto_nd (a : Agent) (t : Nat) : NoData (valKeepAuto a t).2 := by
  unfold valKeepAuto
  have h1 := validateSelected_nd a t
  rcases hk : a.validateSelected t with ⟨a1, o1, ok⟩
  rw [hk] at h1
  simp only [] at h1 ⊢
  split
  · exact NoData.append (NoData.append h1 (keepalive_nd a1 t)) (autoRenom_nd _ t)
  · exact h1

theorem contactCandidates_nd (a : Agent) (t : Nat) : NoData (a.contactCandidates t).2 := by
  unfold Agent.contactCandidates
  split
  · split
    · exact valKeepAuto_nd a t
    · split
      · exact nominate_nd _ _ _
      · split
        · exact NoData.nil
        · split
          · split
            · split
              · exact nominate_nd _ _ _
              · exact pingAll_nd a t
            · exact pingAll_nd a t
          · exact pingAll_nd a t
  · split
    · exact validateSelected_nd a t
    · split
      · exact valKeep_nd a t
      · exact pingAll_nd a t

theorem contact_nd (a : Agent) (t : Nat) : NoData (a.contact t).2 := by
  rw [contact_eq]
  split
  · exact NoData.nil
  · split
    · exact NoData.nil
    · split
      · exact setConnState_nd _ _
      · exact contactCandidates_nd _ _
    · exact contactCandidates_nd _ _

theorem runForced_nd (a : Agent) (t : Nat) : NoData (a.runForced t).2 := by
  unfold Agent.runForced
  split
  · have h := contact_nd { a with forcePending := false } t
    rcases hk : Agent.contact { a with forcePending := false } t with ⟨a1, o1⟩
    rw [hk] at h
    exact h
  · exact NoData.nil

theorem runTimers_nd (a : Agent) (T fuel : Nat) : NoData (a.runTimers T fuel).2 := by
  induction fuel generalizing a with
  | zero => exact NoData.nil
  | succ n ih =>
    unfold Agent.runTimers
    split
    · rename_i t _
      split
      · have h := contact_nd a t
        rcases hk : a.contact t with ⟨a1, o1⟩
        rw [hk] at h
        simp only []
        have h2 := ih { a1 with nextTick := some (t + a1.interval) }
        rcases hr : Agent.runTimers { a1 with nextTick := some (t + a1.interval) } T n with ⟨a2, o2⟩
        rw [hr] at h2
        simp only []
        exact NoData.append h h2
      · exact NoData.nil
    · exact NoData.nil

theorem handleSuccess_nd (a : Agent) (t : Nat) (m : Msg) (l r : Cand) (src : Nat) :
    NoData (a.handleSuccess t m l r src).2 := by
  have hs : ∀ (b : Agent) (p : Pair) (pd : Pending), NoData (hsSel b p pd).2 := by
    intro b p pd
    rcases hsSel_cases b p pd with h | ⟨h, _⟩
    · rw [h]; exact NoData.nil
    · rw [h]; exact select_nd _ _
  rw [handleSuccess_eq]
  split
  · exact NoData.nil
  · split
    · exact NoData.nil
    · split
      · exact NoData.nil
      · exact hs _ _ _

theorem ctlHandleRequest_nd (a : Agent) (t : Nat) (m : Msg) (l r : Cand) : NoData (a.ctlHandleRequest t m l r).2 := by
  rw [ctlHandleRequest_eq]
  have h1 := sendSuccess_nd a t m l r
  split
  · exact h1
  · rename_i p _
    rcases ctlNominate_cases ((a.sendSuccess t m l r).1.modPair p.id (reqMark m)) t l r p (a.sendSuccess t m l r).2
      with h | h
    · rw [h]; exact h1
    · rw [h]; exact NoData.append h1 (nominate_nd _ _ _)

theorem cldNom_nd (a : Agent) (id : Nat) (m : Msg) : NoData (cldNom a id m).2 := by
  rcases cldNom_cases a id m with ⟨h, _⟩ | ⟨_, h | ⟨p, _, _, _, h⟩ | ⟨p, _, _, h⟩⟩ <;> rw [h]
  · exact NoData.nil
  · exact NoData.nil
  · exact select_nd _ _
  · exact NoData.nil

theorem cldPing_nd (a : Agent) (t : Nat) (l r : Cand) (id : Nat) : NoData (cldPing a t l r id).2 := by
  unfold cldPing
  split
  · split
    · exact sendRequest_nd _ _ _ _ _ _
    · exact NoData.nil
  · exact NoData.nil

theorem cldHandleRequest_nd (a : Agent) (t : Nat) (m : Msg) (l r : Cand) : NoData (a.cldHandleRequest t m l r).2 := by
  rw [cldHandleRequest_eq]
  split
  · exact sendSuccess_nd _ _ _ _ _
  · unfold cldTail
    exact NoData.append (NoData.append (cldNom_nd _ _ _) (sendSuccess_nd _ _ _ _ _)) (cldPing_nd _ _ _ _ _)

theorem hiRole_nd (a : Agent) (t : Nat) (l r : Cand) (m : Msg) (o0 : List Out) (h0 : NoData o0) :
    NoData (hiRole a t l r m o0).2 := by
  have hreq : NoData (hiReq a t l r m o0).2 := by
    unfold hiReq
    cases a.controlling
    · simp only [Bool.false_eq_true, if_false]
      exact NoData.append h0 (cldHandleRequest_nd a t m l r)
    · simp only [if_true]
      exact NoData.append h0 (ctlHandleRequest_nd a t m l r)
  unfold hiRole
  split
  · split
    · split
      · refine NoData.append h0 ?_
        intro f t' n h; simp at h
      · exact h0
    · exact hreq
  · exact hreq

theorem handleInbound_nd (a : Agent) (t : Nat) (l : Cand) (src : Nat) (m : Msg) :
    NoData (a.handleInbound t l src m).2 := by
  rw [IceProofs.C03.handleInbound_eq]
  split
  · exact NoData.nil
  · split
    · split
      · exact NoData.nil
      · split
        · exact NoData.nil
        · exact handleSuccess_nd _ _ _ _ _ _
    · split
      · split
        · exact NoData.nil
        · split
          · exact NoData.nil
          · split
            · rw [hiDisc_out]; exact NoData.nil
            · exact hiRole_nd _ _ _ _ _ _ (by rw [hiDisc_out]; exact NoData.nil)
      · split
        · exact NoData.nil
        · exact NoData.nil

theorem step_inbound_noData (a : Agent) (now la src : Nat) (m : Msg) :
    ∀ f t n, Out.data f t n ∉ (step a (.inbound now la src m)).2 := by
  show NoData (step a (.inbound now la src m)).2
  rw [step_inbound_proj]
  split
  · exact NoData.nil
  · split
    · exact NoData.nil
    · exact NoData.append (handleInbound_nd _ _ _ _ _) (runForced_nd _ _)

theorem runTimers_noData (a : Agent) (T fuel : Nat) : ∀ f t n, Out.data f t n ∉ (a.runTimers T fuel).2 :=
  runTimers_nd a T fuel

end IceProofs.C01Live
