import IceProofs.AgentC03Inbound
import Lean
import IceProofs.AgentAuto
/-!
# C01 liveness — the timer fields (`nextTick`, `checkingTimeout`, `checkingStart`, `lastSeen`) are written by the
tick closure only: inbound STUN never touches them.
-/
namespace IceProofs.C01Live
open IceModel.AgentCore

structure TF where
  nextTick : Option Nat
  checkingTimeout : Nat
  checkingStart : Nat
  lastSeen : ConnState

end IceProofs.C01Live

namespace IceModel.AgentCore
def Agent.tf (a : Agent) : IceProofs.C01Live.TF := ⟨a.nextTick, a.checkingTimeout, a.checkingStart, a.lastSeen⟩
end IceModel.AgentCore

namespace IceProofs.C01Live
open IceModel.AgentCore

@[simp] theorem tf_mk (cfg tieBreaker controlling started closed connState localUfrag localPwd remoteUfrag remotePwd
    locals remotes checklist nextPairID nextUid nextTid tag pending selected selStart nominatedPair lastNomination answeredNomination
    lastSeen checkingStart checkingTimeout forcePending nextTick caches rx connBytesSent connBytesRecv
    onConnectedFired generation nomIssued lastRenomTime nomCounter) :
    (Agent.mk cfg tieBreaker controlling started closed connState localUfrag localPwd remoteUfrag remotePwd
    locals remotes checklist nextPairID nextUid nextTid tag pending selected selStart nominatedPair lastNomination answeredNomination
    lastSeen checkingStart checkingTimeout forcePending nextTick caches rx connBytesSent connBytesRecv
    onConnectedFired generation nomIssued lastRenomTime nomCounter).tf = ⟨nextTick, checkingTimeout, checkingStart, lastSeen⟩ := rfl

@[simp] theorem tf_eta (y : Agent) : TF.mk y.nextTick y.checkingTimeout y.checkingStart y.lastSeen = y.tf := rfl
theorem tf_nextTick (a : Agent) : a.tf.nextTick = a.nextTick := rfl
theorem tf_checkingTimeout (a : Agent) : a.tf.checkingTimeout = a.checkingTimeout := rfl
theorem tf_checkingStart (a : Agent) : a.tf.checkingStart = a.checkingStart := rfl
theorem tf_lastSeen (a : Agent) : a.tf.lastSeen = a.lastSeen := rfl

theorem fst_tf {α : Type} {x : Agent × α} {a' : Agent} {r : α} (h : x = (a', r)) : a'.tf = x.1.tf := by
  subst h; rfl

open Lean Elab Tactic Meta in
/-- for every hypothesis `h : e = (a', r)` with `a' : Agent` add `a'.tf = e.1.tf` (proof automation only) -/
elab "pair_eqs_tf" : tactic => withMainContext do
  let lctx ← getLCtx
  for d in lctx do
    if d.isImplementationDetail then continue
    let ty ← instantiateMVars d.type
    if let some (_, _, rhs) := ty.eq? then
      if rhs.isAppOfArity ``Prod.mk 4 then
        try
          let pf ← mkAppM ``fst_tf #[d.toExpr]
          let t ← inferType pf
          liftMetaTactic fun g => do
            let g ← g.assert `hc t pf
            let (_, g) ← g.intro1
            return [g]
        catch _ => pure ()

macro "tf_cases" : tactic =>
  `(tactic| ((try simp only []); (repeat' split) <;> (pair_eqs_tf; (try simp at *) <;> (try simp_all))))

@[simp] theorem tf_modPair (a : Agent) (id : Nat) (f : Pair → Pair) : (a.modPair id f).tf = a.tf := rfl
@[simp] theorem tf_seenLocalSent (a : Agent) (u n : Nat) : (a.seenLocalSent u n).tf = a.tf := rfl
@[simp] theorem tf_seenRemoteRecv (a : Agent) (u n : Nat) : (a.seenRemoteRecv u n).tf = a.tf := rfl
@[simp] theorem tf_invalidatePending (a : Agent) (n : Nat) : (a.invalidatePending n).tf = a.tf := rfl
@[simp] theorem tf_requestCheck (a : Agent) : a.requestCheck.tf = a.tf := rfl
@[simp] theorem tf_addPair (a : Agent) (l r : Cand) : (a.addPair l r).1.tf = a.tf := rfl
@[simp] theorem tf_resetSelector (a : Agent) (now : Nat) : (a.resetSelector now).tf = a.tf := rfl

/-- `setConnState s` for `s ≠ failed` … and for `failed` too: the wipe does not touch the timer fields -/
@[simp] theorem tf_setConnState (a : Agent) (s : ConnState) : (a.setConnState s).1.tf = a.tf := by
  unfold Agent.setConnState
  split
  · rfl
  · split <;> rfl

@[simp] theorem tf_select (a : Agent) (id : Nat) : (a.select id).1.tf = a.tf := by
  unfold Agent.select
  simp

@[simp] theorem tf_sendRequest (a : Agent) (now : Nat) (l r : Cand) (u : Bool) (n : Option Nat) :
    (a.sendRequest now l r u n).1.tf = a.tf := by
  unfold Agent.sendRequest
  simp
  split <;> simp

@[simp] theorem tf_ping (a : Agent) (now : Nat) (l r : Cand) : (a.ping now l r).1.tf = a.tf := by
  unfold Agent.ping; simp

@[simp] theorem tf_sendSuccess (a : Agent) (now : Nat) (m : Msg) (l r : Cand) :
    (a.sendSuccess now m l r).1.tf = a.tf := by
  unfold Agent.sendSuccess
  simp
  split <;> simp

@[simp] theorem tf_nominate (a : Agent) (now : Nat) (p : Pair) : (a.nominate now p).1.tf = a.tf := by
  unfold Agent.nominate
  split <;> simp

@[simp] theorem tf_replaceRemoteInPairs (a : Agent) (old c : Cand) : (a.replaceRemoteInPairs old c).1.tf = a.tf := by
  unfold Agent.replaceRemoteInPairs
  refine IceProofs.List.foldl_inv (fun acc : Agent × List Out => acc.1.tf = a.tf) _ _ _ rfl ?_
  intro acc id h
  obtain ⟨b', o'⟩ := acc
  simp only at h ⊢
  tf_cases

@[simp] theorem tf_addRemoteCandidate (a : Agent) (c : Cand) : (a.addRemoteCandidate c).1.tf = a.tf := by
  unfold Agent.addRemoteCandidate
  split
  · rfl
  split
  · rfl
  simp only [tf_requestCheck]
  refine IceProofs.List.foldl_inv (fun b : Agent => b.tf = a.tf) _ _ _ ?_ ?_
  · simp only [tf_mk, tf_eta]
    refine IceProofs.List.foldl_inv (fun acc : Agent × List Out => acc.1.tf = a.tf) _ _ _ ?_ ?_
    · simp
    · intro acc old h
      simp [h]
  · intro b l h
    split <;> simp [h]

@[simp] theorem tf_takePending (a : Agent) (now tid : Nat) : (a.takePending now tid).1.tf = a.tf := by
  unfold Agent.takePending
  tf_cases

@[simp] theorem tf_handleSuccess (a : Agent) (now : Nat) (m : Msg) (l r : Cand) (src : Nat) :
    (a.handleSuccess now m l r src).1.tf = a.tf := by
  unfold Agent.handleSuccess
  tf_cases

@[simp] theorem tf_ctlHandleRequest (a : Agent) (now : Nat) (m : Msg) (l r : Cand) :
    (a.ctlHandleRequest now m l r).1.tf = a.tf := by
  unfold Agent.ctlHandleRequest
  tf_cases

open IceProofs.C03 in
@[simp] theorem tf_cldPre (a : Agent) (m : Msg) (l r : Cand) : (cldPre a m l r).1.tf = a.tf := by
  unfold cldPre
  split <;> simp

open IceProofs.C03 in
@[simp] theorem tf_cldAccept (a : Agent) (m : Msg) : (cldAccept a m).1.tf = a.tf := by
  unfold cldAccept
  tf_cases

open IceProofs.C03 in
@[simp] theorem tf_cldLite (a : Agent) (id : Nat) : (cldLite a id).tf = a.tf := by
  unfold cldLite
  split <;> simp

open IceProofs.C03 in
@[simp] theorem tf_cldNom (a : Agent) (id : Nat) (m : Msg) : (cldNom a id m).1.tf = a.tf := by
  unfold cldNom
  split
  · split
    · simp
    · split
      · split <;> simp
      · split <;> simp
  · rfl

open IceProofs.C03 in
@[simp] theorem tf_cldPing (a : Agent) (now : Nat) (l r : Cand) (id : Nat) : (cldPing a now l r id).1.tf = a.tf := by
  unfold cldPing
  split
  · split <;> simp
  · rfl

open IceProofs.C03 in
@[simp] theorem tf_cldTail (a : Agent) (now : Nat) (m : Msg) (l r : Cand) (id : Nat) (o : List Out) :
    (cldTail a now m l r id o).1.tf = a.tf := by
  unfold cldTail
  simp

open IceProofs.C03 in
@[simp] theorem tf_cldHandleRequest (a : Agent) (now : Nat) (m : Msg) (l r : Cand) :
    (a.cldHandleRequest now m l r).1.tf = a.tf := by
  rw [cldHandleRequest_eq]
  split <;> simp

open IceProofs.C03 in
@[simp] theorem tf_hiDisc (a : Agent) (l : Cand) (src : Nat) (m : Msg) : (hiDisc a l src m).1.tf = a.tf := by
  unfold hiDisc
  split <;> simp

open IceProofs.C03 in
@[simp] theorem tf_hiReq (a : Agent) (now : Nat) (l r : Cand) (m : Msg) (o0 : List Out) :
    (hiReq a now l r m o0).1.tf = a.tf := by
  unfold hiReq
  cases hc : a.controlling <;> simp

open IceProofs.C03 in
@[simp] theorem tf_hiRole (a : Agent) (now : Nat) (l r : Cand) (m : Msg) (o0 : List Out) :
    (hiRole a now l r m o0).1.tf = a.tf := by
  unfold hiRole
  split
  · split
    · split
      · simp
      · rfl
    · simp
  · simp

open IceProofs.C03 in
/-- inbound STUN never touches the timer fields (role switch included). -/
theorem tf_handleInbound (a : Agent) (now : Nat) (l : Cand) (src : Nat) (m : Msg) :
    (a.handleInbound now l src m).1.tf = a.tf := by
  rw [handleInbound_eq]
  split
  · rfl
  · split
    · split
      · rfl
      · split
        · rfl
        · simp
    · split
      · split
        · rfl
        · split
          · rfl
          · split
            · simp
            · simp
      · split
        · simp
        · rfl

/-! ## the tick closure below `contact` -/

@[simp] theorem tf_pingAll (a : Agent) (now : Nat) : (a.pingAll now).1.tf = a.tf := by
  rw [IceProofs.C03.pingAll_eq]
  refine IceProofs.List.foldl_inv (fun acc : Agent × List Out => acc.1.tf = a.tf) _ _ _ rfl ?_
  intro acc id h
  obtain ⟨b, o⟩ := acc
  simp only at h ⊢
  unfold IceProofs.C03.pingStep
  simp only []
  split
  · exact h
  · split
    · split
      · exact h
      · split
        · simp [h]
        · split <;> simp [h]
    · split
      · exact h
      · split
        · simp [h]
        · split <;> simp [h]

@[simp] theorem tf_validateSelected (a : Agent) (now : Nat) : (a.validateSelected now).1.tf = a.tf := by
  unfold Agent.validateSelected
  split <;> simp

@[simp] theorem tf_keepalive (a : Agent) (now : Nat) : (a.keepalive now).1.tf = a.tf := by
  unfold Agent.keepalive
  split
  · rfl
  · split
    · split <;> simp
    · rfl

@[simp] theorem tf_autoRenom (a : Agent) (now : Nat) : (a.autoRenom now).1.tf = a.tf :=
  IceProofs.Auto.autoRenom_proj Agent.tf now (fun _ _ _ => rfl) (fun b l r u n => tf_sendRequest b now l r u n)
    (fun _ _ => rfl) (fun _ _ => rfl) (fun _ _ => rfl) a

@[simp] theorem tf_contactCandidates (a : Agent) (now : Nat) : (a.contactCandidates now).1.tf = a.tf := by
  unfold Agent.contactCandidates
  tf_cases

end IceProofs.C01Live
