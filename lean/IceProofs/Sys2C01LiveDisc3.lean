import IceProofs.Sys2C01LiveDisc2
import IceProofs.Sys2C01LiveDiscTick
/-!
# C01 liveness, layer 20 — the controlled agent's TICK as a progress step (quiet network; round 4)

The good pair exists only at the controlled agent `d = !c`, and its check is NOT in flight (lost in the prefix).  On a
quiet network (`QuietW`: nothing in flight is deliverable; `d` has no selected pair; its timer is due not later than the
timer of `c`) nothing happens until the clock reaches `d`'s tick; that tick (`cld_tick_ping`) sends the check, and
`disc_valid` takes over.
-/
namespace IceProofs.C01Live
open IceModel.AgentCore IceModel.Sys2 IceProofs.Sys2Run IceProofs.C01 IceProofs.Agent IceProofs.C03

/-- the hub will not hand this datagram to anyone -/
def Undeliv (s : Sys) (d : Dgram) : Prop := (d.src, d.dst) ∈ s.blocked ∨ s.owner (s.unmapped d.dst) = none

instance (s : Sys) (d : Dgram) : Decidable (Undeliv s d) := by unfold Undeliv; infer_instance

/-- the quiet start of a discovery: the controlled agent's pair `la → ra` under budget on a `Link`, source unknown to `c`,
the controlled agent's timer due at `td`, nothing deliverable in flight -/
structure QuietW (c : Bool) (la ra td : Nat) (s : Sys) : Prop where
  und : ∀ dg ∈ s.inflight, Undeliv s dg
  link : Link s (!c) la ra
  unk : (s.agent c).findRemote 0 (s.mapped la) = none
  tick : (s.agent (!c)).nextTick = some td
  now : s.now ≤ td
  sel : (s.agent (!c)).selected = none
  pair : ∃ p ∈ (s.agent (!c)).checklist, (p.state = .waiting ∨ p.state = .inProgress) ∧
    p.reqCount ≤ (s.agent (!c)).cfg.maxBindingRequests ∧
    ∃ l r, (s.agent (!c)).localOf p.l = some l ∧ (s.agent (!c)).remoteOf p.r = some r ∧ l.addr = la ∧ r.addr = ra

section
variable {nat blocked : List (Nat × Nat)} {SLA SLB SR : Nat → Prop} {liteA liteB : Bool} {T0 H J L : Nat} {c : Bool}

theorem ValidBy.append {B : Nat} {s : Sys} {e1 e2 : List SysEv} (h : ValidBy c B (Sys.runs s e1) e2) :
    ValidBy c B s (e1 ++ e2) := by
  obtain ⟨f1, f2, q1, q2, q3⟩ := h.split
  rw [q1, ← List.append_assoc]
  exact ValidBy.of_split (by rw [Sys.runs_append]; exact q2) (by rw [Sys.runs_append]; exact q3)

/-- **the controlled agent's tick sends the check**: up to the advance that reaches `td` nothing happens; after it the
check `la → ra` is in flight, and `c` still does not know the source -/
theorem quiet_tick {s : Sys} {es : List SysEv} {la ra td tc : Nat} (h : FInv nat blocked SLA SLB SR liteA liteB T0 H J c s)
    (hs : SufOK c H J s es) (w : QuietW c la ra td s) (htc : (s.agent c).nextTick = some tc) (hle : td ≤ tc)
    (hend : td < (Sys.runs s es).now) :
    ∃ e1 e2, es = e1 ++ e2 ∧
      (∃ (i : Nat) (dg : Dgram) (tid : Nat), (Sys.runs s e1).inflight[i]? = some dg ∧ ReqD (Sys.runs s e1) (!c) tid la ra false dg) ∧
      Link (Sys.runs s e1) (!c) la ra ∧ ((Sys.runs s e1).agent c).findRemote 0 ((Sys.runs s e1).mapped la) = none ∧
      (Sys.runs s e1).now ≤ tc + J := by
  induction es generalizing s with
  | nil => exact absurd hend (by have := w.now; show ¬ td < s.now; omega)
  | cons e es ih =>
    have cons_of : (∃ e1 e2, es = e1 ++ e2 ∧
        (∃ (i : Nat) (dg : Dgram) (tid : Nat), (Sys.runs (Sys.run s e) e1).inflight[i]? = some dg ∧ ReqD (Sys.runs (Sys.run s e) e1) (!c) tid la ra false dg) ∧
        Link (Sys.runs (Sys.run s e) e1) (!c) la ra ∧
        ((Sys.runs (Sys.run s e) e1).agent c).findRemote 0 ((Sys.runs (Sys.run s e) e1).mapped la) = none ∧
        (Sys.runs (Sys.run s e) e1).now ≤ tc + J) →
        ∃ e1 e2, e :: es = e1 ++ e2 ∧
        (∃ (i : Nat) (dg : Dgram) (tid : Nat), (Sys.runs s e1).inflight[i]? = some dg ∧ ReqD (Sys.runs s e1) (!c) tid la ra false dg) ∧
        Link (Sys.runs s e1) (!c) la ra ∧ ((Sys.runs s e1).agent c).findRemote 0 ((Sys.runs s e1).mapped la) = none ∧
        (Sys.runs s e1).now ≤ tc + J := by
      rintro ⟨e1, e2, q1, q2⟩
      exact ⟨e :: e1, e2, by rw [q1]; rfl, q2⟩
    have hd' := h.ok.good (!c)
    rcases ev_view hs.1 with e' | ⟨k, keep, hd, hk, e'⟩ | ⟨T, t1, hev, hleT, hH, ht1, hT, e'⟩
    · have hend' : td < (Sys.runs (Sys.run s e) es).now := hend
      have hs2 := hs.2
      rw [e'] at cons_of hend' hs2
      exact cons_of (ih h hs2 w htc hend')
    · -- a delivery: nothing in flight is deliverable
      obtain ⟨h1, eff, _⟩ := h.deliver keep hk
      rw [← e'] at h1 eff
      have hmem : hd ∈ s.inflight := List.mem_of_getElem? hk
      rcases eff.cases with ⟨hfl, hag, _⟩ | ⟨y, m, _, hown, hnb, _⟩
      · have hm : ∀ y, (Sys.run s e).mapped y = s.mapped y := fun y => by simp [Sys.mapped, eff.net.1]
        have hu : ∀ y, (Sys.run s e).unmapped y = s.unmapped y := fun y => by simp [Sys.unmapped, eff.net.1]
        have w' : QuietW c la ra td (Sys.run s e) := by
          refine ⟨?_, eff.net.link w.link, by rw [hag c, hm]; exact w.unk, by rw [hag (!c)]; exact w.tick,
            by rw [eff.now]; exact w.now, by rw [hag (!c)]; exact w.sel, by rw [hag (!c)]; exact w.pair⟩
          intro dg hdg
          rw [hfl] at hdg
          have := w.und dg (mem_of_mem_restOf hdg)
          unfold Undeliv at this ⊢
          rw [eff.net.2.1, eff.net.2.2, hu]
          exact this
        exact cons_of (ih h1 hs.2 w' (by rw [hag c]; exact htc) (by exact hend))
      · rcases w.und hd hmem with hw | hw
        · exact absurd hw hnb
        · rw [hown] at hw; cases hw
    · -- a clock advance
      rw [htc] at ht1
      cases ht1
      obtain ⟨h1, eff, early, _, _⟩ := h.advance hleT hH htc hT
      rw [← e'] at h1 eff early
      have hm : ∀ y, (Sys.run s e).mapped y = s.mapped y := fun y => by simp [Sys.mapped, eff.net.1]
      have hu : ∀ y, (Sys.run s e).unmapped y = s.unmapped y := fun y => by simp [Sys.unmapped, eff.net.1]
      have hunk' : ((Sys.run s e).agent c).findRemote 0 ((Sys.run s e).mapped la) = none := by
        rw [eff.agent c, hm]
        exact runTimers_unknown _ _ _ w.unk
      rcases Nat.lt_or_ge T td with hlt | hge
      · -- before the tick of `d` is due: nothing happens
        have hdq : step (s.agent (!c)) (.advance T) = (s.agent (!c), []) := step_advance_early hd' w.tick hlt
        have hcq : step (s.agent c) (.advance T) = (s.agent c, []) := step_advance_early (h.ok.good c) htc (by omega)
        have hab : step s.a (.advance T) = (s.a, []) ∧ step s.b (.advance T) = (s.b, []) := by
          cases c
          · exact ⟨hcq, hdq⟩
          · exact ⟨hdq, hcq⟩
        have hfl : (Sys.run s e).inflight = s.inflight := by
          rw [eff.flight, hab.1, hab.2]
          simp [dgramsOf]
        have w' : QuietW c la ra td (Sys.run s e) := by
          refine ⟨?_, eff.net.link w.link, hunk', by rw [eff.agent (!c), hdq]; exact w.tick,
            by rw [eff.now]; exact Nat.le_of_lt hlt, by rw [eff.agent (!c), hdq]; exact w.sel,
            by rw [eff.agent (!c), hdq]; exact w.pair⟩
          intro dg hdg
          rw [hfl] at hdg
          have := w.und dg hdg
          unfold Undeliv at this ⊢
          rw [eff.net.2.1, eff.net.2.2, hu]
          exact this
        exact cons_of (ih h1 hs.2 w' (by rw [eff.agent c, hcq]; exact htc) hend)
      · -- the tick of `d`
        obtain ⟨p, hp, hst, hb, l, r, hl, hr, ela, era⟩ := w.pair
        have hctl : (s.agent (!c)).controlling = false := by rw [h.ok.paired.role]; cases c <;> rfl
        obtain ⟨m, hout, hreq⟩ := cld_tick_ping hd' hH w.tick hge hctl w.sel hp hst hb hl hr
        rw [ela, era] at hout
        have hin : ({ src := la, dst := ra, p := .stun m } : Dgram) ∈ (Sys.run s e).inflight := by
          rw [eff.flight]
          have := mem_dgramsOf_of_dgram hout
          cases c
          · exact List.mem_append_right _ this
          · exact List.mem_append_left _ (List.mem_append_right _ this)
        obtain ⟨i, hi⟩ := List.getElem?_of_mem hin
        refine ⟨[e], es, rfl, ⟨i, _, m.tid, hi, rfl, rfl, m, rfl, hreq.congr (eff.ids (!c)), rfl⟩, eff.net.link w.link, hunk', ?_⟩
        show (Sys.run s e).now ≤ tc + J
        rw [eff.now]; exact hT

/-- **the first valid pair through the controlled agent's tick** -/
theorem tick_valid {s : Sys} {es : List SysEv} {la ra td tc : Nat} (h : FInv nat blocked SLA SLB SR liteA liteB T0 H J c s)
    (hs : SufOK c H J s es) (hf : FairL L s es) (hL : J + 2 * L < maxBindingRequestTimeout)
    (w : QuietW c la ra td s) (htc : (s.agent c).nextTick = some tc) (hle : td ≤ tc)
    (hend : tc + J + 3 * L < (Sys.runs s es).now) : ValidBy c (tc + J + 3 * L) s es := by
  obtain ⟨e1, e2, q1, ⟨i, dg, tid, hi, hreq⟩, hlink, hunk, hnow⟩ := quiet_tick h hs w htc hle (by omega)
  subst q1
  have h1 := h.runs hs.head
  rw [Sys.runs_append] at hend
  have := disc_valid h1 hs.tail hf.tail hL hi hreq hlink hunk (by omega)
  exact ValidBy.append (this.mono (by omega))

/-- **the quiet start condition** (decidable): nothing in flight is deliverable; the controlled agent `!c` has no selected
pair, its timer is due (`now ≤ td`) not later than the timer of `c`; it has a pair Waiting / In-Progress within its
request budget on an address pair reachable both ways (`Link`) whose local address `c` does not know as a remote
candidate -/
def TickReqD (c : Bool) (s : Sys) : Prop :=
  (∀ dg ∈ s.inflight, Undeliv s dg) ∧ (s.agent (!c)).selected = none ∧
  (match (s.agent (!c)).nextTick, (s.agent c).nextTick with
    | some td, some tc => s.now ≤ td ∧ td ≤ tc
    | _, _ => False) ∧
  ∃ p ∈ (s.agent (!c)).checklist, (p.state = .waiting ∨ p.state = .inProgress) ∧
    p.reqCount ≤ (s.agent (!c)).cfg.maxBindingRequests ∧
    match (s.agent (!c)).localOf p.l, (s.agent (!c)).remoteOf p.r with
    | some l, some r => Link s (!c) l.addr r.addr ∧ (s.agent c).findRemote 0 (s.mapped l.addr) = none
    | _, _ => False

instance (c : Bool) (s : Sys) : Decidable (TickReqD c s) := by
  unfold TickReqD
  refine @instDecidableAnd _ _ _ (@instDecidableAnd _ _ _ (@instDecidableAnd _ _ ?_ ?_))
  · split <;> infer_instance
  · refine @List.decidableBEx _ _ (fun p => ?_) _
    refine @instDecidableAnd _ _ _ (@instDecidableAnd _ _ _ ?_)
    split <;> infer_instance

/-- the time of the controlling agent's next tick (0 if none) -/
def ctlTick (c : Bool) (s : Sys) : Nat := ((s.agent c).nextTick).getD 0

theorem tick_valid_D {s : Sys} {es : List SysEv} (h : FInv nat blocked SLA SLB SR liteA liteB T0 H J c s)
    (hs : SufOK c H J s es) (hf : FairL L s es) (hL : J + 2 * L < maxBindingRequestTimeout) (hd : TickReqD c s)
    (hend : ctlTick c s + J + 3 * L < (Sys.runs s es).now) : ValidBy c (ctlTick c s + J + 3 * L) s es := by
  obtain ⟨h1, h2, h3, p, hp, hst, hb, h4⟩ := hd
  cases htd : (s.agent (!c)).nextTick with
  | none => rw [htd] at h3; exact h3.elim
  | some td =>
    cases htc : (s.agent c).nextTick with
    | none => rw [htd, htc] at h3; exact h3.elim
    | some tc =>
      rw [htd, htc] at h3
      have e : ctlTick c s = tc := by unfold ctlTick; rw [htc]; rfl
      rw [e] at hend ⊢
      cases hl : (s.agent (!c)).localOf p.l with
      | none => rw [hl] at h4; exact h4.elim
      | some l =>
        cases hr : (s.agent (!c)).remoteOf p.r with
        | none => rw [hl, hr] at h4; exact h4.elim
        | some r =>
          rw [hl, hr] at h4
          exact tick_valid h hs hf hL ⟨h1, h4.1, h4.2, htd, h3.1, h2, p, hp, hst, hb, l, r, hl, hr, rfl, rfl⟩ htc h3.2 hend

end

end IceProofs.C01Live
