import IceProofs.TcpMuxSimReadOp
/-!
# Every run of the TCP-mux model is accepted by the spec monitor of C15

`step_sim`: one step of the model, one line, one step of the monitor — no clause is raised and the
relation `Sim` is re-established.  `run_sim`: any number of steps.  `start_sim`: the `new` line.
`finish_ok`: the `end` line.  `trace_ok`: the whole session.
-/
namespace IceProofs.TcpMux
open IceModel.TcpMux IceSpec.C15 IceSpec.C15.View

/-- the invariants of the model that the simulation proof uses -/
structure Good (s : State) : Prop where
  inv : Inv s
  inv2 : Inv2 s
  inv3 : Inv3 s
  drained : Drained s

theorem good_init (cfg : Config) : Good (init cfg) :=
  ⟨inv_init cfg, inv2_init cfg, inv3_init cfg, by intro k t h; simp [init] at h⟩

theorem good_step {s : State} (g : Good s) (op : Op) : Good (step s op).1 :=
  ⟨step_inv s op g.inv, step_inv2 s op g.inv g.inv2, step_inv3 s op g.inv g.inv2 g.inv3, step_drained s op g.inv g.drained⟩

theorem good_run {s : State} (g : Good s) (ops : List Op) : Good (run s ops) := by
  induction ops generalizing s with
  | nil => exact g
  | cons op ops ih => exact ih (good_step g op)

/-- once first-bind timeout + alive duration have elapsed since `Close` was called, it has returned -/
theorem close_returns {s : State} (hi : Inv s) (h3 : Inv3 s) (hm : s.muxClosed = true)
    (hlate : s.closedAt + effTimeout s.cfg.t1 + effTimeout s.cfg.t2 ≤ s.now) : closeReturned s = true := by
  have hl : s.listenerOpen = false := hi.lis hm
  have hpend : s.tcps.countP (·.isPending) = 0 := by
    apply List.countP_eq_zero.2
    intro t ht
    obtain ⟨k, hk⟩ := List.mem_iff_getElem?.1 ht
    cases hph : t.phase with
    | pending d =>
      have a := hi.phase k t hk
      simp only [PhaseOk, hph] at a
      have b := ((h3.tcp k t hk).dl d hph).2 hm
      have := effTimeout_pos s.cfg.t2
      omega
    | attached p => simp [Tcp.isPending, hph]
    | closed => simp [Tcp.isPending, hph]
  have hwatch : s.pcs.countP (fun pc => !pc.closed) = 0 := by
    apply List.countP_eq_zero.2
    intro pc hpc
    obtain ⟨p, hp⟩ := List.mem_iff_getElem?.1 hpc
    cases hc : pc.closed with
    | true => simp
    | false =>
      obtain ⟨d, hd, hb⟩ := (h3.pc p pc hp).post hm hc
      have := (hi.pc p pc hp).2.2.2.2.2 d hd
      omega
  simp only [closeReturned, wgCount, ledger, hm, hl, hpend, hwatch]
  simp

theorem facts_of_good {s : State} (g : Good s) : Facts s :=
  ⟨g.inv, g.inv2, g.inv3, fun h => ⟨(down_of_closeReturned g.inv h).1.tcps, (down_of_closeReturned g.inv h).2⟩,
    close_returns g.inv g.inv3⟩

/-! ## one step -/

theorem readPc_bad (s : State) (p : Nat) (h : (readPc s p).2 = .bad) : (readPc s p).1 = s := by
  unfold readPc at h ⊢
  cases hp : s.pcs[p]? with
  | none => rfl
  | some pc =>
    simp only [hp] at h ⊢
    cases hq : pc.recvQ with
    | nil =>
      simp only [hq] at h ⊢
      cases hb : pc.blockedQ with
      | nil =>
        simp only
        split <;> rfl
      | cons k bq =>
        simp only [hb] at h ⊢
        cases hbl : blockedOf s k with
        | none => rfl
        | some v =>
          obtain ⟨bp, fin⟩ := v
          simp only [hbl] at h
          cases h
    | cons pkt q =>
      simp only [hq] at h
      cases hb : pc.blockedQ with
      | nil => simp only [hb] at h; cases h
      | cons k bq =>
        simp only [hb] at h
        cases hbl : blockedOf s k with
        | none => simp only [hbl] at h; cases h
        | some v =>
          obtain ⟨bp, fin⟩ := v
          simp only [hbl] at h
          cases h

theorem step_bad {s : State} {op : Op} (h : (step s op).2 = .bad) : (step s op).1 = s := by
  cases op with
  | accept peer lip => simp only [step] at h ⊢; split at h <;> cases h
  | frame k f =>
    simp only [step] at h ⊢
    split
    · rfl
    · rename_i t ht
      simp only [ht] at h
      split at h
      · cases h
      · split at h
        · cases h
        · split at h <;> cases h
        · cases h
  | partialFrame k =>
    simp only [step] at h ⊢
    split
    · rfl
    · rename_i t ht
      simp only [ht] at h
      split at h <;> cases h
  | clientClose k reset =>
    simp only [step] at h ⊢
    split
    · rfl
    · rename_i t ht
      simp only [ht] at h
      split at h
      · cases h
      · split at h <;> cases h
  | advance dt => simp only [step] at h; cases h
  | getConn key =>
    simp only [step] at h
    split at h
    · cases h
    · split at h <;> cases h
  | removeByUfrag u => simp only [step] at h; cases h
  | closeHandle hh =>
    simp only [step] at h ⊢
    split
    · rfl
    · rename_i hd hhd
      simp only [hhd] at h
      split at h
      · cases h
      · split at h
        · cases h
        · split at h <;> cases h
  | closePacketConn hh =>
    simp only [step] at h ⊢
    split
    · rfl
    · rename_i hd hhd
      simp only [hhd] at h
      cases h
  | write hh dst pid len =>
    simp only [step] at h ⊢
    split
    · rfl
    · rename_i hd hhd
      split
      · rfl
      · split
        · rfl
        · rename_i pc hp
          split
          · rfl
          · rename_i k hl
            simp only [hhd, hp, hl] at h
            split at h <;> cases h
  | read hh =>
    simp only [step] at h ⊢
    split
    · rfl
    · rename_i hd hhd
      split
      · rfl
      · rename_i hc
        simp only [hhd, hc] at h
        exact readPc_bad s hd.pc h
  | closeMux => simp only [step] at h; split at h <;> cases h

theorem observeT_obs (m : Mon) (op : Op) (o : Obs) (ha : m.active = true) :
    observeT m (mopOf op) (.obs o) = fin o (book m (mopOf op) o).1 (book m (mopOf op) o).2.1 (book m (mopOf op) o).2.2 := by
  cases op <;> simp [observeT, mopOf, ha]

theorem observeT_skip (m : Mon) (op : Op) (ha : m.active = true) : observeT m (mopOf op) .skip = (m, none) := by
  cases op <;> simp [observeT, mopOf, ha]

/-- the bookkeeping of the monitor is correct for every operation -/
theorem book_ok {s : State} {m : Mon} (hs : Sim s m) (g : Good s) (op : Op) (hnb : (step s op).2 ≠ .bad) :
    BookOK s (step s op).1 m (book m (mopOf op) (obsOf s.tcps (step s op).1 (oresOf op (step s op).2))) := by
  cases op with
  | accept peer lip => exact op_accept hs g.inv g.inv2 peer lip
  | frame k f => exact op_frame hs g.inv g.inv2 g.inv3 k f hnb
  | partialFrame k => exact op_partial hs g.inv g.inv2 k hnb
  | clientClose k reset => exact op_cclose hs g.inv g.inv2 g.inv3 k reset hnb
  | advance dt => exact op_advance hs g.inv g.inv2 dt
  | getConn key => exact op_getconn hs g.inv g.inv2 key
  | removeByUfrag u => exact op_remove hs g.inv g.inv2 u
  | closeHandle h => exact op_closeh hs g.inv g.inv2 h hnb
  | closePacketConn h => exact op_closepc hs g.inv g.inv2 h hnb
  | write h dst pid len => exact op_write hs g.inv g.inv2 h dst pid len hnb
  | read h => exact op_read hs g.inv g.inv2 g.drained h hnb
  | closeMux => exact op_closemux hs g.inv g.inv2

/-- **One step of the model is accepted by the monitor**, and the relation holds again afterwards. -/
theorem step_sim {s : State} {m : Mon} (hs : Sim s m) (g : Good s) (op : Op) :
    (observeT m (mopOf op) (lineOf s op)).2 = none ∧ Sim (step s op).1 (observeT m (mopOf op) (lineOf s op)).1 := by
  by_cases hb : (step s op).2 = .bad
  · have hl : lineOf s op = .skip := by unfold lineOf; rw [hb]
    rw [hl, observeT_skip m op hs.u.active, step_bad hb]
    exact ⟨rfl, hs⟩
  · have hl : lineOf s op = .obs (obsOf s.tcps (step s op).1 (oresOf op (step s op).2)) := by
      unfold lineOf
      cases hr : (step s op).2 <;> first | rfl | exact absurd hr hb
    rw [hl, observeT_obs m op _ hs.u.active]
    have bk := book_ok hs g op hb
    rw [bk.verdict]
    have g' := good_step g op
    apply fin_ok _ _ _ _ _ (facts_of_good g') bk.u bk.n bk.prov bk.old
    · intro hr
      rw [bk.ret, hs.ret] at hr
      exact closeReturned_of_down (down_step g.inv (down_of_closeReturned g.inv hr).1 op)
    · exact bk.outs

/-! ## any number of steps -/

/-- the monitor's state after a trace -/
def monAfter (m : Mon) : List (MOp × Line) → Mon
  | [] => m
  | (op, l) :: tr => monAfter (observeT m op l).1 tr

theorem run_sim {s : State} {m : Mon} (hs : Sim s m) (g : Good s) (ops : List Op) :
    (∀ v, v ∈ verdicts m (linesFrom s ops) → v = none) ∧ Sim (run s ops) (monAfter m (linesFrom s ops)) := by
  induction ops generalizing s m with
  | nil => exact ⟨(by intro v hv; cases hv), hs⟩
  | cons op ops ih =>
    obtain ⟨hv, hs'⟩ := step_sim hs g op
    obtain ⟨hvs, hfin⟩ := ih hs' (good_step g op)
    refine ⟨?_, hfin⟩
    intro v hmem
    simp only [linesFrom, verdicts] at hmem
    rcases List.mem_cons.1 hmem with rfl | hmem
    · exact hv
    · exact hvs v hmem

/-! ## the `new` line -/

/-- the monitor after the `new` line -/
def startMon (cfg : Config) : Mon := { active := true, t1 := timeoutOf cfg.t1, t2 := timeoutOf cfg.t2 }

theorem start_sim (cfg : Config) :
    (observeT {} (.start cfg.t1 cfg.t2) (.obs (obsOf [] (init cfg) .ok))).2 = none ∧
    Sim (init cfg) (observeT {} (.start cfg.t1 cfg.t2) (.obs (obsOf [] (init cfg) .ok))).1 := by
  have hu : SimU (init cfg) (startMon cfg) := by
    constructor
    · rfl
    · rfl
    · rfl
    · rfl
    · rfl
    · intro h; cases h
    · rfl
    · rfl
    · rfl
    · intro k t c h; simp [init] at h
    · intro k c h; simp [startMon] at h
    · intro k k' t t' p h; simp [init] at h
    · intro p pc h1 h2 x y h; simp [init] at h
    · intro k t p pc h; simp [init] at h
    · intro p pc pkt h; simp [init] at h
    · intro k t bp h; simp [init] at h
    · intro k t a b it h; simp [init] at h
    · intro k k' c c' h; simp [startMon] at h
  have hsim : Sim (init cfg) (startMon cfg) :=
    ⟨hu, by intro k t c h; simp [init] at h, by intro k t c h; simp [init] at h, rfl⟩
  show (always (startMon cfg) (startMon cfg) (obsOf [] (init cfg) .ok) false) = none ∧ Sim (init cfg) (startMon cfg)
  refine ⟨?_, hsim⟩
  have := always_ok (init cfg) (startMon cfg) (startMon cfg).pcs [] .ok false (facts_of_good (good_init cfg)) hu
    (by intro k c p pc d h; simp [startMon] at h) (by intro k c h; simp [startMon] at h) (by intro h; cases h)
    (by intro _; rfl)
  exact this

end IceProofs.TcpMux
