import IceModel.AgentCore
/-!
# The selection decisions of `HandleSuccessResponse` and `isNominatable` as stand-alone model functions

`Agent.handleSuccess` has the decision of both selectors inline (the `answeredNomination` rule of the controlling
selector; the deferred-nomination switch of the controlled selector).  They are written here as functions of
their inputs (`ctlSuccessDecision`, `cldSuccessDecision`) and proved equal to the inline code
(`handleSuccess_nf`); `IceTie/AgentSuccess.lean` proves the effect lists regenerated from selection.go equal to
these functions for all arguments.  Core-only, so that the model proofs do not depend on regenerated files.
-/
namespace IceProofs.Agent
open IceModel.AgentCore

/-- Controlling selector, success response on a found pair: (new `answeredNomination`, select the pair?).
`useCand` / `nom` = the nomination the answered REQUEST carried. -/
def ctlSuccessDecision (useCand : Bool) (nom answered : Option Nat) (hasSelected : Bool) : Option Nat × Bool :=
  if useCand then
    match nom with
    | some v =>
      match answered with
      | some w => if v ≤ w then (answered, false) else (some v, true)
      | none => (some v, true)
    | none => (answered, !hasSelected)
  else (answered, false)

/-- Controlled selector, success response on a pair with a deferred nomination (`nominateOnBindingSuccess`):
select the pair?  `deferred` = `deferredNominationValue`, `last` = `lastNomination`. -/
def cldSuccessDecision (deferred last : Option Nat) (hasSelected samePair needsPrio : Bool)
    (selPrio pairPrio : Nat) : Bool :=
  match deferred with
  | some v =>
    match last with
    | none => false
    | some l => if v < l then false else !samePair
  | none =>
    if !hasSelected then true
    else if !samePair && last.isSome then false
    else !samePair && (!needsPrio || decide (selPrio ≤ pairPrio))

/-- the inline decision of `handleSuccess` (verbatim copy; `handleSuccess_body` is `rfl`): `a` = the agent after
the pair was marked Succeeded, `p` = the pair as found -/
def inlineSuccessDecide (a : Agent) (pd : Pending) (p : Pair) : Agent × List Out :=
  if a.controlling then
    if pd.useCand then
      match pd.nom with
      | some v =>
        let superseded := match a.answeredNomination with | none => false | some w => v ≤ w
        if superseded then (a, [])
        else ({ a with answeredNomination := some v }).select p.id
      | none => if a.selected.isNone then a.select p.id else (a, [])
    else (a, [])
  else
    if p.nomOnSuccess then
      let (a, o) : Agent × List Out :=
        match p.deferredNom with
        | some v =>
          let superseded := match a.lastNomination with | none => true | some last => v < last
          if superseded then (a, [])
          else if a.selected != some p.id then a.select p.id else (a, [])
        | none =>
          match a.selected.bind a.pairById with
          | none => a.select p.id
          | some sp =>
            if sp.id != p.id && a.lastNomination.isSome then (a, [])
            else if sp.id != p.id && (!needsPrioCheck a.cfg || a.pairPrio sp ≤ a.pairPrio p) then a.select p.id
            else (a, [])
      (a.modPair p.id fun p => { p with nomOnSuccess := false, deferredNom := none }, o)
    else (a, [])

theorem handleSuccess_body (a : Agent) (now : Nat) (m : Msg) (l r : Cand) (src : Nat) :
    a.handleSuccess now m l r src =
      match (a.takePending now m.tid).2 with
      | none => ((a.takePending now m.tid).1, [])
      | some pd =>
        if !(pd.net == l.net && pd.dest == src && pd.src == l.addr) then ((a.takePending now m.tid).1, [])
        else
          match (a.takePending now m.tid).1.findPair l r with
          | none => ((a.takePending now m.tid).1, [])
          | some p =>
            let d := inlineSuccessDecide ((a.takePending now m.tid).1.modPair p.id fun p =>
                { p with state := .succeeded, gResp := true, gRespUC := p.gRespUC || pd.useCand }) pd p
            (d.1.modPair p.id (Pair.gotResponse now pd.ts), d.2) := by
  unfold Agent.handleSuccess inlineSuccessDecide
  rfl

/-- the atoms of the controlled decision, as the model instantiates them: with a deferred VALUE the code compares
the selected pair with the pair (`a.selected != some p.id`); without one it first looks the selected pair up -/
def cldAtoms (a : Agent) (p : Pair) : Bool × Bool × Nat :=
  match p.deferredNom with
  | some _ => (a.selected.isSome, a.selected == some p.id, 0)
  | none =>
    match a.selected.bind a.pairById with
    | none => (false, false, 0)
    | some sp => (true, sp.id == p.id, a.pairPrio sp)

/-- the decision of `handleSuccess` in terms of the stand-alone functions -/
def successDecide (a : Agent) (pd : Pending) (p : Pair) : Agent × List Out :=
  if a.controlling then
    let d := ctlSuccessDecision pd.useCand pd.nom a.answeredNomination a.selected.isSome
    if d.2 then ({ a with answeredNomination := d.1 }).select p.id else (a, [])
  else
    if p.nomOnSuccess then
      let atoms := cldAtoms a p
      let sel := cldSuccessDecision p.deferredNom a.lastNomination atoms.1 atoms.2.1 (needsPrioCheck a.cfg) atoms.2.2
        (a.pairPrio p)
      let ao : Agent × List Out := if sel then a.select p.id else (a, [])
      (ao.1.modPair p.id fun p => { p with nomOnSuccess := false, deferredNom := none }, ao.2)
    else (a, [])

/-- a rejected controlling decision leaves `answeredNomination` alone -/
theorem ctl_reject_fst (useCand : Bool) (nom answered : Option Nat) (hs : Bool)
    (h : (ctlSuccessDecision useCand nom answered hs).2 = false) :
    (ctlSuccessDecision useCand nom answered hs).1 = answered := by
  unfold ctlSuccessDecision at h ⊢
  cases useCand <;> cases nom <;> cases answered <;> simp at h ⊢
  all_goals (split <;> simp_all)

theorem answered_eta (a : Agent) : { a with answeredNomination := a.answeredNomination } = a := rfl

theorem inlineSuccessDecide_eq (a : Agent) (pd : Pending) (p : Pair) :
    inlineSuccessDecide a pd p = successDecide a pd p := by
  unfold inlineSuccessDecide successDecide
  by_cases hc : a.controlling = true
  · -- controlling
    rw [if_pos hc, if_pos hc]
    unfold ctlSuccessDecision
    cases hu : pd.useCand
    · simp
    · simp only [if_true]
      cases hn : pd.nom with
      | none =>
        by_cases hs : a.selected.isNone = true
        · have : a.selected.isSome = false := by cases h : a.selected <;> simp_all
          simp [hs, this]
        · have : a.selected.isSome = true := by cases h : a.selected <;> simp_all
          simp [hs, this]
      | some v =>
        cases ha : a.answeredNomination with
        | none => simp
        | some w => by_cases hv : v ≤ w <;> simp [hv]
  · -- controlled
    rw [if_neg hc, if_neg hc]
    cases hn : p.nomOnSuccess
    · rfl
    · simp only [if_true]
      unfold cldAtoms cldSuccessDecision
      cases hd : p.deferredNom with
      | some v =>
        cases hl : a.lastNomination with
        | none => simp
        | some last =>
          by_cases hv : v < last
          · simp [hv]
          · by_cases hs : a.selected = some p.id <;> simp [hv, hs]
      | none =>
        cases hb : a.selected.bind a.pairById with
        | none => simp
        | some sp =>
          cases hl : a.lastNomination.isSome <;> by_cases hs : sp.id = p.id <;>
            cases hp : needsPrioCheck a.cfg <;> by_cases hq : a.pairPrio sp ≤ a.pairPrio p <;> simp [hs, hq]

/-- `handleSuccess` = take the transaction, the symmetry test, find the pair, mark it Succeeded, the selector's
decision in terms of `ctlSuccessDecision` / `cldSuccessDecision`, count the response -/
theorem handleSuccess_nf (a : Agent) (now : Nat) (m : Msg) (l r : Cand) (src : Nat) :
    a.handleSuccess now m l r src =
      match (a.takePending now m.tid).2 with
      | none => ((a.takePending now m.tid).1, [])
      | some pd =>
        if !(pd.net == l.net && pd.dest == src && pd.src == l.addr) then ((a.takePending now m.tid).1, [])
        else
          match (a.takePending now m.tid).1.findPair l r with
          | none => ((a.takePending now m.tid).1, [])
          | some p =>
            let d := successDecide ((a.takePending now m.tid).1.modPair p.id fun p =>
                { p with state := .succeeded, gResp := true, gRespUC := p.gRespUC || pd.useCand }) pd p
            (d.1.modPair p.id (Pair.gotResponse now pd.ts), d.2) := by
  rw [handleSuccess_body]
  simp only [inlineSuccessDecide_eq]

/-! ## `isNominatable` -/

/-- `controllingSelector.isNominatable` as a function of the candidate type code, the time since the selector
started and the four waits -/
def nominatableAt (ty elapsed hostWait srflxWait prflxWait relayWait : Nat) : Bool :=
  if ty == 1 then decide (elapsed ≥ hostWait) else if ty == 2 then decide (elapsed ≥ srflxWait)
  else if ty == 3 then decide (elapsed ≥ prflxWait) else if ty == 4 then decide (elapsed ≥ relayWait) else false

theorem nominatable_inline (a : Agent) (now : Nat) (c : Cand) :
    a.nominatable now c
      = nominatableAt c.ty (now - a.selStart) a.cfg.hostWait a.cfg.srflxWait a.cfg.prflxWait a.cfg.relayWait := by
  unfold Agent.nominatable Config.waitFor nominatableAt
  by_cases h1 : c.ty = 1 <;> by_cases h2 : c.ty = 2 <;> by_cases h3 : c.ty = 3 <;> by_cases h4 : c.ty = 4 <;>
    simp [h1, h2, h3, h4]

end IceProofs.Agent
