import IceModel.AgentCore
/-!
# `Agent.inboundData` in three outcomes

source unknown ⇒ nothing; source known ⇒ the validated state `b` (liveness refreshed, cache entry added), then the
payload is queued (`b.enqueue len`) iff it fits into the receive buffer, else dropped (`b` stays).
-/
namespace IceProofs.InboundData
open IceModel.AgentCore

/-- the agent after the source check of a payload (`validateSTUNTrafficCache` / `validateNonSTUNTraffic` +
`addRemoteCandidateCache`); `none` = the source is not a known remote candidate -/
def validated (a : Agent) (now : Nat) (l : Cand) (src : Nat) : Option Agent :=
  match a.caches.find? fun (lu, s, _) => lu == l.uid && s == src with
  | some (_, _, ru) => some (a.seenRemoteRecv ru now)
  | none =>
    match a.findRemote l.net src with
    | some r => some { (a.seenRemoteRecv r.uid now) with caches := a.caches ++ [(l.uid, src, r.uid)] }
    | none => none

theorem inboundData_eq (a : Agent) (now : Nat) (l : Cand) (src len : Nat) :
    a.inboundData now l src len =
      match validated a now l src with
      | none => (a, [])
      | some b => if rxFits b.rx len then (b.enqueue len, []) else (b, []) := by
  have flip : ∀ (c : Bool) (x y : Agent × List Out), (if !c then x else y) = if c then y else x := by
    intro c x y; cases c <;> rfl
  unfold Agent.inboundData validated
  cases hc : a.caches.find? (fun (lu, s, _) => lu == l.uid && s == src) with
  | some e =>
    obtain ⟨lu, s, ru⟩ := e
    simp only [Bool.not_true, Bool.false_eq_true, if_false]
    exact flip _ _ _
  | none =>
    cases hr : a.findRemote l.net src with
    | some r =>
      simp only [Bool.not_true, Bool.false_eq_true, if_false]
      exact flip _ _ _
    | none => simp

/-- the validated state in its two shapes -/
theorem validated_cases {a : Agent} {now : Nat} {l : Cand} {src : Nat} {b : Agent} (h : validated a now l src = some b) :
    (∃ ru, b = a.seenRemoteRecv ru now) ∨
      ∃ r, a.findRemote l.net src = some r ∧
        b = { (a.seenRemoteRecv r.uid now) with caches := a.caches ++ [(l.uid, src, r.uid)] } := by
  unfold validated at h
  split at h
  · rename_i ru _
    exact Or.inl ⟨ru, (Option.some.inj h).symm⟩
  · split at h
    · rename_i r hr
      exact Or.inr ⟨r, hr, (Option.some.inj h).symm⟩
    · cases h

theorem enqueue_rx (b : Agent) (len : Nat) : (b.enqueue len).rx = b.rx ++ [len] := by
  unfold Agent.enqueue
  simp only
  split
  · split <;> rfl
  · rfl

end IceProofs.InboundData
