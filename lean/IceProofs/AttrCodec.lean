import IceModel.AttrCodec
/-! Lemmas about the attribute codecs (`IceModel.AttrCodec`). -/
namespace IceProofs.AttrCodec
open IceModel.AttrCodec

theorem byteOf_toNat (n : Nat) : (byteOf n).toNat = n % 256 := by
  simp [byteOf]

theorem byteOf_toNat' (b : UInt8) : byteOf b.toNat = b := by
  apply UInt8.toNat_inj.mp
  rw [byteOf_toNat]
  have := b.toNat_lt
  omega

theorem be32Val_be32 (v : Nat) :
    be32Val (byteOf (v / 16777216)) (byteOf (v / 65536)) (byteOf (v / 256)) (byteOf v) = v % 4294967296 := by
  simp only [be32Val, byteOf_toNat]
  omega

theorem be32Val_lt (a b c d : UInt8) : be32Val a b c d < 4294967296 := by
  have := a.toNat_lt; have := b.toNat_lt; have := c.toNat_lt; have := d.toNat_lt
  simp only [be32Val]; omega

theorem be32_be32Val (a b c d : UInt8) : be32 (be32Val a b c d) = [a, b, c, d] := by
  have ha := a.toNat_lt; have hb := b.toNat_lt; have hc := c.toNat_lt; have hd := d.toNat_lt
  have e1 : be32Val a b c d / 16777216 = a.toNat := by simp only [be32Val]; omega
  have e2 : be32Val a b c d / 65536 % 256 = b.toNat := by simp only [be32Val]; omega
  have e3 : be32Val a b c d / 256 % 256 = c.toNat := by simp only [be32Val]; omega
  have e4 : be32Val a b c d % 256 = d.toNat := by simp only [be32Val]; omega
  have f (n : Nat) : byteOf n = byteOf (n % 256) := by simp [byteOf]
  simp only [be32]
  rw [f (_ / 65536), f (_ / 256), f (be32Val a b c d), e1, e2, e3, e4]
  simp [byteOf_toNat']

theorem be32_length (v : Nat) : (be32 v).length = 4 := rfl

theorem decPriority_enc (v : Nat) : decPriority (encPriority v) = some (v % 4294967296) := by
  simp only [encPriority, be32, decPriority, be32Val_be32]

theorem decPriority_some {bs : List UInt8} {v : Nat} (h : decPriority bs = some v) :
    bs.length = 4 ∧ encPriority v = bs ∧ v < 4294967296 := by
  match bs, h with
  | [a, b, c, d], h =>
    simp only [decPriority, Option.some.injEq] at h
    subst h
    exact ⟨rfl, be32_be32Val a b c d, be32Val_lt a b c d⟩

theorem decPriority_size (bs : List UInt8) (h : bs.length ≠ 4) : decPriority bs = none := by
  match bs with
  | [] | [_] | [_, _] | [_, _, _] | _ :: _ :: _ :: _ :: _ :: _ => rfl
  | [_, _, _, _] => simp at h

theorem decTiebreaker_enc (v : Nat) : decTiebreaker (encTiebreaker v) = some (v % 18446744073709551616) := by
  simp only [encTiebreaker, be64, be32, List.cons_append, List.nil_append, decTiebreaker, be32Val_be32]
  congr 1; omega

theorem decTiebreaker_size (bs : List UInt8) (h : bs.length ≠ 8) : decTiebreaker bs = none := by
  match bs with
  | [] | [_] | [_, _] | [_, _, _] | [_, _, _, _] | [_, _, _, _, _] | [_, _, _, _, _, _]
  | [_, _, _, _, _, _, _] | _ :: _ :: _ :: _ :: _ :: _ :: _ :: _ :: _ :: _ => rfl
  | [_, _, _, _, _, _, _, _] => simp at h

theorem decTiebreaker_some {bs : List UInt8} {v : Nat} (h : decTiebreaker bs = some v) :
    bs.length = 8 ∧ encTiebreaker v = bs ∧ v < 18446744073709551616 := by
  match bs, h with
  | [a, b, c, d, e, f, g, k], h =>
    simp only [decTiebreaker, Option.some.injEq] at h
    subst h
    have h1 := be32Val_lt a b c d
    have h2 := be32Val_lt e f g k
    refine ⟨rfl, ?_, by omega⟩
    have e1 : (be32Val a b c d * 4294967296 + be32Val e f g k) / 4294967296 = be32Val a b c d := by omega
    have w (x y : Nat) (hy : y < 4294967296) : be32 (x * 4294967296 + y) = be32 y := by
      have f (n : Nat) : byteOf n = byteOf (n % 256) := by simp [byteOf]
      simp only [be32]
      rw [f ((x * 4294967296 + y) / 16777216), f ((x * 4294967296 + y) / 65536), f ((x * 4294967296 + y) / 256),
        f (x * 4294967296 + y), f (y / 16777216), f (y / 65536), f (y / 256), f y]
      have : (x * 4294967296 + y) / 16777216 % 256 = y / 16777216 % 256 := by omega
      have : (x * 4294967296 + y) / 65536 % 256 = y / 65536 % 256 := by omega
      have : (x * 4294967296 + y) / 256 % 256 = y / 256 % 256 := by omega
      have : (x * 4294967296 + y) % 256 = y % 256 := by omega
      simp [*]
    simp only [encTiebreaker, be64, e1, w _ _ h2, be32_be32Val]
    rfl

theorem decNomination_enc (v : Nat) : decNomination (encNomination v) = some (v % 16777216) := by
  simp only [encNomination, decNomination, byteOf_toNat]
  congr 1; omega

theorem decNomination_size (bs : List UInt8) (h : bs.length < 4) : decNomination bs = none := by
  match bs with
  | [] | [_] | [_, _] | [_, _, _] => rfl
  | _ :: _ :: _ :: _ :: _ => simp at h; omega

theorem decNomination_some_iff (bs : List UInt8) : (decNomination bs).isSome = decide (4 ≤ bs.length) := by
  match bs with
  | [] | [_] | [_, _] | [_, _, _] => rfl
  | _ :: _ :: _ :: _ :: _ => simp [decNomination]

theorem encWords_length (l : List Nat) : (encWords l).length = 4 * l.length := by
  induction l with
  | nil => rfl
  | cons a l ih => simp only [encWords, List.length_append, be32_length, ih, List.length_cons]; omega

theorem decWords_encWords (l : List Nat) : decWords (encWords l) = l.map (· % 4294967296) := by
  induction l with
  | nil => rfl
  | cons a l ih =>
    simp only [encWords, be32, List.cons_append, List.nil_append, decWords, be32Val_be32, ih, List.map_cons]

theorem decAck_enc (l : List Nat) (bs : List UInt8) (h : encAck l = some bs) :
    decAck bs = some (l.map (· % 4294967296)) := by
  unfold encAck at h
  split at h
  · cases h
  · simp only [Option.some.injEq] at h
    subst h
    have hl := encWords_length l
    simp only [ackSizeValues] at *
    unfold decAck
    rw [if_neg (by simp only [ackSizeValues]; omega), decWords_encWords]

theorem encAck_size (l : List Nat) : (encAck l).isSome = decide (l.length ≤ 4) := by
  unfold encAck ackSizeValues
  split <;> simp <;> omega

theorem decAck_size (bs : List UInt8) : (decAck bs).isSome = decide (bs.length ≤ 16 ∧ bs.length % 4 = 0) := by
  unfold decAck ackSizeValues
  split <;> simp <;> omega

end IceProofs.AttrCodec
