import IceProofs.TcpMuxSimQuiet
/-!
# Building blocks of the simulation proof

How the relation `SimU` / `NRead` follows single changes of the model state and the matching
bookkeeping of the monitor: quiet transformations, a new TCP connection, a change of one connection
and its client record, the registration of a connection with a packet connection.
-/
namespace IceProofs.TcpMux
open IceModel.TcpMux IceSpec.C15 IceSpec.C15.View

/-! ## the relation does not look at `closed`, `nread`, `returned` -/

/-- client records that agree except for `closed` and `nread` -/
def ClientsEqv (l l' : List MClient) : Prop :=
  l'.length = l.length ∧ ∀ (k : Nat) (c c' : MClient), l[k]? = some c → l'[k]? = some c' →
    c' = { c with closed := c'.closed, nread := c'.nread }

theorem ClientsEqv.back {l l' : List MClient} (h : ClientsEqv l l') {k : Nat} {c' : MClient} (hc' : l'[k]? = some c') :
    ∃ c, l[k]? = some c ∧ c' = { c with closed := c'.closed, nread := c'.nread } := by
  have hlt : k < l.length := by rw [← h.1]; exact getElem?_lt hc'
  obtain ⟨c, hc⟩ := getElem?_of_lt hlt
  exact ⟨c, hc, h.2 k c c' hc hc'⟩

theorem simU_congr {s : State} {m : Mon} (hs : SimU s m) (l' : List MClient) (r : Bool)
    (he : ClientsEqv m.clients l') : SimU s { m with clients := l', returned := r } := by
  have sq : ∀ k, seqOf { m with clients := l', returned := r } k = seqOf m k := by
    intro k
    apply seqOf_eq
    intro j
    show (l'[j]?).map MClient.seq = _
    cases hj : l'[j]? with
    | none =>
      have : m.clients[j]? = none := by
        rw [List.getElem?_eq_none_iff] at hj ⊢; rw [← he.1]; exact hj
      rw [this]
    | some c' =>
      obtain ⟨c, hc, e⟩ := he.back hj
      rw [hc, e]; rfl
  constructor
  · exact hs.active
  · exact hs.t1
  · exact hs.t2
  · exact hs.now
  · exact hs.called
  · exact hs.ctime
  · exact hs.pcs
  · exact hs.handles
  · show l'.length = _; rw [he.1]; exact hs.len
  · intro k t c' ht hc'
    obtain ⟨c, hc, e⟩ := he.back hc'
    have r := hs.cl k t c ht hc
    rw [e]
    exact ⟨r.ip, r.port, r.lip, r.pend, r.first, r.target, r.done, r.gone, r.sent, r.acc⟩
  · intro k c' hc' htg
    obtain ⟨c, hc, e⟩ := he.back hc'
    rw [e] at htg ⊢
    exact hs.stamp k c hc htg
  · intro k k' t t' p a b c d e f
    rw [sq, sq]; exact hs.last k k' t t' p a b c d e f
  · intro p pc h1 h2 x y a b c d e f g
    rw [sq, sq]; exact hs.ho p pc h1 h2 x y a b c d e f g
  · intro k t p pc a b c d
    rcases hs.cc k t p pc a b c d with h | ⟨h1, h2⟩
    · exact Or.inl h
    · right
      refine ⟨h1, ?_⟩
      intro k' t' a' b' c'
      rw [sq, sq]; exact h2 k' t' a' b' c'
  · exact hs.pl
  · exact hs.plb
  · exact hs.endLast
  · intro k k' c1 c1' hc1 hc1' ht ht' hseq
    obtain ⟨c, hc, e⟩ := he.back hc1
    obtain ⟨c', hc', e'⟩ := he.back hc1'
    rw [e] at ht hseq; rw [e'] at ht' hseq
    exact hs.uniq k k' c c' hc hc' ht ht' hseq

theorem clientsEqv_refl (l : List MClient) : ClientsEqv l l :=
  ⟨rfl, fun k c c' h h' => by rw [h] at h'; cases h'; rfl⟩

theorem clientsEqv_setAt (l : List MClient) (k : Nat) (f : MClient → MClient)
    (hf : ∀ c, f c = { c with closed := (f c).closed, nread := (f c).nread }) : ClientsEqv l (setAt l k f) := by
  refine ⟨by simp [setAt], ?_⟩
  intro j c c' hc hc'
  unfold setAt at hc'
  rw [getElem?_modify_map, hc] at hc'
  simp only [Option.map_some, Option.some.injEq] at hc'
  subst hc'
  split
  · exact hf c
  · rfl

theorem clientsEqv_mapIdx (l : List MClient) (f : Nat → MClient → MClient)
    (hf : ∀ k c, f k c = { c with closed := (f k c).closed, nread := (f k c).nread }) : ClientsEqv l (l.mapIdx f) := by
  refine ⟨by simp, ?_⟩
  intro j c c' hc hc'
  rw [List.getElem?_mapIdx, hc] at hc'
  simp only [Option.map_some, Option.some.injEq] at hc'
  subst hc'
  exact hf j c

/-! ## quiet transformations -/

theorem nread_quiet {s s' : State} {m m' : Mon} (q : Quiet s s') (rl : RLSame s s') (h2 : Inv2 s)
    (hn : NRead s m) (hcl : m'.clients = m.clients) : NRead s' m' := by
  intro k t' c ht' hc
  rw [hcl] at hc
  obtain ⟨t, ht, tq⟩ := q.tback ht'
  rw [hn k t c ht hc]
  unfold nreadOf
  rw [tq.pc]
  cases hpc : t.pc with
  | none => rfl
  | some p =>
    simp only
    obtain ⟨pc, hp⟩ := (h2.tcp k t ht).ref p hpc
    obtain ⟨pc', hp', e⟩ := rl p pc hp
    rw [hp, hp']
    simp only [e]

/-- a quiet, read-free transformation: relation and counters follow, the monitor re-reads records,
handles and clock -/
theorem quiet_step {s s' : State} {m : Mon} (q : Quiet s s') (rl : RLSame s s') (hi : Inv s) (h2 : Inv2 s)
    (hs : SimU s m) (hn : NRead s m) :
    SimU s' { m with pcs := s'.pcs.map absPc, handles := s'.handles.map absH, now := s'.now } ∧
    NRead s' { m with pcs := s'.pcs.map absPc, handles := s'.handles.map absH, now := s'.now } :=
  ⟨quiet_simU q hi h2 hs, nread_quiet q rl h2 hn rfl⟩

/-! ## a new TCP connection -/

theorem appendTcp_simU {s : State} {m : Mon} (hs : SimU s m) (hn : NRead s m) (h2 : Inv2 s) (tn : Tcp) (cn : MClient)
    (hpc : tn.pc = none) (hph : ∀ p, tn.phase ≠ .attached p) (hrd : tn.reader = .none) (hin : tn.inbox = [])
    (hrel : CRel tn cn) (hnr : cn.nread = 0) :
    SimU { s with tcps := s.tcps ++ [tn] } { m with clients := m.clients ++ [cn] } ∧
    NRead { s with tcps := s.tcps ++ [tn] } { m with clients := m.clients ++ [cn] } := by
  have tcase : ∀ (k : Nat) (t : Tcp), (s.tcps ++ [tn])[k]? = some t →
      (s.tcps[k]? = some t ∧ k < s.tcps.length) ∨ (k = s.tcps.length ∧ t = tn) := by
    intro k t h
    by_cases hlt : k < s.tcps.length
    · rw [List.getElem?_append_left hlt] at h; exact Or.inl ⟨h, hlt⟩
    · have hlen : k < (s.tcps ++ [tn]).length := getElem?_lt h
      simp at hlen
      have : k = s.tcps.length := by omega
      subst this
      rw [List.getElem?_concat_length] at h; cases h
      exact Or.inr ⟨rfl, rfl⟩
  have cold : ∀ (k : Nat), k < s.tcps.length → (m.clients ++ [cn])[k]? = m.clients[k]? := by
    intro k hk
    exact List.getElem?_append_left (by rw [hs.len]; exact hk)
  have cnew : (m.clients ++ [cn])[s.tcps.length]? = some cn := by
    rw [← hs.len]; exact List.getElem?_concat_length
  have sqold : ∀ k, k < s.tcps.length → seqOf { m with clients := m.clients ++ [cn] } k = seqOf m k := by
    intro k hk
    unfold seqOf
    show (match (m.clients ++ [cn])[k]? with | some c => c.seq | none => 0) = _
    rw [cold k hk]; rfl
  have routed_old : ∀ (k : Nat) (t : Tcp) (p : Nat), (s.tcps ++ [tn])[k]? = some t → t.pc = some p →
      s.tcps[k]? = some t ∧ k < s.tcps.length := by
    intro k t p h hp
    rcases tcase k t h with h | ⟨_, rfl⟩
    · exact h
    · rw [hpc] at hp; cases hp
  constructor
  · constructor
    · exact hs.active
    · exact hs.t1
    · exact hs.t2
    · exact hs.now
    · exact hs.called
    · exact hs.ctime
    · exact hs.pcs
    · exact hs.handles
    · simp [hs.len]
    · intro k t c ht hc
      rcases tcase k t ht with ⟨h, hlt⟩ | ⟨rfl, rfl⟩
      · rw [show ({ m with clients := m.clients ++ [cn] } : Mon).clients[k]? = m.clients[k]? from cold k hlt] at hc
        exact hs.cl k t c h hc
      · rw [show ({ m with clients := m.clients ++ [cn] } : Mon).clients[s.tcps.length]? = some cn from cnew] at hc
        cases hc; exact hrel
    · intro k c hc htg
      by_cases hlt : k < s.tcps.length
      · rw [show ({ m with clients := m.clients ++ [cn] } : Mon).clients[k]? = m.clients[k]? from cold k hlt] at hc
        exact hs.stamp k c hc htg
      · have hlen : k < (m.clients ++ [cn]).length := getElem?_lt hc
        simp [hs.len] at hlen
        have : k = s.tcps.length := by omega
        subst this
        rw [show ({ m with clients := m.clients ++ [cn] } : Mon).clients[s.tcps.length]? = some cn from cnew] at hc
        cases hc
        rw [hrel.target, hpc] at htg; cases htg
    · intro k k' t t' p ht ht' hph' hpc' hpe hne
      have ⟨h', hlt'⟩ := routed_old k' t' p ht' hpc'
      rcases tcase k t ht with ⟨h, hlt⟩ | ⟨_, rfl⟩
      · rw [sqold k hlt, sqold k' hlt']
        exact hs.last k k' t t' p h h' hph' hpc' hpe hne
      · exact absurd hph' (hph p)
    · intro p pc h1 h2' x y hp hh hy hxe hye hsrc hne
      have hx : x ∈ pc.hist := by rw [hh]; simp
      have hy' : y ∈ pc.hist := by rw [hh]; simp [hy]
      obtain ⟨tx, htx, _⟩ := (h2.pc p pc hp).src x hx
      obtain ⟨ty, hty, _⟩ := (h2.pc p pc hp).src y hy'
      rw [sqold _ (getElem?_lt htx), sqold _ (getElem?_lt hty)]
      exact hs.ho p pc h1 h2' x y hp hh hy hxe hye hsrc hne
    · intro k t p pc ht hpc' hcl hp
      have ⟨h, hlt⟩ := routed_old k t p ht hpc'
      rcases hs.cc k t p pc h hpc' hcl hp with hc | ⟨hc1, hc2⟩
      · exact Or.inl hc
      · right
        refine ⟨hc1, ?_⟩
        intro k' t' ht' hpc'' hpe
        have ⟨h', hlt'⟩ := routed_old k' t' p ht' hpc''
        rw [sqold k hlt, sqold k' hlt']
        exact hc2 k' t' h' hpc'' hpe
    · exact hs.pl
    · intro k t bp ht hb
      rcases tcase k t ht with ⟨h, _⟩ | ⟨_, rfl⟩
      · exact hs.plb k t bp h hb
      · rw [hrd] at hb; cases hb
    · intro k t a b it ht hin' he
      rcases tcase k t ht with ⟨h, _⟩ | ⟨_, rfl⟩
      · exact hs.endLast k t a b it h hin' he
      · rw [hin] at hin'; exact absurd hin' (by simp)
    · intro k k' c c' hc hc' htg htg' hseq
      have key : ∀ (j : Nat) (cj : MClient), (m.clients ++ [cn])[j]? = some cj → cj.target.isSome = true → m.clients[j]? = some cj := by
        intro j cj hcj htj
        by_cases hlt : j < s.tcps.length
        · rw [cold j hlt] at hcj; exact hcj
        · exfalso
          have hlen : j < (m.clients ++ [cn]).length := getElem?_lt hcj
          simp [hs.len] at hlen
          have : j = s.tcps.length := by omega
          subst this
          rw [cnew] at hcj; cases hcj
          rw [hrel.target, hpc] at htj; cases htj
      exact hs.uniq k k' c c' (key k c hc htg) (key k' c' hc' htg') htg htg' hseq
  · intro k t c ht hc
    rcases tcase k t ht with ⟨h, hlt⟩ | ⟨rfl, rfl⟩
    · rw [show ({ m with clients := m.clients ++ [cn] } : Mon).clients[k]? = m.clients[k]? from cold k hlt] at hc
      exact hn k t c h hc
    · rw [show ({ m with clients := m.clients ++ [cn] } : Mon).clients[s.tcps.length]? = some cn from cnew] at hc
      cases hc
      rw [hnr]; unfold nreadOf; rw [hpc]

/-! ## a change of one connection and its client record -/

theorem modify_simU {s : State} {m : Mon} (hs : SimU s m) (hn : NRead s m) (k : Nat) (t : Tcp) (c : MClient)
    (g : Tcp → Tcp) (h : MClient → MClient)
    (ht : s.tcps[k]? = some t) (hc : m.clients[k]? = some c)
    (hpeer : (g t).peer = t.peer) (hpc : (g t).pc = t.pc)
    (hphase : (g t).phase = t.phase ∨ (t.pc = none ∧ (g t).phase = .closed))
    (hsent : t.phase = .closed → (g t).sent = t.sent)
    (hrd : (g t).reader = t.reader)
    (hin : ∀ (a b : List Item) (it : Item), (g t).inbox = a ++ it :: b → isEnd it = true → b = [])
    (hrel : CRel (g t) (h c)) (hseq : (h c).seq = c.seq) (hnr : (h c).nread = c.nread) :
    SimU (setTcp s k g) { m with clients := setAt m.clients k h } ∧
    NRead (setTcp s k g) { m with clients := setAt m.clients k h } := by
  have tk : ∀ j, j ≠ k → (s.tcps.modify k g)[j]? = s.tcps[j]? := fun j hj => getElem?_modify_ne _ _ _ _ hj
  have tkk : (s.tcps.modify k g)[k]? = some (g t) := by rw [getElem?_modify_eq, ht]; rfl
  have ck : ∀ j, j ≠ k → (setAt m.clients k h)[j]? = m.clients[j]? := fun j hj => getElem?_modify_ne _ _ _ _ hj
  have ckk : (setAt m.clients k h)[k]? = some (h c) := by unfold setAt; rw [getElem?_modify_eq, hc]; rfl
  have tcase : ∀ (j : Nat) (tj : Tcp), (s.tcps.modify k g)[j]? = some tj →
      (j ≠ k ∧ s.tcps[j]? = some tj) ∨ (j = k ∧ tj = g t) := by
    intro j tj hj
    by_cases hjk : j = k
    · subst hjk; rw [tkk] at hj; cases hj; exact Or.inr ⟨rfl, rfl⟩
    · rw [tk j hjk] at hj; exact Or.inl ⟨hjk, hj⟩
  -- every connection of the new state with its old version
  have told : ∀ (j : Nat) (tj : Tcp), (s.tcps.modify k g)[j]? = some tj → ∃ t0, s.tcps[j]? = some t0 ∧
      tj.peer = t0.peer ∧ tj.pc = t0.pc ∧ (tj.phase = t0.phase ∨ (t0.pc = none ∧ tj.phase = .closed)) ∧
      (t0.phase = .closed → tj.sent = t0.sent) := by
    intro j tj hj
    rcases tcase j tj hj with ⟨_, h0⟩ | ⟨rfl, rfl⟩
    · exact ⟨tj, h0, rfl, rfl, Or.inl rfl, fun _ => rfl⟩
    · exact ⟨t, ht, hpeer, hpc, hphase, hsent⟩
  have sq : ∀ j, seqOf { m with clients := setAt m.clients k h } j = seqOf m j := by
    intro j
    unfold seqOf
    show (match (setAt m.clients k h)[j]? with | some c => c.seq | none => 0) = _
    by_cases hjk : j = k
    · subst hjk; rw [ckk, hc]; exact hseq
    · rw [ck j hjk]; rfl
  constructor
  · constructor
    · exact hs.active
    · exact hs.t1
    · exact hs.t2
    · exact hs.now
    · exact hs.called
    · exact hs.ctime
    · exact hs.pcs
    · exact hs.handles
    · simp [setAt, setTcp, hs.len]
    · intro j tj cj htj hcj
      rcases tcase j tj htj with ⟨hjk, h0⟩ | ⟨rfl, rfl⟩
      · rw [show ({ m with clients := setAt m.clients k h } : Mon).clients[j]? = m.clients[j]? from ck j hjk] at hcj
        exact hs.cl j tj cj h0 hcj
      · rw [show ({ m with clients := setAt m.clients j h } : Mon).clients[j]? = some (h c) from ckk] at hcj
        cases hcj; exact hrel
    · intro j cj hcj htg
      by_cases hjk : j = k
      · subst hjk
        rw [show ({ m with clients := setAt m.clients j h } : Mon).clients[j]? = some (h c) from ckk] at hcj
        cases hcj
        rw [hseq]
        apply hs.stamp j c hc
        rw [(hs.cl j t c ht hc).target, ← hpc, ← hrel.target]; exact htg
      · rw [show ({ m with clients := setAt m.clients k h } : Mon).clients[j]? = m.clients[j]? from ck j hjk] at hcj
        exact hs.stamp j cj hcj htg
    · intro j j' tj tj' p htj htj' hph hpc' hpe hne
      rw [sq, sq]
      obtain ⟨t0, h0, e1, e2, e3, _⟩ := told j tj htj
      obtain ⟨t0', h0', e1', e2', _, _⟩ := told j' tj' htj'
      have hph0 : t0.phase = .attached p := by
        rcases e3 with e | ⟨_, e⟩
        · rw [← e]; exact hph
        · rw [e] at hph; cases hph
      exact hs.last j j' t0 t0' p h0 h0' hph0 (by rw [← e2']; exact hpc') (by rw [← e1', ← e1]; exact hpe) hne
    · intro p pc h1 h2' x y a b c' d e f g'
      rw [sq, sq]; exact hs.ho p pc h1 h2' x y a b c' d e f g'
    · intro j tj p pc htj hpcj hcl hp
      obtain ⟨t0, h0, e1, e2, e3, e4⟩ := told j tj htj
      have hpc0 : t0.pc = some p := by rw [← e2]; exact hpcj
      have hcl0 : t0.phase = .closed := by
        rcases e3 with e | ⟨e, _⟩
        · rw [← e]; exact hcl
        · rw [hpc0] at e; cases e
      have hlast : (∀ (k' : Nat) (t' : Tcp), s.tcps[k']? = some t' → t'.pc = some p → t'.peer = t0.peer → seqOf m k' ≤ seqOf m j) →
          ∀ (k' : Nat) (t' : Tcp), (s.tcps.modify k g)[k']? = some t' → t'.pc = some p → t'.peer = tj.peer →
            seqOf { m with clients := setAt m.clients k h } k' ≤ seqOf { m with clients := setAt m.clients k h } j := by
        intro hl k' t' ht' hpc' hpe'
        rw [sq, sq]
        obtain ⟨t0', h0', e1', e2', _, _⟩ := told k' t' ht'
        exact hl k' t0' h0' (by rw [← e2']; exact hpc') (by rw [← e1', hpe', e1])
      rcases hs.cc j t0 p pc h0 hpc0 hcl0 hp with hcc | ⟨hc1, hc2⟩
      · left
        intro f hf
        apply hcc f
        rw [← e4 hcl0]; exact hf
      · exact Or.inr ⟨hc1, hlast hc2⟩
    · exact hs.pl
    · intro j tj bp htj hb
      rcases tcase j tj htj with ⟨_, h0⟩ | ⟨rfl, rfl⟩
      · exact hs.plb j tj bp h0 hb
      · rw [hrd] at hb; exact hs.plb j t bp ht hb
    · intro j tj a b it htj hin' he
      rcases tcase j tj htj with ⟨_, h0⟩ | ⟨rfl, rfl⟩
      · exact hs.endLast j tj a b it h0 hin' he
      · exact hin a b it hin' he
    · intro j j' cj cj' hcj hcj' htg htg' hsq
      have key : ∀ (i : Nat) (ci : MClient), (setAt m.clients k h)[i]? = some ci → ci.target.isSome = true →
          ∃ c0, m.clients[i]? = some c0 ∧ c0.target.isSome = true ∧ c0.seq = ci.seq := by
        intro i ci hci hti
        by_cases hik : i = k
        · subst hik
          rw [ckk] at hci; cases hci
          refine ⟨c, hc, ?_, hseq.symm⟩
          rw [(hs.cl i t c ht hc).target, ← hpc, ← hrel.target]; exact hti
        · rw [ck i hik] at hci; exact ⟨ci, hci, hti, rfl⟩
      obtain ⟨c0, h0, t0, e0⟩ := key j cj hcj htg
      obtain ⟨c0', h0', t0', e0'⟩ := key j' cj' hcj' htg'
      exact hs.uniq j j' c0 c0' h0 h0' t0 t0' (by rw [e0, e0']; exact hsq)
  · intro j tj cj htj hcj
    rcases tcase j tj htj with ⟨hjk, h0⟩ | ⟨rfl, rfl⟩
    · rw [show ({ m with clients := setAt m.clients k h } : Mon).clients[j]? = m.clients[j]? from ck j hjk] at hcj
      exact hn j tj cj h0 hcj
    · rw [show ({ m with clients := setAt m.clients j h } : Mon).clients[j]? = some (h c) from ckk] at hcj
      cases hcj
      rw [hnr, hn j t c ht hc]
      unfold nreadOf
      rw [hpc]
      rfl

/-! ## `AddConn`: a pending connection is registered with a packet connection -/

theorem map_absPc_modify (pcs : List PConn) (p : Nat) (g : PConn → PConn) (hg : ∀ pc, absPc (g pc) = absPc pc) :
    (pcs.modify p g).map absPc = pcs.map absPc := by
  apply List.ext_getElem?
  intro q
  simp only [List.getElem?_map]
  rw [getElem?_modify_map]
  cases pcs[q]? with
  | none => rfl
  | some a =>
    simp only [Option.map_some, Option.some.injEq]
    split
    · exact hg a
    · rfl

/-- the state after `AddConn` has registered pending connection `k` (first frame `fr`) with packet
connection `p`, before its reader starts -/
def registered (s : State) (p k : Nat) (peer : Addr) (fr : Frame) : State :=
  setTcp (setPc s p (fun pc => { pc with conns := pc.conns ++ [(peer, k)] })) k
    (fun t => { t with phase := .attached p, reader := .idle, pc := some p, inbox := [.frame fr], sent := t.sent ++ [fr] })

/-- the monitor after it has routed client `k` to record `p` -/
def routed (m : Mon) (p k fid len : Nat) : Mon :=
  { m with stamp := m.stamp + 1, clients := setAt m.clients k (fun c =>
    { c with hasFirst := true, target := some p, seq := m.stamp, sent := [⟨fid, len⟩] }) }

theorem register_simU {s : State} {m : Mon} (hs : SimU s m) (hn : NRead s m) (hi : Inv s) (h2 : Inv2 s)
    (k p d : Nat) (t : Tcp) (c : MClient) (pc : PConn) (fr : Frame)
    (ht : s.tcps[k]? = some t) (hc : m.clients[k]? = some c) (hph : t.phase = .pending d)
    (hp : s.pcs[p]? = some pc) (hopen : pc.closed = false) (hdup : lookupConn pc.conns t.peer = none)
    (hlen : fr.len ≤ 512) :
    SimU (registered s p k t.peer fr) (routed m p k fr.fid fr.len) ∧
    NRead (registered s p k t.peer fr) (routed m p k fr.fid fr.len) := by
  obtain ⟨hpcn, hsentn, _⟩ := (h2.tcp k t ht).fresh d hph
  let g : PConn → PConn := fun pc => { pc with conns := pc.conns ++ [(t.peer, k)] }
  let f : Tcp → Tcp := fun t => { t with phase := .attached p, reader := .idle, pc := some p, inbox := [.frame fr], sent := t.sent ++ [fr] }
  let hcl : MClient → MClient := fun c => { c with hasFirst := true, target := some p, seq := m.stamp, sent := [⟨fr.fid, fr.len⟩] }
  have tk : ∀ j, j ≠ k → (s.tcps.modify k f)[j]? = s.tcps[j]? := fun j hj => getElem?_modify_ne _ _ _ _ hj
  have tkk : (s.tcps.modify k f)[k]? = some (f t) := by rw [getElem?_modify_eq, ht]; rfl
  have ck : ∀ j, j ≠ k → (setAt m.clients k hcl)[j]? = m.clients[j]? := fun j hj => getElem?_modify_ne _ _ _ _ hj
  have ckk : (setAt m.clients k hcl)[k]? = some (hcl c) := by unfold setAt; rw [getElem?_modify_eq, hc]; rfl
  have pget : ∀ (q : Nat) (qc' : PConn), (s.pcs.modify p g)[q]? = some qc' → ∃ qc, s.pcs[q]? = some qc ∧
      qc'.hist = qc.hist ∧ qc'.readLog = qc.readLog ∧ qc'.closed = qc.closed := by
    intro q qc' hq'
    rw [getElem?_modify_map] at hq'
    cases hq : s.pcs[q]? with
    | none => rw [hq] at hq'; cases hq'
    | some qc =>
      rw [hq] at hq'
      simp only [Option.map_some, Option.some.injEq] at hq'
      subst hq'
      refine ⟨qc, rfl, ?_, ?_, ?_⟩ <;> split <;> rfl
  have tcase : ∀ (j : Nat) (tj : Tcp), (s.tcps.modify k f)[j]? = some tj →
      (j ≠ k ∧ s.tcps[j]? = some tj) ∨ (j = k ∧ tj = f t) := by
    intro j tj hj
    by_cases hjk : j = k
    · subst hjk; rw [tkk] at hj; cases hj; exact Or.inr ⟨rfl, rfl⟩
    · rw [tk j hjk] at hj; exact Or.inl ⟨hjk, hj⟩
  have sqk : seqOf (routed m p k fr.fid fr.len) k = m.stamp := by
    unfold seqOf routed
    show (match (setAt m.clients k hcl)[k]? with | some c => c.seq | none => 0) = _
    rw [ckk]
  have sqo : ∀ j, j ≠ k → seqOf (routed m p k fr.fid fr.len) j = seqOf m j := by
    intro j hj
    unfold seqOf routed
    show (match (setAt m.clients k hcl)[j]? with | some c => c.seq | none => 0) = _
    rw [ck j hj]; rfl
  -- a routed connection of the old state has a stamp below `m.stamp`
  have below : ∀ (j : Nat) (tj : Tcp) (q : Nat), s.tcps[j]? = some tj → tj.pc = some q → seqOf m j < m.stamp := by
    intro j tj q htj hq
    have hlt : j < m.clients.length := by rw [hs.len]; exact getElem?_lt htj
    obtain ⟨cj, hcj⟩ := getElem?_of_lt hlt
    have := hs.stamp j cj hcj (by rw [(hs.cl j tj cj htj hcj).target, hq]; rfl)
    unfold seqOf; rw [hcj]; exact this
  -- nothing in any log comes from `k`
  have nok : ∀ (q : Nat) (qc : PConn) (x : Pkt), s.pcs[q]? = some qc → x ∈ qc.hist → x.conn ≠ k := by
    intro q qc x hq hx hk
    obtain ⟨tx, htx, hpx, _⟩ := (h2.pc q qc hq).src x hx
    rw [hk, ht] at htx; cases htx
    rw [hpcn] at hpx; cases hpx
  show SimU { s with pcs := s.pcs.modify p g, tcps := s.tcps.modify k f } (routed m p k fr.fid fr.len) ∧
    NRead { s with pcs := s.pcs.modify p g, tcps := s.tcps.modify k f } (routed m p k fr.fid fr.len)
  constructor
  · constructor
    · exact hs.active
    · exact hs.t1
    · exact hs.t2
    · exact hs.now
    · exact hs.called
    · exact hs.ctime
    · show m.pcs = (s.pcs.modify p g).map absPc
      rw [map_absPc_modify s.pcs p g (fun _ => rfl)]; exact hs.pcs
    · exact hs.handles
    · show (setAt m.clients k hcl).length = (s.tcps.modify k f).length
      simp [setAt, hs.len]
    · intro j tj cj htj hcj
      rcases tcase j tj htj with ⟨hjk, h0⟩ | ⟨rfl, rfl⟩
      · rw [show (routed m p k fr.fid fr.len).clients[j]? = m.clients[j]? from ck j hjk] at hcj
        exact hs.cl j tj cj h0 hcj
      · rw [show (routed m p j fr.fid fr.len).clients[j]? = some (hcl c) from ckk] at hcj
        cases hcj
        have r := hs.cl j t c ht hc
        constructor
        · exact r.ip
        · exact r.port
        · exact r.lip
        · intro d' hd'; cases hd'
        · intro hf; cases hf
        · rfl
        · exact r.done
        · show c.gone = (t.cEnd || (true && big (f t)))
          rw [r.gone, hpcn]
          have : big (f t) = false := by
            simp only [big, f, hsentn, List.nil_append, List.any_cons, List.any_nil, Bool.or_false, decide_eq_false_iff_not]
            omega
          rw [this]; simp
        · intro _
          show [(⟨fr.fid, fr.len⟩ : MFrame)] = mframes (t.sent ++ [fr])
          rw [hsentn]; rfl
        · intro ha
          have := (r.pend d hph).1
          rw [this] at ha; cases ha
    · intro j cj hcj _
      show cj.seq < m.stamp + 1
      by_cases hjk : j = k
      · subst hjk
        rw [show (routed m p j fr.fid fr.len).clients[j]? = some (hcl c) from ckk] at hcj
        cases hcj
        show m.stamp < m.stamp + 1
        omega
      · rw [show (routed m p k fr.fid fr.len).clients[j]? = m.clients[j]? from ck j hjk] at hcj
        -- the client has a connection in the model
        have hlt : j < s.tcps.length := by rw [← hs.len]; exact getElem?_lt hcj
        obtain ⟨tj, htj⟩ := getElem?_of_lt hlt
        rename_i htg
        have := hs.stamp j cj hcj htg
        omega
    · intro j j' tj tj' q htj htj' hphj hpcj' hpe hne
      rcases tcase j tj htj with ⟨hjk, h0⟩ | ⟨rfl, rfl⟩
      · rcases tcase j' tj' htj' with ⟨hjk', h0'⟩ | ⟨rfl, rfl⟩
        · rw [sqo j hjk, sqo j' hjk']
          exact hs.last j j' tj tj' q h0 h0' hphj hpcj' hpe hne
        · -- `tj` is attached to `q = p` with the peer of `t`: excluded by `hdup`
          exfalso
          have hqp : q = p := by
            have : (f t).pc = some q := hpcj'
            simp only [f, Option.some.injEq] at this; exact this.symm
          subst hqp
          have a := hi.phase j tj h0
          simp only [PhaseOk, hphj] at a
          obtain ⟨_, pc2, hp2, _, hm⟩ := a
          rw [hp] at hp2; cases hp2
          exact lookupConn_none hdup _ hm hpe.symm
      · -- the newly attached connection has the largest stamp
        rw [sqk]
        have hqp : q = p := by
          have : (f t).phase = .attached q := hphj
          simp only [f, Phase.attached.injEq] at this; exact this.symm
        subst hqp
        rcases tcase j' tj' htj' with ⟨hjk', h0'⟩ | ⟨rfl, _⟩
        · rw [sqo j' hjk']
          exact below j' tj' q h0' hpcj'
        · exact absurd rfl hne
    · intro q qc' h1 h2' x y hq' hh hy hxe hye hsrc hne
      obtain ⟨qc, hq, e1, _, _⟩ := pget q qc' hq'
      rw [e1] at hh
      have hx : x ∈ qc.hist := by rw [hh]; simp
      have hy' : y ∈ qc.hist := by rw [hh]; simp [hy]
      rw [sqo _ (nok q qc x hq hx), sqo _ (nok q qc y hq hy')]
      exact hs.ho q qc h1 h2' x y hq hh hy hxe hye hsrc hne
    · intro j tj q qc' htj hpcj hclj hq'
      obtain ⟨qc, hq, e1, _, e3⟩ := pget q qc' hq'
      rcases tcase j tj htj with ⟨hjk, h0⟩ | ⟨rfl, rfl⟩
      · rcases hs.cc j tj q qc h0 hpcj hclj hq with hcc | ⟨hc1, hc2⟩
        · left
          intro ff hff
          apply hcc ff
          rw [← e1]; exact hff
        · right
          refine ⟨by rw [e3]; exact hc1, ?_⟩
          intro k' t' ht' hpc' hpe'
          rcases tcase k' t' ht' with ⟨hk', h0'⟩ | ⟨rfl, rfl⟩
          · rw [sqo j hjk, sqo k' hk']
            exact hc2 k' t' h0' hpc' hpe'
          · exfalso
            have hqp : q = p := by
              have : (f t).pc = some q := hpc'
              simp only [f, Option.some.injEq] at this; exact this.symm
            subst hqp
            rw [hp] at hq; cases hq
            rw [hopen] at hc1; cases hc1
      · have : (f t).phase = .closed := hclj
        simp [f] at this
    · intro q qc' pkt hq' hmem herr
      obtain ⟨qc, hq, e1, _, _⟩ := pget q qc' hq'
      rw [e1] at hmem
      exact hs.pl q qc pkt hq hmem herr
    · intro j tj bp htj hb
      rcases tcase j tj htj with ⟨_, h0⟩ | ⟨rfl, rfl⟩
      · exact hs.plb j tj bp h0 hb
      · simp [f] at hb
    · intro j tj a b it htj hin' he
      rcases tcase j tj htj with ⟨_, h0⟩ | ⟨rfl, rfl⟩
      · exact hs.endLast j tj a b it h0 hin' he
      · have hin2 : [Item.frame fr] = a ++ it :: b := hin'
        cases a with
        | nil =>
          simp only [List.nil_append, List.cons.injEq] at hin2
          rw [← hin2.1] at he; cases he
        | cons a0 as =>
          simp only [List.cons_append, List.cons.injEq] at hin2
          have := hin2.2
          cases as <;> simp at this
    · intro j j' cj cj' hcj hcj' htg htg' hseq
      have key : ∀ (i : Nat) (ci : MClient), (setAt m.clients k hcl)[i]? = some ci → ci.target.isSome = true →
          (i = k ∧ ci.seq = m.stamp) ∨ (i ≠ k ∧ m.clients[i]? = some ci ∧ ci.seq < m.stamp) := by
        intro i ci hci hti
        by_cases hik : i = k
        · subst hik
          rw [ckk] at hci; cases hci
          exact Or.inl ⟨rfl, rfl⟩
        · rw [ck i hik] at hci
          exact Or.inr ⟨hik, hci, hs.stamp i ci hci hti⟩
      rcases key j cj hcj htg with ⟨e1, s1⟩ | ⟨n1, h1, s1⟩ <;> rcases key j' cj' hcj' htg' with ⟨e2, s2⟩ | ⟨n2, h2', s2⟩
      · rw [e1, e2]
      · omega
      · omega
      · exact hs.uniq j j' cj cj' h1 h2' htg htg' hseq
  · intro j tj cj htj hcj
    rcases tcase j tj htj with ⟨hjk, h0⟩ | ⟨rfl, rfl⟩
    · rw [show (routed m p k fr.fid fr.len).clients[j]? = m.clients[j]? from ck j hjk] at hcj
      rw [hn j tj cj h0 hcj]
      unfold nreadOf
      cases hpcj : tj.pc with
      | none => rfl
      | some q =>
        simp only
        show _ = (match (s.pcs.modify p g)[q]? with | some pc => _ | none => 0)
        rw [getElem?_modify_map]
        cases hq : s.pcs[q]? with
        | none => rfl
        | some qc =>
          simp only [Option.map_some]
          split <;> rfl
    · rw [show (routed m p j fr.fid fr.len).clients[j]? = some (hcl c) from ckk] at hcj
      cases hcj
      show c.nread = _
      rw [hn j t c ht hc]
      unfold nreadOf
      rw [hpcn]
      show 0 = (match (s.pcs.modify p g)[p]? with | some pc => (dataIds (fromConn j pc.readLog)).length | none => 0)
      rw [getElem?_modify_eq, hp]
      simp only [Option.map_some]
      have : fromConn j pc.readLog = [] := by
        apply fromConn_none
        intro x hx
        exact nok p pc x hp (by rw [(h2.pc p pc hp).fifo]; simp [hx])
      show 0 = (dataIds (fromConn j pc.readLog)).length
      rw [this]; rfl

end IceProofs.TcpMux
