import IceProofs.CandTextRoundtrip
/-! Whatever `parse` accepts satisfies `WFcore` (inversion of the parser, stage by stage). -/
namespace IceProofs.CandText
open IceModel.CandText
open IceModel.Prio (TcpType)

/-- all tokens of the list are free of spaces -/
def NoSp (l : List Str) : Prop := ∀ t ∈ l, 32 ∉ t

theorem nextTok_fst (l : List Str) (h : NoSp l) : 32 ∉ (nextTok l).1 := by
  cases l with
  | nil => simp [nextTok]
  | cons t r => exact h t List.mem_cons_self

theorem nextTok_snd (l : List Str) (h : NoSp l) : NoSp (nextTok l).2 := by
  cases l with
  | nil => simp [nextTok, NoSp]
  | cons t r => exact fun x hx => h x (List.mem_cons_of_mem t hx)

theorem readPort_le (t : Str) (p : Nat) (h : readPort t = some p) : p ≤ 65535 := by
  unfold readPort at h
  split at h
  · split at h
    · cases h
    · simp only [Option.some.injEq] at h; omega
  · cases h

theorem parseHead_inv (toks : List Str) (hd : Head) (r : List Str) (hs : NoSp toks)
    (h : parseHead toks = .ok (hd, r)) :
    foundationOK hd.foundation ∧ hd.foundation ≠ [] ∧ hd.port ≤ 65535 ∧ 32 ∉ hd.address ∧ 37 ∉ hd.address ∧ NoSp r := by
  unfold parseHead at h
  have s1 := nextTok_snd toks hs
  have s2 := nextTok_snd _ s1
  have s3 := nextTok_snd _ s2
  have s4 := nextTok_snd _ s3
  have a5 := nextTok_fst _ s4
  have s5 := nextTok_snd _ s4
  have s6 := nextTok_snd _ s5
  have s7 := nextTok_snd _ s6
  have s8 := nextTok_snd _ s7
  simp only at h
  split at h
  · cases h
  · rename_i hrc
    have hrc : readChars 32 (nextTok toks).1 0 = true := by simpa using hrc
    have hice := readChars_true 32 _ 0 hrc (by omega)
    split at h
    · cases h
    · split at h
      · cases h
      · split at h
        · cases h
        · split at h
          · cases h
          · split at h
            · cases h
            · split at h
              · cases h
              · split at h
                · cases h
                · split at h
                  · cases h
                  · rename_i port hport
                    split at h
                    · cases h
                    · split at h
                      · cases h
                      · simp only [Except.ok.injEq, Prod.mk.injEq] at h
                        obtain ⟨h1, h2⟩ := h
                        subst h1 h2
                        refine ⟨?_, ?_, readPort_le _ _ hport, ?_, stripZone_no37 _, s8⟩
                        · simp only
                          split
                          · left; rfl
                          · rename_i hne
                            right
                            exact ⟨hne, by have := hice.2; omega, hice.1⟩
                        · simp only
                          split
                          · simp
                          · assumption
                        · exact fun hm => a5 (stripZone_sub _ _ hm)

theorem readRel_inv (r : List Str) (ra : Str) (rp : Nat) (r' : List Str) (hs : NoSp r)
    (h : readRel r = .ok (ra, rp, r')) : 32 ∉ ra ∧ rp ≤ 65535 ∧ NoSp r' := by
  unfold readRel at h
  have s1 := nextTok_snd r hs
  have a2 := nextTok_fst _ s1
  have s2 := nextTok_snd _ s1
  have s3 := nextTok_snd _ s2
  have s4 := nextTok_snd _ s3
  simp only at h
  split at h
  · simp only [Except.ok.injEq, Prod.mk.injEq] at h
    obtain ⟨h1, h2, h3⟩ := h
    subst h1 h2 h3
    exact ⟨by simp, by omega, hs⟩
  · split at h
    · cases h
    · split at h
      · cases h
      · split at h
        · cases h
        · split at h
          · cases h
          · split at h
            · cases h
            · rename_i port hport
              simp only [Except.ok.injEq, Prod.mk.injEq] at h
              obtain ⟨h1, h2, h3⟩ := h
              subst h1 h2 h3
              exact ⟨a2, readPort_le _ _ hport, s4⟩

theorem pairExts_mem : ∀ (r : List Str), ∀ e ∈ pairExts r, (e.1 ∈ r) ∧ (e.2 ∈ r ∨ e.2 = [])
  | [], e, he => by simp [pairExts] at he
  | [t], e, he => by
    cases t with
    | nil => simp [pairExts] at he
    | cons x t =>
      simp only [pairExts, List.mem_singleton] at he
      subst he; simp
  | k :: v :: rest, e, he => by
    rw [pairExts] at he
    rcases List.mem_cons.mp he with rfl | he
    · simp
    · have := pairExts_mem rest e he
      exact ⟨List.mem_cons_of_mem _ (List.mem_cons_of_mem _ this.1),
        this.2.imp (fun h => List.mem_cons_of_mem _ (List.mem_cons_of_mem _ h)) id⟩

theorem splitTT_fold_inv (R : Str × Str → Prop) (l : List (Str × Str)) (acc : List (Str × Str) × Str)
    (hl : ∀ e ∈ l, R e) (hacc : ∀ e ∈ acc.1, R e ∧ e.1 ≠ sTcptype) :
    ∀ e ∈ (l.foldl (fun (acc : List (Str × Str) × Str) kv =>
      if kv.1 = sTcptype then (acc.1, kv.2) else (acc.1 ++ [kv], acc.2)) acc).1, R e ∧ e.1 ≠ sTcptype := by
  induction l generalizing acc with
  | nil => simpa using hacc
  | cons x l ih =>
    simp only [List.foldl_cons]
    apply ih _ (fun e he => hl e (List.mem_cons_of_mem x he))
    split
    · exact hacc
    · rename_i hne
      intro e he
      rcases List.mem_append.mp he with he | he
      · exact hacc e he
      · simp only [List.mem_singleton] at he
        subst he
        exact ⟨hl e List.mem_cons_self, hne⟩

theorem parseExtSection_inv (r : List Str) (exts : List (Str × Str)) (tt : TcpType) (hs : NoSp r)
    (h : parseExtSection r = .ok (exts, tt)) : ∀ e ∈ exts, tokOK e.1 ∧ tokOK e.2 ∧ e.1 ≠ sTcptype := by
  unfold parseExtSection at h
  split at h
  · simp only [Except.ok.injEq, Prod.mk.injEq] at h
    rw [← h.1]; simp
  · split at h
    · cases h
    · split at h
      · cases h
      · rename_i hall
        have hall : ∀ t ∈ r, validBS t = true := by simpa using hall
        have key : ∀ e ∈ (splitTT (pairExts r)).1, (tokOK e.1 ∧ tokOK e.2) ∧ e.1 ≠ sTcptype := by
          apply splitTT_fold_inv (fun e => tokOK e.1 ∧ tokOK e.2)
          · intro e he
            have := pairExts_mem r e he
            refine ⟨⟨hall _ this.1, hs _ this.1⟩, ?_⟩
            rcases this.2 with h2 | h2
            · exact ⟨hall _ h2, hs _ h2⟩
            · rw [h2]; exact ⟨rfl, by simp⟩
          · simp
        simp only at h
        split at h
        · simp only [Except.ok.injEq, Prod.mk.injEq] at h
          rw [← h.1]
          exact fun e he => ⟨(key e he).1.1, (key e he).1.2, (key e he).2⟩
        · split at h
          · cases h
          · simp only [Except.ok.injEq, Prod.mk.injEq] at h
            rw [← h.1]
            exact fun e he => ⟨(key e he).1.1, (key e he).1.2, (key e he).2⟩

theorem netOf_inv (p : Str) (cl : AddrClass) (n : NetType) (h : netOf p cl = some n) (hcl : cl ≠ .invalid) :
    (cl = .v4 ∧ (n = .udp4 ∨ n = .tcp4)) ∨ (cl = .v6 ∧ (n = .udp6 ∨ n = .tcp6)) := by
  unfold netOf at h
  simp only at h
  split at h
  · cases cl <;> simp_all
    all_goals (subst h; simp)
  · split at h
    · cases cl <;> simp_all
      all_goals (subst h; simp)
    · cases h

theorem mkCand_inv (env : Env) (ty : CType) (network address : Str) (port comp prio : Nat) (fnd : Str)
    (tt : TcpType) (ra : Str) (rp rlp : Nat) (c0 : Cand)
    (h : mkCand env ty network address port comp prio fnd tt ra rp rlp = .ok c0) :
    c0.typ = ty ∧ c0.address = address ∧ c0.port = port ∧ c0.component = comp ∧ c0.prioOverride = prio ∧
    c0.foundationOverride = fnd ∧ addrNetOK env c0 ∧
    (ty = .host → c0.related = none) ∧ (ty ≠ .host → c0.related = some (ra, rp) ∧ c0.tcpType = .unspecified) ∧
    (ty = .relay → c0.relayLP = rlp) := by
  unfold mkCand at h
  split at h
  · split at h
    · rename_i hm
      simp only [Except.ok.injEq] at h
      subst h
      simp [addrNetOK, hm]
    · rename_i hm
      split at h
      · cases h
      · rename_i cl hcl
        split at h
        · cases h
        · rename_i n hn
          simp only [Except.ok.injEq] at h
          subst h
          have := netOf_inv _ _ _ hn (by intro e; exact hcl e)
          simp [addrNetOK, hm, this]
  · rename_i hnh
    split at h
    · cases h
    · rename_i cl hcl
      split at h
      · cases h
      · rename_i n hn
        simp only [Except.ok.injEq] at h
        subst h
        have := netOf_inv _ _ _ hn (by intro e; exact hcl e)
        have hne : ty ≠ .host := by intro e; exact hnh e
        simp [addrNetOK, hne, this]
        intro h1 h2; exact absurd h1 h2

/-- Whatever `parse` accepts is a `WFcore` candidate. -/
theorem parse_wfCore (env : Env) (s : Str) (c : Cand) (h : parse env s = .ok c) : WFcore env c := by
  unfold parse parseToks at h
  have hs : NoSp (splitSp (stripCandidatePrefix s)) := splitSp_nospace_tokens _
  split at h
  · cases h
  · rename_i hd r8 hhead
    obtain ⟨hf, hfne, hport, ha32, ha37, hs8⟩ := parseHead_inv _ _ _ hs hhead
    split at h
    · cases h
    · rename_i ra rp r9 hrel
      obtain ⟨hra, hrp, hs9⟩ := readRel_inv _ _ _ _ hs8 hrel
      split at h
      · cases h
      · rename_i exts tt hext
        have hx := parseExtSection_inv _ _ _ hs9 hext
        split at h
        · cases h
        · rename_i ty hty
          split at h
          · cases h
          · rename_i c0 hmk
            obtain ⟨m1, m2, m3, m4, m5, m6, m7, m8, m9, m10⟩ := mkCand_inv _ _ _ _ _ _ _ _ _ _ _ _ _ hmk
            simp only [Except.ok.injEq] at h
            subst h
            have hfo : foundation env { c0 with exts := exts } = hd.foundation := by
              unfold foundation; simp only [m6]; exact if_pos hfne
            refine ⟨by rw [hfo]; exact hf, ?_, ?_, ?_, ?_, ?_, ?_, ?_, ?_, ?_, hx⟩
            · simp only [m4]; exact Nat.mod_lt _ (by decide)
            · simp only [m5]; exact Nat.mod_lt _ (by decide)
            · by_cases hr : ty = .relay
              · right; right; exact m10 hr
              · right; left; simp only [m1]; exact hr
            · simp only [m2]; exact ha32
            · simp only [m2]; exact ha37
            · exact m7
            · simp only [m3]; exact hport
            · unfold relatedOK
              by_cases hh : ty = .host
              · simp only [m8 hh, m1]; exact hh
              · simp only [(m9 hh).1, m1]; exact ⟨hh, hra, hrp⟩
            · intro htt
              by_cases hh : ty = .host
              · simp only [m1]; exact hh
              · exact absurd (m9 hh).2 htt

theorem mkCand_exts (env : Env) (ty : CType) (network address : Str) (port comp prio : Nat) (fnd : Str)
    (tt : TcpType) (ra : Str) (rp rlp : Nat) (c0 : Cand)
    (h : mkCand env ty network address port comp prio fnd tt ra rp rlp = .ok c0) : c0.exts = [] := by
  unfold mkCand at h
  repeat' split at h
  all_goals cases h
  all_goals rfl

theorem crcDigits_foundationOK (n : Nat) : foundationOK (natToDigits (n % 4294967296)) := by
  right
  refine ⟨natToDigits_ne_nil _, ?_, ?_⟩
  · have := natToDigits_length (n % 4294967296) 9 (by omega); omega
  · intro ch hch
    have := natToDigits_digits _ ch hch
    simp only [isDigit, Bool.and_eq_true, decide_eq_true_eq] at this
    simp only [isIceChar, Bool.or_eq_true, Bool.and_eq_true, decide_eq_true_eq]
    omega

/-- A candidate made by a public constructor from arguments in range is well-formed. -/
theorem mkCand_wf (env : Env) (ty : CType) (network address : Str) (port comp prio : Nat) (fnd : Str)
    (tt : TcpType) (ra : Str) (rp rlp : Nat) (c : Cand)
    (h : mkCand env ty network address port comp prio fnd tt ra rp rlp = .ok c)
    (hf : fnd = [] ∨ foundationOK fnd) (hcomp : comp < 65536) (hprio : prio < 4294967296)
    (hp0 : priority c ≠ 0 ∨ ty ≠ .relay ∨ rlp = defaultRelayLP)
    (ha : 32 ∉ address ∧ 37 ∉ address) (hport : port ≤ 65535)
    (hra : 32 ∉ ra ∧ rp ≤ 65535 ∧ (ra = [] → rp = 0)) : WF env c := by
  obtain ⟨m1, m2, m3, m4, m5, m6, m7, m8, m9, m10⟩ := mkCand_inv _ _ _ _ _ _ _ _ _ _ _ _ _ h
  have mx := mkCand_exts _ _ _ _ _ _ _ _ _ _ _ _ _ h
  refine ⟨⟨?_, by omega, by omega, ?_, by rw [m2]; exact ha.1, by rw [m2]; exact ha.2, m7, by omega, ?_, ?_, ?_⟩, ?_, ?_⟩
  · unfold foundation
    rw [m6]
    rcases hf with hf | hf
    · rw [if_neg (by simp [hf])]; exact crcDigits_foundationOK _
    · have : fnd ≠ [] := by
        rcases hf with hf | hf
        · rw [hf]; simp
        · exact hf.1
      rw [if_pos this]; exact hf
  · rcases hp0 with h0 | h0 | h0
    · exact Or.inl h0
    · exact Or.inr (Or.inl (by rw [m1]; exact h0))
    · by_cases hr : ty = .relay
      · exact Or.inr (Or.inr (by rw [m10 hr]; exact h0))
      · exact Or.inr (Or.inl (by rw [m1]; exact hr))
  · unfold relatedOK
    by_cases hh : ty = .host
    · simp only [m8 hh, m1]; exact hh
    · simp only [(m9 hh).1, m1]; exact ⟨hh, hra.1, hra.2.1⟩
  · intro htt
    by_cases hh : ty = .host
    · rw [m1]; exact hh
    · exact absurd (m9 hh).2 htt
  · rw [mx]; simp
  · unfold relRepr
    by_cases hh : ty = .host
    · simp only [m8 hh]
    · simp only [(m9 hh).1]; exact hra.2.2
  · unfold extHeadRepr extToks extensions
    rw [mx]
    by_cases ht : c.tcpType = .unspecified
    · simp [ht, pairToks]
    · simp only [ne_eq, ht, not_false_eq_true, if_true, List.append_nil, pairToks]
      exact ⟨by decide, Or.inl (by decide)⟩

/-- network type and TCP type of a constructed candidate whose address is not an mDNS name -/
theorem mkCand_net (env : Env) (ty : CType) (network address : Str) (port comp prio : Nat) (fnd : Str)
    (tt : TcpType) (ra : Str) (rp rlp : Nat) (c0 : Cand)
    (h : mkCand env ty network address port comp prio fnd tt ra rp rlp = .ok c0)
    (hm : isMDNS address = false) :
    netOf network (env.cls address) = some c0.net ∧ c0.tcpType = (if ty = .host then tt else .unspecified) := by
  unfold mkCand at h
  split at h
  · rw [if_neg (by simp [hm])] at h
    split at h
    · cases h
    · split at h
      · cases h
      · rename_i n hn
        simp only [Except.ok.injEq] at h
        subst h
        exact ⟨hn, rfl⟩
  · rename_i hnh
    split at h
    · cases h
    · split at h
      · cases h
      · rename_i n hn
        simp only [Except.ok.injEq] at h
        subst h
        have hne : ty ≠ .host := by intro e; exact hnh e
        exact ⟨hn, by rw [if_neg hne]⟩

/-- Two literals of one canonical IP in the same constructor call give Equal and DeepEqual candidates. -/
theorem mkCand_literal_forms (env : Env) (hl : EnvLaw env) (ty : CType) (network a₁ a₂ : Str)
    (port comp prio : Nat) (fnd : Str) (tt : TcpType) (ra : Str) (rp rlp : Nat) (c₁ c₂ : Cand) (k : Str)
    (h1 : mkCand env ty network a₁ port comp prio fnd tt ra rp rlp = .ok c₁)
    (h2 : mkCand env ty network a₂ port comp prio fnd tt ra rp rlp = .ok c₂)
    (hk1 : env.canon a₁ = some k) (hk2 : env.canon a₂ = some k)
    (hm1 : isMDNS a₁ = false) (hm2 : isMDNS a₂ = false) :
    equal env c₁ c₂ = true ∧ deepEqual env c₁ c₂ = true := by
  obtain ⟨m1, m2, m3, _, _, _, _, m8, m9, _⟩ := mkCand_inv _ _ _ _ _ _ _ _ _ _ _ _ _ h1
  obtain ⟨n1, n2, n3, _, _, _, _, n8, n9, _⟩ := mkCand_inv _ _ _ _ _ _ _ _ _ _ _ _ _ h2
  obtain ⟨p1, p2⟩ := mkCand_net _ _ _ _ _ _ _ _ _ _ _ _ _ h1 hm1
  obtain ⟨q1, q2⟩ := mkCand_net _ _ _ _ _ _ _ _ _ _ _ _ _ h2 hm2
  have hcls := cls_eq_of_canon env hl a₁ a₂ k hk1 hk2
  have hnet : c₁.net = c₂.net := by
    rw [hcls, q1] at p1; exact (Option.some.inj p1).symm
  have htt : c₁.tcpType = c₂.tcpType := by rw [p2, q2]
  have hrel : c₁.related = c₂.related := by
    by_cases hh : ty = .host
    · rw [m8 hh, n8 hh]
    · rw [(m9 hh).1, (n9 hh).1]
  have he : equal env c₁ c₂ = true := by
    rw [equal_iff env hl]
    refine ⟨by rw [m1, n1], hnet, by rw [m3, n3], htt, hrel, ?_, ?_⟩
    · rw [m2, n2, sameAddressLiteral_iff]; exact Or.inr ⟨k, hk1, hk2⟩
    · intro _; rw [m2, n2, hm1, hm2]
  refine ⟨he, ?_⟩
  unfold deepEqual
  rw [he, Bool.true_and]
  have : extensions c₁ = extensions c₂ := by
    unfold extensions
    rw [htt, mkCand_exts _ _ _ _ _ _ _ _ _ _ _ _ _ h1, mkCand_exts _ _ _ _ _ _ _ _ _ _ _ _ _ h2]
  rw [this]; exact extensionsEqual_refl _

end IceProofs.CandText
