import IceProofs.Sys2C01LiveStep2
/-!
# C01 liveness, layer 18d — after answering an authenticated request the agent knows its source
-/
namespace IceProofs.C01Live
open IceModel.AgentCore IceProofs.C03 IceProofs.Agent IceProofs.C01Live.Prog

section
variable {T0 H now : Nat} {a : Agent}

/-- an authenticated request without role conflict from an unfiltered source: after the step (handler + forced tick, if
any) the source address is a known remote candidate (it was one, or it has been discovered as peer-reflexive) -/
theorem step_auth_known (h0 : T0 ≤ now) (hn : now ≤ H) (hg : Good T0 H a) {la src : Nat} {m : Msg} {l : Cand}
    (hl : a.localByAddr la = some l) (ha : AuthRequest a m) (hnom : m.nom = none) (hnc : NoConflict a m)
    (hflt : a.cfg.blockedIPs.contains (ipOf src) = false) :
    ((step a (.inbound now la src m)).1.findRemote 0 src).isSome = true := by
  obtain ⟨hlm, hla⟩ := IceProofs.C01.localByAddr_spec hl
  have hnet : l.net = 0 := (hg.locOK.1 l hlm).1
  have hok : AuthRequest a m → m.nom = none ∧ NoConflict a m := fun _ => ⟨hnom, hnc⟩
  have k1 := handleInbound_lk' (T0 := T0) (now := now) a l src m h0 hnet hg.full hok
  have id1 := handleInbound_sameId a now l src m (fun h => (hok h).2)
  have tf1 := tf_handleInbound a now l src m
  have ht1 : Timely T0 H (a.handleInbound now l src m).1 := by
    apply hg.timely.of_lk k1 id1.cfg (congrArg TF.checkingTimeout tf1)
    · intro hls
      rw [show (a.handleInbound now l src m).1.lastSeen = a.lastSeen from congrArg TF.lastSeen tf1] at hls
      rw [show (a.handleInbound now l src m).1.checkingTimeout = a.checkingTimeout from congrArg TF.checkingTimeout tf1,
        show (a.handleInbound now l src m).1.checkingStart = a.checkingStart from congrArg TF.checkingStart tf1]
      rcases hg.timely.ck with h | ⟨_, h⟩
      · exact Or.inl h
      · exact Or.inr (h hls)
    · intro id hid
      rcases handleInbound_selFresh a now l src m hg.linv (fun h => (hok h).2) hnet id hid with h | ⟨p, r, h1, h2, h3⟩
      · exact Or.inl h
      · exact Or.inr ⟨p, r, now, h1, h2, h3, h0⟩
  have g1 : Good0 T0 H (a.handleInbound now l src m).1 := hg.good0.of_lk k1 id1 ht1
  have htk : ∃ t, (a.handleInbound now l src m).1.nextTick = some t ∧ T0 ≤ t := by
    rw [show (a.handleInbound now l src m).1.nextTick = a.nextTick from congrArg TF.nextTick tf1]
    exact hg.tick
  obtain ⟨_, k2, _⟩ := runForced_good h0 hn g1 htk
  rw [step_inbound_proj]
  simp only [hg.open_, hg.started, Bool.not_true, Bool.or_self, Bool.false_eq_true, if_false, hl]
  -- the source resolves in the state after `handleInbound`
  have hfr : ∃ rc, (a.handleInbound now l src m).1.findRemote 0 src = some rc := by
    rcases hiDisc_spec a l src m with ⟨_, _, hb⟩ | ⟨a1, r, hd, D⟩
    · rw [hb] at hflt; cases hflt
    · have hcore : a1.core = a.core := D.disc.core
      have hcc : a1.controlling = a.controlling := congrArg Core.controlling hcore
      have hcfg : a1.cfg = a.cfg := congrArg Core.cfg hcore
      have kq : LK T0 now none a1 (hiReq a1 now l r m []).1 :=
        hiReq_lk' a1 l r m [] h0 hnom (by rw [hcfg]; exact hg.full)
      rw [handleInbound_req_resolved a now l src m ha hnc hd hcc]
      have hf := D.find
      rw [hnet] at hf
      obtain ⟨rc, hrc, _⟩ := kq.findRemote hf
      exact ⟨rc, hrc⟩
  obtain ⟨rc, hrc⟩ := hfr
  obtain ⟨rc2, hrc2, _⟩ := k2.findRemote hrc
  rw [hrc2]
  rfl

end

end IceProofs.C01Live
