import IceProofs.Sys2C20Defs
import IceProofs.Sys2C20OutsQ
/-!
# C20 on `Sys2` — which steps emit nominations

The walk through the helpers of `step` is in `Sys2C20OutsQ` (`step_outs_t`: no event but `.renominate` emits a
nomination value, except the nomination the automatic check logs in the same step; `step_outs_f`: a started agent with a
selected pair emits no USE-CANDIDATE request except such a logged nomination, or through `.renominate`;
`step_renominate_out`: the one request of a `.renominate` that is not refused).
-/
namespace IceProofs.C20S
open IceModel.AgentCore IceProofs.Agent

/-- A STUN message that carries a nomination value is a nomination this very step ISSUES — `RenominateCandidate` that is
not refused, or the automatic check of a controlling agent inside a tick (`issuesOf`, the entries the step appends to the
ghost log): it is a Binding request with USE-CANDIDATE, sent from the local address to the remote address of that
nomination, and the value is positive.  Any state, any event. -/
theorem step_out_nom (a : Agent) (e : Ev) (f t : Nat) (m : Msg) (v : Nat)
    (hm : Out.dgram f t m ∈ (step a e).2) (hn : m.nom = some v) :
    m.cls = 0 ∧ m.useCand = true ∧ 0 < v ∧ (v, f, t) ∈ issuesOf a e := by
  by_cases hr : ∃ now la ri value, e = .renominate now la ri value
  · obtain ⟨now, la, ri, value, rfl⟩ := hr
    obtain ⟨h0, h1, h2, h3⟩ := step_renominate_out a now la ri value f t m hm
    rw [hn] at h2
    by_cases hv : value > 0
    · rw [if_pos hv] at h2
      cases h2
      exact ⟨h0, h1, hv, by rw [issuesOf_renominate, h3]; simp⟩
    · rw [if_neg hv] at h2
      cases h2
  · have h := (step_outs_t a e (fun now la ri v h => hr ⟨now, la, ri, v, h⟩)).2.mem hm
    rcases h with h | ⟨h0, h1, v', h2, h3⟩
    · rw [h.1] at hn
      cases hn
    · rw [hn] at h3
      by_cases hv : v' > 0
      · rw [if_pos hv] at h3
        cases h3
        exact ⟨h0, h1, hv, h2⟩
      · rw [if_neg hv] at h3
        cases h3

/-- An agent that has a selected pair emits no ordinary nomination (USE-CANDIDATE request without value), except as a
nomination it issues with value 0: `RenominateCandidate` with value 0, or the automatic check when the counter of its
value generator wraps around to 0. -/
theorem step_out_plainUC (a : Agent) (e : Ev) (hst : a.started = true) (hk : keeps e = true)
    (hsel : a.selected.isSome = true) (f t : Nat) (m : Msg)
    (hm : Out.dgram f t m ∈ (step a e).2) (hc : m.cls = 0) (hu : m.useCand = true) (hn : m.nom = none) :
    (0, f, t) ∈ issuesOf a e := by
  by_cases hr : ∃ now la ri value, e = .renominate now la ri value
  · obtain ⟨now, la, ri, value, rfl⟩ := hr
    obtain ⟨_, _, h2, h3⟩ := step_renominate_out a now la ri value f t m hm
    rw [hn] at h2
    by_cases hv : value > 0
    · rw [if_pos hv] at h2
      cases h2
    · have : value = 0 := by omega
      subst this
      rw [issuesOf_renominate, h3]; simp
  · have h := (step_outs_f a e hst hk hsel (fun now la ri v h => hr ⟨now, la, ri, v, h⟩)).2.mem hm
    rcases h with h | ⟨_, _, v', h2, h3⟩
    · exact absurd (h.2 hc hu) (by simp)
    · rw [hn] at h3
      by_cases hv : v' > 0
      · rw [if_pos hv] at h3; cases h3
      · have : v' = 0 := by omega
        subst this
        exact h2

end IceProofs.C20S
