import IceProofs.Sys2C20FrameT
/-!
# C20 on `Sys2` — the frame relation across candidate arrival

`addLocalCandidate` from any state; `addRemoteCandidate` without the address clause from any state, and with it from
a state satisfying C06's invariant (id stability: a pair id keeps addressing the same transport-address pair).
-/
namespace IceProofs.C20S
open IceModel.AgentCore IceProofs.Agent IceProofs.AgentC06

/-! ## variants without the address clause -/

theorem G.of_eq_na {a a' : Agent} (h1 : a'.checklist = a.checklist) (h4 : a'.selected = a.selected)
    (h5 : ∀ pd ∈ a'.pending, pd ∈ a.pending) (h6 : a'.nextPairID = a.nextPairID)
    (h7 : a'.nomIssued = a.nomIssued := by rfl) : G false none none none a a' :=
  ⟨by rw [h6]; exact Nat.le_refl _, Or.inl h4, fun p' hp' _ => Or.inl ⟨p', h1 ▸ hp', rfl, rfl⟩,
   fun p hp => ⟨p, h1 ▸ hp, rfl⟩, (fun h => Bool.noConfusion h), fun pd hpd => Or.inl (h5 pd hpd),
   by rw [h7]; exact List.prefix_refl _⟩

theorem G.modPair_na (a : Agent) (id : Nat) (f : Pair → Pair) (hid : ∀ p, (f p).id = p.id)
    (hnk : ∀ p, nk (f p) = nk p) : G false none none none a (a.modPair id f) := by
  refine ⟨Nat.le_refl _, Or.inl rfl, ?_, ?_, (fun h => Bool.noConfusion h), fun pd hpd => Or.inl hpd, List.prefix_refl _⟩
  · intro q hq _
    obtain ⟨p, hp, h | h⟩ := C03.mem_updPair (l := a.checklist) hq
    · obtain ⟨_, rfl⟩ := h
      exact Or.inl ⟨p, hp, (hid p).symm, hnk p⟩
    · obtain ⟨_, rfl⟩ := h
      exact Or.inl ⟨q, hp, rfl, rfl⟩
  · intro p hp
    refine ⟨_, C03.mem_updPair_of_mem (id := id) (f := f) hp, ?_⟩
    split
    · exact hid p
    · rfl

/-! ## a new local candidate -/

theorem pairAddrs_appendLocals {a b : Agent} (extra : List Cand) (h1 : b.checklist = a.checklist)
    (h2 : b.locals = a.locals ++ extra) (h3 : b.remotes = a.remotes) (id : Nat) (x : Nat × Nat)
    (h : pairAddrs a id = some x) : pairAddrs b id = some x := by
  obtain ⟨p, l, r, hp, hl, hr, rfl⟩ := pairAddrs_some h
  refine pairAddrs_of (p := p) ?_ ?_ ?_
  · unfold Agent.pairById at hp ⊢; rw [h1]; exact hp
  · unfold Agent.localOf at hl ⊢; rw [h2]; exact findCand_append_of_some hl _
  · unfold Agent.remoteOf at hr ⊢; rw [h3]; exact hr

theorem addLocalCandidate_g {wa : Bool} (a : Agent) (c : Cand) : G wa none none none a (a.addLocalCandidate c).1 := by
  unfold Agent.addLocalCandidate
  split
  · exact G.refl _ _ _ _ _
  · split
    · exact G.refl _ _ _ _ _
    · have h0 : G wa none none none a
          ({ a with nextUid := a.nextUid + 1, locals := a.locals ++ [{ c with uid := a.nextUid }] } : Agent) :=
        ⟨Nat.le_refl _, Or.inl rfl, fun p' hp' _ => Or.inl ⟨p', hp', rfl, rfl⟩, fun p hp => ⟨p, hp, rfl⟩,
         fun _ => pairAddrs_appendLocals [{ c with uid := a.nextUid }] rfl rfl rfl, fun _ h => Or.inl h, List.prefix_refl _⟩
      have h3 : ∀ (c' : Cand) (rs : List Cand) (b : Agent), G wa none none none a b →
          G wa none none none a (rs.foldl (fun a r => (a.addPair c' r).1) b) := by
        intro c' rs
        induction rs with
        | nil => intro b hb; exact hb
        | cons r rs ih =>
          intro b hb
          exact ih _ (hb.trans (addPair_g b c' r))
      exact (h3 { c with uid := a.nextUid } (a.remotes.filter (·.net == c.net)) _ h0).trans
        (c := Agent.requestCheck _) (G.of_eq rfl rfl rfl rfl (fun _ h => h) rfl)

/-! ## a new remote candidate: everything but the addresses, from any state -/

theorem replStep_g (old c : Cand) (a : Agent) (o : List Out) (id : Nat) :
    G false none none none a (C03.replStep old c (a, o) id).1 := by
  unfold C03.replStep
  simp only []
  split
  · rename_i p _
    split
    · have h1 : G false none none none a
          (a.modPair id fun q => { q with r := c.uid, prioOverride := some (a.pairPrio p) }) :=
        G.modPair_na a id (fun q => { q with r := c.uid, prioOverride := some (a.pairPrio p) })
          (fun _ => rfl) (fun _ => rfl)
      split
      · rename_i hsel
        have hs : (a.modPair id fun q => { q with r := c.uid, prioOverride := some (a.pairPrio p) }).selected
            = some id := by simpa using hsel
        have h2 := select_same_g (wa := false) _ id hs
        rcases hk : Agent.select (a.modPair id fun q => { q with r := c.uid, prioOverride := some (a.pairPrio p) }) id
          with ⟨a2, o2⟩
        rw [hk] at h2
        simp only []
        exact h1.trans h2
      · exact h1
    · exact G.refl _ _ _ _ _
  · exact G.refl _ _ _ _ _

theorem replaceRemoteInPairs_g (a : Agent) (old c : Cand) :
    G false none none none a (a.replaceRemoteInPairs old c).1 := by
  rw [C03.replaceRemoteInPairs_eq]
  apply IceProofs.List.foldl_inv (fun (acc : Agent × List Out) => G false none none none a acc.1)
  · exact G.refl _ _ _ _ _
  · intro b id hb
    obtain ⟨b1, o⟩ := b
    exact hb.trans (replStep_g old c b1 o id)

theorem supStep_g (c : Cand) (a : Agent) (o : List Out) (old : Cand) :
    G false none none none a (C03.supStep c (a, o) old).1 := by
  have h := replaceRemoteInPairs_g a old c
  unfold C03.supStep
  rcases hk : a.replaceRemoteInPairs old c with ⟨a1, o1⟩
  rw [hk] at h
  simp only []
  exact h.trans (b := a1) (G.of_eq_na rfl rfl (fun _ h => h) rfl)

theorem pairStep_g (c : Cand) (a : Agent) (l : Cand) : G false none none none a (C03.pairStep c a l) := by
  unfold C03.pairStep
  split
  · exact G.refl _ _ _ _ _
  · exact addPair_g a l c

theorem addRemoteCandidate_g0 (a : Agent) (c : Cand) : G false none none none a (a.addRemoteCandidate c).1 := by
  rw [C03.addRemoteCandidate_eq]
  split
  · exact G.refl _ _ _ _ _
  · split
    · exact G.refl _ _ _ _ _
    · simp only []
      generalize (List.foldl copyActivity { c with uid := a.nextUid } _) = c'
      generalize (if ({ c with uid := a.nextUid } : Cand).ty == 3 then [] else _) = replaced
      have h0 : G false none none none a ({ a with nextUid := a.nextUid + 1, remotes := a.remotes ++ [c'] } : Agent) :=
        G.of_eq_na rfl rfl (fun _ h => h) rfl
      have h1 : G false none none none a (replaced.foldl (C03.supStep c')
            (({ a with nextUid := a.nextUid + 1, remotes := a.remotes ++ [c'] } : Agent), [])).1 := by
        apply IceProofs.List.foldl_inv (fun (acc : Agent × List Out) => G false none none none a acc.1)
        · exact h0
        · intro b old hb
          obtain ⟨b1, o⟩ := b
          exact hb.trans (supStep_g c' b1 o old)
      generalize (replaced.foldl (C03.supStep c')
            (({ a with nextUid := a.nextUid + 1, remotes := a.remotes ++ [c'] } : Agent), [])) = res at h1 ⊢
      obtain ⟨a1, o1⟩ := res
      have h2 : G false none none none a ({ a1 with remotes := a1.remotes.filter fun (e : Cand) =>
          !(replaced.any fun (x : Cand) => x.uid == e.uid) } : Agent) :=
        h1.trans (b := a1) (G.of_eq_na rfl rfl (fun _ h => h) rfl)
      simp only []
      generalize ({ a1 with remotes := a1.remotes.filter fun (e : Cand) =>
          !(replaced.any fun (x : Cand) => x.uid == e.uid) } : Agent) = a2 at h2 ⊢
      have h3 : ∀ (ls : List Cand) (b : Agent), G false none none none a b →
          G false none none none a (ls.foldl (C03.pairStep c') b) := by
        intro ls
        induction ls with
        | nil => intro b hb; exact hb
        | cons l ls ih =>
          intro b hb
          exact ih _ (hb.trans (pairStep_g c' b l))
      exact (h3 _ a2 h2).trans (G.of_eq_na rfl rfl (fun _ h => h) rfl)

/-! ## the addresses, from C06's id stability -/

theorem pairById_of_mem_nodup {a : Agent} (hn : (idsOf a).Nodup) {p : Pair} (hp : p ∈ a.checklist) :
    a.pairById p.id = some p := by
  cases hf : a.pairById p.id with
  | none =>
    unfold Agent.pairById at hf
    have := List.find?_eq_none.1 hf p hp
    simp at this
  | some q =>
    rw [pair_unique hn hf hp rfl]

theorem addrs_stable {a a' : Agent} (h : Inv a) (h' : Inv a') (s : StableTo a a') (hc : a'.closed = false)
    (hf : ∀ p ∈ a.checklist, ∃ p' ∈ a'.checklist, p'.id = p.id) :
    ∀ id x, pairAddrs a id = some x → pairAddrs a' id = some x := by
  intro id x hx
  obtain ⟨p, l, r, hp, hl, hr, rfl⟩ := pairAddrs_some hx
  obtain ⟨hpm, hpid⟩ := pairById_some hp
  obtain ⟨p', hp', hid'⟩ := hf p hpm
  obtain ⟨_, l0, r0, l', r', e1, e2, e3, e4, e5, _, e7⟩ := s.pairs h h' hpm hp' hid' hc
  rw [hl] at e1; rw [hr] at e2
  cases e1; cases e2
  have hb : a'.pairById id = some p' := by
    have := pairById_of_mem_nodup h'.idsNodup hp'
    rw [hid', hpid] at this; exact this
  rw [pairAddrs_of hb e3 e4]
  have : l'.addr = l.addr := by
    have := congrArg Cand.addr e5
    simpa [core] using this
  rw [this, e7]

theorem stable_addRemoteCandidate {a : Agent} (hi : Inv a) (c : Cand) (hc : a.closed = false) :
    StableTo a (a.addRemoteCandidate c).1 :=
  Chain.preserves (e := .addRemote 0 c) (w := false) (fun x => StableTo a x)
    (fun _ _ hb hs t => stable_trans hi hb hs t) hi (StableTo.refl hi)
    (Chain.addRemoteCandidate hi c hc (Or.inr ⟨0, rfl⟩))

theorem addRemoteCandidate_closed (a : Agent) (c : Cand) : (a.addRemoteCandidate c).1.closed = a.closed :=
  congrArg Core.closed (core_addRemoteCandidate a c)

theorem addRemoteCandidate_g {a : Agent} (hi : Inv a) (c : Cand) (hc : a.closed = false) :
    G true none none none a (a.addRemoteCandidate c).1 := by
  have h0 := addRemoteCandidate_g0 a c
  refine ⟨h0.npid, h0.sel, h0.pairs, h0.fwd, fun _ => ?_, h0.pend, h0.log⟩
  exact addrs_stable hi (hi.addRemoteCandidate c hc).1 (stable_addRemoteCandidate hi c hc)
    ((addRemoteCandidate_closed a c).trans hc) h0.fwd

end IceProofs.C20S
