import IceProofs.TcpMuxView
import IceSpec.C15View
/-!
# C15: every line the model prints is read back as the typed line of `IceSpec.C15.View`
-/
namespace IceProofs.TcpMuxView
open IceSpec.LineProto IceProofs.LineProto IceSpec.C15 IceSpec.C15.View IceModel.TcpMux

theorem showId_free (id len : Nat) (c : Char) (hc : c.isDigit = false) (hm : c ≠ '-') : c ∉ (showId id len).toList := by
  unfold showId
  split
  · have : "-".toList = ['-'] := by decide
    rw [this]; simpa using hm
  · exact not_mem_toString _ _ hc

theorem newReplies_ids (old new : List Tcp) : ∀ e ∈ newReplies old new, ∃ id len, e.2 = showId id len := by
  intro e he
  unfold newReplies at he
  simp only [List.mem_flatMap, List.mem_range] at he
  obtain ⟨k, _, he⟩ := he
  split at he
  · simp only [List.mem_map] at he
    obtain ⟨pl, _, rfl⟩ := he
    exact ⟨pl.1, pl.2, rfl⟩
  · cases he

theorem obsOf_wf (old : List Tcp) (s : State) (r : ORes) : (obsOf old s r).wf = true := by
  rw [wf_iff]
  refine ⟨by simp [obsOf, ledgerList], ?_⟩
  intro e he
  obtain ⟨id, len, h⟩ := newReplies_ids old s.tcps e he
  rw [h]
  exact ⟨showId_free _ _ _ (by decide) (by decide), showId_free _ _ _ (by decide) (by decide),
    showId_free _ _ _ (by decide) (by decide)⟩

theorem fmtAddr_free (a : Addr) : ' ' ∉ (fmtAddr a).toList := by
  intro h
  rcases mem_joinC _ _ _ h with h | ⟨s, hs, hd⟩
  · exact absurd h (by decide)
  · simp only [List.mem_cons, List.not_mem_nil, or_false] at hs
    rcases hs with rfl | rfl <;> exact not_mem_toString _ _ (by decide) hd

theorem parseRes_handle (h : Nat) : parseRes ["h" ++ toString h] = .handle h := by
  have e : ("h" ++ toString h).toList = 'h' :: (toString h).toList := by simp [String.toList_append]
  have n1 : ∀ w : String, w.toList.head? ≠ some 'h' → "h" ++ toString h ≠ w := by
    intro w hw he; rw [← he, e] at hw; simp at hw
  have a1 := n1 "ok" (by decide)
  have a2 := n1 "noop" (by decide)
  have a3 := n1 "empty" (by decide)
  have b : ∀ x : Nat, toString x = x.repr := fun _ => rfl
  simp only [b] at a1 a2 a3
  simp [parseRes, parseRes1, tagged, dropPre, parseH]
  rw [if_neg a1, if_neg a2, if_neg a3, ← Nat.repr_eq_ofList_toDigits, Nat.toNat?_repr]

theorem parseRes_wrote (n : Nat) : parseRes ["n=" ++ toString n] = .wrote (some n) := by
  have e : ("n=" ++ toString n).toList = 'n' :: '=' :: (toString n).toList := by simp [String.toList_append]
  have n1 : ∀ w : String, (w.toList.drop 1).head? ≠ some '=' → "n=" ++ toString n ≠ w := by
    intro w hw he; rw [← he, e] at hw; simp at hw
  have a1 := n1 "ok" (by decide)
  have a2 := n1 "noop" (by decide)
  have a3 := n1 "empty" (by decide)
  have b : ∀ x : Nat, toString x = x.repr := fun _ => rfl
  simp only [b] at a1 a2 a3
  simp [parseRes, parseRes1, tagged_append, canonNat, toNat?_toString]
  rw [if_neg a1, if_neg a2, if_neg a3]

theorem parseRes_pkt (a : Addr) (id : String) (len : Nat) :
    parseRes ["pkt", fmtAddr a, id, toString len] = .pkt a.ip a.port id len := by
  have hs : splitC (fmtAddr a) ':' = [toString a.ip, toString a.port] := by
    unfold fmtAddr
    apply splitC_joinC _ _ (by simp)
    intro s hs
    simp only [List.mem_cons, List.not_mem_nil, or_false] at hs
    rcases hs with rfl | rfl <;> exact not_mem_toString _ _ (by decide)
  simp only [parseRes, List.take]
  rw [if_neg (by simp)]
  simp [parsePkt, hs, toNat?_toString, canonNat]

/-- the parser reads from the printed result tokens the typed result of the view -/
theorem parseRes_resToks (op : Op) (r : Res) (hr : r ≠ .bad) : parseRes (resToks op r) = oresOf op r := by
  cases r with
  | bad => exact absurd rfl hr
  | ok => cases op <;> simp only [resToks, fmtRes, oresOf] <;> decide
  | refused => cases op <;> simp only [resToks, fmtRes, oresOf] <;> decide
  | noop => cases op <;> simp only [resToks, fmtRes, oresOf] <;> decide
  | already => cases op <;> simp only [resToks, fmtRes, oresOf] <;> decide
  | errClosed => cases op <;> simp only [resToks, fmtRes, oresOf] <;> decide
  | empty => cases op <;> simp only [resToks, fmtRes, oresOf] <;> decide
  | sent n =>
    have : resToks op (.sent n) = ["sent", toString n] := by cases op <;> rfl
    rw [this]; unfold parseRes
    rw [if_neg (show ¬ (List.take 2 ["sent", toString n] = ["end", "ok"]) from
      fun h => absurd (List.cons.inj h).1 (by decide))]
    rfl
  | handle h =>
    have : resToks op (.handle h) = ["h" ++ toString h] := by cases op <;> rfl
    rw [this, parseRes_handle]; rfl
  | wrote n =>
    have : resToks op (.wrote n) = ["n=" ++ toString n] := by cases op <;> rfl
    rw [this, parseRes_wrote]; rfl
  | pkt p =>
    have : resToks op (.pkt p) = fmtRes (.pkt p) := by cases op <;> rfl
    rw [this]
    simp only [fmtRes, oresOf]
    cases he : p.err with
    | none => simp only [parseRes_pkt]
    | some e =>
      unfold parseRes
      rw [if_neg (show ¬ (List.take 2 [fmtErr e, fmtAddr p.src] = ["end", "ok"]) from
        fun h => absurd (List.cons.inj h).1 (by cases e <;> decide))]

theorem resToks_free (op : Op) (r : Res) : ∀ t ∈ resToks op r, ' ' ∉ t.toList := by
  have hlit : ∀ w : String, w.toList.contains ' ' = false → ∀ t ∈ [w], ' ' ∉ t.toList := by
    intro w hw t ht; simp only [List.mem_singleton] at ht; subst ht; simpa using hw
  have key : ∀ t ∈ fmtRes r, ' ' ∉ t.toList := by
    cases r with
    | ok => exact hlit _ (by decide)
    | refused => exact hlit _ (by decide)
    | noop => exact hlit _ (by decide)
    | bad => exact hlit _ (by decide)
    | already => exact hlit _ (by decide)
    | errClosed => exact hlit _ (by decide)
    | empty => exact hlit _ (by decide)
    | sent n =>
      intro t ht
      simp only [fmtRes, List.mem_cons, List.not_mem_nil, or_false] at ht
      rcases ht with rfl | rfl
      · decide
      · exact not_mem_toString _ _ (by decide)
    | handle h =>
      intro t ht
      simp only [fmtRes, List.mem_singleton] at ht
      subst ht
      simp only [String.toList_append, List.mem_append, not_or]
      exact ⟨by decide, not_mem_toString _ _ (by decide)⟩
    | wrote n =>
      intro t ht
      simp only [fmtRes, List.mem_singleton] at ht
      subst ht
      simp only [String.toList_append, List.mem_append, not_or]
      exact ⟨by decide, not_mem_toString _ _ (by decide)⟩
    | pkt p =>
      intro t ht
      simp only [fmtRes] at ht
      cases he : p.err with
      | none =>
        simp only [he, List.mem_cons, List.not_mem_nil, or_false] at ht
        rcases ht with rfl | rfl | rfl | rfl
        · decide
        · exact fmtAddr_free _
        · exact showId_free _ _ _ (by decide) (by decide)
        · exact not_mem_toString _ _ (by decide)
      | some e =>
        simp only [he, List.mem_cons, List.not_mem_nil, or_false] at ht
        rcases ht with rfl | rfl
        · cases e <;> decide
        · exact fmtAddr_free _
  cases op <;> cases r <;> first | exact key | exact hlit _ (by decide)

theorem parseLine_printedLine (s : State) (op : Op) : parseLine (printedLine s op) = lineOf s op := by
  unfold printedLine lineOf
  cases hr : (step s op).2 with
  | bad => rfl
  | _ =>
    simp only
    rw [parseLine_printObs _ _ (obsOf_wf _ _ _) (resToks_free _ _), parseRes_resToks _ _ (by simp)]
    rfl

theorem parseLine_printedStart (cfg : Config) :
    parseLine (printedStart cfg) = .obs (obsOf [] (init cfg) .ok) := by
  unfold printedStart
  rw [parseLine_printObs _ _ (obsOf_wf _ _ _) (by decide)]
  rfl

theorem parseLine_printedEnd (s : State) : parseLine (printedEnd s) = endLine s := by
  unfold printedEnd endLine
  show parseLine (printObs (if allDown (run s (endOps s)) = true then ["end", "ok"] else ["end", "LEAK"]) _) =
    Line.obs (obsOf s.tcps (run s (endOps s)) (if allDown (run s (endOps s)) = true then ORes.endOk else ORes.other))
  cases allDown (run s (endOps s))
  · rw [parseLine_printObs _ _ (obsOf_wf _ _ _) (by decide)]; rfl
  · rw [parseLine_printObs _ _ (obsOf_wf _ _ _) (by decide)]; rfl

theorem verdictsL_printedFrom (m : Mon) (s : State) (ops : List Op) (tail : List (MOp × String)) (tail' : List (MOp × Line))
    (ht : ∀ m', verdictsL m' tail = verdicts m' tail') :
    verdictsL m (printedFrom s ops ++ tail) = verdicts m (linesFrom s ops ++ tail') := by
  induction ops generalizing m s with
  | nil => exact ht m
  | cons op ops ih =>
    simp only [printedFrom, linesFrom, List.cons_append, verdictsL, verdicts, observeL, parseLine_printedLine]
    rw [ih]

/-- the string monitor on the printed trace gives the verdicts of the typed monitor on the typed trace -/
theorem verdictsL_printedTrace (cfg : Config) (ops : List Op) (withEnd : Bool) :
    verdictsL {} (printedTrace cfg ops withEnd) = verdicts {} (traceOf cfg ops withEnd) := by
  unfold printedTrace traceOf
  show (observeL {} _ (printedStart cfg)).2 :: verdictsL (observeL {} _ (printedStart cfg)).1 _ =
    (observeT {} _ _).2 :: verdicts (observeT {} _ _).1 _
  unfold observeL
  rw [parseLine_printedStart]
  congr 1
  apply verdictsL_printedFrom
  intro m'
  cases withEnd
  · rfl
  · simp [verdictsL, verdicts, observeL, parseLine_printedEnd]

end IceProofs.TcpMuxView
