import IceProofs.Sys2C01LiveProgPing
import IceProofs.Sys2C01LiveProgReq
/-!
# C01 liveness, layer 2 — PROGRESS lemmas for one agent (every state, every parameter)

* a tick that runs `pingAll` emits an ordinary check on every waiting / in-progress pair under its request
  budget whose ends resolve, and records the transaction (`pingAll_emits`);
* the controlling agent nominates (`cc_cases`, `nominate_emits`);
* an authenticated, non-conflicting Binding request from a source that resolves is answered with a success
  response (`request_answered`); on a full controlled agent a USE-CANDIDATE request selects the pair or marks it
  and triggers a check of its own (`request_nominates'`);
* a success response that matches a live transaction validates the pair and, for a nomination, selects it
  (`response_validates`).
-/
namespace IceProofs.C01Live
open IceModel.AgentCore IceProofs.C03 IceProofs.Agent IceProofs.C01Live.Prog

/-- a Binding request as agent `a` sends it (`uc` = USE-CANDIDATE), without nomination value -/
structure IsReq (a : Agent) (uc : Bool) (m : Msg) : Prop where
  cls : m.cls = 0
  method : m.method = 1
  user : m.user = some (a.remoteUfrag ++ ":" ++ a.localUfrag)
  key : m.key = some a.remotePwd
  role : m.role = some (a.controlling, a.tieBreaker)
  nom : m.nom = none
  uc : m.useCand = uc

/-- the transaction `sendRequest` records for a check without nomination value -/
def pendOf (tid f t net : Nat) (uc : Bool) (now : Nat) : Pending :=
  { tid := tid, src := f, dest := t, net := net, useCand := uc, nom := none, ts := now }

/-- the success response to request `m` as agent `a` sends it -/
def respMsg (a : Agent) (m : Msg) : Msg := { cls := 2, tid := m.tid, key := some a.localPwd }

/-! ## sending -/

/-- the request of a state with the same credentials and role is a request of `a` -/
theorem isReq_of_core {a b : Agent} (hc : b.core = a.core) (l : Cand) (uc : Bool) : IsReq a uc (srMsg b l uc none) := by
  have h1 : b.remoteUfrag = a.remoteUfrag := congrArg Core.remoteUfrag hc
  have h2 : b.localUfrag = a.localUfrag := congrArg Core.localUfrag hc
  have h3 : b.remotePwd = a.remotePwd := congrArg Core.remotePwd hc
  have h4 : b.controlling = a.controlling := congrArg Core.controlling hc
  have h5 : b.tieBreaker = a.tieBreaker := congrArg Core.tieBreaker hc
  refine ⟨rfl, rfl, ?_, ?_, ?_, rfl, rfl⟩
  · show some (b.remoteUfrag ++ ":" ++ b.localUfrag) = _; rw [h1, h2]
  · show some b.remotePwd = _; rw [h3]
  · show some (b.controlling, b.tieBreaker) = _; rw [h4, h5]

theorem sendRequest_emits (a : Agent) (now : Nat) (l r : Cand) (uc : Bool) (hp : PendOK a) :
    ∃ m, (a.sendRequest now l r uc none).2 = [Out.dgram l.addr r.addr m] ∧ IsReq a uc m ∧
      m.tid = 2 * a.nextTid + a.tag ∧
      (a.sendRequest now l r uc none).1.pending.find? (·.tid == 2 * a.nextTid + a.tag)
        = some (pendOf (2 * a.nextTid + a.tag) l.addr r.addr r.net uc now) :=
  ⟨srMsg a l uc none, sendRequest_snd a now l r uc none, ⟨rfl, rfl, rfl, rfl, rfl, rfl, rfl⟩, rfl,
    sendRequest_find_new a now l r uc none hp⟩

/-! ## the tick -/

/-- `pingAllCandidates`: a listed pair in state Waiting / InProgress, within its request budget, whose ends resolve,
gets an ordinary check; the transaction is pending afterwards. -/
theorem pingAll_emits (a : Agent) (now : Nat) (hi : IdsOK a) (hp : PendOK a) (p0 : Pair) (hp0 : p0 ∈ a.checklist)
    (hst : p0.state = .waiting ∨ p0.state = .inProgress) (hb : p0.reqCount ≤ a.cfg.maxBindingRequests)
    (l r : Cand) (hl : a.localOf p0.l = some l) (hr : a.remoteOf p0.r = some r) :
    ∃ m, Out.dgram l.addr r.addr m ∈ (a.pingAll now).2 ∧ IsReq a false m ∧
      (a.pingAll now).1.pending.find? (·.tid == m.tid) = some (pendOf m.tid l.addr r.addr r.net false now) := by
  obtain ⟨b1, l1, hc, hla, hout, hpend⟩ := pingAll_fire a now hi hp p0 hp0 hst hb l r hl hr
  refine ⟨srMsg b1 l1 false none, hla ▸ hout, isReq_of_core hc l1 false, ?_⟩
  have e : srPend b1 now l1 r false none = pendOf (srMsg b1 l1 false none).tid l.addr r.addr r.net false now := by
    rw [← hla]; rfl
  rw [← e]
  exact hpend

theorem cc_eq1 (a : Agent) (now : Nat) (hc : a.controlling = true) (hs : a.selected = none) {id : Nat} {p : Pair}
    (hn : a.nominatedPair = some id) (hp : a.pairById id = some p) : a.contactCandidates now = a.nominate now p := by
  unfold Agent.contactCandidates
  simp [hc, hs, hn, hp]

theorem cc_eq2 (a : Agent) (now : Nat) (hc : a.controlling = true) (hs : a.selected = none) {id : Nat}
    (hn : a.nominatedPair = some id) (hp : a.pairById id = none) : a.contactCandidates now = (a, []) := by
  unfold Agent.contactCandidates
  simp [hc, hs, hn, hp]

theorem cc_eq3 (a : Agent) (now : Nat) (hc : a.controlling = true) (hs : a.selected = none)
    (hn : a.nominatedPair = none)
    (h : ∀ p l r, a.bestValid = some p → a.localOf p.l = some l → a.remoteOf p.r = some r →
      (a.nominatable now l && a.nominatable now r) = false) : a.contactCandidates now = a.pingAll now := by
  unfold Agent.contactCandidates
  simp only [hc, hs, hn, if_true, Option.isSome_none, Bool.false_eq_true, if_false, Option.bind_none]
  split
  · rename_i p hb
    split
    · rename_i l r hl hr
      rw [h p l r hb hl hr]
      simp
    · rfl
  · rfl

theorem cc_eq4 (a : Agent) (now : Nat) (hc : a.controlling = true) (hs : a.selected = none)
    (hn : a.nominatedPair = none) {p : Pair} {l r : Cand} (hb : a.bestValid = some p) (hl : a.localOf p.l = some l)
    (hr : a.remoteOf p.r = some r) (hnm : (a.nominatable now l && a.nominatable now r) = true) :
    a.contactCandidates now =
      ({ (a.modPair p.id fun p => { p with nominated := true }) with nominatedPair := some p.id } : Agent).nominate now p := by
  unfold Agent.contactCandidates
  simp only [hc, hs, hn, hb, hl, hr, hnm, if_true, Option.isSome_none, Bool.false_eq_true, if_false, Option.bind_none]

/-- what `ContactCandidates` of a controlling agent without a selected pair does -/
theorem cc_cases (a : Agent) (now : Nat) (hc : a.controlling = true) (hs : a.selected = none) :
    (∃ id p, a.nominatedPair = some id ∧ a.pairById id = some p ∧ a.contactCandidates now = a.nominate now p)
    ∨ (∃ id, a.nominatedPair = some id ∧ a.pairById id = none ∧ a.contactCandidates now = (a, []))
    ∨ (a.nominatedPair = none ∧ a.contactCandidates now = a.pingAll now ∧
        ∀ p l r, a.bestValid = some p → a.localOf p.l = some l → a.remoteOf p.r = some r →
          (a.nominatable now l && a.nominatable now r) = false)
    ∨ (∃ p l r, a.nominatedPair = none ∧ a.bestValid = some p ∧ a.localOf p.l = some l ∧ a.remoteOf p.r = some r ∧
        (a.nominatable now l && a.nominatable now r) = true ∧
        a.contactCandidates now =
          ({ (a.modPair p.id fun p => { p with nominated := true }) with nominatedPair := some p.id } : Agent).nominate now p) := by
  cases hn : a.nominatedPair with
  | some id =>
    cases hp : a.pairById id with
    | some p => exact Or.inl ⟨id, p, rfl, hp, cc_eq1 a now hc hs hn hp⟩
    | none => exact Or.inr (Or.inl ⟨id, rfl, hp, cc_eq2 a now hc hs hn hp⟩)
  | none =>
    refine Or.inr (Or.inr ?_)
    cases hb : a.bestValid with
    | none => exact Or.inl ⟨rfl, cc_eq3 a now hc hs hn (fun p l r h => by rw [hb] at h; cases h), fun p l r h => by cases h⟩
    | some p =>
      cases hl : a.localOf p.l with
      | none =>
        exact Or.inl ⟨rfl, cc_eq3 a now hc hs hn (fun p' l r h h1 => by rw [hb] at h; cases h; rw [hl] at h1; cases h1),
          fun p' l r h h1 => by cases h; rw [hl] at h1; cases h1⟩
      | some l =>
        cases hr : a.remoteOf p.r with
        | none =>
          exact Or.inl ⟨rfl, cc_eq3 a now hc hs hn (fun p' l r h h1 h2 => by rw [hb] at h; cases h; rw [hr] at h2; cases h2),
            fun p' l' r h h1 h2 => by cases h; rw [hr] at h2; cases h2⟩
        | some r =>
          cases hnm : (a.nominatable now l && a.nominatable now r) with
          | false =>
            have key : ∀ p' l' r', a.bestValid = some p' → a.localOf p'.l = some l' → a.remoteOf p'.r = some r' →
                (a.nominatable now l' && a.nominatable now r') = false := by
              intro p' l' r' h h1 h2
              rw [hb] at h; cases h; rw [hl] at h1; rw [hr] at h2; cases h1; cases h2; exact hnm
            exact Or.inl ⟨rfl, cc_eq3 a now hc hs hn key, fun p' l' r' h => key p' l' r' (hb ▸ h)⟩
          | true =>
            exact Or.inr ⟨p, l, r, rfl, rfl, hl, hr, hnm, cc_eq4 a now hc hs hn hb hl hr hnm⟩

/-- `bestValid` returns a listed, succeeded pair; and it returns one whenever a succeeded pair is listed -/
theorem bestBy_step_some (a : Agent) (ok : Pair → Bool) (acc : Option Pair) (x p : Pair)
    (h : (if !ok x then acc else
      match acc with
      | none => some x
      | some b => if a.pairPrio b < a.pairPrio x then some x else some b) = some p) :
    acc = some p ∨ (p = x ∧ ok x = true) := by
  cases hx : ok x with
  | false => rw [hx] at h; exact Or.inl h
  | true =>
    rw [hx] at h
    simp only [Bool.not_true, Bool.false_eq_true, if_false] at h
    cases acc with
    | none => simp only [Option.some.injEq] at h; exact Or.inr ⟨h.symm, rfl⟩
    | some b =>
      simp only [] at h
      split at h
      · simp only [Option.some.injEq] at h; exact Or.inr ⟨h.symm, rfl⟩
      · exact Or.inl h

theorem bestBy_fold_some (a : Agent) (ok : Pair → Bool) (l : List Pair) (acc : Option Pair) (p : Pair)
    (h : l.foldl (fun best p =>
      if !ok p then best else
      match best with
      | none => some p
      | some b => if a.pairPrio b < a.pairPrio p then some p else some b) acc = some p) :
    acc = some p ∨ (p ∈ l ∧ ok p = true) := by
  induction l generalizing acc with
  | nil => exact Or.inl h
  | cons x xs ih =>
    rw [List.foldl_cons] at h
    rcases ih _ h with h1 | h1
    · rcases bestBy_step_some a ok acc x p h1 with h2 | h2
      · exact Or.inl h2
      · exact Or.inr ⟨by simp [h2.1], h2.1 ▸ h2.2⟩
    · exact Or.inr ⟨by simp [h1.1], h1.2⟩

theorem bestBy_fold_isSome (a : Agent) (ok : Pair → Bool) (l : List Pair) (acc : Option Pair)
    (h : acc.isSome = true ∨ ∃ p ∈ l, ok p = true) :
    (l.foldl (fun best p =>
      if !ok p then best else
      match best with
      | none => some p
      | some b => if a.pairPrio b < a.pairPrio p then some p else some b) acc).isSome = true := by
  induction l generalizing acc with
  | nil =>
    rcases h with h | ⟨p, hp, _⟩
    · exact h
    · cases hp
  | cons x xs ih =>
    rw [List.foldl_cons]
    apply ih
    rcases h with h | ⟨p, hp, hok⟩
    · left
      cases acc with
      | none => cases h
      | some b =>
        simp only []
        repeat' split
        all_goals rfl
    · rcases List.mem_cons.mp hp with rfl | hp'
      · left
        simp only [hok, Bool.not_true, Bool.false_eq_true, if_false]
        cases acc with
        | none => rfl
        | some b => simp only []; split <;> rfl
      · exact Or.inr ⟨p, hp', hok⟩

theorem bestValid_some {a : Agent} {p : Pair} (h : a.bestValid = some p) : p ∈ a.checklist ∧ p.state = .succeeded := by
  rcases bestBy_fold_some a (·.state == .succeeded) a.checklist none p h with h1 | h1
  · cases h1
  · exact ⟨h1.1, by simpa using h1.2⟩

theorem bestValid_isSome {a : Agent} {p : Pair} (hp : p ∈ a.checklist) (hs : p.state = .succeeded) :
    a.bestValid.isSome = true :=
  bestBy_fold_isSome a (·.state == .succeeded) a.checklist none (Or.inr ⟨p, hp, by simp [hs]⟩)

theorem nominate_eq (a : Agent) (now : Nat) (p : Pair) (l r : Cand) (hl : a.localOf p.l = some l)
    (hr : a.remoteOf p.r = some r) : a.nominate now p = a.sendRequest now l r true none := by
  unfold Agent.nominate
  rw [hl, hr]

/-- every candidate type 1..4 is nominatable once the longest acceptance wait has passed since the selector started -/
theorem nominatable_of_time (a : Agent) (now : Nat) (c : Cand) (hty : 1 ≤ c.ty ∧ c.ty ≤ 4)
    (ht : a.selStart + max (max a.cfg.hostWait a.cfg.srflxWait) (max a.cfg.prflxWait a.cfg.relayWait) ≤ now) :
    a.nominatable now c = true := by
  unfold Agent.nominatable Config.waitFor
  have : c.ty = 1 ∨ c.ty = 2 ∨ c.ty = 3 ∨ c.ty = 4 := by omega
  rcases this with h | h | h | h <;> simp [h] <;> omega

/-! ## an authenticated request -/

/-- the source of a request resolves: it is a known remote candidate, or the remote IP filter lets a
peer-reflexive candidate through -/
def SrcOK (a : Agent) (l : Cand) (src : Nat) : Prop :=
  (a.findRemote l.net src).isSome = true ∨ a.cfg.blockedIPs.contains (ipOf src) = false

/-- an authenticated Binding request without role conflict from a resolvable source is answered with a success
response from the receiving local candidate's address to the source address. -/
theorem request_answered (a : Agent) (now : Nat) (l : Cand) (src : Nat) (m : Msg) (ha : AuthRequest a m)
    (hnc : NoConflict a m) (hsrc : SrcOK a l src) :
    Out.dgram l.addr src (respMsg a m) ∈ (a.handleInbound now l src m).2 := by
  rcases hiDisc_spec a l src m with ⟨_, hf, hb⟩ | ⟨a1, r, hd, D⟩
  · rcases hsrc with h | h
    · rw [hf] at h; cases h
    · rw [hb] at h; cases h
  · have hcc : a1.controlling = a.controlling := congrArg Core.controlling D.disc.core
    have hpw : a1.localPwd = a.localPwd := congrArg Core.localPwd D.disc.core
    obtain ⟨_, _, hraddr⟩ := findRemote_some D.find
    rw [handleInbound_req_resolved a now l src m ha hnc hd hcc]
    cases hc : a1.controlling
    · rw [hiReq_cld _ _ _ _ _ _ hc]
      have := (cldHandleRequest_frame a1 now m l r).2.2
      rw [hraddr, hpw] at this
      exact List.mem_append_right _ this
    · rw [hiReq_ctl _ _ _ _ _ _ hc]
      obtain ⟨_, o', ho⟩ := ctlHandleRequest_selected a1 now m l r
      rw [ho, sendSuccess_snd, hraddr, hpw]
      exact List.mem_append_right _ (List.mem_append_left _ (List.mem_singleton.mpr rfl))

/-- a full controlled agent receiving USE-CANDIDATE (without nomination value): afterwards a pair is selected, or
the pair the request arrived on is marked `nomOnSuccess` and a check of its own is in flight and pending.

(`request_nominates` without the three uid hypotheses is FALSE: when no pair exists for `(l, r)` the handler creates
one with ends `l.uid`, `r.uid`; `findPair l rc` finds it afterwards only if these uids resolve to candidates `equal`
to `l` / `r` — e.g. `a.locals = []` refutes it.  `hl`, `hru`, `hfresh` follow from uid uniqueness and `uid < nextUid`.) -/
theorem request_nominates' (a : Agent) (now : Nat) (l : Cand) (src : Nat) (m : Msg) (ha : AuthRequest a m)
    (hnc : NoConflict a m) (hsrc : SrcOK a l src) (hfull : a.cfg.lite = false) (hctl : a.controlling = false)
    (huc : m.useCand = true) (hnom : m.nom = none) (hinv : LInv a)
    (hl : ∃ l', a.localOf l.uid = some l' ∧ l'.equal l = true)
    (hru : ∀ c ∈ a.remotes, a.remoteOf c.uid = some c)
    (hfresh : a.remoteOf a.nextUid = none) :
    (a.handleInbound now l src m).1.selected.isSome = true ∨
    ∃ rc q mt, (a.handleInbound now l src m).1.findRemote l.net src = some rc ∧
      (a.handleInbound now l src m).1.findPair l rc = some q ∧ q.nomOnSuccess = true ∧ q.deferredNom = none ∧
      Out.dgram l.addr src mt ∈ (a.handleInbound now l src m).2 ∧ IsReq a false mt ∧
      (a.handleInbound now l src m).1.pending.find? (·.tid == mt.tid) = some (pendOf mt.tid l.addr src l.net false now) := by
  rcases hiDisc_spec a l src m with ⟨_, hf, hb⟩ | ⟨a1, r, hd, D⟩
  · rcases hsrc with h | h
    · rw [hf] at h; cases h
    · rw [hb] at h; cases h
  · have hcore : a1.core = a.core := D.disc.core
    have hcc : a1.controlling = a.controlling := congrArg Core.controlling hcore
    have hcfg : a1.cfg = a.cfg := congrArg Core.cfg hcore
    obtain ⟨hr1, hnet1, haddr1⟩ := findRemote_some D.find
    rw [handleInbound_req_resolved a now l src m ha hnc hd hcc, hiReq_cld _ _ _ _ _ _ (hcc.trans hctl)]
    have hl1 : ∃ l', a1.localOf l.uid = some l' ∧ l'.equal l = true := by
      unfold Agent.localOf at hl ⊢; rw [D.disc.locals]; exact hl
    have hr1' : ∃ r', a1.remoteOf r.uid = some r' ∧ r'.equal r = true := by
      rcases D.remotes with ⟨e1, hfa⟩ | ⟨_, hu, e1⟩
      · rw [e1]; exact ⟨r, hru r (findRemote_some hfa).1, Cand.equal_self r⟩
      · refine ⟨r, ?_, Cand.equal_self r⟩
        unfold Agent.remoteOf findCand at hfresh ⊢
        rw [e1, List.find?_append, hu, hfresh]
        simp [hu]
    have hP1 : PendOK a1 := PendOK.of_eq D.disc.pending
      (congrArg Agent.nextTid D.disc.rest : (stripPairs a1).nextTid = (stripPairs a).nextTid)
      (congrArg Core.tag hcore) hinv.pendOK
    have hnd1 : NoDefer a1 := by
      obtain ⟨extra, he, hfresh'⟩ := D.disc.pairs
      intro p hp
      rw [he] at hp
      rcases List.mem_append.mp hp with hp | hp
      · exact hinv.noDefer p hp
      · rw [hfresh' p hp]
    rcases cldHandleRequest_nominates a1 now m l r (by rw [hcfg]; exact hfull) huc hnom hP1 hnd1 hl1 hr1' with
      hsel | ⟨q, b, hq, hq1, hq2, hbc, hout, hpend, hrem⟩
    · exact Or.inl hsel
    · right
      have hfr : (a1.cldHandleRequest now m l r).1.findRemote l.net src = some r := by
        have hfd := D.find
        unfold Agent.findRemote at hfd ⊢; rw [hrem]; exact hfd
      refine ⟨{ r with lastRecv := some now }, q, srMsg b l false none, ?_, ?_, hq1, hq2, ?_,
        isReq_of_core (hbc.trans hcore) l false, ?_⟩
      · rw [findRemote_seenRemoteRecv, hfr]
        simp
      · have := findPair_congr (a := (a1.cldHandleRequest now m l r).1)
          (b := (a1.cldHandleRequest now m l r).1.seenRemoteRecv r.uid now) rfl (seenRemoteRecv_candSame _ _ _)
          (l' := l) (l := l) rfl (r' := { r with lastRecv := some now }) (r := r) rfl
        exact this.trans hq
      · rw [← haddr1]
        exact List.mem_append_right _ hout
      · have e : srPend b now l r false none = pendOf (srMsg b l false none).tid l.addr src l.net false now := by
          rw [← haddr1, ← hnet1]; rfl
        rw [← e]
        exact hpend

/-! ## a matching success response -/

/-- a success response that verifies under the remote password, comes from a known remote candidate and matches
a live transaction sent from this local candidate to that source validates the pair `findPair l r`; a
USE-CANDIDATE transaction of a controlling agent selects it when nothing is selected; on a controlled agent a pair
marked `nomOnSuccess` (no deferred nomination value) gets selected unless a pair is selected already. -/
theorem response_validates (a : Agent) (now : Nat) (l : Cand) (src : Nat) (m : Msg) (r : Cand) (pd : Pending) (p : Pair)
    (hcls : m.cls = 2) (hmeth : m.method = 1) (hkey : m.key = some a.remotePwd)
    (hr : a.findRemote l.net src = some r) (hpd : a.pending.find? (·.tid == m.tid) = some pd)
    (hyoung : now - pd.ts < maxBindingRequestTimeout) (hnet : pd.net = l.net) (hdest : pd.dest = src)
    (hsrc : pd.src = l.addr) (hp : a.findPair l r = some p) :
    (∃ p' ∈ (a.handleInbound now l src m).1.checklist, p'.id = p.id ∧ p'.state = .succeeded)
    ∧ (a.controlling = true → pd.useCand = true → pd.nom = none → (a.handleInbound now l src m).1.selected.isSome = true)
    ∧ (a.controlling = false → p.nomOnSuccess = true → p.deferredNom = none →
        (a.handleInbound now l src m).1.selected.isSome = true) := by
  have hpd' := takePending_snd a now m.tid pd hpd hyoung
  rw [handleInbound_resp a now l src m r hcls hmeth hkey hr,
    handleSuccess_match a now m l r src pd p hpd' hnet hdest hsrc hp]
  have hfr := takePending_frame a now m.tid
  have hctl : (a.takePending now m.tid).1.controlling = a.controlling :=
    congrArg Core.controlling (core_takePending a now m.tid)
  generalize (a.takePending now m.tid).1 = A at hfr hctl ⊢
  have hpA : p ∈ A.checklist := by rw [hfr.1]; exact findPair_mem hp
  have hB : ∃ q ∈ (A.modPair p.id (hsMark pd)).checklist, q.id = p.id ∧ q.state = .succeeded := by
    refine ⟨hsMark pd p, ?_, rfl, rfl⟩
    have := mem_updPair_of_mem (id := p.id) (f := hsMark pd) hpA
    simp only [beq_self_eq_true, if_true] at this
    exact this
  refine ⟨?_, ?_, ?_⟩
  · exact succ_modPair p.id (Pair.gotResponse now pd.ts) (fun _ => rfl) (fun _ => rfl)
      (succ_hsFin _ p pd (succ_hsSel p pd hB))
  · intro hc hu hn
    exact (congrArg Option.isSome (hsFin_selected _ p pd _)).trans
      (hsSel_ctl_uc (A.modPair p.id (hsMark pd)) p pd (hctl.trans hc) hu hn)
  · intro hc hn hd
    exact (congrArg Option.isSome (hsFin_selected _ p pd _)).trans
      (hsSel_cld_nom (A.modPair p.id (hsMark pd)) p pd (hctl.trans hc) hn hd)

/-- a controlling agent gets a selected pair only by a success response to one of its USE-CANDIDATE transactions -/
theorem ctl_select_needs_uc (a : Agent) (now : Nat) (l : Cand) (src : Nat) (m : Msg) (hc : a.controlling = true)
    (hnc : AuthRequest a m → NoConflict a m)
    (h : (a.handleInbound now l src m).1.selected.isSome = true) :
    a.selected.isSome = true ∨ (m.cls = 2 ∧ ∃ pd ∈ a.pending, pd.tid = m.tid ∧ pd.useCand = true) := by
  rcases handleInbound_cases a now l src m with e | ⟨r, hcls, _, _, _, e⟩ | ⟨ha, e⟩ | ⟨r, _, e⟩
  · rw [e] at h; exact Or.inl h
  · rw [e] at h
    have h' : (a.handleSuccess now m l r src).1.selected.isSome = true := h
    rcases (handleSuccess_sel a now m l r src).2 with hs | ⟨pd, p, hpd, _, _, hr⟩
    · rw [hs] at h'; exact Or.inl h'
    · rcases hr with ⟨_, hu⟩ | ⟨hcf, _⟩
      · obtain ⟨hmem, htid⟩ := takePending_mem a now m.tid pd hpd
        exact Or.inr ⟨hcls, pd, hmem, htid, hu⟩
      · rw [hc] at hcf; cases hcf
  · rw [e] at h
    rcases hiDisc_spec a l src m with ⟨hd, _, _⟩ | ⟨a1, r, hd, D⟩
    · rw [hd] at h; exact Or.inl h
    · have hcc : a1.controlling = a.controlling := congrArg Core.controlling D.disc.core
      rw [hd] at h
      simp only [] at h
      rw [hiRole_noConflict a1 now l r m [] (NoConflict.of_ctl (hnc ha) hcc), hiReq_ctl _ _ _ _ _ _ (hcc.trans hc)] at h
      have h' : (a1.ctlHandleRequest now m l r).1.selected.isSome = true := h
      rw [(ctlHandleRequest_selected a1 now m l r).1, D.disc.selected] at h'
      exact Or.inl h'
  · rw [e] at h; exact Or.inl h

/-- the selection after inbound STUN is the old one or the pair the message arrived on, whose remote candidate has
just been heard -/
theorem handleInbound_selFresh (a : Agent) (now : Nat) (l : Cand) (src : Nat) (m : Msg) (hinv : LInv a)
    (hnc : AuthRequest a m → NoConflict a m) (hnet : l.net = 0) (id : Nat)
    (h : (a.handleInbound now l src m).1.selected = some id) :
    a.selected = some id ∨
    ∃ p r, (a.handleInbound now l src m).1.pairById id = some p ∧ (a.handleInbound now l src m).1.remoteOf p.r = some r ∧
      r.lastRecv = some now := by
  rcases handleInbound_cases a now l src m with e | ⟨r, _, _, _, hr, e⟩ | ⟨ha, e⟩ | ⟨r, _, e⟩
  · rw [e] at h; exact Or.inl h
  · rw [e] at h ⊢
    have h' : (a.handleSuccess now m l r src).1.selected = some id := h
    obtain ⟨hE, hs⟩ := handleSuccess_sel a now m l r src
    rcases hs with hs | ⟨pd, p, _, hfp, hsp, _⟩
    · left; rw [← hs]; exact h'
    · right
      have hid : id = p.id := by rw [hsp] at h'; exact (Option.some.inj h').symm
      subst hid
      have hrem : a.remoteOf p.r = some r := findPair_remote hinv.remOK.2 (findRemote_some hr).1 hfp
      obtain ⟨q', hq', _, _, hqr⟩ := hE.pairById (pairById_of_mem hinv.ids (findPair_mem hfp))
      have hrem' : (a.handleSuccess now m l r src).1.remoteOf q'.r = some r := by
        unfold Agent.remoteOf at hrem ⊢; rw [hE.remotes, hqr]; exact hrem
      obtain ⟨c', hc', hlr⟩ := remoteOf_heard _ r.uid now q'.r r hrem' rfl
      exact ⟨q', c', hq', hc', hlr⟩
  · rw [e] at h ⊢
    rcases hiDisc_spec a l src m with ⟨hd, _, _⟩ | ⟨a1, r, hd, D⟩
    · rw [hd] at h; exact Or.inl h
    · have hcc : a1.controlling = a.controlling := congrArg Core.controlling D.disc.core
      rw [hd] at h ⊢
      simp only [] at h ⊢
      rw [hiRole_noConflict a1 now l r m [] (NoConflict.of_ctl (hnc ha) hcc)] at h ⊢
      cases hc : a1.controlling
      · rw [hiReq_cld _ _ _ _ _ _ hc] at h ⊢
        have h' : (a1.cldHandleRequest now m l r).1.selected = some id := h
        obtain ⟨hE, hs, _⟩ := cldHandleRequest_frame a1 now m l r
        rcases hs with hs | hs
        · left; rw [← D.disc.selected, ← hs]; exact h'
        · right
          have hid : id = (cldPre a1 m l r).2 := by rw [hs] at h'; exact (Option.some.inj h').symm
          subst hid
          obtain ⟨hr1, hnet1, haddr1⟩ := findRemote_some D.find
          have hpw : a1.remotes.Pairwise (fun x y => x.addr ≠ y.addr) := by
            rcases D.remotes with ⟨e1, _⟩ | ⟨hfn, _, e1⟩
            · rw [e1]; exact hinv.remOK.2
            · rw [e1, List.pairwise_append]
              refine ⟨hinv.remOK.2, by simp, ?_⟩
              intro x hx y hy
              rw [List.mem_singleton] at hy; subst hy
              unfold Agent.findRemote at hfn
              rw [List.find?_eq_none] at hfn
              have hx0 := (hinv.remOK.1 x hx).1
              intro hxa
              apply hfn x hx
              simp [hx0, hnet, hxa, haddr1]
          obtain ⟨q, c, hq, hc', hcu⟩ := cldPre_pairById a1 m l r (D.ids hinv.ids) hpw hr1
          obtain ⟨q', hq', _, _, hqr⟩ := hE.pairById hq
          have hrem' : (a1.cldHandleRequest now m l r).1.remoteOf q'.r = some c := by
            unfold Agent.remoteOf at hc' ⊢
            rw [hE.remotes, (cldPre_frame a1 m l r).2.2.1, hqr]; exact hc'
          obtain ⟨c', hc'', hlr⟩ := remoteOf_heard _ r.uid now q'.r c hrem' hcu
          exact ⟨q', c', hq', hc'', hlr⟩
      · rw [hiReq_ctl _ _ _ _ _ _ hc] at h
        have h' : (a1.ctlHandleRequest now m l r).1.selected = some id := h
        rw [(ctlHandleRequest_selected a1 now m l r).1, D.disc.selected] at h'
        exact Or.inl h'
  · rw [e] at h; exact Or.inl h

end IceProofs.C01Live
