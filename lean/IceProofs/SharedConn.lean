import IceModel.SharedConn
import IceProofs.CountP
/-!
# Reference-counted handles: invariant, exactly-once close, sibling independence

All statements are about `IceModel.SharedConn` only; any number of handles, any operation sequence.
-/
namespace IceProofs.SharedConn
open IceModel.SharedConn IceProofs.CountP

def isOpenB (h : Handle) : Bool := !h.closed

theorem nOpen_eq (hs : List Handle) : nOpen hs = hs.countP isOpenB := rfl

/-- `refs` is the number of open handles; the underlying connection has been closed exactly when at
least one handle was handed out and all are closed — and then exactly once. -/
structure SInv (s : State) : Prop where
  refs : s.refs = (nOpen s.handles : Int)
  closes : s.uCloses = if 0 < s.handles.length ∧ nOpen s.handles = 0 then 1 else 0

theorem nOpen_set {hs : List Handle} {h : Nat} {hd : Handle} (hd' : Handle) (hg : hs[h]? = some hd) :
    nOpen (hs.set h hd') + (if isOpenB hd then 1 else 0) = nOpen hs + (if isOpenB hd' then 1 else 0) :=
  countP_set' isOpenB hd' hg

theorem nOpen_set_same {hs : List Handle} {h : Nat} {hd : Handle} (hd' : Handle) (hg : hs[h]? = some hd)
    (hc : hd'.closed = hd.closed) : nOpen (hs.set h hd') = nOpen hs := by
  have := nOpen_set hd' hg
  cases h1 : hd.closed <;> simp [isOpenB, hc, h1] at this <;> exact this

theorem nOpen_close {hs : List Handle} {h : Nat} {hd : Handle} (hd' : Handle) (hg : hs[h]? = some hd)
    (ho : hd.closed = false) (hc : hd'.closed = true) : nOpen (hs.set h hd') + 1 = nOpen hs := by
  have := nOpen_set hd' hg
  simp [isOpenB, ho, hc] at this
  omega

theorem sinv_init (fwd : Bool) (k : Nat) : SInv (State.initK fwd k) := ⟨by simp [State.initK, nOpen], by simp [State.initK]⟩

theorem sinv_step {s : State} {op : Op} (hi : SInv s) (hl : op.legal s = true) : SInv (step s op).1 := by
  obtain ⟨hr, hc⟩ := hi
  cases op with
  | «open» =>
    simp only [Op.legal, beq_iff_eq] at hl
    constructor
    · simp only [step, hr, nOpen, List.countP_append, List.countP_singleton]
      simp
    · simp only [step, hl, nOpen, List.countP_append, List.countP_singleton, List.length_append]
      simp
  | close h =>
    simp only [step]
    cases hg : s.handles[h]? with
    | none => exact ⟨hr, hc⟩
    | some hd =>
      simp only
      cases hcl : hd.closed with
      | true => simp only [if_true]; exact ⟨hr, hc⟩
      | false =>
        have hlt := getElem?_lt hg
        have hn := nOpen_close { hd with closed := true, pending := 0, wdArmed := false } hg hcl rfl
        simp only [Bool.false_eq_true, if_false]
        split
        · rename_i hle
          have h0 : nOpen (s.handles.set h { hd with closed := true, pending := 0, wdArmed := false }) = 0 := by omega
          have h1 : nOpen s.handles = 1 := by omega
          constructor
          · simp only; omega
          · simp only [List.length_set]
            rw [hc]
            have hne : s.handles ≠ [] := by intro he; rw [he] at hlt; simp at hlt
            simp [h0, h1, hne]
        · rename_i hgt
          have h0 : nOpen (s.handles.set h { hd with closed := true, pending := 0, wdArmed := false }) ≠ 0 := by omega
          have h1 : nOpen s.handles ≠ 0 := by omega
          split <;>
          · constructor
            · simp only; omega
            · simp only [List.length_set]
              rw [hc]
              simp [h0, h1]
  | read h =>
    simp only [step]
    cases hg : s.handles[h]? with
    | none => exact ⟨hr, hc⟩
    | some hd =>
      simp only
      split
      · exact ⟨hr, hc⟩
      · split
        · exact ⟨hr, hc⟩
        · split
          · exact ⟨hr, hc⟩
          · split
            · exact ⟨hr, hc⟩
            · have := nOpen_set_same { hd with pending := hd.pending + 1 } hg rfl
              exact ⟨by simp only [this]; exact hr, by simp only [this, List.length_set]; exact hc⟩
  | write h =>
    simp only [step]
    cases hg : s.handles[h]? with
    | none => exact ⟨hr, hc⟩
    | some hd => simp only; (repeat' split) <;> exact ⟨hr, hc⟩
  | setrd h p =>
    simp only [step]
    cases hg : s.handles[h]? with
    | none => exact ⟨hr, hc⟩
    | some hd =>
      simp only
      split
      · exact ⟨hr, hc⟩
      · have := nOpen_set_same { hd with rdlPast := p } hg rfl
        exact ⟨by simp only [this]; exact hr, by simp only [this, List.length_set]; exact hc⟩
  | setwd h p =>
    simp only [step]
    cases hg : s.handles[h]? with
    | none => exact ⟨hr, hc⟩
    | some hd =>
      simp only
      split
      · exact ⟨hr, hc⟩
      · have := nOpen_set_same { hd with wdArmed := p } hg rfl
        exact ⟨by simp only [this]; exact hr, by simp only [this, List.length_set]; exact hc⟩
  | setd h p =>
    simp only [step]
    cases hg : s.handles[h]? with
    | none => exact ⟨hr, hc⟩
    | some hd =>
      simp only
      split
      · exact ⟨hr, hc⟩
      · have := nOpen_set_same { hd with rdlPast := p, wdArmed := p } hg rfl
        exact ⟨by simp only [this]; exact hr, by simp only [this, List.length_set]; exact hc⟩
  | abort h =>
    simp only [step]
    cases hg : s.handles[h]? with
    | none => exact ⟨hr, hc⟩
    | some hd =>
      simp only
      cases hcl : hd.closed with
      | true => simp only [if_true]; exact ⟨hr, hc⟩
      | false =>
        have hlt := getElem?_lt hg
        have hn := nOpen_close { hd with rdlPast := true, closed := true, pending := 0, wdArmed := false } hg hcl rfl
        simp only [Bool.false_eq_true, if_false]
        split
        · rename_i hle
          have h0 : nOpen (s.handles.set h { hd with rdlPast := true, closed := true, pending := 0, wdArmed := false }) = 0 := by omega
          have h1 : nOpen s.handles = 1 := by omega
          constructor
          · simp only; omega
          · simp only [List.length_set]
            rw [hc]
            have hne : s.handles ≠ [] := by intro he; rw [he] at hlt; simp at hlt
            simp [h0, h1, hne]
        · rename_i hgt
          have h0 : nOpen (s.handles.set h { hd with rdlPast := true, closed := true, pending := 0, wdArmed := false }) ≠ 0 := by omega
          have h1 : nOpen s.handles ≠ 0 := by omega
          constructor
          · simp only; omega
          · simp only [List.length_set]
            rw [hc]
            simp [h0, h1]
  | refuse c on =>
    simp only [step]
    split <;> exact ⟨hr, hc⟩
  | feed =>
    simp only [step]
    split
    · exact ⟨hr, hc⟩
    · split
      · exact ⟨hr, hc⟩
      · split
        · split
          · rename_i hidx hfp
            split
            · rename_i hd hg
              have := nOpen_set_same { hd with pending := 0 } hg rfl
              exact ⟨by simp only [this]; exact hr, by simp only [this, List.length_set]; exact hc⟩
            · exact ⟨hr, hc⟩
          · exact ⟨hr, hc⟩
        · exact ⟨hr, hc⟩

theorem sinv_of_reachable {s : State} (h : Reachable s) : SInv s := by
  induction h with
  | init fwd k => exact sinv_init fwd k
  | step op _ hl ih => exact sinv_step ih hl

/-- A closed handle has no parked read. -/
def NoParkedClosed (s : State) : Prop := ∀ hd ∈ s.handles, hd.closed = true → hd.pending = 0

theorem npc_set {hs : List Handle} {h : Nat} {hd' : Handle}
    (hp : ∀ hd ∈ hs, hd.closed = true → hd.pending = 0) (hn : hd'.closed = true → hd'.pending = 0) :
    ∀ hd ∈ hs.set h hd', hd.closed = true → hd.pending = 0 := by
  intro hd hm
  rcases List.mem_or_eq_of_mem_set hm with h1 | h1
  · exact hp hd h1
  · subst h1; exact hn

theorem npc_step {s : State} {op : Op} (hp : NoParkedClosed s) : NoParkedClosed (step s op).1 := by
  unfold NoParkedClosed at *
  cases op with
  | «open» =>
    simp only [step]
    intro hd hm
    simp only [List.mem_append, List.mem_singleton] at hm
    rcases hm with h1 | h1
    · exact hp hd h1
    · subst h1; simp
  | close h =>
    simp only [step]
    cases hg : s.handles[h]? with
    | none => exact hp
    | some hd =>
      simp only
      split
      · exact hp
      · (repeat' split) <;> exact npc_set hp (fun _ => rfl)
  | read h =>
    simp only [step]
    cases hg : s.handles[h]? with
    | none => exact hp
    | some hd =>
      simp only
      split
      · exact hp
      · rename_i hcl
        split
        · exact hp
        · split
          · exact hp
          · split
            · exact hp
            · exact npc_set hp (fun hc => absurd hc hcl)
  | write h =>
    simp only [step]
    cases hg : s.handles[h]? with
    | none => exact hp
    | some hd => simp only; (repeat' split) <;> exact hp
  | setrd h p =>
    simp only [step]
    cases hg : s.handles[h]? with
    | none => exact hp
    | some hd =>
      simp only
      split
      · exact hp
      · rename_i hcl
        exact npc_set hp (fun hc => absurd hc hcl)
  | setwd h p =>
    simp only [step]
    cases hg : s.handles[h]? with
    | none => exact hp
    | some hd =>
      simp only
      split
      · exact hp
      · rename_i hcl
        exact npc_set hp (fun hc => absurd hc hcl)
  | setd h p =>
    simp only [step]
    cases hg : s.handles[h]? with
    | none => exact hp
    | some hd =>
      simp only
      split
      · exact hp
      · rename_i hcl
        exact npc_set hp (fun hc => absurd hc hcl)
  | abort h =>
    simp only [step]
    cases hg : s.handles[h]? with
    | none => exact hp
    | some hd =>
      simp only
      split
      · exact hp
      · split <;> exact npc_set hp (fun _ => rfl)
  | refuse c on =>
    simp only [step]
    split <;> exact hp
  | feed =>
    simp only [step]
    split
    · exact hp
    · split
      · exact hp
      · split
        · split
          · split
            · exact npc_set hp (fun _ => rfl)
            · exact hp
          · exact hp
        · exact hp

theorem npc_of_reachable {s : State} (h : Reachable s) : NoParkedClosed s := by
  induction h with
  | init fwd k => intro hd hm; simp [State.initK] at hm
  | step op _ _ ih => exact npc_step ih

/-- What one `Close` does to the underlying connection, in every reachable state: it is closed
exactly when the handle is open and is the only open one. -/
theorem close_effect {s : State} (hr : Reachable s) (h : Nat) :
    (step s (.close h)).1.uCloses
      = s.uCloses + (if (∃ hd, s.handles[h]? = some hd ∧ hd.closed = false) ∧ nOpen s.handles = 1 then 1 else 0) := by
  have hi := sinv_of_reachable hr
  have hrefs := hi.refs
  simp only [step]
  cases hg : s.handles[h]? with
  | none => simp
  | some hd =>
    cases hcl : hd.closed with
    | true => simp [hcl]
    | false =>
      have hn := nOpen_close { hd with closed := true, pending := 0, wdArmed := false } hg hcl rfl
      by_cases hle : s.refs - 1 ≤ 0
      · have h1 : nOpen s.handles = 1 := by omega
        simp [hcl, h1, hle]
      · have h1 : nOpen s.handles ≠ 1 := by omega
        cases hwa : hd.wdArmed <;> simp [hcl, h1, hle, hwa]

/-- A second handle that is open keeps the count above one. -/
theorem two_open {hs : List Handle} {h g : Nat} {hd gd : Handle} (hne : g ≠ h)
    (hh : hs[h]? = some hd) (hg : hs[g]? = some gd) (ho : hd.closed = false) (go : gd.closed = false) :
    2 ≤ nOpen hs := by
  have hn := nOpen_close { hd with closed := true, pending := 0, wdArmed := false } hh ho rfl
  have hg' : (hs.set h { hd with closed := true, pending := 0, wdArmed := false })[g]? = some gd := by
    rw [List.getElem?_set_ne (Ne.symm hne)]; exact hg
  have h3 := countP_ge_of_getElem? isOpenB hg'
  rw [show isOpenB gd = true from by simp [isOpenB, go]] at h3
  simp only [if_true] at h3
  have e1 := nOpen_eq hs
  have e2 := nOpen_eq (hs.set h { hd with closed := true, pending := 0, wdArmed := false })
  omega

/-! ### Registers of the scripted connections under a fan-out -/

theorem fan_refuse (v : Bool) (k : Conn) : (Conn.fan v k).refuse = k.refuse := by
  unfold Conn.fan; split <;> rfl

theorem fan_any_refuse (s : State) (v : Bool) : (s.fan v).any (·.refuse) = s.conns.any (·.refuse) := by
  unfold State.fan
  split
  · rw [List.any_map]
    congr 1
    funext k
    exact fan_refuse v k
  · rfl

theorem fan_fan (v w : Bool) (k : Conn) : Conn.fan w (Conn.fan v k) = Conn.fan w k := by
  rcases k with ⟨rf, d, wd⟩
  cases d <;> cases rf <;> simp [Conn.fan]

theorem map_fan_comp (v w : Bool) (cs : List Conn) : cs.map (Conn.fan w ∘ Conn.fan v) = cs.map (Conn.fan w) := by
  congr 1; funext k; exact fan_fan v w k

theorem map_fan_fan (v w : Bool) (cs : List Conn) : (cs.map (Conn.fan v)).map (Conn.fan w) = cs.map (Conn.fan w) := by
  rw [List.map_map]; congr 1; funext k; exact fan_fan v w k

/-- after `underlying.SetWriteDeadline(v)` every connection's register is unchanged or `v` -/
theorem reg_fan {s s' : State} {v : Bool} (hc : s'.conns = s.fan v)
    (hw : s'.wdlPast = if s.fwd then v else s.wdlPast) (c : Nat) : s'.reg c = s.reg c ∨ s'.reg c = v := by
  unfold State.reg
  rw [hc, hw]
  unfold State.fan
  cases hf : s.fwd with
  | false => left; simp
  | true =>
    simp only [if_true, List.getElem?_map]
    cases hk : s.conns[c]? with
    | none => right; rfl
    | some k =>
      rcases k with ⟨rf, d, w⟩
      cases d <;> cases rf <;> simp [Conn.fan]

/-- What a sibling `g ≠ h` sees of the state after an operation on `h`: `g`'s record and the set of refusing
connections are untouched, every connection's write-deadline register is untouched or has been CLEARED, and either
nothing else changed or `g` is closed. -/
def SiblingView (s s' : State) (g : Nat) : Prop :=
  s'.handles[g]? = s.handles[g]? ∧ s'.refusing = s.refusing ∧
    ((s'.uCloses = s.uCloses ∧ s'.queue = s.queue ∧ ∀ c, s'.reg c = s.reg c ∨ s'.reg c = false)
      ∨ ∀ gd, s.handles[g]? = some gd → gd.closed = true)

theorem refusing_of {s s' : State} (hf : s'.fwd = s.fwd) (hc : s'.conns = s.conns ∨ ∃ v, s'.conns = s.fan v) :
    s'.refusing = s.refusing := by
  unfold State.refusing
  rw [hf]
  rcases hc with hc | ⟨v, hc⟩
  · rw [hc]
  · rw [hc, fan_any_refuse]

theorem close_sibling_view {s : State} (hr : Reachable s) {h g : Nat} (hne : g ≠ h) :
    SiblingView s (step s (.close h)).1 g := by
  have hi := sinv_of_reachable hr
  have hrefs := hi.refs
  unfold SiblingView
  cases hh : s.handles[h]? with
  | none => simp [step, hh]
  | some hd =>
    cases hcl : hd.closed with
    | true => simp [step, hh, hcl]
    | false =>
      by_cases hle : s.refs - 1 ≤ 0
      · refine ⟨by simp [step, hh, hcl, hle, List.getElem?_set_ne (Ne.symm hne)],
          refusing_of (by simp [step, hh, hcl, hle]) (Or.inl (by simp [step, hh, hcl, hle])), Or.inr ?_⟩
        intro gd hg
        cases hgc : gd.closed with
        | true => rfl
        | false =>
          have := two_open hne hh hg hcl hgc
          omega
      · cases hwa : hd.wdArmed with
        | false =>
          exact ⟨by simp [step, hh, hcl, hle, hwa, List.getElem?_set_ne (Ne.symm hne)],
            refusing_of (by simp [step, hh, hcl, hle, hwa]) (Or.inl (by simp [step, hh, hcl, hle, hwa])),
            Or.inl ⟨by simp [step, hh, hcl, hle, hwa], by simp [step, hh, hcl, hle, hwa],
              fun c => Or.inl (by simp [step, hh, hcl, hle, hwa, State.reg])⟩⟩
        | true =>
          refine ⟨by simp [step, hh, hcl, hle, hwa, List.getElem?_set_ne (Ne.symm hne)],
            refusing_of (by simp [step, hh, hcl, hle, hwa]) (Or.inr ⟨false, by simp [step, hh, hcl, hle, hwa]⟩),
            Or.inl ⟨by simp [step, hh, hcl, hle, hwa], by simp [step, hh, hcl, hle, hwa], fun c => ?_⟩⟩
          exact reg_fan (v := false) (by simp [step, hh, hcl, hle, hwa]) (by simp [step, hh, hcl, hle, hwa]) c

/-- The output of an I/O operation depends only on the target's record, the underlying close count,
the queue, the write-deadline registers and whether a connection refuses deadline calls. -/
def ioOut (hd : Option Handle) (uCloses queue : Nat) (reg : Nat → Bool) (refusing : Bool) : Op → Out
  | .read _ =>
    match hd with
    | none => .badHandle
    | some hd => if hd.closed then .errClosed else if uCloses > 0 then .errClosed
                 else if queue > 0 then .data else if hd.rdlPast then .errTimeout else .pending
  | .write _ c =>
    match hd with
    | none => .badHandle
    | some hd => if hd.closed then .errClosed else if uCloses > 0 then .errClosed
                 else if reg c then .errTimeout else .ok
  | .setrd _ _ =>
    match hd with
    | none => .badHandle
    | some hd => if hd.closed then .errClosed else .ok
  | .setwd _ _ | .setd _ _ =>
    match hd with
    | none => .badHandle
    | some hd => if hd.closed then .errClosed else Out.ok.orRefused refusing
  | _ => .skip

/-- the I/O operations addressed to handle `g` (reads, writes to any connection and the three deadline setters) -/
def Op.isIOOn (g : Nat) : Op → Bool
  | .read h | .write h _ | .setrd h _ | .setwd h _ | .setd h _ => h == g
  | _ => false

theorem step_io_out {s : State} {g : Nat} {op : Op} (hop : Op.isIOOn g op = true) :
    (step s op).2 = ioOut s.handles[g]? s.uCloses s.queue s.reg s.refusing op := by
  cases op with
  | read h =>
    simp [Op.isIOOn] at hop; subst hop
    simp only [step, ioOut]
    cases hh : s.handles[h]? with
    | none => rfl
    | some hd => simp only; (repeat' split) <;> rfl
  | write h c =>
    simp [Op.isIOOn] at hop; subst hop
    simp only [step, ioOut]
    cases hh : s.handles[h]? with
    | none => rfl
    | some hd => simp only; (repeat' split) <;> rfl
  | setrd h p =>
    simp [Op.isIOOn] at hop; subst hop
    simp only [step, ioOut]
    cases hh : s.handles[h]? with
    | none => rfl
    | some hd => simp only; (repeat' split) <;> rfl
  | setwd h p =>
    simp [Op.isIOOn] at hop; subst hop
    simp only [step, ioOut]
    cases hh : s.handles[h]? with
    | none => rfl
    | some hd => simp only; split <;> rfl
  | setd h p =>
    simp [Op.isIOOn] at hop; subst hop
    simp only [step, ioOut]
    cases hh : s.handles[h]? with
    | none => rfl
    | some hd => simp only; split <;> rfl
  | «open» => simp [Op.isIOOn] at hop
  | close h => simp [Op.isIOOn] at hop
  | abort h => simp [Op.isIOOn] at hop
  | refuse c on => simp [Op.isIOOn] at hop
  | feed => simp [Op.isIOOn] at hop

/-- `after` is `before`, or a write that timed out before succeeds now (a write deadline was cleared). -/
def SameOrCleared (before after : Out) : Prop := after = before ∨ (before = Out.errTimeout ∧ after = Out.ok)

/-- clearing write-deadline registers can only turn a timed-out write into a successful one -/
theorem ioOut_cleared (hd : Option Handle) (u q : Nat) (r r' : Nat → Bool) (rf : Bool) (op : Op)
    (hr : ∀ c, r' c = r c ∨ r' c = false) : SameOrCleared (ioOut hd u q r rf op) (ioOut hd u q r' rf op) := by
  cases op <;> try exact Or.inl rfl
  rename_i h c
  cases hd with
  | none => exact Or.inl rfl
  | some hd =>
    simp only [ioOut, SameOrCleared]
    rcases hr c with h1 | h1
    · rw [h1]; exact Or.inl rfl
    · rw [h1]
      clear h1
      cases hrc : r c
      · exact Or.inl rfl
      · by_cases h1 : hd.closed = true
        · simp [h1]
        · by_cases h2 : u > 0
          · simp [h1, h2]
          · simp [h1, h2]

/-- From a sibling view: every I/O result on `g` is the same, or a timed-out write succeeds now; and it IS
the same when no register was armed. -/
theorem io_of_view {s s' : State} {g : Nat} (hv : SiblingView s s' g) {op : Op} (hop : Op.isIOOn g op = true) :
    SameOrCleared (step s op).2 (step s' op).2 ∧ ((∀ c, s.reg c = false) → (step s' op).2 = (step s op).2) := by
  rw [step_io_out hop, step_io_out hop]
  obtain ⟨hsame, hrf, hrest⟩ := hv
  rw [hsame, hrf]
  have hclosedCase : (∀ gd, s.handles[g]? = some gd → gd.closed = true) →
      ∀ u q (w : Nat → Bool) u' q' (w' : Nat → Bool), ioOut s.handles[g]? u' q' w' s.refusing op = ioOut s.handles[g]? u q w s.refusing op := by
    intro hclosed u q w u' q' w'
    cases hg : s.handles[g]? with
    | none => cases op <;> simp [Op.isIOOn] at hop <;> simp [ioOut]
    | some gd =>
      have := hclosed gd hg
      cases op <;> simp [Op.isIOOn] at hop <;> simp only [ioOut, this, if_true]
  rcases hrest with ⟨hu, hq, hwd⟩ | hclosed
  · rw [hu, hq]
    refine ⟨ioOut_cleared _ _ _ _ _ _ _ hwd, fun h0 => ?_⟩
    have : s'.reg = s.reg := by
      funext c
      rcases hwd c with h1 | h1
      · exact h1
      · rw [h1, h0 c]
    rw [this]
  · have := hclosedCase hclosed s.uCloses s.queue s.reg s'.uCloses s'.queue s'.reg
    rw [this]; exact ⟨Or.inl rfl, fun _ => rfl⟩

/-- Closing handle `h` makes no I/O operation on a sibling handle fail: the result is the same — or a write
that timed out under the deadline `h` had armed succeeds now. -/
theorem sibling_independent {s : State} (hr : Reachable s) {h g : Nat} (hne : g ≠ h) {op : Op}
    (hop : Op.isIOOn g op = true) :
    SameOrCleared (step s op).2 (step (step s (.close h)).1 op).2
    ∧ ((∀ c, s.reg c = false) → (step (step s (.close h)).1 op).2 = (step s op).2) :=
  io_of_view (close_sibling_view hr hne) hop

/-- After `close h` every I/O operation on `h` itself fails, and no read of `h` stays parked. -/
theorem own_io_fails {s : State} (hr : Reachable s) {h : Nat} (hlt : h < s.handles.length) {op : Op}
    (hop : Op.isIOOn h op = true) :
    (step (step s (.close h)).1 op).2 = Out.errClosed
    ∧ ∃ hd, (step s (.close h)).1.handles[h]? = some hd ∧ hd.closed = true ∧ hd.pending = 0 := by
  have hnp := npc_of_reachable hr
  have hview : ∃ hd, (step s (.close h)).1.handles[h]? = some hd ∧ hd.closed = true ∧ hd.pending = 0 := by
    cases hh : s.handles[h]? with
    | none => simp at hh; omega
    | some hd =>
      cases hcl : hd.closed with
      | true =>
        exact ⟨hd, by simp [step, hh, hcl], hcl, hnp hd (List.mem_of_getElem? hh) hcl⟩
      | false =>
        refine ⟨{ hd with closed := true, pending := 0, wdArmed := false }, ?_, rfl, rfl⟩
        simp only [step, hh, hcl, Bool.false_eq_true, if_false]
        (repeat' split) <;> simp [hlt]
  refine ⟨?_, hview⟩
  obtain ⟨hd, hget, hc, _⟩ := hview
  rw [step_io_out hop, hget]
  cases op <;> simp [Op.isIOOn] at hop <;> simp [ioOut, hc]

/-! ### The `abortIO` sequence on one handle -/

/-- `abort h` of an open handle is `SetDeadline(now)` followed by `Close`, as far as the state goes (the result of
the sequence is its FIRST error, the result of the second step alone would be the clear's). -/
theorem abort_eq {s : State} {h : Nat} {hd : Handle} (hg : s.handles[h]? = some hd) (ho : hd.closed = false) :
    (step s (.abort h)).1 = (step (step s (.setd h true)).1 (.close h)).1 := by
  have hlt := getElem?_lt hg
  simp only [step, hg, ho, Bool.false_eq_true, if_false, List.getElem?_set_self hlt, List.set_set, if_true, State.fan]
  cases hf : s.fwd <;> simp [map_fan_fan, map_fan_comp] <;> split <;> rfl

theorem abort_sibling_view {s : State} (hr : Reachable s) {h g : Nat} (hne : g ≠ h) :
    SiblingView s (step s (.abort h)).1 g := by
  have hi := sinv_of_reachable hr
  have hrefs := hi.refs
  unfold SiblingView
  cases hh : s.handles[h]? with
  | none => simp [step, hh]
  | some hd =>
    cases hcl : hd.closed with
    | true => simp [step, hh, hcl]
    | false =>
      by_cases hle : s.refs - 1 ≤ 0
      · refine ⟨by simp [step, hh, hcl, hle, List.getElem?_set_ne (Ne.symm hne)],
          refusing_of (by simp [step, hh, hcl, hle]) (Or.inr ⟨true, by simp [step, hh, hcl, hle]⟩), Or.inr ?_⟩
        intro gd hg
        cases hgc : gd.closed with
        | true => rfl
        | false =>
          have := two_open hne hh hg hcl hgc
          omega
      · refine ⟨by simp [step, hh, hcl, hle, List.getElem?_set_ne (Ne.symm hne)],
          refusing_of (by simp [step, hh, hcl, hle]) (Or.inr ⟨false, by simp [step, hh, hcl, hle]⟩),
          Or.inl ⟨by simp [step, hh, hcl, hle], by simp [step, hh, hcl, hle], fun c => ?_⟩⟩
        exact reg_fan (v := false) (by simp [step, hh, hcl, hle]) (by simp [step, hh, hcl, hle]) c

/-- Aborting handle `h` makes no I/O operation on a sibling handle fail (either kind of underlying connection, any
number of connections, whichever of them refuse deadline calls). -/
theorem abort_sibling_independent {s : State} (hr : Reachable s) {h g : Nat} (hne : g ≠ h) {op : Op}
    (hop : Op.isIOOn g op = true) :
    SameOrCleared (step s op).2 (step (step s (.abort h)).1 op).2
    ∧ ((∀ c, s.reg c = false) → (step (step s (.abort h)).1 op).2 = (step s op).2) :=
  io_of_view (abort_sibling_view hr hne) hop

/-- After `abort h` every I/O operation on `h` itself fails, and no read of `h` stays parked (any kind of
underlying connection). -/
theorem abort_own_io_fails {s : State} (hr : Reachable s) {h : Nat} (hlt : h < s.handles.length) {op : Op}
    (hop : Op.isIOOn h op = true) :
    (step (step s (.abort h)).1 op).2 = Out.errClosed
    ∧ ∃ hd, (step s (.abort h)).1.handles[h]? = some hd ∧ hd.closed = true ∧ hd.pending = 0 := by
  cases hh : s.handles[h]? with
  | none => simp at hh; omega
  | some hd =>
    cases hcl : hd.closed with
    | true =>
      have hnp := npc_of_reachable hr
      have hst : (step s (.abort h)).1 = s := by simp [step, hh, hcl]
      rw [hst]
      refine ⟨?_, hd, hh, hcl, hnp hd (List.mem_of_getElem? hh) hcl⟩
      rw [step_io_out hop, hh]
      cases op <;> simp [Op.isIOOn] at hop <;> simp [ioOut, hcl]
    | false =>
      rw [abort_eq hh hcl]
      have hr1 : Reachable (step s (.setd h true)).1 := Reachable.step _ hr rfl
      have hlt1 : h < (step s (.setd h true)).1.handles.length := by
        simp only [step, hh, hcl, Bool.false_eq_true, if_false, List.length_set]; exact hlt
      exact own_io_fails hr1 hlt1 hop

/-! ### A write deadline does not outlive the handle that armed it -/

/-- the handle is open and holds a write deadline (`writeDeadlineArmed`) -/
def armedOpen (hd : Handle) : Bool := !hd.closed && hd.wdArmed

def nHeld (hs : List Handle) : Nat := hs.countP armedOpen

/-- The register of the underlying connection is armed only while some OPEN handle holds the deadline (or after
the last handle has gone, when nobody can write any more); a connection that ignores write deadlines has no
armed register. -/
structure WInv (s : State) : Prop where
  nofwd : s.fwd = false → s.wdlPast = false
  held : s.wdlPast = true → (0 < s.handles.length ∧ nOpen s.handles = 0) ∨ 0 < nHeld s.handles

theorem winv_init (fwd : Bool) (k : Nat) : WInv (State.initK fwd k) := ⟨fun _ => rfl, by simp [State.initK]⟩

theorem nHeld_set {hs : List Handle} {h : Nat} {hd : Handle} (hd' : Handle) (hg : hs[h]? = some hd) :
    nHeld (hs.set h hd') + (if armedOpen hd then 1 else 0) = nHeld hs + (if armedOpen hd' then 1 else 0) :=
  countP_set' armedOpen hd' hg

theorem nHeld_set_same {hs : List Handle} {h : Nat} {hd : Handle} (hd' : Handle) (hg : hs[h]? = some hd)
    (he : armedOpen hd' = armedOpen hd) : nHeld (hs.set h hd') = nHeld hs := by
  have := nHeld_set hd' hg
  rw [he] at this
  omega

theorem wd_if {fwd p w : Bool} (h : (if fwd = true then p else w) = true) (hn : fwd = false → w = false) :
    fwd = true ∧ p = true := by
  cases fwd with
  | true => simpa using h
  | false => simp at h; simp [hn rfl] at h

theorem open_pos' {hs : List Handle} {h : Nat} {hd : Handle} (hg : hs[h]? = some hd) (ho : hd.closed = false) :
    1 ≤ nOpen hs := by
  have := countP_ge_of_getElem? isOpenB hg
  rw [show isOpenB hd = true from by simp [isOpenB, ho]] at this
  simpa [nOpen_eq] using this

/-- handles changed at `h` only, same open-ness and same armed flag, register untouched -/
theorem winv_same {s : State} (hw : WInv s) {h : Nat} {hd hd' : Handle} (hg : s.handles[h]? = some hd) (s' : State)
    (hh : s'.handles = s.handles.set h hd') (hc : hd'.closed = hd.closed) (ha : hd'.wdArmed = hd.wdArmed)
    (hf : s'.fwd = s.fwd) (hwd : s'.wdlPast = s.wdlPast) : WInv s' := by
  refine ⟨fun h0 => by rw [hwd]; exact hw.nofwd (by rw [← hf]; exact h0), fun h1 => ?_⟩
  rw [hwd] at h1
  rw [hh, List.length_set, nOpen_set_same hd' hg hc, nHeld_set_same hd' hg (by simp [armedOpen, hc, ha])]
  exact hw.held h1

theorem winv_step {s : State} {op : Op} (hi : SInv s) (hw : WInv s) (hl : op.legal s = true) : WInv (step s op).1 := by
  cases op with
  | «open» =>
    simp only [Op.legal, beq_iff_eq] at hl
    refine ⟨hw.nofwd, fun h1 => ?_⟩
    simp only [step] at h1 ⊢
    rcases hw.held h1 with ⟨hlen, h0⟩ | hh
    · have := hi.closes
      rw [if_pos ⟨hlen, h0⟩] at this
      omega
    · right
      simp only [nHeld, List.countP_append]
      unfold nHeld at hh
      omega
  | close h =>
    cases hg : s.handles[h]? with
    | none => simp only [step, hg]; exact hw
    | some hd =>
      cases hcl : hd.closed with
      | true => simp only [step, hg, hcl, if_true]; exact hw
      | false =>
        have hlt := getElem?_lt hg
        have hn := nOpen_close { hd with closed := true, pending := 0, wdArmed := false } hg hcl rfl
        have hh := nHeld_set { hd with closed := true, pending := 0, wdArmed := false } hg
        simp only [armedOpen, Bool.not_true, Bool.false_and, Bool.false_eq_true, if_false, hcl, Bool.not_false, Bool.true_and] at hh
        simp only [step, hg, hcl, Bool.false_eq_true, if_false]
        by_cases hle : s.refs - 1 ≤ 0
        · simp only [hle, if_true]
          have hrefs := hi.refs
          refine ⟨hw.nofwd, fun _ => Or.inl ⟨by simp only [List.length_set]; omega, by dsimp only; omega⟩⟩
        · simp only [hle, if_false]
          cases hwa : hd.wdArmed with
          | true =>
            simp only [if_true]
            refine ⟨fun h0 => by have h0' : s.fwd = false := h0; simp [h0', hw.nofwd h0'], fun h1 => ?_⟩
            exfalso
            have := wd_if (p := false) h1 hw.nofwd
            simp at this
          | false =>
            simp only [Bool.false_eq_true, if_false]
            refine ⟨hw.nofwd, fun h1 => ?_⟩
            simp only [hwa, Bool.false_eq_true, if_false] at hh
            rcases hw.held h1 with ⟨_, h0⟩ | hp
            · have := open_pos' hg hcl; omega
            · right; simp only; omega
  | abort h =>
    cases hg : s.handles[h]? with
    | none => simp only [step, hg]; exact hw
    | some hd =>
      cases hcl : hd.closed with
      | true => simp only [step, hg, hcl, if_true]; exact hw
      | false =>
        have hlt := getElem?_lt hg
        have hn := nOpen_close { hd with rdlPast := true, closed := true, pending := 0, wdArmed := false } hg hcl rfl
        simp only [step, hg, hcl, Bool.false_eq_true, if_false]
        have hrefs := hi.refs
        by_cases hle : s.refs - 1 ≤ 0
        · simp only [hle, if_true]
          refine ⟨fun h0 => by have h0' : s.fwd = false := h0; simp [h0', hw.nofwd h0'], fun _ => Or.inl ⟨by simp only [List.length_set]; omega, by dsimp only; omega⟩⟩
        · simp only [hle, if_false]
          refine ⟨fun h0 => by have h0' : s.fwd = false := h0; simp [h0', hw.nofwd h0'], fun h1 => ?_⟩
          exfalso
          have := wd_if (p := false) h1 hw.nofwd
          simp at this
  | read h =>
    cases hg : s.handles[h]? with
    | none => simp only [step, hg]; exact hw
    | some hd =>
      simp only [step, hg]
      (repeat' split) <;> first
        | exact hw
        | exact ⟨hw.nofwd, hw.held⟩
        | exact winv_same hw hg _ rfl rfl rfl rfl rfl
  | write h =>
    cases hg : s.handles[h]? with
    | none => simp only [step, hg]; exact hw
    | some hd => simp only [step, hg]; (repeat' split) <;> exact hw
  | setrd h p =>
    cases hg : s.handles[h]? with
    | none => simp only [step, hg]; exact hw
    | some hd =>
      simp only [step, hg]
      split
      · exact hw
      · exact winv_same hw hg _ rfl rfl rfl rfl rfl
  | setwd h p =>
    cases hg : s.handles[h]? with
    | none => simp only [step, hg]; exact hw
    | some hd =>
      cases hcl : hd.closed with
      | true => simp only [step, hg, hcl, if_true]; exact hw
      | false =>
        simp only [step, hg, hcl, Bool.false_eq_true, if_false]
        refine ⟨fun h0 => by have h0' : s.fwd = false := h0; simp [h0', hw.nofwd h0'], fun h1 => ?_⟩
        obtain ⟨_, hp⟩ := wd_if h1 hw.nofwd
        subst hp
        right
        have hh := nHeld_set { hd with wdArmed := true } hg
        have ha : armedOpen { hd with wdArmed := true } = true := by simp [armedOpen, hcl]
        rw [ha] at hh
        simp only [if_true, hcl] at hh
        have hge : (if armedOpen hd then 1 else 0) ≤ nHeld s.handles := countP_ge_of_getElem? armedOpen hg
        dsimp only; omega
  | setd h p =>
    cases hg : s.handles[h]? with
    | none => simp only [step, hg]; exact hw
    | some hd =>
      cases hcl : hd.closed with
      | true => simp only [step, hg, hcl, if_true]; exact hw
      | false =>
        simp only [step, hg, hcl, Bool.false_eq_true, if_false]
        refine ⟨fun h0 => by have h0' : s.fwd = false := h0; simp [h0', hw.nofwd h0'], fun h1 => ?_⟩
        obtain ⟨_, hp⟩ := wd_if h1 hw.nofwd
        subst hp
        right
        have hh := nHeld_set { hd with rdlPast := true, wdArmed := true } hg
        have ha : armedOpen { hd with rdlPast := true, wdArmed := true } = true := by simp [armedOpen, hcl]
        rw [ha] at hh
        simp only [if_true, hcl] at hh
        have hge : (if armedOpen hd then 1 else 0) ≤ nHeld s.handles := countP_ge_of_getElem? armedOpen hg
        dsimp only; omega
  | refuse c on =>
    simp only [step]
    split
    · exact hw
    · exact ⟨hw.nofwd, hw.held⟩
  | feed =>
    simp only [step]
    split
    · exact hw
    · split
      · exact ⟨hw.nofwd, hw.held⟩
      · split
        · split
          · split
            · rename_i hd hg
              exact winv_same hw hg _ rfl rfl rfl rfl rfl
            · exact hw
          · exact hw
        · exact hw

theorem winv_of_reachable {s : State} (h : Reachable s) : WInv s := by
  induction h with
  | init fwd k => exact winv_init fwd k
  | step op hr hl ih => exact winv_step (sinv_of_reachable hr) ih hl

end IceProofs.SharedConn
