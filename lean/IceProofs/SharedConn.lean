import IceModel.SharedConn
import IceProofs.CountP
/-!
# Reference-counted handles: invariant, exactly-once close, sibling independence

All statements are about `IceModel.SharedConn` only; any number of handles, any operation sequence.
-/
namespace IceProofs.SharedConn
open IceModel.SharedConn IceProofs.CountP

def isOpenB (h : Handle) : Bool := !h.closed

theorem nOpen_eq (hs : List Handle) : nOpen hs = hs.countP isOpenB := rfl

/-- `refs` is the number of open handles; the underlying connection has been closed exactly when at
least one handle was handed out and all are closed — and then exactly once. -/
structure SInv (s : State) : Prop where
  refs : s.refs = (nOpen s.handles : Int)
  closes : s.uCloses = if 0 < s.handles.length ∧ nOpen s.handles = 0 then 1 else 0

theorem nOpen_set {hs : List Handle} {h : Nat} {hd : Handle} (hd' : Handle) (hg : hs[h]? = some hd) :
    nOpen (hs.set h hd') + (if isOpenB hd then 1 else 0) = nOpen hs + (if isOpenB hd' then 1 else 0) :=
  countP_set' isOpenB hd' hg

theorem nOpen_set_same {hs : List Handle} {h : Nat} {hd : Handle} (hd' : Handle) (hg : hs[h]? = some hd)
    (hc : hd'.closed = hd.closed) : nOpen (hs.set h hd') = nOpen hs := by
  have := nOpen_set hd' hg
  cases h1 : hd.closed <;> simp [isOpenB, hc, h1] at this <;> exact this

theorem nOpen_close {hs : List Handle} {h : Nat} {hd : Handle} (hd' : Handle) (hg : hs[h]? = some hd)
    (ho : hd.closed = false) (hc : hd'.closed = true) : nOpen (hs.set h hd') + 1 = nOpen hs := by
  have := nOpen_set hd' hg
  simp [isOpenB, ho, hc] at this
  omega

theorem sinv_init : SInv State.init := ⟨by simp [State.init, nOpen], by simp [State.init]⟩

theorem sinv_step {s : State} {op : Op} (hi : SInv s) (hl : op.legal s = true) : SInv (step s op).1 := by
  obtain ⟨hr, hc⟩ := hi
  cases op with
  | «open» =>
    simp only [Op.legal, beq_iff_eq] at hl
    constructor
    · simp only [step, hr, nOpen, List.countP_append, List.countP_singleton]
      simp
    · simp only [step, hl, nOpen, List.countP_append, List.countP_singleton, List.length_append]
      simp
  | close h =>
    simp only [step]
    cases hg : s.handles[h]? with
    | none => exact ⟨hr, hc⟩
    | some hd =>
      simp only
      cases hcl : hd.closed with
      | true => simp only [if_true]; exact ⟨hr, hc⟩
      | false =>
        have hlt := getElem?_lt hg
        have hn := nOpen_close { hd with closed := true, pending := 0 } hg hcl rfl
        simp only [Bool.false_eq_true, if_false]
        split
        · rename_i hle
          have h0 : nOpen (s.handles.set h { hd with closed := true, pending := 0 }) = 0 := by omega
          have h1 : nOpen s.handles = 1 := by omega
          constructor
          · simp only; omega
          · simp only [List.length_set]
            rw [hc]
            have hne : s.handles ≠ [] := by intro he; rw [he] at hlt; simp at hlt
            simp [h0, h1, hne]
        · rename_i hgt
          have h0 : nOpen (s.handles.set h { hd with closed := true, pending := 0 }) ≠ 0 := by omega
          have h1 : nOpen s.handles ≠ 0 := by omega
          constructor
          · simp only; omega
          · simp only [List.length_set]
            rw [hc]
            simp [h0, h1]
  | read h =>
    simp only [step]
    cases hg : s.handles[h]? with
    | none => exact ⟨hr, hc⟩
    | some hd =>
      simp only
      split
      · exact ⟨hr, hc⟩
      · split
        · exact ⟨hr, hc⟩
        · split
          · exact ⟨hr, hc⟩
          · split
            · exact ⟨hr, hc⟩
            · have := nOpen_set_same { hd with pending := hd.pending + 1 } hg rfl
              exact ⟨by simp only [this]; exact hr, by simp only [this, List.length_set]; exact hc⟩
  | write h =>
    simp only [step]
    cases hg : s.handles[h]? with
    | none => exact ⟨hr, hc⟩
    | some hd => simp only; split <;> (try split) <;> exact ⟨hr, hc⟩
  | setrd h p =>
    simp only [step]
    cases hg : s.handles[h]? with
    | none => exact ⟨hr, hc⟩
    | some hd =>
      simp only
      split
      · exact ⟨hr, hc⟩
      · have := nOpen_set_same { hd with rdlPast := p } hg rfl
        exact ⟨by simp only [this]; exact hr, by simp only [this, List.length_set]; exact hc⟩
  | setwd h =>
    simp only [step]
    cases hg : s.handles[h]? with
    | none => exact ⟨hr, hc⟩
    | some hd => simp only; split <;> exact ⟨hr, hc⟩
  | feed =>
    simp only [step]
    split
    · exact ⟨hr, hc⟩
    · split
      · exact ⟨hr, hc⟩
      · split
        · split
          · rename_i hidx hfp
            split
            · rename_i hd hg
              have := nOpen_set_same { hd with pending := 0 } hg rfl
              exact ⟨by simp only [this]; exact hr, by simp only [this, List.length_set]; exact hc⟩
            · exact ⟨hr, hc⟩
          · exact ⟨hr, hc⟩
        · exact ⟨hr, hc⟩

theorem sinv_of_reachable {s : State} (h : Reachable s) : SInv s := by
  induction h with
  | init => exact sinv_init
  | step op _ hl ih => exact sinv_step ih hl

/-- A closed handle has no parked read. -/
def NoParkedClosed (s : State) : Prop := ∀ hd ∈ s.handles, hd.closed = true → hd.pending = 0

theorem npc_set {hs : List Handle} {h : Nat} {hd' : Handle}
    (hp : ∀ hd ∈ hs, hd.closed = true → hd.pending = 0) (hn : hd'.closed = true → hd'.pending = 0) :
    ∀ hd ∈ hs.set h hd', hd.closed = true → hd.pending = 0 := by
  intro hd hm
  rcases List.mem_or_eq_of_mem_set hm with h1 | h1
  · exact hp hd h1
  · subst h1; exact hn

theorem npc_step {s : State} {op : Op} (hp : NoParkedClosed s) : NoParkedClosed (step s op).1 := by
  unfold NoParkedClosed at *
  cases op with
  | «open» =>
    simp only [step]
    intro hd hm
    simp only [List.mem_append, List.mem_singleton] at hm
    rcases hm with h1 | h1
    · exact hp hd h1
    · subst h1; simp
  | close h =>
    simp only [step]
    cases hg : s.handles[h]? with
    | none => exact hp
    | some hd =>
      simp only
      split
      · exact hp
      · split <;> exact npc_set hp (fun _ => rfl)
  | read h =>
    simp only [step]
    cases hg : s.handles[h]? with
    | none => exact hp
    | some hd =>
      simp only
      split
      · exact hp
      · rename_i hcl
        split
        · exact hp
        · split
          · exact hp
          · split
            · exact hp
            · exact npc_set hp (fun hc => absurd hc hcl)
  | write h =>
    simp only [step]
    cases hg : s.handles[h]? with
    | none => exact hp
    | some hd => simp only; split <;> (try split) <;> exact hp
  | setrd h p =>
    simp only [step]
    cases hg : s.handles[h]? with
    | none => exact hp
    | some hd =>
      simp only
      split
      · exact hp
      · rename_i hcl
        exact npc_set hp (fun hc => absurd hc hcl)
  | setwd h =>
    simp only [step]
    cases hg : s.handles[h]? with
    | none => exact hp
    | some hd => simp only; split <;> exact hp
  | feed =>
    simp only [step]
    split
    · exact hp
    · split
      · exact hp
      · split
        · split
          · split
            · exact npc_set hp (fun _ => rfl)
            · exact hp
          · exact hp
        · exact hp

theorem npc_of_reachable {s : State} (h : Reachable s) : NoParkedClosed s := by
  induction h with
  | init => intro hd hm; simp [State.init] at hm
  | step op _ _ ih => exact npc_step ih

/-- What one `Close` does to the underlying connection, in every reachable state: it is closed
exactly when the handle is open and is the only open one. -/
theorem close_effect {s : State} (hr : Reachable s) (h : Nat) :
    (step s (.close h)).1.uCloses
      = s.uCloses + (if (∃ hd, s.handles[h]? = some hd ∧ hd.closed = false) ∧ nOpen s.handles = 1 then 1 else 0) := by
  have hi := sinv_of_reachable hr
  have hrefs := hi.refs
  simp only [step]
  cases hg : s.handles[h]? with
  | none => simp
  | some hd =>
    cases hcl : hd.closed with
    | true => simp [hcl]
    | false =>
      have hn := nOpen_close { hd with closed := true, pending := 0 } hg hcl rfl
      by_cases hle : s.refs - 1 ≤ 0
      · have h1 : nOpen s.handles = 1 := by omega
        simp [hcl, h1, hle]
      · have h1 : nOpen s.handles ≠ 1 := by omega
        simp [hcl, h1, hle]

/-- A second handle that is open keeps the count above one. -/
theorem two_open {hs : List Handle} {h g : Nat} {hd gd : Handle} (hne : g ≠ h)
    (hh : hs[h]? = some hd) (hg : hs[g]? = some gd) (ho : hd.closed = false) (go : gd.closed = false) :
    2 ≤ nOpen hs := by
  have hn := nOpen_close { hd with closed := true, pending := 0 } hh ho rfl
  have hg' : (hs.set h { hd with closed := true, pending := 0 })[g]? = some gd := by
    rw [List.getElem?_set_ne (Ne.symm hne)]; exact hg
  have h3 := countP_ge_of_getElem? isOpenB hg'
  rw [show isOpenB gd = true from by simp [isOpenB, go]] at h3
  simp only [if_true] at h3
  have e1 := nOpen_eq hs
  have e2 := nOpen_eq (hs.set h { hd with closed := true, pending := 0 })
  omega

/-- The state seen by operations on a sibling `g ≠ h` after `close h`: `g`'s record is untouched, and
either nothing else changed or `g` is closed. -/
theorem close_sibling_view {s : State} (hr : Reachable s) {h g : Nat} (hne : g ≠ h) :
    (step s (.close h)).1.handles[g]? = s.handles[g]? ∧
      (((step s (.close h)).1.uCloses = s.uCloses ∧ (step s (.close h)).1.queue = s.queue)
        ∨ ∀ gd, s.handles[g]? = some gd → gd.closed = true) := by
  have hi := sinv_of_reachable hr
  have hrefs := hi.refs
  cases hh : s.handles[h]? with
  | none => simp [step, hh]
  | some hd =>
    cases hcl : hd.closed with
    | true => simp [step, hh, hcl]
    | false =>
      by_cases hle : s.refs - 1 ≤ 0
      · refine ⟨by simp [step, hh, hcl, hle, List.getElem?_set_ne (Ne.symm hne)], Or.inr ?_⟩
        intro gd hg
        cases hgc : gd.closed with
        | true => rfl
        | false =>
          have := two_open hne hh hg hcl hgc
          omega
      · exact ⟨by simp [step, hh, hcl, hle, List.getElem?_set_ne (Ne.symm hne)],
          Or.inl (by simp [step, hh, hcl, hle])⟩

/-- The output of an I/O operation depends only on the target's record, the underlying close count
and the queue. -/
def ioOut (hd : Option Handle) (uCloses queue : Nat) : Op → Out
  | .read _ =>
    match hd with
    | none => .badHandle
    | some hd => if hd.closed then .errClosed else if uCloses > 0 then .errClosed
                 else if queue > 0 then .data else if hd.rdlPast then .errTimeout else .pending
  | .write _ =>
    match hd with
    | none => .badHandle
    | some hd => if hd.closed then .errClosed else if uCloses > 0 then .errClosed else .ok
  | .setrd _ _ | .setwd _ =>
    match hd with
    | none => .badHandle
    | some hd => if hd.closed then .errClosed else .ok
  | _ => .skip

/-- the I/O operations addressed to handle `g` -/
def Op.isIOOn (g : Nat) : Op → Bool
  | .read h | .write h | .setrd h _ | .setwd h => h == g
  | _ => false

theorem step_io_out {s : State} {g : Nat} {op : Op} (hop : Op.isIOOn g op = true) :
    (step s op).2 = ioOut s.handles[g]? s.uCloses s.queue op := by
  cases op with
  | read h =>
    simp [Op.isIOOn] at hop; subst hop
    simp only [step, ioOut]
    cases hh : s.handles[h]? with
    | none => rfl
    | some hd => simp only; (repeat' split) <;> rfl
  | write h =>
    simp [Op.isIOOn] at hop; subst hop
    simp only [step, ioOut]
    cases hh : s.handles[h]? with
    | none => rfl
    | some hd => simp only; (repeat' split) <;> rfl
  | setrd h p =>
    simp [Op.isIOOn] at hop; subst hop
    simp only [step, ioOut]
    cases hh : s.handles[h]? with
    | none => rfl
    | some hd => simp only; (repeat' split) <;> rfl
  | setwd h =>
    simp [Op.isIOOn] at hop; subst hop
    simp only [step, ioOut]
    cases hh : s.handles[h]? with
    | none => rfl
    | some hd => simp only; (repeat' split) <;> rfl
  | «open» => simp [Op.isIOOn] at hop
  | close h => simp [Op.isIOOn] at hop
  | feed => simp [Op.isIOOn] at hop

/-- Closing handle `h` changes no result of an I/O operation on a sibling handle. -/
theorem sibling_independent {s : State} (hr : Reachable s) {h g : Nat} (hne : g ≠ h) {op : Op}
    (hop : Op.isIOOn g op = true) :
    (step (step s (.close h)).1 op).2 = (step s op).2 := by
  rw [step_io_out hop, step_io_out hop]
  obtain ⟨hsame, hrest⟩ := close_sibling_view hr hne (h := h)
  rw [hsame]
  rcases hrest with ⟨hu, hq⟩ | hclosed
  · rw [hu, hq]
  · cases hg : s.handles[g]? with
    | none => cases op <;> simp [Op.isIOOn] at hop <;> simp [ioOut]
    | some gd =>
      have := hclosed gd hg
      cases op <;> simp [Op.isIOOn] at hop <;> simp [ioOut, this]

/-- After `close h` every I/O operation on `h` itself fails, and no read of `h` stays parked. -/
theorem own_io_fails {s : State} (hr : Reachable s) {h : Nat} (hlt : h < s.handles.length) {op : Op}
    (hop : Op.isIOOn h op = true) :
    (step (step s (.close h)).1 op).2 = Out.errClosed
    ∧ ∃ hd, (step s (.close h)).1.handles[h]? = some hd ∧ hd.closed = true ∧ hd.pending = 0 := by
  have hnp := npc_of_reachable hr
  have hview : ∃ hd, (step s (.close h)).1.handles[h]? = some hd ∧ hd.closed = true ∧ hd.pending = 0 := by
    cases hh : s.handles[h]? with
    | none => simp at hh; omega
    | some hd =>
      cases hcl : hd.closed with
      | true =>
        exact ⟨hd, by simp [step, hh, hcl], hcl, hnp hd (List.mem_of_getElem? hh) hcl⟩
      | false =>
        by_cases hle : s.refs - 1 ≤ 0
        · exact ⟨{ hd with closed := true, pending := 0 }, by simp only [step, hh, hcl, hle]; simp [hlt], rfl, rfl⟩
        · exact ⟨{ hd with closed := true, pending := 0 }, by simp only [step, hh, hcl, hle]; simp [hlt], rfl, rfl⟩
  refine ⟨?_, hview⟩
  obtain ⟨hd, hget, hc, _⟩ := hview
  rw [step_io_out hop, hget]
  cases op <;> simp [Op.isIOOn] at hop <;> simp [ioOut, hc]

end IceProofs.SharedConn
