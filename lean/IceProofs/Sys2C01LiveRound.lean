import IceProofs.Sys2C01LiveLinked
import IceProofs.Sys2C01LiveTick
/-!
# C01 liveness, layer 8 — the canonical fair round

`round c s` = advance the clock to the next timer tick of the controlling agent `c` (the controlled agent runs
every tick that is due by then), then three waves: deliver everything in flight, three times.
-/
namespace IceProofs.C01Live
open IceModel.AgentCore IceModel.Sys2 IceProofs.Sys2Run IceProofs.C01 IceProofs.Agent

/-! ## the clock advance, explicitly -/

theorem advance_struct (s : Sys) (T : Nat) (hb : s.hasB = true) :
    (s.advance T).1.a = (step s.a (.advance T)).1 ∧ (s.advance T).1.b = (step s.b (.advance T)).1 ∧
    (s.advance T).1.inflight = s.inflight ++ dgramsOf (step s.a (.advance T)).2 ++ dgramsOf (step s.b (.advance T)).2 ∧
    (s.advance T).1.now = T ∧ (s.advance T).1.nat = s.nat ∧ (s.advance T).1.blocked = s.blocked ∧
    (s.advance T).1.hasB = s.hasB := by
  simp [Sys.advance, Sys.agentEv, Sys.setAgent, Sys.agent, hb]

theorem advance_agent (s : Sys) (T : Nat) (hb : s.hasB = true) (x : Bool) :
    (s.advance T).1.agent x = (step (s.agent x) (.advance T)).1 := by
  obtain ⟨h1, h2, _⟩ := advance_struct s T hb
  cases x
  · exact h1
  · exact h2

section
variable {nat blocked : List (Nat × Nat)} {SLA SLB SR : Nat → Prop} {liteA liteB : Bool} {T0 H : Nat} {c : Bool}

/-- what a clock advance does -/
structure AdvEffect (T0 T : Nat) (s s' : Sys) : Prop where
  net : SameNet s s'
  now : s'.now = T
  ids : ∀ x, SameId (s.agent x) (s'.agent x)
  lk : ∀ x, LK T0 T none (s.agent x) (s'.agent x)
  agent : ∀ x, s'.agent x = (step (s.agent x) (.advance T)).1
  flight : s'.inflight = s.inflight ++ dgramsOf (step s.a (.advance T)).2 ++ dgramsOf (step s.b (.advance T)).2

theorem advance_effect {s : Sys} (h : SysOK nat blocked SLA SLB SR liteA liteB T0 H c s) (T : Nat) (h0 : T0 ≤ T) (hT : T ≤ H)
    (hc : ∃ t, (s.agent c).nextTick = some t ∧ T ≤ t) :
    SysOK nat blocked SLA SLB SR liteA liteB T0 H c (s.advance T).1 ∧ AdvEffect T0 T s (s.advance T).1 := by
  refine ⟨h.advance T h0 hT hc, ?_⟩
  obtain ⟨q1, q2, q3, q4, q5, q6, q7⟩ := advance_struct s T h.paired.hasB
  have hag := advance_agent s T h.paired.hasB
  have hg : ∀ x, Good T0 H ((s.advance T).1.agent x) ∧ LK T0 T none (s.agent x) ((s.advance T).1.agent x) ∧
      SameId (s.agent x) ((s.advance T).1.agent x) := by
    intro x
    rw [hag]
    exact step_advance_good hT (h.good x)
  exact ⟨sameNet_of q5 q6 q7 (fun x => (hg x).2.1.locals) (fun x => (hg x).2.2.closed), q4, fun x => (hg x).2.2,
    fun x => (hg x).2.1, hag, q3⟩

/-- `advance_effect` for every `T` within the horizon (any number of catch-up ticks of either agent) -/
theorem advance_effect_any {s : Sys} (h : SysOK nat blocked SLA SLB SR liteA liteB T0 H c s) (T : Nat) (h0 : T0 ≤ T) (hT : T ≤ H) :
    SysOK nat blocked SLA SLB SR liteA liteB T0 H c (s.advance T).1 ∧ AdvEffect T0 T s (s.advance T).1 := by
  refine ⟨h.advanceAny T h0 hT, ?_⟩
  obtain ⟨q1, q2, q3, q4, q5, q6, q7⟩ := advance_struct s T h.paired.hasB
  have hag := advance_agent s T h.paired.hasB
  have hg : ∀ x, Good T0 H ((s.advance T).1.agent x) ∧ LK T0 T none (s.agent x) ((s.advance T).1.agent x) ∧
      SameId (s.agent x) ((s.advance T).1.agent x) := by
    intro x
    rw [hag]
    exact step_advance_good hT (h.good x)
  exact ⟨sameNet_of q5 q6 q7 (fun x => (hg x).2.1.locals) (fun x => (hg x).2.2.closed), q4, fun x => (hg x).2.2,
    fun x => (hg x).2.1, hag, q3⟩

theorem AdvEffect.mem {T : Nat} {s s' : Sys} (he : AdvEffect T0 T s s') {d : Dgram} (hd : d ∈ s.inflight) : d ∈ s'.inflight := by
  rw [he.flight]
  exact List.mem_append_left _ (List.mem_append_left _ hd)

/-- everything a clock advance puts in flight is a Binding request -/
theorem AdvEffect.new_req {T : Nat} {s s' : Sys} (h : SysOK nat blocked SLA SLB SR liteA liteB T0 H c s) (hT : T ≤ H)
    (he : AdvEffect T0 T s s') {d : Dgram} (hd : d ∈ s'.inflight) : d ∈ s.inflight ∨ ∃ m, d.p = .stun m ∧ m.cls = 0 := by
  rw [he.flight] at hd
  have key : ∀ x, d ∈ dgramsOf (step (s.agent x) (.advance T)).2 → ∃ m, d.p = .stun m ∧ m.cls = 0 := by
    intro x hx
    unfold dgramsOf at hx
    obtain ⟨o, ho, hod⟩ := List.mem_filterMap.mp hx
    cases o with
    | dgram f t m =>
      simp at hod; subst hod
      exact ⟨m, rfl, (runTimers_reqs hT 100000 (h.good x) f t m ho).1⟩
    | data f t n => exact absurd ho (runTimers_noData _ _ _ f t n)
    | cbState _ => simp at hod
    | cbPair _ _ => simp at hod
    | cbCand _ => simp at hod
    | res _ => simp at hod
  rcases List.mem_append.mp hd with hd | hd
  · rcases List.mem_append.mp hd with hd | hd
    · exact Or.inl hd
    · exact Or.inr (key false hd)
  · exact Or.inr (key true hd)

theorem HasSucc.adv {T : Nat} {s s' : Sys} (he : AdvEffect T0 T s s') {x : Bool} (g : HasSucc s x) : HasSucc s' x := by
  obtain ⟨p, hp, hs⟩ := g
  obtain ⟨p', hp', kp⟩ := (he.lk x).mem_pair hp
  exact ⟨p', hp', kp.succ hs⟩

theorem Sel.adv {T : Nat} {s s' : Sys} (he : AdvEffect T0 T s s') {x : Bool} (g : Sel s x) : Sel s' x := (he.lk x).sel g

theorem Goal.adv {T : Nat} {s s' : Sys} (he : AdvEffect T0 T s s') {x : Bool} {uc nomOn : Bool} (g : Goal c s x uc nomOn) :
    Goal c s' x uc nomOn := ⟨g.1.adv he, fun hc => (g.2 hc).adv he⟩

theorem Ob.adv {T : Nat} {s s' : Sys} (h : SysOK nat blocked SLA SLB SR liteA liteB T0 H c s) (he : AdvEffect T0 T s s')
    {x : Bool} {tid la ra : Nat} {uc nomOn : Bool} {ts : Nat} (hob : Ob s x tid la ra uc nomOn ts)
    (hy : T - ts < maxBindingRequestTimeout) : Ob s' x tid la ra uc nomOn ts := by
  refine ⟨he.net.link hob.link, ?_, ?_, by rw [he.now]; exact hy⟩
  · obtain ⟨pd, h1, h2⟩ := hob.pend
    exact ⟨pd, (he.lk x).pend tid pd h1 (by rw [h2.2.2.2.2.2]; exact hy) (by simp), h2⟩
  · obtain ⟨l, r, p, h1, h2, h3, h4⟩ := hob.slot
    obtain ⟨l', hl', el⟩ := (he.lk x).localByAddr h1
    obtain ⟨r', hr', er⟩ := (he.lk x).findRemote h2
    obtain ⟨p', hp', kp⟩ := (he.lk x).findPair (endsOK_of_c06 (h.c06 x) (h.good x).open_) el er.key h3
    exact ⟨l', r', p', hl', hr', hp', fun hn => (h4 hn).elim
      (fun hm => (kp.nomOn hm).imp (fun y => y) (fun f => f (h.good x).linv)) (fun hs => Or.inr ((he.lk x).sel hs))⟩

theorem ReqD.adv {T : Nat} {s s' : Sys} (he : AdvEffect T0 T s s') {x : Bool} {tid la ra : Nat} {uc : Bool} {d : Dgram}
    (h : ReqD s x tid la ra uc d) : ReqD s' x tid la ra uc d := by
  obtain ⟨h1, h2, m, h3, h4, h5⟩ := h
  exact ⟨h1, h2, m, h3, h4.congr (he.ids x), h5⟩

theorem RespD.adv {T : Nat} {s s' : Sys} (he : AdvEffect T0 T s s') {x : Bool} {tid la ra : Nat} {d : Dgram}
    (h : RespD s x tid la ra d) : RespD s' x tid la ra d := by
  obtain ⟨h1, h2, m, h3, h4, h5, h6, h7⟩ := h
  have hm : ∀ y, s'.mapped y = s.mapped y := fun y => by simp [Sys.mapped, he.net.1]
  have hu : ∀ y, s'.unmapped y = s.unmapped y := fun y => by simp [Sys.unmapped, he.net.1]
  exact ⟨by rw [hu]; exact h1, by rw [hm]; exact h2, m, h3, h4, h5, h6, by rw [(he.ids x).remotePwd]; exact h7⟩

theorem Ch1.adv {T : Nat} {s s' : Sys} (h : SysOK nat blocked SLA SLB SR liteA liteB T0 H c s) (he : AdvEffect T0 T s s')
    {x : Bool} {tid la ra : Nat} {uc nomOn : Bool} {ts : Nat} (g : Ch1 c s x tid la ra uc nomOn ts)
    (hy : T - ts < maxBindingRequestTimeout) : Ch1 c s' x tid la ra uc nomOn ts := by
  rcases g with (g | ⟨hob, d, hd, hr⟩) | ⟨hob, d, hd, hr⟩
  · exact Or.inl (Or.inl (g.adv he))
  · exact Or.inl (Or.inr ⟨hob.adv h he hy, d, he.mem hd, hr.adv he⟩)
  · exact Or.inr ⟨hob.adv h he hy, d, he.mem hd, hr.adv he⟩

/-- the controlled agent's progress survives one clock advance of at most 2 s -/
theorem DP.adv {T : Nat} {s s' : Sys} (h : SysOK nat blocked SLA SLB SR liteA liteB T0 H c s) (he : AdvEffect T0 T s s')
    (g : DP c s true) (hy : T - s.now < maxBindingRequestTimeout) : DP c s' false := by
  rcases g with g | ⟨tid, lb, rb, ts, g, hf⟩
  · exact Or.inl (g.adv he)
  · exact Or.inr ⟨tid, lb, rb, ts, g.adv h he (by rw [hf rfl]; exact hy), fun hx => by cases hx⟩

end

/-! ## the controlling agent's tick, seen from the system -/

theorem pairwise_addr_eq {l : List Cand} (hu : l.Pairwise (fun x y => x.addr ≠ y.addr)) {p q : Cand}
    (hp : p ∈ l) (hq : q ∈ l) (h : p.addr = q.addr) : p = q := by
  induction l with
  | nil => cases hp
  | cons y ys ih =>
    rw [List.pairwise_cons] at hu
    rcases List.mem_cons.mp hp with h1 | h1 <;> rcases List.mem_cons.mp hq with h2 | h2
    · rw [h1, h2]
    · subst h1; exact absurd h (hu.1 q h2)
    · subst h2; exact absurd h.symm (hu.1 p h1)
    · exact ih hu.2 h1 h2

/-- the lookups a response on the addresses of a listed pair will make -/
theorem slot_of_pair {a : Agent} (hloc : CandsOK a.locals) (hrem : CandsOK a.remotes) {p : Pair} (hp : p ∈ a.checklist)
    {l r : Cand} (hl : a.localOf p.l = some l) (hr : a.remoteOf p.r = some r) :
    a.localByAddr l.addr = some l ∧ a.findRemote 0 r.addr = some r ∧ ∃ q, a.findPair l r = some q := by
  have hlm := localOf_mem hl
  have hrm := remoteOf_mem hr
  refine ⟨?_, ?_, ?_⟩
  · cases hf : a.localByAddr l.addr with
    | none =>
      unfold Agent.localByAddr at hf
      rw [List.find?_eq_none] at hf
      exact absurd (by simp) (hf l hlm)
    | some l1 =>
      obtain ⟨h1, h2⟩ := localByAddr_spec hf
      rw [pairwise_addr_eq hloc.2 h1 hlm h2]
  · cases hf : a.findRemote 0 r.addr with
    | none =>
      unfold Agent.findRemote at hf
      rw [List.find?_eq_none] at hf
      exact absurd (by simp [(hrem.1 r hrm).1]) (hf r hrm)
    | some r1 =>
      obtain ⟨h1, h2⟩ := findRemote_spec hf
      rw [pairwise_addr_eq hrem.2 h1 hrm h2]
  · cases hf : a.findPair l r with
    | some q => exact ⟨q, rfl⟩
    | none =>
      exfalso
      unfold Agent.findPair at hf
      rw [List.find?_eq_none] at hf
      have := hf p hp
      rw [hl, hr] at this
      simp [Cand.equal, Cand.taEqual] at this

section
variable {nat blocked : List (Nat × Nat)} {SLA SLB SR : Nat → Prop} {liteA liteB : Bool} {T0 H : Nat} {c : Bool}

/-- a request emitted by the controlling agent's tick, as an open transaction of the system after the advance -/
theorem tick_ob {s : Sys} (h : SysOK nat blocked SLA SLB SR liteA liteB T0 H c s) {T : Nat}
    (he : AdvEffect T0 T s (s.advance T).1) {p : Pair} (hp : p ∈ (s.agent c).checklist) {l r : Cand}
    (hl : (s.agent c).localOf p.l = some l) (hr : (s.agent c).remoteOf p.r = some r) (hlink : Link s c l.addr r.addr)
    {uc : Bool} {m : Msg} (hout : Out.dgram l.addr r.addr m ∈ (step (s.agent c) (.advance T)).2) (hreq : IsReq (s.agent c) uc m)
    (hpend : (step (s.agent c) (.advance T)).1.pending.find? (·.tid == m.tid) = some (pendOf m.tid l.addr r.addr r.net uc T)) :
    Ob (s.advance T).1 c m.tid l.addr r.addr uc false T ∧
    ∃ d ∈ (s.advance T).1.inflight, ReqD (s.advance T).1 c m.tid l.addr r.addr uc d ∧ (uc = true → NomD c (s.advance T).1 l.addr r.addr d) := by
  have hg := h.good c
  have hrnet : r.net = 0 := (hg.linv.remOK.1 r (remoteOf_mem hr)).1
  obtain ⟨s1, s2, q, s3⟩ := slot_of_pair hg.locOK hg.linv.remOK hp hl hr
  obtain ⟨l', hl', el⟩ := (he.lk c).localByAddr s1
  obtain ⟨r', hr', er⟩ := (he.lk c).findRemote s2
  obtain ⟨q', hq', _⟩ := (he.lk c).findPair (endsOK_of_c06 (h.c06 c) hg.open_) el er.key s3
  refine ⟨⟨he.net.link hlink, ⟨_, by rw [he.agent c]; exact hpend, rfl, rfl, hrnet, rfl, rfl, rfl⟩,
    ⟨l', r', q', hl', hr', hq', fun hx => by cases hx⟩, by rw [he.now]; simp [maxBindingRequestTimeout]⟩, ?_⟩
  refine ⟨{ src := l.addr, dst := r.addr, p := .stun m }, ?_, ⟨rfl, rfl, m, rfl, hreq.congr (he.ids c), rfl⟩,
    fun hu => ⟨rfl, rfl, m, rfl, by subst hu; exact hreq.congr (he.ids c)⟩⟩
  rw [he.flight]
  have := mem_dgramsOf_of_dgram hout
  cases c
  · exact List.mem_append_left _ (List.mem_append_right _ this)
  · exact List.mem_append_right _ this

/-- no valid pair yet: the tick pings every pair under budget -/
theorem sys_tick_ping {s : Sys} (h : SysOK nat blocked SLA SLB SR liteA liteB T0 H c s) {T : Nat} (hT : T ≤ H)
    (he : AdvEffect T0 T s (s.advance T).1) (htk : (s.agent c).nextTick = some T) (hsel : ¬ Sel s c) (hns : ¬ HasSucc s c)
    {p0 : Pair} (hp0 : p0 ∈ (s.agent c).checklist) (hst : p0.state = .waiting ∨ p0.state = .inProgress)
    (hb : p0.reqCount ≤ (s.agent c).cfg.maxBindingRequests) {l r : Cand} (hl : (s.agent c).localOf p0.l = some l)
    (hr : (s.agent c).remoteOf p0.r = some r) (hlink : Link s c l.addr r.addr) :
    ∃ tid, Ch1 c (s.advance T).1 c tid l.addr r.addr false false T := by
  have hctl : (s.agent c).controlling = true := by rw [h.paired.role]; simp
  have hs : (s.agent c).selected = none := by
    cases hx : (s.agent c).selected with
    | none => rfl
    | some _ => exact absurd (by unfold Sel; rw [hx]; rfl) hsel
  obtain ⟨m, q1, q2, q3⟩ := agent_tick_ping (h.good c) hT htk hctl hs (fun p hp hps => hns ⟨p, hp, hps⟩) hp0 hst hb hl hr
  obtain ⟨ob, d, hd, hrd, _⟩ := tick_ob h he hp0 hl hr hlink q1 q2 q3
  exact ⟨m.tid, Or.inr ⟨ob, d, hd, hrd⟩⟩

/-- a valid pair and the acceptance waits over: the tick nominates -/
theorem sys_tick_nominate {s : Sys} (h : SysOK nat blocked SLA SLB SR liteA liteB T0 H c s) {T : Nat} (hT : T ≤ H)
    (he : AdvEffect T0 T s (s.advance T).1) (htk : (s.agent c).nextTick = some T) (hsel : ¬ Sel s c) (hsucc : HasSucc s c)
    (htime : (s.agent c).selStart + Config.maxWait (s.agent c).cfg ≤ T) :
    ∃ tid la ra, Ch1 c (s.advance T).1 c tid la ra true false T ∧ Link (s.advance T).1 c la ra ∧
      ∃ d ∈ (s.advance T).1.inflight, NomD c (s.advance T).1 la ra d := by
  have hctl : (s.agent c).controlling = true := by rw [h.paired.role]; simp
  have hs : (s.agent c).selected = none := by
    cases hx : (s.agent c).selected with
    | none => rfl
    | some _ => exact absurd (by unfold Sel; rw [hx]; rfl) hsel
  obtain ⟨p, l, r, m, hp, hps, hl, hr, q1, q2, q3⟩ := agent_tick_nominate (h.good c) hT htk hctl hs hsucc htime
  obtain ⟨LA, LB, hsi⟩ := h.sinv
  have hlink := link_of_succ hsi h.topo h.paired (fun x => (h.good x).open_) (h.good c).full hp hps hl hr
  obtain ⟨ob, d, hd, hrd, hnd⟩ := tick_ob h he hp hl hr hlink q1 q2 q3
  exact ⟨m.tid, l.addr, r.addr, Or.inr ⟨ob, d, hd, hrd⟩, he.net.link hlink, d, hd, hnd rfl⟩

end

/-! ## the controlling agent's timer -/

/-- the shortest wait between two ticks this configuration can produce (over every `lastSeen`) -/
def Config.minInterval (cfg : Config) : Nat :=
  min (min ({ cfg := cfg, lastSeen := .checking } : Agent).interval ({ cfg := cfg, lastSeen := .connected } : Agent).interval)
    ({ cfg := cfg, lastSeen := .unknown } : Agent).interval

theorem interval_ge (a : Agent) : Config.minInterval a.cfg ≤ a.interval := by
  unfold Config.minInterval Agent.interval
  cases a.lastSeen <;> simp only [] <;> omega

/-- the next tick is due not before `lo` and within two seconds from `now` -/
def TickIn (lo now : Nat) (a : Agent) : Prop := ∃ t, a.nextTick = some t ∧ lo ≤ t ∧ t ≤ now + 2000000000

/-- inbound STUN leaves the timer alone or (forced tick) re-arms it from `now` -/
theorem step_inbound_nextTick (a : Agent) (now la src : Nat) (m : Msg) :
    (step a (.inbound now la src m)).1.nextTick = a.nextTick ∨
    (step a (.inbound now la src m)).1.nextTick = some (now + (step a (.inbound now la src m)).1.interval) := by
  rw [IceProofs.C03.step_inbound_proj]
  split
  · exact Or.inl rfl
  · cases hl : a.localByAddr la with
    | none => exact Or.inl rfl
    | some l =>
      simp only []
      have tf1 : (a.handleInbound now l src m).1.nextTick = a.nextTick := congrArg TF.nextTick (tf_handleInbound a now l src m)
      unfold Agent.runForced
      split
      · simp only []
        rcases Agent.contact _ now with ⟨a1, o1⟩
        exact Or.inr rfl
      · exact Or.inl tf1

theorem step_inbound_tickIn {now lo : Nat} {a : Agent} (la src : Nat) (m : Msg) (hlo : lo ≤ now + Config.minInterval a.cfg)
    (ht : TickIn lo now a) : TickIn lo now (step a (.inbound now la src m)).1 := by
  rcases step_inbound_nextTick a now la src m with e | e
  · unfold TickIn; rw [e]; exact ht
  · have h1 := interval_ge (step a (.inbound now la src m)).1
    have h2 := interval_le (step a (.inbound now la src m)).1
    rw [(step_constants a (.inbound now la src m)).2.1] at h1
    exact ⟨_, e, by omega, by omega⟩

theorem advance_single {T0 H T : Nat} {a : Agent} (hg : Good T0 H a) (hT : T ≤ H) (htk : a.nextTick = some T) :
    TickIn (T + Config.minInterval a.cfg) T (step a (.advance T)).1 ∧ (step a (.advance T)).1.selected = a.selected := by
  show TickIn _ T (a.runTimers T (99998 + 2)).1 ∧ (a.runTimers T (99998 + 2)).1.selected = _
  rw [runTimers_single a T 99998 hg.started hg.open_ htk]
  have hi := interval_le (a.contact T).1
  have hp := interval_ge (a.contact T).1
  rw [(SameId.of_core (core_contact a T)).cfg] at hp
  exact ⟨⟨T + (a.contact T).1.interval, rfl, by omega, by omega⟩,
    contact_selected a (hg.timely.valOK hT) (hg.timely.ckOK hT)⟩

theorem minInterval_pos (cfg : Config) : 0 < Config.minInterval cfg := by
  unfold Config.minInterval
  have h1 := interval_pos ({ cfg := cfg, lastSeen := .checking } : Agent)
  have h2 := interval_pos ({ cfg := cfg, lastSeen := .connected } : Agent)
  have h3 := interval_pos ({ cfg := cfg, lastSeen := .unknown } : Agent)
  omega

/-! ## the round -/

/-- the time of the round: the controlling agent's next tick -/
def roundT (c : Bool) (s : Sys) : Nat := ((s.agent c).nextTick).getD s.now

/-- advance to the controlling agent's next tick, then three waves -/
def round (c : Bool) (s : Sys) : Sys := wave (wave (wave (s.advance (roundT c s)).1))

def rounds (c : Bool) : Nat → Sys → Sys
  | 0, s => s
  | n + 1, s => rounds c n (round c s)

section
variable {nat blocked : List (Nat × Nat)} {SLA SLB SR : Nat → Prop} {liteA liteB : Bool} {T0 H : Nat} {c : Bool}

theorem HasSucc.flushN {s : Sys} (h : SysOK nat blocked SLA SLB SR liteA liteB T0 H c s) (n : Nat) {x : Bool}
    (g : HasSucc s x) : HasSucc (flushN n s) x := by
  induction n generalizing s with
  | zero => exact g
  | succ n ih =>
    cases hs : s.inflight with
    | nil => rw [IceProofs.C01Live.flushN, run_deliver0_nil s hs]; exact ih h g
    | cons hd t => exact ih h.deliver0 (g.keep (deliver0_effect h hs).2)

theorem LinkedJ.flushN {s : Sys} (h : SysOK nat blocked SLA SLB SR liteA liteB T0 H c s) (n : Nat) {P0 : Prop}
    (g : LinkedJ c P0 s) : LinkedJ c P0 (flushN n s) := by
  induction n generalizing s with
  | zero => exact g
  | succ n ih => exact ih h.deliver0 (g.step h)

theorem flushN_now {s : Sys} (h : SysOK nat blocked SLA SLB SR liteA liteB T0 H c s) (n : Nat) : (flushN n s).now = s.now := by
  induction n generalizing s with
  | zero => rfl
  | succ n ih => rw [IceProofs.C01Live.flushN, ih h.deliver0, run_deliver0_now h]

/-- the fields of an agent no suffix event changes -/
def Static (s s' : Sys) : Prop := ∀ x, (s'.agent x).selStart = (s.agent x).selStart ∧ (s'.agent x).cfg = (s.agent x).cfg

theorem Static.refl (s : Sys) : Static s s := fun _ => ⟨rfl, rfl⟩
theorem Static.trans {s1 s2 s3 : Sys} (h1 : Static s1 s2) (h2 : Static s2 s3) : Static s1 s3 :=
  fun x => ⟨(h2 x).1.trans (h1 x).1, (h2 x).2.trans (h1 x).2⟩

theorem static_step {s : Sys} (h : SysOK nat blocked SLA SLB SR liteA liteB T0 H c s) : Static s (Sys.run s (.deliver 0)) := by
  cases hs : s.inflight with
  | nil => rw [run_deliver0_nil s hs]; exact Static.refl s
  | cons hd t =>
    obtain ⟨_, he⟩ := deliver0_effect h hs
    intro x
    refine ⟨?_, (he.ids x).cfg⟩
    rcases he.cases with ⟨_, e, _⟩ | ⟨y, m, _, _, _, _, ho, k, _⟩
    · rw [e]
    · by_cases hxy : x = y
      · subst hxy; exact k.selStart
      · have e : (Sys.run s (.deliver 0)).agent x = s.agent x := by rw [bool_ne_eq_not hxy]; exact ho
        rw [e]

theorem static_flushN {s : Sys} (h : SysOK nat blocked SLA SLB SR liteA liteB T0 H c s) (n : Nat) : Static s (flushN n s) := by
  induction n generalizing s with
  | zero => exact Static.refl s
  | succ n ih => exact (static_step h).trans (ih h.deliver0)

/-- a delivery keeps the agent's timer within reach -/
theorem tickIn_step {s : Sys} (h : SysOK nat blocked SLA SLB SR liteA liteB T0 H c s) (x : Bool) {lo : Nat}
    (hlo : lo ≤ s.now + Config.minInterval (s.agent x).cfg)
    (g : TickIn lo s.now (s.agent x)) : TickIn lo s.now ((Sys.run s (.deliver 0)).agent x) := by
  cases hs : s.inflight with
  | nil => rw [run_deliver0_nil s hs]; exact g
  | cons hd t =>
    obtain ⟨_, he⟩ := deliver0_effect h hs
    rcases he.cases with ⟨_, e, _⟩ | ⟨y, m, _, _, _, hst, ho, _, _⟩
    · rw [e]; exact g
    · by_cases hxy : x = y
      · subst hxy; rw [hst]; exact step_inbound_tickIn _ _ _ hlo g
      · have e : (Sys.run s (.deliver 0)).agent x = s.agent x := by rw [bool_ne_eq_not hxy]; exact ho
        rw [e]; exact g

theorem tickIn_flushN {s : Sys} (h : SysOK nat blocked SLA SLB SR liteA liteB T0 H c s) (n : Nat) (x : Bool) {lo : Nat}
    (hlo : lo ≤ s.now + Config.minInterval (s.agent x).cfg) (g : TickIn lo s.now (s.agent x)) :
    TickIn lo s.now ((flushN n s).agent x) := by
  induction n generalizing s with
  | zero => exact g
  | succ n ih =>
    have := ih h.deliver0 (by rw [run_deliver0_now h, ((static_step h) x).2]; exact hlo)
      (by rw [run_deliver0_now h]; exact tickIn_step h x hlo g)
    rw [run_deliver0_now h] at this
    exact this

theorem pending_old_step {s s' : Sys} {LA LB LA' LB' : Log} (hsi : SInv nat blocked SLA SLB SR liteA liteB s LA LB)
    (hsi' : SInv nat blocked SLA SLB SR liteA liteB s' LA' LB') {x : Bool} {ev : Ev}
    (hst : s'.agent x = (step (s.agent x) ev).1) {pd : Pending} (hpd : pd ∈ (s'.agent x).pending) {z : Bool} {n : Nat}
    (hn : n < (s.agent z).nextTid) (ht : pd.tid = 2 * n + (if z then 1 else 0)) : pd ∈ (s.agent x).pending := by
  have hpd0 := hpd
  rw [hst] at hpd
  rcases (IceProofs.AgentC02.tid_step (s.agent x) ev).pend pd hpd with hold | hnew
  · exact hold
  · exfalso
    rw [sinv_tag hsi x] at hnew
    obtain ⟨n', _, en'⟩ := sinv_pend_tid hsi' x hpd0
    by_cases hzx : z = x
    · subst hzx; omega
    · cases z <;> cases x <;> simp at hzx ht en' <;> omega

/-- a clock advance creates no evidence of a nomination -/
theorem NomSeen.adv_back {T : Nat} {s : Sys} (h : SysOK nat blocked SLA SLB SR liteA liteB T0 H c s) (hT : T ≤ H)
    (h1 : SysOK nat blocked SLA SLB SR liteA liteB T0 H c (s.advance T).1) (he : AdvEffect T0 T s (s.advance T).1)
    (htk : (s.agent c).nextTick = some T) (g : NomSeen c (s.advance T).1) : NomSeen c s := by
  rcases g with g | ⟨d, hd, m, hm, hc, pd, hpd, hpt, hpu⟩
  · left
    unfold Sel at *
    rw [he.agent c, (advance_single (h.good c) hT htk).2] at g
    exact g
  · right
    rcases he.new_req h hT hd with hold | ⟨m', hm', hc'⟩
    · obtain ⟨LA, LB, hsi⟩ := h.sinv
      obtain ⟨LA', LB', hsi'⟩ := h1.sinv
      obtain ⟨z, n, hn, en⟩ := sinv_resp_tid hsi hold hm hc
      exact ⟨d, hold, m, hm, hc, pd, pending_old_step hsi hsi' (he.agent c) hpd hn (hpt.trans en), hpt, hpu⟩
    · rw [hm] at hm'; cases hm'; rw [hc] at hc'; cases hc'

/-- the invariant at round boundaries -/
structure RInv (nat blocked : List (Nat × Nat)) (SLA SLB SR : Nat → Prop) (liteA liteB : Bool) (T0 H : Nat) (c : Bool)
    (s : Sys) : Prop where
  ok : SysOK nat blocked SLA SLB SR liteA liteB T0 H c s
  linked : NomSeen c s → DP c s true
  tick : TickIn s.now s.now (s.agent c)

/-- everything the three waves of a round keep -/
structure WavesKeep (c : Bool) (s1 s4 : Sys) : Prop where
  now : s4.now = s1.now
  static : Static s1 s4
  succ : ∀ x, HasSucc s1 x → HasSucc s4 x
  sel : ∀ x, Sel s1 x → Sel s4 x
  tick : ∀ x lo, lo ≤ s1.now + Config.minInterval (s1.agent x).cfg → TickIn lo s1.now (s1.agent x) → TickIn lo s1.now (s4.agent x)
  linked : ∀ P0, LinkedJ c P0 s1 → LinkedJ c P0 s4

theorem wavesKeep_wave {s : Sys} (h : SysOK nat blocked SLA SLB SR liteA liteB T0 H c s) : WavesKeep c s (wave s) :=
  ⟨flushN_now h _, static_flushN h _, fun _ g => g.flushN h _, fun _ g => g.flushN h _,
   fun x _ hlo g => tickIn_flushN h _ x hlo g, fun _ g => g.flushN h _⟩

theorem WavesKeep.trans {s1 s2 s3 : Sys} (h1 : WavesKeep c s1 s2) (h2 : WavesKeep c s2 s3) : WavesKeep c s1 s3 :=
  ⟨h2.now.trans h1.now, h1.static.trans h2.static, fun x g => h2.succ x (h1.succ x g), fun x g => h2.sel x (h1.sel x g),
   fun x lo hlo g => by
     have := h2.tick x lo (by rw [h1.now, (h1.static x).2]; exact hlo) (by rw [h1.now]; exact h1.tick x lo hlo g)
     rw [h1.now] at this; exact this,
   fun P0 g => h2.linked P0 (h1.linked P0 g)⟩

end

end IceProofs.C01Live
