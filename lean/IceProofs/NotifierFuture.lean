import IceProofs.Notifier
/-!
# After a graceful close has returned nothing moves any more (used by `C11_graceful`)
-/
namespace IceProofs.Notifier
open IceModel.Notifier

theorem no_live_get {s : State} (hi : Inv s) (hg : s.gracefulReturned = true) {i : Nat} {x : DPc}
    (h : s.drainers[i]? = some x) (hx : x.isLive = true) : False := by
  have h1 := live_pos_of_get h hx
  have h2 := (hi.graceful hg).2
  have h3 := hi.k4
  omega

/-- One step from a state in which a graceful close has returned: the flag stays, no drainer is created,
no drainer moves, no handler is invoked. -/
theorem graceful_step {s s' : State} (a : Action) (hi : Inv s) (hg : s.gracefulReturned = true)
    (h : step s a = some s') :
    s'.gracefulReturned = true ∧ s'.drainers = s.drainers ∧ s'.delivered = s.delivered := by
  have hcl := (hi.graceful hg).1
  cases a with
  | enqueue e =>
    simp only [step, hcl, if_true] at h
    cases h; exact ⟨hg, rfl, rfl⟩
  | drainLock i =>
    simp only [step] at h
    split at h
    · rename_i hd; exact (no_live_get hi hg hd rfl).elim
    · cases h
  | callHandler i =>
    simp only [step] at h
    split at h
    · rename_i e hd; exact (no_live_get hi hg hd rfl).elim
    · cases h
  | handlerReturn i =>
    simp only [step] at h
    split at h
    · rename_i e hd; exact (no_live_get hi hg hd rfl).elim
    · cases h
  | drainDone i =>
    simp only [step] at h
    split at h
    · rename_i hd; exact (no_live_get hi hg hd rfl).elim
    · cases h
  | closeCall g =>
    simp only [step] at h
    cases h; exact ⟨hg, rfl, rfl⟩
  | closeBody j =>
    simp only [step] at h
    split at h
    · cases h; exact ⟨hg, rfl, rfl⟩
    · cases h
  | closeWait j =>
    simp only [step] at h
    split at h
    · split at h
      · cases h; exact ⟨rfl, rfl, rfl⟩
      · cases h
    · cases h

theorem graceful_run {s s' : State} (as : List Action) (hi : Inv s) (hg : s.gracefulReturned = true)
    (h : run s as = some s') :
    s'.gracefulReturned = true ∧ s'.drainers = s.drainers ∧ s'.delivered = s.delivered := by
  induction as generalizing s with
  | nil => simp [run] at h; subst h; exact ⟨hg, rfl, rfl⟩
  | cons a as ih =>
    simp only [run] at h
    split at h
    · rename_i s1 hs
      obtain ⟨g1, d1, e1⟩ := graceful_step a hi hg hs
      obtain ⟨g2, d2, e2⟩ := ih (inv_step a hi hs) g1 h
      exact ⟨g2, d2.trans d1, e2.trans e1⟩
    · cases h

/-- `accepted` only grows by `enqueue` on an open notifier, by exactly the event (definition of "accepted"). -/
theorem accepted_step {s s' : State} (a : Action) (h : step s a = some s') :
    s'.accepted = s.accepted ∨ (∃ e, a = .enqueue e ∧ s.closed = false ∧ s'.accepted = s.accepted ++ [e]) := by
  cases a with
  | enqueue e =>
    simp only [step] at h
    split at h
    · cases h; exact Or.inl rfl
    · rename_i hc
      right
      refine ⟨e, rfl, by simpa using hc, ?_⟩
      split at h <;> cases h <;> rfl
  | drainLock i =>
    simp only [step] at h
    split at h
    · split at h <;> cases h <;> exact Or.inl rfl
    · cases h
  | callHandler i =>
    simp only [step] at h
    split at h
    · cases h; exact Or.inl rfl
    · cases h
  | handlerReturn i =>
    simp only [step] at h
    split at h
    · cases h; exact Or.inl rfl
    · cases h
  | drainDone i =>
    simp only [step] at h
    split at h
    · cases h; exact Or.inl rfl
    · cases h
  | closeCall g => simp only [step] at h; cases h; exact Or.inl rfl
  | closeBody j =>
    simp only [step] at h
    split at h
    · cases h; exact Or.inl rfl
    · cases h
  | closeWait j =>
    simp only [step] at h
    split at h
    · split at h
      · cases h; exact Or.inl rfl
      · cases h
    · cases h

end IceProofs.Notifier
