import IceProofs.CloseSysLoop
/-! # CloseSys — loop statements that change candidates or the thread table; `inv_loopStep` -/
namespace IceProofs.CloseSys
open IceModel.CloseSys

theorem firstListed_some {l : List Cand} {i c : Nat} {cd : Cand} (h : firstListed l i = some (c, cd)) :
    i ≤ c ∧ l[c - i]? = some cd ∧ cd.listed = true := by
  induction l generalizing i with
  | nil => simp [firstListed] at h
  | cons a l ih =>
    simp only [firstListed] at h
    split at h
    · simp at h; obtain ⟨h1, h2⟩ := h; subst h1; subst h2; simp [*]
    · obtain ⟨h1, h2, h3⟩ := ih h
      refine ⟨by omega, ?_, h3⟩
      have : c - i = (c - (i + 1)) + 1 := by omega
      rw [this]; simpa using h2

theorem firstListed_none {l : List Cand} {i : Nat} (h : firstListed l i = none) :
    ∀ (c : Nat) (cd : Cand), l[c]? = some cd → cd.listed = false := by
  induction l generalizing i with
  | nil => simp
  | cons a l ih =>
    simp only [firstListed] at h
    split at h
    · simp at h
    · intro c cd hc
      cases c with
      | zero => simp at hc; subst hc; simpa using ‹¬ _ = true›
      | succ c => exact ih h c cd (by simpa using hc)

/-- the two non-final effects of `delStep` on the candidate table. -/
theorem delStep_cases {s s' : State} {fin : Bool} (h : delStep s = some (s', fin)) :
    (fin = true ∧ s' = s ∧ ∀ (c : Nat) (cd : Cand), s.cands[c]? = some cd → cd.listed = false) ∨
    (fin = false ∧ ∃ (c : Nat) (cd : Cand), s.cands[c]? = some cd ∧
      ((s' = abortCand s c) ∨ (cd.aborted = true ∧ cd.rl = .exited ∧
        s' = { s with cands := s.cands.set c { cd with listed := false } }))) := by
  unfold delStep at h
  split at h
  · rename_i hf
    simp at h
    exact Or.inl ⟨h.2, h.1.symm, firstListed_none hf⟩
  · rename_i c cd hf
    obtain ⟨_, h2, _⟩ := firstListed_some hf
    simp at h2
    split at h
    · simp at h
      exact Or.inr ⟨h.2, c, cd, h2, Or.inl h.1.symm⟩
    · rename_i hab
      split at h
      · rename_i hex
        simp at h
        refine Or.inr ⟨h.2, c, cd, h2, Or.inr ⟨by simpa using hab, by simpa using hex, h.1.symm⟩⟩
      · simp at h

/-- candidate-table update by `abortCand` / unlisting keeps the per-candidate facts. -/
theorem Inv.delCands {s s' : State} {fin : Bool} (h : Inv s) (hd : delStep s = some (s', fin)) :
    s'.done = s.done ∧ s'.once = s.once ∧ s'.snap = s.snap ∧ s'.rtask = s.rtask ∧ s'.closeRet = s.closeRet ∧
    s'.gcloseRet = s.gcloseRet ∧ s'.thr = s.thr ∧ s'.streams = s.streams ∧ s'.gcur = s.gcur ∧ s'.loop = s.loop ∧
    s'.bufClosed = s.bufClosed ∧ s'.lastAcc = s.lastAcc ∧
    (∀ (c : Nat) (cd' : Cand), s'.cands[c]? = some cd' → CandOK1 cd') ∧ CandsMono s s' ∧
    (fin = true → ∀ (c : Nat) (cd' : Cand), s'.cands[c]? = some cd' → cd'.rl = .exited) ∧
    (∀ (c : Nat) (cd' : Cand), s'.cands[c]? = some cd' → ∃ cd : Cand, s.cands[c]? = some cd ∧ cd'.rl = cd.rl) := by
  rcases delStep_cases hd with ⟨hf, rfl, hall⟩ | ⟨hf, c, cd, hc, hs' | ⟨hab, hex, hs'⟩⟩
  · refine ⟨rfl, rfl, rfl, rfl, rfl, rfl, rfl, rfl, rfl, rfl, rfl, rfl, ?_, .of_eq rfl, ?_, ?_⟩
    · intro c cd' hc; obtain ⟨a1, a2, _⟩ := h.candOK c cd' hc; exact ⟨a1, a2⟩
    · intro _ c cd' hc; exact (h.candOK c cd' hc).1 (hall c cd' hc)
    · intro c cd' hc; exact ⟨cd', hc, rfl⟩
  · subst hs'
    refine ⟨rfl, rfl, rfl, rfl, rfl, rfl, rfl, rfl, rfl, rfl, rfl, rfl, ?_, ?_, by simp [hf], ?_⟩
    · intro j cd' hj
      simp only [abortCand, List.getElem?_modify] at hj
      cases hx : s.cands[j]? with
      | none => simp [hx] at hj
      | some cd0 =>
        simp [hx] at hj
        obtain ⟨a1, a2, _⟩ := h.candOK j cd0 hx
        subst hj
        split
        · exact ⟨a1, fun _ => rfl⟩
        · exact ⟨a1, a2⟩
    · intro j cd0 hj
      simp only [abortCand, List.getElem?_modify, hj]
      refine ⟨_, rfl, ?_⟩
      split <;> simp
    · intro j cd' hj
      simp only [abortCand, List.getElem?_modify] at hj
      cases hx : s.cands[j]? with
      | none => simp [hx] at hj
      | some cd0 =>
        simp [hx] at hj
        refine ⟨cd0, rfl, ?_⟩
        subst hj; split <;> rfl
  · subst hs'
    have hlt : c < s.cands.length := by
      rcases Nat.lt_or_ge c s.cands.length with h1 | h1
      · exact h1
      · simp [List.getElem?_eq_none h1] at hc
    refine ⟨rfl, rfl, rfl, rfl, rfl, rfl, rfl, rfl, rfl, rfl, rfl, rfl, ?_, ?_, by simp [hf], ?_⟩
    · intro j cd' hj
      simp only [List.getElem?_set] at hj
      split at hj
      · simp at hj; subst hj
        exact ⟨fun _ => hex, fun _ => hab⟩
      · obtain ⟨a1, a2, _⟩ := h.candOK j cd' hj; exact ⟨a1, a2⟩
    · intro j cd0 hj
      simp only [List.getElem?_set]
      split
      · subst_vars; simp; rw [hc] at hj; cases hj; exact fun _ => hab
      · exact ⟨cd0, hj, id⟩
    · intro j cd' hj
      simp only [List.getElem?_set] at hj
      split at hj
      · subst_vars; simp at hj; subst hj; exact ⟨cd, hc, rfl⟩
      · exact ⟨cd', hj, rfl⟩


/-- `deleteAllCandidates` inside a task (Restart / Failed). -/
theorem inv_loop_tclose {s s1 : State} {fin : Bool} (h : Inv s) {o : Tid} {ops : List TOp}
    (hl : s.loop = .tclose o ops) (hd : delStep s = some (s1, fin)) :
    Inv { s1 with loop := if fin then .task o ops else .tclose o ops } := by
  obtain ⟨e1, e2, e3, e4, e5, e6, e7, e8, e9, _, _, _, hc, hm, _, _⟩ := h.delCands hd
  have hno : ∀ c, o ≠ .rl c := fun c hc => h.rlTask.2.1 c ops (hc ▸ hl)
  refine h.loopFrame (s' := { s1 with loop := if fin then .task o ops else .tclose o ops })
    e1 e2 e3 e4 e5 e6 (by simp [hl]) ?_ (.of_eq e7) (.of_eq e8) ?_ hm ?_ ⟨?_, ?_⟩ ?_ (by simpa [e7, e9] using h.gcurOK)
  · cases fin <;> simp [stage]
  · intro c cd' hcd; exact ⟨hc c cd' hcd, by cases fin <;> simp [stage]⟩
  · intro c hc; left; cases fin <;> simpa [hl, loopOps] using hc
  · intro c ops' hx; cases fin <;> simp at hx; exact absurd hx.1 (hno c)
  · intro c ops' hx; cases fin <;> simp at hx; exact absurd hx.1 (hno c)
  · cases fin <;> simp [stage]

/-- `deleteAllCandidates` in onClose (agent.go:563). -/
theorem inv_loop_ocDel {s s1 : State} {fin : Bool} (h : Inv s) (hl : s.loop = .ocDel) (hd : delStep s = some (s1, fin)) :
    Inv { s1 with loop := if fin then .ocStarted else .ocDel } := by
  obtain ⟨e1, e2, e3, e4, e5, e6, e7, e8, e9, _, _, _, hc, hm, hfin, _⟩ := h.delCands hd
  have hdn : s.done = true := h.closing (by simp [hl, stage])
  have hg := h.stages.2.2 (by simp [hl, stage])
  refine h.loopFrame (s' := { s1 with loop := if fin then .ocStarted else .ocDel })
    e1 e2 e3 e4 e5 e6 (by simp [hl]) (fun _ => hdn) (.of_eq e7) (.of_eq e8) ?_ hm ?_ ⟨?_, ?_⟩ ?_
    (by simpa [e7, e9] using h.gcurOK)
  · intro c cd' hcd
    refine ⟨hc c cd' hcd, ?_⟩
    cases fin
    · simp [stage]
    · intro _; exact hfin rfl c cd' hcd
  · cases fin <;> simp [loopOps]
  · intro c ops' hx; cases fin <;> simp at hx
  · intro c ops' hx; cases fin <;> simp at hx
  · refine ⟨?_, ?_, fun _ => (gatherFinished_congr (s := s) e9 e7).trans hg⟩ <;> cases fin <;> simp [stage]

/-- candidate_base.go:246-260 / agent.go:1377-1380 inside a task: a new started, listed candidate. -/
theorem inv_loop_startCand {s : State} (h : Inv s) {o : Tid} {ops : List TOp} {b : Bool} {n : Nat} {f : Bool}
    (hl : s.loop = .task o (.startCand b n f :: ops)) :
    Inv { s with loop := .task o ops, cands := s.cands ++ [{ blocking := b, inb := n, closeFails := f }] } := by
  refine h.loopFrame (by simp) (by simp) (by simp) (by simp) (by simp) (by simp) (by simp [hl]) (by simp [stage])
    (.of_eq rfl) (.of_eq rfl) ?_ ?_ ?_ ⟨?_, by simp⟩ (by simp [stage]) (by simpa using h.gcurOK)
  · intro c cd' hc
    simp only [List.getElem?_append] at hc
    split at hc
    · obtain ⟨a1, a2, _⟩ := h.candOK c cd' hc; exact ⟨⟨a1, a2⟩, by simp [stage]⟩
    · cases hx : c - s.cands.length with
      | zero => simp [hx] at hc; subst hc; exact ⟨⟨by simp, by simp⟩, by simp [stage]⟩
      | succ k => simp [hx] at hc
  · intro i cd hi
    have : i < s.cands.length := by
      rcases Nat.lt_or_ge i s.cands.length with h1 | h1
      · exact h1
      · simp [List.getElem?_eq_none h1] at hi
    exact ⟨cd, by rw [List.getElem?_append, if_pos this]; exact hi, id⟩
  · intro c hc; left; simp [hl, loopOps] at hc ⊢; exact hc
  · intro c ops' hx hm
    simp at hx; obtain ⟨rfl, rfl⟩ := hx
    exact h.rlTask.1 c _ hl (List.mem_cons_of_mem _ hm)


/-- agent.go:679 `go a.connectivityChecks()` (and similar `go` statements) inside a task. -/
theorem inv_loop_spawn {s : State} (h : Inv s) {o : Tid} {ops : List TOp} {t : Nat}
    (hl : s.loop = .task o (.spawn t :: ops)) :
    Inv { s with loop := .task o ops, thr := s.thr.modify t (fun th => { th with live := true }) } := by
  have hts : ThrSame s { s with loop := .task o ops, thr := s.thr.modify t (fun th => { th with live := true }) } := by
    refine ⟨by simp, ?_⟩
    intro n th' hn
    simp only [List.getElem?_modify] at hn
    cases hx : s.thr[n]? with
    | none => simp [hx] at hn
    | some th =>
      simp [hx] at hn; subst hn
      refine ⟨th, rfl, ?_⟩
      split <;> simp
  refine h.loopFrame (by simp) (by simp) (by simp) (by simp) (by simp) (by simp) (by simp [hl]) (by simp [stage])
    hts (.of_eq rfl) (h.candsKeep rfl (by simp [stage])) (.of_eq rfl) ?_ ⟨?_, by simp⟩ (by simp [stage]) ?_
  · intro c hc; left; simp [hl, loopOps] at hc ⊢; exact hc
  · intro c ops' hx hm
    simp at hx; obtain ⟨rfl, rfl⟩ := hx
    exact h.rlTask.1 c _ hl (List.mem_cons_of_mem _ hm)
  · intro g hg
    obtain ⟨th, h1, h2, h3⟩ := h.gcurOK g hg
    obtain ⟨th', h1'⟩ := getElem?_of_length_eq hts.1 h1
    obtain ⟨th0, h0, _, _, hlv, hk⟩ := hts.2 g th' h1'
    rw [h1] at h0; cases h0
    exact ⟨th', h1', by rw [hk, h2], hlv h3⟩

/-- gather.go:130-137 inside GatherCandidates' task: cancel the previous cycle, start cycle `t`. -/
theorem inv_loop_gather {s1 : State} (h1 : Inv s1) {o : Tid} {ops : List TOp} {t : Nat} {th : Th}
    (hl1 : s1.loop = .task o ops) (ht1 : s1.thr[t]? = some th) (hk : th.kind = .gather) :
    Inv { cancelCur s1 with gcur := some t, thr := (cancelCur s1).thr.set t { th with live := true } } := by
  have hlen : (cancelCur s1).thr.length = s1.thr.length := by simp only [cancelCur]; split <;> simp
  have htlt : t < s1.thr.length := by
    rcases Nat.lt_or_ge t s1.thr.length with h1 | h1
    · exact h1
    · simp [List.getElem?_eq_none h1] at ht1
  have hts : ThrSame s1 { cancelCur s1 with gcur := some t, thr := (cancelCur s1).thr.set t { th with live := true } } := by
    refine ⟨by simp [hlen], ?_⟩
    intro n th' hn
    simp only [List.getElem?_set] at hn
    split at hn
    · subst_vars
      simp [hlen, htlt] at hn; subst hn
      exact ⟨th, ht1, rfl, rfl, fun _ => rfl, rfl⟩
    · obtain ⟨th0, h1, h2, h3, h4, h5⟩ := cancelCur_thr s1 n th' hn
      exact ⟨th0, h1, h2, h3, fun hx => by rw [h4]; exact hx, h5⟩
  refine h1.loopFrame (by simp) (by simp) (by simp) (by simp) (by simp) (by simp) (by simp [hl1]) (by simp [stage, hl1])
    hts (.of_eq (by simp)) (h1.candsKeep (by simp) (by simp [stage, hl1])) (CandsMono.of_eq (by simp))
    (fun c hc => Or.inl (by simpa using hc)) ⟨by simpa using h1.rlTask.1, by simpa using h1.rlTask.2.1⟩ (by simp [stage, hl1]) ?_
  intro g hg
  simp at hg; subst hg
  exact ⟨{ th with live := true }, by simp [hlen, htlt], hk, rfl⟩

/-- every statement of the loop thread preserves `Inv`. -/
theorem inv_loopStep {s s' : State} (h : Inv s) (hs : loopStep s = some s') : Inv s' := by
  unfold loopStep at hs
  split at hs
  · rename_i hl
    split at hs
    · obtain rfl := Option.some.inj hs; exact inv_loop_idle h hl ‹_›
    · simp at hs
  · rename_i o hl
    obtain rfl := Option.some.inj hs; exact inv_loop_taskEnd h hl
  · rename_i o op ops hl
    simp only at hs
    split at hs
    · split at hs
      · obtain rfl := Option.some.inj hs; exact inv_loop_taskSkip h hl
      · simp at hs
    · obtain rfl := Option.some.inj hs; exact inv_loop_startCand h hl
    · obtain rfl := Option.some.inj hs; exact inv_loop_closeCands h hl
    · obtain rfl := Option.some.inj hs; exact inv_loop_enq h hl
    · rename_i t
      split at hs
      · rename_i th ht
        split at hs
        · rename_i hc
          obtain rfl := Option.some.inj hs
          simp at hc
          exact inv_loop_gather (inv_loop_taskSkip h hl) rfl ht hc.1
        · obtain rfl := Option.some.inj hs; exact inv_loop_taskSkip h hl
      · obtain rfl := Option.some.inj hs; exact inv_loop_taskSkip h hl
    · obtain rfl := Option.some.inj hs; exact inv_loop_cancelGather h hl
    · obtain rfl := Option.some.inj hs; exact inv_loop_spawn h hl
    · obtain rfl := Option.some.inj hs; exact inv_loop_startedFn h hl
  · rename_i o ops hl
    split at hs
    · simp at hs
    · rename_i s1 fin hd
      obtain rfl := Option.some.inj hs; exact inv_loop_tclose h hl hd
  · rename_i hl; obtain rfl := Option.some.inj hs; exact inv_loop_ocCancel h hl
  · rename_i hl
    split at hs
    · obtain rfl := Option.some.inj hs; exact inv_loop_ocWaitGather h hl ‹_›
    · simp at hs
  · rename_i hl
    split at hs
    · simp at hs
    · rename_i s1 fin hd
      obtain rfl := Option.some.inj hs; exact inv_loop_ocDel h hl hd
  · rename_i hl; obtain rfl := Option.some.inj hs; exact inv_loop_ocStarted h hl
  · rename_i hl; obtain rfl := Option.some.inj hs; exact inv_loop_ocBuf h hl
  · rename_i hl; obtain rfl := Option.some.inj hs; exact inv_loop_ocNotify h hl
  · rename_i hl; obtain rfl := Option.some.inj hs; exact inv_loop_ocDone h hl
  · simp at hs

end IceProofs.CloseSys
