import IceProofs.LineProto
import IceSpec.C11View
/-!
# C11: every typed event is read back from its printed history token
-/
namespace IceProofs.C11View
open IceSpec.LineProto IceProofs.LineProto IceSpec.C11 IceSpec.C11.View

theorem cons_toList (c : Char) (s : String) : (String.singleton c ++ s).toList = c :: s.toList := by
  simp [String.toList_append]

theorem natTok_toString (n : Nat) : natTok (toString n).toList = some n := by
  unfold natTok
  rw [String.ofList_toList]
  exact toNat?_toString n

theorem splitC_pair (a b : String) (ha : ':' ∉ a.toList) (hb : ':' ∉ b.toList) :
    splitC (String.ofList (joinC ':' [a, b]).toList) ':' = [a, b] := by
  rw [String.ofList_toList]
  apply splitC_joinC _ _ (by simp)
  intro s hs
  simp only [List.mem_cons, List.not_mem_nil, or_false] at hs
  rcases hs with rfl | rfl <;> assumption

theorem parseTok_printTok (e : HEv) : parseTok (printTok e) = some e := by
  have hd : ∀ n : Nat, ':' ∉ (toString n).toList := fun n => not_mem_toString n ':' (by decide)
  cases e with
  | enqCall k e =>
    have h : (printTok (.enqCall k e)).toList = 'E' :: (joinC ':' [toString k, toString e]).toList := cons_toList 'E' _
    unfold parseTok
    rw [h]
    simp only [splitC_pair _ _ (hd k) (hd e), toNat?_toString]
  | enqRet k =>
    have h : (printTok (.enqRet k)).toList = 'R' :: (toString k).toList := cons_toList 'R' _
    unfold parseTok; rw [h]; simp only [natTok_toString, Option.map_some]
  | enter k =>
    have h : (printTok (.enter k)).toList = 'I' :: (toString k).toList := cons_toList 'I' _
    unfold parseTok; rw [h]; simp only [natTok_toString, Option.map_some]
  | exit k =>
    have h : (printTok (.exit k)).toList = 'O' :: (toString k).toList := cons_toList 'O' _
    unfold parseTok; rw [h]; simp only [natTok_toString, Option.map_some]
  | closeCall j g =>
    have h : (printTok (.closeCall j g)).toList = 'C' :: (joinC ':' [toString j, if g then "g" else "n"]).toList :=
      cons_toList 'C' _
    unfold parseTok
    rw [h]
    cases g
    · simp only [Bool.false_eq_true, if_false, splitC_pair _ _ (hd j) (by decide : ':' ∉ "n".toList), toNat?_toString]
      rw [if_neg (by decide)]; rfl
    · simp only [if_true, splitC_pair _ _ (hd j) (by decide : ':' ∉ "g".toList), toNat?_toString]
      rfl
  | closeRet k =>
    have h : (printTok (.closeRet k)).toList = 'D' :: (toString k).toList := cons_toList 'D' _
    unfold parseTok; rw [h]; simp only [natTok_toString, Option.map_some]
  | quiet => decide
  | stuck => decide
  | leak k =>
    have h : (printTok (.leak k)).toList = 'L' :: (toString k).toList := cons_toList 'L' _
    unfold parseTok; rw [h]; simp only [natTok_toString, Option.map_some]
  | crash => decide

theorem parseGTok_printGTok (e : GEv) : parseGTok (printGTok e) = some e := by
  cases e with
  | gather k =>
    have h : (printGTok (.gather k)).toList = 'G' :: (toString k).toList := cons_toList 'G' _
    unfold parseGTok; rw [h]; simp only [natTok_toString, Option.map_some]
  | restart k =>
    have h : (printGTok (.restart k)).toList = 'R' :: (toString k).toList := cons_toList 'R' _
    unfold parseGTok; rw [h]; simp only [natTok_toString, Option.map_some]
  | state k f =>
    cases f
    · have h : (printGTok (.state k false)).toList = 'S' :: (toString k).toList := cons_toList 'S' _
      unfold parseGTok; rw [h]; simp only [natTok_toString, Option.map_some]
    · have h : (printGTok (.state k true)).toList = 'P' :: (toString k).toList := cons_toList 'P' _
      unfold parseGTok; rw [h]; simp only [natTok_toString, Option.map_some]
  | cand k =>
    have h : (printGTok (.cand k)).toList = 'c' :: (toString k).toList := cons_toList 'c' _
    unfold parseGTok; rw [h]; simp only [natTok_toString, Option.map_some]
  | nil => decide
  | settle => decide
  | close => decide

theorem mapM_print {α : Type} (parse : String → Option α) (print : α → String)
    (h : ∀ a, parse (print a) = some a) (l : List α) : (l.map print).mapM parse = some l := by
  induction l with
  | nil => rfl
  | cons a l ih => simp [List.mapM_cons, h, ih]

theorem monitorToks_print (evs : List HEv) : monitorToks (evs.map printTok) = monitorStream evs := by
  unfold monitorToks
  rw [mapM_print parseTok printTok parseTok_printTok]

theorem monitorGToks_print (needCand : Bool) (evs : List GEv) :
    monitorGToks needCand (evs.map printGTok) = monitorGather needCand evs := by
  unfold monitorGToks
  rw [mapM_print parseGTok printGTok parseGTok_printGTok]

end IceProofs.C11View
