import IceProofs.CloseSysMu2
/-! # CloseSys — the measure decreases on thread, receive-loop and environment transitions -/
namespace IceProofs.CloseSys
open IceModel.CloseSys

theorem hpot_pos_of_ne_nil (N : Nat) {p : List UOp} (h : p ≠ []) : 1 ≤ hpot N p := by
  cases p with
  | nil => exact absurd rfl h
  | cons u r => simp [hpot]; have := potU_pos N u; omega


theorem mu_expand (s s' : State) (hl : loopPot s' = loopPot s) (hN : s'.streams.length = s.streams.length)
    (ho : oncePot s' = oncePot s) :
    mu s' = loopPot s + sumBy candPot s'.cands + oncePot s + sumBy (thPot s.streams.length) s'.thr +
      sumBy (streamPot s.streams.length) s'.streams := by
  unfold mu; rw [hl, hN, ho]

/-- measure of a state whose stream `i` has been replaced by one with the same handler table. -/
theorem mu_setStream {s : State} {i : Nat} {st : Stream} (hst : s.streams[i]? = some st) (st2 : Stream)
    (hh2 : st2.hdl = st.hdl) :
    mu { s with streams := s.streams.set i st2 } + streamPot s.streams.length st =
      mu s + streamPot s.streams.length st2 := by
  have hh : HdlSame s { s with streams := s.streams.set i st2 } := by
    refine ⟨by simp, fun j => ?_⟩
    simp only [List.getElem?_set]
    split
    · subst_vars; split <;> simp_all
    · rfl
  rw [mu_expand s _ (loopPot_congr hh rfl) hh.1 rfl]
  have h1 := sumBy_set (streamPot s.streams.length) s.streams i st st2 hst
  simp only [mu] at *
  omega

/-- measure of a state whose candidate `c` has been replaced. -/
theorem mu_setCand {s : State} {c : Nat} {cd : Cand} (hc : s.cands[c]? = some cd) (cd' : Cand) :
    mu { s with cands := s.cands.set c cd' } + candPot cd = mu s + candPot cd' := by
  have e := mu_expand s { s with cands := s.cands.set c cd' } rfl rfl rfl
  have h1 := sumBy_set candPot s.cands c cd cd' hc
  rw [e]
  unfold mu
  dsimp only
  omega

theorem potT_setLoop (s : State) (l : LoopLoc) : potT { s with loop := l } = potT s := by
  funext op; cases op <;> rfl

/-- measure after the loop thread alone moved. -/
theorem mu_setLoop (s : State) (l : LoopLoc) :
    mu { s with loop := l } + loopPot s = mu s + loopPot { s with loop := l } := by
  have e : oncePot { s with loop := l } = oncePot s := rfl
  unfold mu
  dsimp only
  omega

theorem mu_thStep {s s' : State} {t : Tid} {alt : Bool} (h : Inv s) (hd : s.done = true)
    (hs : thStep s t alt = some s') : mu s' < mu s := by
  unfold thStep at hs
  split at hs
  · simp at hs
  · rename_i n
    split at hs
    · simp at hs
    · rename_i th hth
      have hget : getTh s (.api n) = some th := hth
      split at hs
      · simp at hs
      · split at hs
        · rename_i hq
          obtain rfl := Option.some.inj hs
          simp at hq
          obtain ⟨⟨⟨⟨_, hloc⟩, _⟩, _⟩, hp⟩ := hq
          have h1 := mu_setTh hget { th with prog := [] }
          have h2 : thPot s.streams.length { th with prog := [] } = 0 := by simp [thPot, hloc, locPot, hpot]
          have h3 : 1 ≤ thPot s.streams.length th := by
            simp only [thPot, hloc, locPot, if_true]
            have := hpot_pos_of_ne_nil s.streams.length hp; omega
          omega
        · split at hs
          · simp at hs
          · rename_i s1 th' hc
            obtain rfl := Option.some.inj hs
            obtain ⟨c1, c2, c3⟩ := callStep_mu h hd hget hc
            have h1 := mu_setTh c2 th'
            rw [c1.1] at h1
            omega
  · rename_i i
    split at hs
    · simp at hs
    · rename_i st hst
      have hget : getTh s (.dr i) = some st.th := by simp [getTh, hst]
      split at hs
      · simp at hs
      · rename_i hrun
        have hr : st.running = true := by simpa using hrun
        split at hs
        · rename_i hidle
          simp at hidle
          split at hs
          · obtain rfl := Option.some.inj hs
            have h1 := mu_setStream hst { st with running := false } rfl
            have h2 : streamPot s.streams.length { st with running := false } + 1 = streamPot s.streams.length st := by
              simp [streamPot, hr, hdlOf]; omega
            omega
          · rename_i e q hq
            obtain rfl := Option.some.inj hs
            have hlt : i < s.streams.length := by
              rcases Nat.lt_or_ge i s.streams.length with h1 | h1
              · exact h1
              · simp [List.getElem?_eq_none h1] at hst
            have h2 := mu_setStream hst { st with queue := q } rfl
            have h4 : streamPot s.streams.length { st with queue := q } + (1 + hpot s.streams.length (hdlOf st e)) =
                streamPot s.streams.length st := by
              simp [streamPot, hq, hdlOf]; omega
            generalize hs2 : ({ s with streams := s.streams.set i { st with queue := q } } : State) = s2 at h2 ⊢
            have hN : s2.streams.length = s.streams.length := by rw [← hs2]; simp
            have hget2 : getTh s2 (.dr i) = some st.th := by rw [← hs2]; simp [getTh, hlt]
            have h1 := mu_setTh hget2 { st.th with prog := hdlOf st e }
            rw [hN] at h1
            have h5 : thPot s.streams.length st.th = 0 := by simp [thPot, hidle.1, hidle.2, locPot, hpot]
            have h6 : thPot s.streams.length { st.th with prog := hdlOf st e } = hpot s.streams.length (hdlOf st e) := by
              simp [thPot, hidle.1, locPot]
            omega
        · split at hs
          · simp at hs
          · rename_i s1 th' hc
            obtain rfl := Option.some.inj hs
            obtain ⟨c1, c2, c3⟩ := callStep_mu h hd hget hc
            have h1 := mu_setTh c2 th'
            rw [c1.1] at h1
            omega

theorem mu_rlStep {s s' : State} {c : Nat} {alt : Bool} (hd : s.done = true) (hs : rlStep s c alt = some s') :
    mu s' < mu s := by
  unfold rlStep at hs
  split at hs
  · simp at hs
  · rename_i cd hc
    simp only at hs
    have key : ∀ cd' : Cand, candPot cd' < candPot cd → mu { s with cands := s.cands.set c cd' } < mu s := by
      intro cd' hlt; have := mu_setCand hc cd'; omega
    split at hs
    · rename_i hrl
      split at hs
      · split at hs
        · obtain rfl := Option.some.inj hs
          exact key _ (by simp [candPot, rlPot, hrl])
        · simp at hs
      · split at hs
        · obtain rfl := Option.some.inj hs
          exact key _ (by simp [candPot, rlPot, hrl]; omega)
        · simp at hs
    · rename_i hrl
      split at hs
      · obtain rfl := Option.some.inj hs
        exact key _ (by simp [candPot, rlPot, hrl]; omega)
      · simp at hs
    · rename_i hrl
      split at hs
      · simp [hd] at hs
      · split at hs
        · obtain rfl := Option.some.inj hs
          exact key _ (by simp [candPot, rlPot, hrl])
        · simp at hs
    · rename_i hrl
      split at hs
      · obtain rfl := Option.some.inj hs
        exact key _ (by simp [candPot, rlPot, hrl])
      · simp at hs
    · simp at hs

theorem mu_envStep {s s' : State} {a : Action} (hs : envStep s a = some s') : mu s' < mu s := by
  cases a with
  | envData c =>
    simp only [envStep] at hs
    split at hs
    · rename_i cd hc
      split at hs
      · rename_i hcond
        obtain rfl := Option.some.inj hs
        simp at hcond
        have := mu_setCand hc { cd with rl := .rSel, inb := cd.inb - 1 }
        have : candPot { cd with rl := .rSel, inb := cd.inb - 1 } < candPot cd := by
          simp [candPot, rlPot, hcond.1.1]; omega
        omega
      · simp at hs
    · simp at hs
  | envLoopWrite =>
    simp only [envStep] at hs
    split at hs
    · rename_i o c ops hl
      obtain rfl := Option.some.inj hs
      have h1 : loopPot { s with loop := .task o ops } + 1 = loopPot s := by
        simp [loopPot, hl, potT_setLoop]; simp [enqCost, potT]; omega
      have h2 := mu_setLoop s (.task o ops)
      omega
    · simp at hs
  | envTh t =>
    simp only [envStep] at hs
    split at hs
    · simp at hs
    · rename_i th hget
      have key : th.loc ≠ .idle → 1 ≤ locPot s.streams.length th.loc →
          mu (setTh s t (th.ret .ok)) < mu s := by
        intro hne hpos
        have h1 := mu_setTh hget (th.ret .ok)
        rw [thPot_ret, thPot_loc _ _ hne] at h1
        omega
      split at hs
      · rename_i c hloc
        obtain rfl := Option.some.inj hs
        exact key (by simp [hloc]) (by simp [hloc, locPot])
      · rename_i hloc
        split at hs
        · obtain rfl := Option.some.inj hs
          have hget2 : getTh { s with bufData := s.bufData - 1 } t = some th := by cases t <;> exact hget
          have h1 := mu_setTh hget2 (th.ret .ok)
          rw [thPot_ret, thPot_loc _ _ (by simp [hloc]), hloc] at h1
          have h2 : mu { s with bufData := s.bufData - 1 } = mu s := rfl
          simp [locPot] at h1
          omega
        · simp at hs
      · rename_i hloc
        obtain rfl := Option.some.inj hs
        exact key (by simp [hloc]) (by simp [hloc, locPot])
      · simp at hs
  | loop => simp [envStep] at hs
  | th t alt => simp [envStep] at hs
  | rl c alt => simp [envStep] at hs

end IceProofs.CloseSys
