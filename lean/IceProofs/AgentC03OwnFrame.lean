import IceProofs.AgentC03Step
/-!
# C03 — "no pair is newly validated" frame (`NoNew`) across every function of `step`

`gResp := true` / `state := .succeeded` (full agent) is written in exactly one place of the model:
`Agent.handleSuccess`, on the pair found by `findPair l r`, after the consumed pending entry passed the
symmetry test `pd.net == l.net && pd.dest == src && pd.src == l.addr`.  This file proves that as a relation
between pre- and post-state of EVERY step (all events, timers and forced ticks included).
-/
namespace IceProofs.C03
open IceModel.AgentCore

/-- `a'` validates no pair that `a` had not validated already — except possibly the pair with id `ex`:
every pair of `a'` with `gResp` (on a full agent: in state Succeeded) has an ancestor of the same id in
`a` that already had it.  (New pairs start with `gResp = false`, state Waiting.) -/
structure NoNew (ex : Option Nat) (a a' : Agent) : Prop where
  cfg : a'.cfg = a.cfg
  resp : ∀ p' ∈ a'.checklist, some p'.id ≠ ex → p'.gResp = true →
    ∃ p ∈ a.checklist, p.id = p'.id ∧ p.gResp = true
  succ : a.cfg.lite = false → ∀ p' ∈ a'.checklist, some p'.id ≠ ex → p'.state = .succeeded →
    ∃ p ∈ a.checklist, p.id = p'.id ∧ p.state = .succeeded

/-! ## The relation: reflexivity, transitivity, weakening -/

theorem NoNew.refl (ex : Option Nat) (a : Agent) : NoNew ex a a :=
  ⟨rfl, fun p' hp' _ hg => ⟨p', hp', rfl, hg⟩, fun _ p' hp' _ hs => ⟨p', hp', rfl, hs⟩⟩

/-- `NoNew` looks at the agent only through `cfg` and `checklist`. -/
theorem NoNew.of_eq {ex : Option Nat} {a a' : Agent} (hc : a'.cfg = a.cfg) (hl : a'.checklist = a.checklist) :
    NoNew ex a a' :=
  ⟨hc, fun p' hp' _ hg => ⟨p', hl ▸ hp', rfl, hg⟩, fun _ p' hp' _ hs => ⟨p', hl ▸ hp', rfl, hs⟩⟩

/-- an emptied checklist validates nothing -/
theorem NoNew.of_nil {ex : Option Nat} {a a' : Agent} (hc : a'.cfg = a.cfg) (hl : a'.checklist = []) :
    NoNew ex a a' :=
  ⟨hc, fun p' hp' => (by rw [hl] at hp'; cases hp'), fun _ p' hp' => (by rw [hl] at hp'; cases hp')⟩

theorem NoNew.trans {ex : Option Nat} {a b c : Agent} (h1 : NoNew ex a b) (h2 : NoNew ex b c) : NoNew ex a c := by
  refine ⟨h2.cfg.trans h1.cfg, ?_, ?_⟩
  · intro p'' hp'' hne hg
    obtain ⟨p', hp', hid', hg'⟩ := h2.resp p'' hp'' hne hg
    obtain ⟨p, hp, hid, hg0⟩ := h1.resp p' hp' (by rw [hid']; exact hne) hg'
    exact ⟨p, hp, hid.trans hid', hg0⟩
  · intro hl p'' hp'' hne hs
    obtain ⟨p', hp', hid', hs'⟩ := h2.succ (by rw [h1.cfg]; exact hl) p'' hp'' hne hs
    obtain ⟨p, hp, hid, hs0⟩ := h1.succ hl p' hp' (by rw [hid']; exact hne) hs'
    exact ⟨p, hp, hid.trans hid', hs0⟩

/-- without an exception is stronger than with one -/
theorem NoNew.weaken {ex : Option Nat} {a a' : Agent} (h : NoNew none a a') : NoNew ex a a' :=
  ⟨h.cfg, fun p' hp' _ hg => h.resp p' hp' (fun e => by cases e) hg,
   fun hl p' hp' _ hs => h.succ hl p' hp' (fun e => by cases e) hs⟩

theorem NoNew.trans_left {ex : Option Nat} {a b c : Agent} (h1 : NoNew ex a b) (h2 : NoNew none b c) :
    NoNew ex a c := h1.trans h2.weaken

theorem NoNew.trans_right {ex : Option Nat} {a b c : Agent} (h1 : NoNew none a b) (h2 : NoNew ex b c) :
    NoNew ex a c := h1.weaken.trans h2

/-! ## Primitive updates -/

/-- `modPair id f`: `f` keeps ids; unless `id` is the exception, `f` sets neither `gResp` nor — on a full
agent — validity on the pairs it is applied to. -/
theorem NoNew.modPair {ex : Option Nat} (a : Agent) (id : Nat) (f : Pair → Pair)
    (hid : ∀ p, (f p).id = p.id)
    (hg : some id ≠ ex → ∀ p ∈ a.checklist, p.id = id → (f p).gResp = true → p.gResp = true)
    (hs : some id ≠ ex → a.cfg.lite = false → ∀ p ∈ a.checklist, p.id = id →
      (f p).state = .succeeded → p.state = .succeeded) :
    NoNew ex a (a.modPair id f) := by
  refine ⟨rfl, ?_, ?_⟩
  · intro q hq hne hgq
    obtain ⟨p, hp, h | h⟩ := mem_updPair (l := a.checklist) hq
    · obtain ⟨e, rfl⟩ := h
      rw [hid, e] at hne
      exact ⟨p, hp, (hid p).symm, hg hne p hp e hgq⟩
    · obtain ⟨_, rfl⟩ := h
      exact ⟨q, hp, rfl, hgq⟩
  · intro hl q hq hne hsq
    obtain ⟨p, hp, h | h⟩ := mem_updPair (l := a.checklist) hq
    · obtain ⟨e, rfl⟩ := h
      rw [hid, e] at hne
      exact ⟨p, hp, (hid p).symm, hs hne hl p hp e hsq⟩
    · obtain ⟨_, rfl⟩ := h
      exact ⟨q, hp, rfl, hsq⟩

/-- `f` keeps `id`, `gResp`, and never makes a pair valid -/
theorem NoNew.modPair_keep {ex : Option Nat} (a : Agent) (id : Nat) (f : Pair → Pair)
    (hid : ∀ p, (f p).id = p.id) (hg : ∀ p, (f p).gResp = p.gResp)
    (hs : ∀ p, (f p).state = .succeeded → p.state = .succeeded) :
    NoNew ex a (a.modPair id f) :=
  NoNew.modPair a id f hid (fun _ p _ _ h => by rw [hg] at h; exact h) (fun _ _ p _ _ h => hs p h)

/-- on the excepted id anything goes (as long as ids are kept) -/
theorem NoNew.modPair_ex (a : Agent) (id : Nat) (f : Pair → Pair) (hid : ∀ p, (f p).id = p.id) :
    NoNew (some id) a (a.modPair id f) :=
  NoNew.modPair a id f hid (fun h => absurd rfl h) (fun h => absurd rfl h)

/-- a lite agent may validate pairs (the `succ` clause speaks about full agents only) -/
theorem NoNew.modPair_lite {ex : Option Nat} (a : Agent) (id : Nat) (f : Pair → Pair) (hl : a.cfg.lite = true)
    (hid : ∀ p, (f p).id = p.id) (hg : ∀ p, (f p).gResp = p.gResp) :
    NoNew ex a (a.modPair id f) :=
  NoNew.modPair a id f hid (fun _ p _ _ h => by rw [hg] at h; exact h)
    (fun _ h => by rw [hl] at h; cases h)

theorem addPair_nn {ex : Option Nat} (a : Agent) (l r : Cand) : NoNew ex a (a.addPair l r).1 := by
  have hnew : ∀ q ∈ (a.addPair l r).1.checklist, q ∈ a.checklist ∨
      q = { id := a.nextPairID + 1, l := l.uid, r := r.uid, controlling := a.controlling } := by
    intro q hq
    simp only [Agent.addPair, List.mem_append, List.mem_singleton] at hq
    exact hq
  refine ⟨rfl, ?_, ?_⟩
  · intro q hq _ hg
    rcases hnew q hq with h | rfl
    · exact ⟨q, h, rfl, hg⟩
    · cases hg
  · intro _ q hq _ hs
    rcases hnew q hq with h | rfl
    · exact ⟨q, h, rfl, hs⟩
    · cases hs

theorem wipe_nn {ex : Option Nat} (a : Agent) : NoNew ex a a.wipe := NoNew.of_nil rfl rfl

theorem setConnState_nn {ex : Option Nat} (a : Agent) (s : ConnState) : NoNew ex a (a.setConnState s).1 := by
  unfold Agent.setConnState
  split
  · exact NoNew.refl _ _
  · split
    · exact NoNew.of_nil rfl rfl
    · exact NoNew.of_eq rfl rfl

theorem select_nn {ex : Option Nat} (a : Agent) (id : Nat) : NoNew ex a (a.select id).1 := by
  rw [select_fst]
  exact (NoNew.modPair_keep a id (fun p => { p with nominated := true }) (fun _ => rfl) (fun _ => rfl)
    (fun _ h => h)).trans (NoNew.of_eq rfl rfl)

/-! ## Sending -/

theorem seenLocalSent_nn {ex : Option Nat} (a : Agent) (uid now : Nat) : NoNew ex a (a.seenLocalSent uid now) :=
  NoNew.of_eq rfl rfl

theorem seenRemoteRecv_nn {ex : Option Nat} (a : Agent) (uid now : Nat) : NoNew ex a (a.seenRemoteRecv uid now) :=
  NoNew.of_eq rfl rfl

theorem sendRequest_nn {ex : Option Nat} (a : Agent) (now : Nat) (l r : Cand) (uc : Bool) (nom : Option Nat) :
    NoNew ex a (a.sendRequest now l r uc nom).1 := by
  unfold Agent.sendRequest
  simp only []
  split
  · refine NoNew.trans ?_ (seenLocalSent_nn _ _ _)
    refine NoNew.trans ?_ (NoNew.modPair_keep _ _ _ (fun _ => rfl) (fun _ => rfl) (fun _ h => h))
    exact NoNew.of_eq rfl rfl
  · refine NoNew.trans ?_ (seenLocalSent_nn _ _ _)
    exact NoNew.of_eq rfl rfl

theorem ping_nn {ex : Option Nat} (a : Agent) (now : Nat) (l r : Cand) : NoNew ex a (a.ping now l r).1 :=
  sendRequest_nn a now l r false none

theorem sendSuccess_nn {ex : Option Nat} (a : Agent) (now : Nat) (m : Msg) (l r : Cand) :
    NoNew ex a (a.sendSuccess now m l r).1 := by
  unfold Agent.sendSuccess
  simp only []
  split
  · refine NoNew.trans ?_ (seenLocalSent_nn _ _ _)
    exact NoNew.modPair_keep _ _ _ (fun _ => rfl) (fun _ => rfl) (fun _ h => h)
  · exact seenLocalSent_nn _ _ _

/-! ## The timer path -/

theorem pingStep_nn {ex : Option Nat} (now : Nat) (a : Agent) (o : List Out) (id : Nat) :
    NoNew ex a (pingStep now (a, o) id).1 := by
  unfold pingStep
  simp only []
  cases a.pairById id with
  | none => exact NoNew.refl _ _
  | some p =>
    simp only []
    have hin : NoNew ex a (a.modPair id fun q => { q with state := .inProgress }) :=
      NoNew.modPair_keep a id (fun q => { q with state := .inProgress }) (fun _ => rfl) (fun _ => rfl)
        (fun _ h => by cases h)
    have tail : ∀ (b : Agent) (q : Pair), NoNew ex a b → NoNew ex a
        (if q.reqCount > b.cfg.maxBindingRequests then
          (b.modPair id fun p => { p with state := .failed }, o)
        else
          match b.localOf q.l, b.remoteOf q.r with
          | some l, some r =>
            let (a, o') := b.ping now l r
            (a.modPair id fun p => { p with reqCount := p.reqCount + 1 }, o ++ o')
          | _, _ => (b, o)).1 := by
      intro b q hb
      split
      · exact hb.trans (NoNew.modPair_keep b id (fun p => { p with state := .failed }) (fun _ => rfl)
          (fun _ => rfl) (fun _ h => by cases h))
      · split
        · rename_i l r _ _
          exact (hb.trans (ping_nn b now l r)).trans (NoNew.modPair_keep _ id
            (fun p => { p with reqCount := p.reqCount + 1 }) (fun _ => rfl) (fun _ => rfl) (fun _ h => h))
        · exact hb
    by_cases hw : p.state = .waiting
    · have e : (p.state == PairState.waiting) = true := by simp [hw]
      simp only [e, if_true, Bool.not_true, Bool.false_eq_true, if_false]
      exact tail _ _ hin
    · have e : (p.state == PairState.waiting) = false := by simp [hw]
      simp only [e, Bool.false_eq_true, if_false]
      by_cases hip : p.state = .inProgress
      · have e2 : (p.state == PairState.inProgress) = true := by simp [hip]
        simp only [e2, Bool.not_true, Bool.false_eq_true, if_false]
        exact tail _ _ (NoNew.refl _ _)
      · have e2 : (p.state == PairState.inProgress) = false := by simp [hip]
        simp only [e2, Bool.not_false, if_true]
        exact NoNew.refl _ _

theorem pingAll_nn {ex : Option Nat} (a : Agent) (now : Nat) : NoNew ex a (a.pingAll now).1 := by
  rw [pingAll_eq]
  apply IceProofs.List.foldl_inv (fun (acc : Agent × List Out) => NoNew ex a acc.1)
  · exact NoNew.refl _ _
  · intro b id hb
    obtain ⟨b1, o⟩ := b
    exact hb.trans (pingStep_nn now b1 o id)

theorem validateSelected_nn {ex : Option Nat} (a : Agent) (now : Nat) : NoNew ex a (a.validateSelected now).1 := by
  unfold Agent.validateSelected
  split
  · exact NoNew.refl _ _
  · exact setConnState_nn a _

theorem keepalive_nn {ex : Option Nat} (a : Agent) (now : Nat) : NoNew ex a (a.keepalive now).1 := by
  unfold Agent.keepalive
  split
  · exact NoNew.refl _ _
  · split
    · split
      · exact ping_nn _ _ _ _
      · exact NoNew.refl _ _
    · exact NoNew.refl _ _

theorem nominate_nn {ex : Option Nat} (a : Agent) (now : Nat) (p : Pair) : NoNew ex a (a.nominate now p).1 := by
  unfold Agent.nominate
  split
  · exact sendRequest_nn _ _ _ _ _ _
  · exact NoNew.refl _ _

theorem valKeep_nn {ex : Option Nat} (a : Agent) (now : Nat) : NoNew ex a (valKeep a now).1 := by
  unfold valKeep
  have h1 := validateSelected_nn (ex := ex) a now
  rcases hv : a.validateSelected now with ⟨a1, o1, ok⟩
  rw [hv] at h1
  simp only []
  split
  · exact h1.trans (keepalive_nn a1 now)
  · exact h1

theorem autoRenom_nn {ex : Option Nat} (a : Agent) (now : Nat) : NoNew ex a (a.autoRenom now).1 := by
  refine IceProofs.Auto.autoRenom_parts (P := fun x => NoNew ex a x.1) ?_ a (NoNew.refl _ _)
  exact {
    mark := fun b _ id _ h _ _ => h.trans (NoNew.modPair_keep b id (fun q => { q with state := .inProgress })
      (fun _ => rfl) (fun _ => rfl) (fun _ h => by cases h))
    ping := fun b _ l r h _ _ => h.trans (ping_nn b now l r)
    time := fun _ _ h => h.trans (NoNew.of_eq rfl rfl)
    count := fun _ _ h => h.trans (NoNew.of_eq rfl rfl)
    issue := fun b _ l r nom h _ _ _ _ _ => h.trans (sendRequest_nn b now l r true nom)
    log := fun _ _ _ h => h.trans (NoNew.of_eq rfl rfl) }

theorem valKeepAuto_nn {ex : Option Nat} (a : Agent) (now : Nat) : NoNew ex a (valKeepAuto a now).1 := by
  unfold valKeepAuto
  have h1 := validateSelected_nn (ex := ex) a now
  rcases hv : a.validateSelected now with ⟨a1, o1, ok⟩
  rw [hv] at h1
  simp only []
  split
  · exact (h1.trans (keepalive_nn a1 now)).trans (autoRenom_nn _ now)
  · exact h1

theorem contactCandidates_nn {ex : Option Nat} (a : Agent) (now : Nat) :
    NoNew ex a (a.contactCandidates now).1 := by
  unfold Agent.contactCandidates
  split
  · split
    · exact valKeepAuto_nn a now
    · split
      · exact nominate_nn _ _ _
      · split
        · exact NoNew.refl _ _
        · split
          · split
            · split
              · rename_i p _ _ _ _ _ _ _ _
                refine NoNew.trans (b := { (a.modPair p.id fun p => { p with nominated := true }) with
                    nominatedPair := some p.id }) ?_ (nominate_nn _ _ _)
                exact (NoNew.modPair_keep a p.id (fun p => { p with nominated := true }) (fun _ => rfl)
                  (fun _ => rfl) (fun _ h => h)).trans (NoNew.of_eq rfl rfl)
              · exact pingAll_nn a now
            · exact pingAll_nn a now
          · exact pingAll_nn a now
  · split
    · exact validateSelected_nn a now
    · split
      · exact valKeep_nn a now
      · exact pingAll_nn a now

theorem finish_nn {ex : Option Nat} {a : Agent} {r : Agent × List Out} (h : NoNew ex a r.1) :
    NoNew ex a (finish r).1 := h.trans (NoNew.of_eq rfl rfl)

theorem chk_nn {ex : Option Nat} (a : Agent) (now : Nat) : NoNew ex a (chk a now) := by
  unfold chk
  split
  · exact NoNew.of_eq rfl rfl
  · exact NoNew.refl _ _

theorem contact_nn {ex : Option Nat} (a : Agent) (now : Nat) : NoNew ex a (a.contact now).1 := by
  rw [contact_eq]
  split
  · exact NoNew.refl _ _
  · split
    · exact finish_nn (r := (a, [])) (NoNew.refl _ _)
    · split
      · exact finish_nn ((chk_nn a now).trans (setConnState_nn _ _))
      · exact finish_nn ((chk_nn a now).trans (contactCandidates_nn _ _))
    · exact finish_nn (contactCandidates_nn a now)

theorem runForced_nn {ex : Option Nat} (a : Agent) (now : Nat) : NoNew ex a (a.runForced now).1 := by
  unfold Agent.runForced
  split
  · have h := contact_nn (ex := ex) { a with forcePending := false } now
    rcases hk : Agent.contact { a with forcePending := false } now with ⟨a1, o1⟩
    rw [hk] at h
    simp only []
    have h0 : NoNew ex a ({ a with forcePending := false } : Agent) := NoNew.of_eq rfl rfl
    exact (h0.trans h).trans (b := a1) (NoNew.of_eq rfl rfl)
  · exact NoNew.refl _ _

theorem runTimers_nn {ex : Option Nat} (a : Agent) (now fuel : Nat) : NoNew ex a (a.runTimers now fuel).1 := by
  induction fuel generalizing a with
  | zero => exact NoNew.refl _ _
  | succ n ih =>
    unfold Agent.runTimers
    split
    · rename_i t _
      split
      · have h := contact_nn (ex := ex) a t
        rcases hk : a.contact t with ⟨a1, o1⟩
        rw [hk] at h
        simp only []
        have h2 := ih { a1 with nextTick := some (t + a1.interval) }
        rcases hr : Agent.runTimers { a1 with nextTick := some (t + a1.interval) } now n with ⟨a2, o2⟩
        rw [hr] at h2
        simp only []
        exact (h.trans (c := { a1 with nextTick := some (t + a1.interval) }) (NoNew.of_eq rfl rfl)).trans h2
      · exact NoNew.refl _ _
    · exact NoNew.refl _ _

/-! ## Candidate bookkeeping -/

theorem replStep_nn {ex : Option Nat} (old c : Cand) (a : Agent) (o : List Out) (id : Nat) :
    NoNew ex a (replStep old c (a, o) id).1 := by
  unfold replStep
  simp only []
  split
  · rename_i p _
    split
    · have h1 : NoNew ex a (a.modPair id fun q => { q with r := c.uid, prioOverride := some (a.pairPrio p) }) :=
        NoNew.modPair_keep a id (fun q => { q with r := c.uid, prioOverride := some (a.pairPrio p) })
          (fun _ => rfl) (fun _ => rfl) (fun _ h => h)
      split
      · have h2 := select_nn (ex := ex)
          (a.modPair id fun q => { q with r := c.uid, prioOverride := some (a.pairPrio p) }) id
        rcases hk : Agent.select (a.modPair id fun q => { q with r := c.uid, prioOverride := some (a.pairPrio p) }) id with ⟨a2, o2⟩
        rw [hk] at h2
        simp only []
        exact h1.trans h2
      · exact h1
    · exact NoNew.refl _ _
  · exact NoNew.refl _ _

theorem replaceRemoteInPairs_nn {ex : Option Nat} (a : Agent) (old c : Cand) :
    NoNew ex a (a.replaceRemoteInPairs old c).1 := by
  rw [replaceRemoteInPairs_eq]
  apply IceProofs.List.foldl_inv (fun (acc : Agent × List Out) => NoNew ex a acc.1)
  · exact NoNew.refl _ _
  · intro b id hb
    obtain ⟨b1, o⟩ := b
    exact hb.trans (replStep_nn old c b1 o id)

theorem supStep_nn {ex : Option Nat} (c : Cand) (a : Agent) (o : List Out) (old : Cand) :
    NoNew ex a (supStep c (a, o) old).1 := by
  have h := replaceRemoteInPairs_nn (ex := ex) a old c
  unfold supStep
  rcases hk : a.replaceRemoteInPairs old c with ⟨a1, o1⟩
  rw [hk] at h
  simp only []
  exact h.trans (b := a1) (NoNew.of_eq rfl rfl)

theorem pairStep_nn {ex : Option Nat} (c : Cand) (a : Agent) (l : Cand) : NoNew ex a (pairStep c a l) := by
  unfold pairStep
  split
  · exact NoNew.refl _ _
  · exact addPair_nn a l c

theorem addRemoteCandidate_nn {ex : Option Nat} (a : Agent) (c : Cand) :
    NoNew ex a (a.addRemoteCandidate c).1 := by
  rw [addRemoteCandidate_eq]
  split
  · exact NoNew.refl _ _
  · split
    · exact NoNew.refl _ _
    · simp only []
      generalize (List.foldl copyActivity { c with uid := a.nextUid } _) = c'
      generalize (if ({ c with uid := a.nextUid } : Cand).ty == 3 then [] else _) = replaced
      have h0 : NoNew ex a ({ a with nextUid := a.nextUid + 1, remotes := a.remotes ++ [c'] } : Agent) :=
        NoNew.of_eq rfl rfl
      have h1 : NoNew ex a (replaced.foldl (supStep c')
            (({ a with nextUid := a.nextUid + 1, remotes := a.remotes ++ [c'] } : Agent), [])).1 := by
        apply IceProofs.List.foldl_inv (fun (acc : Agent × List Out) => NoNew ex a acc.1)
        · exact h0
        · intro b old hb
          obtain ⟨b1, o⟩ := b
          exact hb.trans (supStep_nn c' b1 o old)
      generalize (replaced.foldl (supStep c')
            (({ a with nextUid := a.nextUid + 1, remotes := a.remotes ++ [c'] } : Agent), [])) = res at h1 ⊢
      obtain ⟨a1, o1⟩ := res
      have h2 : NoNew ex a ({ a1 with remotes := a1.remotes.filter fun (e : Cand) =>
          !(replaced.any fun (x : Cand) => x.uid == e.uid) } : Agent) :=
        h1.trans (b := a1) (NoNew.of_eq rfl rfl)
      simp only []
      generalize ({ a1 with remotes := a1.remotes.filter fun (e : Cand) =>
          !(replaced.any fun (x : Cand) => x.uid == e.uid) } : Agent) = a2 at h2 ⊢
      have h3 : ∀ (ls : List Cand) (b : Agent), NoNew ex a b → NoNew ex a (ls.foldl (pairStep c') b) := by
        intro ls
        induction ls with
        | nil => intro b hb; exact hb
        | cons l ls ih =>
          intro b hb
          exact ih _ (hb.trans (pairStep_nn c' b l))
      exact (h3 _ a2 h2).trans (NoNew.of_eq rfl rfl)

theorem addLocalCandidate_nn {ex : Option Nat} (a : Agent) (c : Cand) :
    NoNew ex a (a.addLocalCandidate c).1 := by
  unfold Agent.addLocalCandidate
  split
  · exact NoNew.refl _ _
  · split
    · exact NoNew.refl _ _
    · have h0 : NoNew ex a
          ({ a with nextUid := a.nextUid + 1, locals := a.locals ++ [{ c with uid := a.nextUid }] } : Agent) :=
        NoNew.of_eq rfl rfl
      have h3 : ∀ (c' : Cand) (rs : List Cand) (b : Agent), NoNew ex a b →
          NoNew ex a (rs.foldl (fun a r => (a.addPair c' r).1) b) := by
        intro c' rs
        induction rs with
        | nil => intro b hb; exact hb
        | cons r rs ih =>
          intro b hb
          exact ih _ (hb.trans (addPair_nn b c' r))
      exact (h3 { c with uid := a.nextUid } (a.remotes.filter (·.net == c.net)) _ h0).trans
        (c := Agent.requestCheck _) (NoNew.of_eq rfl rfl)

/-! ## `handleSuccess`: the one place where a pair is validated -/

theorem takePending_cfg (a : Agent) (now tid : Nat) : (a.takePending now tid).1.cfg = a.cfg := by
  unfold Agent.takePending
  simp only []
  split <;> rfl

theorem takePending_nn {ex : Option Nat} (a : Agent) (now tid : Nat) : NoNew ex a (a.takePending now tid).1 :=
  NoNew.of_eq (takePending_cfg a now tid) (takePending_frame a now tid).1

/-- `findPair` reads `checklist`, `locals`, `remotes` only -/
theorem takePending_findPair (a : Agent) (now tid : Nat) (l r : Cand) :
    (a.takePending now tid).1.findPair l r = a.findPair l r := by
  unfold Agent.takePending
  simp only []
  split <;> rfl

theorem hsFin_nn {ex : Option Nat} (a : Agent) (p : Pair) (pd : Pending) (x : Agent) : NoNew ex x (hsFin a p pd x) := by
  unfold hsFin
  split
  · split
    · exact NoNew.of_eq rfl rfl
    · exact NoNew.refl _ _
  · split
    · exact NoNew.modPair_keep x p.id hsClear (fun _ => rfl) (fun _ => rfl) (fun _ h => h)
    · exact NoNew.refl _ _

theorem hsSel_nn {ex : Option Nat} (a : Agent) (p : Pair) (pd : Pending) : NoNew ex a (hsSel a p pd).1 := by
  rcases hsSel_cases a p pd with h | ⟨h, _⟩
  · rw [h]; exact NoNew.refl _ _
  · rw [h]; exact select_nn a p.id

/-- `handleSuccess` validates nothing, or exactly the pair `findPair l r` after a pending transaction with
the right 3-tuple was consumed. -/
theorem handleSuccess_own (a : Agent) (now : Nat) (m : Msg) (l r : Cand) (src : Nat) :
    NoNew none a (a.handleSuccess now m l r src).1 ∨
    ∃ pd p, (a.takePending now m.tid).2 = some pd ∧ pd.net = l.net ∧ pd.dest = src ∧ pd.src = l.addr ∧
      a.findPair l r = some p ∧ NoNew (some p.id) a (a.handleSuccess now m l r src).1 := by
  rw [handleSuccess_eq]
  have h0 := takePending_nn (ex := none) a now m.tid
  have hfp := takePending_findPair a now m.tid l r
  generalize a.takePending now m.tid = tp at h0 hfp ⊢
  obtain ⟨a1, pend⟩ := tp
  dsimp only at h0 hfp ⊢
  cases pend with
  | none => exact Or.inl h0
  | some pd =>
    dsimp only
    split
    · exact Or.inl h0
    · rename_i hcond
      split
      · exact Or.inl h0
      · rename_i p hfind
        simp only [Bool.not_eq_true, Bool.not_eq_false', Bool.and_eq_true, beq_iff_eq] at hcond
        obtain ⟨⟨hn, hd⟩, hs⟩ := hcond
        refine Or.inr ⟨pd, p, rfl, hn, hd, hs, hfp ▸ hfind, ?_⟩
        refine NoNew.trans (NoNew.trans (NoNew.trans h0.weaken
          (NoNew.modPair_ex a1 p.id (hsMark pd) (fun _ => rfl))) ((hsSel_nn _ p pd).trans (hsFin_nn (a1.modPair p.id (hsMark pd)) p pd _))) ?_
        exact NoNew.modPair_keep _ p.id (Pair.gotResponse now pd.ts) (fun _ => rfl)
          (fun _ => rfl) (fun _ h => h)

/-! ## The request handlers validate nothing on a full agent -/

theorem reqMark_nn {ex : Option Nat} (a : Agent) (id : Nat) (m : Msg) : NoNew ex a (a.modPair id (reqMark m)) :=
  NoNew.modPair_keep a id (reqMark m) (fun _ => rfl) (fun _ => rfl) (fun _ h => h)

theorem ctlNominate_nn {ex : Option Nat} (a : Agent) (now : Nat) (l r : Cand) (p : Pair) (o : List Out) :
    NoNew ex a (ctlNominate a now l r p o).1 := by
  rcases ctlNominate_cases a now l r p o with h | h
  · rw [h]; exact NoNew.refl _ _
  · rw [h]
    exact (NoNew.of_eq (a := a) (a' := { a with nominatedPair := some p.id }) rfl rfl).trans (nominate_nn _ now p)

theorem ctlHandleRequest_nn {ex : Option Nat} (a : Agent) (now : Nat) (m : Msg) (l r : Cand) :
    NoNew ex a (a.ctlHandleRequest now m l r).1 := by
  rw [ctlHandleRequest_eq]
  have h1 := sendSuccess_nn (ex := ex) a now m l r
  generalize a.sendSuccess now m l r = ss at h1 ⊢
  obtain ⟨a1, o1⟩ := ss
  split
  · exact (h1.trans (addPair_nn a1 l r)).trans (reqMark_nn _ _ m)
  · rename_i p _
    exact (h1.trans (reqMark_nn a1 p.id m)).trans (ctlNominate_nn _ now l r p o1)

theorem cldPre_nn {ex : Option Nat} (a : Agent) (m : Msg) (l r : Cand) : NoNew ex a (cldPre a m l r).1 := by
  unfold cldPre
  split
  · exact reqMark_nn a _ m
  · exact (addPair_nn a l r).trans (reqMark_nn _ _ m)

theorem cldAccept_nn {ex : Option Nat} (a : Agent) (m : Msg) : NoNew ex a (cldAccept a m).1 := by
  rcases cldAccept_cases a m with h | ⟨v, h⟩
  · rw [h]; exact NoNew.refl _ _
  · rw [h]; exact NoNew.of_eq rfl rfl

/-- the lite agent's validation-by-nomination: only with `cfg.lite`, where `NoNew.succ` does not apply -/
theorem cldLite_nn {ex : Option Nat} (a : Agent) (id : Nat) : NoNew ex a (cldLite a id) := by
  unfold cldLite
  split
  · rename_i hl
    exact NoNew.modPair_lite a id (fun p => { p with state := .succeeded }) hl (fun _ => rfl) (fun _ => rfl)
  · exact NoNew.refl _ _

theorem cldNom_nn {ex : Option Nat} (a : Agent) (id : Nat) (m : Msg) : NoNew ex a (cldNom a id m).1 := by
  rcases cldNom_cases a id m with ⟨h, _⟩ | ⟨_, h | ⟨p, _, _, _, h⟩ | ⟨p, _, _, h⟩⟩
  · rw [h]; exact NoNew.refl _ _
  · rw [h]; exact cldLite_nn a id
  · rw [h]; exact (cldLite_nn a id).trans (select_nn _ id)
  · rw [h]
    exact (cldLite_nn a id).trans (NoNew.modPair_keep _ id
      (fun p => { p with nomOnSuccess := true, deferredNom := m.nom }) (fun _ => rfl) (fun _ => rfl) (fun _ h => h))

theorem cldPing_nn {ex : Option Nat} (a : Agent) (now : Nat) (l r : Cand) (id : Nat) :
    NoNew ex a (cldPing a now l r id).1 := by
  unfold cldPing
  split
  · split
    · exact ping_nn _ _ _ _
    · exact NoNew.refl _ _
  · exact NoNew.refl _ _

theorem cldTail_nn {ex : Option Nat} (a : Agent) (now : Nat) (m : Msg) (l r : Cand) (id : Nat) (o : List Out) :
    NoNew ex a (cldTail a now m l r id o).1 := by
  unfold cldTail
  exact (sendSuccess_nn a now m l r).trans (cldPing_nn _ now l r id)

theorem cldHandleRequest_nn {ex : Option Nat} (a : Agent) (now : Nat) (m : Msg) (l r : Cand) :
    NoNew ex a (a.cldHandleRequest now m l r).1 := by
  rw [cldHandleRequest_eq]
  have h2 : NoNew ex a (cldAccept (cldPre a m l r).1 m).1 := (cldPre_nn a m l r).trans (cldAccept_nn _ m)
  split
  · exact h2.trans (sendSuccess_nn _ now m l r)
  · exact (h2.trans (cldNom_nn _ _ m)).trans (cldTail_nn _ now m l r _ _)

/-! ## `handleInbound` -/

theorem hiReq_nn {ex : Option Nat} (a : Agent) (now : Nat) (l r : Cand) (m : Msg) (o0 : List Out) :
    NoNew ex a (hiReq a now l r m o0).1 := by
  unfold hiReq
  cases a.controlling
  · simp only [Bool.false_eq_true, if_false]
    exact (cldHandleRequest_nn a now m l r).trans (seenRemoteRecv_nn _ _ _)
  · simp only [if_true]
    exact (ctlHandleRequest_nn a now m l r).trans (seenRemoteRecv_nn _ _ _)

theorem hiRole_nn {ex : Option Nat} (a : Agent) (now : Nat) (l r : Cand) (m : Msg) (o0 : List Out) :
    NoNew ex a (hiRole a now l r m o0).1 := by
  unfold hiRole
  split
  · split
    · split
      · exact seenLocalSent_nn _ _ _
      · exact NoNew.of_eq rfl rfl
    · exact hiReq_nn a now l r m o0
  · exact hiReq_nn a now l r m o0

theorem hiDisc_nn {ex : Option Nat} (a : Agent) (l : Cand) (src : Nat) (m : Msg) :
    NoNew ex a (hiDisc a l src m).1 := by
  unfold hiDisc
  split
  · exact NoNew.refl _ _
  · exact addRemoteCandidate_nn a _

/-- `handleInbound` validates nothing, or it is an authenticated success response whose transaction was
pending with the 3-tuple it arrived on, and exactly the pair of that local/remote candidate is validated. -/
theorem handleInbound_own (a : Agent) (now : Nat) (l : Cand) (src : Nat) (m : Msg) :
    NoNew none a (a.handleInbound now l src m).1 ∨
    ∃ r pd p, m.method = 1 ∧ m.cls = 2 ∧ m.key = some a.remotePwd ∧ a.findRemote l.net src = some r ∧
      (a.takePending now m.tid).2 = some pd ∧ pd.net = l.net ∧ pd.dest = src ∧ pd.src = l.addr ∧
      a.findPair l r = some p ∧ NoNew (some p.id) a (a.handleInbound now l src m).1 := by
  rw [handleInbound_eq]
  split
  · exact Or.inl (NoNew.refl _ _)
  · rename_i hmeth
    split
    · rename_i hcls
      split
      · exact Or.inl (NoNew.refl _ _)
      · rename_i hkey
        split
        · exact Or.inl (NoNew.refl _ _)
        · rename_i r hr
          rcases handleSuccess_own a now m l r src with h | ⟨pd, p, h1, h2, h3, h4, h5, h6⟩
          · exact Or.inl (h.trans (seenRemoteRecv_nn _ _ _))
          · refine Or.inr ⟨r, pd, p, ?_, ?_, ?_, hr, h1, h2, h3, h4, h5, h6.trans (seenRemoteRecv_nn _ _ _)⟩
            · simp only [Bool.not_eq_true, Bool.not_eq_false', Bool.and_eq_true, beq_iff_eq] at hmeth
              exact hmeth.1
            · simpa using hcls
            · simpa using hkey
    · split
      · split
        · exact Or.inl (NoNew.refl _ _)
        · split
          · exact Or.inl (NoNew.refl _ _)
          · split
            · exact Or.inl (hiDisc_nn a l src m)
            · exact Or.inl ((hiDisc_nn a l src m).trans (hiRole_nn _ now l _ m _))
      · split
        · exact Or.inl (seenRemoteRecv_nn _ _ _)
        · exact Or.inl (NoNew.refl _ _)

/-! ## Data plane, restart, start -/

theorem writeVia_nn {ex : Option Nat} (a : Agent) (now : Nat) (p : Pair) (len : Nat) :
    NoNew ex a (a.writeVia now p len).1 := by
  unfold Agent.writeVia
  split
  · simp only []
    split
    · exact (seenLocalSent_nn a _ now).trans (NoNew.modPair_keep _ _
        (fun q => { q with pktSent := q.pktSent + 1, bytesSent := q.bytesSent + len })
        (fun _ => rfl) (fun _ => rfl) (fun _ h => h))
    · exact seenLocalSent_nn a _ now
  · exact NoNew.refl _ _

theorem write_nn {ex : Option Nat} (a : Agent) (now len : Nat) (sl : Bool) : NoNew ex a (a.write now len sl).1 := by
  unfold Agent.write
  split
  · exact NoNew.refl _ _
  · split
    · exact NoNew.refl _ _
    · split
      · exact NoNew.refl _ _
      · rename_i p _
        have h := writeVia_nn (ex := ex) a now p len
        rcases hk : a.writeVia now p len with ⟨a1, o1⟩
        rw [hk] at h
        simp only []
        exact h.trans (b := a1) (NoNew.of_eq rfl rfl)

theorem writeToPair_nn {ex : Option Nat} (a : Agent) (now id len : Nat) (sl : Bool) :
    NoNew ex a (a.writeToPair now id len sl).1 := by
  unfold Agent.writeToPair
  split
  · exact NoNew.refl _ _
  · split
    · exact NoNew.refl _ _
    · split
      · exact NoNew.refl _ _
      · split
        · exact NoNew.refl _ _
        · exact writeVia_nn a now _ len

theorem idFind_nn {ex : Option Nat} (a : Agent) (now : Nat) (l : Cand) (src : Nat) :
    NoNew ex a (idFind a now l src).1 := by
  unfold idFind
  split
  · exact seenRemoteRecv_nn _ _ _
  · split
    · exact NoNew.of_eq rfl rfl
    · exact NoNew.refl _ _

theorem idCount_nn {ex : Option Nat} (a : Agent) (len : Nat) : NoNew ex a (idCount a len) := by
  unfold idCount
  have h1 : NoNew ex a ({ a with rx := a.rx ++ [len] } : Agent) := NoNew.of_eq rfl rfl
  simp only []
  split
  · split
    · exact h1.trans (NoNew.modPair_keep _ _
        (fun p => { p with pktRecv := p.pktRecv + 1, bytesRecv := p.bytesRecv + len })
        (fun _ => rfl) (fun _ => rfl) (fun _ h => h))
    · exact h1
  · exact h1

theorem inboundData_nn {ex : Option Nat} (a : Agent) (now : Nat) (l : Cand) (src len : Nat) :
    NoNew ex a (a.inboundData now l src len).1 := by
  rw [inboundData_eq]
  split
  · exact idFind_nn a now l src
  split
  · exact idFind_nn a now l src
  · exact (idFind_nn a now l src).trans (idCount_nn _ len)

theorem doRestart_nn {ex : Option Nat} (a : Agent) (now : Nat) (u p : String) :
    NoNew ex a (a.doRestart now u p).1 := by
  unfold Agent.doRestart
  simp only []
  have h0 : NoNew ex a ({ a with localUfrag := u, localPwd := p, remoteUfrag := "", remotePwd := "" } : Agent) :=
    NoNew.of_eq rfl rfl
  have h1 := h0.trans (wipe_nn _)
  have h2 : NoNew ex a ({ (Agent.resetSelector (Agent.wipe
      ({ a with localUfrag := u, localPwd := p, remoteUfrag := "", remotePwd := "" } : Agent)) now) with
      generation := a.generation + 1 } : Agent) := h1.trans (NoNew.of_eq rfl rfl)
  split
  · exact h2.trans (setConnState_nn _ _)
  · exact h2

theorem startCore_nn {ex : Option Nat} (a : Agent) (now : Nat) (ctl : Bool) (ru rp : String) :
    NoNew ex a (startCore a now ctl ru rp).1 := by
  have h0 : NoNew ex a (startA0 a now ctl ru rp) := NoNew.of_eq rfl rfl
  have h1 := h0.trans (setConnState_nn (startA0 a now ctl ru rp) .checking)
  have h2 : NoNew ex a (startA1 ((startA0 a now ctl ru rp).setConnState .checking).1) :=
    h1.trans (NoNew.of_eq rfl rfl)
  exact h2.trans (runForced_nn _ now)

/-! ## Every step -/

theorem step_inbound_proj (a : Agent) (now la src : Nat) (m : Msg) :
    step a (.inbound now la src m) =
    if a.closed || !a.started then (a, []) else
    match a.localByAddr la with
    | none => (a, [])
    | some l => (((a.handleInbound now l src m).1.runForced now).1,
        (a.handleInbound now l src m).2 ++ ((a.handleInbound now l src m).1.runForced now).2) := by
  rfl

/-- Ownership of validation: a step of the agent validates no pair (no new `gResp`; on a full agent no new
Succeeded pair) — unless the event is an inbound Binding success response authenticated with the remote
password, received on a known local candidate `l` from a known remote candidate `r`, whose transaction id
was pending (`pd`) for exactly this 3-tuple; then the one pair validated is `findPair l r`. -/
theorem step_own (a : Agent) (e : Ev) :
    NoNew none a (step a e).1 ∨
    ∃ now la src m l r pd p, e = .inbound now la src m ∧ m.method = 1 ∧ m.cls = 2 ∧ m.key = some a.remotePwd ∧
      a.started = true ∧ a.closed = false ∧ a.localByAddr la = some l ∧ a.findRemote l.net src = some r ∧
      (a.takePending now m.tid).2 = some pd ∧ pd.net = l.net ∧ pd.dest = src ∧ pd.src = l.addr ∧
      a.findPair l r = some p ∧ NoNew (some p.id) a (step a e).1 := by
  cases e with
  | addLocal now c =>
    exact Or.inl ((addLocalCandidate_nn a c).trans (runForced_nn _ now))
  | addRemote now c =>
    refine Or.inl ?_
    simp only [step]
    split
    · exact NoNew.refl _ _
    · split
      · exact NoNew.refl _ _
      · exact (addRemoteCandidate_nn a c).trans (runForced_nn _ now)
  | start now ctl ru rp =>
    refine Or.inl ?_
    rw [step_start_eq]
    split
    · exact NoNew.refl _ _
    · split
      · exact NoNew.refl _ _
      · split
        · exact NoNew.refl _ _
        · split
          · exact NoNew.refl _ _
          · exact startCore_nn a now ctl ru rp
  | setRemoteCreds ru rp =>
    refine Or.inl ?_
    simp only [step]
    split
    · exact NoNew.refl _ _
    · split
      · exact NoNew.refl _ _
      · split
        · exact NoNew.refl _ _
        · exact NoNew.of_eq rfl rfl
  | advance now => exact Or.inl (runTimers_nn a now 100000)
  | inbound now la src m =>
    generalize hres : step a (.inbound now la src m) = res
    rw [step_inbound_proj] at hres
    split at hres
    · subst hres; exact Or.inl (NoNew.refl _ _)
    · rename_i hg
      split at hres
      · subst hres; exact Or.inl (NoNew.refl _ _)
      · rename_i l hl
        subst hres
        rcases handleInbound_own a now l src m with h | ⟨r, pd, p, h1, h2, h3, h4, h5, h6, h7, h8, h9, h10⟩
        · exact Or.inl (h.trans (runForced_nn _ now))
        · simp only [Bool.or_eq_true, Bool.not_eq_true', not_or, Bool.not_eq_true, Bool.not_eq_false] at hg
          exact Or.inr ⟨now, la, src, m, l, r, pd, p, rfl, h1, h2, h3, hg.2, hg.1, hl, h4, h5, h6, h7, h8, h9,
            h10.trans_left (runForced_nn _ now)⟩
  | inboundData now la src len sl =>
    refine Or.inl ?_
    simp only [step]
    split
    · exact NoNew.refl _ _
    · split
      · exact NoNew.refl _ _
      · exact inboundData_nn a now _ src len
  | write now len sl => exact Or.inl (write_nn a now len sl)
  | writeToPair now id len sl => exact Or.inl (writeToPair_nn a now id len sl)
  | read =>
    refine Or.inl ?_
    simp only [step]
    split
    · exact NoNew.refl _ _
    · split
      · exact NoNew.refl _ _
      · exact NoNew.of_eq rfl rfl
  | renominate now la ri v =>
    refine Or.inl ?_
    simp only [step]
    split
    · exact NoNew.refl _ _
    · split
      · exact NoNew.refl _ _
      · split
        · rename_i l r _ _
          split
          · exact NoNew.refl _ _
          · have h := sendRequest_nn (ex := none) a now l r true (if v > 0 then some v else none)
            generalize a.sendRequest now l r true (if v > 0 then some v else none) = s1 at h ⊢
            obtain ⟨a1, o1⟩ := s1
            exact h.trans (b := a1) (NoNew.of_eq rfl rfl)
        · exact NoNew.refl _ _
  | restart now u p =>
    refine Or.inl ?_
    simp only [step]
    split
    · exact NoNew.refl _ _
    · exact doRestart_nn a now u p
  | close =>
    refine Or.inl ?_
    simp only [step]
    split
    · exact NoNew.refl _ _
    · have h0 : NoNew none a ({ a with locals := [], remotes := [], caches := [], closed := true } : Agent) :=
        NoNew.of_eq rfl rfl
      exact h0.trans (setConnState_nn _ .closed)

end IceProofs.C03
