import IceProofs.LineProto
import IceProofs.TcpMuxView
import IceSpec.C12View
/-!
# C12: `parseWire` reads back every line printed by `printWire`
-/
namespace IceProofs.UdpMuxView
open IceSpec.LineProto IceProofs.LineProto IceSpec.C12View
open IceProofs.TcpMuxView (mem_joinC)
open IceModel.UdpMux (Name IP Addr Out)

theorem parseHandle_tok (g : Nat) : parseHandle (handleTok g) = some g := by
  simp only [parseHandle, handleTok, tagged_append, Option.bind_some, toNat?_toString]

theorem parsePid_tok (p : Nat) : parsePid (pidTok p) = some p := by
  simp only [parsePid, pidTok, tagged_append, Option.bind_some, toNat?_toString]

theorem parseHandle_pidTok (p : Nat) : parseHandle (pidTok p) = none := by
  have : tagged "h" ("p" ++ toString p) = none := by
    simp [tagged, String.toList_append, dropPre]
  simp only [parseHandle, pidTok, this, Option.bind_none]

theorem connTok_toList (i k : Nat) :
    (connTok i k).toList = 'm' :: ((toString i).toList ++ 'c' :: (toString k).toList) := by
  simp [connTok, joinC_pair, String.toList_append]

theorem parseConn_tok (i k : Nat) : parseConn (connTok i k) = some (i, k) := by
  unfold parseConn connTok
  rw [tagged_append]
  simp only
  rw [splitC_joinC 'c' _ (by simp)]
  · simp only [toNat?_toString]
  · intro s hs
    simp only [List.mem_cons, List.not_mem_nil, or_false] at hs
    rcases hs with rfl | rfl <;> exact not_mem_toString _ _ (by decide)

theorem connTok_free (i k : Nat) (d : Char) (hd : d.isDigit = false) (hm : d ≠ 'm') (hc : d ≠ 'c') :
    d ∉ (connTok i k).toList := by
  rw [connTok_toList]
  simp only [List.mem_cons, List.mem_append, not_or]
  exact ⟨hm, not_mem_toString _ _ hd, hc, not_mem_toString _ _ hd⟩

theorem connTok_ne (i k : Nat) (w : String) (h : w.toList.head? ≠ some 'm') : connTok i k ≠ w := by
  intro he
  apply h
  rw [← he, connTok_toList]
  rfl

theorem parseWord_connTok (i k : Nat) : parseWord (connTok i k) = some (.delivered i k) := by
  unfold parseWord
  rw [if_neg (connTok_ne i k _ (by decide)), if_neg (connTok_ne i k _ (by decide)),
    if_neg (connTok_ne i k _ (by decide)), if_neg (connTok_ne i k _ (by decide)),
    if_neg (connTok_ne i k _ (by decide)), if_neg (connTok_ne i k _ (by decide)),
    if_neg (connTok_ne i k _ (by decide)), if_neg (connTok_ne i k _ (by decide)), parseConn_tok]
  rfl

theorem parseTo_tok (t : Option (Nat × Nat)) : parseTo (toTok t) = some t := by
  cases t with
  | none => decide
  | some p =>
    obtain ⟨i, k⟩ := p
    show parseTo (connTok i k) = _
    unfold parseTo
    rw [if_neg (connTok_ne i k _ (by decide)), parseConn_tok]
    rfl

theorem toTok_free (t : Option (Nat × Nat)) : ' ' ∉ (toTok t).toList := by
  cases t with
  | none => decide
  | some p => exact connTok_free _ _ _ (by decide) (by decide) (by decide)

/-! ## addresses -/

theorem okZone_iff (z : Name) : okZone z = true ↔
    (∀ n ∈ z, (Char.ofNat n).toNat = n ∧ n ≠ 44 ∧ n ≠ 32) ∧ z ≠ [45] := by
  simp [okZone, and_assoc]

theorem nameOf_showName (z : Name) (h : ∀ n ∈ z, (Char.ofNat n).toNat = n) : nameOf (showName z) = z := by
  simp only [nameOf, showName, String.toList_ofList, List.map_map]
  conv => rhs; rw [← List.map_id z]
  apply List.map_congr_left
  intro n hn
  exact h n hn

theorem showName_free (z : Name) (d : Char) (h : ∀ n ∈ z, (Char.ofNat n).toNat = n ∧ n ≠ d.toNat) :
    d ∉ (showName z).toList := by
  intro hm
  simp only [showName, String.toList_ofList, List.mem_map] at hm
  obtain ⟨n, hn, rfl⟩ := hm
  exact (h n hn).2 (h n hn).1.symm

theorem showName_ne_dash (z : Name) (hv : ∀ n ∈ z, (Char.ofNat n).toNat = n) (h : z ≠ [45]) :
    showName z ≠ "-" := by
  intro he
  have h1 : z.map Char.ofNat = ['-'] := by
    have := congrArg String.toList he
    simpa [showName] using this
  cases z with
  | nil => simp at h1
  | cons n r =>
    cases r with
    | cons _ _ => simp at h1
    | nil =>
      simp only [List.map_cons, List.map_nil, List.cons.injEq, and_true] at h1
      have h2 := hv n (by simp)
      rw [h1] at h2
      apply h
      rw [← h2]
      rfl

/-- the zone token -/
def zoneTok (z : Name) : String := if z.isEmpty then "-" else showName z

theorem zoneTok_free (z : Name) (d : Char) (hd : d ≠ '-')
    (h : ∀ n ∈ z, (Char.ofNat n).toNat = n ∧ n ≠ d.toNat) : d ∉ (zoneTok z).toList := by
  unfold zoneTok
  split
  · simpa using hd
  · exact showName_free z d h

theorem zoneTok_back (z : Name) (h : okZone z = true) :
    (if zoneTok z = "-" then [] else nameOf (zoneTok z)) = z := by
  obtain ⟨hv, hd⟩ := (okZone_iff z).mp h
  unfold zoneTok
  cases z with
  | nil => rfl
  | cons n r =>
    have hne : (n :: r).isEmpty = false := rfl
    simp only [hne, Bool.false_eq_true, if_false]
    rw [if_neg (showName_ne_dash _ (fun n hn => (hv n hn).1) hd)]
    exact nameOf_showName _ (fun n hn => (hv n hn).1)

theorem showAddr_eq (a : Addr) : showAddr a =
    if a.ip.is4 then joinC ',' ["4", toString a.ip.lo, toString a.port]
    else joinC ',' ["6", toString a.ip.hi, toString a.ip.lo, zoneTok a.ip.zone, toString a.port] := rfl

theorem showAddr_free (a : Addr) (h : wfAddr a = true) : ' ' ∉ (showAddr a).toList := by
  rw [showAddr_eq]
  intro hm
  split at hm
  · rcases mem_joinC _ _ _ hm with hm | ⟨s, hs, hds⟩
    · exact absurd hm (by decide)
    · simp only [List.mem_cons, List.not_mem_nil, or_false] at hs
      rcases hs with rfl | rfl | rfl
      · exact absurd hds (by decide)
      · exact not_mem_toString _ _ (by decide) hds
      · exact not_mem_toString _ _ (by decide) hds
  · rename_i h4
    rcases mem_joinC _ _ _ hm with hm | ⟨s, hs, hds⟩
    · exact absurd hm (by decide)
    · simp only [List.mem_cons, List.not_mem_nil, or_false] at hs
      have hz : okZone a.ip.zone = true := by simpa [wfAddr, h4] using h
      obtain ⟨hv, _⟩ := (okZone_iff _).mp hz
      rcases hs with rfl | rfl | rfl | rfl | rfl
      · exact absurd hds (by decide)
      · exact not_mem_toString _ _ (by decide) hds
      · exact not_mem_toString _ _ (by decide) hds
      · exact zoneTok_free _ ' ' (by decide) (fun n hn => ⟨(hv n hn).1, (hv n hn).2.2⟩) hds
      · exact not_mem_toString _ _ (by decide) hds

theorem parseAddr_showAddr (a : Addr) (h : wfAddr a = true) : parseAddr (showAddr a) = some a := by
  obtain ⟨⟨is4, hi, lo, zone⟩, port⟩ := a
  rw [showAddr_eq]
  cases is4 with
  | true =>
    simp only [wfAddr, if_true, Bool.and_eq_true, beq_iff_eq] at h
    obtain ⟨rfl, rfl⟩ := h
    simp only [if_true]
    unfold parseAddr
    rw [splitC_joinC ',' _ (by simp)]
    · simp only [if_true, toNat?_toString]
    · intro s hs
      simp only [List.mem_cons, List.not_mem_nil, or_false] at hs
      rcases hs with rfl | rfl | rfl
      · decide
      · exact not_mem_toString _ _ (by decide)
      · exact not_mem_toString _ _ (by decide)
  | false =>
    simp only [wfAddr, Bool.false_eq_true, if_false] at h
    obtain ⟨hv, _⟩ := (okZone_iff _).mp h
    simp only [Bool.false_eq_true, if_false]
    unfold parseAddr
    rw [splitC_joinC ',' _ (by simp)]
    · simp only [if_true, toNat?_toString, zoneTok_back zone h]
    · intro s hs
      simp only [List.mem_cons, List.not_mem_nil, or_false] at hs
      rcases hs with rfl | rfl | rfl | rfl | rfl
      · decide
      · exact not_mem_toString _ _ (by decide)
      · exact not_mem_toString _ _ (by decide)
      · exact zoneTok_free _ _ (by decide) (fun n hn => ⟨(hv n hn).1, (hv n hn).2.1⟩)
      · exact not_mem_toString _ _ (by decide)

/-! ## what `parseAddr` yields is printable -/

theorem mem_splitOnP {α : Type} (p : α → Bool) (xs : List α) :
    ∀ l ∈ List.splitOnP p xs, ∀ x ∈ l, p x = false ∧ x ∈ xs := by
  induction xs with
  | nil => intro l hl x hx; simp [List.splitOnP_nil] at hl; subst hl; cases hx
  | cons a xs ih =>
    intro l hl x hx
    rw [List.splitOnP_cons_eq_if_modifyHead] at hl
    split at hl
    · simp only [List.mem_cons] at hl
      rcases hl with rfl | hl
      · cases hx
      · exact ⟨(ih l hl x hx).1, List.mem_cons_of_mem _ (ih l hl x hx).2⟩
    · rename_i hp
      cases hs : List.splitOnP p xs with
      | nil => rw [hs] at hl; simp at hl
      | cons h t =>
        rw [hs] at hl ih
        simp only [List.modifyHead_cons, List.mem_cons] at hl
        rcases hl with rfl | hl
        · simp only [List.mem_cons] at hx
          rcases hx with rfl | hx
          · exact ⟨by simpa using hp, by simp⟩
          · exact ⟨(ih h (by simp) x hx).1, List.mem_cons_of_mem _ (ih h (by simp) x hx).2⟩
        · exact ⟨(ih l (by simp [hl]) x hx).1, List.mem_cons_of_mem _ (ih l (by simp [hl]) x hx).2⟩

/-- a piece of a split text holds no separator and only characters of the text -/
theorem mem_splitC (s : String) (c : Char) (t : String) (ht : t ∈ splitC s c) (d : Char) (hd : d ∈ t.toList) :
    d ≠ c ∧ d ∈ s.toList := by
  simp only [splitC, List.mem_map] at ht
  obtain ⟨l, hl, rfl⟩ := ht
  simp only [String.toList_ofList] at hd
  have := mem_splitOnP (fun x => x == c) s.toList l hl d hd
  exact ⟨by simpa using this.1, this.2⟩

theorem toNat_eq_char (c : Char) (d : Char) (h : c.toNat = d.toNat) : c = d := by
  have h1 : Char.ofNat c.toNat = Char.ofNat d.toNat := by rw [h]
  simpa [Char.ofNat_toNat] using h1

theorem okZone_nameOf (z : String) (hc : ',' ∉ z.toList) (hs : ' ' ∉ z.toList) (hd : z ≠ "-") :
    okZone (nameOf z) = true := by
  rw [okZone_iff]
  constructor
  · intro n hn
    simp only [nameOf, List.mem_map] at hn
    obtain ⟨c, hcm, rfl⟩ := hn
    refine ⟨by rw [Char.ofNat_toNat], ?_, ?_⟩
    · intro h; exact hc (toNat_eq_char c ',' h ▸ hcm)
    · intro h; exact hs (toNat_eq_char c ' ' h ▸ hcm)
  · intro h
    apply hd
    have h1 : z.toList = ['-'] := by
      simp only [nameOf] at h
      cases hz : z.toList with
      | nil => rw [hz] at h; simp at h
      | cons c r =>
        rw [hz] at h
        cases r with
        | cons _ _ => simp at h
        | nil =>
          simp only [List.map_cons, List.map_nil, List.cons.injEq, and_true] at h
          rw [toNat_eq_char c '-' h]
    exact String.toList_inj.mp h1

/-- every address the driver reads from a space-free token is printable -/
theorem wfAddr_parseAddr (tok : String) (a : Addr) (h : parseAddr tok = some a) (hs : ' ' ∉ tok.toList) :
    wfAddr a = true := by
  unfold parseAddr at h
  split at h
  · split at h
    · split at h
      · injection h with h; subst h; rfl
      · cases h
    · cases h
  · rename_i f hi lo z p hsp
    split at h
    · split at h
      · injection h with h
        subst h
        simp only [wfAddr, Bool.false_eq_true, if_false]
        split
        · rfl
        · rename_i hz
          have hz' : z ∈ splitC tok ',' := by rw [hsp]; simp
          exact okZone_nameOf z (fun hm => (mem_splitC tok ',' z hz' ',' hm).1 rfl)
            (fun hm => hs (mem_splitC tok ',' z hz' ' ' hm).2) hz
      · cases h
    · cases h
  · cases h

/-! ## the line -/

theorem handleTok_free (g : Nat) : ' ' ∉ (handleTok g).toList := by
  simp only [handleTok, String.toList_append, List.mem_append, not_or]
  exact ⟨by decide, not_mem_toString _ _ (by decide)⟩

theorem pidTok_free (g : Nat) : ' ' ∉ (pidTok g).toList := by
  simp only [pidTok, String.toList_append, List.mem_append, not_or]
  exact ⟨by decide, not_mem_toString _ _ (by decide)⟩

theorem flagTok_free (w : Bool) : ' ' ∉ (flagTok w).toList := by cases w <;> decide

theorem parseWire_conn (g i k : Nat) : parseWire (printWire (.conn g i k)) = some (.conn g i k) := by
  unfold parseWire printWire
  rw [splitC_joinC ' ' _ (by simp)]
  · simp only [parseHandle_tok, parseConn_tok, Option.map_some]
  · intro s hs
    simp only [List.mem_cons, List.not_mem_nil, or_false] at hs
    rcases hs with rfl | rfl
    · exact handleTok_free g
    · exact connTok_free _ _ _ (by decide) (by decide) (by decide)

theorem parseWire_delivered (i k : Nat) : parseWire (printWire (.delivered i k)) = some (.delivered i k) := by
  unfold parseWire printWire
  rw [splitC_single ' ' _ (connTok_free _ _ _ (by decide) (by decide) (by decide))]
  exact parseWord_connTok i k

theorem parseWire_pkt (pid : Nat) (src : Addr) (h : wfAddr src = true) :
    parseWire (printWire (.pkt pid src)) = some (.pkt pid src) := by
  unfold parseWire printWire
  rw [splitC_joinC ' ' _ (by simp)]
  · simp only [parseHandle_pidTok, parsePid_tok, parseAddr_showAddr src h]
  · intro s hs
    simp only [List.mem_cons, List.not_mem_nil, or_false] at hs
    rcases hs with rfl | rfl
    · exact pidTok_free pid
    · exact showAddr_free src h

theorem parseWire_closeIn (w : Bool) (t : Option (Nat × Nat)) :
    parseWire (printWire (.closeIn w t)) = some (.closeIn w t) := by
  unfold parseWire printWire
  rw [splitC_joinC ' ' _ (by simp)]
  · cases w
    · have h1 : ¬ ("q" = "w") := by decide
      have h2 : flagTok false = "q" := rfl
      simp only [if_true, h2, if_neg h1, parseTo_tok, Option.map_some]
    · have h2 : flagTok true = "w" := rfl
      simp only [if_true, h2, parseTo_tok, Option.map_some]
  · intro s hs
    simp only [List.mem_cons, List.not_mem_nil, or_false] at hs
    rcases hs with rfl | rfl | rfl
    · decide
    · exact flagTok_free w
    · exact toTok_free t

/-- THE round trip of the C12 output line -/
theorem parseWire_printWire (x : Wire) (h : x.wf = true) : parseWire (printWire x) = some x := by
  cases x with
  | conn g i k => exact parseWire_conn g i k
  | delivered i k => exact parseWire_delivered i k
  | pkt pid src => exact parseWire_pkt pid src h
  | closeIn w t => exact parseWire_closeIn w t
  | errClosed => decide
  | errAddr => decide
  | ok => decide
  | errSock => decide
  | bad => decide
  | dropped => decide
  | empty => decide
  | eof => decide

theorem wf_toWire (i g : Nat) (o : Out) : (toWire i g o).wf = wfOut o := by cases o <;> rfl

/-- the driver's printer against the driver's parser, on the typed outputs of the model -/
theorem parseWire_printOut (i g : Nat) (o : Out) (h : wfOut o = true) :
    parseWire (printOut i g o) = some (toWire i g o) :=
  parseWire_printWire _ (by rw [wf_toWire]; exact h)

theorem printCloseIn_eq (w : Bool) (i : Nat) (o : Out) (x : Wire) (h : closeInWire w i o = some x) :
    printCloseIn w i o = printWire x := by
  cases o <;> simp only [closeInWire, Option.some.injEq, reduceCtorEq] at h <;> subst h <;> rfl

/-- nothing the monitor judges is lost on the line: the typed output is recovered from the line, given what
the operation's plain success is called (`wrote` / `done`) and the mux-local handle id -/
theorem ofWire_toWire (i g : Nat) (o okIs : Out) (h : Nat)
    (hok : o = .wrote ∨ o = .done → o = okIs) (hh : ∀ h' c, o = .conn h' c → h' = h) :
    ofWire okIs h (toWire i g o) = some o := by
  cases o <;> simp only [toWire, ofWire]
  · rw [hh _ _ rfl]
  · rw [← hok (Or.inl rfl)]
  · rw [← hok (Or.inr rfl)]

end IceProofs.UdpMuxView
