import IceProofs.CloseSysInv
/-! # CloseSys — frame lemmas (what the helper updates leave unchanged) -/
namespace IceProofs.CloseSys
open IceModel.CloseSys

/-- every stream of `s'` comes from a stream of `s` at the same index, same drainer thread, and a closed
notifier stays closed and stays without drainer. -/
def StreamsMono (s s' : State) : Prop :=
  ∀ (j : Nat) (st' : Stream), s'.streams[j]? = some st' → ∃ st : Stream, s.streams[j]? = some st ∧
    (st.ndone = true → st'.ndone = true ∧ (st.running = false → st'.running = false))

theorem StreamsMono.refl' {s s' : State} (h : s'.streams = s.streams) : StreamsMono s s' := by
  intro j st' hj; exact ⟨st', by rw [← h]; exact hj, fun h => ⟨h, id⟩⟩

theorem Quiet.mono {s s' : State} {i : Nat} {g : Bool} (h : Quiet s i g) (m : StreamsMono s s') : Quiet s' i g := by
  intro j st' hj hst'
  obtain ⟨st, hst, hm⟩ := m j st' hst'
  obtain ⟨h1, h2⟩ := h j st hj hst
  obtain ⟨h3, h4⟩ := hm h1
  exact ⟨h3, fun hg => h4 (h2 hg)⟩

/-- `ThOK` only depends on `once`, on `loop = exited` and (monotonically) on the streams. -/
theorem ThOK.frame {s s' : State} {tid : Tid} {th : Th} (h : ThOK s tid th) (ho : s'.once = s.once)
    (hl : s.loop = .exited → s'.loop = .exited) (m : StreamsMono s s') : ThOK s' tid th := by
  unfold ThOK at *
  split at h
  · rw [ho]; exact h
  · rw [ho]; exact h
  · obtain ⟨h1, h2, h3⟩ := h
    exact ⟨ho ▸ h1, hl h2, h3.mono m⟩
  · obtain ⟨h0, h1, h2, h3, h4⟩ := h
    refine ⟨h0, ho ▸ h1, hl h2, h3.mono m, ?_⟩
    intro st' hst'
    obtain ⟨st, hst, hm⟩ := m _ st' hst'
    exact (hm (h4 st hst)).1
  · trivial

/-! ### enqueue -/
@[simp] theorem enqueue_done (s : State) (i e : Nat) : (enqueue s i e).done = s.done := by
  unfold enqueue; split <;> (try split) <;> rfl
@[simp] theorem enqueue_once (s : State) (i e : Nat) : (enqueue s i e).once = s.once := by
  unfold enqueue; split <;> (try split) <;> rfl
@[simp] theorem enqueue_snap (s : State) (i e : Nat) : (enqueue s i e).snap = s.snap := by
  unfold enqueue; split <;> (try split) <;> rfl
@[simp] theorem enqueue_loop (s : State) (i e : Nat) : (enqueue s i e).loop = s.loop := by
  unfold enqueue; split <;> (try split) <;> rfl
@[simp] theorem enqueue_cands (s : State) (i e : Nat) : (enqueue s i e).cands = s.cands := by
  unfold enqueue; split <;> (try split) <;> rfl
@[simp] theorem enqueue_thr (s : State) (i e : Nat) : (enqueue s i e).thr = s.thr := by
  unfold enqueue; split <;> (try split) <;> rfl
@[simp] theorem enqueue_gcur (s : State) (i e : Nat) : (enqueue s i e).gcur = s.gcur := by
  unfold enqueue; split <;> (try split) <;> rfl
@[simp] theorem enqueue_rtask (s : State) (i e : Nat) : (enqueue s i e).rtask = s.rtask := by
  unfold enqueue; split <;> (try split) <;> rfl
@[simp] theorem enqueue_bufClosed (s : State) (i e : Nat) : (enqueue s i e).bufClosed = s.bufClosed := by
  unfold enqueue; split <;> (try split) <;> rfl
@[simp] theorem enqueue_startedCh (s : State) (i e : Nat) : (enqueue s i e).startedCh = s.startedCh := by
  unfold enqueue; split <;> (try split) <;> rfl
@[simp] theorem enqueue_closeRet (s : State) (i e : Nat) : (enqueue s i e).closeRet = s.closeRet := by
  unfold enqueue; split <;> (try split) <;> rfl
@[simp] theorem enqueue_gcloseRet (s : State) (i e : Nat) : (enqueue s i e).gcloseRet = s.gcloseRet := by
  unfold enqueue; split <;> (try split) <;> rfl
@[simp] theorem enqueue_tasksRun (s : State) (i e : Nat) : (enqueue s i e).tasksRun = s.tasksRun := by
  unfold enqueue; split <;> (try split) <;> rfl
@[simp] theorem enqueue_bufData (s : State) (i e : Nat) : (enqueue s i e).bufData = s.bufData := by
  unfold enqueue; split <;> (try split) <;> rfl

/-- a stream after `enqueue`: same thread, same flags except that an open notifier may have gained an
event and a drainer. -/
theorem enqueue_stream (s : State) (i e j : Nat) (st' : Stream) (h : (enqueue s i e).streams[j]? = some st') :
    ∃ st : Stream, s.streams[j]? = some st ∧ st'.th = st.th ∧ st'.ndone = st.ndone ∧ st'.hdl = st.hdl ∧
      (st.running = true → st'.running = true) ∧ (st.ndone = true → st' = st) := by
  unfold enqueue at h
  split at h
  · exact ⟨st', h, rfl, rfl, rfl, id, fun _ => rfl⟩
  · rename_i st hi
    split at h
    · exact ⟨st', h, rfl, rfl, rfl, id, fun _ => rfl⟩
    · rename_i hnd
      simp only [List.getElem?_set] at h
      split at h
      · subst_vars
        split at h
        · simp at h; subst h
          exact ⟨st, hi, rfl, rfl, rfl, fun _ => rfl, fun h => absurd h hnd⟩
        · simp at h
      · exact ⟨st', h, rfl, rfl, rfl, id, fun _ => rfl⟩

theorem enqueue_mono (s : State) (i e : Nat) : StreamsMono s (enqueue s i e) := by
  intro j st' h
  obtain ⟨st, h1, _, h3, _, _, h6⟩ := enqueue_stream s i e j st' h
  exact ⟨st, h1, fun hd => by rw [h6 hd]; exact ⟨hd, id⟩⟩

theorem enqueue_lastAcc_closed (s : State) (st : Stream) (h : s.streams[0]? = some st) (hn : st.ndone = false) :
    (enqueue s 0 0).lastAcc = some 0 := by
  unfold enqueue; simp [h, hn]

/-! ### cancelCur -/
@[simp] theorem cancelCur_done (s : State) : (cancelCur s).done = s.done := by unfold cancelCur; split <;> rfl
@[simp] theorem cancelCur_once (s : State) : (cancelCur s).once = s.once := by unfold cancelCur; split <;> rfl
@[simp] theorem cancelCur_snap (s : State) : (cancelCur s).snap = s.snap := by unfold cancelCur; split <;> rfl
@[simp] theorem cancelCur_loop (s : State) : (cancelCur s).loop = s.loop := by unfold cancelCur; split <;> rfl
@[simp] theorem cancelCur_cands (s : State) : (cancelCur s).cands = s.cands := by unfold cancelCur; split <;> rfl
@[simp] theorem cancelCur_streams (s : State) : (cancelCur s).streams = s.streams := by unfold cancelCur; split <;> rfl
@[simp] theorem cancelCur_gcur (s : State) : (cancelCur s).gcur = s.gcur := by unfold cancelCur; split <;> rfl
@[simp] theorem cancelCur_rtask (s : State) : (cancelCur s).rtask = s.rtask := by unfold cancelCur; split <;> rfl
@[simp] theorem cancelCur_bufClosed (s : State) : (cancelCur s).bufClosed = s.bufClosed := by unfold cancelCur; split <;> rfl
@[simp] theorem cancelCur_lastAcc (s : State) : (cancelCur s).lastAcc = s.lastAcc := by unfold cancelCur; split <;> rfl
@[simp] theorem cancelCur_closeRet (s : State) : (cancelCur s).closeRet = s.closeRet := by unfold cancelCur; split <;> rfl
@[simp] theorem cancelCur_gcloseRet (s : State) : (cancelCur s).gcloseRet = s.gcloseRet := by unfold cancelCur; split <;> rfl
@[simp] theorem cancelCur_tasksRun (s : State) : (cancelCur s).tasksRun = s.tasksRun := by unfold cancelCur; split <;> rfl
@[simp] theorem cancelCur_bufData (s : State) : (cancelCur s).bufData = s.bufData := by unfold cancelCur; split <;> rfl

/-- a thread after `cancelCur`: same except possibly `cancelled`. -/
theorem cancelCur_thr (s : State) (n : Nat) (th' : Th) (h : (cancelCur s).thr[n]? = some th') :
    ∃ th : Th, s.thr[n]? = some th ∧ th'.loc = th.loc ∧ th'.prog = th.prog ∧ th'.live = th.live ∧ th'.kind = th.kind := by
  unfold cancelCur at h
  split at h
  · exact ⟨th', h, rfl, rfl, rfl, rfl⟩
  · simp only [List.getElem?_modify] at h
    cases hs : s.thr[n]? with
    | none => simp [hs] at h
    | some th =>
      simp [hs] at h
      refine ⟨th, rfl, ?_⟩
      subst h
      split <;> simp

end IceProofs.CloseSys
