import IceProofs.CloseSysClose
/-! # CloseSys — `Inv` is preserved by every transition; `Reach → Inv` -/
namespace IceProofs.CloseSys
open IceModel.CloseSys

theorem gk_ret {th : Th} {r : Ret} : (GProg th.prog ∧ GLoc th.loc) → GProg (th.ret r).prog ∧ GLoc (th.ret r).loc :=
  fun h => ⟨h.1.tail, by simp [Th.ret, GLoc]⟩

theorem inv_callStep {s s1 : State} {t : Tid} {th th' : Th} {alt : Bool} (h : Inv s)
    (hget : getTh s t = some th) (ha : Active s t th) (hs : callStep s t th alt = some (s1, th')) :
    Inv (setTh s1 t th') := by
  have hok := h.thOK hget
  have hlc := h.thLocal hget
  unfold callStep at hs
  split at hs
  · -- idle
    rename_i hloc
    have hpre : ∀ g, th.loc ≠ .cPre g := by simp [hloc]
    split at hs
    · simp at hs
    · rename_i ctx task r hp
      have hnf := not_finished_of_prog hp
      split at hs
      · obtain ⟨rfl, rfl⟩ := Prod.mk.inj (Option.some.inj hs)
        exact inv_call_simple h hget ha _ ⟨rfl, rfl⟩ hnf hpre (by simp [ThOK, Th.ret]) gk_ret
      · obtain ⟨rfl, rfl⟩ := Prod.mk.inj (Option.some.inj hs)
        exact inv_call_simple h hget ha _ ⟨rfl, rfl⟩ hnf hpre (by simp [ThOK]) (fun hg => ⟨hg.1, by simp [GLoc]⟩)
    · rename_i g r hp
      have hnf := not_finished_of_prog hp
      obtain ⟨rfl, rfl⟩ := Prod.mk.inj (Option.some.inj hs)
      refine inv_call_simple h hget ha _ ⟨rfl, rfl⟩ hnf hpre (by simp [ThOK]) (fun hg => ?_)
      have := hg.1 (.close g) (by simp [hp]); simp at this
    · rename_i r hp
      have hnf := not_finished_of_prog hp
      have hng : ¬ (GProg th.prog ∧ GLoc th.loc) := by
        intro hg; have := hg.1 .read (by simp [hp]); simp at this
      split at hs
      · obtain ⟨rfl, rfl⟩ := Prod.mk.inj (Option.some.inj hs)
        exact inv_call_simple h hget ha _ ⟨rfl, rfl⟩ hnf hpre (by simp [ThOK, Th.ret]) gk_ret
      · obtain ⟨rfl, rfl⟩ := Prod.mk.inj (Option.some.inj hs)
        exact inv_call_simple h hget ha _ ⟨rfl, rfl⟩ hnf hpre (by simp [ThOK]) (fun hg => absurd hg hng)
    · rename_i c r hp
      have hnf := not_finished_of_prog hp
      have hng : ¬ (GProg th.prog ∧ GLoc th.loc) := by
        intro hg; have := hg.1 (.write c) (by simp [hp]); simp at this
      split at hs
      · obtain ⟨rfl, rfl⟩ := Prod.mk.inj (Option.some.inj hs)
        exact inv_call_simple h hget ha _ ⟨rfl, rfl⟩ hnf hpre (by simp [ThOK, Th.ret]) gk_ret
      · obtain ⟨rfl, rfl⟩ := Prod.mk.inj (Option.some.inj hs)
        exact inv_call_simple h hget ha _ ⟨rfl, rfl⟩ hnf hpre (by simp [ThOK]) (fun hg => absurd hg hng)
    · rename_i r hp
      have hnf := not_finished_of_prog hp
      have hng : ¬ (GProg th.prog ∧ GLoc th.loc) := by
        intro hg; have := hg.1 .await (by simp [hp]); simp at this
      obtain ⟨rfl, rfl⟩ := Prod.mk.inj (Option.some.inj hs)
      exact inv_call_simple h hget ha _ ⟨rfl, rfl⟩ hnf hpre (by simp [ThOK]) (fun hg => absurd hg hng)
    · rename_i r hp
      have hnf := not_finished_of_prog hp
      obtain ⟨rfl, rfl⟩ := Prod.mk.inj (Option.some.inj hs)
      exact inv_call_simple h hget ha _ ⟨rfl, rfl⟩ hnf hpre (by simp [ThOK, Th.ret]) gk_ret
  · -- rSel
    rename_i ctx task hloc
    have hpre : ∀ g, th.loc ≠ .cPre g := by simp [hloc]
    have hnf := not_finished_of_loc (th := th) (by simp [hloc])
    split at hs
    · split at hs
      · rename_i hcond
        obtain ⟨rfl, rfl⟩ := Prod.mk.inj (Option.some.inj hs)
        simp at hcond
        have hrl : ∀ c, t = .rl c → TOp.closeCands ∉ task := by
          intro c e; subst e; simp [getTh] at hget
        have h1 := h.handoff (o := t) (task := task) (n := s.tasksRun + 1) hcond.1.1 hcond.1.2 hcond.2 hrl
        have hget1 : getTh { s with loop := .task t task, tasksRun := s.tasksRun + 1 } t = some th := by
          cases t <;> exact hget
        have ha1 : Active { s with loop := .task t task, tasksRun := s.tasksRun + 1 } t th := by
          cases t <;> exact ha
        exact inv_call_simple h1 hget1 ha1 _ ⟨rfl, rfl⟩ hnf hpre (by simp [ThOK]) (fun hg => ⟨hg.1, by simp [GLoc]⟩)
      · simp at hs
    · split at hs
      · obtain ⟨rfl, rfl⟩ := Prod.mk.inj (Option.some.inj hs)
        exact inv_call_simple h hget ha _ ⟨rfl, rfl⟩ hnf hpre (by simp [ThOK, Th.ret]) gk_ret
      · split at hs
        · obtain ⟨rfl, rfl⟩ := Prod.mk.inj (Option.some.inj hs)
          exact inv_call_simple h hget ha _ ⟨rfl, rfl⟩ hnf hpre (by simp [ThOK, Th.ret]) gk_ret
        · simp at hs
  · -- rWait
    rename_i hloc
    have hpre : ∀ g, th.loc ≠ .cPre g := by simp [hloc]
    have hnf := not_finished_of_loc (th := th) (by simp [hloc])
    split at hs
    · obtain ⟨rfl, rfl⟩ := Prod.mk.inj (Option.some.inj hs)
      exact inv_call_simple h hget ha _ ⟨rfl, rfl⟩ hnf hpre (by simp [ThOK, Th.ret]) gk_ret
    · simp at hs
  · -- cOnce
    rename_i g hloc
    have hpre : ∀ g, th.loc ≠ .cPre g := by simp [hloc]
    have hnf := not_finished_of_loc (th := th) (by simp [hloc])
    split at hs
    · rename_i hfree
      obtain ⟨rfl, rfl⟩ := Prod.mk.inj (Option.some.inj hs)
      exact inv_call_takeOnce h hget ha hloc hfree
    · simp at hs
    · rename_i hfin
      obtain ⟨rfl, rfl⟩ := Prod.mk.inj (Option.some.inj hs)
      refine inv_call_simple h hget ha _ ⟨rfl, rfl⟩ hnf hpre (by simp [ThOK, hfin]) (fun hg => ?_)
      have := hg.2; simp [hloc, GLoc] at this
  · -- cPre
    rename_i g hloc
    split at hs
    · rename_i o k ho
      split at hs
      · rename_i hot
        simp at hot; subst hot
        split at hs
        · rename_i hk
          obtain ⟨rfl, rfl⟩ := Prod.mk.inj (Option.some.inj hs)
          exact inv_call_abortNext h hget hloc ho hk
        · rename_i hk
          obtain ⟨rfl, rfl⟩ := Prod.mk.inj (Option.some.inj hs)
          exact inv_call_finishOnce h hget ha hloc ho hk
      · simp at hs
    · simp at hs
  · -- cWaitLoop
    rename_i g hloc
    have hpre : ∀ g, th.loc ≠ .cPre g := by simp [hloc]
    have hnf := not_finished_of_loc (th := th) (by simp [hloc])
    simp only [ThOK, hloc] at hok
    split at hs
    · rename_i hex
      obtain ⟨rfl, rfl⟩ := Prod.mk.inj (Option.some.inj hs)
      refine inv_call_simple h hget ha _ ⟨rfl, rfl⟩ hnf hpre ?_ (fun hg => ?_)
      · simp only [ThOK]
        exact ⟨hok, by simpa using hex, fun j st hj => absurd hj (by omega)⟩
      · have := hg.2; simp [hloc, GLoc] at this
    · simp at hs
  · -- cNotif
    rename_i g i hloc
    have hpre : ∀ g, th.loc ≠ .cPre g := by simp [hloc]
    have hnf := not_finished_of_loc (th := th) (by simp [hloc])
    simp only [ThOK, hloc] at hok
    obtain ⟨ho, hex, hq⟩ := hok
    have hng : ¬ (GProg th.prog ∧ GLoc th.loc) := by
      intro hg; have := hg.2; simp [hloc, GLoc] at this
    split at hs
    · rename_i hi
      obtain ⟨rfl, rfl⟩ := Prod.mk.inj (Option.some.inj hs)
      have h2 := h.ndone hex i
      have hget2 : getTh (setNdone s i) t = some th := by
        cases t with
        | api n => exact hget
        | dr j =>
          simp only [getTh, setNdone, List.getElem?_modify] at hget ⊢
          cases hx : s.streams[j]? with
          | none => simp [hx] at hget
          | some st => simp [hx] at hget ⊢; subst hget; split <;> rfl
        | rl c => exact hget
      have ha2 : Active (setNdone s i) t th := by
        cases t with
        | api n => exact ha
        | dr j =>
          intro st' hst'
          obtain ⟨st, h1, _, h3, _⟩ := setNdone_streams s i j st' hst'
          rw [h3]; exact ha st h1
        | rl c => exact ha
      have hmono : StreamsMono s (setNdone s i) := by
        intro j st' hj
        obtain ⟨st, h1, _, h3, h4, _, _⟩ := setNdone_streams s i j st' hj
        exact ⟨st, h1, fun e => by rw [h4 e]; exact ⟨e, id⟩⟩
      have hqi : ∀ st' : Stream, (setNdone s i).streams[i]? = some st' → st'.ndone = true := by
        intro st' hst'
        obtain ⟨st, _, _, _, _, h5, _⟩ := setNdone_streams s i i st' hst'
        exact h5 rfl
      refine inv_call_simple h2 hget2 ha2 _ ⟨rfl, rfl⟩ hnf hpre ?_ (fun hg => absurd hg hng)
      cases g with
      | true =>
        simp only [ThOK, if_true]
        exact ⟨trivial, ho, hex, hq.mono hmono, hqi⟩
      | false =>
        simp only [ThOK, Bool.false_eq_true, if_false]
        refine ⟨ho, hex, ?_⟩
        intro j st' hj hst'
        rcases Nat.lt_or_ge j i with h6 | h6
        · exact (hq.mono hmono) j st' h6 hst'
        · have : j = i := by omega
          subst this
          exact ⟨hqi st' hst', by simp⟩
    · rename_i hi
      obtain ⟨rfl, rfl⟩ := Prod.mk.inj (Option.some.inj hs)
      have hall : ∀ (j : Nat) (st : Stream), s.streams[j]? = some st → st.ndone = true ∧ (g = true → st.running = false) := by
        intro j st hj
        have : j < s.streams.length := by
          rcases Nat.lt_or_ge j s.streams.length with h1 | h1
          · exact h1
          · simp [List.getElem?_eq_none h1] at hj
        exact hq j st (by omega) hj
      have h2 := h.retClose g hex hall
      have hget2 : getTh { s with closeRet := true, gcloseRet := s.gcloseRet || g } t = some th := by
        cases t <;> exact hget
      have ha2 : Active { s with closeRet := true, gcloseRet := s.gcloseRet || g } t th := by
        cases t <;> exact ha
      exact inv_call_simple h2 hget2 ha2 _ ⟨rfl, rfl⟩ hnf hpre (by simp [ThOK, Th.ret]) gk_ret
  · -- cWait
    rename_i g i hloc
    have hpre : ∀ g, th.loc ≠ .cPre g := by simp [hloc]
    have hnf := not_finished_of_loc (th := th) (by simp [hloc])
    simp only [ThOK, hloc] at hok
    obtain ⟨hg1, ho, hex, hq, hqi⟩ := hok
    split at hs
    · rename_i hrun
      obtain ⟨rfl, rfl⟩ := Prod.mk.inj (Option.some.inj hs)
      refine inv_call_simple h hget ha _ ⟨rfl, rfl⟩ hnf hpre ?_ (fun hg => ?_)
      · simp only [ThOK]
        refine ⟨ho, hex, ?_⟩
        intro j st hj hst
        rcases Nat.lt_or_ge j i with h6 | h6
        · exact hq j st h6 hst
        · have : j = i := by omega
          subst this
          refine ⟨hqi st hst, fun _ => ?_⟩
          simp [streamRunning, hst] at hrun
          exact hrun
      · have := hg.2; simp [hloc, GLoc] at this
    · simp at hs
  · -- rdBlk
    rename_i hloc
    have hpre : ∀ g, th.loc ≠ .cPre g := by simp [hloc]
    have hnf := not_finished_of_loc (th := th) (by simp [hloc])
    split at hs
    · obtain ⟨rfl, rfl⟩ := Prod.mk.inj (Option.some.inj hs)
      exact inv_call_simple h hget ha _ ⟨rfl, rfl⟩ hnf hpre (by simp [ThOK, Th.ret]) gk_ret
    · simp at hs
  · -- wrBlk
    rename_i c hloc
    have hpre : ∀ g, th.loc ≠ .cPre g := by simp [hloc]
    have hnf := not_finished_of_loc (th := th) (by simp [hloc])
    split at hs
    · obtain ⟨rfl, rfl⟩ := Prod.mk.inj (Option.some.inj hs)
      exact inv_call_simple h hget ha _ ⟨rfl, rfl⟩ hnf hpre (by simp [ThOK, Th.ret]) gk_ret
    · simp at hs
  · -- awBlk
    rename_i hloc
    have hpre : ∀ g, th.loc ≠ .cPre g := by simp [hloc]
    have hnf := not_finished_of_loc (th := th) (by simp [hloc])
    split at hs
    · obtain ⟨rfl, rfl⟩ := Prod.mk.inj (Option.some.inj hs)
      exact inv_call_simple h hget ha _ ⟨rfl, rfl⟩ hnf hpre (by simp [ThOK, Th.ret]) gk_ret
    · simp at hs


/-- a stream record is replaced by one with the same thread and `ndone`; `running` may drop only when the
drainer is idle with nothing to do, the queue may change. -/
theorem Inv.setStream {s : State} (h : Inv s) {i : Nat} {st st2 : Stream} (hi : s.streams[i]? = some st)
    (hth : st2.th = st.th) (hnd : st2.ndone = st.ndone)
    (hrun : st2.running = st.running ∨ (st2.running = false ∧ st.th.loc = .idle ∧ st.th.prog = [])) :
    Inv { s with streams := s.streams.set i st2 } := by
  have hlt : i < s.streams.length := by
    rcases Nat.lt_or_ge i s.streams.length with h1 | h1
    · exact h1
    · simp [List.getElem?_eq_none h1] at hi
  have hss : StreamsSame s { s with streams := s.streams.set i st2 } := by
    refine ⟨by simp, ?_⟩
    intro j st' hj
    simp only [List.getElem?_set] at hj
    split at hj
    · subst_vars
      simp [hlt] at hj; subst hj
      refine ⟨st, hi, hth, fun e => Or.inl (hnd ▸ e), ?_, fun e => ⟨hnd ▸ e, ?_⟩⟩
      · intro e
        rcases hrun with h1 | ⟨_, h2, h3⟩
        · exact Or.inl (h1 ▸ e)
        · exact Or.inr ⟨hth ▸ h2, hth ▸ h3⟩
      · intro e
        rcases hrun with h1 | ⟨h1, _⟩
        · rw [h1]; exact e
        · exact h1
    · exact ⟨st', hj, rfl, Or.inl, Or.inl, fun e => ⟨e, id⟩⟩
  refine h.loopFrame' rfl rfl rfl rfl rfl rfl id (fun hx => h.closing hx) (.of_eq rfl) hss
    (h.candsKeep rfl id) (.of_eq rfl) (fun c hc => Or.inl hc) ⟨h.rlTask.1, h.rlTask.2.1⟩
    ⟨fun hx => h.stages.1 hx, ?_, fun hx => (gatherFinished_congr (s := s) rfl rfl).trans (h.stages.2.2 hx)⟩ h.gcurOK
  intro hx st' h0
  obtain ⟨st0, h1, _⟩ := hss.2 0 st' h0
  exact h.stages.2.1 hx st0 h1

theorem inv_thStep {s s' : State} {t : Tid} {alt : Bool} (h : Inv s) (hs : thStep s t alt = some s') : Inv s' := by
  unfold thStep at hs
  split at hs
  · simp at hs
  · rename_i n
    split at hs
    · simp at hs
    · rename_i th hth
      have hget : getTh s (.api n) = some th := hth
      split at hs
      · simp at hs
      · rename_i hlive
        have ha : Active s (.api n) th := by simpa [Active] using hlive
        split at hs
        · rename_i hq
          obtain rfl := Option.some.inj hs
          simp at hq
          obtain ⟨⟨⟨⟨_, hloc⟩, _⟩, _⟩, hp⟩ := hq
          have hnf : th.finished = false := by
            cases hpp : th.prog with
            | nil => exact absurd hpp hp
            | cons u r => exact not_finished_of_prog hpp
          exact inv_call_simple h hget ha _ ⟨rfl, rfl⟩ hnf (by simp [hloc]) (by simp [ThOK, hloc])
            (fun hg => ⟨by simp [GProg], by simp [hloc, GLoc]⟩)
        · split at hs
          · simp at hs
          · rename_i s1 th' hc
            obtain rfl := Option.some.inj hs
            exact inv_callStep h hget ha hc
  · rename_i i
    split at hs
    · simp at hs
    · rename_i st hst
      have hget : getTh s (.dr i) = some st.th := by simp [getTh, hst]
      split at hs
      · simp at hs
      · rename_i hrun
        have hr : st.running = true := by simpa using hrun
        have ha : Active s (.dr i) st.th := by
          intro st0 h0; rw [hst] at h0; cases h0; exact hr
        split at hs
        · rename_i hidle
          simp at hidle
          split at hs
          · obtain rfl := Option.some.inj hs
            exact h.setStream hst rfl rfl (Or.inr ⟨rfl, hidle.1, hidle.2⟩)
          · rename_i e q hq
            obtain rfl := Option.some.inj hs
            have h2 := h.setStream (st2 := { st with queue := q }) hst rfl rfl (Or.inl rfl)
            have hlt : i < s.streams.length := by
              rcases Nat.lt_or_ge i s.streams.length with h1 | h1
              · exact h1
              · simp [List.getElem?_eq_none h1] at hst
            have hget2 : getTh { s with streams := s.streams.set i { st with queue := q } } (.dr i) = some st.th := by
              simp [getTh, hlt]
            have ha2 : Active { s with streams := s.streams.set i { st with queue := q } } (.dr i) st.th := by
              intro st0 h0
              simp [hlt] at h0; subst h0; exact hr
            have hok := h.thOK hget
            refine h2.thSimple hget2 _ ?_ ⟨rfl, rfl⟩ ?_ ?_ ?_
            · have : ThOK { s with streams := s.streams.set i { st with queue := q } } (.dr i) st.th := h2.thOK hget2
              simpa [ThOK, hidle.1] using this
            · intro st0 h0 _
              exact ha2 st0 h0
            · intro ⟨g, e⟩; simp [hidle.1] at e
            · intro n e; cases e
        · split at hs
          · simp at hs
          · rename_i s1 th' hc
            obtain rfl := Option.some.inj hs
            exact inv_callStep h hget ha hc


theorem Inv.active_of_loc {s : State} (h : Inv s) {t : Tid} {th : Th} (hget : getTh s t = some th)
    (hl : th.loc ≠ .idle) : Active s t th := by
  have hlc := h.thLocal hget
  cases t with
  | api n => exact hlc.1 hl
  | dr i => intro st hst; exact hlc st hst (Or.inl hl)
  | rl c => simp [getTh] at hget

theorem Inv.setBufData {s : State} (h : Inv s) (n : Nat) : Inv { s with bufData := n } :=
  ⟨h.doneOnce, h.closing, h.apiOK, h.drOK, h.candOK, h.onceOK, h.writesLen, h.writesSnap, h.rlTask, h.stages,
    h.gcurOK, h.ghost⟩

theorem inv_envStep {s s' : State} {a : Action} (h : Inv s) (hs : envStep s a = some s') : Inv s' := by
  unfold envStep at hs
  split at hs
  · rename_i c
    split at hs
    · rename_i cd hc
      split at hs
      · rename_i hcond
        obtain rfl := Option.some.inj hs
        simp at hcond
        exact h.candRl hc (by simp [hcond.1.1]) .rSel (by simp) (cd.inb - 1)
      · simp at hs
    · simp at hs
  · split at hs
    · rename_i o c ops hl
      obtain rfl := Option.some.inj hs
      exact inv_loop_taskSkip h hl
    · simp at hs
  · rename_i t
    split at hs
    · simp at hs
    · rename_i th hget
      split at hs
      · rename_i c hloc
        obtain rfl := Option.some.inj hs
        exact inv_call_simple h hget (h.active_of_loc hget (by simp [hloc])) _ ⟨rfl, rfl⟩
          (not_finished_of_loc (by simp [hloc])) (by simp [hloc]) (by simp [ThOK, Th.ret]) gk_ret
      · rename_i hloc
        split at hs
        · obtain rfl := Option.some.inj hs
          have h2 := h.setBufData (s.bufData - 1)
          have hget2 : getTh { s with bufData := s.bufData - 1 } t = some th := by cases t <;> exact hget
          exact inv_call_simple h2 hget2 (h2.active_of_loc hget2 (by simp [hloc])) _ ⟨rfl, rfl⟩
            (not_finished_of_loc (by simp [hloc])) (by simp [hloc]) (by simp [ThOK, Th.ret]) gk_ret
        · simp at hs
      · rename_i hloc
        obtain rfl := Option.some.inj hs
        exact inv_call_simple h hget (h.active_of_loc hget (by simp [hloc])) _ ⟨rfl, rfl⟩
          (not_finished_of_loc (by simp [hloc])) (by simp [hloc]) (by simp [ThOK, Th.ret]) gk_ret
      · simp at hs
  · simp at hs

/-- every transition preserves the invariant. -/
theorem inv_step {s s' : State} {a : Action} (h : Inv s) (hs : step s a = some s') : Inv s' := by
  unfold step at hs
  split at hs
  · exact inv_loopStep h hs
  · exact inv_thStep h hs
  · exact inv_rlStep h hs
  · exact inv_envStep h hs

/-- the invariant holds in every reachable state of every well-formed initial configuration. -/
theorem reach_inv {s0 s : State} (h0 : Init s0) (hr : Reach s0 s) : Inv s := by
  induction hr with
  | init => exact inv_init h0
  | step a _ hs ih => exact inv_step ih hs

end IceProofs.CloseSys
