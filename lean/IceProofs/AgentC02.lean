import IceModel.AgentCore
/-!
# Lemmas for C02 — what `Agent.handleInbound` does with messages that must not influence the agent

All statements are about the frozen executable model `IceModel.AgentCore` and hold for ALL agent states
(no reachability assumption).
-/
namespace IceProofs.AgentC02
open IceModel.AgentCore

/-! ## The class / method gate -/

theorem handleInbound_gate (a : Agent) (now : Nat) (l : Cand) (src : Nat) (m : Msg)
    (h : (m.method == 1 && (m.cls == 2 || m.cls == 0 || m.cls == 1)) = false) :
    a.handleInbound now l src m = (a, []) := by
  unfold Agent.handleInbound
  simp [h]

theorem handleInbound_request_bad (a : Agent) (now : Nat) (l : Cand) (src : Nat) (m : Msg)
    (hc : m.cls = 0)
    (h : m.user ≠ some (a.localUfrag ++ ":" ++ a.remoteUfrag) ∨ m.key ≠ some a.localPwd) :
    a.handleInbound now l src m = (a, []) := by
  unfold Agent.handleInbound
  split
  · rfl
  · simp only [hc]
    rcases h with h | h
    · simp [h]
    · simp [h]

theorem handleInbound_response_badkey (a : Agent) (now : Nat) (l : Cand) (src : Nat) (m : Msg)
    (hc : m.cls = 2) (h : m.key ≠ some a.remotePwd) :
    a.handleInbound now l src m = (a, []) := by
  unfold Agent.handleInbound
  split
  · rfl
  · simp [hc, h]

theorem handleInbound_response_unknown (a : Agent) (now : Nat) (l : Cand) (src : Nat) (m : Msg)
    (hc : m.cls = 2) (h : a.findRemote l.net src = none) :
    a.handleInbound now l src m = (a, []) := by
  unfold Agent.handleInbound
  split
  · rfl
  · simp only [hc, h]
    split <;> simp

/-- what a Binding indication may do: refresh `lastRecv` of the known remote at `src`, nothing else -/
def livenessOnly (a : Agent) (now : Nat) (net src : Nat) : Agent :=
  match a.findRemote net src with
  | some r => a.seenRemoteRecv r.uid now
  | none => a

theorem handleInbound_indication (a : Agent) (now : Nat) (l : Cand) (src : Nat) (m : Msg)
    (hc : m.cls = 1) (hm : m.method = 1) :
    a.handleInbound now l src m = (livenessOnly a now l.net src, []) := by
  unfold Agent.handleInbound livenessOnly
  simp only [hc, hm]
  simp
  split <;> simp [*]

/-! ## Success responses: the transaction must be outstanding and symmetric -/

/-- the expiry test of `invalidatePendingBindingRequests` (`maxBindingRequestTimeout` = 4 s) -/
def unexpired (now : Nat) (p : Pending) : Bool := now - p.ts < maxBindingRequestTimeout

/-- the pending entry a response with transaction id `tid` arriving at `now` is matched with: the FIRST
entry with this id among those that survive expiry -/
def outstanding (a : Agent) (now tid : Nat) : Option Pending :=
  (a.pending.filter (unexpired now)).find? (·.tid == tid)

/-- the pending list after a response with transaction id `tid` has been looked up at `now` -/
def pendingAfter (a : Agent) (now tid : Nat) : List Pending :=
  (a.pending.filter (unexpired now)).filter (·.tid != tid)

/-- the hypothesis of `C02_response_needs_outstanding`: the response's transaction id has no outstanding
entry, or the outstanding entry was sent on another network type, or to another address than the response
came from (`src`), or from another local address than the one the response arrived on (`l.addr`) -/
def NoSymmetricOutstanding (a : Agent) (now : Nat) (l : Cand) (src tid : Nat) : Prop :=
  ∀ pd ∈ outstanding a now tid, pd.net ≠ l.net ∨ pd.dest ≠ src ∨ pd.src ≠ l.addr

instance (a : Agent) (now : Nat) (l : Cand) (src tid : Nat) : Decidable (NoSymmetricOutstanding a now l src tid) := by
  unfold NoSymmetricOutstanding; infer_instance

theorem pendingAfter_sublist (a : Agent) (now tid : Nat) : (pendingAfter a now tid).Sublist a.pending :=
  (List.filter_sublist).trans List.filter_sublist

theorem filter_ne_of_find_none (l : List Pending) (tid : Nat) (h : l.find? (·.tid == tid) = none) :
    l.filter (·.tid != tid) = l := by
  rw [List.filter_eq_self]
  intro p hp
  have := List.find?_eq_none.mp h p hp
  simpa using this

theorem takePending_eq (a : Agent) (now tid : Nat) :
    a.takePending now tid = ({ a with pending := pendingAfter a now tid }, outstanding a now tid) := by
  unfold Agent.takePending Agent.invalidatePending
  show (match (a.pending.filter (unexpired now)).find? (·.tid == tid) with
    | some p => (_, some p) | none => (_, none)) = _
  unfold pendingAfter outstanding
  split
  · rename_i p hp; simp [hp]; rfl
  · rename_i hp; simp [hp, filter_ne_of_find_none _ _ hp]; rfl

/-- `HandleSuccessResponse` without an outstanding, symmetric transaction: only `pending` shrinks. -/
theorem handleSuccess_no_match (a : Agent) (now : Nat) (m : Msg) (l r : Cand) (src : Nat)
    (h : NoSymmetricOutstanding a now l src m.tid) :
    a.handleSuccess now m l r src = ({ a with pending := pendingAfter a now m.tid }, []) := by
  unfold Agent.handleSuccess
  rw [takePending_eq]
  cases ho : outstanding a now m.tid with
  | none => rfl
  | some pd =>
    have : (!(pd.net == l.net && pd.dest == src && pd.src == l.addr)) = true := by
      rcases h pd ho with h | h | h <;> simp [h]
    simp [this]

/-- … and neither when the pair (local, remote) does not exist. -/
theorem handleSuccess_no_pair (a : Agent) (now : Nat) (m : Msg) (l r : Cand) (src : Nat)
    (h : ({ a with pending := pendingAfter a now m.tid } : Agent).findPair l r = none) :
    a.handleSuccess now m l r src = ({ a with pending := pendingAfter a now m.tid }, []) := by
  unfold Agent.handleSuccess
  rw [takePending_eq]
  cases ho : outstanding a now m.tid with
  | none => rfl
  | some pd =>
    simp only []
    split
    · rfl
    · simp only [h]

theorem findPair_pending (a : Agent) (P : List Pending) (l r : Cand) :
    ({ a with pending := P } : Agent).findPair l r = a.findPair l r := rfl

theorem handleInbound_response_no_match (a : Agent) (now : Nat) (l : Cand) (src : Nat) (m : Msg) (r : Cand)
    (hc : m.cls = 2) (hm : m.method = 1) (hk : m.key = some a.remotePwd)
    (hr : a.findRemote l.net src = some r)
    (h : NoSymmetricOutstanding a now l src m.tid) :
    a.handleInbound now l src m
      = (({ a with pending := pendingAfter a now m.tid } : Agent).seenRemoteRecv r.uid now, []) := by
  unfold Agent.handleInbound
  simp only [hc, hm, hk, hr]
  simp [handleSuccess_no_match a now m l r src h]

theorem handleInbound_response_no_pair (a : Agent) (now : Nat) (l : Cand) (src : Nat) (m : Msg) (r : Cand)
    (hc : m.cls = 2) (hm : m.method = 1) (hk : m.key = some a.remotePwd)
    (hr : a.findRemote l.net src = some r) (h : a.findPair l r = none) :
    a.handleInbound now l src m
      = (({ a with pending := pendingAfter a now m.tid } : Agent).seenRemoteRecv r.uid now, []) := by
  unfold Agent.handleInbound
  simp only [hc, hm, hk, hr]
  simp [handleSuccess_no_pair a now m l r src h]

end IceProofs.AgentC02
