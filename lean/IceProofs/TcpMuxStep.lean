import IceProofs.TcpMuxInv
/-!
# Every operation preserves the invariant of the TCP-mux model
-/
namespace IceProofs.TcpMux
open IceModel.TcpMux

theorem effTimeout_pos (t : Nat) : 0 < effTimeout t := by
  unfold effTimeout; split <;> omega

/-! ## packet connections only ever go from open to closed -/

/-- every packet connection of `s'` is the one of `s` at the same index, possibly closed since -/
def PcsMono (s s' : State) : Prop :=
  ∀ (q : Nat) (qc' : PConn), s'.pcs[q]? = some qc' → ∃ qc, s.pcs[q]? = some qc ∧ (qc' = qc ∨ qc' = closedPc qc)

theorem PcsMono.refl (s : State) : PcsMono s s := fun _ qc' h => ⟨qc', h, Or.inl rfl⟩

theorem closedPc_idem (pc : PConn) : closedPc (closedPc pc) = closedPc pc := rfl

theorem PcsMono.trans {s s' s'' : State} (h1 : PcsMono s s') (h2 : PcsMono s' s'') : PcsMono s s'' := by
  intro q qc'' h
  obtain ⟨qc', h', e'⟩ := h2 q qc'' h
  obtain ⟨qc, h0, e⟩ := h1 q qc' h'
  refine ⟨qc, h0, ?_⟩
  rcases e' with rfl | rfl <;> rcases e with rfl | rfl
  · exact Or.inl rfl
  · exact Or.inr rfl
  · exact Or.inr rfl
  · exact Or.inr (closedPc_idem _)

theorem closePc1_pcs (s : State) (p q : Nat) :
    (closePc1 s p).pcs[q]? =
      (s.pcs[q]?).map (fun qc => if p = q ∧ qc.closed = false then closedPc qc else qc) := by
  cases hp : s.pcs[p]? with
  | none =>
    rw [closePc1_noop s p (by simp [hp])]
    cases hq : s.pcs[q]? with
    | none => rfl
    | some qc =>
      have : p ≠ q := by intro e; subst e; rw [hp] at hq; cases hq
      simp [this]
  | some pc =>
    cases hc : pc.closed with
    | true =>
      rw [closePc1_noop s p (by intro pc' h'; rw [hp] at h'; cases h'; exact hc)]
      cases hq : s.pcs[q]? with
      | none => rfl
      | some qc =>
        by_cases e : p = q
        · subst e; rw [hp] at hq; cases hq; simp [hc]
        · simp [e]
    | false =>
      rw [closePc1_eq s p pc hp hc]
      simp only
      rw [getElem?_modify_map]
      cases hq : s.pcs[q]? with
      | none => rfl
      | some qc =>
        by_cases e : p = q
        · subst e; rw [hp] at hq; cases hq; simp [hc]
        · simp [e]

theorem closePc1_mono (s : State) (p : Nat) : PcsMono s (closePc1 s p) := by
  intro q qc' h
  rw [closePc1_pcs] at h
  cases hq : s.pcs[q]? with
  | none => simp [hq] at h
  | some qc =>
    simp only [hq, Option.map_some, Option.some.injEq] at h
    refine ⟨qc, rfl, ?_⟩
    split at h
    · exact Or.inr h.symm
    · exact Or.inl h.symm

theorem closePc1_target (s : State) (p : Nat) (pc' : PConn) (h : (closePc1 s p).pcs[p]? = some pc') :
    pc'.closed = true := by
  rw [closePc1_pcs] at h
  cases hq : s.pcs[p]? with
  | none => simp [hq] at h
  | some qc =>
    simp only [hq, Option.map_some, Option.some.injEq, true_and] at h
    split at h
    · rw [← h]; rfl
    · rename_i hn; rw [← h]; simpa using hn

theorem closePc_mono (s : State) (p : Nat) : PcsMono s (closePc s p) := closePc1_mono s p

theorem mono_closed {s s' : State} (h : PcsMono s s') (q : Nat) (qc qc' : PConn)
    (h0 : s.pcs[q]? = some qc) (h1 : s'.pcs[q]? = some qc') (hc : qc.closed = true) : qc'.closed = true := by
  obtain ⟨qc0, e0, e⟩ := h q qc' h1
  rw [h0] at e0; cases e0
  rcases e with rfl | rfl
  · exact hc
  · rfl

theorem closePc_target (s : State) (p : Nat) (pc' : PConn) (h : (closePc s p).pcs[p]? = some pc') :
    pc'.closed = true := closePc1_target s p pc' h

/-- after `closePcsWhere sel`, every packet connection is closed or not selected -/
theorem closePcsWhere_spec (sel : PConn → Bool) (s : State) :
    PcsMono s (closePcsWhere sel s) ∧
    ∀ (q : Nat) (qc : PConn), (closePcsWhere sel s).pcs[q]? = some qc → qc.closed = true ∨ sel qc = false := by
  let f : State → Nat → State := fun s p => match s.pcs[p]? with
    | some pc => if sel pc then closePc s p else s
    | none => s
  have fmono : ∀ s p, PcsMono s (f s p) := by
    intro s p
    simp only [f]
    split
    · split
      · exact closePc_mono s p
      · exact PcsMono.refl s
    · exact PcsMono.refl s
  have key : ∀ n, PcsMono s ((List.range n).foldl f s) ∧
      ∀ (q : Nat) (qc : PConn), q < n → ((List.range n).foldl f s).pcs[q]? = some qc → qc.closed = true ∨ sel qc = false := by
    intro n
    induction n with
    | zero => exact ⟨PcsMono.refl s, fun q qc h => absurd h (Nat.not_lt_zero q)⟩
    | succ n ih =>
      rw [List.range_succ, List.foldl_append]
      simp only [List.foldl_cons, List.foldl_nil]
      generalize hs' : (List.range n).foldl f s = s' at ih
      refine ⟨ih.1.trans (fmono s' n), ?_⟩
      intro q qc hq hget
      obtain ⟨qc0, h0, e⟩ := fmono s' n q qc hget
      by_cases hqn : q < n
      · rcases e with rfl | rfl
        · exact ih.2 q qc hqn h0
        · exact Or.inl rfl
      · have hqe : q = n := by omega
        subst hqe
        simp only [f] at hget
        rw [h0] at hget
        simp only at hget
        split at hget
        · exact Or.inl (closePc_target s' q qc hget)
        · rename_i hsel
          rw [h0] at hget; cases hget
          exact Or.inr (by simpa using hsel)
  have := key s.pcs.length
  refine ⟨this.1, ?_⟩
  intro q qc hget
  obtain ⟨qc0, h0, _⟩ := this.1 q qc hget
  have hlt : q < s.pcs.length := by
    apply Nat.lt_of_not_le; intro hle; rw [List.getElem?_eq_none_iff.2 hle] at h0; cases h0
  exact this.2 q qc hlt hget

/-! ## time -/

theorem tick_inv (s : State) (hi : Inv s) (now' : Nat) (_hle : s.now ≤ now')
    (hal : ∀ (q : Nat) (qc : PConn) (d : Nat), s.pcs[q]? = some qc → qc.alive = some d → now' < d) :
    Inv { s with now := now', tcps := s.tcps.map (expireTcp now') } := by
  have tget : ∀ (j : Nat) (t' : Tcp), (s.tcps.map (expireTcp now'))[j]? = some t' →
      ∃ t, s.tcps[j]? = some t ∧ t' = expireTcp now' t := by
    intro j t' h
    rw [List.getElem?_map] at h
    cases ht : s.tcps[j]? with
    | none => simp [ht] at h
    | some t => simp only [ht, Option.map_some, Option.some.injEq] at h; exact ⟨t, rfl, h.symm⟩
  have keep : ∀ t : Tcp, (∀ d, t.phase ≠ .pending d) → expireTcp now' t = t := by
    intro t h
    unfold expireTcp
    split
    · rename_i d hd; exact absurd hd (h d)
    · rfl
  have tfw : ∀ (j : Nat) (t : Tcp), s.tcps[j]? = some t → (∀ d, t.phase ≠ .pending d) →
      (s.tcps.map (expireTcp now'))[j]? = some t := by
    intro j t ht h
    rw [List.getElem?_map, ht]; simp [keep t h]
  constructor
  · intro j t' ht'
    obtain ⟨t, ht, rfl⟩ := tget j t' ht'
    have hr := hi.reader j t ht
    cases hph : t.phase with
    | pending d =>
      obtain ⟨_, _, hrn⟩ := pending_unref s hi j t ht d hph
      unfold expireTcp
      simp only [hph]
      split
      · simp [ReaderOk, closeTcp]
      · simp [ReaderOk, hrn, hph]
    | attached p => rw [keep t (by simp [hph])]; exact hr
    | closed => rw [keep t (by simp [hph])]; exact hr
  · intro j t' ht'
    obtain ⟨t, ht, rfl⟩ := tget j t' ht'
    have hp := hi.phase j t ht
    cases hph : t.phase with
    | pending d =>
      unfold expireTcp
      simp only [hph]
      split
      · simp [PhaseOk, closeTcp]
      · rename_i hnd; simp only [PhaseOk, hph]; omega
    | attached p =>
      rw [keep t (by simp [hph])]
      unfold PhaseOk at hp ⊢
      simp only [hph] at hp ⊢
      exact hp
    | closed =>
      rw [keep t (by simp [hph])]
      unfold PhaseOk
      simp only [hph]
  · intro q qc hq
    simp only at hq
    obtain ⟨c1, c2, c3, c4, c5, c6⟩ := hi.pc q qc hq
    refine ⟨?_, c2, ?_, c4, c5, fun d hd => hal q qc d hq hd⟩
    · intro a j haj
      obtain ⟨t, ht, e1, e2⟩ := c1 a j haj
      exact ⟨t, tfw j t ht (by simp [e1]), e1, e2⟩
    · intro j hj
      obtain ⟨t, ht, e1, pkt, fin, e2⟩ := c3 j hj
      refine ⟨t, tfw j t ht ?_, e1, pkt, fin, e2⟩
      intro d hd
      obtain ⟨_, _, hrn⟩ := pending_unref s hi j t ht d hd
      rw [hrn] at e2; cases e2
  · exact hi.key
  · exact hi.lis

/-! ## attach -/

theorem findPc_some {pcs : List PConn} {key : Key} {p : Nat} (h : findPc pcs key = some p) :
    ∃ pc, pcs[p]? = some pc ∧ pc.closed = false ∧ pc.key = key := by
  unfold findPc at h
  obtain ⟨hlt, hp, _⟩ := List.findIdx?_eq_some_iff_getElem.1 h
  refine ⟨pcs[p], by simp [hlt], ?_, ?_⟩
  · simp at hp; exact hp.1
  · simp at hp; exact hp.2

theorem findPc_none {pcs : List PConn} {key : Key} (h : findPc pcs key = none) :
    ∀ (q : Nat) (qc : PConn), pcs[q]? = some qc → qc.closed = false → qc.key ≠ key := by
  intro q qc hq ho hk
  unfold findPc at h
  have := List.findIdx?_eq_none_iff.1 h qc (List.mem_iff_getElem?.2 ⟨q, hq⟩)
  simp [ho, hk] at this

theorem ensurePc_inv (s : State) (key : Key) (hi : Inv s) : Inv (ensurePc s key).1 := by
  unfold ensurePc
  split
  · exact hi
  · rename_i hn
    apply appendPc_inv s hi
    · rfl
    · rfl
    · rfl
    · intro d hd; simp at hd; have := effTimeout_pos s.cfg.t2; omega
    · exact findPc_none hn

theorem ensurePc_tcps (s : State) (key : Key) : (ensurePc s key).1.tcps = s.tcps := by
  unfold ensurePc; split <;> rfl

theorem ensurePc_now (s : State) (key : Key) : (ensurePc s key).1.now = s.now := by
  unfold ensurePc; split <;> rfl

theorem addConn_inv (s : State) (p k : Nat) (t : Tcp) (f : Frame) (hi : Inv s)
    (ht : s.tcps[k]? = some t) (d : Nat) (hph : t.phase = .pending d) : Inv (addConn s p k t f) := by
  unfold addConn
  split
  · exact hi
  · rename_i pc hp
    split
    · exact closePending_inv s hi k t ht d hph _ ⟨rfl, rfl⟩
    · rename_i hcond
      simp only [Bool.or_eq_true, not_or, Bool.not_eq_true, Option.isSome_eq_false_iff, Option.isNone_iff_eq_none] at hcond
      dsimp only
      apply runReader_inv
      exact register_inv s hi k p t pc ht d hph hp hcond.1 hcond.2 _ ⟨rfl, rfl, rfl, rfl⟩

theorem attach_inv (s : State) (k : Nat) (t : Tcp) (u : String) (f : Frame) (hi : Inv s)
    (ht : s.tcps[k]? = some t) (d : Nat) (hph : t.phase = .pending d) : Inv (attach s k t u f) := by
  unfold attach
  dsimp only
  apply addConn_inv _ _ _ _ _ (ensurePc_inv s _ hi) _ d hph
  rw [ensurePc_tcps]; exact ht

/-! ## read -/

theorem blockedOf_some {s : State} {k : Nat} {bp : Pkt} {fin : Bool} (h : blockedOf s k = some (bp, fin)) :
    ∃ t, s.tcps[k]? = some t ∧ t.reader = .blocked bp fin := by
  unfold blockedOf at h
  split at h
  · rename_i t ht
    split at h
    · rename_i bp' fin' hr
      simp only [Option.some.injEq, Prod.mk.injEq] at h
      exact ⟨t, ht, by rw [hr, h.1, h.2]⟩
    · cases h
  · cases h

theorem readPc_inv (s : State) (p : Nat) (hi : Inv s) : Inv (readPc s p).1 := by
  unfold readPc
  split
  · exact hi
  · rename_i pc hp
    split
    · -- a packet is queued
      rename_i pkt q hq
      have hi1 : Inv (setPc s p (fun pc => { pc with recvQ := q, readLog := pc.readLog ++ [pkt] })) :=
        setPc_irrel_inv s p _ (fun pc => ⟨rfl, rfl, rfl, rfl, Or.inl rfl⟩) hi
      dsimp only
      split
      · exact hi1
      · rename_i k bq hbq
        split
        · rename_i bp fin hb
          obtain ⟨t, ht, hrd⟩ := blockedOf_some hb
          apply runReader_inv
          have hp1 : (setPc s p (fun pc => { pc with recvQ := q, readLog := pc.readLog ++ [pkt] })).pcs[p]? =
              some { pc with recvQ := q, readLog := pc.readLog ++ [pkt] } := by
            simp only [setPc]; rw [getElem?_modify_eq, hp]; rfl
          exact unblock_inv _ hi1 k p t _ bq bp fin ht hrd hp1 hbq _ ⟨rfl, rfl, rfl, rfl, rfl⟩
        · exact hi1
    · -- nothing queued
      split
      · rename_i k bq hbq
        split
        · rename_i bp fin hb
          obtain ⟨t, ht, hrd⟩ := blockedOf_some hb
          dsimp only
          apply runReader_inv
          exact unblock_inv s hi k p t pc bq bp fin ht hrd hp hbq _ ⟨rfl, rfl, rfl, rfl, rfl⟩
        · exact hi
      · split <;> exact hi

theorem closePc1_now (s : State) (p : Nat) : (closePc1 s p).now = s.now := by
  unfold closePc1; split
  · rfl
  · split <;> rfl

theorem closePc_now (s : State) (p : Nat) : (closePc s p).now = s.now := closePc1_now s p

theorem closePcsWhere_now (sel : PConn → Bool) (s : State) : (closePcsWhere sel s).now = s.now := by
  unfold closePcsWhere
  apply foldl_inv (fun x : State => x.now = s.now) _ _ _ rfl
  intro b a hb
  split
  · split
    · rw [closePc_now]; exact hb
    · exact hb
  · exact hb

/-! ## the step function -/

theorem step_inv (s : State) (op : Op) (hi : Inv s) : Inv (step s op).1 := by
  cases op with
  | accept peer lip =>
    simp only [step]
    split
    · apply appendTcp_inv s hi _ rfl
      exact Or.inl ⟨_, rfl, by have := effTimeout_pos s.cfg.t1; omega⟩
    · exact appendTcp_inv s hi _ rfl (Or.inr rfl)
  | frame k f =>
    simp only [step]
    split
    · exact hi
    · rename_i t ht
      split
      · exact hi
      · split
        · exact hi
        · rename_i d hph
          split
          · exact attach_inv s k t _ f hi ht d hph
          · exact closePending_inv s hi k t ht d hph _ ⟨rfl, rfl⟩
        · apply runReader_inv
          exact setTcp_irrel_inv s k _ (fun t => ⟨rfl, rfl, rfl, rfl⟩) hi
  | partialFrame k =>
    simp only [step]
    split
    · exact hi
    · split
      · exact hi
      · exact setTcp_irrel_inv s k _ (fun t => ⟨rfl, rfl, rfl, rfl⟩) hi
  | clientClose k reset =>
    simp only [step]
    split
    · exact hi
    · rename_i t ht
      split
      · exact hi
      · split
        · exact setTcp_irrel_inv s k _ (fun t => ⟨rfl, rfl, rfl, rfl⟩) hi
        · rename_i d hph
          exact closePending_inv s hi k t ht d hph _ ⟨rfl, rfl⟩
        · apply runReader_inv
          exact setTcp_irrel_inv s k _ (fun t => ⟨rfl, rfl, rfl, rfl⟩) hi
  | advance dt =>
    simp only [step]
    have h1 := closePcsWhere_inv (fun pc => aliveExpired (s.now + dt) pc) s hi
    have h2 := closePcsWhere_spec (fun pc => aliveExpired (s.now + dt) pc) s
    have hnow := closePcsWhere_now (fun pc => aliveExpired (s.now + dt) pc) s
    apply tick_inv _ h1 (s.now + dt) (by rw [hnow]; omega)
    intro q qc d hq hd
    rcases h2.2 q qc hq with hc | hs
    · have := ((h1.pc q qc hq).2.2.2.2.1 hc).2.2
      rw [this] at hd; cases hd
    · simp only [aliveExpired, hd, decide_eq_false_iff_not] at hs
      omega
  | getConn key =>
    simp only [step]
    split
    · exact hi
    · split
      · apply handles_irrel_inv
        exact setPc_irrel_inv s _ _ (fun pc => ⟨rfl, rfl, rfl, rfl, Or.inr rfl⟩) hi
      · rename_i hn
        apply handles_irrel_inv { s with pcs := s.pcs ++ [_] }
        apply appendPc_inv s hi
        · rfl
        · rfl
        · rfl
        · intro d hd; simp at hd
        · exact findPc_none hn
  | removeByUfrag u =>
    simp only [step]
    exact closePcsWhere_inv _ s hi
  | closeHandle h =>
    simp only [step]
    split
    · exact hi
    · rename_i hd hh
      split
      · exact hi
      · have h1 : Inv { s with handles := s.handles.modify h (fun hd => { hd with closed := true }) } :=
          handles_irrel_inv s _ hi
        split
        · exact h1
        · have h2 := setPc_irrel_inv _ hd.pc (fun pc => { pc with refs := pc.refs - 1 })
            (fun pc => ⟨rfl, rfl, rfl, rfl, Or.inl rfl⟩) h1
          split
          · exact closePc_inv _ _ h2
          · exact h2
  | closePacketConn h =>
    simp only [step]
    split
    · exact hi
    · exact closePc_inv _ _ hi
  | write h dst pid len =>
    simp only [step]
    split
    · exact hi
    · split
      · exact hi
      · split
        · exact hi
        · split
          · exact hi
          · exact setTcp_irrel_inv s _ _ (fun t => ⟨rfl, rfl, rfl, rfl⟩) hi
  | read h =>
    simp only [step]
    split
    · exact hi
    · split
      · exact hi
      · exact readPc_inv s _ hi
  | closeMux =>
    simp only [step]
    split
    · exact hi
    · have h1 := closePcsWhere_inv (fun _ => true) s hi
      constructor
      · exact h1.reader
      · exact h1.phase
      · exact h1.pc
      · exact h1.key
      · intro _; rfl

theorem run_inv (s : State) (ops : List Op) (hi : Inv s) : Inv (run s ops) := by
  induction ops generalizing s with
  | nil => exact hi
  | cons op ops ih => exact ih _ (step_inv s op hi)

/-- the invariant holds in every reachable state -/
theorem reachable_inv (cfg : Config) (ops : List Op) : Inv (run (init cfg) ops) :=
  run_inv _ ops (inv_init cfg)

end IceProofs.TcpMux
