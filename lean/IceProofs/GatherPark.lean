import IceModel.Gather
import IceProofs.GatherAgent
/-!
Termination structure of the gatherer programs: every unit waits for at most one reply; a unit that
receives its (positive or negative) answer returns.  Consequences for the composed model: `resume`
removes exactly the units it answers; after `closeAgent` no candidate and no unit of the last cycle
is left.
-/
namespace IceProofs.GatherPark
open IceModel.Gather IceProofs.GatherAgent

theorem acquireAns_none {s : MState} {j : Job} {l : Lbl} {k : Kind} (h : acquireAns s j l k = none) :
    l = .allocate ∧ j.answer = none := by
  unfold acquireAns at h
  split at h
  · split at h
    · simp at h
    · split at h <;> simp at h
  · simp at h
  · split at h <;> simp at h
  · split at h
    · exact ⟨rfl, by assumption⟩
    · simp at h
    · simp at h
  · simp at h

theorem stepAns_none {s : MState} {j : Job} {l : Lbl} (h : stepAns s j l = none) :
    l = .reply ∧ j.answer = none := by
  unfold stepAns at h
  split at h
  · refine ⟨rfl, ?_⟩
    cases ha : j.answer <;> simp_all
  · simp at h
  · split at h <;> simp at h
  · split at h <;> simp at h
  · split at h <;> simp at h
  · split at h <;> simp at h
  · simp at h

/-- a program without reply steps runs to its end -/
theorem exec_parkFree (p : Prog) : ∀ (s : MState) (j : Job), p.parkFree = true → (exec s j p).2.prog = .ret := by
  induction p with
  | ret => intro s j _; rfl
  | acquire l k a b iha ihb =>
    intro s j h
    simp only [Prog.parkFree, Bool.and_eq_true, bne_iff_ne, ne_eq] at h
    simp only [exec]
    split
    · rename_i hn; exact absurd (acquireAns_none hn).1 h.1.1
    · exact ihb _ _ h.2
    · exact iha _ _ h.1.2
  | step l a b iha ihb =>
    intro s j h
    simp only [Prog.parkFree, Bool.and_eq_true, bne_iff_ne, ne_eq] at h
    simp only [exec]
    split
    · rename_i hn; exact absurd (stepAns_none hn).1 h.1.1
    · exact iha _ _ h.1.2
    · exact ihb _ _ h.2
  | release i n ih => intro s j h; simp only [exec]; exact ih _ _ (by simpa [Prog.parkFree] using h)
  | addCand ci is st fl ihs ihf =>
    intro s j h
    simp only [Prog.parkFree, Bool.and_eq_true] at h
    simp only [exec]
    split
    · exact ihf _ _ h.2
    · split <;> exact ihs _ _ h.1

/-- a program with at most one reply step per path returns or parks at that step -/
theorem exec_onePark (p : Prog) : ∀ (s : MState) (j : Job), p.onePark = true →
    (exec s j p).2.prog = .ret ∨ (exec s j p).2.prog.parked = true := by
  induction p with
  | ret => intro s j _; left; rfl
  | acquire l k a b iha ihb =>
    intro s j h
    simp only [Prog.onePark] at h
    simp only [exec]
    split
    · rename_i hn
      right
      have hl := (acquireAns_none hn).1
      subst hl
      simpa [Prog.parked] using h
    · split at h
      · left; exact exec_parkFree b _ _ (by simp only [Bool.and_eq_true] at h; exact h.2)
      · exact ihb _ _ (by simp only [Bool.and_eq_true] at h; exact h.2)
    · split at h
      · left; exact exec_parkFree a _ _ (by simp only [Bool.and_eq_true] at h; exact h.1)
      · exact iha _ _ (by simp only [Bool.and_eq_true] at h; exact h.1)
  | step l a b iha ihb =>
    intro s j h
    simp only [Prog.onePark] at h
    simp only [exec]
    split
    · rename_i hn
      right
      have hl := (stepAns_none hn).1
      subst hl
      simpa [Prog.parked] using h
    · split at h
      · left; exact exec_parkFree a _ _ (by simp only [Bool.and_eq_true] at h; exact h.1)
      · exact iha _ _ (by simp only [Bool.and_eq_true] at h; exact h.1)
    · split at h
      · left; exact exec_parkFree b _ _ (by simp only [Bool.and_eq_true] at h; exact h.2)
      · exact ihb _ _ (by simp only [Bool.and_eq_true] at h; exact h.2)
  | release i n ih => intro s j h; simp only [exec]; exact ih _ _ (by simpa [Prog.onePark] using h)
  | addCand ci is st fl ihs ihf =>
    intro s j h
    simp only [Prog.onePark, Bool.and_eq_true] at h
    simp only [exec]
    split
    · exact ihf _ _ h.2
    · split <;> exact ihs _ _ h.1

/-- a parked unit that gets its answer returns -/
theorem exec_answered (s : MState) (j : Job) (a : Ans) (m : Nat) (hp : j.prog.parked = true) :
    (exec s { j with answer := some a, m := m } j.prog).2.prog = .ret := by
  cases hprog : j.prog with
  | ret => simp [hprog, Prog.parked] at hp
  | release i n => simp [hprog, Prog.parked] at hp
  | addCand ci is st fl => simp [hprog, Prog.parked] at hp
  | acquire l k x y =>
    cases l <;> simp [hprog, Prog.parked] at hp
    simp only [exec, acquireAns]
    cases a <;> simp only <;> first
      | exact exec_parkFree x _ _ hp.1
      | exact exec_parkFree y _ _ hp.2
  | step l x y =>
    cases l <;> simp [hprog, Prog.parked] at hp
    simp only [exec, stepAns, Option.map_some]
    cases a
    · exact exec_parkFree x _ _ hp.1
    · exact exec_parkFree y _ _ hp.2
    · exact exec_parkFree y _ _ hp.2

/-! ### every gatherer program waits at most once -/

theorem borrowLoop_parkFree (k : Nat) : ∀ i, (borrowLoop i k).parkFree = true := by
  induction k with
  | zero => intro i; rfl
  | succ k ih => intro i; simp [borrowLoop, Prog.parkFree, ih]

theorem mappedLoop_parkFree (k : Nat) : ∀ i, (mappedLoop i k).parkFree = true := by
  induction k with
  | zero => intro i; rfl
  | succ k ih =>
    intro i
    simp only [mappedLoop]
    split <;> simp [Prog.parkFree, ih]

theorem parkFree_onePark (p : Prog) (h : p.parkFree = true) : p.onePark = true := by
  induction p with
  | ret => rfl
  | acquire l k a b iha ihb =>
    simp only [Prog.parkFree, Bool.and_eq_true, bne_iff_ne, ne_eq] at h
    simp only [Prog.onePark]
    split
    · rename_i hl; exact absurd (by simpa using hl) h.1.1
    · simp [iha h.1.2, ihb h.2]
  | step l a b iha ihb =>
    simp only [Prog.parkFree, Bool.and_eq_true, bne_iff_ne, ne_eq] at h
    simp only [Prog.onePark]
    split
    · rename_i hl; exact absurd (by simpa using hl) h.1.1
    · simp [iha h.1.2, ihb h.2]
  | release i n ih => simp only [Prog.parkFree] at h; simpa [Prog.onePark] using ih h
  | addCand ci is st fl ihs ihf =>
    simp only [Prog.parkFree, Bool.and_eq_true] at h
    simp [Prog.onePark, ihs h.1, ihf h.2]

theorem progOf_onePark (u : GUnit) : (progOf u).onePark = true := by
  obtain ⟨kind, net, bind, url, n⟩ := u
  cases kind <;> simp only [progOf]
  · decide
  · decide
  · decide
  · decide
  · decide
  · apply parkFree_onePark
    simp [srflxMappedProg, Prog.parkFree, mappedLoop_parkFree]
  · simp [relayProg, relayProgWith, relayTail, Prog.onePark, Prog.parkFree, borrowLoop_parkFree]

/-- host units never wait -/
theorem host_parkFree (u : GUnit) (h : u.kind = .hostUdp ∨ u.kind = .hostTcp ∨ u.kind = .hostMux) :
    (progOf u).parkFree = true := by
  obtain ⟨kind, net, bind, url, n⟩ := u
  rcases h with h | h | h <;> (simp only at h; subst h; rfl)

/-! ### parked units in the composed model -/

def Parked (s : MState) : Prop := ∀ j ∈ s.jobs, j.prog.parked = true

theorem parked_ne_ret {p : Prog} (h : p.parked = true) : p ≠ .ret := by
  intro hr; subst hr; simp [Prog.parked] at h

theorem settle_jobs_ret {s : MState} {j : Job} (h : j.prog = .ret) : (settle (s, j)).jobs = s.jobs := by
  simp [settle, h]

theorem settle_parked {s : MState} {j : Job} (hs : Parked s) (h : j.prog = .ret ∨ j.prog.parked = true) :
    Parked (settle (s, j)) := by
  unfold settle
  split
  · exact hs
  · rename_i hne
    intro x hx
    simp only [List.mem_append, List.mem_singleton] at hx
    rcases hx with hx | hx
    · exact hs x hx
    · subst hx
      rcases h with h | h
      · exact absurd h (by simpa using hne)
      · exact h

theorem startUnit_parked {s : MState} (h : Parked s) (c gen : Nat) (u : GUnit) : Parked (startUnit s c gen u) := by
  unfold startUnit
  apply settle_parked
  · intro x hx; rw [exec_jobs] at hx; exact h x hx
  · exact exec_onePark _ _ _ (progOf_onePark u)

theorem foldl_parked {α : Type} (f : MState → α → MState) (hf : ∀ s a, Parked s → Parked (f s a)) :
    ∀ (l : List α) (s : MState), Parked s → Parked (l.foldl f s) := by
  intro l
  induction l with
  | nil => intro s h; exact h
  | cons a l ih => intro s h; exact ih _ (hf s a h)

theorem runHostMux_parked (c gen : Nat) : ∀ (us : List GUnit) (seen : List CandD) {s : MState}, Parked s →
    Parked (runHostMux s c gen us seen) := by
  intro us
  induction us with
  | nil => intro seen s h; simpa [runHostMux] using h
  | cons u us ih =>
    intro seen s h
    simp only [runHostMux]
    split
    · exact ih _ h
    · exact ih _ (startUnit_parked h c gen u)

theorem runHost_parked {s : MState} (h : Parked s) (c gen : Nat) : Parked (runHost s c gen) := by
  unfold runHost
  exact foldl_parked _ (fun s u hs => startUnit_parked hs c gen u) _ _ (runHostMux_parked c gen _ _ h)

theorem parked_of_jobs {s s' : MState} (h : Parked s) (hj : s'.jobs = s.jobs) : Parked s' := by
  intro j hx; rw [hj] at hx; exact h j hx

theorem runCycleUnits_parked {s : MState} (h : Parked s) (c gen : Nat) : Parked (runCycleUnits s c gen) := by
  unfold runCycleUnits
  apply foldl_parked _ _ _ _ h
  intro s t hs
  cases t with
  | host =>
    simp only
    split
    · exact parked_of_jobs hs rfl
    · exact runHost_parked hs c gen
  | srflx => exact foldl_parked _ (fun s u hs => startUnit_parked hs c gen u) _ _ hs
  | relay => exact foldl_parked _ (fun s u hs => startUnit_parked hs c gen u) _ _ hs

theorem finishCycle_jobs (s : MState) : (finishCycle s).jobs = s.jobs := by
  unfold finishCycle
  split
  · rfl
  · split
    · rfl
    · split
      · rfl
      · unfold startMonitorIf; split <;> rfl

theorem recordKnown_parked {s : MState} (h : Parked s) : Parked (recordKnown s) := by
  unfold recordKnown; split
  · exact parked_of_jobs h rfl
  · exact h

theorem monPass_parked {s : MState} (h : Parked s) (m : Mon) (c gen : Nat) : Parked (monPass s m c gen) := by
  unfold monPass
  have hd : Parked (detect s).1 := parked_of_jobs h rfl
  split
  · exact parked_of_jobs (runCycleUnits_parked hd c gen) rfl
  · exact hd

theorem monTick_parked {s : MState} (h : Parked s) (m : Mon) : Parked (monTick s m) := by
  unfold monTick
  split
  · apply monPass_parked
    exact parked_of_jobs h rfl
  · exact parked_of_jobs h rfl

theorem monKick_parked {s : MState} (h : Parked s) : Parked (monKick s) := by
  unfold monKick
  split
  · exact h
  · split
    · exact h
    · split
      · apply monTick_parked
        exact parked_of_jobs h rfl
      · exact parked_of_jobs h rfl

theorem tickDue_parked {s : MState} (h : Parked s) : Parked (tickDue s) := by
  unfold tickDue
  split
  · exact h
  · split
    · exact h
    · split
      · exact parked_of_jobs h rfl
      · apply monTick_parked
        exact parked_of_jobs h rfl

/-- `resume` removes exactly the units it answers: each of them returns -/
theorem resume_jobs {s : MState} (h : Parked s) (pick : Job → Option (Ans × Nat)) :
    (resume s pick).jobs = s.jobs.filter (fun j => (pick j).isNone) := by
  unfold resume
  have key : ∀ (todo : List Job) (s0 : MState), (∀ j ∈ todo, j.prog.parked = true) →
      (todo.foldl (fun s j =>
        match pick j with
        | none => s
        | some (a, m) => settle (exec s { j with answer := some a, m := m } j.prog)) s0).jobs = s0.jobs := by
    intro todo
    induction todo with
    | nil => intro s0 _; rfl
    | cons j todo ih =>
      intro s0 ht
      simp only [List.foldl_cons]
      rw [ih _ (fun x hx => ht x (by simp [hx]))]
      cases hp : pick j with
      | none => rfl
      | some am =>
        obtain ⟨a, m⟩ := am
        simp only
        have hret := exec_answered s0 j a m (ht j (by simp))
        have : settle (exec s0 { j with answer := some a, m := m } j.prog)
            = settle ((exec s0 { j with answer := some a, m := m } j.prog).1, (exec s0 { j with answer := some a, m := m } j.prog).2) := rfl
        rw [this, settle_jobs_ret hret, exec_jobs]
  exact key (s.jobs.filter (fun j => (pick j).isSome))
    { s with jobs := s.jobs.filter (fun j => (pick j).isNone) } (fun j hj => h j (List.mem_filter.1 hj).1)

theorem resume_parked {s : MState} (h : Parked s) (pick : Job → Option (Ans × Nat)) : Parked (resume s pick) := by
  intro j hj
  rw [resume_jobs h] at hj
  exact h j (List.mem_filter.1 hj).1

theorem expire_parked {s : MState} (h : Parked s) : Parked (expire s) := by
  unfold expire
  exact monKick_parked (parked_of_jobs (resume_parked h _) (finishCycle_jobs _))

theorem atTime_parked {s : MState} (h : Parked s) (t : Nat) : Parked (atTime s t) :=
  tickDue_parked (expire_parked (parked_of_jobs h rfl))

theorem advLoop_parked : ∀ (fuel : Nat) {s : MState}, Parked s → ∀ target, Parked (advLoop fuel s target) := by
  intro fuel
  induction fuel with
  | zero => intro s h _; exact h
  | succ n ih =>
    intro s h target
    simp only [advLoop]
    split
    · exact h
    · exact ih (atTime_parked h _) target

theorem advanceTo_parked {s : MState} (h : Parked s) (target : Nat) : Parked (advanceTo s target) :=
  atTime_parked (advLoop_parked _ h target) target

theorem advTo_parked {s : MState} (h : Parked s) (t : Nat) : Parked (advTo s t) := by
  unfold advTo; split
  · exact advanceTo_parked h _
  · exact expire_parked (parked_of_jobs h rfl)

theorem applyFailed_parked {s : MState} (h : Parked s) (n : Nat) : Parked (applyFailed s n) := by
  unfold applyFailed; split
  · exact parked_of_jobs h rfl
  · exact h

theorem openGate_parked {s : MState} (h : Parked s) : Parked (openGate s) := by
  unfold openGate
  apply monKick_parked
  refine parked_of_jobs ?_ (finishCycle_jobs _)
  refine foldl_parked _ ?_ _ _ ?_
  · intro s c hs; exact runHost_parked hs _ _
  · exact parked_of_jobs h rfl

theorem dropCands_jobs (s : MState) : (dropCands s).jobs = s.jobs := rfl

theorem closeWait_parked {s : MState} (h : Parked s) (dl : Nat) : Parked (closeWait s dl) := by
  unfold closeWait; split
  · exact parked_of_jobs h rfl
  · exact h

theorem closeAgent_parked {s : MState} (h : Parked s) : Parked (closeAgent s) := by
  unfold closeAgent
  refine parked_of_jobs ?_ (dropCands_jobs _)
  apply resume_parked
  apply closeWait_parked
  apply resume_parked
  exact parked_of_jobs (openGate_parked h) rfl

theorem acceptGather_parked {s : MState} (h : Parked s) : Parked (acceptGather s).1 := by
  simp only [acceptGather]
  split
  · exact parked_of_jobs h rfl
  · exact h
  · exact h

theorem startCycle_parked {s : MState} (h : Parked s) (cg : Option (Nat × Nat)) : Parked (startCycle s cg) := by
  simp only [startCycle]
  split
  · exact h
  · split
    · exact parked_of_jobs h rfl
    · refine parked_of_jobs (runCycleUnits_parked (recordKnown_parked ?_) _ _) (finishCycle_jobs _)
      exact parked_of_jobs h rfl

theorem restartOp_parked {s : MState} (h : Parked s) : Parked (restartOp s).1 := by
  simp only [restartOp]
  split
  · refine resume_parked ?_ _
    exact parked_of_jobs h rfl
  · exact h

theorem step_parked {s : MState} (h : Parked s) (op : Op) : Parked (step s op).1 := by
  cases op with
  | gather2 =>
    simp only [step]
    exact startCycle_parked (startCycle_parked (acceptGather_parked (acceptGather_parked h)) _) _
  | grg =>
    simp only [step]
    exact startCycle_parked (startCycle_parked (acceptGather_parked (restartOp_parked (acceptGather_parked h))) _) _
  | gather =>
    simp only [step]
    split
    · refine parked_of_jobs (runCycleUnits_parked (recordKnown_parked ?_) _ _) (finishCycle_jobs _)
      exact parked_of_jobs h rfl
    · exact h
    · exact h
  | ifaces t => exact parked_of_jobs h rfl
  | hold => exact parked_of_jobs h rfl
  | restart =>
    simp only [step]
    split
    · refine resume_parked ?_ _
      exact parked_of_jobs h rfl
    · exact h
  | close => exact closeAgent_parked h
  | fail t n =>
    simp only [step]
    split
    · exact h
    · exact applyFailed_parked (advTo_parked h _) n
  | release => exact openGate_parked h
  | adv ms => exact advTo_parked h _
  | stunreply k m =>
    simp only [step]
    split
    · exact h
    · exact monKick_parked (parked_of_jobs (resume_parked h _) (finishCycle_jobs _))
  | turnreply k ok m =>
    simp only [step]
    split
    · exact h
    · exact monKick_parked (parked_of_jobs (resume_parked h _) (finishCycle_jobs _))

theorem runOps_parked : ∀ (ops : List Op) {s : MState}, Parked s → Parked (runOps s ops) := by
  intro ops
  induction ops with
  | nil => intro s h; exact h
  | cons op ops ih => intro s h; exact ih (parked_of_jobs (step_parked h op) rfl)

end IceProofs.GatherPark
