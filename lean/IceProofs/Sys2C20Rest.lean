import IceProofs.Sys2C20
/-!
# C20 on `Sys2` — a quiesced exchange stays quiesced

From a quiesced state of an exchange, as long as A does not call `RenominateCandidate` again (and the session goes on:
no Restart / Close, roles kept, nobody Failed), under every schedule: the state stays quiesced and neither agent's
selection moves.  This is what makes `Quiesced` the right notion: with no valued message in flight and no valued
transaction outstanding, `answerOf` cannot select at A and `acceptAt` cannot fire at B; a success response on a pair of B
that carries an old deferred mark is superseded, or re-selects the selected pair.
-/
namespace IceProofs.C20S
open IceModel.AgentCore IceModel.Sys2 IceProofs.Sys2Run IceProofs.Agent IceProofs.Sys2C05

/-- the API events of a resting exchange: no Restart, no Close, no `RenominateCandidate` -/
def rests : Ev → Bool
  | .renominate _ _ _ _ => false
  | e => keeps e

theorem rests_keeps {ev : Ev} (h : rests ev = true) : keeps ev = true := by
  cases ev <;> first | exact h | cases h

theorem rests_issue {a : Agent} {ev : Ev} (h : rests ev = true) : issueOf a ev = none := by
  cases ev <;> first | rfl | cases h

theorem rests_of_not_api {ev : Ev} (h : ev.isApi = false) : rests ev = true := by
  cases ev <;> first | rfl | cases h

structure RestInv (nat : List (Nat × Nat)) (sa sb : Option Nat) (xa xb : Option (Nat × Nat)) (h : Hist) (s : Sys) :
    Prop where
  q : QInv nat h s
  quiet : Quiesced s
  selA : s.a.selected = sa
  selB : s.b.selected = sb
  addrA : ∀ x, xa = some x → selAddrs s.a = some x
  addrB : ∀ x, xb = some x → selAddrs s.b = some x

theorem valFree_nom {d : Dgram} (h : valFree d = true) {m : Msg} (hm : d.p = .stun m) : m.nom = none := by
  unfold valFree at h
  rw [hm] at h
  simpa using h

theorem selAddrs_keep {ex : Option Nat} {iss : Option (Nat × Nat × Nat)} {a a' : Agent} (hq : NomQ ex iss a a')
    (hs : a'.selected = a.selected) (x : Nat × Nat) (hx : selAddrs a = some x) : selAddrs a' = some x := by
  unfold selAddrs at hx ⊢
  rw [hs]
  cases hsel : a.selected with
  | none => rw [hsel] at hx; cases hx
  | some id =>
    rw [hsel] at hx
    exact hq.addrs id x hx

theorem rest_frame {nat : List (Nat × Nat)} {sa sb : Option Nat} {xa xb : Option (Nat × Nat)} {h : Hist} {s s' : Sys}
    (r : RestInv nat sa sb xa xb h s) (ha : s'.a = s.a) (hb : s'.b = s.b) (hn : s'.nat = s.nat)
    (hf : ∀ d ∈ s'.inflight, d ∈ s.inflight) : RestInv nat sa sb xa xb h s' := by
  refine ⟨qinv_frame r.q ha hb hn hf, ?_, ha ▸ r.selA, hb ▸ r.selB, ha ▸ r.addrA, hb ▸ r.addrB⟩
  obtain ⟨q1, q2, q3⟩ := r.quiet
  exact ⟨fun d hd => q1 d (hf d hd), by rw [ha]; exact q2, by rw [hb]; exact q3⟩

theorem rest_agentEv {nat : List (Nat × Nat)} {sa sb : Option Nat} {xa xb : Option (Nat × Nat)} {h : Hist} {s : Sys}
    (r : RestInv nat sa sb xa xb h s) (X : Bool) (ev : Ev) (hk : rests ev = true)
    (hadm : (∀ now la src m, ev ≠ .inbound now la src m) ∨ ∃ d, (DgramOK h d ∧ valFree d = true) ∧ ev = evOf s d)
    (hsess : Session (s.agentEv X ev).1) (hz : ∀ x ∈ (hstep h X (s.agent X) ev).issued, 0 < x.1) :
    RestInv nat sa sb xa xb (hstep h X (s.agent X) ev) (s.agentEv X ev).1 := by
  have hadmQ : (∀ now la src m, ev ≠ .inbound now la src m) ∨ ∃ d, DgramOK h d ∧ ev = evOf s d := by
    rcases hadm with h1 | ⟨d, hd, he⟩
    · exact Or.inl h1
    · exact Or.inr ⟨d, hd.1, he⟩
  have q' := qinv_agentEv r.q X ev (rests_keeps hk) hadmQ hsess hz
  obtain ⟨q1, q2, q3⟩ := r.quiet
  obtain ⟨hs1, hs2, hs3, hs4, hs5, hs6, hs7, hs8, hs9⟩ := r.q.sess
  cases X with
  | false =>
    have hpA := session_postA hsess
    rw [agentEv_a_false] at hpA
    obtain ⟨hp1, hp2, hp3, hp4⟩ := hpA
    obtain ⟨hq, hsel, hans⟩ := step_frame_ctl s.a ev r.q.invA hs1 (rests_keeps hk) hs5 hp3 hp4
    have hiss : issueOf s.a ev = none := rests_issue hk
    -- A's selection does not move: an answered transaction carries no value, and a pair is selected
    have hsame : (step s.a ev).1.selected = s.a.selected := by
      rw [hsel]
      cases hao : answerOf s.a ev with
      | none => rfl
      | some y =>
        obtain ⟨pd, id⟩ := y
        simp only []
        have hpn : pd.nom = none := q2 pd (hans pd id hao).1
        have hsn : s.a.selected.isNone = false := by
          cases hss : s.a.selected with
          | none => have := r.q.selA; rw [hss] at this; cases this
          | some _ => rfl
        simp [hpn, hsn]
    refine ⟨q', ⟨?_, ?_, ?_⟩, ?_, ?_, ?_, ?_⟩
    · intro d hd
      rw [agentEv_inflight_false] at hd
      rcases List.mem_append.mp hd with hd | hd
      · exact q1 d hd
      · unfold valFree
        cases hp : d.p with
        | data n => rfl
        | stun m =>
          simp only []
          cases hn : m.nom with
          | none => rfl
          | some v =>
            obtain ⟨_, _, _, h4⟩ := step_out_nom s.a ev d.src d.dst m v (mem_dgramsOf_stun hd hp) hn
            rw [hiss] at h4; cases h4
    · intro pd hpd
      rw [agentEv_a_false] at hpd
      rcases hq.pend pd hpd with h1 | h1 | ⟨v, _, h2⟩
      · exact q2 pd h1
      · exact h1
      · rw [hiss] at h2; cases h2
    · rw [agentEv_b_false]; exact q3
    · rw [agentEv_a_false, hsame]; exact r.selA
    · rw [agentEv_b_false]; exact r.selB
    · intro x hx
      rw [agentEv_a_false]
      exact selAddrs_keep hq hsame x (r.addrA x hx)
    · rw [agentEv_b_false]; exact r.addrB
  | true =>
    have hpB := session_postB hsess
    rw [agentEv_b_true] at hpB
    obtain ⟨hp1, hp2, hp3, hp4, hp5⟩ := hpB
    have hnr : resetsSelector s.b ev = false := no_reset hs2 (rests_keeps hk) (hp3.trans hs6.symm)
    -- nothing valued reaches B
    have hat : acceptAt s.b ev = none := by
      rcases hadm with hni | ⟨d, hd, rfl⟩
      · exact acceptAt_not_inbound hni
      · cases hacc : acceptAt s.b (evOf s d) with
        | none => rfl
        | some y =>
          obtain ⟨v, la, src⟩ := y
          unfold evOf at hacc
          cases hp : d.p with
          | data n => rw [hp] at hacc; cases hacc
          | stun m =>
            rw [hp] at hacc
            obtain ⟨_, _, hn⟩ := acceptAt_inbound hacc
            rw [valFree_nom hd.2 hp] at hn; cases hn
    have hplain : plainNomReq ev = false := by
      rcases hadm with hni | ⟨d, hd, rfl⟩
      · exact plainNomReq_not_inbound hni
      · unfold evOf
        cases hp : d.p with
        | data n => rfl
        | stun m =>
          simp only [plainNomReq]
          obtain ⟨_, h2⟩ := hd.1 m hp
          cases hc : m.cls == 0 with
          | false => rfl
          | true =>
            cases hu : m.useCand with
            | false => rfl
            | true =>
              have := h2 (by simpa using hc) hu
              rw [valFree_nom hd.2 hp] at this; cases this
    obtain ⟨hA, _, hC⟩ := step_frame_cld s.b ev r.q.invB hs2 (rests_keeps hk) hs6 hp3 hp4 hs9 hplain
    have hl := last_of_no_accept hnr hat
    -- B's selection does not move, and no mark waits
    have hB : ∃ ex, NomQ ex none s.b (step s.b ev).1 ∧ (step s.b ev).1.selected = s.b.selected ∧
        (∀ p' ∈ (step s.b ev).1.checklist, p'.nomOnSuccess = true → p'.state = .succeeded) := by
      cases hao : answerOf s.b ev with
      | none =>
        have hq := hC hao hat
        refine ⟨none, hq, ?_, ?_⟩
        · rcases hq.sel with h1 | ⟨_, h1⟩
          · exact h1
          · cases h1
        · intro p' hp' hn
          rcases hq.pairs p' hp' (by simp) with ⟨p, hp, _, hnk⟩ | ⟨_, hnk⟩
          · obtain ⟨h1, h2, _⟩ := nk_parts hnk
            have := q3 p hp (h2 ▸ hn)
            rw [this] at h1
            simpa using h1
          · unfold nk at hnk
            simp only [Prod.mk.injEq] at hnk
            rw [hnk.2.1] at hn; cases hn
      | some y =>
        obtain ⟨pd, id⟩ := y
        obtain ⟨p, hp, hpid, hq, hex, hsel0, hselv⟩ := hA pd id hao
        refine ⟨some id, hq, ?_, ?_⟩
        · cases hn : p.nomOnSuccess with
          | false => exact hsel0 hn
          | true =>
            obtain ⟨v', hv'⟩ := Option.isSome_iff_exists.mp ((r.q.defB p hp).1 hn)
            obtain ⟨last, hl1, hl2⟩ := (r.q.defB p hp).2 v' hv'
            rw [hselv v' hn hv', hl1]
            simp only []
            split
            · rfl
            · -- the mark carries the highest accepted value: its pair is the selected pair
              have hvl : v' = last := by omega
              subst hvl
              have hlb := r.q.lastB
              rw [hl1] at hlb
              cases hacc : h.accepted with
              | none => rw [hacc] at hlb; cases hlb
              | some z =>
                obtain ⟨v, lb, rb⟩ := z
                rw [hacc] at hlb
                simp only [Option.map_some, Option.some.injEq] at hlb
                subst hlb
                obtain ⟨_, id0, _, hJ, huniq⟩ := r.q.accB v' lb rb hacc
                have hid0 : id0 = id := (huniq p hp hv').symm.trans hpid
                subst hid0
                rcases hJ with hsel | ⟨q0, hq0, hq0id, hq0nk⟩
                · exact hsel.symm
                · have hpq : q0 = p := ids_unique r.q.invB hq0 hp (hq0id.trans hpid.symm)
                  subst hpq
                  unfold nk at hq0nk
                  simp only [Prod.mk.injEq, beq_eq_false_iff_ne, ne_eq] at hq0nk
                  exact absurd (q3 q0 hq0 hn) hq0nk.1
        · intro p' hp' hn
          by_cases hid : p'.id = id
          · exact (hex p' hp' hid).1
          · rcases hq.pairs p' hp' (by simpa using hid) with ⟨p1, hp1, _, hnk⟩ | ⟨_, hnk⟩
            · obtain ⟨h1, h2, _⟩ := nk_parts hnk
              have := q3 p1 hp1 (h2 ▸ hn)
              rw [this] at h1
              simpa using h1
            · unfold nk at hnk
              simp only [Prod.mk.injEq] at hnk
              rw [hnk.2.1] at hn; cases hn
    obtain ⟨ex, hq, hsame, hmarks⟩ := hB
    refine ⟨q', ⟨?_, ?_, ?_⟩, ?_, ?_, ?_, ?_⟩
    · intro d hd
      rw [agentEv_inflight_true] at hd
      rcases List.mem_append.mp hd with hd | hd
      · exact q1 d hd
      · unfold valFree
        cases hp : d.p with
        | data n => rfl
        | stun m =>
          simp only []
          cases hn : m.nom with
          | none => rfl
          | some v =>
            obtain ⟨_, _, _, h4⟩ := step_out_nom s.b ev d.src d.dst m v (mem_dgramsOf_stun hd hp) hn
            have := issueOf_controlling h4
            rw [hs6] at this; cases this
    · rw [agentEv_a_true]; exact q2
    · rw [agentEv_b_true]; exact hmarks
    · rw [agentEv_a_true]; exact r.selA
    · rw [agentEv_b_true, hsame]; exact r.selB
    · rw [agentEv_a_true]; exact r.addrA
    · intro x hx
      rw [agentEv_b_true]
      exact selAddrs_keep hq hsame x (r.addrB x hx)

theorem rest_sched (nat : List (Nat × Nat)) (sa sb : Option Nat) (xa xb : Option (Nat × Nat)) :
    SchedOK rests (RestInv nat sa sb xa xb) (fun h _ d => DgramOK h d ∧ valFree d = true) where
  hub := fun _ h => rests_of_not_api h
  sess := fun _ _ r => r.q.sess
  dgram := fun _ _ r d hd => ⟨r.q.fl d hd, r.quiet.1 d hd⟩
  dframe := fun _ _ _ _ hd _ _ _ => hd
  frame := fun _ _ _ r ha hb hn hf => rest_frame r ha hb hn hf
  agent := fun _ _ X ev r hk hadm hs hz => rest_agentEv r X ev hk hadm hs hz

/-- **A quiesced exchange rests.**  From a quiesced state of an exchange, along every continuation `ex2` in which A
does not call `RenominateCandidate` (no Restart / Close, every state a `Session`): the state stays quiesced and both
selections — pair ids and addresses — stay what they were. -/
theorem quiesced_rests {s0 : Sys} (hf : Fresh s0) (pre ex ex2 : List SysEv) (he : Established (Sys.runs s0 pre))
    (hex : Exchange (Sys.runs s0 pre) ex) (hz : PositiveValues (hist (Sys.runs s0 pre) ex).issued)
    (hq : Quiesced (Sys.runs (Sys.runs s0 pre) ex))
    (hex2 : ExchangeK rests (Sys.runs (Sys.runs s0 pre) ex) ex2) :
    Quiesced (Sys.runs (Sys.runs (Sys.runs s0 pre) ex) ex2) ∧
    (Sys.runs (Sys.runs (Sys.runs s0 pre) ex) ex2).a.selected = (Sys.runs (Sys.runs s0 pre) ex).a.selected ∧
    (Sys.runs (Sys.runs (Sys.runs s0 pre) ex) ex2).b.selected = (Sys.runs (Sys.runs s0 pre) ex).b.selected ∧
    (∀ x, selAddrs (Sys.runs (Sys.runs s0 pre) ex).a = some x →
      selAddrs (Sys.runs (Sys.runs (Sys.runs s0 pre) ex) ex2).a = some x) ∧
    (∀ x, selAddrs (Sys.runs (Sys.runs s0 pre) ex).b = some x →
      selAddrs (Sys.runs (Sys.runs (Sys.runs s0 pre) ex) ex2).b = some x) := by
  have q := exchange_qinv hf pre ex he hex hz
  have r0 : RestInv s0.nat _ _ _ _ (hist (Sys.runs s0 pre) ex) (Sys.runs (Sys.runs s0 pre) ex) :=
    ⟨q, hq, rfl, rfl, fun _ h => h, fun _ h => h⟩
  have hz2 : ∀ x ∈ (histFrom (hist (Sys.runs s0 pre) ex) (Sys.runs (Sys.runs s0 pre) ex) ex2).issued, 0 < x.1 := by
    -- nothing is issued along `ex2`
    have key : ∀ (h : Hist) (s : Sys) (es : List SysEv), (∀ e ∈ es, sysK rests e = true) →
        (histFrom h s es).issued = h.issued := by
      intro h s es
      induction es generalizing h s with
      | nil => intro _; rfl
      | cons e es ih =>
        intro hall
        simp only [histFrom]
        rw [ih _ _ (fun x hx => hall x (List.mem_cons_of_mem _ hx))]
        have he := hall e (List.mem_cons_self ..)
        -- one system event
        unfold hstepSys
        generalize hm : microEvs s e = l
        have hl : ∀ x ∈ l, rests x.2 = true := by
          intro x hx
          rw [← hm] at hx
          cases e with
          | api X ev =>
            simp only [microEvs] at hx
            split at hx
            · simp only [List.mem_singleton] at hx
              rw [hx]; exact he
            · cases hx
          | deliver k =>
            simp only [microEvs] at hx
            cases hk : s.inflight[k]? with
            | none => rw [hk] at hx; cases hx
            | some d =>
              rw [hk] at hx
              simp only [] at hx
              split at hx
              · cases hx
              · cases ho : s.owner (s.unmapped d.dst) with
                | none => rw [ho] at hx; cases hx
                | some Y =>
                  rw [ho] at hx
                  simp only [List.mem_singleton] at hx
                  rw [hx]
                  exact rests_of_not_api (by unfold evOf; cases d.p <;> rfl)
          | dup k =>
            simp only [microEvs] at hx
            cases hk : s.inflight[k]? with
            | none => rw [hk] at hx; cases hx
            | some d =>
              rw [hk] at hx
              simp only [] at hx
              split at hx
              · cases hx
              · cases ho : s.owner (s.unmapped d.dst) with
                | none => rw [ho] at hx; cases hx
                | some Y =>
                  rw [ho] at hx
                  simp only [List.mem_singleton] at hx
                  rw [hx]
                  exact rests_of_not_api (by unfold evOf; cases d.p <;> rfl)
          | drop k => simp only [microEvs] at hx; cases hx
          | advance now =>
            simp only [microEvs] at hx
            rcases List.mem_cons.mp hx with hx | hx
            · rw [hx]; rfl
            · split at hx
              · simp only [List.mem_singleton] at hx
                rw [hx]; rfl
              · cases hx
        clear hm
        induction l generalizing h with
        | nil => rfl
        | cons x xs ihl =>
          simp only [List.foldl_cons]
          rw [ihl _ (fun y hy => hl y (List.mem_cons_of_mem _ hy))]
          have hx := hl x (List.mem_cons_self ..)
          cases hX : x.1 with
          | false => rw [hstepA_issued, rests_issue hx]; simp
          | true => rw [hstepB_issued]
    rw [key _ _ _ hex2.1]
    exact hz
  have r := sched_runs (rest_sched s0.nat _ _ _ _) r0 ex2 hex2 hz2
  exact ⟨r.quiet, r.selA, r.selB, r.addrA, r.addrB⟩

end IceProofs.C20S
