import IceProofs.Sys2C20
/-!
# C20 on `Sys2` — a quiesced exchange stays quiesced

From a quiesced state of an exchange, as long as A issues no nomination again — neither through `RenominateCandidate`
nor through the automatic check of its selector (the log of issued nominations does not grow) — and the session goes on
(no Restart / Close, roles kept, nobody Failed), under every schedule: the state stays quiesced and an existing
selection does not move (at B: once a value has been accepted).  This is what makes `Quiesced` the right notion: with
no valued message in flight and no valued transaction outstanding, a valued answer cannot select at A and `acceptAt`
cannot fire at B; a success response on a pair of B that carries an old deferred value is superseded; ordinary
nominations move a selection only where nothing is selected, or (at B) no value has been accepted.
-/
namespace IceProofs.C20S
open IceModel.AgentCore IceModel.Sys2 IceProofs.Sys2Run IceProofs.Agent IceProofs.Sys2C05

/-- the API events of a resting exchange: no Restart, no Close, no `RenominateCandidate` -/
def rests : Ev → Bool
  | .renominate _ _ _ _ => false
  | e => keeps e

theorem rests_keeps {ev : Ev} (h : rests ev = true) : keeps ev = true := by
  cases ev <;> first | exact h | cases h

theorem rests_issue {a : Agent} {ev : Ev} (h : rests ev = true) : issueOf a ev = none := by
  cases ev <;> first | rfl | cases h

theorem rests_of_not_api {ev : Ev} (h : ev.isApi = false) : rests ev = true := by
  cases ev <;> first | rfl | cases h

structure RestInv (nat : List (Nat × Nat)) (n0 : Nat) (sa sb lb : Option Nat) (xa xb : Option (Nat × Nat)) (h : Hist)
    (s : Sys) : Prop where
  q : QInv nat h s
  /-- the log of issued nominations is at least as long as it was when the exchange came to rest -/
  logLen : n0 ≤ h.issued.length
  quiet : Quiesced s
  selA : ∀ id, sa = some id → s.a.selected = some id
  lastB : s.b.lastNomination = lb
  selB : lb.isSome = true → ∀ id, sb = some id → s.b.selected = some id
  addrA : ∀ x, xa = some x → selAddrs s.a = some x
  addrB : lb.isSome = true → ∀ x, xb = some x → selAddrs s.b = some x

theorem valFree_nom {d : Dgram} (h : valFree d = true) {m : Msg} (hm : d.p = .stun m) : m.nom = none := by
  unfold valFree at h
  rw [hm] at h
  simpa using h

/-- an existing selection that does not move keeps its addresses -/
theorem selAddrs_keep' {ex : Option Nat} {iss : Option (Nat × Nat × Nat)} {a a' : Agent} (hq : NomQ ex iss a a')
    (hs : ∀ id, a.selected = some id → a'.selected = some id) (x : Nat × Nat) (hx : selAddrs a = some x) :
    selAddrs a' = some x := by
  cases hsel : a.selected with
  | none => have := selAddrs_some_selected hx; rw [hsel] at this; cases this
  | some id => exact selAddrs_keep hq ((hs id hsel).trans hsel.symm) x hx

theorem rest_frame {nat : List (Nat × Nat)} {n0 : Nat} {sa sb lb : Option Nat} {xa xb : Option (Nat × Nat)} {h : Hist}
    {s s' : Sys}
    (r : RestInv nat n0 sa sb lb xa xb h s) (ha : s'.a = s.a) (hb : s'.b = s.b) (hn : s'.nat = s.nat)
    (hf : ∀ d ∈ s'.inflight, d ∈ s.inflight) : RestInv nat n0 sa sb lb xa xb h s' := by
  refine ⟨qinv_frame r.q ha hb hn hf, r.logLen, ?_, ha ▸ r.selA, hb ▸ r.lastB, hb ▸ r.selB, ha ▸ r.addrA, hb ▸ r.addrB⟩
  obtain ⟨q1, q2, q3⟩ := r.quiet
  exact ⟨fun d hd => q1 d (hf d hd), by rw [ha]; exact q2, by rw [hb]; exact q3⟩

theorem nk_def {p : Pair} {x : Bool × Bool × Option Nat} (h : nk p = x) : p.deferredNom = x.2.2 := by
  rw [← h]; rfl

theorem rest_agentEv {nat : List (Nat × Nat)} {n0 : Nat} {sa sb lb : Option Nat} {xa xb : Option (Nat × Nat)} {h : Hist}
    {s : Sys}
    (r : RestInv nat n0 sa sb lb xa xb h s) (X : Bool) (ev : Ev) (hk : rests ev = true)
    (hadm : (∀ now la src m, ev ≠ .inbound now la src m) ∨ ∃ d, (DgramOK h d ∧ valFree d = true) ∧ ev = evOf s d)
    (hsess : Session (s.agentEv X ev).1)
    (hzl : (∀ x ∈ (hstep h X (s.agent X) ev).issued, 0 < x.1) ∧ (hstep h X (s.agent X) ev).issued.length ≤ n0) :
    RestInv nat n0 sa sb lb xa xb (hstep h X (s.agent X) ev) (s.agentEv X ev).1 := by
  obtain ⟨hz, hlen⟩ := hzl
  have hadmQ : (∀ now la src m, ev ≠ .inbound now la src m) ∨ ∃ d, DgramOK h d ∧ ev = evOf s d := by
    rcases hadm with h1 | ⟨d, hd, he⟩
    · exact Or.inl h1
    · exact Or.inr ⟨d, hd.1, he⟩
  have q' := qinv_agentEv r.q X ev (rests_keeps hk) hadmQ hsess hz
  obtain ⟨q1, q2, q3⟩ := r.quiet
  obtain ⟨hs1, hs2, hs3, hs4, hs5, hs6, hs7, hs8, hs9⟩ := r.q.sess
  cases X with
  | false =>
    have hpA := session_postA hsess
    rw [agentEv_a_false] at hpA
    obtain ⟨hp1, hp2, hp3, hp4⟩ := hpA
    obtain ⟨hq, hsel, hans⟩ := step_frame_ctl s.a ev r.q.invA hs1 (rests_keeps hk) hs5 hp3 hp4
    -- the log of issued nominations has not grown: A issues nothing in this event
    have hiss : issuesOf s.a ev = [] := by
      have eA : s.agent false = s.a := rfl
      rw [eA, hstepA_issued, List.length_append] at hlen
      have := r.logLen
      exact List.eq_nil_of_length_eq_zero (by omega)
    have hlen' : n0 ≤ (hstep h false s.a ev).issued.length := by
      rw [hstepA_issued, List.length_append]; have := r.logLen; omega
    -- an existing selection of A does not move: an answered transaction carries no value
    have hsame : ∀ id0, s.a.selected = some id0 → (step s.a ev).1.selected = some id0 := by
      intro id0 hid0
      rw [hsel]
      cases hao : answerOf s.a ev with
      | none => exact hid0
      | some y =>
        obtain ⟨pd, id⟩ := y
        simp only []
        have hpn : pd.nom = none := q2 pd (hans pd id hao).1
        simp [hpn, hid0]
    refine ⟨q', hlen', ⟨?_, ?_, ?_⟩, ?_, ?_, ?_, ?_, ?_⟩
    · intro d hd
      rw [agentEv_inflight_false] at hd
      rcases List.mem_append.mp hd with hd | hd
      · exact q1 d hd
      · unfold valFree
        cases hp : d.p with
        | data n => rfl
        | stun m =>
          simp only []
          cases hn : m.nom with
          | none => rfl
          | some v =>
            obtain ⟨_, _, _, h4⟩ := step_out_nom s.a ev d.src d.dst m v (mem_dgramsOf_stun hd hp) hn
            rw [hiss] at h4; cases h4
    · intro pd hpd
      rw [agentEv_a_false] at hpd
      rcases hq.pend pd hpd with h1 | h1 | ⟨v, _, h2 | h2⟩
      · exact q2 pd h1
      · exact h1
      · have := issueOf_mem_issuesOf h2
        rw [hiss] at this; cases this
      · have : (v, pd.src, pd.dest) ∈ issuesOf s.a ev := h2
        rw [hiss] at this; cases this
    · rw [agentEv_b_false]; exact q3
    · intro id0 hid0
      rw [agentEv_a_false]; exact hsame id0 (r.selA id0 hid0)
    · rw [agentEv_b_false]; exact r.lastB
    · rw [agentEv_b_false]; exact r.selB
    · intro x hx
      rw [agentEv_a_false]
      exact selAddrs_keep' hq hsame x (r.addrA x hx)
    · rw [agentEv_b_false]; exact r.addrB
  | true =>
    have hpB := session_postB hsess
    rw [agentEv_b_true] at hpB
    obtain ⟨hp1, hp2, hp3, hp4, hp5⟩ := hpB
    have hnr : resetsSelector s.b ev = false := no_reset hs2 (rests_keeps hk) (hp3.trans hs6.symm)
    -- nothing valued reaches B
    have hat : acceptAt s.b ev = none := by
      rcases hadm with hni | ⟨d, hd, rfl⟩
      · exact acceptAt_not_inbound hni
      · cases hacc : acceptAt s.b (evOf s d) with
        | none => rfl
        | some y =>
          obtain ⟨v, la, src⟩ := y
          unfold evOf at hacc
          cases hp : d.p with
          | data n => rw [hp] at hacc; cases hacc
          | stun m =>
            rw [hp] at hacc
            obtain ⟨_, _, hn⟩ := acceptAt_inbound hacc
            rw [valFree_nom hd.2 hp] at hn; cases hn
    obtain ⟨hA, _, hC⟩ := step_frame_cld s.b ev r.q.invB hs2 (rests_keeps hk) hs6 hp3 hp4 hs9
    have hl := last_of_no_accept hnr hat
    -- once a value has been accepted, an existing selection of B does not move; deferred values are old ones
    have hB : ∃ ex, NomQ ex none s.b (step s.b ev).1 ∧
        (s.b.lastNomination.isSome = true → ∀ id0, s.b.selected = some id0 → (step s.b ev).1.selected = some id0) ∧
        (∀ p' ∈ (step s.b ev).1.checklist,
          p'.deferredNom = none ∨ ∃ p ∈ s.b.checklist, p'.deferredNom = p.deferredNom) := by
      have hother : ∀ {ex : Option Nat}, NomQ ex none s.b (step s.b ev).1 → ∀ p' ∈ (step s.b ev).1.checklist,
          some p'.id ≠ ex → p'.deferredNom = none ∨ ∃ p ∈ s.b.checklist, p'.deferredNom = p.deferredNom := by
        intro ex hq p' hp' hne
        rcases hq.pairs p' hp' hne with ⟨p, hp, _, hnk⟩ | ⟨_, hnk⟩
        · exact Or.inr ⟨p, hp, (nk_parts hnk).2.2⟩
        · exact Or.inl (nk_def hnk)
      cases hao : answerOf s.b ev with
      | none =>
        rcases hC hao hat with hq | ⟨_, id, _, hq, hsel, hmk⟩
        · refine ⟨none, hq, ?_, fun p' hp' => hother hq p' hp' (by simp)⟩
          intro _ id0 hid0
          rcases hq.sel with h1 | ⟨_, h1⟩
          · exact h1.trans hid0
          · cases h1
        · refine ⟨some id, hq, ?_, ?_⟩
          · intro hls id0 hid0
            rcases hsel with h1 | ⟨_, h1 | h1⟩
            · exact h1.trans hid0
            · rw [hid0] at h1; cases h1
            · rw [h1] at hls; cases hls
          · intro p' hp'
            by_cases hid : p'.id = id
            · rcases hmk p' hp' hid with ⟨p, hp, _, h1 | h1⟩ | ⟨_, h1 | h1⟩
              · exact Or.inr ⟨p, hp, (nk_parts h1).2.2⟩
              · exact Or.inr ⟨p, hp, nk_def h1⟩
              · exact Or.inl (nk_def h1)
              · exact Or.inl (nk_def h1)
            · exact hother hq p' hp' (by simpa using hid)
      | some y =>
        obtain ⟨pd, id⟩ := y
        obtain ⟨p, hp, hpid, hq, hex, hsel0, hselv, hselp⟩ := hA pd id hao
        refine ⟨some id, hq, ?_, ?_⟩
        · intro hls id0 hid0
          cases hn : p.nomOnSuccess with
          | false => exact (hsel0 hn).trans hid0
          | true =>
            cases hd : p.deferredNom with
            | none =>
              rcases hselp hn hd with h1 | ⟨_, h1 | h1⟩
              · exact h1.trans hid0
              · rw [hid0] at h1; cases h1
              · rw [h1] at hls; cases hls
            | some v' =>
              obtain ⟨last, hl1, hl2⟩ := r.q.defB p hp v' hd
              rw [hselv v' hn hd, hl1]
              simp only []
              split
              · exact hid0
              · -- the mark carries the highest accepted value: excluded in a quiesced state
                have hvl : v' = last := by omega
                subst hvl
                exact absurd (hd.trans hl1.symm) (q3 p hp (by rw [hd]; rfl))
        · intro p' hp'
          by_cases hid : p'.id = id
          · cases hn : p.nomOnSuccess with
            | true => exact Or.inl ((hex p' hp' hid).2.1 hn).2
            | false => exact Or.inr ⟨p, hp, ((hex p' hp' hid).2.2 hn).2⟩
          · exact hother hq p' hp' (by simpa using hid)
    obtain ⟨ex, hq, hsame, hmarks⟩ := hB
    have hlb : lb.isSome = true → s.b.lastNomination.isSome = true := fun h => by rw [r.lastB]; exact h
    have hlen' : n0 ≤ (hstep h true s.b ev).issued.length := by rw [hstepB_issued]; exact r.logLen
    refine ⟨q', hlen', ⟨?_, ?_, ?_⟩, ?_, ?_, ?_, ?_, ?_⟩
    · intro d hd
      rw [agentEv_inflight_true] at hd
      rcases List.mem_append.mp hd with hd | hd
      · exact q1 d hd
      · unfold valFree
        cases hp : d.p with
        | data n => rfl
        | stun m =>
          simp only []
          cases hn : m.nom with
          | none => rfl
          | some v =>
            obtain ⟨_, _, _, h4⟩ := step_out_nom s.b ev d.src d.dst m v (mem_dgramsOf_stun hd hp) hn
            rw [issuesOf_controlled s.b ev hp3] at h4
            cases h4
    · rw [agentEv_a_true]; exact q2
    · rw [agentEv_b_true, hl]
      intro p' hp' hsome
      rcases hmarks p' hp' with h1 | ⟨p, hp, h1⟩
      · rw [h1] at hsome; cases hsome
      · rw [h1] at hsome ⊢
        exact q3 p hp hsome
    · rw [agentEv_a_true]; exact r.selA
    · rw [agentEv_b_true, hl]; exact r.lastB
    · intro hls id0 hid0
      rw [agentEv_b_true]
      exact hsame (hlb hls) id0 (r.selB hls id0 hid0)
    · rw [agentEv_a_true]; exact r.addrA
    · intro hls x hx
      rw [agentEv_b_true]
      exact selAddrs_keep' hq (hsame (hlb hls)) x (r.addrB hls x hx)

theorem rest_sched (nat : List (Nat × Nat)) (n0 : Nat) (sa sb lb : Option Nat) (xa xb : Option (Nat × Nat)) :
    SchedOKZ rests (RestInv nat n0 sa sb lb xa xb) (fun h _ d => DgramOK h d ∧ valFree d = true)
      (fun l => (∀ x ∈ l, 0 < x.1) ∧ l.length ≤ n0) where
  hub := fun _ h => rests_of_not_api h
  sess := fun _ _ r => r.q.sess
  dgram := fun _ _ r d hd => ⟨r.q.fl d hd, r.quiet.1 d hd⟩
  dframe := fun _ _ _ _ hd _ _ _ => hd
  frame := fun _ _ _ r ha hb hn hf => rest_frame r ha hb hn hf
  agent := fun _ _ X ev r hk hadm hs hz => rest_agentEv r X ev hk hadm hs hz

/-- **A quiesced exchange rests.**  From a quiesced state of an exchange, along every continuation `ex2` in which A issues
no nomination — it does not call `RenominateCandidate`, and the automatic check of its selector (`WithAutomatic-
Renomination`) does not fire: the log of issued nominations is the same at the end (`hno`) — (no Restart / Close, every
state a `Session`): the state stays quiesced; a pair A has selected stays selected; B's highest accepted value stays, and
once B has accepted a value, a pair B has selected stays selected.  (Where nothing is selected yet, or B has accepted no
value, an ordinary nomination may still select.) -/
theorem quiesced_rests {s0 : Sys} (hf : Fresh s0) (pre ex ex2 : List SysEv) (he : Established (Sys.runs s0 pre))
    (hex : Exchange (Sys.runs s0 pre) ex) (hz : PositiveValues (hist (Sys.runs s0 pre) ex).issued)
    (hq : Quiesced (Sys.runs (Sys.runs s0 pre) ex))
    (hex2 : ExchangeK rests (Sys.runs (Sys.runs s0 pre) ex) ex2)
    (hno : (histFrom (hist (Sys.runs s0 pre) ex) (Sys.runs (Sys.runs s0 pre) ex) ex2).issued =
      (hist (Sys.runs s0 pre) ex).issued) :
    Quiesced (Sys.runs (Sys.runs (Sys.runs s0 pre) ex) ex2) ∧
    (∀ id, (Sys.runs (Sys.runs s0 pre) ex).a.selected = some id →
      (Sys.runs (Sys.runs (Sys.runs s0 pre) ex) ex2).a.selected = some id) ∧
    (∀ x, selAddrs (Sys.runs (Sys.runs s0 pre) ex).a = some x →
      selAddrs (Sys.runs (Sys.runs (Sys.runs s0 pre) ex) ex2).a = some x) ∧
    (Sys.runs (Sys.runs (Sys.runs s0 pre) ex) ex2).b.lastNomination = (Sys.runs (Sys.runs s0 pre) ex).b.lastNomination ∧
    ((Sys.runs (Sys.runs s0 pre) ex).b.lastNomination.isSome = true →
      (∀ id, (Sys.runs (Sys.runs s0 pre) ex).b.selected = some id →
        (Sys.runs (Sys.runs (Sys.runs s0 pre) ex) ex2).b.selected = some id) ∧
      (∀ x, selAddrs (Sys.runs (Sys.runs s0 pre) ex).b = some x →
        selAddrs (Sys.runs (Sys.runs (Sys.runs s0 pre) ex) ex2).b = some x)) := by
  have q := exchange_qinv hf pre ex he hex hz
  have r0 : RestInv s0.nat (hist (Sys.runs s0 pre) ex).issued.length _ _ _ _ _ (hist (Sys.runs s0 pre) ex)
      (Sys.runs (Sys.runs s0 pre) ex) :=
    ⟨q, Nat.le_refl _, hq, fun _ h => h, rfl, fun _ _ h => h, fun _ h => h, fun _ _ h => h⟩
  have r := sched_runsZ (rest_sched s0.nat _ _ _ _ _ _)
    (fun l l' hp hl => ⟨fun x hx => hl.1 x (hp.subset hx), Nat.le_trans hp.length_le hl.2⟩) r0 ex2 hex2
    (by rw [hno]; exact ⟨hz, Nat.le_refl _⟩)
  exact ⟨r.quiet, r.selA, r.addrA, r.lastB, fun hls => ⟨r.selB hls, r.addrB hls⟩⟩

end IceProofs.C20S
