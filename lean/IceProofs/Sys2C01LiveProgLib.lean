import IceProofs.Sys2C01LiveDefs
/-!
# C01 liveness, layer 2 — library for the progress lemmas: lookups under timestamp updates, `findPair` under
the updates of the helpers, closed forms of `sendRequest` / `sendSuccess`
-/
namespace IceProofs.C01Live.Prog
open IceModel.AgentCore IceProofs.C03 IceProofs.Agent

/-! ## lists -/

theorem pairwise_inj_mem {α β : Type} {f : α → β} {l : List α} (h : l.Pairwise (fun x y => f x ≠ f y)) {x y : α}
    (hx : x ∈ l) (hy : y ∈ l) (e : f x = f y) : x = y := by
  induction l with
  | nil => cases hx
  | cons z zs ih =>
    rw [List.pairwise_cons] at h
    rcases List.mem_cons.mp hx with rfl | hx' <;> rcases List.mem_cons.mp hy with rfl | hy'
    · rfl
    · exact absurd e (h.1 y hy')
    · exact absurd e.symm (h.1 x hx')
    · exact ih h.2 hx' hy'

theorem find?_eq_none_of {α : Type} (l : List α) (P : α → Bool) (h : ∀ x ∈ l, P x = false) : l.find? P = none := by
  rw [List.find?_eq_none]
  intro x hx
  rw [h x hx]; simp

theorem find?_congr_pred {α : Type} (l : List α) (P Q : α → Bool) (h : ∀ x ∈ l, P x = Q x) : l.find? P = l.find? Q := by
  induction l with
  | nil => rfl
  | cons y ys ih =>
    rw [List.find?_cons, List.find?_cons, h y (by simp)]
    rw [ih (fun x hx => h x (by simp [hx]))]

/-! ## candidate lookups -/

theorem findCand_some {l : List Cand} {u : Nat} {c : Cand} (h : findCand l u = some c) : c ∈ l ∧ c.uid = u := by
  unfold findCand at h
  exact ⟨List.mem_of_find?_eq_some h, by simpa using List.find?_some h⟩

theorem findCand_updCand (l : List Cand) (uid : Nat) (f : Cand → Cand) (u : Nat) (hu : ∀ c, (f c).uid = c.uid) :
    findCand (updCand l uid f) u = (findCand l u).map (fun c => if c.uid == uid then f c else c) := by
  unfold findCand updCand
  rw [List.find?_map]
  have : ((fun x : Cand => x.uid == u) ∘ fun c => if c.uid == uid then f c else c) = fun x => x.uid == u := by
    funext c; simp only [Function.comp]; split <;> simp [hu]
  rw [this]

theorem findCand_updCand_ckey (l : List Cand) (uid : Nat) (f : Cand → Cand) (u : Nat) (hu : ∀ c, (f c).uid = c.uid)
    (hk : ∀ c, ckey (f c) = ckey c) : (findCand (updCand l uid f) u).map ckey = (findCand l u).map ckey := by
  rw [findCand_updCand l uid f u hu, Option.map_map]
  cases findCand l u with
  | none => rfl
  | some c =>
    simp only [Option.map_some, Function.comp, Option.some.injEq]
    split
    · exact hk c
    · rfl

theorem findCand_of_mem {l : List Cand} {c : Cand} (h : c ∈ l) : ∃ c', findCand l c.uid = some c' ∧ c'.uid = c.uid := by
  cases hf : findCand l c.uid with
  | none =>
    unfold findCand at hf
    rw [List.find?_eq_none] at hf
    exact absurd (by simp) (hf c h)
  | some c' => exact ⟨c', rfl, (findCand_some hf).2⟩

/-- after `seenRemoteRecv u now`, a remote candidate with uid `u` resolves to a candidate heard at `now` -/
theorem remoteOf_heard (b : Agent) (u now x : Nat) (c : Cand) (hc : b.remoteOf x = some c) (hu : c.uid = u) :
    ∃ c', (b.seenRemoteRecv u now).remoteOf x = some c' ∧ c'.lastRecv = some now := by
  have h1 : (b.seenRemoteRecv u now).remoteOf x =
      (b.remoteOf x).map (fun c => if c.uid == u then { c with lastRecv := some now } else c) :=
    findCand_updCand _ _ _ _ (fun _ => rfl)
  rw [h1, hc]
  refine ⟨_, rfl, ?_⟩
  simp [hu]

/-- the candidates of `b` are those of `a` up to activity timestamps -/
structure CandSame (a b : Agent) : Prop where
  loc : ∀ u, (b.localOf u).map ckey = (a.localOf u).map ckey
  rem : ∀ u, (b.remoteOf u).map ckey = (a.remoteOf u).map ckey

theorem CandSame.refl (a : Agent) : CandSame a a := ⟨fun _ => rfl, fun _ => rfl⟩
theorem CandSame.trans {a b c : Agent} (h1 : CandSame a b) (h2 : CandSame b c) : CandSame a c :=
  ⟨fun u => (h2.loc u).trans (h1.loc u), fun u => (h2.rem u).trans (h1.rem u)⟩
theorem CandSame.of_eq {a b : Agent} (hl : b.locals = a.locals) (hr : b.remotes = a.remotes) : CandSame a b :=
  ⟨fun u => by unfold Agent.localOf; rw [hl], fun u => by unfold Agent.remoteOf; rw [hr]⟩

theorem seenLocalSent_candSame (a : Agent) (uid now : Nat) : CandSame a (a.seenLocalSent uid now) :=
  ⟨fun _ => findCand_updCand_ckey _ _ _ _ (fun _ => rfl) (fun _ => rfl), fun _ => rfl⟩

theorem seenRemoteRecv_candSame (a : Agent) (uid now : Nat) : CandSame a (a.seenRemoteRecv uid now) :=
  ⟨fun _ => rfl, fun _ => findCand_updCand_ckey _ _ _ _ (fun _ => rfl) (fun _ => rfl)⟩

theorem CandSame.localOf {a b : Agent} (h : CandSame a b) {u : Nat} {c : Cand} (hc : a.localOf u = some c) :
    ∃ c', b.localOf u = some c' ∧ ckey c' = ckey c := by
  have := h.loc u
  rw [hc] at this
  cases hb : b.localOf u with
  | none => rw [hb] at this; cases this
  | some c' => rw [hb] at this; exact ⟨c', rfl, by simpa using this⟩

theorem CandSame.remoteOf {a b : Agent} (h : CandSame a b) {u : Nat} {c : Cand} (hc : a.remoteOf u = some c) :
    ∃ c', b.remoteOf u = some c' ∧ ckey c' = ckey c := by
  have := h.rem u
  rw [hc] at this
  cases hb : b.remoteOf u with
  | none => rw [hb] at this; cases this
  | some c' => rw [hb] at this; exact ⟨c', rfl, by simpa using this⟩

/-! ## `findPair` -/

/-- the predicate of `Agent.findPair` (verbatim) -/
def fpPred (a : Agent) (l r : Cand) (p : Pair) : Bool :=
    match a.localOf p.l, a.remoteOf p.r with
    | some pl, some pr => pl.equal l && pr.equal r
    | _, _ => false

theorem findPair_eq (a : Agent) (l r : Cand) : a.findPair l r = a.checklist.find? (fpPred a l r) := rfl

theorem fpPred_congr {a b : Agent} {l r l' r' : Cand} {p p' : Pair}
    (hl : (b.localOf p'.l).map ckey = (a.localOf p.l).map ckey)
    (hr : (b.remoteOf p'.r).map ckey = (a.remoteOf p.r).map ckey)
    (el : ckey l' = ckey l) (er : ckey r' = ckey r) : fpPred b l' r' p' = fpPred a l r p := by
  unfold fpPred
  cases h1 : a.localOf p.l with
  | none =>
    rw [h1] at hl
    cases h1' : b.localOf p'.l with
    | none => rfl
    | some x => rw [h1'] at hl; cases hl
  | some pl =>
    rw [h1] at hl
    cases h1' : b.localOf p'.l with
    | none => rw [h1'] at hl; cases hl
    | some pl' =>
      rw [h1'] at hl
      have kl : ckey pl' = ckey pl := by simpa using hl
      cases h2 : a.remoteOf p.r with
      | none =>
        rw [h2] at hr
        cases h2' : b.remoteOf p'.r with
        | none => rfl
        | some x => rw [h2'] at hr; cases hr
      | some pr =>
        rw [h2] at hr
        cases h2' : b.remoteOf p'.r with
        | none => rw [h2'] at hr; cases hr
        | some pr' =>
          rw [h2'] at hr
          have kr : ckey pr' = ckey pr := by simpa using hr
          show (pl'.equal l' && pr'.equal r') = (pl.equal l && pr.equal r)
          rw [ckey_equal kl el, ckey_equal kr er]

theorem fpPred_same {a b : Agent} (h : CandSame a b) {l r l' r' : Cand} (el : ckey l' = ckey l) (er : ckey r' = ckey r)
    {p p' : Pair} (hpl : p'.l = p.l) (hpr : p'.r = p.r) : fpPred b l' r' p' = fpPred a l r p :=
  fpPred_congr (by rw [hpl]; exact h.loc _) (by rw [hpr]; exact h.rem _) el er

/-- `findPair` reads the agent through the checklist and the candidates up to timestamps only -/
theorem findPair_congr {a b : Agent} (hc : b.checklist = a.checklist) (h : CandSame a b) {l r l' r' : Cand}
    (el : ckey l' = ckey l) (er : ckey r' = ckey r) : b.findPair l' r' = a.findPair l r := by
  rw [findPair_eq, findPair_eq, hc]
  exact find?_congr_pred _ _ _ fun p _ => fpPred_same h el er rfl rfl

/-- with pairwise distinct remote addresses, the pair found for a listed remote candidate ends in that candidate -/
theorem findPair_remote {a : Agent} {l r : Cand} {p : Pair} (hpw : a.remotes.Pairwise (fun x y => x.addr ≠ y.addr))
    (hr : r ∈ a.remotes) (hfp : a.findPair l r = some p) : a.remoteOf p.r = some r := by
  rw [findPair_eq] at hfp
  have h := List.find?_some hfp
  unfold fpPred at h
  cases h1 : a.localOf p.l with
  | none => rw [h1] at h; cases h
  | some pl =>
    cases h2 : a.remoteOf p.r with
    | none => rw [h1, h2] at h; cases h
    | some pr =>
      rw [h1, h2] at h
      simp only [Bool.and_eq_true] at h
      have he := h.2
      simp only [Cand.equal, Cand.taEqual, Bool.and_eq_true, beq_iff_eq] at he
      have := pairwise_inj_mem (f := Cand.addr) hpw (findCand_some h2).1 hr he.1.1.1.2
      rw [this]

theorem findRemote_seenRemoteRecv (b : Agent) (u now net addr : Nat) :
    (b.seenRemoteRecv u now).findRemote net addr =
      (b.findRemote net addr).map (fun c => if c.uid == u then { c with lastRecv := some now } else c) := by
  unfold Agent.findRemote Agent.seenRemoteRecv updCand
  show List.find? _ (List.map _ b.remotes) = _
  rw [List.find?_map]
  have : ((fun c : Cand => c.net == net && c.addr == addr) ∘ fun c => if c.uid == u then { c with lastRecv := some now } else c)
      = fun c => c.net == net && c.addr == addr := by
    funext c; simp only [Function.comp]; split <;> rfl
  rw [this]

theorem findPair_modPair (a : Agent) (id : Nat) (f : Pair → Pair) (hl : ∀ p, (f p).l = p.l) (hr : ∀ p, (f p).r = p.r)
    (l r : Cand) : (a.modPair id f).findPair l r = (a.findPair l r).map (fun p => if p.id == id then f p else p) := by
  rw [findPair_eq, findPair_eq]
  show List.find? _ (List.map _ a.checklist) = _
  rw [List.find?_map]
  have : (fpPred (a.modPair id f) l r ∘ fun p => if p.id == id then f p else p) = fpPred a l r := by
    funext p
    simp only [Function.comp]
    refine fpPred_same (CandSame.refl a) rfl rfl ?_ ?_ <;> split <;> simp [hl, hr]
  rw [this]

end IceProofs.C01Live.Prog
