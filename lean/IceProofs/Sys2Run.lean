import IceModel.Sys2
/-!
# Sys2Run — the closed two-agent system as a transition system over `SysEv`

No third party forges traffic: an agent receives `inbound` / `inboundData` / `advance` only through the
hub functions of `IceModel.Sys2` (`Sys.handOver`, `Sys.advance`); the application may call the API
events (`Ev.isApi`) of either agent at any time.  The topology (`nat`, `blocked`, `hasB`) is fixed by
the initial state: no `SysEv` changes it.
-/
namespace IceModel.AgentCore

/-- the events an application can issue directly (everything but the three hub-driven events). -/
def Ev.isApi : Ev → Bool
  | .advance _ => false
  | .inbound _ _ _ _ => false
  | .inboundData _ _ _ _ _ => false
  | _ => true

end IceModel.AgentCore

namespace IceProofs.Sys2Run
open IceModel.AgentCore IceModel.Sys2

inductive SysEv where
  | api (isB : Bool) (e : Ev)
  | deliver (k : Nat)
  | dup (k : Nat)
  | drop (k : Nat)
  | advance (now : Nat)
  deriving Repr, Inhabited

/-- one system step with the outputs of agent A and of agent B.  An `api` event that is not an API
event (`inbound`, `inboundData`, `advance`) is refused (no-op).  `advance` may carry any time (the
safety theorems do not need monotone time). -/
def Sys.runOut (s : Sys) : SysEv → Sys × List Out × List Out
  | .api isB e =>
    if e.isApi then
      let r := s.agentEv isB e
      if isB then (r.1, [], r.2) else (r.1, r.2, [])
    else (s, [], [])
  | .deliver k => s.deliver k false
  | .dup k => s.deliver k true
  | .drop k => (s.drop k, [], [])
  | .advance now => s.advance now

def Sys.run (s : Sys) (e : SysEv) : Sys := (Sys.runOut s e).1

def Sys.runs (s : Sys) (evs : List SysEv) : Sys := evs.foldl Sys.run s

theorem Sys.runs_append (s : Sys) (e1 e2 : List SysEv) : Sys.runs s (e1 ++ e2) = Sys.runs (Sys.runs s e1) e2 := by
  simp [Sys.runs, List.foldl_append]

theorem Sys.runs_snoc (s : Sys) (es : List SysEv) (e : SysEv) : Sys.runs s (es ++ [e]) = Sys.run (Sys.runs s es) e := by
  simp [Sys.runs, List.foldl_append]

/-- both agents fresh, nothing in flight.  Configuration, credentials, tie-breakers, counters, the
topology and `hasB` are arbitrary. -/
structure Sys.Init (s : Sys) : Prop where
  a_tag : s.a.tag = 0
  b_tag : s.b.tag = 1
  a_checklist : s.a.checklist = []
  a_locals : s.a.locals = []
  a_remotes : s.a.remotes = []
  a_pending : s.a.pending = []
  a_selected : s.a.selected = none
  a_conn : s.a.connState = .new
  b_checklist : s.b.checklist = []
  b_locals : s.b.locals = []
  b_remotes : s.b.remotes = []
  b_pending : s.b.pending = []
  b_selected : s.b.selected = none
  b_conn : s.b.connState = .new
  inflight : s.inflight = []

/-- NAT functions on the bare mapping list (`Sys.mapped` / `Sys.unmapped` are these on `s.nat`). -/
def mappedL (nat : List (Nat × Nat)) (src : Nat) : Nat := ((nat.find? (·.1 == src)).map (·.2)).getD src
def unmappedL (nat : List (Nat × Nat)) (dst : Nat) : Nat := ((nat.find? (·.2 == dst)).map (·.1)).getD dst

theorem mapped_eq (s : Sys) (x : Nat) : s.mapped x = mappedL s.nat x := rfl
theorem unmapped_eq (s : Sys) (x : Nat) : s.unmapped x = unmappedL s.nat x := rfl

/-- address `x` survives the round trip through the NAT (`unmapped (mapped x) = x`). -/
def SaneAddr (nat : List (Nat × Nat)) (x : Nat) : Prop := unmappedL nat (mappedL nat x) = x

instance (nat : List (Nat × Nat)) (x : Nat) : Decidable (SaneAddr nat x) := by unfold SaneAddr; infer_instance

/-- `Reach`: a check from local address `la` to remote address `ra` can reach the peer, and the peer's
answer (sent from the real address behind `ra` to the address `la` is seen as) can come back. -/
def Reach (nat : List (Nat × Nat)) (blocked : List (Nat × Nat)) (la ra : Nat) : Prop :=
  (la, ra) ∉ blocked ∧ (unmappedL nat ra, mappedL nat la) ∉ blocked

instance (nat blocked : List (Nat × Nat)) (la ra : Nat) : Decidable (Reach nat blocked la ra) := by
  unfold Reach; infer_instance

def SameTopo (s t : Sys) : Prop := t.nat = s.nat ∧ t.blocked = s.blocked ∧ t.hasB = s.hasB

theorem agentEv_topo (s : Sys) (isB : Bool) (e : Ev) : SameTopo s (s.agentEv isB e).1 := by
  cases isB <;> simp [SameTopo, Sys.agentEv, Sys.setAgent]

/-- the event a delivered datagram becomes at its receiver. -/
def evOf (s : Sys) (d : Dgram) : Ev := match d.p with
  | .stun m => .inbound s.now (s.unmapped d.dst) (s.mapped d.src) m
  | .data n => .inboundData s.now (s.unmapped d.dst) (s.mapped d.src) n false

theorem handOver_eq (s : Sys) (d : Dgram) :
    s.handOver d =
      if s.blocked.contains (d.src, d.dst) then (s, [], [])
      else match s.owner (s.unmapped d.dst) with
        | none => (s, [], [])
        | some isB =>
          if isB then ((s.agentEv isB (evOf s d)).1, [], (s.agentEv isB (evOf s d)).2)
          else ((s.agentEv isB (evOf s d)).1, (s.agentEv isB (evOf s d)).2, []) := by
  simp only [Sys.handOver, evOf]
  split
  · rfl
  · cases s.owner (s.unmapped d.dst) with
    | none => rfl
    | some isB => cases isB <;> simp <;> exact ⟨rfl, rfl⟩

theorem advance_eq (s : Sys) (now : Nat) :
    s.advance now =
      if (({ s with now := now } : Sys).agentEv false (.advance now)).1.hasB then
        (((({ s with now := now } : Sys).agentEv false (.advance now)).1.agentEv true (.advance now)).1,
         (({ s with now := now } : Sys).agentEv false (.advance now)).2,
         ((({ s with now := now } : Sys).agentEv false (.advance now)).1.agentEv true (.advance now)).2)
      else ((({ s with now := now } : Sys).agentEv false (.advance now)).1,
            (({ s with now := now } : Sys).agentEv false (.advance now)).2, []) := by
  simp only [Sys.advance]

theorem deliver_eq (s : Sys) (k : Nat) (keep : Bool) :
    s.deliver k keep =
      match s.inflight[k]? with
      | none => (s, [], [])
      | some d => (if keep then s else { s with inflight := removeAt s.inflight k }).handOver d := by
  rfl

theorem handOver_topo (s : Sys) (d : Dgram) : SameTopo s (s.handOver d).1 := by
  rw [handOver_eq]
  split
  · simp [SameTopo]
  · split
    · simp [SameTopo]
    · rename_i isB _
      have h := agentEv_topo s isB
      cases isB <;> exact h _

theorem deliver_topo (s : Sys) (k : Nat) (keep : Bool) : SameTopo s (s.deliver k keep).1 := by
  rw [deliver_eq]
  split
  · simp [SameTopo]
  · cases keep
    · exact handOver_topo { s with inflight := removeAt s.inflight k } _
    · exact handOver_topo s _

theorem advance_topo (s : Sys) (now : Nat) : SameTopo s (s.advance now).1 := by
  rw [advance_eq]
  have h1 := agentEv_topo { s with now := now } false (.advance now)
  split
  · have h2 := agentEv_topo ({ s with now := now }.agentEv false (.advance now)).1 true (.advance now)
    exact ⟨h2.1.trans h1.1, h2.2.1.trans h1.2.1, h2.2.2.trans h1.2.2⟩
  · exact h1

/-- the topology never changes. -/
theorem Sys.run_topology (s : Sys) (e : SysEv) :
    (Sys.run s e).nat = s.nat ∧ (Sys.run s e).blocked = s.blocked ∧ (Sys.run s e).hasB = s.hasB := by
  cases e with
  | api isB e =>
    simp only [Sys.run, Sys.runOut]
    split
    · have h := agentEv_topo s isB e
      cases isB <;> exact h
    · simp
  | deliver k => exact deliver_topo s k false
  | dup k => exact deliver_topo s k true
  | drop k => simp [Sys.run, Sys.runOut, Sys.drop]
  | advance now => exact advance_topo s now

theorem Sys.runs_topology (s : Sys) (es : List SysEv) :
    (Sys.runs s es).nat = s.nat ∧ (Sys.runs s es).blocked = s.blocked ∧ (Sys.runs s es).hasB = s.hasB := by
  induction es generalizing s with
  | nil => simp [Sys.runs]
  | cons e es ih =>
    have h1 := ih (Sys.run s e)
    have h2 := Sys.run_topology s e
    simp only [Sys.runs, List.foldl_cons] at h1 ⊢
    exact ⟨h1.1.trans h2.1, h1.2.1.trans h2.2.1, h1.2.2.trans h2.2.2⟩

end IceProofs.Sys2Run
