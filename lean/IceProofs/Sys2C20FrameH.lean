import IceProofs.Sys2C20FrameC
/-!
# C20 on `Sys2` — the frame relation across the handlers (`handleSuccess`, the two request handlers)
-/
namespace IceProofs.C20S
open IceModel.AgentCore IceProofs.Agent IceProofs.AgentC06

/-- the marks of the pairs with an id that is already handed out are carried along a step that does not except it -/
theorem nk_carry {wa : Bool} {exs : Option Nat} {iss : Option (Nat × Nat × Nat)} {b c : Agent} {id : Nat}
    {X : Bool × Bool × Option Nat} (h : G wa exs none iss b c) (hle : id ≤ b.nextPairID)
    (hb : ∀ p' ∈ b.checklist, p'.id = id → nk p' = X) : ∀ p'' ∈ c.checklist, p''.id = id → nk p'' = X := by
  intro p'' hp'' hid
  rcases h.pairs p'' hp'' (fun e => by cases e) with ⟨p', hp', hid', hnk⟩ | ⟨hlt, _⟩
  · rw [hnk]; exact hb p' hp' (hid'.trans hid)
  · rw [hid] at hlt; exact absurd hle (Nat.not_le_of_gt hlt)

/-! ## `handleSuccess` -/

/-- the transaction a success response on `(l, r)` from `src` completes, with the pair it validates -/
def ansPair (a : Agent) (now : Nat) (m : Msg) (l r : Cand) (src : Nat) : Option (Pending × Pair) :=
  match (a.takePending now m.tid).2 with
  | none => none
  | some pd =>
    if pd.net == l.net && pd.dest == src && pd.src == l.addr then (a.findPair l r).map fun p => (pd, p) else none

theorem handleSuccess_none {wa : Bool} (a : Agent) (now : Nat) (m : Msg) (l r : Cand) (src : Nat)
    (h : ansPair a now m l r src = none) : G wa none none none a (a.handleSuccess now m l r src).1 := by
  rw [C03.handleSuccess_eq]
  have h0 := takePending_g (wa := wa) a now m.tid
  have hfp := C03.takePending_findPair a now m.tid l r
  unfold ansPair at h
  cases hp : (a.takePending now m.tid).2 with
  | none => exact h0
  | some pd =>
    rw [hp] at h
    simp only [] at h ⊢
    by_cases hc : (pd.net == l.net && pd.dest == src && pd.src == l.addr) = true
    · rw [if_pos hc] at h
      simp only [hc, Bool.not_true, Bool.false_eq_true, if_false]
      rw [hfp]
      cases hf : a.findPair l r with
      | none => exact h0
      | some p => rw [hf] at h; cases h
    · simp only [hc, Bool.not_false, if_true]
      exact h0

theorem ansPair_some {a : Agent} {now : Nat} {m : Msg} {l r : Cand} {src : Nat} {pd : Pending} {p : Pair}
    (h : ansPair a now m l r src = some (pd, p)) :
    (a.takePending now m.tid).2 = some pd ∧ pd.net = l.net ∧ pd.dest = src ∧ pd.src = l.addr ∧
    a.findPair l r = some p := by
  unfold ansPair at h
  cases hp : (a.takePending now m.tid).2 with
  | none => rw [hp] at h; cases h
  | some pd' =>
    rw [hp] at h
    simp only [] at h
    by_cases hc : (pd'.net == l.net && pd'.dest == src && pd'.src == l.addr) = true
    · rw [if_pos hc] at h
      cases hf : a.findPair l r with
      | none => rw [hf] at h; cases h
      | some p' =>
        rw [hf] at h
        simp only [Option.map_some, Option.some.injEq, Prod.mk.injEq] at h
        obtain ⟨rfl, rfl⟩ := h
        simp only [Bool.and_eq_true, beq_iff_eq] at hc
        exact ⟨rfl, hc.1.1, hc.1.2, hc.2, rfl⟩
    · rw [if_neg hc] at h; cases h

/-- the state right after the pair has been marked valid -/
def hsB (a : Agent) (now : Nat) (m : Msg) (pd : Pending) (p : Pair) : Agent :=
  (a.takePending now m.tid).1.modPair p.id (C03.hsMark pd)

theorem handleSuccess_some (a : Agent) (now : Nat) (m : Msg) (l r : Cand) (src : Nat) (pd : Pending) (p : Pair)
    (h : ansPair a now m l r src = some (pd, p)) :
    (a.handleSuccess now m l r src).1 =
      (C03.hsFin (hsB a now m pd p) p pd (C03.hsSel (hsB a now m pd p) p pd).1).modPair p.id
        (Pair.gotResponse now pd.ts) := by
  obtain ⟨h1, h2, h3, h4, h5⟩ := ansPair_some h
  rw [C03.handleSuccess_eq, h1]
  simp only [h2, h3, h4, beq_self_eq_true, Bool.and_self, Bool.not_true, Bool.false_eq_true, if_false]
  rw [C03.takePending_findPair, h5]
  rfl

theorem hsB_g {wa : Bool} (a : Agent) (now : Nat) (m : Msg) (pd : Pending) (p : Pair) :
    G wa none (some p.id) none a (hsB a now m pd p) :=
  G.after (takePending_g a now m.tid)
    (G.modPair_ex _ p.id (C03.hsMark pd) (fun _ => rfl) (fun _ => rfl) (fun _ => rfl))

theorem hsB_selected (a : Agent) (now : Nat) (m : Msg) (pd : Pending) (p : Pair) :
    (hsB a now m pd p).selected = a.selected :=
  (hsB_g (wa := false) a now m pd p).selected_eq

theorem hsB_core (a : Agent) (now : Nat) (m : Msg) (pd : Pending) (p : Pair) :
    (hsB a now m pd p).core = a.core := by
  unfold hsB; simp

/-- the pairs with the id of `p` right after the mark: valid, other marks as before -/
theorem hsB_marks (a : Agent) (now : Nat) (m : Msg) (pd : Pending) (p : Pair) (hn : (idsOf a).Nodup)
    (hp : p ∈ a.checklist) :
    ∀ p' ∈ (hsB a now m pd p).checklist, p'.id = p.id → nk p' = (true, p.nomOnSuccess, p.deferredNom) := by
  intro p' hp' hid
  unfold hsB Agent.modPair at hp'
  simp only [] at hp'
  rw [(C03.takePending_frame a now m.tid).1] at hp'
  obtain ⟨q, hq, h | h⟩ := C03.mem_updPair (l := a.checklist) hp'
  · obtain ⟨e, rfl⟩ := h
    have : q = p := by
      have h1 := pairById_of_mem_nodup hn hp
      exact pair_unique hn h1 hq e
    subst this
    rfl
  · rw [h.2] at hid; exact absurd hid h.1

theorem hsSel_g {wa : Bool} (a : Agent) (p : Pair) (pd : Pending) :
    G wa (some p.id) none none a (C03.hsSel a p pd).1 := by
  rcases C03.hsSel_cases a p pd with h | ⟨h, _⟩
  · rw [h]; exact G.refl _ _ _ _ _
  · rw [h]; exact select_g a p.id

/-- the bookkeeping after the decision: the answered value is recorded (controlling) / the mark of the pair is cleared
(controlled) -/
theorem hsFin_g {wa : Bool} (a : Agent) (p : Pair) (pd : Pending) (x : Agent) :
    G wa none (some p.id) none x (C03.hsFin a p pd x) := by
  unfold C03.hsFin
  split
  · split
    · exact G.w (wa := wa) (G.of_eq (a := x) rfl rfl rfl rfl (fun _ h => h) rfl)
    · exact G.refl _ _ _ _ _
  · split
    · exact G.modPair_ex x p.id C03.hsClear (fun _ => rfl) (fun _ => rfl) (fun _ => rfl)
    · exact G.refl _ _ _ _ _

/-- from the mark to the end of `handleSuccess`: the selection may move to the pair, its mark may be cleared -/
theorem handleSuccess_tail_g {wa : Bool} (a : Agent) (now : Nat) (m : Msg) (l r : Cand) (src : Nat) (pd : Pending)
    (p : Pair) (h : ansPair a now m l r src = some (pd, p)) :
    G wa (some p.id) (some p.id) none (hsB a now m pd p) (a.handleSuccess now m l r src).1 ∧
    (a.handleSuccess now m l r src).1.selected = (C03.hsSel (hsB a now m pd p) p pd).1.selected := by
  rw [handleSuccess_some a now m l r src pd p h]
  refine ⟨G.then (((hsSel_g _ p pd).weaken (Or.inr rfl) (Or.inl rfl) (Or.inl rfl) (fun w => w)).trans
    ((hsFin_g _ p pd _).weaken (Or.inl rfl) (Or.inr rfl) (Or.inl rfl) (fun w => w)))
    (G.modPair_keep _ p.id (Pair.gotResponse now pd.ts) (fun _ => rfl) (fun _ => rfl)
      (fun _ => rfl) (fun _ => rfl)), ?_⟩
  show (C03.hsFin _ p pd _).selected = _
  rw [C03.hsFin_selected]

/-- what the response leaves on the pair: valid; its deferred mark is consumed on a controlled agent -/
def marksAfter (ctl : Bool) (p : Pair) : Bool × Bool × Option Nat :=
  if !ctl && p.nomOnSuccess then (true, false, none) else (true, p.nomOnSuccess, p.deferredNom)

theorem modPair_marks (x : Agent) (id : Nat) (f : Pair → Pair) (hid : ∀ q, (f q).id = q.id)
    {X Y : Bool × Bool × Option Nat} (hx : ∀ q ∈ x.checklist, q.id = id → nk q = X)
    (hf : ∀ q, nk q = X → nk (f q) = Y) :
    ∀ p' ∈ (x.modPair id f).checklist, p'.id = id → nk p' = Y := by
  intro p' hp' hid'
  obtain ⟨q, hq, h | h⟩ := C03.mem_updPair (l := x.checklist) hp'
  · obtain ⟨e, rfl⟩ := h
    exact hf q (hx q hq e)
  · rw [h.2] at hid'; exact absurd hid' h.1

theorem handleSuccess_marks (a : Agent) (now : Nat) (m : Msg) (l r : Cand) (src : Nat) (pd : Pending) (p : Pair)
    (h : ansPair a now m l r src = some (pd, p)) (hn : (idsOf a).Nodup) (hle : p.id ≤ a.nextPairID)
    (hp : p ∈ a.checklist) :
    ∀ p' ∈ (a.handleSuccess now m l r src).1.checklist, p'.id = p.id → nk p' = marksAfter a.controlling p := by
  rw [handleSuccess_some a now m l r src pd p h]
  have hB := hsB_g (wa := false) a now m pd p
  have h0 := hsB_marks a now m pd p hn hp
  have hle0 : p.id ≤ (hsB a now m pd p).nextPairID := Nat.le_trans hle hB.npid
  have h1 := nk_carry (hsSel_g (wa := false) (hsB a now m pd p) p pd) hle0 h0
  have hle1 : p.id ≤ (C03.hsSel (hsB a now m pd p) p pd).1.nextPairID :=
    Nat.le_trans hle0 (hsSel_g (wa := false) (hsB a now m pd p) p pd).npid
  have hctl : (hsB a now m pd p).controlling = a.controlling := congrArg Core.controlling (hsB_core a now m pd p)
  have h2 : ∀ p' ∈ (C03.hsFin (hsB a now m pd p) p pd (C03.hsSel (hsB a now m pd p) p pd).1).checklist,
      p'.id = p.id → nk p' = marksAfter a.controlling p := by
    unfold C03.hsFin marksAfter
    rw [hctl]
    cases hc : a.controlling with
    | true =>
      simp only [if_true, Bool.not_true, Bool.false_and, Bool.false_eq_true, if_false]
      split
      · exact h1
      · exact h1
    | false =>
      simp only [Bool.false_eq_true, if_false, Bool.not_false, Bool.true_and]
      cases hno : p.nomOnSuccess with
      | true =>
        simp only [if_true]
        exact modPair_marks _ p.id C03.hsClear (fun _ => rfl) h1 (fun q hq => by
          unfold nk at hq ⊢
          simp only [Prod.mk.injEq] at hq
          simp [C03.hsClear, hq.1])
      | false =>
        simp only [Bool.false_eq_true, if_false]
        rw [hno] at h1
        exact h1
  have hG2 := hsFin_g (wa := false) (hsB a now m pd p) p pd (C03.hsSel (hsB a now m pd p) p pd).1
  exact nk_carry (G.modPair_keep (wa := false) _ p.id (Pair.gotResponse now pd.ts)
    (fun _ => rfl) (fun _ => rfl) (fun _ => rfl) (fun _ => rfl)) (Nat.le_trans hle1 hG2.npid) h2

/-- the controlling selector: a response to a USE-CANDIDATE check selects when it carried a value that is not
superseded, or when nothing is selected -/
theorem hsSel_ctl (a : Agent) (p : Pair) (pd : Pending) (hc : a.controlling = true) :
    (C03.hsSel a p pd).1.selected =
      if pd.useCand then
        match pd.nom with
        | some v => if supersededBy a.answeredNomination v then a.selected else some p.id
        | none => if a.selected.isNone then some p.id else a.selected
      else a.selected := by
  unfold C03.hsSel supersededBy
  simp only [hc, if_true]
  cases pd.useCand with
  | false => simp
  | true =>
    simp only [if_true]
    cases pd.nom with
    | none => simp only []; split <;> simp [C03.select_selected]
    | some v =>
      simp only []
      cases a.answeredNomination with
      | none => simp [C03.select_selected]
      | some w => by_cases hle : v ≤ w <;> simp [hle, C03.select_selected]

/-- … and what it records as answered -/
theorem hsFin_answered (a : Agent) (p : Pair) (pd : Pending) (x : Agent) (hc : a.controlling = true)
    (hx : x.answeredNomination = a.answeredNomination) :
    (C03.hsFin a p pd x).answeredNomination =
      if pd.useCand then
        match pd.nom with
        | some v => if supersededBy a.answeredNomination v then a.answeredNomination else some v
        | none => a.answeredNomination
      else a.answeredNomination := by
  unfold C03.hsFin C03.hsAnswered supersededBy
  simp only [hc, if_true]
  cases pd.useCand with
  | false => simp [hx]
  | true =>
    simp only [if_true]
    cases pd.nom with
    | none => simp [hx]
    | some v =>
      simp only []
      cases ha : a.answeredNomination with
      | none => simp
      | some w => by_cases hle : v ≤ w <;> simp [hle, hx, ha]

/-- the controlled selector on a pair whose mark carries no value: the selection moves only if nothing is selected or
no nomination value has been accepted -/
theorem hsSel_cld_unvalued (a : Agent) (p : Pair) (pd : Pending) (hc : a.controlling = false)
    (hn : p.nomOnSuccess = true) (hd : p.deferredNom = none) (hsel : ∀ sid, a.selected = some sid → (a.pairById sid).isSome = true) :
    (C03.hsSel a p pd).1.selected = a.selected ∨
      ((C03.hsSel a p pd).1.selected = some p.id ∧ (a.selected = none ∨ a.lastNomination = none)) := by
  unfold C03.hsSel
  simp only [hc, Bool.false_eq_true, if_false, hn, if_true, hd]
  cases hs : a.selected with
  | none => simp [C03.select_selected]
  | some sid =>
    obtain ⟨sp, hsp⟩ := Option.isSome_iff_exists.mp (hsel sid hs)
    simp only [Option.bind_some, hsp]
    split
    · exact Or.inl hs
    · rename_i h1
      split
      · refine Or.inr ⟨C03.select_selected _ _, Or.inr ?_⟩
        rename_i h2
        simp only [Bool.and_eq_true, Bool.not_eq_true] at h1 h2
        cases hl : a.lastNomination with
        | none => rfl
        | some w =>
          have h3 : ¬ (sp.id != p.id) = true → False := fun h => h (by simpa using h2.1)
          have : a.lastNomination = none := by
            have h1' := h1
            simp only [Bool.and_eq_true, Option.isSome_iff_ne_none, ne_eq, not_and, Classical.not_not, bne_iff_ne] at h1'
            exact h1' (by simpa using h2.1)
          rw [hl] at this; cases this
      · exact Or.inl hs

/-- the controlled selector on a pair without a remembered nomination: nothing -/
theorem hsSel_cld_plain (a : Agent) (p : Pair) (pd : Pending) (hc : a.controlling = false)
    (hn : p.nomOnSuccess = false) : C03.hsSel a p pd = (a, []) := by
  unfold C03.hsSel
  simp [hc, hn]

/-! ## `ctlHandleRequest` never moves the selection, the nomination it triggers carries no value -/

theorem reqMark_g {wa : Bool} (a : Agent) (id : Nat) (m : Msg) : G wa none none none a (a.modPair id (C03.reqMark m)) :=
  G.modPair_keep a id (C03.reqMark m) (fun _ => rfl) (fun _ => rfl) (fun _ => rfl) (fun _ => rfl)

theorem ctlNominate_g {wa : Bool} (a : Agent) (now : Nat) (l r : Cand) (p : Pair) (o : List Out) :
    G wa none none none a (C03.ctlNominate a now l r p o).1 := by
  rcases C03.ctlNominate_cases a now l r p o with h | h
  · rw [h]; exact G.refl _ _ _ _ _
  · rw [h]
    exact (G.of_eq (a := a) (a' := { a with nominatedPair := some p.id }) rfl rfl rfl rfl (fun _ h => h) rfl).trans
      (nominate_g _ now p)

theorem ctlHandleRequest_g {wa : Bool} (a : Agent) (now : Nat) (m : Msg) (l r : Cand) :
    G wa none none none a (a.ctlHandleRequest now m l r).1 := by
  rw [C03.ctlHandleRequest_eq]
  have h1 := sendSuccess_g (wa := wa) a now m l r
  generalize a.sendSuccess now m l r = ss at h1 ⊢
  obtain ⟨a1, o1⟩ := ss
  split
  · exact (h1.trans (addPair_g a1 l r)).trans (reqMark_g _ _ m)
  · rename_i p _
    exact (h1.trans (reqMark_g a1 p.id m)).trans (ctlNominate_g _ now l r p o1)

/-! ## `cldHandleRequest` -/

theorem ensurePair_g {wa : Bool} (a : Agent) (l r : Cand) : G wa none none none a (ensurePair a l r).1 := by
  unfold ensurePair
  split
  · exact G.refl _ _ _ _ _
  · exact addPair_g a l r

theorem countReq_g {wa : Bool} (a : Agent) (id : Nat) (m : Msg) : G wa none none none a (a.modPair id (countReq m)) :=
  G.modPair_keep a id (countReq m) (fun _ => rfl) (fun _ => rfl) (fun _ => rfl) (fun _ => rfl)

theorem counted_g {wa : Bool} (a : Agent) (m : Msg) (l r : Cand) :
    G wa none none none (ensurePair a l r).1 (counted a m l r) := countReq_g _ _ m

theorem cldPing_g {wa : Bool} (a : Agent) (now : Nat) (l r : Cand) (id : Nat) :
    G wa none none none a (C03.cldPing a now l r id).1 := by
  unfold C03.cldPing
  split
  · split
    · exact ping_g _ _ _ _
    · exact G.refl _ _ _ _ _
  · exact G.refl _ _ _ _ _

theorem cldProceed_fst (a : Agent) (now : Nat) (m : Msg) (l r : Cand) (id : Nat) :
    (cldProceed a now m l r id).1 =
      (C03.cldPing ((cldNominate a m id).1.sendSuccess now m l r).1 now l r id).1 := by
  unfold cldProceed C03.cldPing
  rcases cldNominate a m id with ⟨a1, o1⟩
  dsimp only []
  rcases a1.sendSuccess now m l r with ⟨a2, o2⟩
  dsimp only []
  cases a2.pairById id with
  | none => rfl
  | some p => rfl

/-- after the nomination block: response and triggered check are quiet -/
theorem cldProceed_tail_g {wa : Bool} (a : Agent) (now : Nat) (m : Msg) (l r : Cand) (id : Nat) :
    G wa none none none (cldNominate a m id).1 (cldProceed a now m l r id).1 := by
  rw [cldProceed_fst]
  exact (sendSuccess_g _ now m l r).trans (cldPing_g _ now l r id)

theorem cldNominate_not (a : Agent) (m : Msg) (id : Nat) (h : (m.useCand || m.nom.isSome) = false) :
    cldNominate a m id = (a, []) := by
  unfold cldNominate
  simp [h]

/-- a request that is not a nomination, or whose nomination value is rejected, is quiet -/
theorem cld_quiet_g {wa : Bool} (a : Agent) (now : Nat) (m : Msg) (l r : Cand)
    (hq : (m.useCand || m.nom.isSome) = false ∨ (shouldAcceptNomination m.nom a.lastNomination).2 = false) :
    G wa none none none a (a.cldHandleRequest now m l r).1 := by
  rw [cldHandleRequest_nf]
  simp only []
  have h1 : G wa none none none a ((ensurePair a l r).1.modPair (ensurePair a l r).2.id (countReq m)) :=
    (ensurePair_g a l r).trans (countReq_g _ _ m)
  have hln := counted_lastNomination a m l r
  unfold counted at hln
  rw [hln]
  split
  · exact h1.trans (sendSuccess_g _ now m l r)
  · rename_i hc
    have hnn : (m.useCand || m.nom.isSome) = false := by
      rcases hq with hq | hq
      · exact hq
      · rw [hq] at hc
        simpa using hc
    have h2 := cldProceed_tail_g (wa := wa)
      { ((ensurePair a l r).1.modPair (ensurePair a l r).2.id (countReq m)) with
        lastNomination := (shouldAcceptNomination m.nom a.lastNomination).1 } now m l r (ensurePair a l r).2.id
    rw [cldNominate_not _ _ _ hnn] at h2
    have h1' : G wa none none none a
        ({ ((ensurePair a l r).1.modPair (ensurePair a l r).2.id (countReq m)) with
          lastNomination := (shouldAcceptNomination m.nom a.lastNomination).1 } : Agent) :=
      h1.trans (G.of_eq rfl rfl rfl rfl (fun _ h => h) rfl)
    exact h1'.trans h2

theorem ensurePair_ids (a : Agent) (l r : Cand) (hnd : (idsOf a).Nodup)
    (hle : ∀ p ∈ a.checklist, p.id ≤ a.nextPairID) :
    (idsOf (ensurePair a l r).1).Nodup ∧ (ensurePair a l r).2.id ≤ (ensurePair a l r).1.nextPairID ∧
    (ensurePair a l r).2 ∈ (ensurePair a l r).1.checklist := by
  unfold ensurePair
  split
  · rename_i p hp
    exact ⟨hnd, hle p (C03.findPair_mem hp), C03.findPair_mem hp⟩
  · refine ⟨?_, Nat.le_refl _, C03.addPair_snd_mem a l r⟩
    rw [idsOf_addPair, List.nodup_append]
    refine ⟨hnd, by simp, ?_⟩
    intro x hx y hy
    obtain ⟨p, hp, rfl⟩ := List.mem_map.1 hx
    have := hle p hp
    simp at hy; omega

/-- the valid-pair branch of the nomination block on a full agent -/
theorem cldNominate_valid (a : Agent) (m : Msg) (id v : Nat) (q : Pair) (hn : m.nom = some v)
    (hq : a.pairById id = some q) (hs : q.state = .succeeded) (hl : a.cfg.lite = false) :
    cldNominate a m id = a.select id ∨ cldNominate a m id = (a, []) := by
  unfold cldNominate
  simp only [hn, Option.isSome_some, Bool.or_true, if_true, hl, Bool.false_eq_true, if_false, hq, hs,
    beq_self_eq_true]
  split
  · exact Or.inl rfl
  · exact Or.inr rfl

/-- **an accepted nomination value** on a full controlled agent: from the state in which the pair of the request
exists, either the pair is selected at once and no mark changes, or the selection stays and the pair is marked -/
theorem cld_accept_g {wa : Bool} (a1 : Agent) (now : Nat) (m : Msg) (l r : Cand) (v : Nat) (hn : m.nom = some v)
    (hacc : (shouldAcceptNomination (some v) a1.lastNomination).2 = true) (hl : a1.cfg.lite = false)
    (hnd : (idsOf a1).Nodup) (hle : ∀ p ∈ a1.checklist, p.id ≤ a1.nextPairID) :
    (ensurePair a1 l r).2 ∈ (ensurePair a1 l r).1.checklist ∧
    (ensurePair a1 l r).2.id ≤ (ensurePair a1 l r).1.nextPairID ∧
    ((G wa (some (ensurePair a1 l r).2.id) none none (ensurePair a1 l r).1 (a1.cldHandleRequest now m l r).1 ∧
        (a1.cldHandleRequest now m l r).1.selected = some (ensurePair a1 l r).2.id) ∨
     (G wa none (some (ensurePair a1 l r).2.id) none (ensurePair a1 l r).1 (a1.cldHandleRequest now m l r).1 ∧
        ∀ p' ∈ (a1.cldHandleRequest now m l r).1.checklist, p'.id = (ensurePair a1 l r).2.id →
          nk p' = (false, true, some v))) := by
  obtain ⟨hnd1, hle1, hmem1⟩ := ensurePair_ids a1 l r hnd hle
  refine ⟨hmem1, hle1, ?_⟩
  rw [cld_accepted a1 now m l r v hn ((accept_some_iff v a1.lastNomination).1 hacc)]
  generalize hid : (ensurePair a1 l r).2.id = id at hle1 ⊢
  -- the deciding state
  have hc0 : G wa none none none (ensurePair a1 l r).1
      ({ counted a1 m l r with lastNomination := some v } : Agent) :=
    (counted_g a1 m l r).trans (G.of_eq rfl rfl rfl rfl (fun _ h => h) rfl)
  have hidsC : idsOf ({ counted a1 m l r with lastNomination := some v } : Agent) = idsOf (ensurePair a1 l r).1 :=
    idsOf_modPair _ _ (countReq m) (fun _ => rfl)
  have hcfg : ({ counted a1 m l r with lastNomination := some v } : Agent).cfg.lite = false := by
    have : (ensurePair a1 l r).1.cfg = a1.cfg := congrArg Core.cfg (core_ensurePair a1 l r)
    show (ensurePair a1 l r).1.cfg.lite = false
    rw [this]; exact hl
  obtain ⟨q, hq⟩ := ensurePair_pairById a1 l r
  have hqc : ({ counted a1 m l r with lastNomination := some v } : Agent).pairById id = some (countReq m q) := by
    have := counted_pairById a1 m l r q hq
    rw [hid] at this
    exact this
  generalize ({ counted a1 m l r with lastNomination := some v } : Agent) = c at hc0 hidsC hcfg hqc ⊢
  have htail := cldProceed_tail_g (wa := wa) c now m l r id
  by_cases hs : q.state = .succeeded
  · left
    have hsel : (cldNominate c m id).1.selected = some id :=
      cldNominate_immediate c m id v (countReq m q) hn hqc (Or.inl hs)
    have hg : G wa (some id) none none c (cldNominate c m id).1 := by
      rcases cldNominate_valid c m id v (countReq m q) hn hqc hs hcfg with h | h
      · rw [h]; exact select_g c id
      · rw [h]; exact G.refl _ _ _ _ _
    exact ⟨G.after hc0 (G.then hg htail), htail.selected_eq.trans hsel⟩
  · right
    have hdef := cldNominate_deferred c m id v (countReq m q) hn hqc hs hcfg
    rw [hdef] at htail
    have hg : G wa none (some id) none c (c.modPair id fun p => { p with nomOnSuccess := true, deferredNom := some v }) :=
      G.modPair_ex c id _ (fun _ => rfl) (fun _ => rfl) (fun _ => rfl)
    refine ⟨G.after hc0 (G.then hg htail), ?_⟩
    have hmarks : ∀ p' ∈ (c.modPair id fun p => { p with nomOnSuccess := true, deferredNom := some v }).checklist,
        p'.id = id → nk p' = (false, true, some v) := by
      intro p' hp' hpid
      obtain ⟨x, hx, h | h⟩ := C03.mem_updPair (l := c.checklist) hp'
      · obtain ⟨e, rfl⟩ := h
        have hxq : x = countReq m q := pair_unique (by rw [← hidsC] at hnd1; exact hnd1) hqc hx e
        subst hxq
        unfold nk
        have : ((countReq m q).state == PairState.succeeded) = false := by
          have : (countReq m q).state = q.state := rfl
          rw [this]
          cases hh : q.state <;> simp_all
        simp only [this]
      · rw [h.2] at hpid; exact absurd hpid h.1
    refine nk_carry htail ?_ hmarks
    exact Nat.le_trans hle1 hc0.npid

/-- an id that resolves keeps resolving when no pair is dropped -/
theorem pairById_isSome_of_fwd {a b : Agent} (hf : ∀ p ∈ a.checklist, ∃ p' ∈ b.checklist, p'.id = p.id) {sid : Nat}
    (h : (a.pairById sid).isSome = true) : (b.pairById sid).isSome = true := by
  obtain ⟨p, hp⟩ := Option.isSome_iff_exists.mp h
  obtain ⟨hpm, hpid⟩ := C03.pairById_mem hp
  obtain ⟨p', hp', hid'⟩ := hf p hpm
  unfold Agent.pairById
  rw [List.find?_isSome]
  exact ⟨p', hp', by simp [hid', hpid]⟩

/-- the switch rule for a nomination without a value: the selection moves only if nothing is selected or no value has
been accepted -/
theorem inlineSwitch_plain (c : Agent) (id : Nat) (m : Msg) (p : Pair) (hn : m.nom = none)
    (hsel : ∀ sid, c.selected = some sid → (c.pairById sid).isSome = true) (h : inlineSwitch c id m p = true) :
    c.selected = none ∨ c.lastNomination = none := by
  unfold inlineSwitch at h
  cases hs : c.selected with
  | none => exact Or.inl rfl
  | some sid =>
    obtain ⟨sp, hsp⟩ := Option.isSome_iff_exists.mp (hsel sid hs)
    rw [hs] at h
    simp only [Option.bind_some, hsp, hn, Option.isSome_none, Bool.false_eq_true, if_false] at h
    split at h
    · cases h
    · split at h
      · cases h
      · rename_i h2
        right
        cases hl : c.lastNomination with
        | none => rfl
        | some w => rw [hl] at h2; simp at h2

/-- **an ordinary nomination** (USE-CANDIDATE, no value) on a full controlled agent, from the state in which the pair
of the request exists: the selection moves to the pair only if nothing was selected or no nomination value has been
accepted; of the pair's marks only `nomOnSuccess` may be set — a deferred value is never replaced -/
theorem cld_plain_g {wa : Bool} (a1 : Agent) (now : Nat) (m : Msg) (l r : Cand) (hu : m.useCand = true)
    (hn : m.nom = none) (hl : a1.cfg.lite = false) (hnd : (idsOf a1).Nodup)
    (hle : ∀ p ∈ a1.checklist, p.id ≤ a1.nextPairID)
    (hsel : ∀ sid, a1.selected = some sid → (a1.pairById sid).isSome = true) :
    (ensurePair a1 l r).2 ∈ (ensurePair a1 l r).1.checklist ∧
    (ensurePair a1 l r).2.id ≤ (ensurePair a1 l r).1.nextPairID ∧
    G wa (some (ensurePair a1 l r).2.id) (some (ensurePair a1 l r).2.id) none (ensurePair a1 l r).1
      (a1.cldHandleRequest now m l r).1 ∧
    ((a1.cldHandleRequest now m l r).1.selected = a1.selected ∨
      ((a1.cldHandleRequest now m l r).1.selected = some (ensurePair a1 l r).2.id ∧
        (a1.selected = none ∨ a1.lastNomination = none))) ∧
    (∀ q, (ensurePair a1 l r).1.pairById (ensurePair a1 l r).2.id = some q →
      ∀ p' ∈ (a1.cldHandleRequest now m l r).1.checklist, p'.id = (ensurePair a1 l r).2.id →
        nk p' = nk q ∨ nk p' = ((nk q).1, true, (nk q).2.2)) := by
  obtain ⟨hnd1, hle1, hmem1⟩ := ensurePair_ids a1 l r hnd hle
  refine ⟨hmem1, hle1, ?_⟩
  have hnf : a1.cldHandleRequest now m l r
      = cldProceed { counted a1 m l r with lastNomination := a1.lastNomination } now m l r (ensurePair a1 l r).2.id := by
    rw [cldHandleRequest_nf]
    simp only []
    have h1 := counted_lastNomination a1 m l r
    unfold counted at h1
    rw [h1, hn, accept_none]
    simp [counted]
  rw [hnf]
  generalize hid : (ensurePair a1 l r).2.id = id at hle1 ⊢
  have hc0 : G wa none none none (ensurePair a1 l r).1
      ({ counted a1 m l r with lastNomination := a1.lastNomination } : Agent) :=
    (counted_g a1 m l r).trans (G.of_eq rfl rfl rfl rfl (fun _ h => h) rfl)
  have hidsC : idsOf ({ counted a1 m l r with lastNomination := a1.lastNomination } : Agent) = idsOf (ensurePair a1 l r).1 :=
    idsOf_modPair _ _ (countReq m) (fun _ => rfl)
  have hcfg : ({ counted a1 m l r with lastNomination := a1.lastNomination } : Agent).cfg.lite = false := by
    have : (ensurePair a1 l r).1.cfg = a1.cfg := congrArg Core.cfg (core_ensurePair a1 l r)
    show (ensurePair a1 l r).1.cfg.lite = false
    rw [this]; exact hl
  have hselC : ({ counted a1 m l r with lastNomination := a1.lastNomination } : Agent).selected = a1.selected :=
    (counted_spec a1 m l r).1
  have hlastC : ({ counted a1 m l r with lastNomination := a1.lastNomination } : Agent).lastNomination
      = a1.lastNomination := rfl
  have hfwdC : ∀ p ∈ a1.checklist,
      ∃ p' ∈ ({ counted a1 m l r with lastNomination := a1.lastNomination } : Agent).checklist, p'.id = p.id :=
    ((ensurePair_g (wa := wa) a1 l r).trans hc0).fwd
  obtain ⟨q, hq⟩ := ensurePair_pairById a1 l r
  have hqc : ({ counted a1 m l r with lastNomination := a1.lastNomination } : Agent).pairById id = some (countReq m q) := by
    have := counted_pairById a1 m l r q hq
    rw [hid] at this
    exact this
  rw [hid] at hq
  generalize ({ counted a1 m l r with lastNomination := a1.lastNomination } : Agent) = c
    at hc0 hidsC hcfg hqc hselC hlastC hfwdC ⊢
  have hselOK : ∀ sid, c.selected = some sid → (c.pairById sid).isSome = true := by
    intro sid hs
    rw [hselC] at hs
    exact pairById_isSome_of_fwd hfwdC (hsel sid hs)
  have htail := cldProceed_tail_g (wa := wa) c now m l r id
  have hnkq : nk (countReq m q) = nk q := rfl
  -- marks of the pair in `c`
  have hmc : ∀ p' ∈ c.checklist, p'.id = id → nk p' = nk q := by
    intro p' hp' hpid
    have : p' = countReq m q := pair_unique (by rw [← hidsC] at hnd1; exact hnd1) hqc hp' hpid
    rw [this]
    exact hnkq
  have hleC : id ≤ c.nextPairID := Nat.le_trans hle1 hc0.npid
  -- the nomination block
  have key : G wa (some id) (some id) none c (cldNominate c m id).1 ∧
      ((cldNominate c m id).1.selected = c.selected ∨
        ((cldNominate c m id).1.selected = some id ∧ (c.selected = none ∨ c.lastNomination = none))) ∧
      (∃ X, (X = nk q ∨ X = ((nk q).1, true, (nk q).2.2)) ∧
        ∀ p' ∈ (cldNominate c m id).1.checklist, p'.id = id → nk p' = X) := by
    unfold cldNominate
    simp only [hu, Bool.true_or, if_true, hcfg, Bool.false_eq_true, if_false, hqc]
    by_cases hs : (countReq m q).state = .succeeded
    · have e : ((countReq m q).state == PairState.succeeded) = true := by simp [hs]
      simp only [e, if_true]
      by_cases hsw : inlineSwitch c id m (countReq m q) = true
      · rw [if_pos hsw]
        refine ⟨(select_g c id).weaken (Or.inr rfl) (Or.inl rfl) (Or.inl rfl) (fun w => w),
          Or.inr ⟨C03.select_selected c id, inlineSwitch_plain c id m _ hn hselOK hsw⟩, nk q, Or.inl rfl, ?_⟩
        exact nk_carry (select_g (wa := false) c id) hleC hmc
      · rw [if_neg hsw]
        exact ⟨G.refl _ _ _ _ _, Or.inl rfl, nk q, Or.inl rfl, hmc⟩
    · have e : ((countReq m q).state == PairState.succeeded) = false := by
        cases hh : (countReq m q).state <;> simp_all
      simp only [e, Bool.false_eq_true, if_false, hn, Option.isSome_none, Bool.false_or]
      by_cases hdn : (countReq m q).deferredNom.isNone = true
      · rw [if_pos hdn]
        refine ⟨(G.modPair_ex c id (fun p => { p with nomOnSuccess := true, deferredNom := none }) (fun _ => rfl)
          (fun _ => rfl) (fun _ => rfl)).weaken (Or.inl rfl) (Or.inr rfl)
          (Or.inl rfl) (fun w => w), Or.inl rfl, ((nk q).1, true, (nk q).2.2), Or.inr rfl, ?_⟩
        intro p' hp' hpid
        obtain ⟨x, hx, h | h⟩ := C03.mem_updPair (l := c.checklist) hp'
        · obtain ⟨ex, rfl⟩ := h
          have hxq := hmc x hx ex
          have hdq : q.deferredNom = none := by
            have : (countReq m q).deferredNom = q.deferredNom := rfl
            rw [this] at hdn
            simpa using hdn
          unfold nk at hxq ⊢
          simp only [Prod.mk.injEq] at hxq ⊢
          exact ⟨hxq.1, trivial, by rw [hdq]⟩
        · rw [h.2] at hpid; exact absurd hpid h.1
      · rw [if_neg hdn]
        exact ⟨G.refl _ _ _ _ _, Or.inl rfl, nk q, Or.inl rfl, hmc⟩
  obtain ⟨hg, hsd, X, hX, hmk⟩ := key
  refine ⟨G.after hc0 (G.then hg htail), ?_, ?_⟩
  · rw [htail.selected_eq]
    rcases hsd with h | ⟨h1, h2⟩
    · exact Or.inl (h.trans hselC)
    · exact Or.inr ⟨h1, by rw [hselC, hlastC] at h2; exact h2⟩
  · intro q' hq' p' hp' hpid
    have : q' = q := by rw [hq] at hq'; cases hq'; rfl
    subst this
    have := nk_carry htail (Nat.le_trans hleC hg.npid) hmk p' hp' hpid
    rcases hX with h | h
    · exact Or.inl (this.trans h)
    · exact Or.inr (this.trans h)

end IceProofs.C20S
