import IceProofs.Sys2C20FrameC
/-!
# C20 on `Sys2` — the frame relation across the handlers (`handleSuccess`, the two request handlers)
-/
namespace IceProofs.C20S
open IceModel.AgentCore IceProofs.Agent IceProofs.AgentC06

/-- the marks of the pairs with an id that is already handed out are carried along a step that does not except it -/
theorem nk_carry {wa : Bool} {exs : Option Nat} {iss : Option (Nat × Nat × Nat)} {b c : Agent} {id : Nat}
    {X : Bool × Bool × Option Nat} (h : G wa exs none iss b c) (hle : id ≤ b.nextPairID)
    (hb : ∀ p' ∈ b.checklist, p'.id = id → nk p' = X) : ∀ p'' ∈ c.checklist, p''.id = id → nk p'' = X := by
  intro p'' hp'' hid
  rcases h.pairs p'' hp'' (fun e => by cases e) with ⟨p', hp', hid', hnk⟩ | ⟨hlt, _⟩
  · rw [hnk]; exact hb p' hp' (hid'.trans hid)
  · rw [hid] at hlt; exact absurd hle (Nat.not_le_of_gt hlt)

/-! ## `handleSuccess` -/

/-- the transaction a success response on `(l, r)` from `src` completes, with the pair it validates -/
def ansPair (a : Agent) (now : Nat) (m : Msg) (l r : Cand) (src : Nat) : Option (Pending × Pair) :=
  match (a.takePending now m.tid).2 with
  | none => none
  | some pd =>
    if pd.net == l.net && pd.dest == src && pd.src == l.addr then (a.findPair l r).map fun p => (pd, p) else none

theorem handleSuccess_none {wa : Bool} (a : Agent) (now : Nat) (m : Msg) (l r : Cand) (src : Nat)
    (h : ansPair a now m l r src = none) : G wa none none none a (a.handleSuccess now m l r src).1 := by
  rw [C03.handleSuccess_eq]
  have h0 := takePending_g (wa := wa) a now m.tid
  have hfp := C03.takePending_findPair a now m.tid l r
  unfold ansPair at h
  cases hp : (a.takePending now m.tid).2 with
  | none => exact h0
  | some pd =>
    rw [hp] at h
    simp only [] at h ⊢
    by_cases hc : (pd.net == l.net && pd.dest == src && pd.src == l.addr) = true
    · rw [if_pos hc] at h
      simp only [hc, Bool.not_true, Bool.false_eq_true, if_false]
      rw [hfp]
      cases hf : a.findPair l r with
      | none => exact h0
      | some p => rw [hf] at h; cases h
    · simp only [hc, Bool.not_false, if_true]
      exact h0

theorem ansPair_some {a : Agent} {now : Nat} {m : Msg} {l r : Cand} {src : Nat} {pd : Pending} {p : Pair}
    (h : ansPair a now m l r src = some (pd, p)) :
    (a.takePending now m.tid).2 = some pd ∧ pd.net = l.net ∧ pd.dest = src ∧ pd.src = l.addr ∧
    a.findPair l r = some p := by
  unfold ansPair at h
  cases hp : (a.takePending now m.tid).2 with
  | none => rw [hp] at h; cases h
  | some pd' =>
    rw [hp] at h
    simp only [] at h
    by_cases hc : (pd'.net == l.net && pd'.dest == src && pd'.src == l.addr) = true
    · rw [if_pos hc] at h
      cases hf : a.findPair l r with
      | none => rw [hf] at h; cases h
      | some p' =>
        rw [hf] at h
        simp only [Option.map_some, Option.some.injEq, Prod.mk.injEq] at h
        obtain ⟨rfl, rfl⟩ := h
        simp only [Bool.and_eq_true, beq_iff_eq] at hc
        exact ⟨rfl, hc.1.1, hc.1.2, hc.2, rfl⟩
    · rw [if_neg hc] at h; cases h

/-- the state right after the pair has been marked valid -/
def hsB (a : Agent) (now : Nat) (m : Msg) (pd : Pending) (p : Pair) : Agent :=
  (a.takePending now m.tid).1.modPair p.id (C03.hsMark pd)

theorem handleSuccess_some (a : Agent) (now : Nat) (m : Msg) (l r : Cand) (src : Nat) (pd : Pending) (p : Pair)
    (h : ansPair a now m l r src = some (pd, p)) :
    (a.handleSuccess now m l r src).1 =
      (C03.hsSel (hsB a now m pd p) p pd).1.modPair p.id fun p => { p with respRecv := p.respRecv + 1 } := by
  obtain ⟨h1, h2, h3, h4, h5⟩ := ansPair_some h
  rw [C03.handleSuccess_eq, h1]
  simp only [h2, h3, h4, beq_self_eq_true, Bool.and_self, Bool.not_true, Bool.false_eq_true, if_false]
  rw [C03.takePending_findPair, h5]
  rfl

theorem hsB_g {wa : Bool} (a : Agent) (now : Nat) (m : Msg) (pd : Pending) (p : Pair) :
    G wa none (some p.id) none a (hsB a now m pd p) :=
  G.after (takePending_g a now m.tid)
    (G.modPair_ex _ p.id (C03.hsMark pd) (fun _ => rfl) (fun _ => rfl) (fun _ => rfl))

theorem hsB_selected (a : Agent) (now : Nat) (m : Msg) (pd : Pending) (p : Pair) :
    (hsB a now m pd p).selected = a.selected :=
  (hsB_g (wa := false) a now m pd p).selected_eq

theorem hsB_core (a : Agent) (now : Nat) (m : Msg) (pd : Pending) (p : Pair) :
    (hsB a now m pd p).core = a.core := by
  unfold hsB; simp

/-- the pairs with the id of `p` right after the mark: valid, other marks as before -/
theorem hsB_marks (a : Agent) (now : Nat) (m : Msg) (pd : Pending) (p : Pair) (hn : (idsOf a).Nodup)
    (hp : p ∈ a.checklist) :
    ∀ p' ∈ (hsB a now m pd p).checklist, p'.id = p.id → nk p' = (true, p.nomOnSuccess, p.deferredNom) := by
  intro p' hp' hid
  unfold hsB Agent.modPair at hp'
  simp only [] at hp'
  rw [(C03.takePending_frame a now m.tid).1] at hp'
  obtain ⟨q, hq, h | h⟩ := C03.mem_updPair (l := a.checklist) hp'
  · obtain ⟨e, rfl⟩ := h
    have : q = p := by
      have h1 := pairById_of_mem_nodup hn hp
      exact pair_unique hn h1 hq e
    subst this
    rfl
  · rw [h.2] at hid; exact absurd hid h.1

theorem hsSel_g {wa : Bool} (a : Agent) (p : Pair) (pd : Pending) :
    G wa (some p.id) none none a (C03.hsSel a p pd).1 := by
  rcases C03.hsSel_cases a p pd with h | ⟨h, _⟩
  · rw [h]; exact G.refl _ _ _ _ _
  · rw [h]; exact select_g a p.id

/-- from the mark to the end of `handleSuccess`: only the selection may move -/
theorem handleSuccess_tail_g {wa : Bool} (a : Agent) (now : Nat) (m : Msg) (l r : Cand) (src : Nat) (pd : Pending)
    (p : Pair) (h : ansPair a now m l r src = some (pd, p)) :
    G wa (some p.id) none none (hsB a now m pd p) (a.handleSuccess now m l r src).1 ∧
    (a.handleSuccess now m l r src).1.selected = (C03.hsSel (hsB a now m pd p) p pd).1.selected := by
  rw [handleSuccess_some a now m l r src pd p h]
  exact ⟨G.then (hsSel_g _ p pd)
    (G.modPair_keep _ p.id (fun p => { p with respRecv := p.respRecv + 1 }) (fun _ => rfl) (fun _ => rfl)
      (fun _ => rfl) (fun _ => rfl)), rfl⟩

/-- the controlling selector: a USE-CANDIDATE check selects iff it carried a value or nothing is selected -/
theorem hsSel_ctl (a : Agent) (p : Pair) (pd : Pending) (hc : a.controlling = true) :
    (C03.hsSel a p pd).1.selected =
      if pd.useCand && (pd.nom.isSome || a.selected.isNone) then some p.id else a.selected := by
  unfold C03.hsSel
  simp only [hc, if_true]
  cases pd.useCand <;> cases pd.nom.isSome <;> cases a.selected.isNone <;>
    simp [C03.select_selected]

/-- the controlled selector on a pair without a remembered nomination: nothing -/
theorem hsSel_cld_plain (a : Agent) (p : Pair) (pd : Pending) (hc : a.controlling = false)
    (hn : p.nomOnSuccess = false) : C03.hsSel a p pd = (a, []) := by
  unfold C03.hsSel
  simp [hc, hn]

/-! ## `ctlHandleRequest` never moves the selection, the nomination it triggers carries no value -/

theorem reqMark_g {wa : Bool} (a : Agent) (id : Nat) (m : Msg) : G wa none none none a (a.modPair id (C03.reqMark m)) :=
  G.modPair_keep a id (C03.reqMark m) (fun _ => rfl) (fun _ => rfl) (fun _ => rfl) (fun _ => rfl)

theorem ctlNominate_g {wa : Bool} (a : Agent) (now : Nat) (l r : Cand) (p : Pair) (o : List Out) :
    G wa none none none a (C03.ctlNominate a now l r p o).1 := by
  rcases C03.ctlNominate_cases a now l r p o with h | h
  · rw [h]; exact G.refl _ _ _ _ _
  · rw [h]
    exact (G.of_eq (a := a) (a' := { a with nominatedPair := some p.id }) rfl rfl rfl rfl (fun _ h => h) rfl).trans
      (nominate_g _ now p)

theorem ctlHandleRequest_g {wa : Bool} (a : Agent) (now : Nat) (m : Msg) (l r : Cand) :
    G wa none none none a (a.ctlHandleRequest now m l r).1 := by
  rw [C03.ctlHandleRequest_eq]
  have h1 := sendSuccess_g (wa := wa) a now m l r
  generalize a.sendSuccess now m l r = ss at h1 ⊢
  obtain ⟨a1, o1⟩ := ss
  split
  · exact (h1.trans (addPair_g a1 l r)).trans (reqMark_g _ _ m)
  · rename_i p _
    exact (h1.trans (reqMark_g a1 p.id m)).trans (ctlNominate_g _ now l r p o1)

/-! ## `cldHandleRequest` -/

theorem ensurePair_g {wa : Bool} (a : Agent) (l r : Cand) : G wa none none none a (ensurePair a l r).1 := by
  unfold ensurePair
  split
  · exact G.refl _ _ _ _ _
  · exact addPair_g a l r

theorem countReq_g {wa : Bool} (a : Agent) (id : Nat) (m : Msg) : G wa none none none a (a.modPair id (countReq m)) :=
  G.modPair_keep a id (countReq m) (fun _ => rfl) (fun _ => rfl) (fun _ => rfl) (fun _ => rfl)

theorem counted_g {wa : Bool} (a : Agent) (m : Msg) (l r : Cand) :
    G wa none none none (ensurePair a l r).1 (counted a m l r) := countReq_g _ _ m

theorem cldPing_g {wa : Bool} (a : Agent) (now : Nat) (l r : Cand) (id : Nat) :
    G wa none none none a (C03.cldPing a now l r id).1 := by
  unfold C03.cldPing
  split
  · split
    · exact ping_g _ _ _ _
    · exact G.refl _ _ _ _ _
  · exact G.refl _ _ _ _ _

theorem cldProceed_fst (a : Agent) (now : Nat) (m : Msg) (l r : Cand) (id : Nat) :
    (cldProceed a now m l r id).1 =
      (C03.cldPing ((cldNominate a m id).1.sendSuccess now m l r).1 now l r id).1 := by
  unfold cldProceed C03.cldPing
  rcases cldNominate a m id with ⟨a1, o1⟩
  dsimp only []
  rcases a1.sendSuccess now m l r with ⟨a2, o2⟩
  dsimp only []
  cases a2.pairById id with
  | none => rfl
  | some p => rfl

/-- after the nomination block: response and triggered check are quiet -/
theorem cldProceed_tail_g {wa : Bool} (a : Agent) (now : Nat) (m : Msg) (l r : Cand) (id : Nat) :
    G wa none none none (cldNominate a m id).1 (cldProceed a now m l r id).1 := by
  rw [cldProceed_fst]
  exact (sendSuccess_g _ now m l r).trans (cldPing_g _ now l r id)

theorem cldNominate_not (a : Agent) (m : Msg) (id : Nat) (h : (m.useCand || m.nom.isSome) = false) :
    cldNominate a m id = (a, []) := by
  unfold cldNominate
  simp [h]

/-- a request that is not a nomination, or whose nomination value is rejected, is quiet -/
theorem cld_quiet_g {wa : Bool} (a : Agent) (now : Nat) (m : Msg) (l r : Cand)
    (hq : (m.useCand || m.nom.isSome) = false ∨ (shouldAcceptNomination m.nom a.lastNomination).2 = false) :
    G wa none none none a (a.cldHandleRequest now m l r).1 := by
  rw [cldHandleRequest_nf]
  simp only []
  have h1 : G wa none none none a ((ensurePair a l r).1.modPair (ensurePair a l r).2.id (countReq m)) :=
    (ensurePair_g a l r).trans (countReq_g _ _ m)
  have hln := counted_lastNomination a m l r
  unfold counted at hln
  rw [hln]
  split
  · exact h1.trans (sendSuccess_g _ now m l r)
  · rename_i hc
    have hnn : (m.useCand || m.nom.isSome) = false := by
      rcases hq with hq | hq
      · exact hq
      · rw [hq] at hc
        simpa using hc
    have h2 := cldProceed_tail_g (wa := wa)
      { ((ensurePair a l r).1.modPair (ensurePair a l r).2.id (countReq m)) with
        lastNomination := (shouldAcceptNomination m.nom a.lastNomination).1 } now m l r (ensurePair a l r).2.id
    rw [cldNominate_not _ _ _ hnn] at h2
    have h1' : G wa none none none a
        ({ ((ensurePair a l r).1.modPair (ensurePair a l r).2.id (countReq m)) with
          lastNomination := (shouldAcceptNomination m.nom a.lastNomination).1 } : Agent) :=
      h1.trans (G.of_eq rfl rfl rfl rfl (fun _ h => h) rfl)
    exact h1'.trans h2

theorem ensurePair_ids (a : Agent) (l r : Cand) (hnd : (idsOf a).Nodup)
    (hle : ∀ p ∈ a.checklist, p.id ≤ a.nextPairID) :
    (idsOf (ensurePair a l r).1).Nodup ∧ (ensurePair a l r).2.id ≤ (ensurePair a l r).1.nextPairID ∧
    (ensurePair a l r).2 ∈ (ensurePair a l r).1.checklist := by
  unfold ensurePair
  split
  · rename_i p hp
    exact ⟨hnd, hle p (C03.findPair_mem hp), C03.findPair_mem hp⟩
  · refine ⟨?_, Nat.le_refl _, C03.addPair_snd_mem a l r⟩
    rw [idsOf_addPair, List.nodup_append]
    refine ⟨hnd, by simp, ?_⟩
    intro x hx y hy
    obtain ⟨p, hp, rfl⟩ := List.mem_map.1 hx
    have := hle p hp
    simp at hy; omega

/-- the valid-pair branch of the nomination block on a full agent -/
theorem cldNominate_valid (a : Agent) (m : Msg) (id v : Nat) (q : Pair) (hn : m.nom = some v)
    (hq : a.pairById id = some q) (hs : q.state = .succeeded) (hl : a.cfg.lite = false) :
    cldNominate a m id = a.select id ∨ cldNominate a m id = (a, []) := by
  unfold cldNominate
  simp only [hn, Option.isSome_some, Bool.or_true, if_true, hl, Bool.false_eq_true, if_false, hq, hs,
    beq_self_eq_true]
  split
  · exact Or.inl rfl
  · exact Or.inr rfl

/-- **an accepted nomination value** on a full controlled agent: from the state in which the pair of the request
exists, either the pair is selected at once and no mark changes, or the selection stays and the pair is marked -/
theorem cld_accept_g {wa : Bool} (a1 : Agent) (now : Nat) (m : Msg) (l r : Cand) (v : Nat) (hn : m.nom = some v)
    (hacc : (shouldAcceptNomination (some v) a1.lastNomination).2 = true) (hl : a1.cfg.lite = false)
    (hnd : (idsOf a1).Nodup) (hle : ∀ p ∈ a1.checklist, p.id ≤ a1.nextPairID) :
    (ensurePair a1 l r).2 ∈ (ensurePair a1 l r).1.checklist ∧
    (ensurePair a1 l r).2.id ≤ (ensurePair a1 l r).1.nextPairID ∧
    ((G wa (some (ensurePair a1 l r).2.id) none none (ensurePair a1 l r).1 (a1.cldHandleRequest now m l r).1 ∧
        (a1.cldHandleRequest now m l r).1.selected = some (ensurePair a1 l r).2.id) ∨
     (G wa none (some (ensurePair a1 l r).2.id) none (ensurePair a1 l r).1 (a1.cldHandleRequest now m l r).1 ∧
        ∀ p' ∈ (a1.cldHandleRequest now m l r).1.checklist, p'.id = (ensurePair a1 l r).2.id →
          nk p' = (false, true, some v))) := by
  obtain ⟨hnd1, hle1, hmem1⟩ := ensurePair_ids a1 l r hnd hle
  refine ⟨hmem1, hle1, ?_⟩
  rw [cld_accepted a1 now m l r v hn ((accept_some_iff v a1.lastNomination).1 hacc)]
  generalize hid : (ensurePair a1 l r).2.id = id at hle1 ⊢
  -- the deciding state
  have hc0 : G wa none none none (ensurePair a1 l r).1
      ({ counted a1 m l r with lastNomination := some v } : Agent) :=
    (counted_g a1 m l r).trans (G.of_eq rfl rfl rfl rfl (fun _ h => h) rfl)
  have hidsC : idsOf ({ counted a1 m l r with lastNomination := some v } : Agent) = idsOf (ensurePair a1 l r).1 :=
    idsOf_modPair _ _ (countReq m) (fun _ => rfl)
  have hcfg : ({ counted a1 m l r with lastNomination := some v } : Agent).cfg.lite = false := by
    have : (ensurePair a1 l r).1.cfg = a1.cfg := congrArg Core.cfg (core_ensurePair a1 l r)
    show (ensurePair a1 l r).1.cfg.lite = false
    rw [this]; exact hl
  obtain ⟨q, hq⟩ := ensurePair_pairById a1 l r
  have hqc : ({ counted a1 m l r with lastNomination := some v } : Agent).pairById id = some (countReq m q) := by
    have := counted_pairById a1 m l r q hq
    rw [hid] at this
    exact this
  generalize ({ counted a1 m l r with lastNomination := some v } : Agent) = c at hc0 hidsC hcfg hqc ⊢
  have htail := cldProceed_tail_g (wa := wa) c now m l r id
  by_cases hs : q.state = .succeeded
  · left
    have hsel : (cldNominate c m id).1.selected = some id :=
      cldNominate_immediate c m id v (countReq m q) hn hqc (Or.inl hs)
    have hg : G wa (some id) none none c (cldNominate c m id).1 := by
      rcases cldNominate_valid c m id v (countReq m q) hn hqc hs hcfg with h | h
      · rw [h]; exact select_g c id
      · rw [h]; exact G.refl _ _ _ _ _
    exact ⟨G.after hc0 (G.then hg htail), htail.selected_eq.trans hsel⟩
  · right
    have hdef := cldNominate_deferred c m id v (countReq m q) hn hqc hs hcfg
    rw [hdef] at htail
    have hg : G wa none (some id) none c (c.modPair id fun p => { p with nomOnSuccess := true, deferredNom := some v }) :=
      G.modPair_ex c id _ (fun _ => rfl) (fun _ => rfl) (fun _ => rfl)
    refine ⟨G.after hc0 (G.then hg htail), ?_⟩
    have hmarks : ∀ p' ∈ (c.modPair id fun p => { p with nomOnSuccess := true, deferredNom := some v }).checklist,
        p'.id = id → nk p' = (false, true, some v) := by
      intro p' hp' hpid
      obtain ⟨x, hx, h | h⟩ := C03.mem_updPair (l := c.checklist) hp'
      · obtain ⟨e, rfl⟩ := h
        have hxq : x = countReq m q := pair_unique (by rw [← hidsC] at hnd1; exact hnd1) hqc hx e
        subst hxq
        unfold nk
        have : ((countReq m q).state == PairState.succeeded) = false := by
          have : (countReq m q).state = q.state := rfl
          rw [this]
          cases hh : q.state <;> simp_all
        simp only [this]
      · rw [h.2] at hpid; exact absurd hpid h.1
    refine nk_carry htail ?_ hmarks
    exact Nat.le_trans hle1 hc0.npid

end IceProofs.C20S
