import IceProofs.Sys2C01LiveFairTrack
/-!
# C01 liveness, layer 18c — `track` with early exit

As `track`, but a delivery may also END the tracking early by establishing `Q` itself (`keepD : P s → P s' ∨ Q s'`).
-/
namespace IceProofs.C01Live
open IceModel.AgentCore IceModel.Sys2 IceProofs.Sys2Run IceProofs.C01 IceProofs.Agent

section
variable {nat blocked : List (Nat × Nat)} {SLA SLB SR : Nat → Prop} {liteA liteB : Bool} {T0 H J : Nat} {c : Bool}

/-- **leads-to with early exit.** -/
theorem track_exit {P Q : Sys → Prop} {D : Sys → Dgram → Prop} {dl : Nat}
    (keepD : ∀ (s s' : Sys) (hd : Dgram) (t : List Dgram), FInv nat blocked SLA SLB SR liteA liteB T0 H J c s →
      Effect T0 s s' hd t → hd ∈ s.inflight → P s → P s' ∨ Q s')
    (keepA : ∀ (s s' : Sys) (T : Nat), FInv nat blocked SLA SLB SR liteA liteB T0 H J c s → AdvEffect T0 T s s' → T ≤ dl → P s → P s')
    (dD : ∀ (s s' : Sys) (hd : Dgram) (t : List Dgram) (d : Dgram), Effect T0 s s' hd t → D s d → D s' d)
    (dA : ∀ (s s' : Sys) (T : Nat) (d : Dgram), AdvEffect T0 T s s' → D s d → D s' d)
    (hit : ∀ (s s' : Sys) (d : Dgram) (t : List Dgram), FInv nat blocked SLA SLB SR liteA liteB T0 H J c s →
      Effect T0 s s' d t → d ∈ s.inflight → P s → D s d → Q s')
    (es : List SysEv) (s : Sys) (i : Nat) (d : Dgram) (h : FInv nat blocked SLA SLB SR liteA liteB T0 H J c s)
    (hs : SufOK c H J s es) (hp : P s) (hi : s.inflight[i]? = some d) (hd : D s d) (hdel : DeliveredBy dl s es i) :
    ∃ e1 e2, es = e1 ++ e2 ∧ Q (Sys.runs s e1) ∧ (Sys.runs s e1).now ≤ dl := by
  induction es generalizing s i with
  | nil => exact hdel.elim
  | cons e es ih =>
    obtain ⟨he, hs'⟩ := hs
    obtain ⟨hnow, hdel'⟩ := hdel
    have hil : i < s.inflight.length := by
      rcases Nat.lt_or_ge i s.inflight.length with h' | h'
      · exact h'
      · rw [List.getElem?_eq_none h'] at hi; cases hi
    -- prepend the event to the split of the rest
    have cons_of : (∃ e1 e2, es = e1 ++ e2 ∧ Q (Sys.runs (Sys.run s e) e1) ∧ (Sys.runs (Sys.run s e) e1).now ≤ dl) →
        ∃ e1 e2, e :: es = e1 ++ e2 ∧ Q (Sys.runs s e1) ∧ (Sys.runs s e1).now ≤ dl := by
      rintro ⟨e1, e2, h1, h2, h3⟩
      exact ⟨e :: e1, e2, by rw [h1]; rfl, h2, h3⟩
    -- a delivery or a duplication
    have key : ∀ (k : Nat) (keep : Bool), Sys.run s e = (s.deliver k keep).1 → hits e i = (k == i) →
        shift e i = (if keep = true then i else if k < i then i - 1 else i) →
        ∃ e1 e2, e :: es = e1 ++ e2 ∧ Q (Sys.runs s e1) ∧ (Sys.runs s e1).now ≤ dl := by
      intro k keep hrun hhit hshift
      cases hk : s.inflight[k]? with
      | none =>
        have hkl : s.inflight.length ≤ k := by
          rcases Nat.lt_or_ge k s.inflight.length with h' | h'
          · rw [List.getElem?_eq_getElem h'] at hk; cases hk
          · exact h'
        have hrun' : Sys.run s e = s := by rw [hrun, deliver_eq, hk]
        have hne : (k == i) = false := by
          apply beq_false_of_ne; omega
        have hsh : shift e i = i := by
          rw [hshift]; cases keep
          · simp only [Bool.false_eq_true, if_false]; rw [if_neg (by omega)]
          · simp
        rw [hhit, hne, hsh, hrun'] at hdel'
        rw [hrun'] at hs'
        apply cons_of
        rw [hrun']
        rcases hdel' with hf | hdel'
        · cases hf
        · exact ih s i h hs' hp hi hd hdel'
      | some hd' =>
        obtain ⟨h', eff, _⟩ := FInv.deliver h keep hk
        have hmem : hd' ∈ s.inflight := List.mem_of_getElem? hk
        by_cases hki : k = i
        · subst hki
          rw [hk] at hi; cases hi
          refine ⟨[e], es, rfl, ?_, ?_⟩
          · show Q (Sys.run s e)
            rw [hrun]; exact hit s _ _ _ h eff hmem hp hd
          · show (Sys.run s e).now ≤ dl
            rw [hrun, eff.now]; exact hnow
        · have hne : (k == i) = false := beq_false_of_ne hki
          rw [hhit, hne] at hdel'
          rcases keepD s _ _ _ h eff hmem hp with hp' | hq
          · rcases hdel' with hf | hdel'
            · cases hf
            · apply cons_of
              rw [hrun] at hs' hdel' ⊢
              rw [hshift] at hdel'
              have hidx := eff.getElem_tail (getElem?_restOf_ne keep hki hi)
              exact ih _ _ h' hs' hp' hidx (dD s _ _ _ d eff hd) hdel'
          · refine ⟨[e], es, rfl, ?_, ?_⟩
            · show Q (Sys.run s e)
              rw [hrun]; exact hq
            · show (Sys.run s e).now ≤ dl
              rw [hrun, eff.now]; exact hnow
    cases e with
    | api _ _ => exact he.elim
    | drop _ => exact he.elim
    | deliver k => exact key k false rfl rfl (by simp [shift])
    | dup k => exact key k true rfl rfl (by simp [shift])
    | advance T =>
      obtain ⟨h1, h2, t, ht, hT⟩ := he
      obtain ⟨h', eff, _, _⟩ := FInv.advance h h1 h2 ht hT
      rcases hdel' with hf | hdel'
      · cases hf
      · apply cons_of
        have hTdl : T ≤ dl := by
          have := hdel'.now_le
          rw [show (Sys.run s (.advance T)).now = T from eff.now] at this
          exact this
        have hidx : (s.advance T).1.inflight[i]? = some d := by
          rw [eff.flight, List.append_assoc, List.getElem?_append_left hil]; exact hi
        exact ih (Sys.run s (.advance T)) i h' hs' (keepA s _ T h eff hTdl hp) hidx (dA s _ T d eff hd) hdel'

end

end IceProofs.C01Live
