import IceProofs.Sys2C20Inv
/-!
# C20 on `Sys2` — one agent event preserves the invariant of the exchange
-/
namespace IceProofs.C20S
open IceModel.AgentCore IceModel.Sys2 IceProofs.Sys2Run IceProofs.Agent IceProofs.Sys2C05

/-! ## frame -/

/-- the clock and the removal of datagrams in flight do not matter -/
theorem qinv_frame {nat : List (Nat × Nat)} {h : Hist} {s s' : Sys} (q : QInv nat h s) (ha : s'.a = s.a) (hb : s'.b = s.b)
    (hn : s'.nat = s.nat) (hf : ∀ d ∈ s'.inflight, d ∈ s.inflight) : QInv nat h s' := by
  refine ⟨hn.trans q.topo, ha ▸ q.invA, hb ▸ q.invB, ?_, fun d hd => q.fl d (hf d hd), ?_, ?_, ?_, ?_, ?_, ?_⟩
  · unfold Session; rw [ha, hb]; exact q.sess
  · rw [ha]; exact q.pendA
  · rw [ha]; exact q.ansA
  · rw [ha]; exact q.selA
  · rw [hb]; exact q.lastB
  · rw [hb]; exact q.accB
  · rw [hb]; exact q.defB

/-! ## the history after one agent event -/

theorem hstepA_issued (h : Hist) (a : Agent) (ev : Ev) :
    (hstep h false a ev).issued = h.issued ++ issuesOf a ev := by
  simp only [hstep, Bool.false_eq_true, if_false]
theorem hstepA_answered (h : Hist) (a : Agent) (ev : Ev) :
    (hstep h false a ev).answered = h.answered ++ (answeredNom a ev).toList := by
  simp only [hstep, Bool.false_eq_true, if_false]
theorem hstepA_accepted (h : Hist) (a : Agent) (ev : Ev) : (hstep h false a ev).accepted = h.accepted := by
  simp only [hstep, Bool.false_eq_true, if_false]
theorem hstepB_issued (h : Hist) (a : Agent) (ev : Ev) : (hstep h true a ev).issued = h.issued := by
  simp only [hstep, if_true]
theorem hstepB_answered (h : Hist) (a : Agent) (ev : Ev) : (hstep h true a ev).answered = h.answered := by
  simp only [hstep, if_true]
theorem hstepB_accepted (h : Hist) (a : Agent) (ev : Ev) :
    (hstep h true a ev).accepted = (acceptAt a ev).orElse fun _ => h.accepted := by
  simp only [hstep, if_true]

theorem agentEv_nat (s : Sys) (X : Bool) (e : Ev) : (s.agentEv X e).1.nat = s.nat := (agentEv_topo s X e).1

theorem agentEv_a_false (s : Sys) (e : Ev) : (s.agentEv false e).1.a = (step s.a e).1 := by
  have := agentEv_agent s false e false
  simpa [Sys.agent] using this
theorem agentEv_b_false (s : Sys) (e : Ev) : (s.agentEv false e).1.b = s.b := by
  have := agentEv_agent s false e true
  simpa [Sys.agent] using this
theorem agentEv_a_true (s : Sys) (e : Ev) : (s.agentEv true e).1.a = s.a := by
  have := agentEv_agent s true e false
  simpa [Sys.agent] using this
theorem agentEv_b_true (s : Sys) (e : Ev) : (s.agentEv true e).1.b = (step s.b e).1 := by
  have := agentEv_agent s true e true
  simpa [Sys.agent] using this
theorem agentEv_inflight_false (s : Sys) (e : Ev) :
    (s.agentEv false e).1.inflight = s.inflight ++ dgramsOf (step s.a e).2 := by
  have := agentEv_inflight s false e
  simpa [Sys.agent] using this
theorem agentEv_inflight_true (s : Sys) (e : Ev) :
    (s.agentEv true e).1.inflight = s.inflight ++ dgramsOf (step s.b e).2 := by
  have := agentEv_inflight s true e
  simpa [Sys.agent] using this

/-! ## A executes an event -/

/-- what is assumed of A's state after the event (it is part of `Session` of the next state) -/
def PostA (a' : Agent) : Prop :=
  a'.started = true ∧ a'.closed = false ∧ a'.controlling = true ∧ a'.connState ≠ .failed

theorem qinv_stepA {nat : List (Nat × Nat)} {h : Hist} {s : Sys} (q : QInv nat h s) (ev : Ev) (hk : keeps ev = true)
    (hpost : PostA (step s.a ev).1) :
    QInv nat (hstep h false s.a ev) (s.agentEv false ev).1 := by
  obtain ⟨hs1, hs2, hs3, hs4, hs5, hs6, hs7, hs8, hs9⟩ := q.sess
  obtain ⟨hp1, hp2, hp3, hp4⟩ := hpost
  have hsub : ∀ x ∈ h.issued, x ∈ (hstep h false s.a ev).issued := by
    intro x hx; rw [hstepA_issued]; exact List.mem_append_left _ hx
  have hiss : ∀ x, x ∈ issuesOf s.a ev → x ∈ (hstep h false s.a ev).issued := by
    intro x hx; rw [hstepA_issued]; exact List.mem_append_right _ hx
  obtain ⟨hq, hsel, hans⟩ := step_frame_ctl s.a ev q.invA hs1 hk hs5 hp3 hp4
  have hansw := step_answered s.a ev hs1 hk hs5 hp3
  -- when the selection and the answered value stay, so does what the invariant says about them
  have keepA : (step s.a ev).1.selected = s.a.selected →
      (step s.a ev).1.answeredNomination = s.a.answeredNomination →
      ∀ w, (step s.a ev).1.answeredNomination = some w →
        ∃ x ∈ h.answered, x.1 = w ∧ selAddrs (step s.a ev).1 = some (x.2.1, x.2.2) := by
    intro e1 e2 w hw
    rw [e2] at hw
    obtain ⟨x, hx, hxw, hxs⟩ := q.selA w hw
    exact ⟨x, hx, hxw, selAddrs_keep hq e1 _ hxs⟩
  refine ⟨(agentEv_nat s false ev).trans q.topo, ?_, q.invB, ?_, ?_, ?_, ?_, ?_, q.lastB, ?_, q.defB⟩
  · rw [agentEv_a_false]; exact q.invA.step ev
  · unfold Session
    rw [agentEv_a_false, agentEv_b_false]
    exact ⟨hp1, hs2, hp2, hs4, hp3, hs6, hp4, hs8, hs9⟩
  · -- datagrams in flight
    intro d hd
    rw [agentEv_inflight_false] at hd
    rcases List.mem_append.mp hd with hd | hd
    · exact (q.fl d hd).mono hsub
    · intro m hm v hv
      obtain ⟨h1, _, _, h4⟩ := step_out_nom s.a ev d.src d.dst m v (mem_dgramsOf_stun hd hm) hv
      exact ⟨h1, hiss _ h4⟩
  · -- outstanding transactions of A
    intro pd hpd v hv
    rw [agentEv_a_false] at hpd
    rcases hq.pend pd hpd with h1 | h1 | ⟨v', h1, h2 | h2⟩
    · exact hsub _ (q.pendA pd h1 v hv)
    · rw [h1] at hv; cases hv
    · rw [h1] at hv
      cases hv
      exact hiss _ (issueOf_mem_issuesOf h2)
    · rw [h1] at hv
      cases hv
      exact hiss _ h2
  · -- answered nominations
    intro x hx
    rw [hstepA_answered] at hx
    rw [agentEv_a_false]
    rcases List.mem_append.mp hx with hx | hx
    · obtain ⟨h1, w, hw, hle⟩ := q.ansA x hx
      refine ⟨hsub _ h1, ?_⟩
      rw [hansw]
      cases hao : answerOf s.a ev with
      | none => exact ⟨w, hw, hle⟩
      | some y =>
        obtain ⟨pd, id⟩ := y
        simp only []
        split
        · cases hn : pd.nom with
          | none => exact ⟨w, hw, hle⟩
          | some v =>
            simp only []
            split
            · exact ⟨w, hw, hle⟩
            · rename_i hns
              refine ⟨v, rfl, ?_⟩
              unfold supersededBy at hns
              rw [hw] at hns
              simp only [decide_eq_true_eq] at hns
              omega
        · exact ⟨w, hw, hle⟩
    · -- the nomination answered by this very event
      unfold answeredNom at hx
      cases hao : answerOf s.a ev with
      | none => rw [hao] at hx; cases hx
      | some y =>
        obtain ⟨pd, id⟩ := y
        rw [hao] at hx
        simp only [] at hx
        by_cases hu : pd.useCand = true
        · rw [if_pos hu] at hx
          cases hn : pd.nom with
          | none => rw [hn] at hx; cases hx
          | some v =>
            rw [hn] at hx
            simp only [Option.map_some, Option.toList_some, List.mem_singleton] at hx
            rw [hx]
            refine ⟨hsub _ (q.pendA pd (hans pd id hao).1 v hn), ?_⟩
            rw [hansw, hao]
            simp only [hu, if_true, hn]
            split
            · rename_i hsup
              unfold supersededBy at hsup
              cases haw : s.a.answeredNomination with
              | none => rw [haw] at hsup; cases hsup
              | some w =>
                rw [haw] at hsup
                simp only [decide_eq_true_eq] at hsup
                exact ⟨w, rfl, hsup⟩
            · exact ⟨v, rfl, Nat.le_refl _⟩
        · rw [if_neg hu] at hx; cases hx
  · -- the selected pair is the pair of the answered nomination with the greatest value
    intro w hw
    rw [agentEv_a_false] at hw ⊢
    rw [hstepA_answered]
    have lift : (∃ x ∈ h.answered, x.1 = w ∧ selAddrs (step s.a ev).1 = some (x.2.1, x.2.2)) →
        ∃ x ∈ h.answered ++ (answeredNom s.a ev).toList, x.1 = w ∧ selAddrs (step s.a ev).1 = some (x.2.1, x.2.2) :=
      fun ⟨x, hx, h1, h2⟩ => ⟨x, List.mem_append_left _ hx, h1, h2⟩
    cases hao : answerOf s.a ev with
    | none =>
      rw [hao] at hsel hansw
      exact lift (keepA hsel hansw w hw)
    | some y =>
      obtain ⟨pd, id⟩ := y
      rw [hao] at hsel hansw
      simp only [] at hsel hansw
      by_cases hu : pd.useCand = true
      · rw [if_pos hu] at hsel hansw
        cases hn : pd.nom with
        | none =>
          rw [hn] at hsel hansw
          simp only [] at hsel hansw
          -- an ordinary nomination selects only when nothing is selected; then no value has been answered
          have hw0 : s.a.answeredNomination = some w := hansw ▸ hw
          obtain ⟨x, hx, hxw, hxs⟩ := q.selA w hw0
          rw [selAddrs_some_selected hxs] at hsel
          simp only [Bool.false_eq_true, if_false] at hsel
          exact lift (keepA hsel hansw w hw)
        | some v =>
          rw [hn] at hsel hansw
          simp only [] at hsel hansw
          by_cases hsup : supersededBy s.a.answeredNomination v = true
          · rw [if_pos hsup] at hsel hansw
            exact lift (keepA hsel hansw w hw)
          · rw [if_neg hsup] at hsel hansw
            rw [hansw] at hw
            have hvw : v = w := Option.some.inj hw
            subst hvw
            refine ⟨(v, pd.src, pd.dest), List.mem_append_right _ ?_, rfl, ?_⟩
            · unfold answeredNom
              rw [hao]
              simp [hu, hn]
            · rw [selAddrs_of_selected hsel]
              exact hq.addrs _ _ (hans pd id hao).2
      · rw [if_neg hu] at hsel hansw
        exact lift (keepA hsel hansw w hw)
  · -- B's part only reads the log, which grew
    intro v lb rb hacc
    rw [hstepA_accepted] at hacc
    obtain ⟨⟨la, ra, h1, h2, h3⟩, hrest⟩ := q.accB v lb rb hacc
    exact ⟨⟨la, ra, hsub _ h1, h2, h3⟩, hrest⟩

/-! ## B executes an event -/

/-- old marks travel with the pair id through a nomination-quiet step -/
theorem NomQ.keep {ex : Option Nat} {iss : Option (Nat × Nat × Nat)} {b b' : Agent} (hq : NomQ ex iss b b')
    (hi : AgentC06.Inv b) {q0 : Pair} (hq0 : q0 ∈ b.checklist) (hne : some q0.id ≠ ex) :
    ∃ q0' ∈ b'.checklist, q0'.id = q0.id ∧ nk q0' = nk q0 := by
  obtain ⟨q0', hq0', hid⟩ := hq.fwd q0 hq0
  refine ⟨q0', hq0', hid, ?_⟩
  rcases hq.pairs q0' hq0' (by rw [hid]; exact hne) with ⟨p1, hp1, hp1id, hnk⟩ | ⟨hfresh, _⟩
  · have : p1 = q0 := ids_unique hi hp1 hq0 (hp1id.trans hid)
    rw [← this]; exact hnk
  · have := (AgentC06.Inv.read_ids hi).2 q0 hq0
    omega

theorem nk_parts {p q : Pair} (h : nk p = nk q) :
    (p.state == .succeeded) = (q.state == .succeeded) ∧ p.nomOnSuccess = q.nomOnSuccess ∧ p.deferredNom = q.deferredNom := by
  unfold nk at h
  simp only [Prod.mk.injEq] at h
  exact h

theorem MarkOK.of_marks {last last' : Option Nat} {p p' : Pair} (h : MarkOK last p)
    (h2 : p'.deferredNom = p.deferredNom ∨ p'.deferredNom = none)
    (hl : ∀ l, last = some l → ∃ l', last' = some l' ∧ l ≤ l') : MarkOK last' p' := by
  intro v' hv'
  rcases h2 with h2 | h2
  · obtain ⟨l, hl1, hl2⟩ := h v' (h2 ▸ hv')
    obtain ⟨l', hl1', hl2'⟩ := hl l hl1
    exact ⟨l', hl1', by omega⟩
  · rw [h2] at hv'; cases hv'

theorem MarkOK.fresh {last : Option Nat} {p : Pair} (h2 : p.deferredNom = none) : MarkOK last p :=
  fun v' hv' => (by rw [h2] at hv'; cases hv')

/-- pairs other than the excepted one keep satisfying the mark clause when the highest value does not shrink -/
theorem NomQ.marks {ex : Option Nat} {iss : Option (Nat × Nat × Nat)} {b b' : Agent} (hq : NomQ ex iss b b')
    {last last' : Option Nat} (hm : ∀ p ∈ b.checklist, MarkOK last p)
    (hl : ∀ l, last = some l → ∃ l', last' = some l' ∧ l ≤ l')
    {p' : Pair} (hp' : p' ∈ b'.checklist) (hne : some p'.id ≠ ex) : MarkOK last' p' := by
  rcases hq.pairs p' hp' hne with ⟨p1, hp1, _, hnk⟩ | ⟨_, hnk⟩
  · exact (hm p1 hp1).of_marks (Or.inl (nk_parts hnk).2.2) hl
  · unfold nk at hnk
    simp only [Prod.mk.injEq] at hnk
    exact MarkOK.fresh hnk.2.2

/-- … and a pair other than the excepted one that carries value `v` stems from an old pair carrying it -/
theorem NomQ.carrier {ex : Option Nat} {iss : Option (Nat × Nat × Nat)} {b b' : Agent} (hq : NomQ ex iss b b')
    {p' : Pair} (hp' : p' ∈ b'.checklist) (hne : some p'.id ≠ ex) {v : Nat} (hv : p'.deferredNom = some v) :
    ∃ p ∈ b.checklist, p.id = p'.id ∧ p.deferredNom = some v := by
  rcases hq.pairs p' hp' hne with ⟨p1, hp1, hid, hnk⟩ | ⟨_, hnk⟩
  · exact ⟨p1, hp1, hid, (nk_parts hnk).2.2 ▸ hv⟩
  · unfold nk at hnk
    simp only [Prod.mk.injEq] at hnk
    rw [hnk.2.2] at hv; cases hv

theorem issueOf_controlling {a : Agent} {ev : Ev} {x : Nat × Nat × Nat} (h : issueOf a ev = some x) :
    a.controlling = true := by
  unfold issueOf at h
  split at h
  · split at h
    · rename_i hc
      simp only [Bool.and_eq_true] at hc
      exact hc.1
    · cases h
  · cases h

/-- no event of a started agent that keeps its role and is neither Restart nor Close installs a fresh selector -/
theorem no_reset {a : Agent} {ev : Ev} (hst : a.started = true) (hk : keeps ev = true)
    (hc : (step a ev).1.controlling = a.controlling) : resetsSelector a ev = false := by
  unfold resetsSelector
  have h1 : startTakesEffect a ev = false := by
    cases ev <;> simp [startTakesEffect, hst]
  have h2 : restartTakesEffect a ev = false := by
    cases ev <;> simp_all [restartTakesEffect, keeps]
  have h3 : conflictSwitchEv a ev = false := by
    have := step_controlling a ev
    cases ev with
    | start now c ru rp => simp [conflictSwitchEv, inboundOn]
    | inbound now la src m =>
      simp only [] at this
      rw [hc] at this
      cases hcs : conflictSwitchEv a (.inbound now la src m) with
      | false => rfl
      | true => rw [hcs] at this; simp at this
    | _ => simp [conflictSwitchEv, inboundOn]
  rw [h1, h2, h3]; rfl

/-- the highest accepted value after a step that accepts `v` -/
theorem last_of_accept {a : Agent} {ev : Ev} (hr : resetsSelector a ev = false) {v la src : Nat}
    (h : acceptAt a ev = some (v, la, src)) :
    (step a ev).1.lastNomination = some v ∧ (∀ l, a.lastNomination = some l → l < v) ∧
    ∃ now m, ev = .inbound now la src m ∧ m.nom = some v := by
  cases ev with
  | inbound now la' src' m =>
    simp only [acceptAt, Option.map_eq_some_iff] at h
    obtain ⟨v', hacc, heq⟩ := h
    simp only [Prod.mk.injEq] at heq
    obtain ⟨rfl, rfl, rfl⟩ := heq
    have hacc' := hacc
    unfold accepted at hacc
    cases ho : offer a (.inbound now la' src' m) with
    | none => rw [ho] at hacc; cases hacc
    | some w =>
      rw [ho] at hacc
      simp only [] at hacc
      split at hacc
      · rename_i hdec
        simp only [Option.some.injEq] at hacc
        subst hacc
        have hl := step_lastNomination_offer a (.inbound now la' src' m) hr
        rw [ho] at hl
        simp only [] at hl
        rw [accept_some_fst, hdec] at hl
        refine ⟨hl, (accept_some_iff w a.lastNomination).1 hdec, now, m, rfl, ?_⟩
        unfold offer cldDeliversEv at ho
        cases hin : inboundOn a (.inbound now la' src' m) with
        | none => rw [hin] at ho; cases ho
        | some x =>
          obtain ⟨n1, l1, s1, m1⟩ := x
          rw [hin] at ho
          simp only [] at ho
          have hm1 : m1 = m := by
            have hin' : inboundOn a (.inbound now la' src' m)
                = if a.closed || !a.started then none else (a.localByAddr la').map fun l => (now, l, src', m) := rfl
            rw [hin'] at hin
            split at hin
            · cases hin
            · simp only [Option.map_eq_some_iff] at hin
              obtain ⟨_, _, heq⟩ := hin
              simp only [Prod.mk.injEq] at heq
              exact heq.2.2.2.symm
          subst hm1
          split at ho
          · simpa using ho
          · cases ho
      · cases hacc
  | _ => cases h

/-- … and after a step that accepts nothing -/
theorem last_of_no_accept {a : Agent} {ev : Ev} (hr : resetsSelector a ev = false) (h : acceptAt a ev = none) :
    (step a ev).1.lastNomination = a.lastNomination := by
  have hacc : accepted a ev = none := by
    cases ev with
    | inbound now la src m =>
      simp only [acceptAt, Option.map_eq_none_iff] at h
      exact h
    | _ => 
      unfold accepted offer cldDeliversEv inboundOn
      rfl
  have := step_accept a ev hr
  rw [hacc] at this
  simpa [optMax] using this

/-- what is assumed of B's state after the event (it is part of `Session` of the next state) -/
def PostB (b' : Agent) : Prop :=
  b'.started = true ∧ b'.closed = false ∧ b'.controlling = false ∧ b'.connState ≠ .failed ∧ b'.cfg.lite = false

/-- B's part of the invariant, as a statement about one agent and the accepted entry of the history -/
structure BInv (nat : List (Nat × Nat)) (issued : List Nomination) (acc : Option Nomination) (b : Agent) : Prop where
  lastB : b.lastNomination = acc.map (·.1)
  accB : ∀ v lb rb, acc = some (v, lb, rb) →
    (∃ la ra, (v, la, ra) ∈ issued ∧ lb = unmappedL nat ra ∧ rb = mappedL nat la) ∧
    ∃ id, pairAddrs b id = some (lb, rb) ∧
      (b.selected = some id ∨ ∃ p ∈ b.checklist, p.id = id ∧ nk p = (false, true, some v)) ∧
      ∀ p ∈ b.checklist, p.deferredNom = some v → p.id = id
  defB : ∀ p ∈ b.checklist, MarkOK b.lastNomination p

theorem QInv.binv {nat : List (Nat × Nat)} {h : Hist} {s : Sys} (q : QInv nat h s) :
    BInv nat h.issued h.accepted s.b := ⟨q.lastB, q.accB, q.defB⟩

/-- B accepts a nomination value -/
theorem binv_accept {nat : List (Nat × Nat)} {issued : List Nomination} {acc : Option Nomination} {b : Agent}
    (hb : BInv nat issued acc b) (ev : Ev) {v la src : Nat}
    (hlast : (step b ev).1.lastNomination = some v) (hgt : ∀ l, b.lastNomination = some l → l < v)
    (hiss : ∃ la' ra', (v, la', ra') ∈ issued ∧ la = unmappedL nat ra' ∧ src = mappedL nat la')
    (hB : ∃ id, reqPair b ev = some id ∧ NomQ (some id) none b (step b ev).1 ∧
        pairAddrs (step b ev).1 id = some (la, src) ∧ (∃ p' ∈ (step b ev).1.checklist, p'.id = id) ∧
        (((step b ev).1.selected = some id ∧
            ∀ p' ∈ (step b ev).1.checklist, p'.id = id →
              (∃ p ∈ b.checklist, p.id = id ∧ p'.nomOnSuccess = p.nomOnSuccess ∧ p'.deferredNom = p.deferredNom) ∨
              (b.nextPairID < id ∧ p'.nomOnSuccess = false ∧ p'.deferredNom = none)) ∨
         ((step b ev).1.selected = b.selected ∧
            ∀ p' ∈ (step b ev).1.checklist, p'.id = id → nk p' = (false, true, some v)))) :
    BInv nat issued (some (v, la, src)) (step b ev).1 := by
  obtain ⟨id, _, hq, haddr, ⟨p0', hp0', hp0id⟩, hdisj⟩ := hB
  have hmono : ∀ l, b.lastNomination = some l → ∃ l', (step b ev).1.lastNomination = some l' ∧ l ≤ l' :=
    fun l hl => ⟨v, hlast, Nat.le_of_lt (hgt l hl)⟩
  refine ⟨by rw [hlast]; rfl, ?_, ?_⟩
  · intro v1 lb rb heq
    simp only [Option.some.injEq, Prod.mk.injEq] at heq
    obtain ⟨rfl, rfl, rfl⟩ := heq
    refine ⟨hiss, id, haddr, ?_, ?_⟩
    · rcases hdisj with ⟨hsel, _⟩ | ⟨_, hnk⟩
      · exact Or.inl hsel
      · exact Or.inr ⟨p0', hp0', hp0id, hnk p0' hp0' hp0id⟩
    · intro p' hp' hv
      apply Classical.byContradiction
      intro hne
      obtain ⟨p, hp, _, hpv⟩ := hq.carrier hp' (by simpa using hne) hv
      obtain ⟨l, hl1, hl2⟩ := hb.defB p hp v hpv
      have := hgt l hl1
      omega
  · intro p' hp'
    by_cases hid : p'.id = id
    · rcases hdisj with ⟨_, hmarks⟩ | ⟨_, hnk⟩
      · rcases hmarks p' hp' hid with ⟨p, hp, _, _, h2⟩ | ⟨_, _, h2⟩
        · exact (hb.defB p hp).of_marks (Or.inl h2) hmono
        · exact MarkOK.fresh h2
      · have := hnk p' hp' hid
        unfold nk at this
        simp only [Prod.mk.injEq] at this
        intro v' hv'
        rw [this.2.2] at hv'
        simp only [Option.some.injEq] at hv'
        exact ⟨v, hlast, by omega⟩
    · exact hq.marks hb.defB hmono hp' (by simpa using hid)

/-- B's own check of a pair succeeds -/
theorem binv_answer {nat : List (Nat × Nat)} {issued : List Nomination} {acc : Option Nomination} {b : Agent}
    (hb : BInv nat issued acc b) (hi : AgentC06.Inv b) (ev : Ev) {id : Nat}
    (hlast : (step b ev).1.lastNomination = b.lastNomination)
    (hA : ∃ p ∈ b.checklist, p.id = id ∧ NomQ (some id) none b (step b ev).1 ∧
        (∀ p' ∈ (step b ev).1.checklist, p'.id = id →
          p'.state = .succeeded ∧
          (p.nomOnSuccess = true → p'.nomOnSuccess = false ∧ p'.deferredNom = none) ∧
          (p.nomOnSuccess = false → p'.nomOnSuccess = false ∧ p'.deferredNom = p.deferredNom)) ∧
        (p.nomOnSuccess = false → (step b ev).1.selected = b.selected) ∧
        (∀ v, p.nomOnSuccess = true → p.deferredNom = some v →
          (step b ev).1.selected =
            match b.lastNomination with
            | some last => if v < last then b.selected else some id
            | none => b.selected) ∧
        (p.nomOnSuccess = true → p.deferredNom = none →
          (step b ev).1.selected = b.selected ∨
            ((step b ev).1.selected = some id ∧ (b.selected = none ∨ b.lastNomination = none)))) :
    BInv nat issued acc (step b ev).1 := by
  obtain ⟨p, hp, hpid, hq, hex, hsel0, hselv, hselp⟩ := hA
  have hmono : ∀ l, b.lastNomination = some l → ∃ l', (step b ev).1.lastNomination = some l' ∧ l ≤ l' :=
    fun l hl => ⟨l, hlast ▸ hl, Nat.le_refl _⟩
  -- the deferred value of the answered pair afterwards: gone, or what it was
  have hdn : ∀ p' ∈ (step b ev).1.checklist, p'.id = id → p'.deferredNom = p.deferredNom ∨ p'.deferredNom = none := by
    intro p' hp' hid
    cases hn : p.nomOnSuccess with
    | true => exact Or.inr ((hex p' hp' hid).2.1 hn).2
    | false => exact Or.inl ((hex p' hp' hid).2.2 hn).2
  refine ⟨by rw [hlast]; exact hb.lastB, ?_, ?_⟩
  · intro v lb rb hacc
    obtain ⟨hiss, id0, haddr0, hJ, huniq⟩ := hb.accB v lb rb hacc
    have hlv : b.lastNomination = some v := by rw [hb.lastB, hacc]; rfl
    -- the new selection, case by case on the mark of the answered pair
    have hnew : (step b ev).1.selected = b.selected ∨
        ((step b ev).1.selected = some id ∧ p.nomOnSuccess = true ∧ p.deferredNom = some v) ∨
        ((step b ev).1.selected = some id ∧ b.selected = none) := by
      cases hn : p.nomOnSuccess with
      | false => exact Or.inl (hsel0 hn)
      | true =>
        cases hd : p.deferredNom with
        | none =>
          rcases hselp hn hd with h | ⟨h1, h2 | h2⟩
          · exact Or.inl h
          · exact Or.inr (Or.inr ⟨h1, h2⟩)
          · rw [hlv] at h2; cases h2
        | some v' =>
          obtain ⟨l, hl1, hl2⟩ := hb.defB p hp v' hd
          rw [hlv] at hl1
          cases hl1
          have hs := hselv v' hn hd
          rw [hlv] at hs
          simp only [] at hs
          by_cases hlt : v' < v
          · rw [if_pos hlt] at hs; exact Or.inl hs
          · rw [if_neg hlt] at hs
            have : v' = v := by omega
            subst this
            exact Or.inr (Or.inl ⟨hs, rfl, rfl⟩)
    refine ⟨hiss, id0, hq.addrs _ _ haddr0, ?_, ?_⟩
    · rcases hJ with hsel | ⟨q0, hq0, hq0id, hq0nk⟩
      · -- the carrier is selected: it stays selected
        left
        rcases hnew with h | ⟨h1, _, hd⟩ | ⟨_, h2⟩
        · exact h.trans hsel
        · rw [h1, ← hpid, huniq p hp hd]
        · rw [hsel] at h2; cases h2
      · by_cases hid : id = id0
        · -- the answered pair is the waiting carrier: it is selected now
          left
          subst hid
          have hpq : q0 = p := ids_unique hi hq0 hp (hq0id.trans hpid.symm)
          subst hpq
          unfold nk at hq0nk
          simp only [Prod.mk.injEq] at hq0nk
          have hs := hselv v hq0nk.2.1 hq0nk.2.2
          rw [hlv] at hs
          simpa using hs
        · right
          obtain ⟨q0', hq0', hid', hnk'⟩ := hq.keep hi hq0 (by rw [hq0id]; simpa using fun h => hid h.symm)
          exact ⟨q0', hq0', hid'.trans hq0id, hnk'.trans hq0nk⟩
    · intro p' hp' hv
      by_cases hid : p'.id = id
      · rcases hdn p' hp' hid with h | h
        · rw [h] at hv
          rw [hid, ← hpid]
          exact huniq p hp hv
        · rw [h] at hv; cases hv
      · obtain ⟨p1, hp1, hp1id, hp1v⟩ := hq.carrier hp' (by simpa using hid) hv
        rw [← hp1id]
        exact huniq p1 hp1 hp1v
  · intro p' hp'
    by_cases hid : p'.id = id
    · exact (hb.defB p hp).of_marks (hdn p' hp' hid) hmono
    · exact hq.marks hb.defB hmono hp' (by simpa using hid)

/-- an ordinary nomination reaches B's selector: the selection moves only if nothing is selected or no value has been
accepted, and no deferred value is replaced -/
theorem binv_plain {nat : List (Nat × Nat)} {issued : List Nomination} {acc : Option Nomination} {b : Agent}
    (hb : BInv nat issued acc b) (hi : AgentC06.Inv b) (ev : Ev) {id : Nat}
    (hlast : (step b ev).1.lastNomination = b.lastNomination)
    (hq : NomQ (some id) none b (step b ev).1)
    (hsel : (step b ev).1.selected = b.selected ∨
      ((step b ev).1.selected = some id ∧ (b.selected = none ∨ b.lastNomination = none)))
    (hmk : ∀ p' ∈ (step b ev).1.checklist, p'.id = id →
      (∃ p ∈ b.checklist, p.id = id ∧ (nk p' = nk p ∨ nk p' = ((nk p).1, true, (nk p).2.2))) ∨
      (b.nextPairID < id ∧ (nk p' = (false, false, none) ∨ nk p' = (false, true, none)))) :
    BInv nat issued acc (step b ev).1 := by
  have hmono : ∀ l, b.lastNomination = some l → ∃ l', (step b ev).1.lastNomination = some l' ∧ l ≤ l' :=
    fun l hl => ⟨l, hlast ▸ hl, Nat.le_refl _⟩
  -- the deferred value of the pair of the request is what it was
  have hdn : ∀ p' ∈ (step b ev).1.checklist, p'.id = id →
      (∃ p ∈ b.checklist, p.id = id ∧ p'.deferredNom = p.deferredNom) ∨ p'.deferredNom = none := by
    intro p' hp' hid
    rcases hmk p' hp' hid with ⟨p, hp, hpid, h | h⟩ | ⟨_, h | h⟩
    · exact Or.inl ⟨p, hp, hpid, (nk_parts h).2.2⟩
    · left
      refine ⟨p, hp, hpid, ?_⟩
      unfold nk at h
      simp only [Prod.mk.injEq] at h
      exact h.2.2
    · right
      unfold nk at h
      simp only [Prod.mk.injEq] at h
      exact h.2.2
    · right
      unfold nk at h
      simp only [Prod.mk.injEq] at h
      exact h.2.2
  refine ⟨by rw [hlast]; exact hb.lastB, ?_, ?_⟩
  · intro v lb rb hacc
    obtain ⟨hiss, id0, haddr0, hJ, huniq⟩ := hb.accB v lb rb hacc
    have hlv : b.lastNomination = some v := by rw [hb.lastB, hacc]; rfl
    refine ⟨hiss, id0, hq.addrs _ _ haddr0, ?_, ?_⟩
    · rcases hJ with hs | ⟨q0, hq0, hq0id, hq0nk⟩
      · left
        rcases hsel with h | ⟨_, h | h⟩
        · exact h.trans hs
        · rw [hs] at h; cases h
        · rw [hlv] at h; cases h
      · right
        by_cases hid : id = id0
        · subst hid
          obtain ⟨q0', hq0', hid'⟩ := hq.fwd q0 hq0
          refine ⟨q0', hq0', hid'.trans hq0id, ?_⟩
          rcases hmk q0' hq0' (hid'.trans hq0id) with ⟨p, hp, hpid, h⟩ | ⟨hlt, _⟩
          · have hpq : p = q0 := ids_unique hi hp hq0 (hpid.trans hq0id.symm)
            subst hpq
            rcases h with h | h
            · exact h.trans hq0nk
            · rw [h, hq0nk]
          · have := (AgentC06.Inv.read_ids hi).2 q0 hq0
            omega
        · obtain ⟨q0', hq0', hid', hnk'⟩ := hq.keep hi hq0 (by rw [hq0id]; simpa using fun h => hid h.symm)
          exact ⟨q0', hq0', hid'.trans hq0id, hnk'.trans hq0nk⟩
    · intro p' hp' hv
      by_cases hid : p'.id = id
      · rcases hdn p' hp' hid with ⟨p, hp, hpid, h⟩ | h
        · rw [h] at hv
          rw [hid, ← hpid]
          exact huniq p hp hv
        · rw [h] at hv; cases hv
      · obtain ⟨p1, hp1, hp1id, hp1v⟩ := hq.carrier hp' (by simpa using hid) hv
        rw [← hp1id]
        exact huniq p1 hp1 hp1v
  · intro p' hp'
    by_cases hid : p'.id = id
    · rcases hdn p' hp' hid with ⟨p, hp, _, h⟩ | h
      · exact (hb.defB p hp).of_marks (Or.inl h) hmono
      · exact MarkOK.fresh h
    · exact hq.marks hb.defB hmono hp' (by simpa using hid)

/-- nothing nomination-relevant happens at B -/
theorem binv_quiet {nat : List (Nat × Nat)} {issued : List Nomination} {acc : Option Nomination} {b : Agent}
    (hb : BInv nat issued acc b) (hi : AgentC06.Inv b) (ev : Ev)
    (hlast : (step b ev).1.lastNomination = b.lastNomination) (hq : NomQ none none b (step b ev).1) :
    BInv nat issued acc (step b ev).1 := by
  have hmono : ∀ l, b.lastNomination = some l → ∃ l', (step b ev).1.lastNomination = some l' ∧ l ≤ l' :=
    fun l hl => ⟨l, hlast ▸ hl, Nat.le_refl _⟩
  have hsel : (step b ev).1.selected = b.selected := by
    rcases hq.sel with h | ⟨_, h⟩
    · exact h
    · cases h
  refine ⟨by rw [hlast]; exact hb.lastB, ?_, ?_⟩
  · intro v lb rb hacc
    obtain ⟨hiss, id0, haddr0, hJ, huniq⟩ := hb.accB v lb rb hacc
    refine ⟨hiss, id0, hq.addrs _ _ haddr0, ?_, ?_⟩
    · rcases hJ with h | ⟨q0, hq0, hq0id, hq0nk⟩
      · exact Or.inl (hsel.trans h)
      · obtain ⟨q0', hq0', hid', hnk'⟩ := hq.keep hi hq0 (by simp)
        exact Or.inr ⟨q0', hq0', hid'.trans hq0id, hnk'.trans hq0nk⟩
    · intro p' hp' hv
      obtain ⟨p1, hp1, hp1id, hp1v⟩ := hq.carrier hp' (by simp) hv
      rw [← hp1id]
      exact huniq p1 hp1 hp1v
  · intro p' hp'
    exact hq.marks hb.defB hmono hp' (by simp)

end IceProofs.C20S
