import IceProofs.Sys2C20Inv
/-!
# C20 on `Sys2` — one agent event preserves the invariant of the exchange
-/
namespace IceProofs.C20S
open IceModel.AgentCore IceModel.Sys2 IceProofs.Sys2Run IceProofs.Agent IceProofs.Sys2C05

/-! ## frame -/

/-- the clock and the removal of datagrams in flight do not matter -/
theorem qinv_frame {nat : List (Nat × Nat)} {h : Hist} {s s' : Sys} (q : QInv nat h s) (ha : s'.a = s.a) (hb : s'.b = s.b)
    (hn : s'.nat = s.nat) (hf : ∀ d ∈ s'.inflight, d ∈ s.inflight) : QInv nat h s' := by
  refine ⟨hn.trans q.topo, ha ▸ q.invA, hb ▸ q.invB, ?_, fun d hd => q.fl d (hf d hd), ?_, ?_, ?_, ?_, ?_, ?_⟩
  · unfold Session; rw [ha, hb]; exact q.sess
  · rw [ha]; exact q.pendA
  · rw [ha]; exact q.selA
  · rw [ha]; exact q.ansA
  · rw [hb]; exact q.lastB
  · rw [hb]; exact q.accB
  · rw [hb]; exact q.defB

/-! ## the history after one agent event -/

theorem hstepA_issued (h : Hist) (a : Agent) (ev : Ev) :
    (hstep h false a ev).issued = h.issued ++ (issueOf a ev).toList := by
  simp only [hstep, Bool.false_eq_true, if_false]
theorem hstepA_answered (h : Hist) (a : Agent) (ev : Ev) :
    (hstep h false a ev).answered = (answeredNom a ev).orElse fun _ => h.answered := by
  simp only [hstep, Bool.false_eq_true, if_false]
theorem hstepA_accepted (h : Hist) (a : Agent) (ev : Ev) : (hstep h false a ev).accepted = h.accepted := by
  simp only [hstep, Bool.false_eq_true, if_false]
theorem hstepB_issued (h : Hist) (a : Agent) (ev : Ev) : (hstep h true a ev).issued = h.issued := by
  simp only [hstep, if_true]
theorem hstepB_answered (h : Hist) (a : Agent) (ev : Ev) : (hstep h true a ev).answered = h.answered := by
  simp only [hstep, if_true]
theorem hstepB_accepted (h : Hist) (a : Agent) (ev : Ev) :
    (hstep h true a ev).accepted = (acceptAt a ev).orElse fun _ => h.accepted := by
  simp only [hstep, if_true]

theorem agentEv_nat (s : Sys) (X : Bool) (e : Ev) : (s.agentEv X e).1.nat = s.nat := (agentEv_topo s X e).1

theorem agentEv_a_false (s : Sys) (e : Ev) : (s.agentEv false e).1.a = (step s.a e).1 := by
  have := agentEv_agent s false e false
  simpa [Sys.agent] using this
theorem agentEv_b_false (s : Sys) (e : Ev) : (s.agentEv false e).1.b = s.b := by
  have := agentEv_agent s false e true
  simpa [Sys.agent] using this
theorem agentEv_a_true (s : Sys) (e : Ev) : (s.agentEv true e).1.a = s.a := by
  have := agentEv_agent s true e false
  simpa [Sys.agent] using this
theorem agentEv_b_true (s : Sys) (e : Ev) : (s.agentEv true e).1.b = (step s.b e).1 := by
  have := agentEv_agent s true e true
  simpa [Sys.agent] using this
theorem agentEv_inflight_false (s : Sys) (e : Ev) :
    (s.agentEv false e).1.inflight = s.inflight ++ dgramsOf (step s.a e).2 := by
  have := agentEv_inflight s false e
  simpa [Sys.agent] using this
theorem agentEv_inflight_true (s : Sys) (e : Ev) :
    (s.agentEv true e).1.inflight = s.inflight ++ dgramsOf (step s.b e).2 := by
  have := agentEv_inflight s true e
  simpa [Sys.agent] using this

/-! ## A executes an event -/

/-- what is assumed of A's state after the event (it is part of `Session` of the next state) -/
def PostA (a' : Agent) : Prop :=
  a'.started = true ∧ a'.closed = false ∧ a'.controlling = true ∧ a'.connState ≠ .failed

theorem qinv_stepA {nat : List (Nat × Nat)} {h : Hist} {s : Sys} (q : QInv nat h s) (ev : Ev) (hk : keeps ev = true)
    (hpost : PostA (step s.a ev).1) (hz : ∀ x ∈ (hstep h false s.a ev).issued, 0 < x.1) :
    QInv nat (hstep h false s.a ev) (s.agentEv false ev).1 := by
  obtain ⟨hs1, hs2, hs3, hs4, hs5, hs6, hs7, hs8, hs9⟩ := q.sess
  obtain ⟨hp1, hp2, hp3, hp4⟩ := hpost
  have hsub : ∀ x ∈ h.issued, x ∈ (hstep h false s.a ev).issued := by
    intro x hx; rw [hstepA_issued]; exact List.mem_append_left _ hx
  have hiss : ∀ x, issueOf s.a ev = some x → x ∈ (hstep h false s.a ev).issued := by
    intro x hx; rw [hstepA_issued, hx]; simp
  obtain ⟨hq, hsel, hans⟩ := step_frame_ctl s.a ev q.invA hs1 hk hs5 hp3 hp4
  have hselS : ∃ sid, s.a.selected = some sid := Option.isSome_iff_exists.mp q.selA
  obtain ⟨sid, hsid⟩ := hselS
  refine ⟨(agentEv_nat s false ev).trans q.topo, ?_, q.invB, ?_, ?_, ?_, ?_, ?_, q.lastB, ?_, q.defB⟩
  · rw [agentEv_a_false]; exact q.invA.step ev
  · unfold Session
    rw [agentEv_a_false, agentEv_b_false]
    exact ⟨hp1, hs2, hp2, hs4, hp3, hs6, hp4, hs8, hs9⟩
  · -- datagrams in flight
    intro d hd
    rw [agentEv_inflight_false] at hd
    rcases List.mem_append.mp hd with hd | hd
    · exact (q.fl d hd).mono hsub
    · intro m hm
      have hmem := mem_dgramsOf_stun hd hm
      refine ⟨fun v hv => ?_, fun hc hu => ?_⟩
      · obtain ⟨h1, _, _, h4⟩ := step_out_nom s.a ev d.src d.dst m v hmem hv
        exact ⟨h1, hiss _ h4⟩
      · cases hn : m.nom with
        | some v => rfl
        | none =>
          have := step_out_plainUC s.a ev hs1 hk q.selA d.src d.dst m hmem hc hu hn
          exact absurd (hz _ (hiss _ this)) (by simp)
  · -- outstanding transactions of A
    intro pd hpd v hv
    rw [agentEv_a_false] at hpd
    rcases hq.pend pd hpd with h1 | h1 | ⟨v', h1, h2⟩
    · exact hsub _ (q.pendA pd h1 v hv)
    · rw [h1] at hv; cases hv
    · rw [h1] at hv
      cases hv
      exact hiss _ h2
  · -- A still has a selection
    rw [agentEv_a_false, hsel]
    cases hao : answerOf s.a ev with
    | none => simpa using q.selA
    | some x =>
      obtain ⟨pd, id⟩ := x
      simp only []
      split
      · rfl
      · exact q.selA
  · -- the selected pair is the pair of the nomination answered last
    intro x hx
    rw [hstepA_answered] at hx
    rw [agentEv_a_false]
    cases hao : answerOf s.a ev with
    | none =>
      have hnone : answeredNom s.a ev = none := by unfold answeredNom; rw [hao]
      rw [hnone] at hx
      simp only [Option.orElse_none] at hx
      obtain ⟨h1, h2⟩ := q.ansA x hx
      refine ⟨hsub _ h1, ?_⟩
      have hsel' : (step s.a ev).1.selected = some sid := by rw [hsel, hao]; exact hsid
      rw [selAddrs_of_selected hsel']
      rw [selAddrs_of_selected hsid] at h2
      exact hq.addrs _ _ h2
    | some y =>
      obtain ⟨pd, id⟩ := y
      obtain ⟨hpdm, hpa⟩ := hans pd id hao
      by_cases hval : pd.useCand = true ∧ pd.nom.isSome = true
      · obtain ⟨hu, hn⟩ := hval
        obtain ⟨v, hv⟩ := Option.isSome_iff_exists.mp hn
        have hnom : answeredNom s.a ev = some (v, pd.src, pd.dest) := by
          unfold answeredNom; rw [hao]; simp [hu, hv]
        rw [hnom] at hx
        simp only [Option.orElse_some, Option.some.injEq] at hx
        subst hx
        refine ⟨hsub _ (q.pendA pd hpdm v hv), ?_⟩
        have hsel' : (step s.a ev).1.selected = some id := by
          rw [hsel, hao]; simp [hu, hn]
        rw [selAddrs_of_selected hsel']
        exact hq.addrs _ _ hpa
      · have hnone : answeredNom s.a ev = none := by
          unfold answeredNom; rw [hao]
          simp only []
          by_cases hu : pd.useCand = true
          · have : pd.nom = none := by
              cases hn : pd.nom with
              | none => rfl
              | some v => exact absurd ⟨hu, by simp [hn]⟩ hval
            simp [hu, this]
          · simp [hu]
        rw [hnone] at hx
        simp only [Option.orElse_none] at hx
        obtain ⟨h1, h2⟩ := q.ansA x hx
        refine ⟨hsub _ h1, ?_⟩
        have hsel' : (step s.a ev).1.selected = some sid := by
          rw [hsel, hao]
          simp only []
          by_cases hu : pd.useCand = true
          · have hn : pd.nom.isSome = false := by
              cases hn : pd.nom.isSome with
              | false => rfl
              | true => exact absurd ⟨hu, hn⟩ hval
            simp [hu, hn, hsid]
          · simp [hu, hsid]
        rw [selAddrs_of_selected hsel']
        rw [selAddrs_of_selected hsid] at h2
        exact hq.addrs _ _ h2
  · -- B's part only reads the log, which grew
    intro v lb rb hacc
    rw [hstepA_accepted] at hacc
    obtain ⟨⟨la, ra, h1, h2, h3⟩, hrest⟩ := q.accB v lb rb hacc
    exact ⟨⟨la, ra, hsub _ h1, h2, h3⟩, hrest⟩

/-! ## B executes an event -/

/-- old marks travel with the pair id through a nomination-quiet step -/
theorem NomQ.keep {ex : Option Nat} {iss : Option (Nat × Nat × Nat)} {b b' : Agent} (hq : NomQ ex iss b b')
    (hi : AgentC06.Inv b) {q0 : Pair} (hq0 : q0 ∈ b.checklist) (hne : some q0.id ≠ ex) :
    ∃ q0' ∈ b'.checklist, q0'.id = q0.id ∧ nk q0' = nk q0 := by
  obtain ⟨q0', hq0', hid⟩ := hq.fwd q0 hq0
  refine ⟨q0', hq0', hid, ?_⟩
  rcases hq.pairs q0' hq0' (by rw [hid]; exact hne) with ⟨p1, hp1, hp1id, hnk⟩ | ⟨hfresh, _⟩
  · have : p1 = q0 := ids_unique hi hp1 hq0 (hp1id.trans hid)
    rw [← this]; exact hnk
  · have := (AgentC06.Inv.read_ids hi).2 q0 hq0
    omega

theorem nk_parts {p q : Pair} (h : nk p = nk q) :
    (p.state == .succeeded) = (q.state == .succeeded) ∧ p.nomOnSuccess = q.nomOnSuccess ∧ p.deferredNom = q.deferredNom := by
  unfold nk at h
  simp only [Prod.mk.injEq] at h
  exact h

/-- the mark clause of the invariant for one pair -/
def MarkOK (last : Option Nat) (p : Pair) : Prop :=
  (p.nomOnSuccess = true → p.deferredNom.isSome = true) ∧
  (∀ v', p.deferredNom = some v' → ∃ l, last = some l ∧ v' ≤ l)

theorem MarkOK.of_marks {last last' : Option Nat} {p p' : Pair} (h : MarkOK last p)
    (h1 : p'.nomOnSuccess = p.nomOnSuccess) (h2 : p'.deferredNom = p.deferredNom)
    (hl : ∀ l, last = some l → ∃ l', last' = some l' ∧ l ≤ l') : MarkOK last' p' := by
  refine ⟨fun hn => by rw [h2]; exact h.1 (h1 ▸ hn), fun v' hv' => ?_⟩
  obtain ⟨l, hl1, hl2⟩ := h.2 v' (h2 ▸ hv')
  obtain ⟨l', hl1', hl2'⟩ := hl l hl1
  exact ⟨l', hl1', by omega⟩

theorem MarkOK.fresh {last : Option Nat} {p : Pair} (h1 : p.nomOnSuccess = false) (h2 : p.deferredNom = none) :
    MarkOK last p :=
  ⟨fun hn => (by rw [h1] at hn; cases hn), fun v' hv' => (by rw [h2] at hv'; cases hv')⟩

/-- pairs other than the excepted one keep satisfying the mark clause when the highest value does not shrink -/
theorem NomQ.marks {ex : Option Nat} {iss : Option (Nat × Nat × Nat)} {b b' : Agent} (hq : NomQ ex iss b b')
    {last last' : Option Nat} (hm : ∀ p ∈ b.checklist, MarkOK last p)
    (hl : ∀ l, last = some l → ∃ l', last' = some l' ∧ l ≤ l')
    {p' : Pair} (hp' : p' ∈ b'.checklist) (hne : some p'.id ≠ ex) : MarkOK last' p' := by
  rcases hq.pairs p' hp' hne with ⟨p1, hp1, _, hnk⟩ | ⟨_, hnk⟩
  · obtain ⟨_, h2, h3⟩ := nk_parts hnk
    exact (hm p1 hp1).of_marks h2 h3 hl
  · unfold nk at hnk
    simp only [Prod.mk.injEq] at hnk
    exact MarkOK.fresh hnk.2.1 hnk.2.2

/-- … and a pair other than the excepted one that carries value `v` stems from an old pair carrying it -/
theorem NomQ.carrier {ex : Option Nat} {iss : Option (Nat × Nat × Nat)} {b b' : Agent} (hq : NomQ ex iss b b')
    {p' : Pair} (hp' : p' ∈ b'.checklist) (hne : some p'.id ≠ ex) {v : Nat} (hv : p'.deferredNom = some v) :
    ∃ p ∈ b.checklist, p.id = p'.id ∧ p.deferredNom = some v := by
  rcases hq.pairs p' hp' hne with ⟨p1, hp1, hid, hnk⟩ | ⟨_, hnk⟩
  · obtain ⟨_, _, h3⟩ := nk_parts hnk
    exact ⟨p1, hp1, hid, h3 ▸ hv⟩
  · unfold nk at hnk
    simp only [Prod.mk.injEq] at hnk
    rw [hnk.2.2] at hv; cases hv

theorem issueOf_controlling {a : Agent} {ev : Ev} {x : Nat × Nat × Nat} (h : issueOf a ev = some x) :
    a.controlling = true := by
  unfold issueOf at h
  split at h
  · split at h
    · rename_i hc
      simp only [Bool.and_eq_true] at hc
      exact hc.1
    · cases h
  · cases h

/-- no event of a started agent that keeps its role and is neither Restart nor Close installs a fresh selector -/
theorem no_reset {a : Agent} {ev : Ev} (hst : a.started = true) (hk : keeps ev = true)
    (hc : (step a ev).1.controlling = a.controlling) : resetsSelector a ev = false := by
  unfold resetsSelector
  have h1 : startTakesEffect a ev = false := by
    cases ev <;> simp [startTakesEffect, hst]
  have h2 : restartTakesEffect a ev = false := by
    cases ev <;> simp_all [restartTakesEffect, keeps]
  have h3 : conflictSwitchEv a ev = false := by
    have := step_controlling a ev
    cases ev with
    | start now c ru rp => simp [conflictSwitchEv, inboundOn]
    | inbound now la src m =>
      simp only [] at this
      rw [hc] at this
      cases hcs : conflictSwitchEv a (.inbound now la src m) with
      | false => rfl
      | true => rw [hcs] at this; simp at this
    | _ => simp [conflictSwitchEv, inboundOn]
  rw [h1, h2, h3]; rfl

/-- the highest accepted value after a step that accepts `v` -/
theorem last_of_accept {a : Agent} {ev : Ev} (hr : resetsSelector a ev = false) {v la src : Nat}
    (h : acceptAt a ev = some (v, la, src)) :
    (step a ev).1.lastNomination = some v ∧ (∀ l, a.lastNomination = some l → l < v) ∧
    ∃ now m, ev = .inbound now la src m ∧ m.nom = some v := by
  cases ev with
  | inbound now la' src' m =>
    simp only [acceptAt, Option.map_eq_some_iff] at h
    obtain ⟨v', hacc, heq⟩ := h
    simp only [Prod.mk.injEq] at heq
    obtain ⟨rfl, rfl, rfl⟩ := heq
    have hacc' := hacc
    unfold accepted at hacc
    cases ho : offer a (.inbound now la' src' m) with
    | none => rw [ho] at hacc; cases hacc
    | some w =>
      rw [ho] at hacc
      simp only [] at hacc
      split at hacc
      · rename_i hdec
        simp only [Option.some.injEq] at hacc
        subst hacc
        have hl := step_lastNomination_offer a (.inbound now la' src' m) hr
        rw [ho] at hl
        simp only [] at hl
        rw [accept_some_fst, hdec] at hl
        refine ⟨hl, (accept_some_iff w a.lastNomination).1 hdec, now, m, rfl, ?_⟩
        unfold offer cldDeliversEv at ho
        cases hin : inboundOn a (.inbound now la' src' m) with
        | none => rw [hin] at ho; cases ho
        | some x =>
          obtain ⟨n1, l1, s1, m1⟩ := x
          rw [hin] at ho
          simp only [] at ho
          have hm1 : m1 = m := by
            have hin' : inboundOn a (.inbound now la' src' m)
                = if a.closed || !a.started then none else (a.localByAddr la').map fun l => (now, l, src', m) := rfl
            rw [hin'] at hin
            split at hin
            · cases hin
            · simp only [Option.map_eq_some_iff] at hin
              obtain ⟨_, _, heq⟩ := hin
              simp only [Prod.mk.injEq] at heq
              exact heq.2.2.2.symm
          subst hm1
          split at ho
          · simpa using ho
          · cases ho
      · cases hacc
  | _ => cases h

/-- … and after a step that accepts nothing -/
theorem last_of_no_accept {a : Agent} {ev : Ev} (hr : resetsSelector a ev = false) (h : acceptAt a ev = none) :
    (step a ev).1.lastNomination = a.lastNomination := by
  have hacc : accepted a ev = none := by
    cases ev with
    | inbound now la src m =>
      simp only [acceptAt, Option.map_eq_none_iff] at h
      exact h
    | _ => 
      unfold accepted offer cldDeliversEv inboundOn
      rfl
  have := step_accept a ev hr
  rw [hacc] at this
  simpa [optMax] using this

/-- what is assumed of B's state after the event (it is part of `Session` of the next state) -/
def PostB (b' : Agent) : Prop :=
  b'.started = true ∧ b'.closed = false ∧ b'.controlling = false ∧ b'.connState ≠ .failed ∧ b'.cfg.lite = false

/-- B's part of the invariant, as a statement about one agent and the accepted entry of the history -/
structure BInv (nat : List (Nat × Nat)) (issued : List Nomination) (acc : Option Nomination) (b : Agent) : Prop where
  lastB : b.lastNomination = acc.map (·.1)
  accB : ∀ v lb rb, acc = some (v, lb, rb) →
    (∃ la ra, (v, la, ra) ∈ issued ∧ lb = unmappedL nat ra ∧ rb = mappedL nat la) ∧
    ∃ id, pairAddrs b id = some (lb, rb) ∧
      (b.selected = some id ∨ ∃ p ∈ b.checklist, p.id = id ∧ nk p = (false, true, some v)) ∧
      ∀ p ∈ b.checklist, p.deferredNom = some v → p.id = id
  defB : ∀ p ∈ b.checklist, MarkOK b.lastNomination p

theorem QInv.binv {nat : List (Nat × Nat)} {h : Hist} {s : Sys} (q : QInv nat h s) :
    BInv nat h.issued h.accepted s.b := ⟨q.lastB, q.accB, q.defB⟩

/-- B accepts a nomination value -/
theorem binv_accept {nat : List (Nat × Nat)} {issued : List Nomination} {acc : Option Nomination} {b : Agent}
    (hb : BInv nat issued acc b) (hi : AgentC06.Inv b) (ev : Ev) {v la src : Nat}
    (hlast : (step b ev).1.lastNomination = some v) (hgt : ∀ l, b.lastNomination = some l → l < v)
    (hiss : ∃ la' ra', (v, la', ra') ∈ issued ∧ la = unmappedL nat ra' ∧ src = mappedL nat la')
    (hB : ∃ id, reqPair b ev = some id ∧ NomQ (some id) none b (step b ev).1 ∧
        pairAddrs (step b ev).1 id = some (la, src) ∧ (∃ p' ∈ (step b ev).1.checklist, p'.id = id) ∧
        (((step b ev).1.selected = some id ∧
            ∀ p' ∈ (step b ev).1.checklist, p'.id = id →
              (∃ p ∈ b.checklist, p.id = id ∧ p'.nomOnSuccess = p.nomOnSuccess ∧ p'.deferredNom = p.deferredNom) ∨
              (b.nextPairID < id ∧ p'.nomOnSuccess = false ∧ p'.deferredNom = none)) ∨
         ((step b ev).1.selected = b.selected ∧
            ∀ p' ∈ (step b ev).1.checklist, p'.id = id → nk p' = (false, true, some v)))) :
    BInv nat issued (some (v, la, src)) (step b ev).1 := by
  obtain ⟨id, _, hq, haddr, ⟨p0', hp0', hp0id⟩, hdisj⟩ := hB
  have hmono : ∀ l, b.lastNomination = some l → ∃ l', (step b ev).1.lastNomination = some l' ∧ l ≤ l' :=
    fun l hl => ⟨v, hlast, Nat.le_of_lt (hgt l hl)⟩
  refine ⟨by rw [hlast]; rfl, ?_, ?_⟩
  · intro v1 lb rb heq
    simp only [Option.some.injEq, Prod.mk.injEq] at heq
    obtain ⟨rfl, rfl, rfl⟩ := heq
    refine ⟨hiss, id, haddr, ?_, ?_⟩
    · rcases hdisj with ⟨hsel, _⟩ | ⟨_, hnk⟩
      · exact Or.inl hsel
      · exact Or.inr ⟨p0', hp0', hp0id, hnk p0' hp0' hp0id⟩
    · intro p' hp' hv
      apply Classical.byContradiction
      intro hne
      obtain ⟨p, hp, _, hpv⟩ := hq.carrier hp' (by simpa using hne) hv
      obtain ⟨l, hl1, hl2⟩ := (hb.defB p hp).2 v hpv
      have := hgt l hl1
      omega
  · intro p' hp'
    by_cases hid : p'.id = id
    · rcases hdisj with ⟨_, hmarks⟩ | ⟨_, hnk⟩
      · rcases hmarks p' hp' hid with ⟨p, hp, _, h1, h2⟩ | ⟨_, h1, h2⟩
        · exact (hb.defB p hp).of_marks h1 h2 hmono
        · exact MarkOK.fresh h1 h2
      · have := hnk p' hp' hid
        unfold nk at this
        simp only [Prod.mk.injEq] at this
        refine ⟨fun _ => by rw [this.2.2]; rfl, fun v' hv' => ?_⟩
        rw [this.2.2] at hv'
        simp only [Option.some.injEq] at hv'
        exact ⟨v, hlast, by omega⟩
    · exact hq.marks hb.defB hmono hp' (by simpa using hid)

/-- B's own check of a pair succeeds -/
theorem binv_answer {nat : List (Nat × Nat)} {issued : List Nomination} {acc : Option Nomination} {b : Agent}
    (hb : BInv nat issued acc b) (hi : AgentC06.Inv b) (ev : Ev) {id : Nat}
    (hlast : (step b ev).1.lastNomination = b.lastNomination)
    (hA : ∃ p ∈ b.checklist, p.id = id ∧ NomQ (some id) none b (step b ev).1 ∧
        (∀ p' ∈ (step b ev).1.checklist, p'.id = id →
          p'.state = .succeeded ∧ p'.nomOnSuccess = p.nomOnSuccess ∧ p'.deferredNom = p.deferredNom) ∧
        (p.nomOnSuccess = false → (step b ev).1.selected = b.selected) ∧
        (∀ v, p.nomOnSuccess = true → p.deferredNom = some v →
          (step b ev).1.selected =
            match b.lastNomination with
            | some last => if v < last then b.selected else some id
            | none => b.selected)) :
    BInv nat issued acc (step b ev).1 := by
  obtain ⟨p, hp, hpid, hq, hex, hsel0, hselv⟩ := hA
  have hmono : ∀ l, b.lastNomination = some l → ∃ l', (step b ev).1.lastNomination = some l' ∧ l ≤ l' :=
    fun l hl => ⟨l, hlast ▸ hl, Nat.le_refl _⟩
  refine ⟨by rw [hlast]; exact hb.lastB, ?_, ?_⟩
  · intro v lb rb hacc
    obtain ⟨hiss, id0, haddr0, hJ, huniq⟩ := hb.accB v lb rb hacc
    have hlv : b.lastNomination = some v := by rw [hb.lastB, hacc]; rfl
    -- the new selection when the answered pair carries a deferred mark
    have hnew : p.nomOnSuccess = true → ∃ v', p.deferredNom = some v' ∧ v' ≤ v ∧
        (step b ev).1.selected = if v' < v then b.selected else some id := by
      intro hn
      obtain ⟨v', hv'⟩ := Option.isSome_iff_exists.mp ((hb.defB p hp).1 hn)
      obtain ⟨l, hl1, hl2⟩ := (hb.defB p hp).2 v' hv'
      rw [hlv] at hl1
      cases hl1
      refine ⟨v', hv', hl2, ?_⟩
      have := hselv v' hn hv'
      rw [hlv] at this
      exact this
    refine ⟨hiss, id0, hq.addrs _ _ haddr0, ?_, ?_⟩
    · by_cases hid : id = id0
      · -- the answered pair is the carrier
        subst hid
        left
        rcases hJ with hsel | ⟨q0, hq0, hq0id, hq0nk⟩
        · cases hn : p.nomOnSuccess with
          | false => rw [hsel0 hn]; exact hsel
          | true =>
            obtain ⟨v', _, _, hs⟩ := hnew hn
            rw [hs]
            split
            · exact hsel
            · rfl
        · have hpq : q0 = p := ids_unique hi hq0 hp (hq0id.trans hpid.symm)
          subst hpq
          unfold nk at hq0nk
          simp only [Prod.mk.injEq] at hq0nk
          have hs := hselv v hq0nk.2.1 hq0nk.2.2
          rw [hlv] at hs
          simpa using hs
      · rcases hJ with hsel | ⟨q0, hq0, hq0id, hq0nk⟩
        · left
          cases hn : p.nomOnSuccess with
          | false => rw [hsel0 hn]; exact hsel
          | true =>
            obtain ⟨v', hv', hle, hs⟩ := hnew hn
            rw [hs]
            split
            · exact hsel
            · have : v' = v := by omega
              subst this
              exact absurd ((huniq p hp hv').symm.trans hpid) (fun h => hid h.symm)
        · right
          obtain ⟨q0', hq0', hid', hnk'⟩ := hq.keep hi hq0 (by rw [hq0id]; simpa using fun h => hid h.symm)
          exact ⟨q0', hq0', hid'.trans hq0id, hnk'.trans hq0nk⟩
    · intro p' hp' hv
      by_cases hid : p'.id = id
      · have := (hex p' hp' hid).2.2
        rw [this] at hv
        rw [hid, ← hpid]
        exact huniq p hp hv
      · obtain ⟨p1, hp1, hp1id, hp1v⟩ := hq.carrier hp' (by simpa using hid) hv
        rw [← hp1id]
        exact huniq p1 hp1 hp1v
  · intro p' hp'
    by_cases hid : p'.id = id
    · obtain ⟨_, h1, h2⟩ := hex p' hp' hid
      exact (hb.defB p hp).of_marks h1 h2 hmono
    · exact hq.marks hb.defB hmono hp' (by simpa using hid)

/-- nothing nomination-relevant happens at B -/
theorem binv_quiet {nat : List (Nat × Nat)} {issued : List Nomination} {acc : Option Nomination} {b : Agent}
    (hb : BInv nat issued acc b) (hi : AgentC06.Inv b) (ev : Ev)
    (hlast : (step b ev).1.lastNomination = b.lastNomination) (hq : NomQ none none b (step b ev).1) :
    BInv nat issued acc (step b ev).1 := by
  have hmono : ∀ l, b.lastNomination = some l → ∃ l', (step b ev).1.lastNomination = some l' ∧ l ≤ l' :=
    fun l hl => ⟨l, hlast ▸ hl, Nat.le_refl _⟩
  have hsel : (step b ev).1.selected = b.selected := by
    rcases hq.sel with h | ⟨_, h⟩
    · exact h
    · cases h
  refine ⟨by rw [hlast]; exact hb.lastB, ?_, ?_⟩
  · intro v lb rb hacc
    obtain ⟨hiss, id0, haddr0, hJ, huniq⟩ := hb.accB v lb rb hacc
    refine ⟨hiss, id0, hq.addrs _ _ haddr0, ?_, ?_⟩
    · rcases hJ with h | ⟨q0, hq0, hq0id, hq0nk⟩
      · exact Or.inl (hsel.trans h)
      · obtain ⟨q0', hq0', hid', hnk'⟩ := hq.keep hi hq0 (by simp)
        exact Or.inr ⟨q0', hq0', hid'.trans hq0id, hnk'.trans hq0nk⟩
    · intro p' hp' hv
      obtain ⟨p1, hp1, hp1id, hp1v⟩ := hq.carrier hp' (by simp) hv
      rw [← hp1id]
      exact huniq p1 hp1 hp1v
  · intro p' hp'
    exact hq.marks hb.defB hmono hp' (by simp)

end IceProofs.C20S
