import IceProofs.TcpMuxViewOps
import IceProofs.TcpMuxSimEnd
/-!
# C15: the model side of the driver is accepted by the string monitor on EVERY sequence of input lines
-/
namespace IceProofs.TcpMuxView
open IceSpec.LineProto IceProofs.LineProto IceSpec.C15 IceSpec.C15.View IceModel.TcpMux IceProofs.TcpMux

/-- model state of the driver and state of the monitor copy fed with the model's output agree -/
def DOk (ms : Option State) (m : Mon) : Prop :=
  match ms with
  | some s => Sim s m ∧ Good s
  | none => m.active = false

theorem observeT_skip_inactive (m : Mon) (op : MOp) (h : m.active = false) :
    (observeT m op .skip).2 = none ∧ (observeT m op .skip).1.active = false := by
  cases op <;> simp [observeT, h]

theorem observeT_any_inactive (m : Mon) (op : MOp) (l : Line) (h : m.active = false)
    (h1 : ∀ a b, op ≠ .start a b) (h2 : op ≠ .reset) : observeT m op l = (m, none) := by
  cases op <;> simp_all [observeT]

theorem observeT_skip_active (m : Mon) (op : MOp) (h1 : ∀ a b, op ≠ .start a b) (h2 : op ≠ .reset) :
    observeT m op .skip = (m, none) := by
  cases op <;> simp_all [observeT]

theorem parseToks_start_shape (toks : List String) (a b : Nat) (h : parseToks toks = .start a b) :
    ∃ cap wbuf t1 t2, toks = ["new", cap, wbuf, t1, t2] := by
  unfold parseToks at h
  split at h
  case h_1 => exact ⟨_, _, _, _, rfl⟩
  all_goals (first | (cases h; done) | (repeat' (split at h)) <;> cases h)

theorem parseToks_reset_shape (toks : List String) (h : parseToks toks = .reset) :
    (∃ cap wbuf t1 t2, toks = ["new", cap, wbuf, t1, t2]) ∨ ∃ n bad, toks = ["multi", n, bad] := by
  unfold parseToks at h
  split at h
  case h_1 => exact Or.inl ⟨_, _, _, _, rfl⟩
  case h_2 => exact Or.inr ⟨_, _, rfl⟩
  all_goals (first | (cases h; done) | (repeat' (split at h)) <;> cases h)

theorem mopOf_ne_start (op : Op) (a b : Nat) : mopOf op ≠ .start a b := by cases op <;> simp [mopOf]
theorem mopOf_ne_reset (op : Op) : mopOf op ≠ .reset := by cases op <;> simp [mopOf]

theorem parseLine_bad : parseLine "bad-op" = .skip := by decide
theorem parseLine_nosession : parseLine "no-session" = .skip := by decide

theorem observeT_finish_active (m : Mon) (s : State) (h : m.active = true) :
    (observeT m .finish (endLine s)).1.active = false := by
  unfold endLine
  simp [observeT, h, finish]

/-- ONE input line: the monitor copy accepts the model's output and the agreement is kept -/
theorem modelStep_ok (ms : Option State) (m : Mon) (toks : List String) (h : DOk ms m) :
    (observe m toks (modelStep ms toks).2).2 = none ∧
    DOk (modelStep ms toks).1 (observe m toks (modelStep ms toks).2).1 := by
  unfold modelStep
  split
  · -- new
    rename_i cap wbuf t1 t2
    split
    · rename_i c w a b hc hw ha hb
      unfold observe
      rw [parseToks_new cap wbuf t1 t2 a b ha hb, parseLine_printedStart]
      exact ⟨(start_sim ⟨c, w > 0, a, b⟩).1, (start_sim ⟨c, w > 0, a, b⟩).2, good_init _⟩
    · unfold observe
      rw [parseLine_bad]
      have : observeT m (parseToks ["new", cap, wbuf, t1, t2]) .skip = ({}, none) := by
        simp only [parseToks]; split <;> rfl
      rw [this]; exact ⟨rfl, rfl⟩
  · -- multi
    rename_i n bad
    have hr : ∀ l, observe m ["multi", n, bad] l = ({}, none) := fun l => rfl
    have hn : ∀ x : Option State × String, x.1 = none →
        (observe m ["multi", n, bad] x.2).2 = none ∧ DOk x.1 (observe m ["multi", n, bad] x.2).1 := by
      intro x hx; rw [hr, hx]; exact ⟨rfl, rfl⟩
    apply hn
    split
    · split <;> rfl
    · rfl
  · -- end
    have hp : parseToks ["end"] = .finish := rfl
    cases ms with
    | none =>
      unfold observe
      rw [hp, observeT_any_inactive m .finish _ h (by intro a b; simp) (by simp)]
      exact ⟨rfl, h⟩
    | some s =>
      unfold observe
      show (observeT m (parseToks ["end"]) (parseLine (printedEnd s))).2 = none ∧
        DOk none (observeT m (parseToks ["end"]) (parseLine (printedEnd s))).1
      rw [hp, parseLine_printedEnd]
      exact ⟨finish_ok h.1 h.2, observeT_finish_active m s h.1.u.active⟩
  · -- an operation
    rename_i hnew hmulti hend
    cases ms with
    | none =>
      unfold observe
      show (observeT m (parseToks toks) (parseLine "no-session")).2 = none ∧
        DOk none (observeT m (parseToks toks) (parseLine "no-session")).1
      rw [parseLine_nosession]
      exact observeT_skip_inactive m _ h
    | some s =>
      have hstart : ∀ a b, parseToks toks ≠ .start a b := by
        intro a b he
        obtain ⟨c, w, t1, t2, rfl⟩ := parseToks_start_shape toks a b he
        exact hnew _ _ _ _ rfl
      have hreset : parseToks toks ≠ .reset := by
        intro he
        rcases parseToks_reset_shape toks he with ⟨c, w, t1, t2, rfl⟩ | ⟨n, b, rfl⟩
        · exact hnew _ _ _ _ rfl
        · exact hmulti _ _ rfl
      show (observe m toks (match parseOp s toks with
          | none => (some s, "bad-op")
          | some op => match (step s op).2 with
            | .bad => (some s, "bad-op")
            | _ => (some (step s op).1, printedLine s op)).2).2 = none ∧
        DOk (match parseOp s toks with
          | none => (some s, "bad-op")
          | some op => match (step s op).2 with
            | .bad => (some s, "bad-op")
            | _ => (some (step s op).1, printedLine s op)).1 (observe m toks (match parseOp s toks with
          | none => (some s, "bad-op")
          | some op => match (step s op).2 with
            | .bad => (some s, "bad-op")
            | _ => (some (step s op).1, printedLine s op)).2).1
      cases hp : parseOp s toks with
      | none =>
        simp only [observe, parseLine_bad, observeT_skip_active m _ hstart hreset]
        exact ⟨trivial, h⟩
      | some op =>
        have hv := parseToks_of_parseOp s toks op hp
        simp only
        cases hr : (step s op).2 with
        | bad =>
          simp only [observe, parseLine_bad, observeT_skip_active m _ hstart hreset]
          exact ⟨trivial, h⟩
        | _ =>
          simp only [observe, hv, parseLine_printedLine]
          exact ⟨(step_sim h.1 h.2 op).1, (step_sim h.1 h.2 op).2, good_step h.2 op⟩

theorem driverRun_ok (ms : Option State) (m : Mon) (h : DOk ms m) (input : List (List String)) :
    ∀ v ∈ driverRun ms m input, v = none := by
  induction input generalizing ms m with
  | nil => intro v hv; cases hv
  | cons toks rest ih =>
    intro v hv
    obtain ⟨h1, h2⟩ := modelStep_ok ms m toks h
    simp only [driverRun, List.mem_cons] at hv
    rcases hv with rfl | hv
    · exact h1
    · exact ih _ _ h2 v hv

end IceProofs.TcpMuxView
