import IceProofs.AgentC06Timers
import IceProofs.AgentC06Struct
/-!
# C06 — `addCandidate` (local) and `addRemoteCandidate` with peer-reflexive supersession

The supersession loop is characterised *exactly*: after `replaceRemoteInPairs` (and after the whole loop over the
superseded candidates) the checklist is the old checklist mapped through `retarget`.
-/
namespace IceProofs.AgentC06
open IceModel.AgentCore

/-- what supersession does to one pair: if its remote is one of the superseded candidates `S`, point it at `cu`,
freeze the priority, and (as `setSelectedPair` does) mark it nominated when it is the selected pair -/
def retarget (sel : Option Nat) (prio : Pair → Nat) (S : List Nat) (cu : Nat) (p : Pair) : Pair :=
  if S.contains p.r then
    { p with r := cu, prioOverride := some (prio p), nominated := p.nominated || (sel == some p.id) }
  else p

/-- everything but the checklist is untouched (the connection state may become Connected by re-selection) -/
structure RestSame (a b : Agent) : Prop where
  locals : b.locals = a.locals
  remotes : b.remotes = a.remotes
  caches : b.caches = a.caches
  nextUid : b.nextUid = a.nextUid
  nextPairID : b.nextPairID = a.nextPairID
  cfg : b.cfg = a.cfg
  closed : b.closed = a.closed
  selected : b.selected = a.selected
  nominatedPair : b.nominatedPair = a.nominatedPair
  pending : b.pending = a.pending
  connState : b.connState = a.connState ∨ (b.connState = .connected ∧ b.selected.isSome)

theorem RestSame.refl (a : Agent) : RestSame a a := ⟨rfl, rfl, rfl, rfl, rfl, rfl, rfl, rfl, rfl, rfl, Or.inl rfl⟩

theorem RestSame.trans {a b c : Agent} (h1 : RestSame a b) (h2 : RestSame b c) : RestSame a c :=
  ⟨h2.locals.trans h1.locals, h2.remotes.trans h1.remotes, h2.caches.trans h1.caches,
   h2.nextUid.trans h1.nextUid, h2.nextPairID.trans h1.nextPairID, h2.cfg.trans h1.cfg,
   h2.closed.trans h1.closed, h2.selected.trans h1.selected, h2.nominatedPair.trans h1.nominatedPair,
   h2.pending.trans h1.pending, by
     rcases h2.connState with h | h
     · rcases h1.connState with h' | ⟨h', hs⟩
       · exact Or.inl (h.trans h')
       · exact Or.inr ⟨h.trans h', h2.selected ▸ hs⟩
     · exact Or.inr h⟩

theorem pairPrio_congr {a b : Agent} (hl : b.locals = a.locals) (hr : b.remotes = a.remotes) (p : Pair) :
    b.pairPrio p = a.pairPrio p := by
  unfold Agent.pairPrio Agent.localOf Agent.remoteOf
  rw [hl, hr]

theorem pair_unique {l : List Pair} {id : Nat} {p q : Pair} (hn : (l.map (·.id)).Nodup)
    (hf : l.find? (·.id == id) = some p) (hq : q ∈ l) (hid : q.id = id) : q = p := by
  induction l with
  | nil => cases hq
  | cons x xs ih =>
    simp only [List.map_cons, List.nodup_cons, List.mem_map, not_exists, not_and] at hn
    rw [List.find?_cons] at hf
    by_cases hx : x.id = id
    · simp [hx] at hf
      subst hf
      rcases List.mem_cons.1 hq with h | h
      · exact h
      · exact absurd (hid.trans hx.symm) (hn.1 q h)
    · have : (x.id == id) = false := by simpa using hx
      rw [this] at hf
      rcases List.mem_cons.1 hq with h | h
      · subst h; exact absurd hid hx
      · exact ih hn.2 hf h

/-- the loop body of `replaceRemoteInPairs` -/
def rripBody (old c : Cand) (acc : Agent × List Out) (id : Nat) : Agent × List Out :=
  let (a, o) := acc
  match a.pairById id with
  | some p =>
    if p.r == old.uid then
      let oldPrio := a.pairPrio p
      let a := a.modPair id fun p => { p with r := c.uid, prioOverride := some oldPrio }
      if a.selected == some id then
        let (a, o') := a.select id
        (a, o ++ o')
      else (a, o)
    else (a, o)
  | none => (a, o)

theorem rrip_eq (a : Agent) (old c : Cand) :
    a.replaceRemoteInPairs old c = (a.checklist.map (·.id)).foldl (rripBody old c) (a, []) := rfl

theorem select_spec (a : Agent) (id : Nat) :
    (a.select id).1.checklist = updPair a.checklist id (fun p => { p with nominated := true }) ∧
    (a.select id).1.locals = a.locals ∧ (a.select id).1.remotes = a.remotes ∧
    (a.select id).1.caches = a.caches ∧ (a.select id).1.nextUid = a.nextUid ∧
    (a.select id).1.nextPairID = a.nextPairID ∧ (a.select id).1.cfg = a.cfg ∧
    (a.select id).1.closed = a.closed ∧ (a.select id).1.selected = some id ∧
    (a.select id).1.nominatedPair = a.nominatedPair ∧ (a.select id).1.pending = a.pending ∧
    ((a.select id).1.connState = a.connState ∨ (a.select id).1.connState = .connected) := by
  unfold Agent.select
  simp only []
  rw [setConnState_ne_failed _ _ (by simp)]
  split
  · simp [Agent.modPair]
  · simp [Agent.modPair]

theorem rripBody_spec (old c : Cand) (a : Agent) (o : List Out) (id : Nat) (hn : (idsOf a).Nodup) :
    (rripBody old c (a, o) id).1.checklist =
        a.checklist.map (fun q => if q.id = id then retarget a.selected a.pairPrio [old.uid] c.uid q else q) ∧
      RestSame a (rripBody old c (a, o) id).1 := by
  unfold rripBody
  simp only []
  split
  · rename_i p hp
    have huniq : ∀ q ∈ a.checklist, q.id = id → q = p := fun q hq hid => pair_unique hn hp hq hid
    split
    · rename_i hr
      have hr' : p.r = old.uid := by simpa using hr
      split
      · rename_i hsel
        have hsel' : a.selected = some id := by simpa [Agent.modPair] using hsel
        obtain ⟨h1, h2, h3, h4, h5, h6, h7, h8, h9, h10, h11, h12⟩ :=
          select_spec (a.modPair id fun q => { q with r := c.uid, prioOverride := some (a.pairPrio p) }) id
        generalize Agent.select _ id = sel at *
        obtain ⟨b, o'⟩ := sel
        simp only [] at *
        refine ⟨?_, ⟨h2, h3, h4, h5, h6, h7, h8, by rw [h9, hsel'], h10, h11, ?_⟩⟩
        · rw [h1]
          simp only [Agent.modPair, updPair, List.map_map]
          apply List.map_congr_left
          intro q hq
          simp only [Function.comp]
          by_cases hid : q.id = id
          · have := huniq q hq hid
            subst this
            simp [hid, retarget, hr', hsel']
          · simp [hid]
        · rcases h12 with h | h
          · exact Or.inl h
          · exact Or.inr ⟨h, by rw [h9]; rfl⟩
      · rename_i hsel
        have hsel' : a.selected ≠ some id := by simpa [Agent.modPair] using hsel
        refine ⟨?_, ⟨rfl, rfl, rfl, rfl, rfl, rfl, rfl, rfl, rfl, rfl, Or.inl rfl⟩⟩
        simp only [Agent.modPair, updPair]
        apply List.map_congr_left
        intro q hq
        by_cases hid : q.id = id
        · have := huniq q hq hid
          subst this
          simp [hid, retarget, hr']
          intro h; exact absurd h hsel'
        · simp [hid]
    · rename_i hr
      have hr' : p.r ≠ old.uid := by simpa using hr
      refine ⟨?_, RestSame.refl a⟩
      symm
      rw [List.map_congr_left (g := fun q => q), List.map_id']
      intro q hq
      by_cases hid : q.id = id
      · have := huniq q hq hid
        subst this
        simp [hid, retarget, hr']
      · simp [hid]
  · rename_i hp
    refine ⟨?_, RestSame.refl a⟩
    symm
    rw [List.map_congr_left (g := fun q => q), List.map_id']
    intro q hq
    have : q.id ≠ id := by
      unfold Agent.pairById at hp
      have := List.find?_eq_none.1 hp q hq
      simpa using this
    simp [this]

@[simp] theorem retarget_id (sel prio S cu) (p : Pair) : (retarget sel prio S cu p).id = p.id := by
  unfold retarget; split <;> rfl

@[simp] theorem retarget_l (sel prio S cu) (p : Pair) : (retarget sel prio S cu p).l = p.l := by
  unfold retarget; split <;> rfl

theorem idsOf_of_map {a b : Agent} {g : Pair → Pair} (h : b.checklist = a.checklist.map g)
    (hg : ∀ p, (g p).id = p.id) : idsOf b = idsOf a := by
  simp [idsOf, h, List.map_map, Function.comp_def, hg]

theorem rrip_fold (old c : Cand) :
    ∀ (is : List Nat) (a : Agent) (o : List Out), is.Nodup → (idsOf a).Nodup →
      (is.foldl (rripBody old c) (a, o)).1.checklist =
          a.checklist.map (fun p => if is.contains p.id then
            retarget a.selected a.pairPrio [old.uid] c.uid p else p) ∧
        RestSame a (is.foldl (rripBody old c) (a, o)).1 := by
  intro is
  induction is with
  | nil => intro a o _ _; simp [RestSame.refl]
  | cons i is ih =>
    intro a o his hn
    rw [List.foldl_cons]
    obtain ⟨h1, h2⟩ := rripBody_spec old c a o i hn
    generalize rripBody old c (a, o) i = b at h1 h2
    obtain ⟨b, o'⟩ := b
    simp only [] at h1 h2
    have hidb : idsOf b = idsOf a := idsOf_of_map h1 (by intro p; split <;> simp)
    rw [List.nodup_cons] at his
    obtain ⟨h3, h4⟩ := ih b o' his.2 (hidb ▸ hn)
    refine ⟨?_, h2.trans h4⟩
    rw [h3, h1, List.map_map]
    have hpp : b.pairPrio = a.pairPrio := funext (pairPrio_congr h2.locals h2.remotes)
    rw [hpp, h2.selected]
    apply List.map_congr_left
    intro p _
    simp only [Function.comp]
    by_cases hid : p.id = i
    · have : is.contains p.id = false := by
        rw [hid]; simpa using his.1
      simp [hid]
      intro hc; rw [← hid] at hc
      have : is.contains p.id = true := by simpa using hc
      simp_all
    · have : ((i :: is).contains p.id) = is.contains p.id := by
        simp [hid]
      simp [hid]

theorem retarget_of_mem (sel prio S cu) (p : Pair) (h : List.contains S p.r = true) :
    retarget sel prio S cu p =
      { p with r := cu, prioOverride := some (prio p), nominated := p.nominated || (sel == some p.id) } := by
  unfold retarget; rw [if_pos h]

theorem retarget_of_not_mem (sel prio S cu) (p : Pair) (h : List.contains S p.r = false) :
    retarget sel prio S cu p = p := by
  unfold retarget; rw [if_neg (by rw [h]; simp)]

/-- `replaceRemoteInPairs old c`, exactly -/
theorem rrip_spec (a : Agent) (old c : Cand) (hn : (idsOf a).Nodup) :
    (a.replaceRemoteInPairs old c).1.checklist =
        a.checklist.map (retarget a.selected a.pairPrio [old.uid] c.uid) ∧
      RestSame a (a.replaceRemoteInPairs old c).1 := by
  rw [rrip_eq]
  have hn' : (a.checklist.map (·.id)).Nodup := hn
  obtain ⟨h1, h2⟩ := rrip_fold old c (a.checklist.map (·.id)) a [] hn' hn
  refine ⟨?_, h2⟩
  rw [h1]
  apply List.map_congr_left
  intro p hp
  have : (a.checklist.map (·.id)).contains p.id = true := by
    simp only [List.contains_iff_mem]
    exact List.mem_map_of_mem hp
  simp only [this, if_true]

/-- the supersession loop body of `addRemoteCandidate` -/
def supBody (c : Cand) (acc : Agent × List Out) (old : Cand) : Agent × List Out :=
  let r := acc.1.replaceRemoteInPairs old c
  let a : Agent := r.1
  let a : Agent := { a with caches := a.caches.map fun (x : Nat × Nat × Nat) =>
    if x.2.2 == old.uid then (x.1, x.2.1, c.uid) else x }
  (a, acc.2 ++ r.2)

/-- like `RestSame`, caches aside -/
structure RestSameC (a b : Agent) : Prop where
  locals : b.locals = a.locals
  remotes : b.remotes = a.remotes
  nextUid : b.nextUid = a.nextUid
  nextPairID : b.nextPairID = a.nextPairID
  cfg : b.cfg = a.cfg
  closed : b.closed = a.closed
  selected : b.selected = a.selected
  nominatedPair : b.nominatedPair = a.nominatedPair
  pending : b.pending = a.pending
  connState : b.connState = a.connState ∨ (b.connState = .connected ∧ b.selected.isSome)

theorem RestSame.c {a b : Agent} (h : RestSame a b) : RestSameC a b :=
  ⟨h.locals, h.remotes, h.nextUid, h.nextPairID, h.cfg, h.closed, h.selected, h.nominatedPair, h.pending,
   h.connState⟩

theorem RestSameC.refl (a : Agent) : RestSameC a a := (RestSame.refl a).c

theorem RestSameC.trans {a b c : Agent} (h1 : RestSameC a b) (h2 : RestSameC b c) : RestSameC a c :=
  ⟨h2.locals.trans h1.locals, h2.remotes.trans h1.remotes,
   h2.nextUid.trans h1.nextUid, h2.nextPairID.trans h1.nextPairID, h2.cfg.trans h1.cfg,
   h2.closed.trans h1.closed, h2.selected.trans h1.selected, h2.nominatedPair.trans h1.nominatedPair,
   h2.pending.trans h1.pending, by
     rcases h2.connState with h | h
     · rcases h1.connState with h' | ⟨h', hs⟩
       · exact Or.inl (h.trans h')
       · exact Or.inr ⟨h.trans h', h2.selected ▸ hs⟩
     · exact Or.inr h⟩

theorem sup_fold (c : Cand) :
    ∀ (olds : List Cand) (a : Agent) (o : List Out), (idsOf a).Nodup → c.uid ∉ olds.map (·.uid) →
      (olds.foldl (supBody c) (a, o)).1.checklist =
          a.checklist.map (retarget a.selected a.pairPrio (olds.map (·.uid)) c.uid) ∧
        (olds.foldl (supBody c) (a, o)).1.caches = a.caches.map (recache (olds.map (·.uid)) c.uid) ∧
        RestSameC a (olds.foldl (supBody c) (a, o)).1 := by
  intro olds
  induction olds with
  | nil =>
    intro a o _ _
    have h1 : retarget a.selected a.pairPrio [] c.uid = fun p => p := by funext p; simp [retarget]
    have h2 : recache [] c.uid = fun x => x := by funext x; simp [recache]
    simp [h1, h2, RestSameC.refl]
  | cons old olds ih =>
    intro a o hn hc
    rw [List.foldl_cons]
    obtain ⟨h1, h2⟩ := rrip_spec a old c hn
    simp only [List.map_cons, List.mem_cons, not_or] at hc
    have hb : ∃ b o', supBody c (a, o) old = (b, o') ∧
        b.checklist = a.checklist.map (retarget a.selected a.pairPrio [old.uid] c.uid) ∧
        b.caches = a.caches.map (recache [old.uid] c.uid) ∧ RestSameC a b := by
      refine ⟨_, _, rfl, h1, ?_, ?_⟩
      · simp only [h2.caches]
        apply List.map_congr_left
        intro x _
        simp [recache]
      · exact ⟨h2.locals, h2.remotes, h2.nextUid, h2.nextPairID, h2.cfg, h2.closed, h2.selected,
          h2.nominatedPair, h2.pending, h2.connState⟩
    obtain ⟨b, o', hbe, hb1, hb2, hb3⟩ := hb
    rw [hbe]
    have hidb : idsOf b = idsOf a := idsOf_of_map hb1 (by simp)
    obtain ⟨h3, h4, h5⟩ := ih b o' (hidb ▸ hn) hc.2
    refine ⟨?_, ?_, hb3.trans h5⟩
    · rw [h3, hb1, List.map_map]
      have hpp : b.pairPrio = a.pairPrio := funext (pairPrio_congr hb3.locals hb3.remotes)
      rw [hpp, hb3.selected]
      apply List.map_congr_left
      intro p _
      simp only [Function.comp, List.map_cons]
      have hcu : (olds.map (·.uid)).contains c.uid = false := by
        cases h : (olds.map (·.uid)).contains c.uid with
        | false => rfl
        | true => exact absurd (List.contains_iff_mem.1 h) hc.2
      by_cases hr : p.r = old.uid
      · have h1 : [old.uid].contains p.r = true := by simp [hr]
        have h2 : (old.uid :: olds.map (·.uid)).contains p.r = true := by simp [hr]
        rw [retarget_of_mem _ _ _ _ _ h1, retarget_of_mem _ _ _ _ _ h2, retarget_of_not_mem _ _ _ _ _ hcu]
      · have h1 : [old.uid].contains p.r = false := by simpa using hr
        rw [retarget_of_not_mem _ _ _ _ _ h1]
        have h2 : (old.uid :: olds.map (·.uid)).contains p.r = (olds.map (·.uid)).contains p.r := by
          rw [List.contains_cons]; simp [hr]
        unfold retarget
        rw [h2]
    · rw [h4, hb2, List.map_map]
      apply List.map_congr_left
      intro x _
      simp only [Function.comp, List.map_cons]
      have hcu : (olds.map (·.uid)).contains c.uid = false := by
        cases h : (olds.map (·.uid)).contains c.uid with
        | false => rfl
        | true => exact absurd (List.contains_iff_mem.1 h) hc.2
      by_cases hr : x.2.2 = old.uid
      · have h1 : [old.uid].contains x.2.2 = true := by simp [hr]
        have h2 : (old.uid :: olds.map (·.uid)).contains x.2.2 = true := by simp [hr]
        simp only [recache, h1, h2, if_true, hcu]
        simp
      · have h1 : [old.uid].contains x.2.2 = false := by simpa using hr
        have h2 : (old.uid :: olds.map (·.uid)).contains x.2.2 = (olds.map (·.uid)).contains x.2.2 := by
          rw [List.contains_cons]; simp [hr]
        simp only [recache, h1, h2]
        simp

/-! ## `addRemoteCandidate` in stages -/

def arcC0 (a : Agent) (c : Cand) : Cand := { c with uid := a.nextUid }

def arcReplaced (a : Agent) (c : Cand) : List Cand :=
  if (arcC0 a c).ty == 3 then []
  else a.remotes.filter fun e => e.net == (arcC0 a c).net && e.ty == 3 && e.taEqual (arcC0 a c)

def arcC (a : Agent) (c : Cand) : Cand := (arcReplaced a c).foldl copyActivity (arcC0 a c)

/-- the new candidate is appended first … -/
def arcA1 (a : Agent) (c : Cand) : Agent :=
  { { a with nextUid := a.nextUid + 1 } with remotes := a.remotes ++ [arcC a c] }

/-- … the pairs and caches of the superseded peer-reflexive candidates are retargeted … -/
def arcA2 (a : Agent) (c : Cand) : Agent × List Out :=
  (arcReplaced a c).foldl (supBody (arcC a c)) (arcA1 a c, [])

/-- … the superseded candidates are dropped … -/
def arcA3 (a : Agent) (c : Cand) : Agent :=
  { (arcA2 a c).1 with remotes := (arcA2 a c).1.remotes.filter fun (e : Cand) =>
      !((arcReplaced a c).any fun (x : Cand) => x.uid == e.uid) }

def pairUp (c : Cand) (a : Agent) (l : Cand) : Agent :=
  match a.findPair l c with
  | some _ => a
  | none => (a.addPair l c).1

/-- … and the new candidate is paired with every local candidate of its network type that has no pair with it -/
def arcA4 (a : Agent) (c : Cand) : Agent :=
  ((arcA3 a c).locals.filter fun (x : Cand) => x.net == (arcC a c).net && (arcC a c).tt != 2).foldl (pairUp (arcC a c)) (arcA3 a c)

theorem arc_eq (a : Agent) (c : Cand) (hb : a.cfg.blockedIPs.contains (ipOf c.addr) = false)
    (hf : (a.remotes.filter (·.net == c.net)).find? (·.equal c) = none) :
    a.addRemoteCandidate c = ((arcA4 a c).requestCheck, (arcA2 a c).2, some (arcC a c)) := by
  unfold Agent.addRemoteCandidate
  rw [if_neg (by rw [hb]; simp)]
  simp only [hf]
  rfl

theorem arc_blocked (a : Agent) (c : Cand) (hb : a.cfg.blockedIPs.contains (ipOf c.addr) = true) :
    a.addRemoteCandidate c = (a, [], none) := by
  unfold Agent.addRemoteCandidate
  rw [if_pos hb]

theorem arc_dup (a : Agent) (c e : Cand) (hb : a.cfg.blockedIPs.contains (ipOf c.addr) = false)
    (hf : (a.remotes.filter (·.net == c.net)).find? (·.equal c) = some e) :
    a.addRemoteCandidate c = (a, [], some e) := by
  unfold Agent.addRemoteCandidate
  rw [if_neg (by rw [hb]; simp)]
  simp only [hf]

/-! ### facts about the stages -/

theorem core_copyActivity (dst src : Cand) : core (copyActivity dst src) = core dst := by
  rcases dst with ⟨_, _, _, _, _, _, _, lr, ls⟩
  rcases src with ⟨_, _, _, _, _, _, _, lr', ls'⟩
  cases lr <;> cases ls <;> cases lr' <;> cases ls' <;> rfl

theorem core_foldl_copyActivity (l : List Cand) (c : Cand) : core (l.foldl copyActivity c) = core c := by
  induction l generalizing c with
  | nil => rfl
  | cons x l ih => rw [List.foldl_cons, ih, core_copyActivity]

theorem core_arcC (a : Agent) (c : Cand) : core (arcC a c) = core (arcC0 a c) :=
  core_foldl_copyActivity _ _

theorem arcC_uid (a : Agent) (c : Cand) : (arcC a c).uid = a.nextUid := by
  have := congrArg Cand.uid (core_arcC a c); simpa [arcC0] using this

theorem arcC_net (a : Agent) (c : Cand) : (arcC a c).net = c.net := by
  have := congrArg Cand.net (core_arcC a c); simpa [arcC0] using this

theorem arcC_addr (a : Agent) (c : Cand) : (arcC a c).addr = c.addr := by
  have := congrArg Cand.addr (core_arcC a c); simpa [arcC0] using this

theorem arcReplaced_mem {a : Agent} {c e : Cand} (h : e ∈ arcReplaced a c) :
    e ∈ a.remotes ∧ e.net = c.net ∧ e.ty = 3 ∧ e.addr = c.addr ∧ c.ty ≠ 3 := by
  unfold arcReplaced at h
  split at h
  · cases h
  · rename_i hty
    rw [List.mem_filter] at h
    obtain ⟨h1, h2⟩ := h
    simp [arcC0, Cand.taEqual] at h2 hty
    exact ⟨h1, h2.1.1, h2.1.2, h2.2.1.2, hty⟩

/-- a superseded candidate carries the tcptype of the superseding one (`transportAddressEqual` compares it) -/
theorem arcReplaced_tt {a : Agent} {c e : Cand} (h : e ∈ arcReplaced a c) : e.tt = c.tt := by
  unfold arcReplaced at h
  split at h
  · cases h
  · rw [List.mem_filter] at h
    obtain ⟨_, h2⟩ := h
    simp [arcC0, Cand.taEqual] at h2
    exact h2.2.2.1

/-- uids of the superseded candidates -/
def arcS (a : Agent) (c : Cand) : List Nat := (arcReplaced a c).map (·.uid)

theorem any_uid_eq (l : List Cand) (u : Nat) : (l.any fun x => x.uid == u) = (l.map (·.uid)).contains u := by
  induction l with
  | nil => rfl
  | cons x l ih =>
    simp only [List.any_cons, List.map_cons, List.contains_cons, ih]
    rw [Bool.beq_comm (a := u)]

theorem key_retarget (sel prio S cu) (p : Pair) : key (retarget sel prio S cu p) = rk S cu (key p) := by
  by_cases h : S.contains p.r = true
  · rw [retarget_of_mem _ _ _ _ _ h]; unfold rk; rw [key_snd_snd, if_pos h]; rfl
  · have h' : S.contains p.r = false := by simpa using h
    rw [retarget_of_not_mem _ _ _ _ _ h']; unfold rk; rw [key_snd_snd, if_neg h]

theorem arcA2_spec (a : Agent) (c : Cand) (h : Inv a) :
    (arcA2 a c).1.checklist =
        a.checklist.map (retarget a.selected (arcA1 a c).pairPrio (arcS a c) a.nextUid) ∧
      (arcA2 a c).1.caches = a.caches.map (recache (arcS a c) a.nextUid) ∧
      RestSameC (arcA1 a c) (arcA2 a c).1 := by
  have hnot : (arcC a c).uid ∉ (arcReplaced a c).map (·.uid) := by
    rw [arcC_uid]
    intro hm
    obtain ⟨e, he, heu⟩ := List.mem_map.1 hm
    have := h.s.uidsLt (core e) (List.mem_append_right _ (mem_rcsOf (arcReplaced_mem he).1))
    simp at this; omega
  have hid : (idsOf (arcA1 a c)).Nodup := by
    have := h.s.idsNodup
    rw [keys_ids] at this
    exact this
  have := sup_fold (arcC a c) (arcReplaced a c) (arcA1 a c) [] hid hnot
  rw [arcC_uid] at this
  exact this

theorem Inv.idsNodup {a : Agent} (h : Inv a) : (idsOf a).Nodup := by
  have := h.s.idsNodup
  rw [keys_ids] at this
  exact this

theorem arcA3_keys (a : Agent) (c : Cand) (h : Inv a) :
    keysOf (arcA3 a c) = (keysOf a).map (rk (arcS a c) a.nextUid) := by
  obtain ⟨h1, _, _⟩ := arcA2_spec a c h
  show (arcA2 a c).1.checklist.map key = _
  rw [h1]
  simp only [keysOf, List.map_map]
  apply List.map_congr_left
  intro p _
  simp [key_retarget]

theorem arcA3_rcs (a : Agent) (c : Cand) (h : Inv a) :
    rcsOf (arcA3 a c) =
      ((rcsOf a) ++ [core (arcC0 a c)]).filter (fun e => !(arcS a c).contains e.uid) := by
  obtain ⟨_, _, h3⟩ := arcA2_spec a c h
  show ((arcA2 a c).1.remotes.filter _).map core = _
  rw [h3.remotes]
  show ((a.remotes ++ [arcC a c]).filter _).map core = _
  have e1 : rcsOf a ++ [core (arcC0 a c)] = (a.remotes ++ [arcC a c]).map core := by
    simp [rcsOf, core_arcC]
  rw [e1, List.filter_map]
  congr 1
  apply List.filter_congr
  intro e _
  simp [any_uid_eq, arcS, Function.comp]

theorem Inv.stage3 {a : Agent} (h : Inv a) (c : Cand) (hc : a.closed = false)
    (hb : a.cfg.blockedIPs.contains (ipOf c.addr) = false)
    (hf : (a.remotes.filter (·.net == c.net)).find? (·.equal c) = none) : Inv (arcA3 a c) := by
  obtain ⟨h1, h2, h3⟩ := arcA2_spec a c h
  have hs : InvS (arcA3 a c) := by
    unfold InvS
    rw [arcA3_keys a c h, arcA3_rcs a c h]
    show StructOK _ (lcsOf (arcA2 a c).1) _ (arcA2 a c).1.caches (arcA2 a c).1.nextUid
      (arcA2 a c).1.nextPairID (arcA2 a c).1.cfg.blockedIPs (arcA2 a c).1.closed
    have hl : lcsOf (arcA2 a c).1 = lcsOf a := by simp [lcsOf, h3.locals, arcA1]
    rw [hl, h2, h3.nextUid, h3.nextPairID, h3.cfg, h3.closed]
    show StructOK _ _ _ _ (a.nextUid + 1) a.nextPairID a.cfg.blockedIPs a.closed
    rw [hc]
    have hs0 := h.s
    unfold InvS at hs0
    rw [hc] at hs0
    refine hs0.supersede (core (arcC0 a c)) (arcS a c) rfl ?_ ?_ hb
    · intro s hs
      obtain ⟨e, he, rfl⟩ := List.mem_map.1 hs
      obtain ⟨he1, he2, _⟩ := arcReplaced_mem he
      exact ⟨core e, mem_rcsOf he1, rfl, he2⟩
    · intro x hx
      obtain ⟨y, hy, rfl⟩ := List.mem_map.1 hx
      rw [core_equal]
      show y.equal c = false
      by_cases hn : y.net = c.net
      · have := List.find?_eq_none.1 hf y (List.mem_filter.2 ⟨hy, by simpa using hn⟩)
        simpa using this
      · simp [Cand.equal, Cand.taEqual, hn]
  refine ⟨hs, ?_, ?_, ?_, ?_⟩
  · intro id hid
    have hsel : (arcA2 a c).1.selected = a.selected := h3.selected
    have : idsOf (arcA3 a c) = idsOf a := idsOf_of_map (a := a) (b := arcA3 a c) h1 (by simp)
    rw [this]
    exact h.c.sel id (hsel ▸ hid)
  · intro id hid p' hp' hpid
    have hsel : (arcA2 a c).1.selected = a.selected := h3.selected
    have hp'' : p' ∈ (arcA2 a c).1.checklist := hp'
    rw [h1] at hp''
    obtain ⟨p, hp, rfl⟩ := List.mem_map.1 hp''
    have hpn := h.c.selNom id (hsel ▸ hid) p hp (by simpa using hpid)
    unfold retarget
    split
    · simp [hpn]
    · exact hpn
  · intro id hid
    have : (arcA2 a c).1.nominatedPair = a.nominatedPair := h3.nominatedPair
    have hnp : (arcA2 a c).1.nextPairID = a.nextPairID := h3.nextPairID
    show id ≤ (arcA2 a c).1.nextPairID
    rw [hnp]
    exact h.c.nomLe id (this ▸ hid)
  · intro id hid
    have hnp : (arcA2 a c).1.nominatedPair = a.nominatedPair := h3.nominatedPair
    have hsel : (arcA2 a c).1.selected = a.selected := h3.selected
    have hids : idsOf (arcA3 a c) = idsOf a := idsOf_of_map (a := a) (b := arcA3 a c) h1 (by simp)
    rw [hids]
    show _ ∨ (arcA2 a c).1.connState = .failed ∨ (arcA2 a c).1.selected.isSome ∨ (arcA2 a c).1.closed = true
    rcases h.c.nom id (hnp ▸ hid) with h4 | h4 | h4 | h4
    · exact Or.inl h4
    · rcases h3.connState with h5 | ⟨_, h5⟩
      · exact Or.inr (Or.inl (h5.trans h4))
      · exact Or.inr (Or.inr (Or.inl h5))
    · exact Or.inr (Or.inr (Or.inl (hsel ▸ h4)))
    · exact Or.inr (Or.inr (Or.inr (h3.closed ▸ h4)))

/-! ### pairing the new candidate -/

theorem pairUp_fold (c' : Cand) (ls : List Cand) (b : Agent) (hi : Inv b) (hc : core c' ∈ rcsOf b)
    (hls : ∀ l ∈ ls, core l ∈ lcsOf b ∧ l.net = c'.net) :
    AddPs b (ls.foldl (pairUp c') b) ∧ Inv (ls.foldl (pairUp c') b) := by
  apply foldl_inv_mem (fun x => AddPs b x ∧ Inv x)
  · exact ⟨.refl, hi⟩
  · intro x l hl ⟨hx, hix⟩
    have hp : AddP x (pairUp c' x l) := by
      unfold pairUp
      split
      · exact .none
      · rename_i hf
        have h1 : core l ∈ lcsOf x := hx.lcs ▸ (hls l hl).1
        have h2 : core c' ∈ rcsOf x := hx.rcs ▸ hc
        exact .add l c' h1 h2 (hls l hl).2 (findPair_none_fresh hix.s h1 h2 hf)
    exact ⟨.step hx hp, hix.addP hp⟩

theorem mem_lcsOf_iff {a : Agent} {x : Cand} : x ∈ lcsOf a ↔ ∃ c ∈ a.locals, core c = x := List.mem_map
theorem mem_rcsOf_iff {a : Agent} {x : Cand} : x ∈ rcsOf a ↔ ∃ c ∈ a.remotes, core c = x := List.mem_map

/-- `addRemoteCandidate` for a new (not filtered, not `Equal` to a current one) candidate -/
theorem arcA4_spec {a : Agent} (h : Inv a) (c : Cand) (hc : a.closed = false)
    (hb : a.cfg.blockedIPs.contains (ipOf c.addr) = false)
    (hf : (a.remotes.filter (·.net == c.net)).find? (·.equal c) = none) :
    AddPs (arcA3 a c) (arcA4 a c) ∧ Inv (arcA4 a c) ∧ core (arcC a c) ∈ rcsOf (arcA3 a c) := by
  have h3 := h.stage3 c hc hb hf
  have hcm : core (arcC a c) ∈ rcsOf (arcA3 a c) := by
    rw [arcA3_rcs a c h, List.mem_filter]
    refine ⟨List.mem_append_right _ (by simp [core_arcC]), ?_⟩
    have : (arcS a c).contains (core (arcC a c)).uid = false := by
      cases hh : (arcS a c).contains (core (arcC a c)).uid with
      | false => rfl
      | true =>
        have hm := List.contains_iff_mem.1 hh
        obtain ⟨e, he, heu⟩ := List.mem_map.1 hm
        have := h.s.uidsLt (core e) (List.mem_append_right _ (mem_rcsOf (arcReplaced_mem he).1))
        rw [core_uid, arcC_uid] at heu
        simp at this; omega
    rw [this]; rfl
  have := pairUp_fold (arcC a c) ((arcA3 a c).locals.filter fun x => x.net == (arcC a c).net && (arcC a c).tt != 2) (arcA3 a c) h3 hcm
    (by
      intro l hl
      rw [List.mem_filter] at hl
      exact ⟨mem_lcsOf hl.1, by have := hl.2; simp only [Bool.and_eq_true, beq_iff_eq] at this; exact this.1⟩)
  exact ⟨this.1, this.2, hcm⟩

/-- `addRemoteCandidate` preserves the invariant; an accepted candidate is a current remote candidate afterwards -/
theorem Inv.addRemoteCandidate {a : Agent} (h : Inv a) (c : Cand) (hc : a.closed = false) :
    Inv (a.addRemoteCandidate c).1 ∧ lcsOf (a.addRemoteCandidate c).1 = lcsOf a ∧
      ∀ r, (a.addRemoteCandidate c).2.2 = some r →
        core r ∈ rcsOf (a.addRemoteCandidate c).1 ∧ r.net = c.net ∧ r.addr = c.addr := by
  cases hb : a.cfg.blockedIPs.contains (ipOf c.addr) with
  | true =>
    rw [arc_blocked a c hb]
    exact ⟨h, rfl, fun r hr => by simp at hr⟩
  | false =>
    cases hf : (a.remotes.filter (·.net == c.net)).find? (·.equal c) with
    | some e =>
      rw [arc_dup a c e hb hf]
      refine ⟨h, rfl, fun r hr => ?_⟩
      have : e = r := by simpa using hr
      subst this
      have hm := List.mem_of_find?_eq_some hf
      have he := List.find?_some hf
      rw [List.mem_filter] at hm
      simp [Cand.equal, Cand.taEqual] at he
      exact ⟨mem_rcsOf hm.1, by simpa using hm.2, he.1.1.1.2⟩
    | none =>
      rw [arc_eq a c hb hf]
      obtain ⟨h1, h2, h3⟩ := arcA4_spec h c hc hb hf
      obtain ⟨_, _, h5⟩ := arcA2_spec a c h
      refine ⟨h2.same (Same.of_fields rfl rfl rfl rfl rfl rfl rfl rfl rfl rfl rfl), ?_, ?_⟩
      · show lcsOf (arcA4 a c) = lcsOf a
        rw [h1.lcs]
        show (arcA2 a c).1.locals.map core = _
        rw [h5.locals]; rfl
      · intro r hr
        have : arcC a c = r := by simpa using hr
        subst this
        refine ⟨?_, arcC_net a c, arcC_addr a c⟩
        show core (arcC a c) ∈ rcsOf (arcA4 a c)
        rw [h1.rcs]; exact h3

/-- what `addRemoteCandidate` / `addPair` leave alone -/
structure Frame (a b : Agent) : Prop where
  locals : b.locals = a.locals
  cfg : b.cfg = a.cfg
  closed : b.closed = a.closed
  selected : b.selected = a.selected
  nominatedPair : b.nominatedPair = a.nominatedPair
  pending : b.pending = a.pending
  connState : b.connState = a.connState ∨ (b.connState = .connected ∧ b.selected.isSome)

theorem Frame.refl (a : Agent) : Frame a a := ⟨rfl, rfl, rfl, rfl, rfl, rfl, Or.inl rfl⟩

theorem Frame.trans {a b c : Agent} (h1 : Frame a b) (h2 : Frame b c) : Frame a c :=
  ⟨h2.locals.trans h1.locals, h2.cfg.trans h1.cfg, h2.closed.trans h1.closed,
   h2.selected.trans h1.selected, h2.nominatedPair.trans h1.nominatedPair, h2.pending.trans h1.pending, by
     rcases h2.connState with h | h
     · rcases h1.connState with h' | ⟨h', hs⟩
       · exact Or.inl (h.trans h')
       · exact Or.inr ⟨h.trans h', h2.selected ▸ hs⟩
     · exact Or.inr h⟩

theorem AddP.frame {a b : Agent} (p : AddP a b) : Frame a b := by
  cases p with
  | none => exact Frame.refl a
  | add l r _ _ _ _ => exact ⟨rfl, rfl, rfl, rfl, rfl, rfl, Or.inl rfl⟩

theorem AddPs.frame {a b : Agent} (p : AddPs a b) : Frame a b := by
  induction p with
  | refl => exact Frame.refl a
  | step _ p ih => exact ih.trans p.frame

theorem arc_frame {a : Agent} (h : Inv a) (c : Cand) (hc : a.closed = false) :
    Frame a (a.addRemoteCandidate c).1 := by
  cases hb : a.cfg.blockedIPs.contains (ipOf c.addr) with
  | true => rw [arc_blocked a c hb]; exact Frame.refl a
  | false =>
    cases hf : (a.remotes.filter (·.net == c.net)).find? (·.equal c) with
    | some e => rw [arc_dup a c e hb hf]; exact Frame.refl a
    | none =>
      rw [arc_eq a c hb hf]
      obtain ⟨h1, _, _⟩ := arcA4_spec h c hc hb hf
      obtain ⟨_, _, h5⟩ := arcA2_spec a c h
      have f3 : Frame a (arcA3 a c) :=
        ⟨h5.locals, h5.cfg, h5.closed, h5.selected, h5.nominatedPair, h5.pending, h5.connState⟩
      have f4 := f3.trans h1.frame
      exact ⟨f4.locals, f4.cfg, f4.closed, f4.selected, f4.nominatedPair, f4.pending, f4.connState⟩

/-! ## `addCandidate` (local) -/

def alC (a : Agent) (c : Cand) : Cand := { c with uid := a.nextUid }

def alA1 (a : Agent) (c : Cand) : Agent :=
  { a with nextUid := a.nextUid + 1, locals := a.locals ++ [alC a c] }

def alA2 (a : Agent) (c : Cand) : Agent :=
  ((alA1 a c).remotes.filter (·.net == (alC a c).net)).foldl (fun x r => (x.addPair (alC a c) r).1) (alA1 a c)

theorem al_eq (a : Agent) (c : Cand) (hc : a.closed = false)
    (hf : (a.locals.filter (·.net == c.net)).find? (·.equal c) = none) :
    a.addLocalCandidate c = ((alA2 a c).requestCheck, [.cbCand c.addr, .res "ok"]) := by
  unfold Agent.addLocalCandidate
  rw [if_neg (by rw [hc]; simp)]
  simp only [hf]
  rfl

theorem al_closed (a : Agent) (c : Cand) (hc : a.closed = true) : (a.addLocalCandidate c).1 = a := by
  unfold Agent.addLocalCandidate
  rw [if_pos hc]

theorem al_dup (a : Agent) (c e : Cand) (hc : a.closed = false)
    (hf : (a.locals.filter (·.net == c.net)).find? (·.equal c) = some e) : (a.addLocalCandidate c).1 = a := by
  unfold Agent.addLocalCandidate
  rw [if_neg (by rw [hc]; simp)]
  simp only [hf]

theorem Inv.alA1 {a : Agent} (h : Inv a) (c : Cand) (hc : a.closed = false)
    (hf : (a.locals.filter (·.net == c.net)).find? (·.equal c) = none) : Inv (AgentC06.alA1 a c) := by
  refine ⟨?_, ⟨h.c.sel, h.c.selNom, h.c.nomLe, h.c.nom⟩⟩
  unfold InvS
  have : lcsOf (AgentC06.alA1 a c) = lcsOf a ++ [core (alC a c)] := by simp [lcsOf, AgentC06.alA1]
  rw [this]
  show StructOK (keysOf a) (lcsOf a ++ [core (alC a c)]) (rcsOf a) a.caches (a.nextUid + 1) a.nextPairID
    a.cfg.blockedIPs a.closed
  · rw [hc]
    have hs0 := h.s
    unfold InvS at hs0
    rw [hc] at hs0
    refine hs0.addLocal (core (alC a c)) rfl ?_
    intro x hx
    obtain ⟨y, hy, rfl⟩ := List.mem_map.1 hx
    rw [core_equal]
    show y.equal c = false
    by_cases hn : y.net = c.net
    · have := List.find?_eq_none.1 hf y (List.mem_filter.2 ⟨hy, by simpa using hn⟩)
      simpa using this
    · simp [Cand.equal, Cand.taEqual, hn]

theorem addLocal_fold (c : Cand) :
    ∀ (rs : List Cand) (x : Agent), (rs.map (·.uid)).Nodup → core c ∈ lcsOf x →
      (∀ r ∈ rs, core r ∈ rcsOf x ∧ c.net = r.net) →
      (∀ k ∈ keysOf x, k.2.1 = c.uid → k.2.2 ∉ rs.map (·.uid)) →
      AddPs x (rs.foldl (fun a r => (a.addPair c r).1) x) := by
  intro rs
  induction rs with
  | nil => intro x _ _ _ _; exact .refl
  | cons r rs ih =>
    intro x hn hc hrs hk
    rw [List.foldl_cons]
    simp only [List.map_cons, List.nodup_cons] at hn
    have hfresh : (c.uid, r.uid) ∉ (keysOf x).map (·.2) := by
      intro hm
      obtain ⟨k, hk1, hk2⟩ := List.mem_map.1 hm
      have h1 : k.2.1 = c.uid := by rw [hk2]
      have h2 : k.2.2 = r.uid := by rw [hk2]
      exact hk k hk1 h1 (by rw [h2]; simp)
    have hp : AddP x (x.addPair c r).1 :=
      .add c r hc (hrs r List.mem_cons_self).1 (hrs r List.mem_cons_self).2 hfresh
    have := ih (x.addPair c r).1 hn.2 (hp.lcs ▸ hc)
      (fun r' hr' => by rw [hp.rcs]; exact hrs r' (List.mem_cons_of_mem _ hr'))
      (by
        intro k hk1 hk2
        rw [keysOf_addPair] at hk1
        rcases List.mem_append.1 hk1 with hk1 | hk1
        · intro hm; exact hk k hk1 hk2 (List.mem_cons_of_mem _ hm)
        · simp at hk1; subst hk1; exact hn.1)
    -- compose: x → addPair → rest
    have hcomp : ∀ {y z : Agent}, AddPs (x.addPair c r).1 z → AddPs x z := by
      intro y z hz
      induction hz with
      | refl => exact .step .refl hp
      | step _ p ih => exact .step ih p
    exact hcomp (y := x) this

theorem alA2_spec {a : Agent} (h : Inv a) (c : Cand) (hc : a.closed = false)
    (hf : (a.locals.filter (·.net == c.net)).find? (·.equal c) = none) :
    AddPs (alA1 a c) (alA2 a c) := by
  have h1 := h.alA1 c hc hf
  unfold alA2
  apply addLocal_fold
  · -- uids of a sublist of the remotes
    have := h.s.rcNodup
    refine List.Nodup.sublist ?_ this
    show (List.map (·.uid) ((alA1 a c).remotes.filter _)).Sublist ((a.remotes.map core).map (·.uid))
    rw [List.map_map]
    exact List.Sublist.map _ List.filter_sublist
  · show core (alC a c) ∈ (a.locals ++ [alC a c]).map core
    simp
  · intro r hr
    rw [List.mem_filter] at hr
    have hnet : r.net = (alC a c).net := by simpa using hr.2
    exact ⟨mem_rcsOf hr.1, hnet.symm⟩
  · intro k hk hk2
    -- no existing pair has the fresh local uid
    exfalso
    have hk' : k ∈ keysOf a := hk
    obtain ⟨l, hl, _, _, h3, _⟩ := h.s.ends hc k hk'
    have := h.s.uidsLt l (List.mem_append_left _ hl)
    rw [h3, hk2] at this
    simp [alC] at this

theorem Inv.addLocalCandidate {a : Agent} (h : Inv a) (c : Cand) : Inv (a.addLocalCandidate c).1 := by
  cases hc : a.closed with
  | true => rw [al_closed a c hc]; exact h
  | false =>
    cases hf : (a.locals.filter (·.net == c.net)).find? (·.equal c) with
    | some e => rw [al_dup a c e hc hf]; exact h
    | none =>
      rw [al_eq a c hc hf]
      exact ((h.alA1 c hc hf).addPs (alA2_spec h c hc hf)).same
        (Same.of_fields rfl rfl rfl rfl rfl rfl rfl rfl rfl rfl rfl)

end IceProofs.AgentC06
