import IceProofs.TcpMuxSimRun
/-!
# The `end` line: after the harness's teardown (all handles closed, `Close`, both timeouts) nothing is left
-/
namespace IceProofs.TcpMux
open IceModel.TcpMux IceSpec.C15 IceSpec.C15.View

/-- nothing was written to any client and no connection appeared -/
def Calm (s s' : State) : Prop := OutQ s s' ∧ s'.tcps.length = s.tcps.length

theorem Calm.refl (s : State) : Calm s s := ⟨OutQ.refl s, rfl⟩
theorem Calm.trans {a b c : State} (h1 : Calm a b) (h2 : Calm b c) : Calm a c :=
  ⟨h1.1.trans h2.1, h2.2.trans h1.2⟩

theorem closePc1_calm (s : State) (p : Nat) (hi : Inv s) : Calm s (closePc1 s p) :=
  ⟨(closePc1_quiet s p hi).2.1, (closePc1_quiet s p hi).1.tlen⟩

theorem closePcsWhere_calm (sel : PConn → Bool) (s : State) (hi : Inv s) : Calm s (closePcsWhere sel s) := by
  have := foldl_inv (fun x : State => Inv x ∧ Calm s x)
    (fun s p => match s.pcs[p]? with
      | some pc => if sel pc then closePc s p else s
      | none => s) (List.range s.pcs.length) s ⟨hi, Calm.refl s⟩
    (by
      intro b a ⟨bi, bc⟩
      split
      · split
        · exact ⟨closePc1_inv b a bi, bc.trans (closePc1_calm b a bi)⟩
        · exact ⟨bi, bc⟩
      · exact ⟨bi, bc⟩)
  exact this.2

/-- the operations of the teardown write nothing -/
theorem teardown_calm {s : State} (hi : Inv s) (op : Op)
    (hop : (∃ h, op = .closeHandle h) ∨ op = .closeMux ∨ ∃ dt, op = .advance dt) : Calm s (step s op).1 := by
  rcases hop with ⟨h, rfl⟩ | rfl | ⟨dt, rfl⟩
  · simp only [step]
    split
    · exact Calm.refl s
    · rename_i hd hh
      split
      · exact Calm.refl s
      · split
        · exact ⟨OutQ.refl s, rfl⟩
        · split
          · have hi2 : Inv (dropRef s h hd.pc) :=
              handles_irrel_inv _ _ (setPc_irrel_inv s hd.pc decRef (fun pc => ⟨rfl, rfl, rfl, rfl, Or.inl rfl⟩) hi)
            have c := closePc1_calm (dropRef s h hd.pc) hd.pc hi2
            exact ⟨c.1, c.2⟩
          · exact ⟨OutQ.refl s, rfl⟩
  · simp only [step]
    split
    · exact Calm.refl s
    · have c := closePcsWhere_calm (fun _ => true) s hi
      exact ⟨c.1, c.2⟩
  · simp only [step]
    have c := closePcsWhere_calm (fun pc => aliveExpired (s.now + dt) pc) s hi
    obtain ⟨q2, oq2, _⟩ := tick_quiet (closePcsWhere (fun pc => aliveExpired (s.now + dt) pc) s) (s.now + dt)
    exact c.trans ⟨oq2, q2.tlen⟩

theorem run_append (s : State) (a b : List Op) : run s (a ++ b) = run (run s a) b := by
  induction a generalizing s with
  | nil => rfl
  | cons x xs ih => exact ih (step s x).1

theorem closeHandles_calm {s : State} (g : Good s) (hs : List Nat) :
    Calm s (run s (hs.map .closeHandle)) ∧ (run s (hs.map .closeHandle)).cfg = s.cfg := by
  induction hs generalizing s with
  | nil => exact ⟨Calm.refl s, rfl⟩
  | cons h hs ih =>
    obtain ⟨c, e⟩ := ih (good_step g (.closeHandle h))
    refine ⟨(teardown_calm g.inv (.closeHandle h) (Or.inl ⟨h, rfl⟩)).trans c, ?_⟩
    rw [show run s ((h :: hs).map .closeHandle) = run (step s (.closeHandle h)).1 (hs.map .closeHandle) from rfl, e]
    exact (step_ext s (.closeHandle h) (inv2_pendingFresh s g.inv2)).cfg

theorem closeMux_closed (s : State) : (step s .closeMux).1.muxClosed = true := by
  simp only [step]
  split
  · assumption
  · rfl

/-- `Close` was called and first-bind timeout + alive duration pass: everything is down -/
theorem down_after_wait {s : State} (g : Good s) (hm : s.muxClosed = true) :
    Down (step s (.advance (effTimeout s.cfg.t1 + effTimeout s.cfg.t2 + 1))).1 := by
  have g' := good_step g (.advance (effTimeout s.cfg.t1 + effTimeout s.cfg.t2 + 1))
  have hext := step_ext s (.advance (effTimeout s.cfg.t1 + effTimeout s.cfg.t2 + 1)) (inv2_pendingFresh s g.inv2)
  have hcalm := teardown_calm g.inv (.advance (effTimeout s.cfg.t1 + effTimeout s.cfg.t2 + 1)) (Or.inr (Or.inr ⟨_, rfl⟩))
  have hst : (step s (.advance (effTimeout s.cfg.t1 + effTimeout s.cfg.t2 + 1))).1 =
      ticked (closePcsWhere (fun pc => aliveExpired (s.now + (effTimeout s.cfg.t1 + effTimeout s.cfg.t2 + 1)) pc) s)
        (s.now + (effTimeout s.cfg.t1 + effTimeout s.cfg.t2 + 1)) := rfl
  have hnow : (step s (.advance (effTimeout s.cfg.t1 + effTimeout s.cfg.t2 + 1))).1.now =
      s.now + (effTimeout s.cfg.t1 + effTimeout s.cfg.t2 + 1) := rfl
  have hmux : (step s (.advance (effTimeout s.cfg.t1 + effTimeout s.cfg.t2 + 1))).1.muxClosed = true := hext.mux hm
  -- every packet connection is closed
  have hpcs : ∀ (p : Nat) (pc : PConn), (step s (.advance (effTimeout s.cfg.t1 + effTimeout s.cfg.t2 + 1))).1.pcs[p]? = some pc →
      pc.closed = true := by
    intro p pc hp
    rw [hst] at hp
    have hp' : (closePcsWhere (fun pc => aliveExpired (s.now + (effTimeout s.cfg.t1 + effTimeout s.cfg.t2 + 1)) pc) s).pcs[p]? = some pc := hp
    rw [closePcsWhere_pcs, List.getElem?_map] at hp'
    cases hq : s.pcs[p]? with
    | none => rw [hq] at hp'; cases hp'
    | some pc0 =>
      rw [hq] at hp'
      simp only [Option.map_some, Option.some.injEq] at hp'
      rw [← hp']
      unfold closeSel
      cases hc0 : pc0.closed with
      | true => simp [hc0]
      | false =>
        obtain ⟨d, hd, _⟩ := (g.inv3.pc p pc0 hq).post hm hc0
        have hb := (g.inv3.pc p pc0 hq).al d hd
        have hae : aliveExpired (s.now + (effTimeout s.cfg.t1 + effTimeout s.cfg.t2 + 1)) pc0 = true := by
          unfold aliveExpired; rw [hd]; simp only [decide_eq_true_eq]; omega
        simp [hae, closedPc]
  refine ⟨hmux, g'.inv.lis hmux, ?_, hpcs⟩
  intro k t' ht'
  cases hph : t'.phase with
  | closed => rfl
  | attached p =>
    have := g'.inv.phase k t' ht'
    simp only [PhaseOk, hph] at this
    obtain ⟨_, pc, hp, hopen, _⟩ := this
    rw [hpcs p pc hp] at hopen; cases hopen
  | pending d =>
    exfalso
    have hlt : k < s.tcps.length := by rw [← hcalm.2]; exact getElem?_lt ht'
    obtain ⟨t, ht⟩ := getElem?_of_lt hlt
    obtain ⟨t2, ht2, te⟩ := hext.tcps k t ht
    rw [ht'] at ht2; cases ht2
    have hps := te.phase
    have hold : t.phase = .pending d := by
      cases hph0 : t.phase with
      | pending d0 =>
        rw [hph0, hph] at hps
        simp only [PhaseStep] at hps
        rcases hps with h | h | ⟨p, h⟩
        · cases h; rfl
        · cases h
        · cases h
      | attached p0 =>
        rw [hph0, hph] at hps
        simp only [PhaseStep] at hps
        rcases hps with h | h <;> cases h
      | closed =>
        rw [hph0, hph] at hps
        simp only [PhaseStep] at hps
        cases hps
    have hb := ((g.inv3.tcp k t ht).dl d hold).1
    have hfut := g'.inv.phase k t' ht'
    simp only [PhaseOk, hph] at hfut
    rw [hnow] at hfut
    have := effTimeout_pos s.cfg.t2
    omega

/-- the state after the teardown -/
theorem teardown_down {s : State} (g : Good s) :
    Down (run s (endOps s)) ∧ Calm s (run s (endOps s)) := by
  unfold endOps
  rw [run_append]
  generalize hs1 : run s ((List.range s.handles.length).map .closeHandle) = s1
  obtain ⟨c1, e1⟩ := hs1 ▸ closeHandles_calm g (List.range s.handles.length)
  have g1 : Good s1 := hs1 ▸ good_run g _
  show Down (step (step s1 .closeMux).1 (.advance (effTimeout s.cfg.t1 + effTimeout s.cfg.t2 + 1))).1 ∧ _
  have g2 := good_step g1 .closeMux
  have e2 : (step s1 .closeMux).1.cfg = s.cfg := by
    rw [(step_ext s1 .closeMux (inv2_pendingFresh s1 g1.inv2)).cfg, e1]
  have c2 := teardown_calm g1.inv .closeMux (Or.inr (Or.inl rfl))
  have c3 := teardown_calm g2.inv (.advance (effTimeout s.cfg.t1 + effTimeout s.cfg.t2 + 1)) (Or.inr (Or.inr ⟨_, rfl⟩))
  refine ⟨?_, c1.trans (c2.trans c3)⟩
  have := down_after_wait g2 (closeMux_closed s1)
  rw [e2] at this
  exact this

/-- with everything down, none of the clauses checked after every operation can fire -/
theorem always_down (s' : State) (mf me : Mon) (old : List Tcp) (res : ORes)
    (hd : Down s') (hlen : mf.clients.length = s'.tcps.length) (hcc : mf.closeCalled = true)
    (hpcs : ∀ (p : Nat) (pc : MPc), me.pcs[p]? = some pc → pc.isOpen = false) (houts : newReplies old s'.tcps = [])
    (hled : ledger s' = ⟨0, 0, 0, 0, 0⟩) :
    always mf me (obsOf old s' res) false = none := by
  have hret : closeReturned s' = true := closeReturned_of_down hd
  have hin : ∀ k, k < mf.clients.length → (closedSet s').contains k = true := by
    intro k hk
    obtain ⟨t, ht⟩ := getElem?_of_lt (show k < s'.tcps.length by omega)
    exact contains_closedSet.2 ⟨t, ht, isClosed_iff.2 (hd.tcps k t ht)⟩
  have c1 : ((closedSet s').any fun k => decide (k ≥ mf.clients.length)) = false := by
    rw [List.any_eq_false]
    intro k hk
    obtain ⟨t, ht, _⟩ := mem_idxWhere.1 hk
    have := getElem?_lt ht
    simp only [decide_eq_true_eq]; omega
  have c2 : (List.range mf.clients.length).any (clReopened mf (closedSet s')) = false := by
    apply any_range_false
    intro k hk
    unfold clReopened
    cases mf.clients[k]? with
    | none => rfl
    | some c => simp only; rw [hin k hk]; simp
  have c3 : (List.range mf.clients.length).any (clLate mf (closedSet s')) = false := by
    apply any_range_false
    intro k hk
    unfold clLate
    cases mf.clients[k]? with
    | none => rfl
    | some c => simp only; rw [hin k hk]; simp
  have c4 : (List.range mf.clients.length).any (clProvisional mf (closedSet s')) = false := by
    apply any_range_false
    intro k hk
    unfold clProvisional
    cases mf.clients[k]? with
    | none => rfl
    | some c =>
      simp only
      cases c.target with
      | none => rfl
      | some p =>
        simp only
        cases mf.pcs[p]? with
        | none => rfl
        | some pc =>
          simp only
          cases pc.expires with
          | none => rfl
          | some d => simp only; rw [hin k hk]; simp
  have c5 : (List.range mf.clients.length).any (clDelivery mf me (closedSet s')) = false := by
    apply any_range_false
    intro k hk
    unfold clDelivery
    cases mf.clients[k]? with
    | none => rfl
    | some c =>
      simp only
      cases c.target with
      | none => simp
      | some p =>
        simp only
        cases hp : me.pcs[p]? with
        | none => simp
        | some pc => simp [hpcs p pc hp]
  have c10 : (List.range mf.clients.length).any (clStillOpen mf (closedSet s')) = false := by
    apply any_range_false
    intro k hk
    unfold clStillOpen
    cases mf.clients[k]? with
    | none => rfl
    | some c => simp only; rw [hin k hk]; simp
  have c11 : (ledgerList s').any (· ≠ 0) = false := by
    unfold ledgerList
    rw [hled]; simp
  unfold closedSet at c1 c2 c3 c4 c5 c10
  unfold always obsOf
  simp only
  rw [c1]
  simp only [Bool.false_eq_true, if_false]
  rw [c2]
  simp only [Bool.false_eq_true, if_false]
  rw [c3]
  simp only [Bool.false_eq_true, if_false]
  rw [c4]
  simp only [Bool.false_eq_true, if_false]
  rw [c5]
  simp only [Bool.false_eq_true, if_false]
  rw [houts, hcc, hd.lis, hret, c10, c11]
  simp

theorem closeWhere_all_closed (pcs : List MPc) (sel : MPc → Bool) :
    ∀ (p : Nat) (pc : MPc), (closeWhere (closeWhere pcs (fun _ => true)) sel)[p]? = some pc → pc.isOpen = false := by
  intro p pc hp
  unfold closeWhere at hp
  rw [List.map_map, List.getElem?_map] at hp
  cases hq : pcs[p]? with
  | none => rw [hq] at hp; cases hp
  | some q =>
    rw [hq] at hp
    simp only [Option.map_some, Function.comp, if_true, Option.some.injEq] at hp
    rw [← hp]
    cases ho : q.isOpen <;> cases hs : sel (closeOne q) <;> simp [closeOne, ho]

/-- **The `end` line is accepted.** -/
theorem finish_ok {s : State} {m : Mon} (hs : Sim s m) (g : Good s) : (observeT m .finish (endLine s)).2 = none := by
  obtain ⟨hd, hcalm⟩ := teardown_down g
  have g' : Good (run s (endOps s)) := good_run g _
  have hret : closeReturned (run s (endOps s)) = true := closeReturned_of_down hd
  have hled := (down_of_closeReturned g'.inv hret).2
  have hall : allDown (run s (endOps s)) = true := by
    unfold allDown
    rw [hret, hled]
    simp only [Bool.true_and, decide_true, Bool.and_true, List.all_eq_true]
    intro t ht
    obtain ⟨k, hk⟩ := List.mem_iff_getElem?.1 ht
    exact isClosed_iff.2 (hd.tcps k t hk)
  unfold endLine
  simp only [hall, if_true]
  have hobs : observeT m .finish (.obs (obsOf s.tcps (run s (endOps s)) .endOk)) =
      finish m (obsOf s.tcps (run s (endOps s)) .endOk) := by
    simp [observeT, hs.u.active]
  rw [hobs]
  unfold finish
  simp only
  have hres : (obsOf s.tcps (run s (endOps s)) .endOk).res = .endOk := rfl
  rw [if_neg (by rw [hres]; exact fun h => h rfl)]
  apply always_down _ _ _ _ _ hd
  · show m.clients.length = _
    rw [hs.u.len, hcalm.2]
  · rfl
  · unfold expire
    exact closeWhere_all_closed m.pcs _
  · exact newReplies_of_outQ hcalm.2 hcalm.1
  · exact hled

/-! ## the whole session -/

theorem verdicts_append (m : Mon) (a b : List (MOp × Line)) :
    verdicts m (a ++ b) = verdicts m a ++ verdicts (monAfter m a) b := by
  induction a generalizing m with
  | nil => rfl
  | cons x xs ih =>
    obtain ⟨op, l⟩ := x
    simp only [List.cons_append, verdicts, monAfter, ih]

/-- **Every line of every session of the model is accepted by the monitor.** -/
theorem trace_ok (cfg : Config) (ops : List Op) (withEnd : Bool) :
    ∀ v, v ∈ verdicts {} (traceOf cfg ops withEnd) → v = none := by
  obtain ⟨hv0, hs0⟩ := start_sim cfg
  obtain ⟨hvs, hfin⟩ := run_sim hs0 (good_init cfg) ops
  intro v hv
  unfold traceOf at hv
  simp only [List.cons_append, verdicts] at hv
  rcases List.mem_cons.1 hv with rfl | hv
  · exact hv0
  · rw [verdicts_append] at hv
    rcases List.mem_append.1 hv with h | h
    · exact hvs v h
    · cases withEnd with
      | false => simp [verdicts] at h
      | true =>
        simp only [if_true, verdicts, List.mem_singleton] at h
        rw [h]
        exact finish_ok hfin (good_run (good_init cfg) ops)

/-- the relation between the model and the monitor after any session -/
theorem trace_sim (cfg : Config) (ops : List Op) :
    Sim (run (init cfg) ops) (monAfter {} ((.start cfg.t1 cfg.t2, .obs (obsOf [] (init cfg) .ok)) :: linesFrom (init cfg) ops)) :=
  (run_sim (start_sim cfg).2 (good_init cfg) ops).2

end IceProofs.TcpMux
