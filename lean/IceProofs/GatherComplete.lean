import IceModel.Gather
import IceProofs.GatherAgent
/-!
Dynamic half of completeness: inside an accepted `GatherCandidates`, a UDP host unit whose listen
succeeds (no port range configured: the port is ephemeral) adds its candidate, and nothing that runs
afterwards in the same operation removes it.
-/
namespace IceProofs.GatherComplete
open IceModel.Gather IceProofs.GatherAgent

/-- what `exec` never touches -/
theorem exec_frame (p : Prog) : ∀ (s : MState) (j : Job),
    (exec s j p).1.cyc = s.cyc ∧ (exec s j p).1.cfg = s.cfg ∧ (exec s j p).1.ifs = s.ifs
    ∧ (exec s j p).1.gateClosed = s.gateClosed ∧ (exec s j p).1.heldCycles = s.heldCycles
    ∧ (∀ c ∈ s.cands, c ∈ (exec s j p).1.cands) := by
  induction p with
  | ret => intro s j; exact ⟨rfl, rfl, rfl, rfl, rfl, fun _ h => h⟩
  | acquire l k a b iha ihb =>
    intro s j; simp only [exec]; split
    · exact ⟨rfl, rfl, rfl, rfl, rfl, fun _ h => h⟩
    · exact ihb _ _
    · exact iha _ _
  | step l a b iha ihb =>
    intro s j; simp only [exec]; split
    · exact ⟨rfl, rfl, rfl, rfl, rfl, fun _ h => h⟩
    · exact iha _ _
    · exact ihb _ _
  | release i n ih => intro s j; simp only [exec]; exact ih _ _
  | addCand ci is st fl ihs ihf =>
    intro s j; simp only [exec]; split
    · exact ihf _ _
    · split
      · exact ihs _ _
      · have := ihs
          { s with cands := s.cands ++ [{ d := unitCand s.cfg j.unit ci j.m, gen := s.cyc.gen, res := (j.takeAll is (.owned ci)).2 }],
                   evs := if (unitCand s.cfg j.unit ci j.m).hidden then s.evs
                          else s.evs ++ [(unitCand s.cfg j.unit ci j.m, s.cyc.gen)] }
          (j.takeAll is (.owned ci)).1
        exact ⟨this.1, this.2.1, this.2.2.1, this.2.2.2.1, this.2.2.2.2.1,
          fun c hc => this.2.2.2.2.2 c (by simp [hc])⟩

theorem settle_frame (p : MState × Job) :
    (settle p).cyc = p.1.cyc ∧ (settle p).cfg = p.1.cfg ∧ (settle p).ifs = p.1.ifs
    ∧ (settle p).gateClosed = p.1.gateClosed ∧ (settle p).heldCycles = p.1.heldCycles ∧ (settle p).cands = p.1.cands := by
  unfold settle; split <;> exact ⟨rfl, rfl, rfl, rfl, rfl, rfl⟩

/-- frame + monotonicity packaged for folds -/
structure Keeps (s s' : MState) : Prop where
  cyc : s'.cyc = s.cyc
  cfg : s'.cfg = s.cfg
  ifs : s'.ifs = s.ifs
  gate : s'.gateClosed = s.gateClosed
  mono : ∀ c ∈ s.cands, c ∈ s'.cands

theorem Keeps.refl (s : MState) : Keeps s s := ⟨rfl, rfl, rfl, rfl, fun _ h => h⟩

theorem Keeps.trans {a b c : MState} (h1 : Keeps a b) (h2 : Keeps b c) : Keeps a c :=
  ⟨h2.cyc.trans h1.cyc, h2.cfg.trans h1.cfg, h2.ifs.trans h1.ifs, h2.gate.trans h1.gate,
   fun x hx => h2.mono x (h1.mono x hx)⟩

theorem run_keeps (s : MState) (j : Job) (p : Prog) : Keeps s (settle (exec s j p)) := by
  have hs := settle_frame (exec s j p)
  have he := exec_frame p s j
  exact ⟨hs.1.trans he.1, hs.2.1.trans he.2.1, hs.2.2.1.trans he.2.2.1, hs.2.2.2.1.trans he.2.2.2.1,
    fun x hx => by rw [hs.2.2.2.2.2]; exact he.2.2.2.2.2 x hx⟩

theorem startUnit_keeps (s : MState) (c gen : Nat) (u : GUnit) : Keeps s (startUnit s c gen u) := by
  unfold startUnit
  exact run_keeps _ _ _

theorem foldl_keeps {α : Type} (f : MState → α → MState) (hf : ∀ s a, Keeps s (f s a)) :
    ∀ (l : List α) (s : MState), Keeps s (l.foldl f s) := by
  intro l
  induction l with
  | nil => intro s; exact Keeps.refl s
  | cons a l ih => intro s; exact (hf s a).trans (ih _)

theorem runHostMux_keeps (c gen : Nat) : ∀ (us : List GUnit) (seen : List CandD) (s : MState),
    Keeps s (runHostMux s c gen us seen) := by
  intro us
  induction us with
  | nil => intro seen s; simpa [runHostMux] using Keeps.refl s
  | cons u us ih =>
    intro seen s
    simp only [runHostMux]
    split
    · exact ih _ _
    · exact (startUnit_keeps s c gen u).trans (ih _ _)

/-- a fold in which one element establishes a fact about the candidate list that all others keep -/
theorem foldl_establish {α : Type} (f : MState → α → MState) (hf : ∀ s a, Keeps s (f s a))
    (Q : MState → Prop) (P : MCand → Prop) (hQ : ∀ s a, Q s → Q (f s a))
    (u : α) (hu : ∀ s, Q s → ∃ c ∈ (f s u).cands, P c) :
    ∀ (l : List α) (s : MState), u ∈ l → Q s → ∃ c ∈ (l.foldl f s).cands, P c := by
  intro l
  induction l with
  | nil => intro s h; simp at h
  | cons a l ih =>
    intro s hmem hq
    simp only [List.foldl_cons]
    simp only [List.mem_cons] at hmem
    rcases hmem with hmem | hmem
    · subst hmem
      obtain ⟨c, hc, hp⟩ := hu s hq
      exact ⟨c, (foldl_keeps f hf l _).mono c hc, hp⟩
    · exact ih _ hmem (hQ s a hq)

/-- the cycle `c` owns the agent -/
def LiveCyc (s : MState) (c : Nat) : Prop :=
  s.cyc.closed = false ∧ ((s.cyc.cycles[c]?).map (fun y => !y.cancelled)).getD false = true

/-- a UDP host unit of a live cycle, with ephemeral ports, adds its candidate -/
theorem startUnit_hostUdp (s : MState) (c gen : Nat) (u : GUnit) (hk : u.kind = .hostUdp)
    (hpr : portRange s.cfg = none) (hl : LiveCyc s c) :
    ∃ mc ∈ (startUnit s c gen u).cands, mc.d = unitCand s.cfg u 0 0 := by
  obtain ⟨kind, net, bind, url, n, mapped, ifc⟩ := u
  simp only at hk
  subst hk
  have hfree : freePorts s bind = 1 := by simp [freePorts, hpr]
  have hpf : ownPortFlag s.cfg = PFlag.e := by simp [ownPortFlag, hpr]
  have hp0 : s.cfg.portMin = 0 := by
    unfold portRange at hpr
    split at hpr
    · rename_i h; simp only [Bool.and_eq_true, beq_iff_eq] at h; exact h.1
    · simp at hpr
  refine ⟨{ d := unitCand s.cfg ⟨.hostUdp, net, bind, url, n, mapped, ifc⟩ 0 0, gen := s.cyc.gen,
            res := [{ kind := .sock, tag := s.cyc.gen, addr := bind, inRange := (portRange s.cfg).isSome }] }, ?_, rfl⟩
  simp [startUnit, progOf, hostUdpProg, exec, acquireAns, stepAns, hfree, settle, jobLive, hl.1, hl.2,
    publishable, unitCand, candEqual, candEqualIn, zoned, hp0, hpf, Job.takeAll, Job.take]

theorem finishCycle_cands (s : MState) : (finishCycle s).cands = s.cands := by
  unfold finishCycle
  split
  · rfl
  · split
    · rfl
    · split
      · rfl
      · unfold startMonitorIf; split <;> rfl

/-- the host part of a cycle with the gate open and no UDP mux: every unit of `hostIfaceUnits` of kind
hostUdp has its candidate in the list after `runCycleUnits` -/
theorem runCycleUnits_hostUdp (s : MState) (c gen : Nat) (hh : s.cfg.candTypes.contains .host = true)
    (hmux : s.cfg.udpMux = none) (hpr : portRange s.cfg = none) (hl : LiveCyc s c)
    (u : GUnit) (hu : u ∈ hostIfaceUnits s.cfg s.ifs) (hk : u.kind = .hostUdp) :
    ∃ mc ∈ (runCycleUnits s c gen).cands, mc.d = unitCand s.cfg u 0 0 := by
  unfold runCycleUnits
  -- the step function of the outer fold keeps frame and candidates
  have stepKeeps : ∀ (s' : MState) (t : CandType), Keeps s'
      (match t with
        | .host => if s'.gateClosed && s'.cfg.udpMux.isSome then { s' with heldCycles := s'.heldCycles ++ [c] } else runHost s' c gen
        | .srflx => (srflxAllUnits s'.cfg s'.ifs).foldl (fun s u => startUnit s c gen u) s'
        | .relay => (relayUnits s'.cfg s'.ifs).foldl (fun s u => startUnit s c gen u) s') := by
    intro s' t
    cases t with
    | host =>
      simp only
      split
      · exact ⟨rfl, rfl, rfl, rfl, fun _ h => h⟩
      · unfold runHost
        exact (runHostMux_keeps c gen _ _ s').trans (foldl_keeps _ (fun s u => startUnit_keeps s c gen u) _ _)
    | srflx => exact foldl_keeps _ (fun s u => startUnit_keeps s c gen u) _ _
    | relay => exact foldl_keeps _ (fun s u => startUnit_keeps s c gen u) _ _
  let Q : MState → Prop := fun s' => s'.cfg = s.cfg ∧ s'.ifs = s.ifs ∧ s'.cyc = s.cyc
  have hQ : ∀ (s' : MState) (t : CandType), Q s' → Q (match t with
        | .host => if s'.gateClosed && s'.cfg.udpMux.isSome then { s' with heldCycles := s'.heldCycles ++ [c] } else runHost s' c gen
        | .srflx => (srflxAllUnits s'.cfg s'.ifs).foldl (fun s u => startUnit s c gen u) s'
        | .relay => (relayUnits s'.cfg s'.ifs).foldl (fun s u => startUnit s c gen u) s') := by
    intro s' t hq
    have k := stepKeeps s' t
    exact ⟨k.cfg.trans hq.1, k.ifs.trans hq.2.1, k.cyc.trans hq.2.2⟩
  refine foldl_establish _ stepKeeps Q (fun mc => mc.d = unitCand s.cfg u 0 0) hQ CandType.host ?_ _ s
    (List.contains_iff_mem.1 hh) ⟨rfl, rfl, rfl⟩
  intro s' hq
  obtain ⟨hc, hi, hy⟩ := hq
  have hgate : (s'.gateClosed && s'.cfg.udpMux.isSome) = false := by simp [hc, hmux]
  simp only [hgate, Bool.false_eq_true, ↓reduceIte]
  unfold runHost
  -- inside runHost: the mux part keeps the frame, then the fold over the interface units establishes the candidate
  have km := runHostMux_keeps c gen (hostMuxUnits s'.cfg) [] s'
  have hcfg : (runHostMux s' c gen (hostMuxUnits s'.cfg) []).cfg = s.cfg := km.cfg.trans hc
  have hifs : (runHostMux s' c gen (hostMuxUnits s'.cfg) []).ifs = s.ifs := km.ifs.trans hi
  simp only [hcfg, hifs]
  let Q2 : MState → Prop := fun x => x.cfg = s.cfg ∧ x.cyc = s.cyc
  refine foldl_establish (fun s u => startUnit s c gen u) (fun s u => startUnit_keeps s c gen u) Q2
    (fun mc => mc.d = unitCand s.cfg u 0 0)
    (fun x a hx => ⟨(startUnit_keeps x c gen a).cfg.trans hx.1, (startUnit_keeps x c gen a).cyc.trans hx.2⟩)
    u ?_ _ _ hu ⟨hcfg, km.cyc.trans hy⟩
  intro x hx
  have := startUnit_hostUdp x c gen u hk (by rw [hx.1]; exact hpr) (by
    unfold LiveCyc; rw [hx.2]; exact hl)
  rw [hx.1] at this
  exact this

/-- an accepted `GatherCandidates`: the new cycle is live while its units run -/
theorem step_gather_new (s : MState) (hnc : s.cyc.closed = false) (hnew : s.cyc.gs = Cycle.GS.new) :
    ∃ s1 : MState, s1.cfg = s.cfg ∧ s1.ifs = s.ifs ∧ LiveCyc s1 s.cyc.cycles.length ∧
      step s .gather = (finishCycle (runCycleUnits s1 s.cyc.cycles.length s.cyc.gen), Rtok.ok) := by
  have h1 : Cycle.step false s.cyc .gather
      = ({ s.cyc with cycles := Cycle.cancelAll s.cyc.cycles ++ [{ gen := s.cyc.gen }] },
         [Cycle.Out.accepted s.cyc.cycles.length s.cyc.gen]) := by
    simp [Cycle.step, hnc, hnew]
  have hget : (Cycle.cancelAll s.cyc.cycles ++ [({ gen := s.cyc.gen } : Cycle.Cyc)])[s.cyc.cycles.length]?
      = some { gen := s.cyc.gen } := by
    simp [Cycle.cancelAll, List.getElem?_append]
  have hrk : ∀ x : MState, (recordKnown x).cfg = x.cfg ∧ (recordKnown x).ifs = x.ifs ∧ (recordKnown x).cyc = x.cyc := by
    intro x; unfold recordKnown; split <;> exact ⟨rfl, rfl, rfl⟩
  refine ⟨recordKnown { s with cyc := (Cycle.step false (Cycle.step false s.cyc .gather).1 (.start s.cyc.cycles.length)).1 },
    (hrk _).1, (hrk _).2.1, ?_, ?_⟩
  · unfold LiveCyc
    rw [(hrk _).2.2]
    simp only
    rw [h1]
    have hstart : (Cycle.step false
        ({ s.cyc with cycles := Cycle.cancelAll s.cyc.cycles ++ [{ gen := s.cyc.gen }] } : Cycle.State)
        (.start s.cyc.cycles.length)).1
        = { Cycle.modify ({ s.cyc with cycles := Cycle.cancelAll s.cyc.cycles ++ [{ gen := s.cyc.gen }] } : Cycle.State)
              s.cyc.cycles.length (fun y => { y with applied := true }) with gs := .gathering } := by
      simp [Cycle.step, hget, hnc]
    rw [hstart]
    simp [Cycle.modify, List.getElem?_modify, hget, hnc]
  · simp only [step, h1]

end IceProofs.GatherComplete
