import IceProofs.Sys2C01View
import IceProofs.AgentAuto
/-!
# C01, layer 2 — every helper of `AgentCore.step` preserves the per-agent invariant `AInv` (with the
ghost log extended by the Binding requests it emits) and emits only allowed outputs (`OutOK`).
-/
namespace IceProofs.C01
open IceModel.AgentCore

section
variable (Good : Nat → Nat → Prop) (Sane SaneR : Nat → Prop) (tag : Nat) (lite : Bool) (R : Nat → Nat → Nat → Prop)

/-- what an agent may emit: Binding requests, error responses, success responses only as allowed by
`R from to tid`; `cbState connected` / `cbPair` of a full agent only when some `Good` address pair exists. -/
def OutOK : Out → Prop
  | .dgram f t m => m.cls = 0 ∨ m.cls = 3 ∨ (m.cls = 2 ∧ R f t m.tid)
  | .cbState s => s = .connected → lite = false → ∃ la ra, Good la ra
  | .cbPair _ _ => lite = false → ∃ la ra, Good la ra
  | _ => True

/-- postcondition of a helper started with log `L`. -/
def Post (L : Log) (r : Agent × List Out) : Prop :=
  AInv Good Sane SaneR tag lite (view r.1) (L ++ reqs r.2) ∧ ∀ o ∈ r.2, OutOK Good lite R o

variable {Good Sane SaneR tag lite R}

theorem Post.ret {a : Agent} {L : Log} (h : AInv Good Sane SaneR tag lite (view a) L) : Post Good Sane SaneR tag lite R L (a, []) := by
  refine ⟨by simpa [reqs] using h, by simp⟩

theorem Post.seq {L : Log} {r1 r2 : Agent × List Out} (h1 : Post Good Sane SaneR tag lite R L r1)
    (h2 : Post Good Sane SaneR tag lite R (L ++ reqs r1.2) r2) : Post Good Sane SaneR tag lite R L (r2.1, r1.2 ++ r2.2) := by
  refine ⟨?_, ?_⟩
  · have := h2.1
    simpa [List.append_assoc] using this
  · intro o ho
    rcases List.mem_append.mp ho with ho | ho
    · exact h1.2 o ho
    · exact h2.2 o ho

theorem Post.outs {a : Agent} {L : Log} {o : List Out} (h : AInv Good Sane SaneR tag lite (view a) L) (hr : reqs o = [])
    (ho : ∀ x ∈ o, OutOK Good lite R x) : Post Good Sane SaneR tag lite R L (a, o) := by
  refine ⟨by simpa [hr] using h, ho⟩

/-- replace the agent by one with the same view. -/
theorem Post.congr {L : Log} {r : Agent × List Out} {a' : Agent} (h : Post Good Sane SaneR tag lite R L r)
    (hv : view a' = view r.1) : Post Good Sane SaneR tag lite R L (a', r.2) := by
  refine ⟨?_, h.2⟩
  show AInv Good Sane SaneR tag lite (view a') _
  rw [hv]; exact h.1

theorem Post.of_eq {L : Log} {x r : Agent × List Out} (heq : x = r) (h : Post Good Sane SaneR tag lite R L x) :
    Post Good Sane SaneR tag lite R L r := heq ▸ h

/-- append result lines / other harmless outputs. -/
theorem Post.append_outs {L : Log} {r : Agent × List Out} {o : List Out} (h : Post Good Sane SaneR tag lite R L r)
    (hr : reqs o = []) (ho : ∀ x ∈ o, OutOK Good lite R x) : Post Good Sane SaneR tag lite R L (r.1, r.2 ++ o) := by
  refine ⟨?_, ?_⟩
  · have := h.1
    simpa [hr] using this
  · intro x hx
    rcases List.mem_append.mp hx with hx | hx
    · exact h.2 x hx
    · exact ho x hx

/-! ## views of the primitive setters -/

theorem map_updCand_cv (l : List Cand) (u : Nat) (f : Cand → Cand) (hf : ∀ c, cv (f c) = cv c) :
    (updCand l u f).map cv = l.map cv := by
  unfold updCand
  rw [List.map_map]
  apply List.map_congr_left
  intro c _
  simp only [Function.comp]
  split <;> simp [hf]

theorem map_updPair_pv (l : List Pair) (id : Nat) (f : Pair → Pair) (hf : ∀ p, pv (f p) = pv p) :
    (updPair l id f).map pv = l.map pv := by
  unfold updPair
  rw [List.map_map]
  apply List.map_congr_left
  intro c _
  simp only [Function.comp]
  split <;> simp [hf]

theorem view_modPair (a : Agent) (id : Nat) (f : Pair → Pair) (hf : ∀ p, pv (f p) = pv p) :
    view (a.modPair id f) = view a := by
  simp only [view, Agent.modPair]
  rw [map_updPair_pv _ _ _ hf]

theorem view_seenLocalSent (a : Agent) (u now : Nat) : view (a.seenLocalSent u now) = view a := by
  simp only [view, Agent.seenLocalSent]
  rw [map_updCand_cv]
  intro c; rfl

theorem view_seenRemoteRecv (a : Agent) (u now : Nat) : view (a.seenRemoteRecv u now) = view a := by
  simp only [view, Agent.seenRemoteRecv]
  rw [map_updCand_cv]
  intro c; rfl

/-! ## state, selection -/

theorem setConnState_post {a : Agent} {L : Log} (h : AInv Good Sane SaneR tag lite (view a) L) (s : ConnState)
    (hs : isLive s = true → a.selected.isSome)
    (hg : s = .connected → lite = false → ∃ la ra, Good la ra) :
    Post Good Sane SaneR tag lite R L (a.setConnState s) := by
  unfold Agent.setConnState
  split
  · exact Post.ret h
  · refine Post.outs ?_ rfl ?_
    · split
      · rename_i hf
        have hf' : s = .failed := by simpa using hf
        subst hf'
        exact h.wipe
      · exact h.setLive (isLive s) hs
    · intro x hx
      simp at hx
      subst hx
      exact hg

theorem mem_checklist_pv {a : Agent} {p : Pair} (hp : p ∈ a.checklist) : pv p ∈ (view a).pairs :=
  List.mem_map.mpr ⟨p, hp, rfl⟩

theorem select_post {a : Agent} {L : Log} (h : AInv Good Sane SaneR tag lite (view a) L) (id : Nat)
    (hpv : ∃ q ∈ (view a).pairs, q.id = id ∧ q.succ = true) :
    Post Good Sane SaneR tag lite R L (a.select id) := by
  have hv : view (a.modPair id fun p => { p with nominated := true }) = view a := view_modPair _ _ _ (fun _ => rfl)
  have h1 : AInv Good Sane SaneR tag lite (view (a.modPair id fun p => { p with nominated := true })) L := hv ▸ h
  have h2 := h1.select id (view (a.modPair id fun p => { p with nominated := true })).live (by rw [hv]; exact hpv)
  unfold Agent.select
  simp only []
  generalize heq : Agent.setConnState _ _ = r
  obtain ⟨a', o'⟩ := r
  simp only []
  have h3 : Post Good Sane SaneR tag lite R L (a', o') :=
    Post.of_eq heq (setConnState_post h2 .connected (fun _ => rfl) (fun _ hl => h2.anyGood hl rfl))
  refine h3.append_outs rfl ?_
  intro x hx
  simp at hx
  subst hx
  intro hl
  exact h2.anyGood hl rfl

/-- the controlling selector's record of the answered renomination value is not part of the view -/
theorem view_answered (a : Agent) (w : Option Nat) : view { a with answeredNomination := w } = view a := rfl

theorem select_answered_post {a : Agent} {L : Log} (h : AInv Good Sane SaneR tag lite (view a) L) (w : Option Nat) (id : Nat)
    (hpv : ∃ q ∈ (view a).pairs, q.id = id ∧ q.succ = true) :
    Post Good Sane SaneR tag lite R L (({ a with answeredNomination := w } : Agent).select id) := by
  have h' : AInv Good Sane SaneR tag lite (view ({ a with answeredNomination := w } : Agent)) L := by
    rw [view_answered]; exact h
  refine select_post h' id ?_
  rw [view_answered]; exact hpv

/-- a pair update that keeps every pair's view, applied after a helper -/
theorem Post.modPair_same {L : Log} {r : Agent × List Out} (h : Post Good Sane SaneR tag lite R L r) (id : Nat)
    (f : Pair → Pair) (hf : ∀ p, pv (f p) = pv p) : Post Good Sane SaneR tag lite R L (r.1.modPair id f, r.2) :=
  Post.congr h (view_modPair _ _ _ hf)

/-! ## sending -/

theorem mem_locals_cv {a : Agent} {c : Cand} (hc : c ∈ a.locals) : cv c ∈ (view a).locs :=
  List.mem_map.mpr ⟨c, hc, rfl⟩

theorem mem_remotes_cv {a : Agent} {c : Cand} (hc : c ∈ a.remotes) : cv c ∈ (view a).rems :=
  List.mem_map.mpr ⟨c, hc, rfl⟩

theorem localOf_mem {a : Agent} {u : Nat} {c : Cand} (h : a.localOf u = some c) : c ∈ a.locals :=
  List.mem_of_find?_eq_some h

theorem remoteOf_mem {a : Agent} {u : Nat} {c : Cand} (h : a.remoteOf u = some c) : c ∈ a.remotes :=
  List.mem_of_find?_eq_some h

theorem localOf_sane {a : Agent} {L : Log} (h : AInv Good Sane SaneR tag lite (view a) L) {u : Nat} {c : Cand}
    (hc : a.localOf u = some c) : Sane c.addr :=
  h.locSane _ (mem_locals_cv (localOf_mem hc))

theorem remoteOf_sane {a : Agent} {L : Log} (h : AInv Good Sane SaneR tag lite (view a) L) {u : Nat} {c : Cand}
    (hc : a.remoteOf u = some c) : SaneR c.addr :=
  h.remSane _ (mem_remotes_cv (remoteOf_mem hc))

theorem view_sendRequest (a : Agent) (now : Nat) (l r : Cand) (uc : Bool) (nom : Option Nat) :
    view (a.sendRequest now l r uc nom).1 =
      { view a with nextTid := a.nextTid + 1,
                    pend := (a.pending.filter fun p => now - p.ts < maxBindingRequestTimeout).map pdv ++ [(2 * a.nextTid + a.tag, l.addr, r.addr)] } := by
  unfold Agent.sendRequest
  simp only [view_seenLocalSent]
  split
  · rw [view_modPair]
    · simp [view, Agent.invalidatePending, pdv]
    · intro p; rfl
  · simp [view, Agent.invalidatePending, pdv]

theorem outs_sendRequest (a : Agent) (now : Nat) (l r : Cand) (uc : Bool) (nom : Option Nat) :
    ∃ m, (a.sendRequest now l r uc nom).2 = [.dgram l.addr r.addr m] ∧ m.cls = 0 ∧ m.tid = 2 * a.nextTid + a.tag := by
  unfold Agent.sendRequest
  simp [Agent.invalidatePending]

theorem sendRequest_post {a : Agent} {L : Log} (h : AInv Good Sane SaneR tag lite (view a) L) (now : Nat) (l r : Cand)
    (uc : Bool) (nom : Option Nat) (hl : Sane l.addr) (hr : SaneR r.addr) :
    Post Good Sane SaneR tag lite R L (a.sendRequest now l r uc nom) := by
  obtain ⟨m, ho, hc, ht⟩ := outs_sendRequest a now l r uc nom
  refine ⟨?_, ?_⟩
  · rw [view_sendRequest, ho]
    have : reqs [Out.dgram l.addr r.addr m] = [(2 * a.nextTid + a.tag, l.addr, r.addr)] := by
      simp [reqs, reqOf, hc, ht]
    rw [this]
    refine h.addReq _ ?_ l.addr r.addr hl hr
    intro x hx
    obtain ⟨p, hp, rfl⟩ := List.mem_map.mp hx
    exact List.mem_map.mpr ⟨p, (List.mem_filter.mp hp).1, rfl⟩
  · intro o hx
    rw [ho] at hx
    simp at hx
    subst hx
    exact Or.inl hc

theorem ping_post {a : Agent} {L : Log} (h : AInv Good Sane SaneR tag lite (view a) L) (now : Nat) (l r : Cand)
    (hl : Sane l.addr) (hr : SaneR r.addr) : Post Good Sane SaneR tag lite R L (a.ping now l r) :=
  sendRequest_post h now l r false none hl hr

theorem view_sendSuccess (a : Agent) (now : Nat) (m : Msg) (l r : Cand) : view (a.sendSuccess now m l r).1 = view a := by
  unfold Agent.sendSuccess
  simp only [view_seenLocalSent]
  split
  · rw [view_modPair]
    intro p; rfl
  · rfl

theorem sendSuccess_post {a : Agent} {L : Log} (h : AInv Good Sane SaneR tag lite (view a) L) (now : Nat) (m : Msg) (l r : Cand)
    (hR : R l.addr r.addr m.tid) : Post Good Sane SaneR tag lite R L (a.sendSuccess now m l r) := by
  refine ⟨?_, ?_⟩
  · rw [view_sendSuccess]
    have : reqs (a.sendSuccess now m l r).2 = [] := by
      unfold Agent.sendSuccess; simp [reqs, reqOf]
    rw [this]; simpa using h
  · intro o ho
    unfold Agent.sendSuccess at ho
    simp at ho
    subst ho
    exact Or.inr (Or.inr ⟨rfl, hR⟩)

theorem nominate_post {a : Agent} {L : Log} (h : AInv Good Sane SaneR tag lite (view a) L) (now : Nat) (p : Pair) :
    Post Good Sane SaneR tag lite R L (a.nominate now p) := by
  unfold Agent.nominate
  split
  · rename_i l r hl hr
    exact sendRequest_post h now l r true none (localOf_sane h hl) (remoteOf_sane h hr)
  · exact Post.ret h

theorem selected_pair {a : Agent} {p : Pair} (h : a.selected.bind a.pairById = some p) : a.selected = some p.id := by
  cases hs : a.selected with
  | none => simp [hs] at h
  | some id =>
    simp [hs, Agent.pairById] at h
    have := List.find?_some h
    simp at this
    rw [this]

theorem validateSelected_post {a : Agent} {L : Log} (h : AInv Good Sane SaneR tag lite (view a) L) (now : Nat) :
    Post Good Sane SaneR tag lite R L ((a.validateSelected now).1, (a.validateSelected now).2.1) := by
  unfold Agent.validateSelected
  split
  · exact Post.ret h
  · rename_i p hp
    have hs := selected_pair hp
    simp only []
    generalize heq : Agent.setConnState _ _ = r
    obtain ⟨a', o'⟩ := r
    exact Post.of_eq heq (setConnState_post h _ (fun _ => by simp [hs]) (fun _ hl => h.anyGood hl hs))

theorem keepalive_post {a : Agent} {L : Log} (h : AInv Good Sane SaneR tag lite (view a) L) (now : Nat) :
    Post Good Sane SaneR tag lite R L (a.keepalive now) := by
  unfold Agent.keepalive
  split
  · exact Post.ret h
  · split
    · split
      · rename_i l r hl hr
        exact ping_post h now l r (localOf_sane h hl) (remoteOf_sane h hr)
      · exact Post.ret h
    · exact Post.ret h

theorem foldl_post {α : Type} (xs : List α) (f : Agent × List Out → α → Agent × List Out) {L : Log}
    (acc : Agent × List Out) (h0 : Post Good Sane SaneR tag lite R L acc)
    (hstep : ∀ acc x, x ∈ xs → Post Good Sane SaneR tag lite R L acc → Post Good Sane SaneR tag lite R L (f acc x)) :
    Post Good Sane SaneR tag lite R L (xs.foldl f acc) := by
  induction xs generalizing acc with
  | nil => exact h0
  | cons x xs ih =>
    simp only [List.foldl_cons]
    exact ih _ (hstep _ _ (List.mem_cons_self) h0) (fun acc y hy => hstep acc y (List.mem_cons_of_mem _ hy))

theorem pairById_mem {a : Agent} {id : Nat} {p : Pair} (h : a.pairById id = some p) : p ∈ a.checklist ∧ p.id = id := by
  refine ⟨List.mem_of_find?_eq_some h, ?_⟩
  have := List.find?_some h
  simpa using this

theorem nosucc_of_pairById {a : Agent} {L : Log} (h : AInv Good Sane SaneR tag lite (view a) L) {id : Nat} {p : Pair}
    (hp : a.pairById id = some p) (hns : p.state ≠ .succeeded) :
    ∀ q ∈ (view a).pairs, q.id = id → q.succ = false := by
  intro q hq hqid
  obtain ⟨hpm, hpid⟩ := pairById_mem hp
  have : q = pv p := pv_eq_of_id h.pairUniq hq (mem_checklist_pv hpm) (by rw [hqid]; exact hpid.symm)
  rw [this]
  simp [pv, hns]

theorem view_modPair_nosucc (a : Agent) (id : Nat) (f : Pair → Pair)
    (hns : ∀ q ∈ (view a).pairs, q.id = id → q.succ = false)
    (hf : ∀ q : Pair, q.state ≠ .succeeded → pv (f q) = pv q) : view (a.modPair id f) = view a := by
  simp only [view, Agent.modPair]
  congr 1
  unfold updPair
  rw [List.map_map]
  apply List.map_congr_left
  intro q hq
  simp only [Function.comp]
  split
  · rename_i hid
    have h1 := hns (pv q) (mem_checklist_pv hq) (by simpa [pv] using hid)
    apply hf
    intro hs
    simp [pv, hs] at h1
  · rfl

theorem pv_set_state (q : Pair) (s : PairState) (hs : s ≠ .succeeded) (hq : q.state ≠ .succeeded) :
    pv { q with state := s } = pv q := by
  have h1 : (s == PairState.succeeded) = false := by cases s <;> first | rfl | exact absurd rfl hs
  have h2 : (q.state == PairState.succeeded) = false := by
    cases h : q.state <;> first | rfl | exact absurd h hq
  simp [pv, h1, h2]

def pingTail (now id : Nat) (o : List Out) (a : Agent) (p : Pair) : Agent × List Out :=
  if p.reqCount > a.cfg.maxBindingRequests then
    (a.modPair id fun p => { p with state := .failed }, o)
  else
    match a.localOf p.l, a.remoteOf p.r with
    | some l, some r =>
      let (a, o') := a.ping now l r
      (a.modPair id fun p => { p with reqCount := p.reqCount + 1 }, o ++ o')
    | _, _ => (a, o)

theorem pingTail_post {a : Agent} {L : Log} {o : List Out} (hacc : Post Good Sane SaneR tag lite R L (a, o)) (now id : Nat) (p : Pair)
    (hns : ∀ q ∈ (view a).pairs, q.id = id → q.succ = false) :
    Post Good Sane SaneR tag lite R L (pingTail now id o a p) := by
  unfold pingTail
  split
  · refine Post.congr hacc ?_
    exact view_modPair_nosucc a id _ hns (fun q hq => pv_set_state q _ (by decide) hq)
  · split
    · rename_i l r hl hr
      simp only []
      generalize heq : Agent.ping _ _ _ _ = r
      obtain ⟨a', o'⟩ := r
      simp only []
      have h2 : Post Good Sane SaneR tag lite R (L ++ reqs o) (a', o') :=
        Post.of_eq heq (ping_post hacc.1 now l r (localOf_sane hacc.1 hl) (remoteOf_sane hacc.1 hr))
      have h3 := Post.seq hacc h2
      refine Post.congr h3 ?_
      rw [view_modPair]
      intro q; rfl
    · exact hacc

theorem pingAll_post {a : Agent} {L : Log} (h : AInv Good Sane SaneR tag lite (view a) L) (now : Nat) :
    Post Good Sane SaneR tag lite R L (a.pingAll now) := by
  unfold Agent.pingAll
  apply foldl_post _ _ _ (Post.ret h)
  intro acc id _ hacc
  obtain ⟨a, o⟩ := acc
  simp only []
  split
  · exact hacc
  · rename_i p hp
    generalize ha1 : a.modPair id _ = a1
    generalize hp1 : ({ p with state := .inProgress } : Pair) = p1
    by_cases hw : p.state = .waiting
    · have hns := nosucc_of_pairById hacc.1 hp (by rw [hw]; decide)
      have hv : view a1 = view a := by
        rw [← ha1]; exact view_modPair_nosucc a id _ hns (fun q hq => pv_set_state q _ (by decide) hq)
      have e1 : (p.state == PairState.waiting) = true := by simp [hw]
      simp only [e1, ↓reduceIte]
      change Post Good Sane SaneR tag lite R L (pingTail now id o a1 p1)
      exact pingTail_post (Post.congr hacc hv) now id p1 (by rw [hv]; exact hns)
    · have e1 : (p.state == PairState.waiting) = false := by simp [hw]
      simp only [e1, Bool.false_eq_true, ↓reduceIte]
      by_cases hi : p.state = .inProgress
      · have hns := nosucc_of_pairById hacc.1 hp (by rw [hi]; decide)
        have e2 : (p.state == PairState.inProgress) = true := by simp [hi]
        simp only [e2]
        change Post Good Sane SaneR tag lite R L (pingTail now id o a p)
        exact pingTail_post hacc now id p hns
      · have e2 : (p.state == PairState.inProgress) = false := by simp [hi]
        simp only [e2]
        exact hacc

/-! ## timer-driven work -/

theorem validateKeepalive_post {a : Agent} {L : Log} (h : AInv Good Sane SaneR tag lite (view a) L) (now : Nat) :
    Post Good Sane SaneR tag lite R L
      (match a.validateSelected now with
       | (a, o, ok) => if ok = true then match a.keepalive now with | (a, o') => (a, o ++ o') else (a, o)) := by
  have h1 := validateSelected_post (R := R) h now
  generalize heq : a.validateSelected now = r at h1
  obtain ⟨a', o', ok⟩ := r
  simp only [] at h1 ⊢
  split
  · generalize heq2 : a'.keepalive now = r2
    obtain ⟨a2, o2⟩ := r2
    exact Post.seq h1 (Post.of_eq heq2 (keepalive_post h1.1 now))
  · exact h1

/-- the automatic-renomination block: checks and one nominating request, all from listed local to listed remote candidates -/
theorem autoRenom_post {a : Agent} {L : Log} (h : AInv Good Sane SaneR tag lite (view a) L) (now : Nat) :
    Post Good Sane SaneR tag lite R L (a.autoRenom now) := by
  refine IceProofs.Auto.autoRenom_parts (P := fun x => Post Good Sane SaneR tag lite R L x) ?_ a (Post.ret h)
  exact {
    mark := fun b o id p hacc hp hw =>
      Post.congr (r := (b, o)) hacc (view_modPair_nosucc b id _ (nosucc_of_pairById hacc.1 hp (by rw [hw]; decide))
        (fun q hq => pv_set_state q _ (by decide) hq))
    ping := fun b o l r hacc hl hr =>
      Post.seq (r1 := (b, o)) hacc (ping_post hacc.1 now l r (hacc.1.locSane _ (mem_locals_cv hl)) (hacc.1.remSane _ (mem_remotes_cv hr)))
    time := fun b o hacc => Post.congr (r := (b, o)) hacc rfl
    count := fun b o hacc => Post.congr (r := (b, o)) hacc rfl
    issue := fun b o l r nom hacc hl hr _ _ _ =>
      Post.seq (r1 := (b, o)) hacc (sendRequest_post hacc.1 now l r true nom (hacc.1.locSane _ (mem_locals_cv hl))
        (hacc.1.remSane _ (mem_remotes_cv hr)))
    log := fun b o _ hacc => Post.congr (r := (b, o)) hacc rfl }

theorem validateKeepaliveAuto_post {a : Agent} {L : Log} (h : AInv Good Sane SaneR tag lite (view a) L) (now : Nat) :
    Post Good Sane SaneR tag lite R L
      (match a.validateSelected now with
       | (a, o, ok) =>
         if ok = true then match a.keepalive now with
           | (a, o') => match a.autoRenom now with | (a, o'') => (a, o ++ o' ++ o'')
         else (a, o)) := by
  have h1 := validateSelected_post (R := R) h now
  generalize heq : a.validateSelected now = r at h1
  obtain ⟨a', o', ok⟩ := r
  simp only [] at h1 ⊢
  split
  · generalize heq2 : a'.keepalive now = r2
    obtain ⟨a2, o2⟩ := r2
    have h2 := Post.seq h1 (Post.of_eq heq2 (keepalive_post h1.1 now))
    generalize heq3 : a2.autoRenom now = r3
    obtain ⟨a3, o3⟩ := r3
    exact Post.seq h2 (Post.of_eq heq3 (autoRenom_post h2.1 now))
  · exact h1

theorem contactCandidates_post {a : Agent} {L : Log} (h : AInv Good Sane SaneR tag lite (view a) L) (now : Nat) :
    Post Good Sane SaneR tag lite R L (a.contactCandidates now) := by
  unfold Agent.contactCandidates
  split
  · split
    · exact validateKeepaliveAuto_post h now
    · split
      · exact nominate_post h now _
      · split
        · exact Post.ret h
        · split
          · split
            · split
              · rename_i p hbv _ _ l r hl hr hn
                simp only []
                refine nominate_post ?_ now p
                have hv : view (a.modPair p.id fun p => { p with nominated := true }) = view a := by
                  rw [view_modPair]; intro q; rfl
                exact hv ▸ h
              · exact pingAll_post h now
            · exact pingAll_post h now
          · exact pingAll_post h now
  · split
    · have h1 := validateSelected_post (R := R) h now
      generalize heq : a.validateSelected now = r at h1
      obtain ⟨a', o', ok⟩ := r
      exact h1
    · split
      · exact validateKeepalive_post h now
      · exact pingAll_post h now

theorem contact_post {a : Agent} {L : Log} (h : AInv Good Sane SaneR tag lite (view a) L) (now : Nat) :
    Post Good Sane SaneR tag lite R L (a.contact now) := by
  unfold Agent.contact
  split
  · exact Post.ret h
  · simp only []
    split
    · exact Post.ret h
    · generalize ha1 : (if (a.lastSeen != ConnState.checking) = true then _ else a) = a1
      have hv : view a1 = view a := by rw [← ha1]; split <;> rfl
      have h1 : AInv Good Sane SaneR tag lite (view a1) L := hv ▸ h
      split
      · exact Post.congr (r := a1.setConnState .failed) (setConnState_post h1 .failed (by simp [isLive]) (by simp)) rfl
      · exact Post.congr (r := a1.contactCandidates now) (contactCandidates_post h1 now) rfl
    · exact Post.congr (r := a.contactCandidates now) (contactCandidates_post h now) rfl

theorem runForced_post {a : Agent} {L : Log} (h : AInv Good Sane SaneR tag lite (view a) L) (now : Nat) :
    Post Good Sane SaneR tag lite R L (a.runForced now) := by
  unfold Agent.runForced
  split
  · generalize heq : Agent.contact _ _ = r
    obtain ⟨a', o'⟩ := r
    simp only []
    exact Post.congr (r := (a', o')) (Post.of_eq heq (contact_post (by exact h) now)) rfl
  · exact Post.ret h

theorem runTimers_post {a : Agent} {L : Log} (h : AInv Good Sane SaneR tag lite (view a) L) (now fuel : Nat) :
    Post Good Sane SaneR tag lite R L (a.runTimers now fuel) := by
  induction fuel generalizing a L with
  | zero => exact Post.ret h
  | succ n ih =>
    unfold Agent.runTimers
    split
    · split
      · rename_i t ht hc
        generalize heq : Agent.contact _ _ = r
        obtain ⟨a', o'⟩ := r
        have h1 : Post Good Sane SaneR tag lite R L (a', o') := Post.of_eq heq (contact_post h t)
        simp only []
        generalize heq2 : Agent.runTimers _ _ _ = r2
        obtain ⟨a2, o2⟩ := r2
        have h1' : Post Good Sane SaneR tag lite R L ({ a' with nextTick := some (t + a'.interval) }, o') :=
          Post.congr (r := (a', o')) h1 rfl
        exact Post.seq h1' (Post.of_eq heq2 (ih h1'.1))
      · exact Post.ret h
    · exact Post.ret h

/-! ## candidates and pairs -/

theorem foldl_inv_mem {α β : Type} (P : β → Prop) (f : β → α → β) (l : List α) (b : β)
    (h0 : P b) (hs : ∀ b a, a ∈ l → P b → P (f b a)) : P (l.foldl f b) := by
  induction l generalizing b with
  | nil => exact h0
  | cons a l ih =>
    simp only [List.foldl_cons]
    exact ih _ (hs _ _ List.mem_cons_self h0) (fun b x hx => hs b x (List.mem_cons_of_mem _ hx))

theorem view_addPair (a : Agent) (l r : Cand) :
    view (a.addPair l r).1 =
      { view a with nextPairID := a.nextPairID + 1, pairs := (view a).pairs ++ [⟨a.nextPairID + 1, l.uid, r.uid, false, false⟩] } := by
  simp [view, Agent.addPair, pv]

theorem addPair_inv {a : Agent} {L : Log} (h : AInv Good Sane SaneR tag lite (view a) L) (l r : Cand)
    (hl : l.uid < a.nextUid) (hr : r.uid < a.nextUid) : AInv Good Sane SaneR tag lite (view (a.addPair l r).1) L := by
  rw [view_addPair]
  exact h.addPair l.uid r.uid hl hr

theorem addLocalCandidate_post {a : Agent} {L : Log} (h : AInv Good Sane SaneR tag lite (view a) L) (c : Cand)
    (hc : Sane c.addr) : Post Good Sane SaneR tag lite R L (a.addLocalCandidate c) := by
  unfold Agent.addLocalCandidate
  split
  · exact Post.outs h rfl (by intro x hx; simp at hx; subst hx; trivial)
  · split
    · exact Post.outs h rfl (by intro x hx; simp at hx; subst hx; trivial)
    · simp only []
      refine Post.outs ?_ rfl (by intro x hx; simp at hx; rcases hx with rfl | rfl <;> trivial)
      show AInv Good Sane SaneR tag lite (view (List.foldl _ _ _)) L
      have h1 : AInv Good Sane SaneR tag lite
          (view { a with nextUid := a.nextUid + 1, locals := a.locals ++ [{ c with uid := a.nextUid }] }) L := by
        have := h.addLocal c.addr hc
        simpa [view, cv] using this
      refine (foldl_inv_mem (fun (x : Agent) => AInv Good Sane SaneR tag lite (view x) L ∧ x.nextUid = a.nextUid + 1)
        _ _ _ ⟨h1, rfl⟩ ?_).1
      intro b r hr hb
      have hr' : r ∈ a.remotes := (List.mem_filter.mp hr).1
      have hru := h.uidR _ (mem_remotes_cv hr')
      refine ⟨addPair_inv hb.1 _ r ?_ ?_, hb.2⟩
      · rw [hb.2]; exact Nat.lt_succ_self _
      · rw [hb.2]; exact Nat.lt_succ_of_lt hru

theorem view_modPair_upd (a : Agent) (id : Nat) (f : Pair → Pair) (g : PV → PV) (hfg : ∀ p, pv (f p) = g (pv p)) :
    view (a.modPair id f) = { view a with pairs := updPV (view a).pairs id g } := by
  simp only [view, Agent.modPair]
  congr 1
  unfold updPair updPV
  rw [List.map_map, List.map_map]
  apply List.map_congr_left
  intro p _
  simp only [Function.comp]
  have e : (pv p).id = p.id := rfl
  rw [e]
  split <;> simp [hfg]

theorem view_setConnState (a : Agent) (s : ConnState) (hs : s ≠ .failed) :
    view (a.setConnState s).1 = { view a with live := isLive s } := by
  unfold Agent.setConnState
  split
  · rename_i he
    have he' : a.connState = s := by simpa using he
    simp [view, he']
  · have : (s == ConnState.failed) = false := by cases s <;> first | rfl | exact absurd rfl hs
    simp [this, view]

def selectPre (a : Agent) (id : Nat) : Agent :=
  { (a.modPair id fun p => { p with nominated := true }) with selected := some id, onConnectedFired := true }

theorem select_fst (a : Agent) (id : Nat) : (a.select id).1 = ((selectPre a id).setConnState .connected).1 := rfl

theorem view_selectPre (a : Agent) (id : Nat) : view (selectPre a id) = { view a with sel := some id } := by
  have hv : view (a.modPair id fun p => { p with nominated := true }) = view a := by
    rw [view_modPair]; intro q; rfl
  show { view (a.modPair id fun p => { p with nominated := true }) with sel := some id } = _
  rw [hv]

theorem view_select (a : Agent) (id : Nat) :
    view (a.select id).1 = { view a with sel := some id, live := true } := by
  rw [select_fst, view_setConnState _ _ (by decide), view_selectPre]
  rfl

/-- remote candidates and the uid counter are untouched. -/
def Stable (a a' : Agent) : Prop := (view a').rems = (view a).rems ∧ (view a').nextUid = (view a).nextUid

theorem Stable.refl (a : Agent) : Stable a a := ⟨rfl, rfl⟩
theorem Stable.trans {a b c : Agent} (h1 : Stable a b) (h2 : Stable b c) : Stable a c :=
  ⟨h2.1.trans h1.1, h2.2.trans h1.2⟩

theorem pairById_pv_mem {a : Agent} {id : Nat} {p : Pair} (h : a.pairById id = some p) :
    pv p ∈ (view a).pairs ∧ (pv p).id = id :=
  ⟨mem_checklist_pv (pairById_mem h).1, (pairById_mem h).2⟩

theorem replaceRemoteInPairs_post {a : Agent} {L : Log} (h : AInv Good Sane SaneR tag lite (view a) L) (old c : Cand) (A : Nat)
    (hc : c.uid < a.nextUid)
    (h1 : addrOf (view a).rems old.uid = some A) (h2 : ∀ x, addrOf (view a).rems c.uid = some x → x = A) :
    Post Good Sane SaneR tag lite R L (a.replaceRemoteInPairs old c) ∧ Stable a (a.replaceRemoteInPairs old c).1 := by
  unfold Agent.replaceRemoteInPairs
  refine foldl_inv_mem (fun (x : Agent × List Out) => Post Good Sane SaneR tag lite R L x ∧ Stable a x.1) _ _ _
    ⟨Post.ret h, Stable.refl a⟩ ?_
  intro acc id _ hacc
  obtain ⟨b, o⟩ := acc
  obtain ⟨hb, hst⟩ := hacc
  simp only []
  split
  · rename_i p hp
    split
    · rename_i hpr
      have hpr' : p.r = old.uid := by simpa using hpr
      generalize hf : (fun (p : Pair) => ({ p with r := c.uid, prioOverride := some (b.pairPrio _) } : Pair)) = f
      have hv : view (b.modPair id f) = { view b with pairs := updPV (view b).pairs id (fun q => { q with r := c.uid }) } := by
        apply view_modPair_upd
        intro q; rw [← hf]; rfl
      have hb1 : AInv Good Sane SaneR tag lite (view (b.modPair id f)) (L ++ reqs o) := by
        rw [hv]
        refine hb.1.updPair id _ (fun _ => rfl) (fun _ => rfl) ?_ ?_ (fun _ _ _ hs => hs) ?_
        · intro q _ _
          show c.uid < (view b).nextUid
          rw [hst.2]; exact hc
        · intro hl q hq hqid hqs
          have hq' : q = pv p := pv_eq_of_id hb.1.pairUniq hq (pairById_pv_mem hp).1 (by rw [hqid, (pairById_pv_mem hp).2])
          obtain ⟨la, ra, hg, hl1, hr1⟩ := hb.1.succOK hl q hq hqs
          refine ⟨la, ra, hg, hl1, ?_⟩
          intro x hx
          show x = ra
          have hra : A = ra := by
            apply hr1
            rw [hq']
            show addrOf (view b).rems p.r = some A
            rw [hpr', hst.1]; exact h1
          rw [← hra]
          apply h2
          rw [← hst.1]; exact hx
        · intro q hq hqid hqr
          have hq' : q = pv p := pv_eq_of_id hb.1.pairUniq hq (pairById_pv_mem hp).1 (by rw [hqid, (pairById_pv_mem hp).2])
          obtain ⟨e, he, hl1, hr1⟩ := hb.1.respOK q hq hqr
          refine ⟨e, he, hl1, ?_⟩
          intro x hx
          show x = e.2.2
          have hra : A = e.2.2 := by
            apply hr1
            rw [hq']
            show addrOf (view b).rems p.r = some A
            rw [hpr', hst.1]; exact h1
          rw [← hra]
          apply h2
          rw [← hst.1]; exact hx
      have hst1 : Stable a (b.modPair id f) := by
        refine ⟨?_, ?_⟩
        · rw [hv]; exact hst.1
        · rw [hv]; exact hst.2
      split
      · rename_i hsel
        have hsel' : (view (b.modPair id f)).sel = some id := by simpa [view] using hsel
        generalize heq : Agent.select _ _ = r
        obtain ⟨a', o'⟩ := r
        have hp2 : Post Good Sane SaneR tag lite R (L ++ reqs o) (a', o') :=
          Post.of_eq heq (select_post hb1 id (hb1.selOK id hsel'))
        refine ⟨Post.seq (r1 := (b.modPair id f, o)) ⟨hb1, hb.2⟩ hp2, ?_⟩
        have hv2 := view_select (b.modPair id f) id
        rw [heq] at hv2
        refine Stable.trans hst1 ⟨?_, ?_⟩
        · show (view a').rems = _
          rw [hv2]
        · show (view a').nextUid = _
          rw [hv2]
      · exact ⟨⟨hb1, hb.2⟩, hst1⟩
    · exact ⟨hb, hst⟩
  · exact ⟨hb, hst⟩

/-! ## addRemoteCandidate, cut into stages (the equation is checked by `rfl`) -/

def arcC1 (a : Agent) (c : Cand) : Cand := { c with uid := a.nextUid }

def arcReplaced (a : Agent) (c : Cand) : List Cand :=
  if (arcC1 a c).ty == 3 then [] else a.remotes.filter fun e => e.net == (arcC1 a c).net && e.ty == 3 && e.taEqual (arcC1 a c)

def arcC (a : Agent) (c : Cand) : Cand := (arcReplaced a c).foldl copyActivity (arcC1 a c)

def arc2 (a : Agent) (c : Cand) : Agent := { a with nextUid := a.nextUid + 1, remotes := a.remotes ++ [arcC a c] }

def arcLoop (a : Agent) (c : Cand) : Agent × List Out :=
  (arcReplaced a c).foldl (fun (acc : Agent × List Out) (old : Cand) =>
    let r := acc.1.replaceRemoteInPairs old (arcC a c)
    let a1 : Agent := r.1
    let a2 : Agent := { a1 with caches := a1.caches.map fun (x : Nat × Nat × Nat) => if x.2.2 == old.uid then (x.1, x.2.1, (arcC a c).uid) else x }
    (a2, acc.2 ++ r.2)) (arc2 a c, [])

def arc3 (a : Agent) (c : Cand) : Agent :=
  { (arcLoop a c).1 with remotes := (arcLoop a c).1.remotes.filter fun (e : Cand) => !((arcReplaced a c).any fun (x : Cand) => x.uid == e.uid) }

def arc4 (a : Agent) (c : Cand) : Agent :=
  ((arc3 a c).locals.filter fun (x : Cand) => x.net == (arcC a c).net && (arcC a c).tt != 2).foldl (fun (a' : Agent) (l : Cand) =>
    match a'.findPair l (arcC a c) with
    | some _ => a'
    | none => (a'.addPair l (arcC a c)).1) (arc3 a c)

theorem addRemoteCandidate_eq (a : Agent) (c : Cand) :
    a.addRemoteCandidate c =
      if a.cfg.blockedIPs.contains (ipOf c.addr) then (a, [], none)
      else match (a.remotes.filter (·.net == c.net)).find? (·.equal c) with
        | some e => (a, [], some e)
        | none => ((arc4 a c).requestCheck, (arcLoop a c).2, some (arcC a c)) := rfl

theorem copyActivity_cv (dst src : Cand) : cv (copyActivity dst src) = cv dst ∧ (copyActivity dst src).net = dst.net := by
  unfold copyActivity
  simp only []
  split <;> split <;> exact ⟨rfl, rfl⟩

theorem foldl_copyActivity_cv (l : List Cand) (c : Cand) :
    cv (l.foldl copyActivity c) = cv c ∧ (l.foldl copyActivity c).net = c.net := by
  induction l generalizing c with
  | nil => exact ⟨rfl, rfl⟩
  | cons x l ih =>
    simp only [List.foldl_cons]
    have h1 := ih (copyActivity c x)
    have h2 := copyActivity_cv c x
    exact ⟨h1.1.trans h2.1, h1.2.trans h2.2⟩

theorem arcC_cv (a : Agent) (c : Cand) : cv (arcC a c) = ⟨a.nextUid, c.addr⟩ ∧ (arcC a c).net = c.net := by
  have := foldl_copyActivity_cv (arcReplaced a c) (arcC1 a c)
  exact ⟨this.1, this.2⟩

theorem arcC_uid (a : Agent) (c : Cand) : (arcC a c).uid = a.nextUid := congrArg CV.uid (arcC_cv a c).1
theorem arcC_addr (a : Agent) (c : Cand) : (arcC a c).addr = c.addr := congrArg CV.addr (arcC_cv a c).1

theorem view_arc2 (a : Agent) (c : Cand) :
    view (arc2 a c) = { view a with nextUid := a.nextUid + 1, rems := (view a).rems ++ [⟨a.nextUid, c.addr⟩] } := by
  simp only [view, arc2, List.map_append, List.map_cons, List.map_nil, (arcC_cv a c).1]

theorem arc2_inv {a : Agent} {L : Log} (h : AInv Good Sane SaneR tag lite (view a) L) (c : Cand) (hc : SaneR c.addr) :
    AInv Good Sane SaneR tag lite (view (arc2 a c)) L := by
  rw [view_arc2]; exact h.addRemote c.addr hc

theorem mem_arcReplaced {a : Agent} {c old : Cand} (h : old ∈ arcReplaced a c) : old ∈ a.remotes ∧ old.addr = c.addr := by
  unfold arcReplaced at h
  split at h
  · cases h
  · have := List.mem_filter.mp h
    refine ⟨this.1, ?_⟩
    have h2 := this.2
    simp [Cand.taEqual, arcC1] at h2
    exact h2.2.1.2

theorem arcLoop_post {a : Agent} {L : Log} (h : AInv Good Sane SaneR tag lite (view a) L) (c : Cand) (hc : SaneR c.addr) :
    Post Good Sane SaneR tag lite R L (arcLoop a c) ∧ Stable (arc2 a c) (arcLoop a c).1 := by
  have h2 := arc2_inv h c hc
  have hrems : (view (arc2 a c)).rems = (view a).rems ++ [⟨a.nextUid, c.addr⟩] := by rw [view_arc2]
  have hnu : (view (arc2 a c)).nextUid = a.nextUid + 1 := by rw [view_arc2]
  unfold arcLoop
  refine foldl_inv_mem (fun (x : Agent × List Out) => Post Good Sane SaneR tag lite R L x ∧ Stable (arc2 a c) x.1) _ _ _
    ⟨Post.ret h2, Stable.refl _⟩ ?_
  intro acc old hold hacc
  obtain ⟨b, o⟩ := acc
  obtain ⟨hb, hst⟩ := hacc
  obtain ⟨hom, hoa⟩ := mem_arcReplaced hold
  simp only []
  have hr := replaceRemoteInPairs_post (R := R) hb.1 old (arcC a c) c.addr
    (by rw [arcC_uid]; show a.nextUid < (view b).nextUid; rw [hst.2, hnu]; exact Nat.lt_succ_self _)
    (by
      show addrOf (view b).rems old.uid = some c.addr
      rw [hst.1, ← hoa]
      refine addrOf_of_mem_uniq (c := cv old) h2.uniqR ?_
      rw [hrems]; exact List.mem_append_left _ (mem_remotes_cv hom))
    (by
      intro x hx
      have hx' : addrOf (view b).rems (arcC a c).uid = some x := hx
      rw [hst.1, arcC_uid] at hx'
      have := addrOf_of_mem_uniq (c := ⟨a.nextUid, c.addr⟩) h2.uniqR (by rw [hrems]; simp)
      simp only [] at this
      rw [this] at hx'
      exact (Option.some.inj hx').symm)
  refine ⟨?_, ?_⟩
  · exact Post.congr (r := ((b.replaceRemoteInPairs old (arcC a c)).1, o ++ (b.replaceRemoteInPairs old (arcC a c)).2))
      (Post.seq (r1 := (b, o)) hb hr.1) rfl
  · exact Stable.trans hst hr.2

theorem view_arc3 (a : Agent) (c : Cand) :
    view (arc3 a c) = { view (arcLoop a c).1 with
      rems := (view (arcLoop a c).1).rems.filter fun v => !((arcReplaced a c).any fun x => x.uid == v.uid) } := by
  simp only [view, arc3, List.filter_map]
  rfl

theorem arc3_inv {a : Agent} {L : Log} (h : AInv Good Sane SaneR tag lite (view a) L) (c : Cand) (hc : SaneR c.addr) :
    AInv Good Sane SaneR tag lite (view (arc3 a c)) (L ++ reqs (arcLoop a c).2) ∧ (arc3 a c).nextUid = a.nextUid + 1 := by
  have hl := arcLoop_post (R := fun _ _ _ => False) h c hc
  refine ⟨?_, ?_⟩
  · rw [view_arc3]
    exact hl.1.1.filterRemotes _
  · have := hl.2.2
    rw [view_arc2] at this
    exact this

theorem arc4_inv {a : Agent} {L : Log} (h : AInv Good Sane SaneR tag lite (view a) L) (c : Cand) (hc : SaneR c.addr) :
    AInv Good Sane SaneR tag lite (view (arc4 a c)) (L ++ reqs (arcLoop a c).2) ∧ (arc4 a c).nextUid = a.nextUid + 1 := by
  have h3 := arc3_inv h c hc
  unfold arc4
  refine foldl_inv_mem (fun (x : Agent) => AInv Good Sane SaneR tag lite (view x) (L ++ reqs (arcLoop a c).2) ∧ x.nextUid = a.nextUid + 1)
    _ _ _ h3 ?_
  intro b l hl hb
  have hl' : l ∈ (arc3 a c).locals := (List.mem_filter.mp hl).1
  have hlu : l.uid < a.nextUid + 1 := by
    have := h3.1.uidL _ (mem_locals_cv hl')
    rw [← h3.2]; exact this
  split
  · exact hb
  · refine ⟨addPair_inv hb.1 l _ ?_ ?_, hb.2⟩
    · rw [hb.2]; exact hlu
    · rw [hb.2, arcC_uid]; exact Nat.lt_succ_self _

theorem addRemoteCandidate_post {a : Agent} {L : Log} (h : AInv Good Sane SaneR tag lite (view a) L) (c : Cand)
    (hc : SaneR c.addr) :
    Post Good Sane SaneR tag lite R L ((a.addRemoteCandidate c).1, (a.addRemoteCandidate c).2.1)
    ∧ a.nextUid ≤ (a.addRemoteCandidate c).1.nextUid
    ∧ ∀ r, (a.addRemoteCandidate c).2.2 = some r → r.addr = c.addr ∧ r.uid < (a.addRemoteCandidate c).1.nextUid := by
  rw [addRemoteCandidate_eq]
  split
  · exact ⟨Post.ret h, Nat.le_refl _, by simp⟩
  · split
    · rename_i e he
      refine ⟨Post.ret h, Nat.le_refl _, ?_⟩
      intro r hr
      simp at hr
      subst hr
      have hm := List.mem_of_find?_eq_some he
      have he' := List.find?_some he
      simp [Cand.equal, Cand.taEqual] at he'
      exact ⟨he'.1.1.1.2, h.uidR _ (mem_remotes_cv (List.mem_filter.mp hm).1)⟩
    · have h4 := arc4_inv h c hc
      have hl := arcLoop_post (R := R) h c hc
      refine ⟨⟨h4.1, hl.1.2⟩, ?_, ?_⟩
      · show a.nextUid ≤ (arc4 a c).nextUid
        rw [h4.2]; exact Nat.le_succ _
      · intro r hr
        simp at hr
        subst hr
        refine ⟨arcC_addr a c, ?_⟩
        show (arcC a c).uid < (arc4 a c).nextUid
        rw [h4.2, arcC_uid]; exact Nat.lt_succ_self _

/-! ## inbound STUN -/

theorem takePending_spec (a : Agent) (now tid : Nat) :
    (∃ pend', view (a.takePending now tid).1 = { view a with pend := pend' } ∧ ∀ x ∈ pend', x ∈ (view a).pend)
    ∧ ∀ pd, (a.takePending now tid).2 = some pd → pd ∈ a.pending ∧ pd.tid = tid := by
  unfold Agent.takePending
  simp only []
  split
  · rename_i p hp
    refine ⟨⟨_, rfl, ?_⟩, ?_⟩
    · intro x hx
      obtain ⟨q, hq, rfl⟩ := List.mem_map.mp hx
      have := (List.mem_filter.mp hq).1
      simp only [Agent.invalidatePending] at this
      exact List.mem_map.mpr ⟨q, (List.mem_filter.mp this).1, rfl⟩
    · intro pd hpd
      simp at hpd
      subst hpd
      have h1 := List.mem_of_find?_eq_some hp
      have h2 := List.find?_some hp
      simp only [Agent.invalidatePending] at h1
      exact ⟨(List.mem_filter.mp h1).1, by simpa using h2⟩
  · refine ⟨⟨_, rfl, ?_⟩, by simp⟩
    intro x hx
    obtain ⟨q, hq, rfl⟩ := List.mem_map.mp hx
    simp only [Agent.invalidatePending] at hq
    exact List.mem_map.mpr ⟨q, (List.mem_filter.mp hq).1, rfl⟩

theorem findPair_spec {a : Agent} {l r : Cand} {q : Pair} (h : a.findPair l r = some q) :
    q ∈ a.checklist ∧ ∃ pl pr, a.localOf q.l = some pl ∧ a.remoteOf q.r = some pr ∧ pl.addr = l.addr ∧ pr.addr = r.addr := by
  refine ⟨List.mem_of_find?_eq_some h, ?_⟩
  have h2 := List.find?_some h
  split at h2
  · rename_i pl pr hl hr
    simp [Cand.equal, Cand.taEqual] at h2
    exact ⟨pl, pr, hl, hr, h2.1.1.1.1.2, h2.2.1.1.1.2⟩
  · cases h2

theorem addrOf_locs_of_localOf {a : Agent} {u : Nat} {c : Cand} (h : a.localOf u = some c) :
    addrOf (view a).locs u = some c.addr := by
  show addrOf (a.locals.map cv) u = _
  rw [addrOf_view]
  have : findCand a.locals u = some c := h
  rw [this]; rfl

theorem addrOf_rems_of_remoteOf {a : Agent} {u : Nat} {c : Cand} (h : a.remoteOf u = some c) :
    addrOf (view a).rems u = some c.addr := by
  show addrOf (a.remotes.map cv) u = _
  rw [addrOf_view]
  have : findCand a.remotes u = some c := h
  rw [this]; rfl

/-- marking the pair found by `findPair l r` Succeeded with a response of its own, given that `(l.addr, r.addr)`
is `Good` (full agents) and that a request from `l.addr` to `r.addr` is logged. -/
theorem markSucceeded_inv {a : Agent} {L : Log} (h : AInv Good Sane SaneR tag lite (view a) L) {l r : Cand} {p : Pair}
    (hp : a.findPair l r = some p) (f : Pair → Pair) (hf : ∀ q, pv (f q) = { pv q with succ := true, resp := true })
    (hg : lite = false → Good l.addr r.addr) (hown : ∃ e ∈ L, e.2.1 = l.addr ∧ e.2.2 = r.addr) :
    AInv Good Sane SaneR tag lite (view (a.modPair p.id f)) L := by
  rw [view_modPair_upd a p.id f (fun q => { q with succ := true, resp := true }) hf]
  obtain ⟨hpm, pl, pr, hpl, hpr, hla, hra⟩ := findPair_spec hp
  refine h.updPair p.id _ (fun _ => rfl) (fun _ => rfl) ?_ ?_ (fun _ _ _ _ => rfl) ?_
  · intro q hq _
    exact (h.pairUid q hq).2
  · intro hl q hq hqid _
    have hq' : q = pv p := pv_eq_of_id h.pairUniq hq (mem_checklist_pv hpm) hqid
    refine ⟨l.addr, r.addr, hg hl, ?_, ?_⟩
    · intro x hx
      rw [hq'] at hx
      have := addrOf_locs_of_localOf hpl
      have e : (pv p).l = p.l := rfl
      rw [e, this] at hx
      rw [← hla]; exact (Option.some.inj hx).symm
    · intro x hx
      rw [hq'] at hx
      have := addrOf_rems_of_remoteOf hpr
      have e : (pv p).r = p.r := rfl
      simp only [e] at hx
      rw [this] at hx
      rw [← hra]; exact (Option.some.inj hx).symm
  · intro q hq hqid _
    have hq' : q = pv p := pv_eq_of_id h.pairUniq hq (mem_checklist_pv hpm) hqid
    obtain ⟨e, he, he1, he2⟩ := hown
    refine ⟨e, he, ?_, ?_⟩
    · intro x hx
      rw [hq'] at hx
      have := addrOf_locs_of_localOf hpl
      have e' : (pv p).l = p.l := rfl
      rw [e', this] at hx
      rw [he1, ← hla]; exact (Option.some.inj hx).symm
    · intro x hx
      rw [hq'] at hx
      have := addrOf_rems_of_remoteOf hpr
      have e' : (pv p).r = p.r := rfl
      simp only [e'] at hx
      rw [this] at hx
      rw [he2, ← hra]; exact (Option.some.inj hx).symm

theorem succ_pair_after_mark {a : Agent} {l r : Cand} {p : Pair} (hp : a.findPair l r = some p) (f : Pair → Pair)
    (hf : ∀ q, pv (f q) = { pv q with succ := true, resp := true }) :
    ∃ q ∈ (view (a.modPair p.id f)).pairs, q.id = p.id ∧ q.succ = true := by
  rw [view_modPair_upd a p.id f (fun q => { q with succ := true, resp := true }) hf]
  refine ⟨{ pv p with succ := true, resp := true }, ?_, rfl, rfl⟩
  show _ ∈ updPV (view a).pairs p.id _
  unfold updPV
  exact List.mem_map.mpr ⟨pv p, mem_checklist_pv (findPair_spec hp).1, by simp [pv]⟩

theorem handleSuccess_post {a : Agent} {L : Log} (h : AInv Good Sane SaneR tag lite (view a) L) (now : Nat) (m : Msg)
    (l r : Cand) (src : Nat) (hr : r.addr = src)
    (hresp : lite = false → (m.tid, l.addr, src) ∈ L → Good l.addr src) :
    Post Good Sane SaneR tag lite R L (a.handleSuccess now m l r src) := by
  obtain ⟨⟨pend', hv0, hsub⟩, hpd⟩ := takePending_spec a now m.tid
  unfold Agent.handleSuccess
  generalize a.takePending now m.tid = tp at hv0 hpd
  obtain ⟨a0, pend⟩ := tp
  simp only [] at hv0 hpd ⊢
  have h0 : AInv Good Sane SaneR tag lite (view a0) L := by rw [hv0]; exact h.pendSub pend' hsub
  split
  · exact Post.ret h0
  · rename_i pd
    obtain ⟨hpdm, hpdt⟩ := hpd pd rfl
    split
    · exact Post.ret h0
    · rename_i hcond
      have hdest : pd.dest = src := by
        simp at hcond
        exact hcond.1.2
      have hsrc : pd.src = l.addr := by
        simp at hcond
        exact hcond.2
      -- K3: the consumed transaction is a logged request from THIS local address to the response's source
      have hlog : (m.tid, l.addr, src) ∈ L := by
        have hf := h.pendOK (pdv pd) (List.mem_map.mpr ⟨pd, hpdm, rfl⟩)
        have : pdv pd = (m.tid, l.addr, src) := by simp [pdv, hpdt, hdest, hsrc]
        rw [this] at hf
        exact hf
      split
      · exact Post.ret h0
      · rename_i p hp
        have hg : lite = false → Good l.addr r.addr := by
          intro hl
          rw [hr]
          exact hresp hl hlog
        generalize hfdef : (fun (q : Pair) => ({ q with state := .succeeded, gResp := true, gRespUC := q.gRespUC || pd.useCand } : Pair)) = f
        have hf : ∀ q, pv (f q) = { pv q with succ := true, resp := true } := by intro q; rw [← hfdef]; rfl
        have h1 := markSucceeded_inv h0 hp f hf hg ⟨_, hlog, rfl, hr.symm⟩
        have hsp := succ_pair_after_mark hp f hf
        generalize hX : (if (a0.modPair p.id f).controlling = true then _ else _ : Agent × List Out) = X
        have hXp : Post Good Sane SaneR tag lite R L X := by
          rw [← hX]
          split
          · split
            · cases pd.nom with
              | some v =>
                simp only []
                repeat' split
                all_goals first
                  | exact select_answered_post h1 _ p.id hsp
                  | exact Post.ret h1
              | none =>
                simp only []
                split
                · exact select_post h1 p.id hsp
                · exact Post.ret h1
            · exact Post.ret h1
          · split
            · -- the decision, then the deferred mark is cleared (not part of the view)
              refine Post.modPair_same ?_ _ _ (fun _ => rfl)
              repeat' split
              all_goals first
                | exact select_post h1 p.id hsp
                | exact Post.ret h1
            · exact Post.ret h1
        obtain ⟨a2, o2⟩ := X
        simp only []
        refine Post.congr (r := (a2, o2)) hXp ?_
        rw [view_modPair]; intro q; rfl

theorem sendSuccess_nextUid (a : Agent) (now : Nat) (m : Msg) (l r : Cand) : (a.sendSuccess now m l r).1.nextUid = a.nextUid :=
  congrArg View.nextUid (view_sendSuccess a now m l r)

theorem ctlHandleRequest_post {a : Agent} {L : Log} (h : AInv Good Sane SaneR tag lite (view a) L) (now : Nat) (m : Msg)
    (l r : Cand) (hR : R l.addr r.addr m.tid) (hlu : l.uid < a.nextUid) (hru : r.uid < a.nextUid) :
    Post Good Sane SaneR tag lite R L (a.ctlHandleRequest now m l r) := by
  unfold Agent.ctlHandleRequest
  have hs := sendSuccess_post (R := R) h now m l r hR
  have hnu := sendSuccess_nextUid a now m l r
  generalize a.sendSuccess now m l r = ss at hs hnu
  obtain ⟨a1, o1⟩ := ss
  simp only [] at hs hnu ⊢
  split
  · -- no pair yet: add it
    generalize hap : a1.addPair l r = ap
    obtain ⟨a2, p2⟩ := ap
    simp only []
    have h2 : AInv Good Sane SaneR tag lite (view a2) (L ++ reqs o1) := by
      have := addPair_inv hs.1 l r (by rw [hnu]; exact hlu) (by rw [hnu]; exact hru)
      rw [hap] at this; exact this
    refine Post.congr (r := (a2, o1)) ⟨h2, hs.2⟩ ?_
    rw [view_modPair]; intro q; rfl
  · rename_i p hp
    generalize hf : (fun (p : Pair) => ({ p with reqRecv := p.reqRecv + 1, gReq := true, gNomReq := p.gNomReq || m.useCand || m.nom.isSome } : Pair)) = f
    have hv : view (a1.modPair p.id f) = view a1 := by rw [view_modPair]; intro q; rw [← hf]; rfl
    have h2 : Post Good Sane SaneR tag lite R L (a1.modPair p.id f, o1) := Post.congr (r := (a1, o1)) hs hv
    split
    · split
      · exact h2
      · repeat' split
        all_goals first
          | exact h2
          | (generalize hnm : Agent.nominate _ _ _ = nm
             obtain ⟨a3, o3⟩ := nm
             simp only []
             refine Post.seq (r1 := (a1.modPair p.id f, o1)) h2 (Post.of_eq hnm (nominate_post ?_ now p))
             exact h2.1)
    · exact h2

/-! `cldHandleRequest` cut into stages (the equation is checked by `rfl`). -/

def cldAcc (a : Agent) (m : Msg) : Agent × Bool :=
  if !(m.useCand || m.nom.isSome) then (a, true) else
  match m.nom with
  | none => (a, true)
  | some v =>
    match a.lastNomination with
    | none => ({ a with lastNomination := some v }, true)
    | some last => if v > last then ({ a with lastNomination := some v }, true) else (a, false)

def cldNom (a : Agent) (id : Nat) (m : Msg) : Agent × List Out :=
  if (m.useCand || m.nom.isSome) then
    let a := if a.cfg.lite then a.modPair id fun p => { p with state := .succeeded } else a
    match a.pairById id with
    | none => (a, [])
    | some p =>
      if p.state == .succeeded then
        let sw := match a.selected.bind a.pairById with
          | none => true
          | some sp =>
            if sp.id == id then false
            else if m.nom.isSome then true
            else if a.lastNomination.isSome then false
            else !needsPrioCheck a.cfg || a.pairPrio sp < a.pairPrio p
        if sw then a.select id else (a, [])
      else if m.nom.isSome || p.deferredNom.isNone then
        (a.modPair id fun p => { p with nomOnSuccess := true, deferredNom := m.nom }, [])
      else (a, [])
  else (a, [])

def cldTail (a : Agent) (id now : Nat) (l r : Cand) : Agent × List Out :=
  match a.pairById id with
  | some p =>
    if !a.cfg.lite && (p.state != .succeeded || a.selected.isNone) then a.ping now l r else (a, [])
  | none => (a, [])

def cldRest (a : Agent) (id now : Nat) (m : Msg) (l r : Cand) : Agent × List Out :=
  let a0 := a.modPair id fun p => { p with reqRecv := p.reqRecv + 1, gReq := true, gNomReq := p.gNomReq || m.useCand || m.nom.isSome }
  let acc := cldAcc a0 m
  if (m.useCand || m.nom.isSome) && !acc.2 then acc.1.sendSuccess now m l r
  else
    let n := cldNom acc.1 id m
    let s := n.1.sendSuccess now m l r
    let t := cldTail s.1 id now l r
    (t.1, n.2 ++ s.2 ++ t.2)

theorem cldHandleRequest_eq (a : Agent) (now : Nat) (m : Msg) (l r : Cand) :
    a.cldHandleRequest now m l r =
      cldRest (match a.findPair l r with | some p => (a, p) | none => a.addPair l r).1
        (match a.findPair l r with | some p => (a, p) | none => a.addPair l r).2.id now m l r := rfl

theorem view_cldAcc (a : Agent) (m : Msg) : view (cldAcc a m).1 = view a := by
  unfold cldAcc
  repeat' split
  all_goals rfl

theorem cldNom_post {a : Agent} {L : Log} (h : AInv Good Sane SaneR tag lite (view a) L) (id : Nat) (m : Msg) :
    Post Good Sane SaneR tag lite R L (cldNom a id m) := by
  unfold cldNom
  split
  · simp only []
    generalize ha1 : (if a.cfg.lite = true then _ else a) = a1
    have h1 : AInv Good Sane SaneR tag lite (view a1) L := by
      rw [← ha1]
      split
      · rename_i hlite
        have hl : lite = true := by rw [← h.lite_eq]; exact hlite
        rw [view_modPair_upd a id _ (fun q => { q with succ := true }) (fun q => rfl)]
        refine h.updPair id _ (fun _ => rfl) (fun _ => rfl) (fun q hq _ => (h.pairUid q hq).2) ?_ (fun _ _ _ _ => rfl)
          (fun q hq _ hqr => h.respOK q hq hqr)
        intro hf; rw [hl] at hf; cases hf
      · exact h
    split
    · exact Post.ret h1
    · rename_i p hp
      split
      · rename_i hps
        have hps' : p.state = .succeeded := by simpa using hps
        have hsp : ∃ q ∈ (view a1).pairs, q.id = id ∧ q.succ = true :=
          ⟨pv p, (pairById_pv_mem hp).1, (pairById_pv_mem hp).2, by simp [pv, hps']⟩
        repeat' split
        all_goals first
          | exact select_post h1 id hsp
          | exact Post.ret h1
      · rename_i hps
        have hps' : p.state ≠ .succeeded := by simpa using hps
        split
        · refine Post.ret ?_
          rw [view_modPair_nosucc a1 id _ (nosucc_of_pairById h1 hp hps')]
          · exact h1
          · intro q hq
            simp [pv]
        · exact Post.ret h1
  · exact Post.ret h

theorem cldTail_post {a : Agent} {L : Log} (h : AInv Good Sane SaneR tag lite (view a) L) (id now : Nat) (l r : Cand)
    (hl : Sane l.addr) (hr : SaneR r.addr) : Post Good Sane SaneR tag lite R L (cldTail a id now l r) := by
  unfold cldTail
  split
  · split
    · exact ping_post h now l r hl hr
    · exact Post.ret h
  · exact Post.ret h

theorem cldRest_post {a : Agent} {L : Log} (h : AInv Good Sane SaneR tag lite (view a) L) (id now : Nat) (m : Msg) (l r : Cand)
    (hR : R l.addr r.addr m.tid) (hl : Sane l.addr) (hr : SaneR r.addr) :
    Post Good Sane SaneR tag lite R L (cldRest a id now m l r) := by
  unfold cldRest
  simp only []
  generalize hf : (fun (p : Pair) => ({ p with reqRecv := p.reqRecv + 1, gReq := true, gNomReq := p.gNomReq || m.useCand || m.nom.isSome } : Pair)) = f
  have hv0 : view (a.modPair id f) = view a := by rw [view_modPair]; intro q; rw [← hf]; rfl
  have h1 : AInv Good Sane SaneR tag lite (view (cldAcc (a.modPair id f) m).1) L := by
    rw [view_cldAcc, hv0]; exact h
  generalize cldAcc (a.modPair id f) m = acc at h1
  split
  · exact sendSuccess_post h1 now m l r hR
  · have hn := cldNom_post (R := R) h1 id m
    have hs := sendSuccess_post (R := R) hn.1 now m l r hR
    have ht := cldTail_post (R := R) hs.1 id now l r hl hr
    have hns := Post.seq hn hs
    have ht' : Post Good Sane SaneR tag lite R
        (L ++ reqs (((cldNom acc.1 id m).1.sendSuccess now m l r).1, (cldNom acc.1 id m).2 ++ ((cldNom acc.1 id m).1.sendSuccess now m l r).2).2)
        (cldTail ((cldNom acc.1 id m).1.sendSuccess now m l r).1 id now l r) := by
      simpa [List.append_assoc] using ht
    have := Post.seq hns ht'
    simpa [List.append_assoc] using this

theorem cldHandleRequest_post {a : Agent} {L : Log} (h : AInv Good Sane SaneR tag lite (view a) L) (now : Nat) (m : Msg)
    (l r : Cand) (hR : R l.addr r.addr m.tid) (hl : Sane l.addr) (hr : SaneR r.addr) (hlu : l.uid < a.nextUid)
    (hru : r.uid < a.nextUid) :
    Post Good Sane SaneR tag lite R L (a.cldHandleRequest now m l r) := by
  rw [cldHandleRequest_eq]
  refine cldRest_post ?_ _ now m l r hR hl hr
  split
  · exact h
  · exact addPair_inv h l r hlu hru

/-! `handleInbound` cut into stages (the equation is checked by `rfl`). -/

def hiReq (a : Agent) (now : Nat) (m : Msg) (l r : Cand) (o0 : List Out) : Agent × List Out :=
  let x := if a.controlling then a.ctlHandleRequest now m l r else a.cldHandleRequest now m l r
  (x.1.seenRemoteRecv r.uid now, o0 ++ x.2)

def hiDisc (a : Agent) (l : Cand) (src : Nat) (m : Msg) : Agent × List Out × Option Cand :=
  match a.findRemote l.net src with
  | some r => (a, [], some r)
  | none =>
    a.addRemoteCandidate { uid := 0, ty := 3, net := l.net, addr := src, comp := l.comp, rel := some 0,
                           prio := match m.prio with | some p => if p == 0 then prflxPriority l.net l.comp else p | none => prflxPriority l.net l.comp }

def hiAfter (a : Agent) (now : Nat) (l : Cand) (m : Msg) (o0 : List Out) (rc : Option Cand) : Agent × List Out :=
  match rc with
  | none => (a, o0)
  | some r =>
    match m.role with
    | some (ctl, tb) =>
      if ctl == a.controlling then
        if roleConflictKeeps a.controlling a.tieBreaker tb then
          let a := a.seenLocalSent l.uid now
          (a, o0 ++ [.dgram l.addr r.addr { cls := 3, tid := m.tid, key := some a.localPwd, errCode := some 487 }])
        else
          (({ a with controlling := !a.controlling }).resetSelector now, o0)
      else hiReq a now m l r o0
    | none => hiReq a now m l r o0

theorem handleInbound_eq (a : Agent) (now : Nat) (l : Cand) (src : Nat) (m : Msg) :
    a.handleInbound now l src m =
      if !(m.method == 1 && (m.cls == 2 || m.cls == 0 || m.cls == 1)) then (a, [])
      else
        if m.cls == 2 then
          if m.key != some a.remotePwd then (a, [])
          else match a.findRemote l.net src with
            | none => (a, [])
            | some r => ((a.handleSuccess now m l r src).1.seenRemoteRecv r.uid now, (a.handleSuccess now m l r src).2)
        else if m.cls == 0 then
          if m.user != some (a.localUfrag ++ ":" ++ a.remoteUfrag) then (a, [])
          else if m.key != some a.localPwd then (a, [])
          else hiAfter (hiDisc a l src m).1 now l m (hiDisc a l src m).2.1 (hiDisc a l src m).2.2
        else
          match a.findRemote l.net src with
          | some r => (a.seenRemoteRecv r.uid now, [])
          | none => (a, []) := rfl

theorem findRemote_spec {a : Agent} {net src : Nat} {r : Cand} (h : a.findRemote net src = some r) :
    r ∈ a.remotes ∧ r.addr = src := by
  refine ⟨List.mem_of_find?_eq_some h, ?_⟩
  have := List.find?_some h
  simp at this
  exact this.2

theorem hiDisc_post {a : Agent} {L : Log} (h : AInv Good Sane SaneR tag lite (view a) L) (l : Cand) (src : Nat) (m : Msg)
    (hsrc : SaneR src) :
    Post Good Sane SaneR tag lite R L ((hiDisc a l src m).1, (hiDisc a l src m).2.1)
    ∧ a.nextUid ≤ (hiDisc a l src m).1.nextUid
    ∧ ∀ r, (hiDisc a l src m).2.2 = some r → r.addr = src ∧ r.uid < (hiDisc a l src m).1.nextUid := by
  unfold hiDisc
  split
  · rename_i r hr
    refine ⟨Post.ret h, Nat.le_refl _, ?_⟩
    intro r' hr'
    simp at hr'
    subst hr'
    exact ⟨(findRemote_spec hr).2, h.uidR _ (mem_remotes_cv (findRemote_spec hr).1)⟩
  · exact addRemoteCandidate_post h _ hsrc

theorem hiReq_post {a : Agent} {L : Log} {o0 : List Out} (h : Post Good Sane SaneR tag lite R L (a, o0)) (now : Nat) (m : Msg)
    (l r : Cand) (hR : R l.addr r.addr m.tid) (hl : Sane l.addr) (hr : SaneR r.addr) (hlu : l.uid < a.nextUid)
    (hru : r.uid < a.nextUid) :
    Post Good Sane SaneR tag lite R L (hiReq a now m l r o0) := by
  unfold hiReq
  simp only []
  have hx : Post Good Sane SaneR tag lite R (L ++ reqs o0)
      (if a.controlling = true then a.ctlHandleRequest now m l r else a.cldHandleRequest now m l r) := by
    split
    · exact ctlHandleRequest_post h.1 now m l r hR hlu hru
    · exact cldHandleRequest_post h.1 now m l r hR hl hr hlu hru
  generalize (if a.controlling = true then a.ctlHandleRequest now m l r else a.cldHandleRequest now m l r) = x at hx
  refine Post.congr (r := (x.1, o0 ++ x.2)) (Post.seq (r1 := (a, o0)) h hx) ?_
  exact view_seenRemoteRecv _ _ _

theorem hiAfter_post {a : Agent} {L : Log} {o0 : List Out} (h : Post Good Sane SaneR tag lite R L (a, o0)) (now : Nat) (l : Cand)
    (m : Msg) (rc : Option Cand) (hR : ∀ r, rc = some r → R l.addr r.addr m.tid) (hl : Sane l.addr) (hlu : l.uid < a.nextUid)
    (hru : ∀ r, rc = some r → r.uid < a.nextUid) (hrs : ∀ r, rc = some r → SaneR r.addr) :
    Post Good Sane SaneR tag lite R L (hiAfter a now l m o0 rc) := by
  unfold hiAfter
  split
  · exact h
  · rename_i r
    split
    · split
      · split
        · simp only []
          refine Post.congr (r := (a, o0 ++ [.dgram l.addr r.addr { cls := 3, tid := m.tid, key := some (a.seenLocalSent l.uid now).localPwd, errCode := some 487 }]))
            (Post.append_outs (r := (a, o0)) h rfl ?_) (view_seenLocalSent _ _ _)
          intro x hx
          simp at hx
          subst hx
          exact Or.inr (Or.inl rfl)
        · exact Post.congr (r := (a, o0)) h rfl
      · exact hiReq_post h now m l r (hR r rfl) hl (hrs r rfl) hlu (hru r rfl)
    · exact hiReq_post h now m l r (hR r rfl) hl (hrs r rfl) hlu (hru r rfl)

theorem handleInbound_post {a : Agent} {L : Log} (h : AInv Good Sane SaneR tag lite (view a) L) (now : Nat) (l : Cand)
    (src : Nat) (m : Msg) (hl : Sane l.addr) (hlu : l.uid < a.nextUid)
    (hresp : m.cls = 2 → lite = false → (m.tid, l.addr, src) ∈ L → Good l.addr src)
    (hsrc : m.cls = 0 → SaneR src) :
    Post Good Sane SaneR tag lite (fun f t tid => m.cls = 0 ∧ f = l.addr ∧ t = src ∧ tid = m.tid) L (a.handleInbound now l src m) := by
  rw [handleInbound_eq]
  split
  · exact Post.ret h
  · split
    · rename_i hc2
      have hc2' : m.cls = 2 := by simpa using hc2
      split
      · exact Post.ret h
      · split
        · exact Post.ret h
        · rename_i r hr
          refine Post.congr (r := a.handleSuccess now m l r src)
            (handleSuccess_post h now m l r src (findRemote_spec hr).2 (hresp hc2')) (view_seenRemoteRecv _ _ _)
    · split
      · rename_i hc0
        have hc0' : m.cls = 0 := by simpa using hc0
        split
        · exact Post.ret h
        · split
          · exact Post.ret h
          · have hd := hiDisc_post (R := fun f t tid => m.cls = 0 ∧ f = l.addr ∧ t = src ∧ tid = m.tid) h l src m (hsrc hc0')
            generalize hiDisc a l src m = d at hd
            obtain ⟨a1, o0, rc⟩ := d
            simp only [] at hd ⊢
            refine hiAfter_post hd.1 now l m rc ?_ hl (Nat.lt_of_lt_of_le hlu hd.2.1) (fun r hr => (hd.2.2 r hr).2)
              (fun r hr => by rw [(hd.2.2 r hr).1]; exact hsrc hc0')
            intro r hr
            exact ⟨hc0', rfl, (hd.2.2 r hr).1, rfl⟩
      · split
        · refine Post.ret ?_
          rw [view_seenRemoteRecv]; exact h
        · exact Post.ret h

/-! ## data plane, restart, and the step function -/

theorem writeVia_post {a : Agent} {L : Log} (h : AInv Good Sane SaneR tag lite (view a) L) (now : Nat) (p : Pair) (len : Nat) :
    Post Good Sane SaneR tag lite R L (a.writeVia now p len) := by
  unfold Agent.writeVia
  split
  · simp only []
    refine Post.outs ?_ rfl ?_
    · split
      · rw [view_modPair, view_seenLocalSent]
        · exact h
        · intro q; rfl
      · rw [view_seenLocalSent]; exact h
    · intro x hx
      simp at hx
      rcases hx with rfl | rfl <;> trivial
  · exact Post.outs h rfl (by intro x hx; simp at hx; subst hx; trivial)

theorem write_post {a : Agent} {L : Log} (h : AInv Good Sane SaneR tag lite (view a) L) (now len : Nat) (sl : Bool) :
    Post Good Sane SaneR tag lite R L (a.write now len sl) := by
  unfold Agent.write
  split
  · exact Post.outs h rfl (by intro x hx; simp at hx; subst hx; trivial)
  · split
    · exact Post.outs h rfl (by intro x hx; simp at hx; subst hx; trivial)
    · split
      · exact Post.outs h rfl (by intro x hx; simp at hx; subst hx; trivial)
      · rename_i p _
        generalize hw : a.writeVia now p len = w
        obtain ⟨a', o'⟩ := w
        exact Post.congr (r := (a', o')) (Post.of_eq hw (writeVia_post h now p len)) rfl

theorem writeToPair_post {a : Agent} {L : Log} (h : AInv Good Sane SaneR tag lite (view a) L) (now id len : Nat) (sl : Bool) :
    Post Good Sane SaneR tag lite R L (a.writeToPair now id len sl) := by
  unfold Agent.writeToPair
  split
  · exact Post.outs h rfl (by intro x hx; simp at hx; subst hx; trivial)
  · split
    · exact Post.outs h rfl (by intro x hx; simp at hx; subst hx; trivial)
    · split
      · exact Post.outs h rfl (by intro x hx; simp at hx; subst hx; trivial)
      · split
        · exact Post.outs h rfl (by intro x hx; simp at hx; subst hx; trivial)
        · exact writeVia_post h now _ len

def idLook (a : Agent) (now : Nat) (l : Cand) (src : Nat) : Agent × Bool :=
  match a.caches.find? fun (lu, s, _) => lu == l.uid && s == src with
  | some (_, _, ru) => (a.seenRemoteRecv ru now, true)
  | none =>
    match a.findRemote l.net src with
    | some r => ({ (a.seenRemoteRecv r.uid now) with caches := a.caches ++ [(l.uid, src, r.uid)] }, true)
    | none => (a, false)

def idRest (a : Agent) (len : Nat) : Agent × List Out :=
  let a := { a with rx := a.rx ++ [len] }
  let a := if len > 0 then
      match a.selected with
      | some id => a.modPair id fun p => { p with pktRecv := p.pktRecv + 1, bytesRecv := p.bytesRecv + len }
      | none => a
    else a
  (a, [])

theorem inboundData_eq (a : Agent) (now : Nat) (l : Cand) (src len : Nat) :
    a.inboundData now l src len =
      if !(idLook a now l src).2 then ((idLook a now l src).1, [])
      else if !rxFits (idLook a now l src).1.rx len then ((idLook a now l src).1, [])
      else idRest (idLook a now l src).1 len := rfl

theorem view_idLook (a : Agent) (now : Nat) (l : Cand) (src : Nat) : view (idLook a now l src).1 = view a := by
  unfold idLook
  split
  · exact view_seenRemoteRecv _ _ _
  · split
    · exact (view_seenRemoteRecv a _ now)
    · rfl

theorem view_idRest (a : Agent) (len : Nat) : view (idRest a len).1 = view a ∧ (idRest a len).2 = [] := by
  unfold idRest
  simp only [and_true]
  split
  · split
    · rw [view_modPair]
      · rfl
      · intro q; rfl
    · rfl
  · rfl

theorem inboundData_post {a : Agent} {L : Log} (h : AInv Good Sane SaneR tag lite (view a) L) (now : Nat) (l : Cand) (src len : Nat) :
    Post Good Sane SaneR tag lite R L (a.inboundData now l src len) := by
  rw [inboundData_eq]
  have h1 : AInv Good Sane SaneR tag lite (view (idLook a now l src).1) L := by rw [view_idLook]; exact h
  split
  · exact Post.ret h1
  split
  · exact Post.ret h1
  · have := view_idRest (idLook a now l src).1 len
    generalize idRest (idLook a now l src).1 len = x at this
    obtain ⟨a', o'⟩ := x
    simp only [] at this
    rw [this.2]
    refine Post.ret ?_
    rw [this.1]; exact h1

theorem doRestart_post {a : Agent} {L : Log} (h : AInv Good Sane SaneR tag lite (view a) L) (now : Nat) (u p : String) :
    Post Good Sane SaneR tag lite R L (a.doRestart now u p) := by
  have hw := h.wipe
  unfold Agent.doRestart
  simp only []
  split
  · unfold Agent.setConnState
    split
    · rename_i hne heq
      refine Post.ret ?_
      have : a.connState = .checking := by simpa [Agent.wipe, Agent.resetSelector] using heq
      have hl : isLive a.connState = false := by rw [this]; rfl
      simpa [view, Agent.wipe, Agent.resetSelector, hl] using hw
    · refine Post.outs ?_ rfl ?_
      · have hl : isLive ConnState.checking = false := rfl
        simpa [view, Agent.wipe, Agent.resetSelector, hl] using hw
      · intro x hx
        simp at hx
        subst hx
        intro hc; cases hc
  · rename_i hnew
    have : a.connState = .new := by simpa [Agent.wipe, Agent.resetSelector] using hnew
    have hl : isLive a.connState = false := by rw [this]; rfl
    refine Post.ret ?_
    simpa [view, Agent.wipe, Agent.resetSelector, hl] using hw


/-- the success responses an event may trigger: only an inbound Binding request, answered from the
receiving address to the seen source with the request's transaction id. -/
def Rof : Ev → Nat → Nat → Nat → Prop
  | .inbound _ la src m => fun f t tid => m.cls = 0 ∧ f = la ∧ t = src ∧ tid = m.tid
  | _ => fun _ _ _ => False

theorem localByAddr_spec {a : Agent} {la : Nat} {l : Cand} (h : a.localByAddr la = some l) : l ∈ a.locals ∧ l.addr = la := by
  refine ⟨List.mem_of_find?_eq_some h, ?_⟩
  have := List.find?_some h
  simpa using this

theorem withForced_post {L : Log} {x : Agent × List Out} (hx : Post Good Sane SaneR tag lite R L x) (now : Nat) :
    Post Good Sane SaneR tag lite R L ((x.1.runForced now).1, x.2 ++ (x.1.runForced now).2) :=
  Post.seq hx (runForced_post hx.1 now)

theorem step_addLocal (a : Agent) (now : Nat) (c : Cand) :
    step a (.addLocal now c) =
      (((a.addLocalCandidate c).1.runForced now).1, (a.addLocalCandidate c).2 ++ ((a.addLocalCandidate c).1.runForced now).2) := rfl

theorem step_addRemote (a : Agent) (now : Nat) (c : Cand) :
    step a (.addRemote now c) =
      if a.closed then (a, [.res "err:closed"]) else
      if c.tt == 1 then (a, []) else
      (((a.addRemoteCandidate c).1.runForced now).1, (a.addRemoteCandidate c).2.1 ++ ((a.addRemoteCandidate c).1.runForced now).2) := rfl

theorem step_inbound (a : Agent) (now la src : Nat) (m : Msg) :
    step a (.inbound now la src m) =
      if a.closed || !a.started then (a, []) else
      match a.localByAddr la with
      | none => (a, [])
      | some l => (((a.handleInbound now l src m).1.runForced now).1,
                   (a.handleInbound now l src m).2 ++ ((a.handleInbound now l src m).1.runForced now).2) := rfl

theorem step_post {a : Agent} {L : Log} (h : AInv Good Sane SaneR tag lite (view a) L) (e : Ev)
    (hadd : ∀ now c, e = .addLocal now c → Sane c.addr)
    (haddR : ∀ now c, e = .addRemote now c → SaneR c.addr)
    (hresp : ∀ now la src m, e = .inbound now la src m → m.cls = 2 → lite = false →
      (m.tid, la, src) ∈ L → Good la src)
    (hsrc : ∀ now la src m, e = .inbound now la src m → m.cls = 0 → SaneR src) :
    Post Good Sane SaneR tag lite (Rof e) L (step a e) := by
  cases e with
  | addLocal now c =>
    rw [step_addLocal]
    exact withForced_post (x := a.addLocalCandidate c) (addLocalCandidate_post h c (hadd now c rfl)) now
  | addRemote now c =>
    rw [step_addRemote]
    split
    · exact Post.outs h rfl (by intro x hx; simp at hx; subst hx; trivial)
    · split
      · exact Post.outs h rfl (by intro x hx; simp at hx)
      · exact withForced_post (x := ((a.addRemoteCandidate c).1, (a.addRemoteCandidate c).2.1)) (addRemoteCandidate_post h c (haddR now c rfl)).1 now
  | start now ctl ru rp =>
    simp only [step]
    split
    · exact Post.outs h rfl (by intro x hx; simp at hx; subst hx; trivial)
    · split
      · exact Post.outs h rfl (by intro x hx; simp at hx; subst hx; trivial)
      · split
        · exact Post.outs h rfl (by intro x hx; simp at hx; subst hx; trivial)
        · split
          · exact Post.outs h rfl (by intro x hx; simp at hx; subst hx; trivial)
          · generalize hsc : Agent.setConnState _ _ = sc
            obtain ⟨a1, o1⟩ := sc
            have h1 : Post Good Sane SaneR tag lite (Rof (.start now ctl ru rp)) L (a1, o1) :=
              Post.of_eq hsc (setConnState_post (by exact h) .checking (by simp [isLive]) (by simp))
            simp only []
            generalize hrf : Agent.runForced _ _ = rf
            obtain ⟨a2, o2⟩ := rf
            simp only []
            have h2 : Post Good Sane SaneR tag lite (Rof (.start now ctl ru rp)) L (a1, o1 ++ [.res "ok"]) :=
              Post.append_outs (r := (a1, o1)) h1 rfl (by intro x hx; simp at hx; subst hx; trivial)
            exact Post.seq (r1 := (a1, o1 ++ [.res "ok"])) h2 (Post.of_eq hrf (runForced_post (by exact h2.1) now))
  | setRemoteCreds ru rp =>
    simp only [step]
    repeat' split
    all_goals exact Post.outs h rfl (by intro x hx; simp at hx; subst hx; trivial)
  | advance now => exact runTimers_post h now _
  | inbound now la src m =>
    rw [step_inbound]
    split
    · exact Post.ret h
    · split
      · exact Post.ret h
      · rename_i l hl
        obtain ⟨hlm, hla⟩ := localByAddr_spec hl
        subst hla
        have hi := handleInbound_post h now l src m (h.locSane _ (mem_locals_cv hlm)) (h.uidL _ (mem_locals_cv hlm))
          (hresp now l.addr src m rfl) (hsrc now l.addr src m rfl)
        exact withForced_post (x := a.handleInbound now l src m) hi now
  | inboundData now la src len sl =>
    simp only [step]
    split
    · exact Post.ret h
    · split
      · exact Post.ret h
      · exact inboundData_post h now _ src len
  | write now len sl => exact write_post h now len sl
  | writeToPair now id len sl => exact writeToPair_post h now id len sl
  | read =>
    simp only [step]
    split
    · exact Post.outs h rfl (by intro x hx; simp at hx; subst hx; trivial)
    · split
      · exact Post.outs h rfl (by intro x hx; simp at hx; subst hx; trivial)
      · exact Post.outs (by exact h) rfl (by intro x hx; simp at hx; subst hx; trivial)
  | renominate now la ri value =>
    simp only [step]
    split
    · exact Post.outs h rfl (by intro x hx; simp at hx; subst hx; trivial)
    · split
      · exact Post.outs h rfl (by intro x hx; simp at hx; subst hx; trivial)
      · split
        · rename_i l r hl hr
          split
          · exact Post.outs h rfl (by intro x hx; simp at hx; subst hx; trivial)
          · generalize hsr : Agent.sendRequest _ _ _ _ _ _ = sr
            obtain ⟨a1, o1⟩ := sr
            have h1 : Post Good Sane SaneR tag lite (Rof (.renominate now la ri value)) L (a1, o1) :=
              Post.of_eq hsr (sendRequest_post h now l r true _ (h.locSane _ (mem_locals_cv (localByAddr_spec hl).1))
                (h.remSane _ (mem_remotes_cv (List.mem_of_getElem? hr))))
            simp only []
            exact Post.congr (r := (a1, o1 ++ [.res "ok"]))
              (Post.append_outs (r := (a1, o1)) h1 rfl (by intro x hx; simp at hx; subst hx; trivial)) rfl
        · exact Post.outs h rfl (by intro x hx; simp at hx; subst hx; trivial)
  | restart now u p =>
    simp only [step]
    split
    · exact Post.outs h rfl (by intro x hx; simp at hx; subst hx; trivial)
    · generalize hdr : a.doRestart now u p = dr
      obtain ⟨a1, o1⟩ := dr
      have h1 : Post Good Sane SaneR tag lite (Rof (.restart now u p)) L (a1, o1) := Post.of_eq hdr (doRestart_post h now u p)
      exact Post.append_outs (r := (a1, o1)) h1 rfl (by intro x hx; simp at hx; subst hx; trivial)
  | close =>
    simp only [step]
    split
    · exact Post.outs h rfl (by intro x hx; simp at hx; subst hx; trivial)
    · generalize hsc : Agent.setConnState _ _ = sc
      obtain ⟨a1, o1⟩ := sc
      have h0 : AInv Good Sane SaneR tag lite (view { a with locals := [], remotes := [], caches := [], closed := true }) L := by
        have := h.close
        have hc : (view a).live = true → (view a).sel.isSome := h.connOK
        refine { this with connOK := ?_ }
        exact hc
      have h1 : Post Good Sane SaneR tag lite (Rof .close) L (a1, o1) :=
        Post.of_eq hsc (setConnState_post h0 .closed (by simp [isLive]) (by simp))
      exact Post.append_outs (r := (a1, o1)) h1 rfl (by intro x hx; simp at hx; subst hx; trivial)

end
end IceProofs.C01
