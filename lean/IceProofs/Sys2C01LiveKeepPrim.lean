import IceProofs.Sys2C01LiveDefs
/-!
# C01 liveness, layer 1a — the frame `LK` across the primitive updates of the agent

`LK.of_lists` (lists untouched), `LK.of_eq`, `LK.modPair` (+ corollaries), `seenLocalSent_lk`, `seenRemoteRecv_lk`,
`setConnected_lk`, `select_lk`, `addPair_lk`, `sendRequest_lk`, `sendSuccess_lk`, `takePending_lk`,
`LK.setNominated`, `LK.addRemote`, `bestBy_some`, `findPair_ends`.
-/
namespace IceProofs.C01Live
open IceModel.AgentCore IceProofs.C03 IceProofs.Agent

variable {T0 now : Nat} {ex : Option Nat}

/-! ## candidate lists seen through `ckey` -/

theorem findCand_isSome_ckey (l : List Cand) (uid : Nat) :
    (findCand l uid).isSome = (l.map ckey).any (fun c => c.uid == uid) := by
  induction l with
  | nil => rfl
  | cons c cs ih =>
    unfold findCand at ih ⊢
    rw [List.find?_cons, List.map_cons, List.any_cons]
    have hc : (ckey c).uid = c.uid := rfl
    rw [hc]
    cases h : (c.uid == uid) with
    | true => rfl
    | false => simpa using ih

theorem findCand_isSome_congr {l l' : List Cand} (h : l'.map ckey = l.map ckey) (uid : Nat) :
    (findCand l' uid).isSome = (findCand l uid).isSome := by
  rw [findCand_isSome_ckey, findCand_isSome_ckey, h]

theorem candsOK_ckey (l : List Cand) : CandsOK (l.map ckey) ↔ CandsOK l := by
  unfold CandsOK
  rw [List.pairwise_map]
  constructor
  · intro h
    exact ⟨fun c hc => h.1 (ckey c) (List.mem_map.mpr ⟨c, hc, rfl⟩), h.2⟩
  · intro h
    refine ⟨fun c hc => ?_, h.2⟩
    obtain ⟨d, hd, rfl⟩ := List.mem_map.mp hc
    exact h.1 d hd

theorem candsOK_congr {l l' : List Cand} (h : l'.map ckey = l.map ckey) (hl : CandsOK l) : CandsOK l' := by
  rw [← candsOK_ckey, h, candsOK_ckey]; exact hl

theorem updCand_ckey (l : List Cand) (uid : Nat) (g : Cand → Cand) (hg : ∀ c, ckey (g c) = ckey c) :
    (updCand l uid g).map ckey = l.map ckey := by
  unfold updCand
  rw [List.map_map]
  apply List.map_congr_left
  intro c _
  simp only [Function.comp]
  split
  · exact hg c
  · rfl

theorem findCand_append_isSome (l e : List Cand) (uid : Nat) (h : (findCand l uid).isSome = true) :
    (findCand (l ++ e) uid).isSome = true := by
  unfold findCand at h ⊢
  cases hf : l.find? (·.uid == uid) with
  | none => rw [hf] at h; cases h
  | some x => rw [find?_append_of l e _ hf]; rfl

/-- the pair found by `findPair` has both ends listed -/
theorem findPair_ends {a : Agent} {l r : Cand} {p : Pair} (h : a.findPair l r = some p) :
    (a.localOf p.l).isSome = true ∧ (a.remoteOf p.r).isSome = true := by
  unfold Agent.findPair at h
  have := List.find?_some h
  cases h1 : a.localOf p.l with
  | none => simp [h1] at this
  | some x =>
    cases h2 : a.remoteOf p.r with
    | none => simp [h1, h2] at this
    | some y => exact ⟨rfl, rfl⟩

/-! ## `LInv`, `LK` when the three lists are untouched -/

/-- lists, id counter and selector start untouched: the scalar clauses remain to be shown -/
theorem LK.of_lists {a a' : Agent} (hl : a'.locals = a.locals) (hr : a'.remotes = a.remotes)
    (hc : a'.checklist = a.checklist) (hn : a'.nextPairID = a.nextPairID) (hss : a'.selStart = a.selStart)
    (hsel : a.selected.isSome = true → a'.selected.isSome = true)
    (hconn : a.connState ≠ .failed → a'.connState ≠ .failed)
    (hnotCk : a.connState ≠ .checking → a'.connState ≠ .checking)
    (hnom : ∀ id, a.nominatedPair = some id → a'.nominatedPair = some id)
    (hpend : ∀ tid pd, a.pending.find? (·.tid == tid) = some pd → now - pd.ts < maxBindingRequestTimeout →
      some tid ≠ ex → a'.pending.find? (·.tid == tid) = some pd)
    (hnomOK : LInv a → NomOK a') (hpendOK : LInv a → PendOK a') (hselConn : LInv a → SelConn a') :
    LK T0 now ex a a' := by
  refine ⟨by rw [hl], by rw [hr]; exact IdxKeep.refl (CKeep.refl T0) _, by rw [hc]; exact IdxKeep.refl PKeep.refl _,
    hss, hsel, hconn, hnotCk, hnom, hpend, ?_⟩
  intro h
  refine ⟨⟨?_, ?_⟩, ?_, ?_, ?_, hnomOK h, hpendOK h, hselConn h⟩
  · rw [hc, hn]; exact h.ids.le
  · rw [hc]; exact h.ids.uniq
  · rw [hr]; exact h.remOK
  · unfold NoDefer; rw [hc]; exact h.noDefer
  · unfold SuccEnds Agent.localOf Agent.remoteOf
    rw [hc, hl, hr]
    exact h.succEnds

/-- `LK` reads the agent only through these fields -/
theorem LK.of_eq {a a' : Agent} (hl : a'.locals = a.locals) (hr : a'.remotes = a.remotes)
    (hc : a'.checklist = a.checklist) (hss : a'.selStart = a.selStart) (hs : a'.selected = a.selected)
    (hcs : a'.connState = a.connState) (hnp : a'.nominatedPair = a.nominatedPair) (hp : a'.pending = a.pending)
    (hnt : a'.nextTid = a.nextTid) (htag : a'.tag = a.tag) (hn : a'.nextPairID = a.nextPairID) :
    LK T0 now ex a a' := by
  refine LK.of_lists hl hr hc hn hss (by rw [hs]; exact fun h => h) (by rw [hcs]; exact fun h => h)
    (by rw [hcs]; exact fun h => h) (by rw [hnp]; exact fun _ h => h) (by rw [hp]; exact fun _ _ h _ _ => h) ?_ ?_ ?_
  · intro h; unfold NomOK; rw [hnp, hc]; exact h.nomOK
  · intro h; unfold PendOK; rw [hp, hnt, htag]; exact h.pendOK
  · intro h; unfold SelConn; rw [hs, hcs]; exact h.selConn

/-! ## `modPair` -/

/-- `modPair id f`: `f` keeps id and ends, keeps validity and the two nomination marks on the pairs it is applied
to, and validates a pair only if its ends are listed. -/
theorem LK.modPair_sel (a : Agent) (id : Nat) (f : Pair → Pair)
    (hid : ∀ p, (f p).id = p.id) (hl : ∀ p, (f p).l = p.l) (hr : ∀ p, (f p).r = p.r)
    (hnomOn : ∀ p ∈ a.checklist, p.id = id → p.nomOnSuccess = true →
      (f p).nomOnSuccess = true ∨ (LInv a → a.selected.isSome = true))
    (hsucc : ∀ p ∈ a.checklist, p.id = id → p.state = .succeeded → (f p).state = .succeeded)
    (hdef : ∀ p ∈ a.checklist, p.id = id → p.deferredNom = none → (f p).deferredNom = none)
    (hends : LInv a → ∀ p ∈ a.checklist, p.id = id → (f p).state = .succeeded →
      p.state = .succeeded ∨ ((a.localOf p.l).isSome = true ∧ (a.remoteOf p.r).isSome = true)) :
    LK T0 now ex a (a.modPair id f) := by
  refine ⟨rfl, IdxKeep.refl (CKeep.refl T0) _, ?_, rfl, fun h => h, fun h => h, fun h => h, fun _ h => h,
    fun _ _ h _ _ => h, ?_⟩
  · refine IdxKeep.map (fun p => if p.id == id then f p else p) a.checklist ?_
    intro p hp
    by_cases e : p.id = id
    · simp only [e, beq_self_eq_true, if_true]
      exact ⟨hid p, hl p, hr p, hsucc p hp e, hnomOn p hp e⟩
    · have e' : (p.id == id) = false := by simpa using e
      simp only [e', Bool.false_eq_true, if_false]
      exact PKeep.refl p
  · intro h
    refine ⟨modPair_idsOK a id f hid h.ids, h.remOK, ?_, ?_, ?_, h.pendOK, h.selConn⟩
    · intro q hq
      obtain ⟨p, hp, h' | h'⟩ := mem_updPair (l := a.checklist) hq
      · rw [h'.2]; exact hdef p hp h'.1 (h.noDefer p hp)
      · rw [h'.2]; exact h.noDefer p hp
    · intro q hq hs
      obtain ⟨p, hp, h' | h'⟩ := mem_updPair (l := a.checklist) hq
      · rw [h'.2] at hs ⊢
        rw [hl, hr]
        rcases hends h p hp h'.1 hs with h2 | h2
        · exact h.succEnds p hp h2
        · exact h2
      · rw [h'.2] at hs ⊢
        exact h.succEnds p hp hs
    · intro nid hn
      obtain ⟨p, hp, hpid, hps⟩ := h.nomOK nid hn
      refine ⟨_, mem_updPair_of_mem (id := id) (f := f) hp, ?_, ?_⟩
      · split <;> simp [hid, hpid]
      · by_cases e : p.id = id
        · simp only [e, beq_self_eq_true, if_true]
          exact hsucc p hp e hps
        · have e' : (p.id == id) = false := by simpa using e
          simp only [e', Bool.false_eq_true, if_false]
          exact hps

theorem LK.modPair (a : Agent) (id : Nat) (f : Pair → Pair)
    (hid : ∀ p, (f p).id = p.id) (hl : ∀ p, (f p).l = p.l) (hr : ∀ p, (f p).r = p.r)
    (hnomOn : ∀ p, p.nomOnSuccess = true → (f p).nomOnSuccess = true)
    (hsucc : ∀ p ∈ a.checklist, p.id = id → p.state = .succeeded → (f p).state = .succeeded)
    (hdef : ∀ p ∈ a.checklist, p.id = id → p.deferredNom = none → (f p).deferredNom = none)
    (hends : LInv a → ∀ p ∈ a.checklist, p.id = id → (f p).state = .succeeded →
      p.state = .succeeded ∨ ((a.localOf p.l).isSome = true ∧ (a.remoteOf p.r).isSome = true)) :
    LK T0 now ex a (a.modPair id f) :=
  LK.modPair_sel a id f hid hl hr (fun p _ _ h => Or.inl (hnomOn p h)) hsucc hdef hends

/-- `f` touches neither id, ends, state nor the nomination marks (counters, ghost flags, `nominated`) -/
theorem LK.modPair_keep (a : Agent) (id : Nat) (f : Pair → Pair)
    (hid : ∀ p, (f p).id = p.id) (hl : ∀ p, (f p).l = p.l) (hr : ∀ p, (f p).r = p.r)
    (hst : ∀ p, (f p).state = p.state) (hno : ∀ p, (f p).nomOnSuccess = p.nomOnSuccess)
    (hdn : ∀ p, (f p).deferredNom = p.deferredNom) :
    LK T0 now ex a (a.modPair id f) :=
  LK.modPair a id f hid hl hr (fun p h => by rw [hno]; exact h) (fun p _ _ h => by rw [hst]; exact h)
    (fun p _ _ h => by rw [hdn]; exact h) (fun _ p _ _ h => Or.inl (by rw [hst] at h; exact h))

/-- moving the pairs of one id — none of them valid — to a non-valid state -/
theorem LK.setState (a : Agent) (id : Nat) (s : PairState) (hs : s ≠ .succeeded)
    (hq : ∀ x ∈ a.checklist, x.id = id → x.state ≠ .succeeded) :
    LK T0 now ex a (a.modPair id fun q => { q with state := s }) :=
  LK.modPair a id (fun q => { q with state := s }) (fun _ => rfl) (fun _ => rfl) (fun _ => rfl) (fun _ h => h)
    (fun p hp e h => absurd h (hq p hp e)) (fun _ _ _ h => h) (fun _ _ _ _ h => absurd h hs)

/-! ## candidate timestamps -/

theorem seenLocalSent_lk (a : Agent) (uid t : Nat) : LK T0 now ex a (a.seenLocalSent uid t) := by
  have hk : (a.seenLocalSent uid t).locals.map ckey = a.locals.map ckey :=
    updCand_ckey a.locals uid _ (fun _ => rfl)
  refine ⟨hk, IdxKeep.refl (CKeep.refl T0) _, IdxKeep.refl PKeep.refl _, rfl, fun h => h, fun h => h, fun h => h,
    fun _ h => h, fun _ _ h _ _ => h, ?_⟩
  intro h
  refine ⟨⟨h.ids.le, h.ids.uniq⟩, h.remOK, h.noDefer, ?_, h.nomOK, h.pendOK, h.selConn⟩
  intro p hp hs
  have := h.succEnds p hp hs
  refine ⟨?_, this.2⟩
  show (findCand (a.seenLocalSent uid t).locals p.l).isSome = true
  rw [findCand_isSome_congr hk]
  exact this.1

/-- a remote candidate is heard at a time `t ≥ T0` -/
theorem seenRemoteRecv_lk (a : Agent) (uid t : Nat) (h0 : T0 ≤ t) : LK T0 now ex a (a.seenRemoteRecv uid t) := by
  have hk : (a.seenRemoteRecv uid t).remotes.map ckey = a.remotes.map ckey :=
    updCand_ckey a.remotes uid _ (fun _ => rfl)
  refine ⟨rfl, ?_, IdxKeep.refl PKeep.refl _, rfl, fun h => h, fun h => h, fun h => h,
    fun _ h => h, fun _ _ h _ _ => h, ?_⟩
  · refine IdxKeep.map (fun c => if c.uid == uid then { c with lastRecv := some t } else c) a.remotes ?_
    intro c _
    split
    · exact ⟨rfl, Or.inr ⟨t, h0, rfl⟩⟩
    · exact CKeep.refl T0 c
  · intro h
    refine ⟨⟨h.ids.le, h.ids.uniq⟩, candsOK_congr hk h.remOK, h.noDefer, ?_, h.nomOK, h.pendOK, h.selConn⟩
    intro p hp hs
    have := h.succEnds p hp hs
    refine ⟨this.1, ?_⟩
    show (findCand (a.seenRemoteRecv uid t).remotes p.r).isSome = true
    rw [findCand_isSome_congr hk]
    exact this.2

/-! ## connection state, selection -/

theorem setConnected_lk (a : Agent) : LK T0 now ex a (a.setConnState .connected).1 := by
  rw [setConnState_fst_ne _ _ (by decide)]
  refine LK.of_lists rfl rfl rfl rfl rfl (fun h => h) (fun _ => by simp) (fun _ => by simp) (fun _ h => h)
    (fun _ _ h _ _ => h) (fun h => h.nomOK) (fun h => h.pendOK) (fun _ _ => rfl)

theorem setConnected_selected (a : Agent) : (a.setConnState .connected).1.selected = a.selected := by
  rw [setConnState_fst_ne _ _ (by decide)]

theorem select_lk (a : Agent) (id : Nat) : LK T0 now ex a (a.select id).1 := by
  rw [select_fst]
  refine (LK.modPair_keep a id (fun p => { p with nominated := true }) (fun _ => rfl) (fun _ => rfl) (fun _ => rfl)
    (fun _ => rfl) (fun _ => rfl) (fun _ => rfl)).trans ?_
  refine LK.of_lists rfl rfl rfl rfl rfl (fun _ => rfl) (fun _ => by simp) (fun _ => by simp) (fun _ h => h)
    (fun _ _ h _ _ => h) (fun h => h.nomOK) (fun h => h.pendOK) (fun _ _ => rfl)

/-! ## `addPair` -/

theorem addPair_lk (a : Agent) (l r : Cand) : LK T0 now ex a (a.addPair l r).1 := by
  have hnew : ∀ q ∈ (a.addPair l r).1.checklist, q ∈ a.checklist ∨
      q = { id := a.nextPairID + 1, l := l.uid, r := r.uid, controlling := a.controlling } := by
    intro q hq
    simp only [Agent.addPair, List.mem_append, List.mem_singleton] at hq
    exact hq
  refine ⟨rfl, IdxKeep.refl (CKeep.refl T0) _, IdxKeep.append PKeep.refl _ _, rfl, fun h => h, fun h => h,
    fun h => h, fun _ h => h, fun _ _ h _ _ => h, ?_⟩
  intro h
  refine ⟨⟨?_, ?_⟩, h.remOK, ?_, ?_, ?_, h.pendOK, h.selConn⟩
  · intro q hq
    rcases hnew q hq with hq | rfl
    · have := h.ids.le q hq; simp only [Agent.addPair]; omega
    · simp [Agent.addPair]
  · simp only [Agent.addPair]
    rw [List.pairwise_append]
    refine ⟨h.ids.uniq, by simp, ?_⟩
    intro p hp q hq
    simp only [List.mem_singleton] at hq
    subst hq
    have := h.ids.le p hp
    simp only; omega
  · intro q hq
    rcases hnew q hq with hq | rfl
    · exact h.noDefer q hq
    · rfl
  · intro q hq hs
    rcases hnew q hq with hq | rfl
    · exact h.succEnds q hq hs
    · cases hs
  · intro nid hn
    obtain ⟨p, hp, hpid, hps⟩ := h.nomOK nid hn
    exact ⟨p, by simp [Agent.addPair, hp], hpid, hps⟩

/-! ## pending transactions -/

/-- the transaction bookkeeping of `sendBindingRequest`: expire, append the new transaction -/
def sendPd (a : Agent) (t : Nat) (pd : Pending) : Agent :=
  { (a.invalidatePending t) with nextTid := a.nextTid + 1, pending := (a.invalidatePending t).pending ++ [pd] }

theorem sendPd_lk (a : Agent) (pd : Pending) (hpd : pd.tid = 2 * a.nextTid + a.tag) :
    LK T0 now ex a (sendPd a now pd) := by
  refine LK.of_lists rfl rfl rfl rfl rfl (fun h => h) (fun h => h) (fun h => h) (fun _ h => h) ?_
    (fun h => h.nomOK) ?_ (fun h => h.selConn)
  · intro tid q hf hy _
    exact find?_append_of _ _ _ (find?_filter_of _ _ _ hf (by simpa using hy))
  · intro h
    obtain ⟨hlt, hpw⟩ := h.pendOK
    refine ⟨?_, ?_⟩
    · intro q hq
      show q.tid < 2 * (a.nextTid + 1) + a.tag
      simp only [sendPd, Agent.invalidatePending, List.mem_append, List.mem_filter, List.mem_singleton] at hq
      rcases hq with hq | rfl
      · have := hlt q hq.1; omega
      · omega
    · show ((a.pending.filter _) ++ [pd]).Pairwise _
      rw [List.pairwise_append]
      refine ⟨hpw.sublist List.filter_sublist, by simp, ?_⟩
      intro x hx y hy
      simp only [List.mem_singleton] at hy
      subst hy
      have := hlt x (List.mem_filter.mp hx).1
      omega

theorem sendRequest_lk (a : Agent) (l r : Cand) (uc : Bool) (nom : Option Nat) :
    LK T0 now ex a (a.sendRequest now l r uc nom).1 := by
  have h1 : LK T0 now ex a (sendPd a now ⟨2 * a.nextTid + a.tag, l.addr, r.addr, r.net, uc, nom, now⟩) :=
    sendPd_lk a _ rfl
  unfold Agent.sendRequest
  simp only []
  split
  · refine LK.trans ?_ (seenLocalSent_lk _ _ _)
    refine LK.trans ?_ (LK.modPair_keep _ _ _ (fun _ => rfl) (fun _ => rfl) (fun _ => rfl) (fun _ => rfl)
      (fun _ => rfl) (fun _ => rfl))
    exact h1
  · refine LK.trans ?_ (seenLocalSent_lk _ _ _)
    exact h1

theorem ping_lk (a : Agent) (l r : Cand) : LK T0 now ex a (a.ping now l r).1 := sendRequest_lk a l r false none

theorem sendSuccess_lk (a : Agent) (m : Msg) (l r : Cand) : LK T0 now ex a (a.sendSuccess now m l r).1 := by
  unfold Agent.sendSuccess
  simp only []
  split
  · refine LK.trans ?_ (seenLocalSent_lk _ _ _)
    exact LK.modPair_keep _ _ _ (fun _ => rfl) (fun _ => rfl) (fun _ => rfl) (fun _ => rfl) (fun _ => rfl)
      (fun _ => rfl)
  · exact seenLocalSent_lk _ _ _

theorem takePending_lk (a : Agent) (tid : Nat) : LK T0 now (some tid) a (a.takePending now tid).1 := by
  have hsub : ∀ (l : List Pending), PendOK a → l.Sublist a.pending →
      (∀ pd ∈ l, pd.tid < 2 * a.nextTid + a.tag) ∧ l.Pairwise (fun x y => x.tid ≠ y.tid) := by
    intro l h hs
    exact ⟨fun pd hpd => h.1 pd (hs.subset hpd), h.2.sublist hs⟩
  unfold Agent.takePending
  simp only []
  split
  · refine LK.of_lists rfl rfl rfl rfl rfl (fun h => h) (fun h => h) (fun h => h) (fun _ h => h) ?_
      (fun h => h.nomOK) ?_ (fun h => h.selConn)
    · intro t q hf hy hne
      refine find?_filter_of _ _ _ (find?_filter_of _ _ _ hf (by simpa using hy)) ?_
      have ht := List.find?_some hf
      simp only [beq_iff_eq] at ht
      simp only [bne_iff_ne, ne_eq]
      intro e
      exact hne (by rw [← ht, e])
    · intro h
      exact hsub _ h.pendOK ((List.filter_sublist).trans List.filter_sublist)
  · refine LK.of_lists rfl rfl rfl rfl rfl (fun h => h) (fun h => h) (fun h => h) (fun _ h => h) ?_
      (fun h => h.nomOK) ?_ (fun h => h.selConn)
    · intro t q hf hy _
      exact find?_filter_of _ _ _ hf (by simpa using hy)
    · intro h
      exact hsub _ h.pendOK List.filter_sublist

/-! ## nomination, discovery -/

theorem foldl_best_some (a : Agent) (ok : Pair → Bool) (L : List Pair) :
    ∀ (l : List Pair) (b : Option Pair), (∀ x ∈ l, x ∈ L) → (∀ p, b = some p → p ∈ L ∧ ok p = true) →
    ∀ p, l.foldl (fun best p =>
      if !ok p then best else
      match best with
      | none => some p
      | some b => if a.pairPrio b < a.pairPrio p then some p else some b) b = some p → p ∈ L ∧ ok p = true := by
  intro l
  induction l with
  | nil => intro b _ hb p hp; exact hb p hp
  | cons x xs ih =>
    intro b hl hb p hp
    rw [List.foldl_cons] at hp
    refine ih _ (fun y hy => hl y (List.mem_cons_of_mem _ hy)) ?_ p hp
    intro q hq
    cases hx : ok x with
    | false =>
      simp only [hx, Bool.not_false, if_true] at hq
      exact hb q hq
    | true =>
      simp only [hx, Bool.not_true, Bool.false_eq_true, if_false] at hq
      have hxL : x ∈ L ∧ ok x = true := ⟨hl x (List.mem_cons_self ..), hx⟩
      cases b with
      | none =>
        simp only [Option.some.injEq] at hq
        exact hq ▸ hxL
      | some b0 =>
        simp only [] at hq
        split at hq
        · simp only [Option.some.injEq] at hq
          exact hq ▸ hxL
        · exact hb q hq

/-- the best pair of a filtered checklist is listed and passes the filter -/
theorem bestBy_some {a : Agent} {ok : Pair → Bool} {p : Pair} (h : a.bestBy ok = some p) :
    p ∈ a.checklist ∧ ok p = true :=
  foldl_best_some a ok a.checklist a.checklist none (fun _ h => h) (fun _ h => by cases h) p h

/-- the controlling selector nominates a listed valid pair while nothing was nominated -/
theorem LK.setNominated (a : Agent) (id : Nat) (hn : a.nominatedPair = none)
    (hp : ∃ q ∈ a.checklist, q.id = id ∧ q.state = .succeeded) :
    LK T0 now ex a { a with nominatedPair := some id } := by
  refine LK.of_lists rfl rfl rfl rfl rfl (fun h => h) (fun h => h) (fun h => h) ?_ (fun _ _ h _ _ => h)
    ?_ (fun h => h.pendOK) (fun h => h.selConn)
  · intro i hi; rw [hn] at hi; cases hi
  · intro _ i hi
    have : id = i := by simpa using hi
    subst this
    exact hp

/-- a remote candidate with a new transport address is appended -/
theorem LK.addRemote (a : Agent) (c : Cand) (n : Nat) (hnet : c.net = 0) (hty : 1 ≤ c.ty ∧ c.ty ≤ 4)
    (hfresh : CandsOK a.remotes → ∀ x ∈ a.remotes, x.addr ≠ c.addr) :
    LK T0 now ex a { a with nextUid := n, remotes := a.remotes ++ [c] } := by
  refine ⟨rfl, IdxKeep.append (CKeep.refl T0) _ _, IdxKeep.refl PKeep.refl _, rfl, fun h => h, fun h => h,
    fun h => h, fun _ h => h, fun _ _ h _ _ => h, ?_⟩
  intro h
  refine ⟨⟨h.ids.le, h.ids.uniq⟩, ?_, h.noDefer, ?_, h.nomOK, h.pendOK, h.selConn⟩
  · refine ⟨?_, ?_⟩
    · intro x hx
      rcases List.mem_append.mp hx with hx | hx
      · exact h.remOK.1 x hx
      · simp only [List.mem_singleton] at hx
        subst hx
        exact ⟨hnet, hty⟩
    · show (a.remotes ++ [c]).Pairwise _
      rw [List.pairwise_append]
      refine ⟨h.remOK.2, by simp, ?_⟩
      intro x hx y hy
      simp only [List.mem_singleton] at hy
      subst hy
      exact hfresh h.remOK x hx
  · intro p hp hs
    have := h.succEnds p hp hs
    exact ⟨this.1, findCand_append_isSome _ _ _ this.2⟩

end IceProofs.C01Live
