/-!
# Counting lemmas over lists with one element replaced (used by the C13 proofs)
-/
namespace IceProofs.CountP

/-- Replacing element `i` (which was `a`) by `b` changes a count by `p b − p a`. -/
theorem countP_set' {α : Type} (p : α → Bool) {l : List α} {i : Nat} {a : α} (b : α)
    (h : l[i]? = some a) :
    (l.set i b).countP p + (if p a then 1 else 0) = l.countP p + (if p b then 1 else 0) := by
  induction l generalizing i with
  | nil => simp at h
  | cons x xs ih =>
    cases i with
    | zero =>
      simp at h
      subst h
      simp [List.countP_cons]
      omega
    | succ n =>
      simp at h
      have := ih h
      simp [List.countP_cons]
      omega

theorem countP_le_of_imp {α : Type} (p q : α → Bool) (l : List α) (h : ∀ a, p a = true → q a = true) :
    l.countP p ≤ l.countP q := by
  induction l with
  | nil => simp
  | cons x xs ih =>
    simp only [List.countP_cons]
    have := h x
    cases hp : p x <;> cases hq : q x <;> simp_all <;> omega

theorem countP_ge_of_getElem? {α : Type} (p : α → Bool) {l : List α} {i : Nat} {a : α}
    (h : l[i]? = some a) : (if p a then 1 else 0) ≤ l.countP p := by
  induction l generalizing i with
  | nil => simp at h
  | cons x xs ih =>
    cases i with
    | zero =>
      simp at h
      subst h
      simp only [List.countP_cons]
      omega
    | succ n =>
      simp at h
      have := ih h
      simp only [List.countP_cons]
      omega

theorem getElem?_lt {α : Type} {l : List α} {i : Nat} {a : α} (h : l[i]? = some a) : i < l.length := by
  rcases Nat.lt_or_ge i l.length with h' | h'
  · exact h'
  · simp [List.getElem?_eq_none h'] at h

end IceProofs.CountP
