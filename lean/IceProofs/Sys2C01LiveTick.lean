import IceProofs.Sys2C01LiveStep2
/-!
# C01 liveness, layer 3d — the tick of a `Good` controlling agent without a selected pair

`agent_tick_ping`: no valid pair yet ⇒ `pingAllCandidates` runs and every pair under budget gets its check.
`agent_tick_nominate`: a valid pair and the acceptance waits over ⇒ a USE-CANDIDATE request goes out on a
Succeeded pair (the nominated one, or the best valid one, which becomes the nominated pair).
-/
namespace IceProofs.C01Live
open IceModel.AgentCore IceProofs.C03 IceProofs.Agent

/-- the longest acceptance wait of the configuration -/
def Config.maxWait (cfg : Config) : Nat := max (max cfg.hostWait cfg.srflxWait) (max cfg.prflxWait cfg.relayWait)

/-- the agent with `checkingStart` set -/
def withCS (a : Agent) (x : Nat) : Agent := { a with checkingStart := x }

theorem withCS_self (a : Agent) : withCS a a.checkingStart = a := rfl

theorem IsReq.of_withCS {a : Agent} {x : Nat} {uc : Bool} {m : Msg} (h : IsReq (withCS a x) uc m) : IsReq a uc m :=
  ⟨h.cls, h.method, h.user, h.key, h.role, h.nom, h.uc⟩

/-- the tick closure of an open, live agent on which the checking deadline does not fire is `ContactCandidates`
(on the agent with `checkingStart` possibly reset) followed by the `lastSeen` update -/
theorem contact_cc (a : Agent) (T : Nat) (hcl : a.closed = false) (hnf : a.connState ≠ .failed) (hck : CkOK a T) :
    ∃ x, a.contact T = finish ((withCS a x).contactCandidates T) := by
  have hchk : ∃ x, chk a T = withCS a x := by
    unfold chk
    split
    · exact ⟨T, rfl⟩
    · exact ⟨a.checkingStart, rfl⟩
  rw [contact_eq]
  simp only [hcl, Bool.false_eq_true, if_false]
  split
  · rename_i hc; exact absurd hc hnf
  · rename_i hc
    rw [hck hc]
    simp only [Bool.false_eq_true, if_false]
    obtain ⟨x, hx⟩ := hchk
    exact ⟨x, by rw [hx]⟩
  · exact ⟨a.checkingStart, by rw [withCS_self]⟩

section
variable {T0 H T : Nat} {a : Agent}

/-- the state and the outputs of the single tick at `T = nextTick` -/
theorem tick_eq (hg : Good T0 H a) (hT : T ≤ H) (htk : a.nextTick = some T) :
    ∃ x, (step a (.advance T)).2 = ((withCS a x).contactCandidates T).2 ∧
      (step a (.advance T)).1.pending = ((withCS a x).contactCandidates T).1.pending ∧
      (step a (.advance T)).1.nominatedPair = ((withCS a x).contactCandidates T).1.nominatedPair := by
  obtain ⟨x, hx⟩ := contact_cc a T hg.open_ hg.alive (hg.timely.ckOK hT)
  refine ⟨x, ?_⟩
  show (a.runTimers T (99998 + 2)).2 = _ ∧ (a.runTimers T (99998 + 2)).1.pending = _ ∧ (a.runTimers T (99998 + 2)).1.nominatedPair = _
  rw [runTimers_single a T 99998 hg.started hg.open_ htk, hx]
  exact ⟨rfl, rfl, rfl⟩

theorem agent_tick_ping (hg : Good T0 H a) (hT : T ≤ H) (htk : a.nextTick = some T) (hc : a.controlling = true)
    (hs : a.selected = none) (hns : ∀ p ∈ a.checklist, p.state ≠ .succeeded)
    {p0 : Pair} (hp0 : p0 ∈ a.checklist) (hst : p0.state = .waiting ∨ p0.state = .inProgress)
    (hb : p0.reqCount ≤ a.cfg.maxBindingRequests) {l r : Cand} (hl : a.localOf p0.l = some l) (hr : a.remoteOf p0.r = some r) :
    ∃ m, Out.dgram l.addr r.addr m ∈ (step a (.advance T)).2 ∧ IsReq a false m ∧
      (step a (.advance T)).1.pending.find? (·.tid == m.tid) = some (pendOf m.tid l.addr r.addr r.net false T) := by
  obtain ⟨x, e1, e2, _⟩ := tick_eq hg hT htk
  rw [e1, e2]
  have hnom : a.nominatedPair = none := by
    cases hn : a.nominatedPair with
    | none => rfl
    | some id =>
      obtain ⟨p, hp, _, hps⟩ := hg.linv.nomOK id hn
      exact absurd hps (hns p hp)
  rcases cc_cases (withCS a x) T hc hs with ⟨id, p, h1, _⟩ | ⟨id, h1, _⟩ | ⟨_, h2, _⟩ |
      ⟨p, _, _, _, h2, _⟩
  · rw [show (withCS a x).nominatedPair = a.nominatedPair from rfl, hnom] at h1; cases h1
  · rw [show (withCS a x).nominatedPair = a.nominatedPair from rfl, hnom] at h1; cases h1
  · rw [h2]
    obtain ⟨m, q1, q2, q3⟩ := pingAll_emits (withCS a x) T ⟨hg.linv.ids.le, hg.linv.ids.uniq⟩ hg.linv.pendOK p0 hp0 hst hb l r hl hr
    exact ⟨m, q1, q2.of_withCS, q3⟩
  · have := bestValid_some h2
    exact absurd this.2 (hns p this.1)

theorem agent_tick_nominate (hg : Good T0 H a) (hT : T ≤ H) (htk : a.nextTick = some T) (hc : a.controlling = true)
    (hs : a.selected = none) (hsucc : ∃ p ∈ a.checklist, p.state = .succeeded)
    (htime : a.selStart + Config.maxWait a.cfg ≤ T) :
    ∃ p l r m, p ∈ a.checklist ∧ p.state = .succeeded ∧ a.localOf p.l = some l ∧ a.remoteOf p.r = some r ∧
      Out.dgram l.addr r.addr m ∈ (step a (.advance T)).2 ∧ IsReq a true m ∧
      (step a (.advance T)).1.pending.find? (·.tid == m.tid) = some (pendOf m.tid l.addr r.addr r.net true T) := by
  obtain ⟨x, e1, e2, _⟩ := tick_eq hg hT htk
  rw [e1, e2]
  have ends : ∀ p ∈ a.checklist, p.state = .succeeded → ∃ l r, a.localOf p.l = some l ∧ a.remoteOf p.r = some r := by
    intro p hp hps
    obtain ⟨h1, h2⟩ := hg.linv.succEnds p hp hps
    obtain ⟨l, hl⟩ := Option.isSome_iff_exists.mp h1
    obtain ⟨r, hr⟩ := Option.isSome_iff_exists.mp h2
    exact ⟨l, r, hl, hr⟩
  have emit : ∀ (b : Agent) (p : Pair) (l r : Cand), b.localOf p.l = some l → b.remoteOf p.r = some r → PendOK b →
      ∃ m, Out.dgram l.addr r.addr m ∈ (b.nominate T p).2 ∧ IsReq b true m ∧
        (b.nominate T p).1.pending.find? (·.tid == m.tid) = some (pendOf m.tid l.addr r.addr r.net true T) := by
    intro b p l r hl hr hpo
    rw [nominate_eq b T p l r hl hr]
    obtain ⟨m, h1, h2, h3, h4⟩ := sendRequest_emits b T l r true hpo
    exact ⟨m, by rw [h1]; exact List.mem_singleton.mpr rfl, h2, by rw [h3]; exact h4⟩
  have nomable : ∀ cd : Cand, (cd ∈ a.locals ∨ cd ∈ a.remotes) → (withCS a x).nominatable T cd = true := by
    intro cd hcd
    apply nominatable_of_time
    · rcases hcd with h | h
      · exact (hg.locOK.1 cd h).2
      · exact (hg.linv.remOK.1 cd h).2
    · exact htime
  rcases cc_cases (withCS a x) T hc hs with ⟨id, p, h1, h2, h3⟩ | ⟨id, h1, h2, _⟩ | ⟨_, _, h3⟩ |
      ⟨p, l, r, _, h2, hl, hr, _, h3⟩
  · -- the nominated pair
    rw [h3]
    obtain ⟨hpm, hpid⟩ := pairById_mem h2
    obtain ⟨p', hp', hid', hps'⟩ := hg.linv.nomOK id h1
    have : p' = p := mem_unique hg.linv.ids hp' hpm (hid'.trans hpid.symm)
    subst this
    obtain ⟨l, r, hl, hr⟩ := ends p' hpm hps'
    obtain ⟨m, q1, q2, q3⟩ := emit (withCS a x) p' l r hl hr hg.linv.pendOK
    exact ⟨p', l, r, m, hpm, hps', hl, hr, q1, q2.of_withCS, q3⟩
  · exfalso
    obtain ⟨p', hp', hid', _⟩ := hg.linv.nomOK id h1
    have := pairById_of_mem hg.linv.ids hp'
    rw [hid'] at this
    rw [show (withCS a x).pairById id = a.pairById id from rfl, this] at h2
    cases h2
  · exfalso
    obtain ⟨p, hp, hps⟩ := hsucc
    have hb := bestValid_isSome (a := (withCS a x)) hp hps
    obtain ⟨q, hq⟩ := Option.isSome_iff_exists.mp hb
    obtain ⟨hqm, hqs⟩ := bestValid_some hq
    obtain ⟨l, r, hl, hr⟩ := ends q hqm hqs
    have := h3 q l r hq hl hr
    rw [nomable l (Or.inl (IceProofs.C01.localOf_mem hl)), nomable r (Or.inr (IceProofs.C01.remoteOf_mem hr))] at this
    cases this
  · -- the best valid pair becomes the nominated pair
    rw [h3]
    obtain ⟨hpm, hps⟩ := bestValid_some h2
    obtain ⟨m, q1, q2, q3⟩ := emit ({ ((withCS a x).modPair p.id fun p => { p with nominated := true }) with
      nominatedPair := some p.id } : Agent) p l r hl hr hg.linv.pendOK
    exact ⟨p, l, r, m, hpm, hps, hl, hr, q1, ⟨q2.cls, q2.method, q2.user, q2.key, q2.role, q2.nom, q2.uc⟩, q3⟩

end

end IceProofs.C01Live
