import IceProofs.AgentC06Step
/-!
# C06 — every `step` is a chain of atomic bookkeeping transitions

`Trans e a b` lists the only ways the bookkeeping of an agent changes while event `e` is handled; `step_chain`
shows that `step a e` is a finite chain of them (through states that all satisfy `Inv`).  Every further property
(no duplicate pair, id stability, no residue after Failed, …) is then proved once per constructor.
-/
namespace IceProofs.AgentC06
open IceModel.AgentCore

/-- the wiped agent of `Restart`, before the final `updateConnectionState(Checking)` -/
def restartCore (a : Agent) (now : Nat) (u p : String) : Agent :=
  { ((({ a with localUfrag := u, localPwd := p, remoteUfrag := "", remotePwd := "" } : Agent).wipe).resetSelector now) with
      generation := a.generation + 1 }

def closeCore (a : Agent) : Agent := { a with locals := [], remotes := [], caches := [], closed := true }

inductive Trans (e : Ev) (w : Bool) : Agent → Agent → Prop
  /-- non-wiping helper work: same pairs / candidates / caches / counters -/
  | evo {a b : Agent} (h : Evo a b) : Trans e w a b
  /-- one new pair for two current candidates of the same network type that are not paired yet -/
  | addP {a b : Agent} (h : AddP a b) : Trans e w a b
  /-- transition to Failed: everything wiped (only on the timer path, `w = true`) -/
  | wf {a b : Agent} (hw : w = true) (h : WF a b) : Trans e w a b
  /-- only the connection state moves (start / restart / close) -/
  | connState {a : Agent} (s : ConnState) (hs : s ≠ .failed)
      (hn : a.nominatedPair = none ∨ a.closed = true) : Trans e w a { a with connState := s }
  /-- a new local candidate is appended -/
  | local {a : Agent} (c : Cand) (hc : a.closed = false)
      (hf : (a.locals.filter (·.net == c.net)).find? (·.equal c) = none) : Trans e w a (alA1 a c)
  /-- a new remote candidate is appended, superseding peer-reflexive ones with its transport address; it is
  either a discovered peer-reflexive candidate or the candidate of an `addRemote` event -/
  | remote {a : Agent} (c : Cand) (hc : a.closed = false)
      (hb : a.cfg.blockedIPs.contains (ipOf c.addr) = false)
      (hf : (a.remotes.filter (·.net == c.net)).find? (·.equal c) = none)
      (hsrc : (c.ty = 3 ∧ c.rel = some 0 ∧ c.form = 0 ∧ c.tt = 0) ∨ ∃ now, e = .addRemote now c) : Trans e w a (arcA3 a c)
  /-- a validated source address is cached -/
  | cache {a : Agent} (x : Nat × Nat × Nat) (hl : ∃ l ∈ lcsOf a, l.uid = x.1)
      (hr : ∃ r ∈ rcsOf a, r.uid = x.2.2) (hc : a.closed = false) :
      Trans e w a { a with caches := a.caches ++ [x] }
  | restart {a : Agent} (now : Nat) (u p : String) (hc : a.closed = false) (he : e = .restart now u p) :
      Trans e w a (restartCore a now u p)
  | close {a : Agent} (hc : a.closed = false) (he : e = .close) : Trans e w a (closeCore a)

theorem Inv.trans {e : Ev} {w : Bool} {a b : Agent} (h : Inv a) (t : Trans e w a b) : Inv b := by
  cases t with
  | evo h' => exact h.evo h'
  | addP h' => exact h.addP h'
  | wf _ h' => exact h.wf h'
  | connState s hs hn =>
    refine ⟨h.s, h.c.sel, h.c.selNom, h.c.nomLe, fun id hid => ?_⟩
    rcases hn with hn | hn
    · have hid' : a.nominatedPair = some id := hid
      rw [hn] at hid'; exact absurd hid' (by simp)
    · exact Or.inr (Or.inr (Or.inr hn))
  | «local» c hc hf => exact h.alA1 c hc hf
  | remote c hc hb hf _ => exact h.stage3 c hc hb hf
  | cache x hl hr hc => exact h.addCache x hl hr hc
  | restart now u p _ _ => exact h.wiped rfl rfl rfl rfl rfl rfl rfl rfl rfl (Or.inl rfl)
  | close _ _ => exact h.close

inductive Chain (e : Ev) (w : Bool) : Agent → Agent → Prop
  | refl {a : Agent} : Chain e w a a
  | step {a b c : Agent} (h : Chain e w a b) (t : Trans e w b c) : Chain e w a c

theorem Chain.trans {e : Ev} {w : Bool} {a b c : Agent} (h1 : Chain e w a b) (h2 : Chain e w b c) : Chain e w a c := by
  induction h2 with
  | refl => exact h1
  | step _ t ih => exact .step ih t

theorem Chain.one {e : Ev} {w : Bool} {a b : Agent} (t : Trans e w a b) : Chain e w a b := .step .refl t

theorem Inv.chain {e : Ev} {w : Bool} {a b : Agent} (h : Inv a) (c : Chain e w a b) : Inv b := by
  induction c with
  | refl => exact h
  | step _ t ih => exact ih.trans t

/-- induction principle: a property preserved by every atomic transition (from states satisfying `Inv`) is
preserved by every chain -/
theorem Chain.preserves {e : Ev} {w : Bool} (P : Agent → Prop)
    (hP : ∀ b c, Inv b → P b → Trans e w b c → P c) {a a' : Agent} (hi : Inv a) (hp : P a)
    (c : Chain e w a a') : P a' := by
  induction c with
  | refl => exact hp
  | step c' t ih => exact hP _ _ (hi.chain c') ih t

/-! ## the handlers as chains -/

theorem Chain.ofEvo {e : Ev} {w : Bool} {a b : Agent} (h : Evo a b) : Chain e w a b := .one (.evo h)
theorem Chain.ofSame {e : Ev} {w : Bool} {a b : Agent} (h : Same a b) : Chain e w a b := .one (.evo h.evo)

theorem Chain.ofEvoW {e : Ev} {a b : Agent} (h : EvoW a b) : Chain e true a b := by
  cases h with
  | evo h => exact .one (.evo h)
  | wf h => exact .one (.wf rfl h)

theorem Trans.lift {e : Ev} {a b : Agent} (t : Trans e false a b) : Trans e true a b := by
  cases t with
  | evo h => exact .evo h
  | addP h => exact .addP h
  | wf hw _ => cases hw
  | connState s hs hn => exact .connState s hs hn
  | «local» c hc hf => exact .local c hc hf
  | remote c hc hb hf hs => exact .remote c hc hb hf hs
  | cache x hl hr hc => exact .cache x hl hr hc
  | restart now u p hc he => exact .restart now u p hc he
  | close hc he => exact .close hc he

theorem Chain.lift {e : Ev} {a b : Agent} (c : Chain e false a b) : Chain e true a b := by
  induction c with
  | refl => exact .refl
  | step _ t ih => exact .step ih t.lift

theorem Chain.ofAddPs {e : Ev} {w : Bool} {a b : Agent} (h : AddPs a b) : Chain e w a b := by
  induction h with
  | refl => exact .refl
  | step _ p ih => exact .step ih (.addP p)

theorem Chain.ofHand {e : Ev} {w : Bool} {a b : Agent} (h : Hand a b) : Chain e w a b := by
  obtain ⟨a1, a2, h1, h2, h3⟩ := h
  exact ((Chain.ofEvo h1).step (.addP h2)).step (.evo h3)

theorem Chain.setConnState {e : Ev} {w : Bool} (a : Agent) (s : ConnState) (hs : s ≠ .failed)
    (hn : a.nominatedPair = none ∨ a.closed = true) : Chain e w a (a.setConnState s).1 := by
  rw [setConnState_ne_failed a s hs]
  split
  · exact .refl
  · exact .one (.connState s hs hn)

theorem Chain.addRemoteCandidate {e : Ev} {w : Bool} {a : Agent} (hi : Inv a) (c : Cand) (hc : a.closed = false)
    (hsrc : (c.ty = 3 ∧ c.rel = some 0 ∧ c.form = 0 ∧ c.tt = 0) ∨ ∃ now, e = .addRemote now c) :
    Chain e w a (a.addRemoteCandidate c).1 := by
  cases hb : a.cfg.blockedIPs.contains (ipOf c.addr) with
  | true => rw [arc_blocked a c hb]; exact .refl
  | false =>
    cases hf : (a.remotes.filter (·.net == c.net)).find? (·.equal c) with
    | some x => rw [arc_dup a c x hb hf]; exact .refl
    | none =>
      rw [arc_eq a c hb hf]
      obtain ⟨h1, _, _⟩ := arcA4_spec hi c hc hb hf
      refine ((Chain.one (.remote c hc hb hf hsrc)).trans (Chain.ofAddPs h1)).trans ?_
      exact Chain.ofSame (Same.of_fields rfl rfl rfl rfl rfl rfl rfl rfl rfl rfl rfl)

theorem Chain.addLocalCandidate {e : Ev} {w : Bool} {a : Agent} (hi : Inv a) (c : Cand) :
    Chain e w a (a.addLocalCandidate c).1 := by
  cases hc : a.closed with
  | true => rw [al_closed a c hc]; exact .refl
  | false =>
    cases hf : (a.locals.filter (·.net == c.net)).find? (·.equal c) with
    | some x => rw [al_dup a c x hc hf]; exact .refl
    | none =>
      rw [al_eq a c hc hf]
      refine ((Chain.one (.local c hc hf)).trans (Chain.ofAddPs (alA2_spec hi c hc hf))).trans ?_
      exact Chain.ofSame (Same.of_fields rfl rfl rfl rfl rfl rfl rfl rfl rfl rfl rfl)

theorem Chain.handleInbound {e : Ev} {w : Bool} {a : Agent} (hi : Inv a) (hc : a.closed = false) (now : Nat) (l : Cand)
    (src : Nat) (m : Msg) (hl : l ∈ a.locals) : Chain e w a (a.handleInbound now l src m).1 := by
  rw [hi_eq]
  split
  · exact .refl
  · simp only []
    split
    · split
      · exact .refl
      · split
        · exact .refl
        · rename_i r _
          have := Evo.handleSuccess a now m l r src
          generalize a.handleSuccess now m l r src = hs at this
          obtain ⟨b, o⟩ := hs
          exact Chain.ofEvo (this.r_same (Same.seenRemoteRecv _ _ _))
    · split
      · split
        · exact .refl
        · split
          · exact .refl
          · obtain ⟨h1, h2, h3, h4⟩ := hiDiscover_spec hi hc l src m
            have hd : Chain e w a (hiDiscover a l src m (a.findRemote l.net src)).1 := by
              unfold hiDiscover
              split
              · exact .refl
              · exact Chain.addRemoteCandidate hi _ hc (Or.inl ⟨rfl, rfl, rfl, rfl⟩)
            generalize hiDiscover a l src m (a.findRemote l.net src) = d at h1 h2 h3 h4 hd
            obtain ⟨b, o0, rc⟩ := d
            simp only [] at h1 h2 h3 h4 hd ⊢
            split
            · exact hd
            · rename_i _ r
              obtain ⟨h5, h6⟩ := h4 r rfl
              exact hd.trans (Chain.ofHand (Hand.hiRequest b h1 now l m r o0 (h2 ▸ mem_lcsOf hl) h5 h6))
      · split
        · exact Chain.ofSame (Same.seenRemoteRecv _ _ _)
        · exact .refl

theorem Chain.idA1 {e : Ev} {w : Bool} {a : Agent} (hc : a.closed = false) (now : Nat) (l : Cand) (src : Nat)
    (hl : l ∈ a.locals) : Chain e w a (idA1 a now l src).1 := by
  unfold AgentC06.idA1
  split
  · exact Chain.ofSame (Same.seenRemoteRecv _ _ _)
  · split
    · rename_i r hr
      have e1 := (Same.seenRemoteRecv a r.uid now).evo
      refine (Chain.ofEvo e1).step ?_
      exact .cache (l.uid, src, r.uid) ⟨core l, e1.lcs ▸ mem_lcsOf hl, rfl⟩
        ⟨core r, e1.rcs ▸ mem_rcsOf (findRemote_some hr).1, rfl⟩ (e1.closed ▸ hc)
    · exact .refl

theorem Chain.inboundData {e : Ev} {w : Bool} {a : Agent} (hc : a.closed = false) (now : Nat) (l : Cand) (src len : Nat)
    (hl : l ∈ a.locals) : Chain e w a (a.inboundData now l src len).1 := by
  rw [id_eq]
  have h1 : Chain e w a (AgentC06.idA1 a now l src).1 := Chain.idA1 hc now l src hl
  generalize AgentC06.idA1 a now l src = d at h1
  obtain ⟨b, ok⟩ := d
  simp only [] at h1 ⊢
  split
  · exact h1
  split
  · exact h1
  · have h2 : Evo b { b with rx := b.rx ++ [len] } := Same.evo rfl
    refine h1.trans (Chain.ofEvo ?_)
    repeat' split
    all_goals evo_auto

/-- **`step` is a chain of atomic non-wiping bookkeeping transitions followed by the timer path**
(`runForced` / `runTimers`: an evolution or the Failed wipe) -/
theorem step_split {a : Agent} (h : Inv a) (e : Ev) :
    ∃ b, Chain e false a b ∧ EvoW b (step a e).1 := by
  cases e with
  | addLocal now c =>
    exact ⟨(a.addLocalCandidate c).1, Chain.addLocalCandidate h c, EvoW.runForced _ now⟩
  | addRemote now c =>
    simp only [IceModel.AgentCore.step]
    cases hc : a.closed with
    | true => exact ⟨a, .refl, by simpa using EvoW.refl a⟩
    | false =>
      simp only [Bool.false_eq_true, if_false]
      split
      · exact ⟨a, .refl, EvoW.refl a⟩
      · exact ⟨_, Chain.addRemoteCandidate h c hc (Or.inr ⟨now, rfl⟩), EvoW.runForced _ now⟩
  | start now ctl ru rp =>
    simp only [IceModel.AgentCore.step]
    by_cases hc : a.closed = true
    · exact ⟨a, .refl, by simpa [hc] using EvoW.refl a⟩
    by_cases hst : a.started = true
    · exact ⟨a, .refl, by simpa [hc, hst] using EvoW.refl a⟩
    by_cases hru : ru = ""
    · exact ⟨a, .refl, by simpa [hc, hst, hru] using EvoW.refl a⟩
    by_cases hrp : rp = ""
    · exact ⟨a, .refl, by simpa [hc, hst, hru, hrp] using EvoW.refl a⟩
    rw [if_neg hc, if_neg hst, if_neg (by simpa using hru), if_neg (by simpa using hrp)]
    have h1 : Evo a (({ a with controlling := ctl, remoteUfrag := ru, remotePwd := rp, started := true } : Agent).resetSelector now) :=
      Evo.clearNominatedPair a _ rfl rfl rfl rfl rfl rfl rfl rfl rfl rfl rfl
    have h2 : Chain (.start now ctl ru rp) false a
        ((({ a with controlling := ctl, remoteUfrag := ru, remotePwd := rp, started := true } : Agent).resetSelector now).setConnState .checking).1 :=
      (Chain.ofEvo h1).trans (Chain.setConnState _ .checking (by simp) (Or.inl rfl))
    generalize ((({ a with controlling := ctl, remoteUfrag := ru, remotePwd := rp, started := true } : Agent).resetSelector now).setConnState .checking) = sc at h2
    obtain ⟨b, o⟩ := sc
    simp only [] at h2 ⊢
    refine ⟨_, h2.trans (Chain.ofSame (b := { b.requestCheck with lastSeen := .unknown, checkingStart := 0, checkingTimeout := b.initialCheckingTimeout }) (Same.of_fields rfl rfl rfl rfl rfl rfl rfl rfl rfl rfl rfl)), ?_⟩
    have := EvoW.runForced { b.requestCheck with lastSeen := .unknown, checkingStart := 0, checkingTimeout := b.initialCheckingTimeout } now
    generalize Agent.runForced _ now = rf at this ⊢
    exact this
  | setRemoteCreds ru rp =>
    refine ⟨(step a (.setRemoteCreds ru rp)).1, ?_, EvoW.refl _⟩
    simp only [IceModel.AgentCore.step]
    repeat' split
    all_goals first
      | exact .refl
      | exact Chain.ofSame (Same.of_fields rfl rfl rfl rfl rfl rfl rfl rfl rfl rfl rfl)
  | advance now => exact ⟨a, .refl, EvoW.runTimers a now _⟩
  | inbound now la src m =>
    simp only [IceModel.AgentCore.step]
    split
    · exact ⟨a, .refl, EvoW.refl a⟩
    · rename_i hc
      have hc' : a.closed = false := by
        cases hh : a.closed with
        | false => rfl
        | true => simp [hh] at hc
      split
      · exact ⟨a, .refl, EvoW.refl a⟩
      · rename_i l hl
        exact ⟨_, Chain.handleInbound h hc' now l src m (localByAddr_some hl).1, EvoW.runForced _ now⟩
  | inboundData now la src len stunLike =>
    refine ⟨(step a (.inboundData now la src len stunLike)).1, ?_, EvoW.refl _⟩
    simp only [IceModel.AgentCore.step]
    split
    · exact .refl
    · rename_i hc
      have hc' : a.closed = false := by
        cases hh : a.closed with
        | false => rfl
        | true => simp [hh] at hc
      split
      · exact .refl
      · rename_i l hl
        exact Chain.inboundData hc' now l src len (localByAddr_some hl).1
  | write now len stunLike =>
    refine ⟨(step a (.write now len stunLike)).1, ?_, EvoW.refl _⟩
    simp only [IceModel.AgentCore.step]
    unfold Agent.write
    split
    · exact .refl
    · split
      · exact .refl
      · split
        · exact .refl
        · rename_i p _
          have := Same.writeVia a now p len
          generalize a.writeVia now p len = w at this
          obtain ⟨b, o⟩ := w
          exact Chain.ofSame (this.trans (Same.of_fields rfl rfl rfl rfl rfl rfl rfl rfl rfl rfl rfl))
  | writeToPair now id len stunLike =>
    refine ⟨(step a (.writeToPair now id len stunLike)).1, ?_, EvoW.refl _⟩
    simp only [IceModel.AgentCore.step]
    unfold Agent.writeToPair
    repeat' split
    all_goals first
      | exact .refl
      | exact Chain.ofSame (Same.writeVia _ _ _ _)
  | read cap =>
    refine ⟨(step a (.read cap)).1, ?_, EvoW.refl _⟩
    simp only [IceModel.AgentCore.step]
    repeat' split
    all_goals first
      | exact .refl
      | exact Chain.ofSame (Same.of_fields rfl rfl rfl rfl rfl rfl rfl rfl rfl rfl rfl)
  | renominate now la ri value =>
    refine ⟨(step a (.renominate now la ri value)).1, ?_, EvoW.refl _⟩
    simp only [IceModel.AgentCore.step]
    repeat' split
    all_goals first
      | exact .refl
      | exact Chain.ofSame (Same.trans (Same.sendRequest _ _ _ _ _ _) (Same.of_fields rfl rfl rfl rfl rfl rfl rfl rfl rfl rfl rfl))
  | restart now u p =>
    refine ⟨(step a (.restart now u p)).1, ?_, EvoW.refl _⟩
    simp only [IceModel.AgentCore.step]
    split
    · exact .refl
    · rename_i hc
      have hc' : a.closed = false := by simpa using hc
      show Chain _ _ a (a.doRestart now u p).1
      unfold Agent.doRestart
      simp only []
      have h1 : Chain (.restart now u p) false a (restartCore a now u p) := .one (.restart now u p hc' rfl)
      split
      · exact h1.trans (Chain.setConnState _ .checking (by simp) (Or.inl rfl))
      · exact h1
  | close =>
    refine ⟨(step a .close).1, ?_, EvoW.refl _⟩
    simp only [IceModel.AgentCore.step]
    split
    · exact .refl
    · rename_i hc
      have hc' : a.closed = false := by simpa using hc
      exact (Chain.one (.close hc' rfl)).trans (Chain.setConnState _ .closed (by simp) (Or.inr rfl))

/-- **`step` is a chain of atomic bookkeeping transitions** -/
theorem step_chain {a : Agent} (h : Inv a) (e : Ev) : Chain e true a (step a e).1 := by
  obtain ⟨b, h1, h2⟩ := step_split h e
  exact h1.lift.trans (Chain.ofEvoW h2)

end IceProofs.AgentC06
