import IceModel.TcpMux
/-!
# Invariant of the TCP-mux model and its preservation by every operation
-/
namespace IceProofs.TcpMux
open IceModel.TcpMux

/-- what must hold of the reader goroutine of TCP connection `k` -/
def ReaderOk (s : State) (k : Nat) (t : Tcp) : Prop :=
  match t.reader with
  | .none => ∀ p, t.phase ≠ .attached p
  | .idle => ∃ p, t.phase = .attached p
  | .blocked _ fin =>
    (∃ p pc, t.pc = some p ∧ s.pcs[p]? = some pc ∧ pc.closed = false ∧ k ∈ pc.blockedQ) ∧
    (if fin then t.phase = .closed else ∃ p, t.phase = .attached p)

def PhaseOk (s : State) (k : Nat) (t : Tcp) : Prop :=
  match t.phase with
  | .pending d => s.now < d
  | .attached p => t.pc = some p ∧ ∃ pc, s.pcs[p]? = some pc ∧ pc.closed = false ∧ (t.peer, k) ∈ pc.conns
  | .closed => True

def PcOk (s : State) (p : Nat) (pc : PConn) : Prop :=
  (∀ a k, (a, k) ∈ pc.conns → ∃ t, s.tcps[k]? = some t ∧ t.phase = .attached p ∧ t.peer = a) ∧
  (pc.conns.map (·.1)).Nodup ∧
  (∀ k, k ∈ pc.blockedQ → ∃ t, s.tcps[k]? = some t ∧ t.pc = some p ∧ ∃ pkt fin, t.reader = .blocked pkt fin) ∧
  pc.blockedQ.Nodup ∧
  (pc.closed = true → pc.conns = [] ∧ pc.blockedQ = [] ∧ pc.alive = none) ∧
  (∀ d, pc.alive = some d → s.now < d)

structure Inv (s : State) : Prop where
  reader : ∀ (k : Nat) (t : Tcp), s.tcps[k]? = some t → ReaderOk s k t
  phase : ∀ (k : Nat) (t : Tcp), s.tcps[k]? = some t → PhaseOk s k t
  pc : ∀ (p : Nat) (pc : PConn), s.pcs[p]? = some pc → PcOk s p pc
  key : ∀ (p q : Nat) (pc qc : PConn), s.pcs[p]? = some pc → s.pcs[q]? = some qc → pc.closed = false → qc.closed = false →
    pc.key = qc.key → p = q
  lis : s.muxClosed = true → s.listenerOpen = false

theorem inv_init (cfg : Config) : Inv (init cfg) := by
  constructor <;> simp [init]

/-! ## `closePc1` -/

/-- what `closePc1` does to TCP connection `k` when it closes packet connection `pc` -/
def closeEffect (pc : PConn) (k : Nat) (t : Tcp) : Tcp :=
  if k ∈ pc.conns.map (·.2) then closeTcp t
  else if k ∈ pc.blockedQ then { t with reader := .none }
  else t

def closedPc (pc : PConn) : PConn := { pc with closed := true, alive := none, conns := [], blockedQ := [] }

theorem closePc1_eq (s : State) (p : Nat) (pc : PConn) (h : s.pcs[p]? = some pc) (hc : pc.closed = false) :
    closePc1 s p = { s with tcps := s.tcps.mapIdx (closeEffect pc), pcs := s.pcs.modify p closedPc } := by
  unfold closePc1
  simp only [h, hc]
  rfl

theorem closePc1_noop (s : State) (p : Nat) (h : ∀ pc, s.pcs[p]? = some pc → pc.closed = true) :
    closePc1 s p = s := by
  unfold closePc1
  cases hp : s.pcs[p]? with
  | none => rfl
  | some pc => simp [h pc hp]

theorem mem_conns_snd {pc : PConn} {k : Nat} : k ∈ pc.conns.map (·.2) ↔ ∃ a, (a, k) ∈ pc.conns := by
  simp

theorem closePc1_inv (s : State) (p : Nat) (hi : Inv s) : Inv (closePc1 s p) := by
  cases hp : s.pcs[p]? with
  | none => rw [closePc1_noop s p (by simp [hp])]; exact hi
  | some pc =>
    cases hc : pc.closed with
    | true => rw [closePc1_noop s p (by intro pc' h'; rw [hp] at h'; cases h'; exact hc)]; exact hi
    | false =>
      rw [closePc1_eq s p pc hp hc]
      have hpcok := hi.pc p pc hp
      -- facts about the tcps touched
      have conns_att : ∀ k, k ∈ pc.conns.map (·.2) → ∃ t, s.tcps[k]? = some t ∧ t.phase = .attached p := by
        intro k hk
        obtain ⟨a, ha⟩ := mem_conns_snd.1 hk
        obtain ⟨t, ht, hph, _⟩ := hpcok.1 a k ha
        exact ⟨t, ht, hph⟩
      have blocked_pc : ∀ k, k ∈ pc.blockedQ → ∃ t, s.tcps[k]? = some t ∧ t.pc = some p := by
        intro k hk
        obtain ⟨t, ht, hpc, _⟩ := hpcok.2.2.1 k hk
        exact ⟨t, ht, hpc⟩
      -- an attached-to-p connection is in `conns`
      have att_conns : ∀ k t, s.tcps[k]? = some t → t.phase = .attached p → k ∈ pc.conns.map (·.2) := by
        intro k t ht hph
        have := hi.phase k t ht
        simp only [PhaseOk, hph] at this
        obtain ⟨_, pc', hpc', _, hmem⟩ := this
        rw [hp] at hpc'; cases hpc'
        exact mem_conns_snd.2 ⟨_, hmem⟩
      have pcs_ne : ∀ q, q ≠ p → (s.pcs.modify p closedPc)[q]? = s.pcs[q]? := by
        intro q hq
        rw [List.getElem?_modify]
        cases s.pcs[q]? <;> simp [Ne.symm hq]
      have pcs_eq : (s.pcs.modify p closedPc)[p]? = some (closedPc pc) := by
        rw [List.getElem?_modify, hp]; simp
      constructor
      · -- reader
        intro k t' ht'
        simp only [List.getElem?_mapIdx] at ht'
        cases ht : s.tcps[k]? with
        | none => simp [ht] at ht'
        | some t =>
          simp only [ht, Option.map_some, Option.some.injEq] at ht'
          subst ht'
          have hr := hi.reader k t ht
          have hph := hi.phase k t ht
          unfold closeEffect
          by_cases h1 : k ∈ pc.conns.map (·.2)
          · simp only [h1, if_true]; simp [ReaderOk, closeTcp]
          · simp only [h1, if_false]
            by_cases h2 : k ∈ pc.blockedQ
            · simp only [h2, if_true]
              simp only [ReaderOk]
              intro q hq
              obtain ⟨t2, ht2, hpc2⟩ := blocked_pc k h2
              rw [ht] at ht2; cases ht2
              have := hph
              simp only [PhaseOk, hq] at this
              rw [hpc2] at this
              have hqp : q = p := by have := this.1; cases this; rfl
              subst hqp
              exact h1 (att_conns k t ht hq)
            · simp only [h2, if_false]
              unfold ReaderOk at hr ⊢
              cases hrd : t.reader with
              | none => simpa [hrd] using hr
              | idle => simpa [hrd] using hr
              | blocked pkt fin =>
                simp only [hrd] at hr ⊢
                refine ⟨?_, hr.2⟩
                obtain ⟨p0, pc0, hpc0, hget0, hopen0, hmem0⟩ := hr.1
                have hne : p0 ≠ p := by
                  intro he; subst he; rw [hp] at hget0; cases hget0; exact h2 hmem0
                exact ⟨p0, pc0, hpc0, by rw [pcs_ne p0 hne]; exact hget0, hopen0, hmem0⟩
      · -- phase
        intro k t' ht'
        simp only [List.getElem?_mapIdx] at ht'
        cases ht : s.tcps[k]? with
        | none => simp [ht] at ht'
        | some t =>
          simp only [ht, Option.map_some, Option.some.injEq] at ht'
          subst ht'
          have hph := hi.phase k t ht
          unfold closeEffect
          by_cases h1 : k ∈ pc.conns.map (·.2)
          · simp only [h1, if_true]; simp [PhaseOk, closeTcp]
          · simp only [h1, if_false]
            have key : ∀ t'' : Tcp, t''.phase = t.phase → t''.pc = t.pc → t''.peer = t.peer → PhaseOk
                { s with tcps := s.tcps.mapIdx (closeEffect pc), pcs := s.pcs.modify p closedPc } k t'' := by
              intro t'' e1 e2 e3
              unfold PhaseOk at hph ⊢
              rw [e1]
              cases hphase : t.phase with
              | pending d => simpa [hphase] using hph
              | closed => trivial
              | attached q =>
                simp only [hphase] at hph ⊢
                obtain ⟨hq1, pcq, hq2, hq3, hq4⟩ := hph
                have hne : q ≠ p := by
                  intro he; subst he; exact h1 (att_conns k t ht hphase)
                exact ⟨by rw [e2]; exact hq1, pcq, by rw [pcs_ne q hne]; exact hq2, hq3, by rw [e3]; exact hq4⟩
            by_cases h2 : k ∈ pc.blockedQ
            · simp only [h2, if_true]; exact key _ rfl rfl rfl
            · simp only [h2, if_false]; exact key _ rfl rfl rfl
      · -- pc
        intro q qc' hq'
        by_cases hqp : q = p
        · subst hqp
          rw [pcs_eq] at hq'; cases hq'
          simp [PcOk, closedPc]
        · rw [pcs_ne q hqp] at hq'
          obtain ⟨c1, c2, c3, c4, c5, c6⟩ := hi.pc q qc' hq'
          refine ⟨?_, c2, ?_, c4, c5, c6⟩
          · intro a k hak
            obtain ⟨t, ht, hph, hpe⟩ := c1 a k hak
            refine ⟨closeEffect pc k t, by simp [List.getElem?_mapIdx, ht], ?_, ?_⟩
            · unfold closeEffect
              by_cases h1 : k ∈ pc.conns.map (·.2)
              · obtain ⟨t2, ht2, hph2⟩ := conns_att k h1
                rw [ht] at ht2; cases ht2
                rw [hph] at hph2; cases hph2; exact absurd rfl hqp
              · simp only [h1, if_false]; split <;> exact hph
            · unfold closeEffect
              split
              · simpa [closeTcp] using hpe
              · split <;> exact hpe
          · intro k hk
            obtain ⟨t, ht, hpc, pkt, fin, hrd⟩ := c3 k hk
            have hph := hi.phase k t ht
            have h1 : k ∉ pc.conns.map (·.2) := by
              intro h1
              obtain ⟨t2, ht2, hph2⟩ := conns_att k h1
              rw [ht] at ht2; cases ht2
              simp only [PhaseOk, hph2] at hph
              rw [hpc] at hph
              have := hph.1; cases this; exact hqp rfl
            have h2 : k ∉ pc.blockedQ := by
              intro h2
              obtain ⟨t2, ht2, hpc2⟩ := blocked_pc k h2
              rw [ht] at ht2; cases ht2
              rw [hpc] at hpc2; cases hpc2; exact hqp rfl
            exact ⟨t, by simp [List.getElem?_mapIdx, ht, closeEffect, h1, h2], hpc, pkt, fin, hrd⟩
      · -- key
        intro q q' qc qc' hq hq' ho ho' hk
        have hne : q ≠ p := by
          intro he; subst he; rw [pcs_eq] at hq; cases hq; simp [closedPc] at ho
        have hne' : q' ≠ p := by
          intro he; subst he; rw [pcs_eq] at hq'; cases hq'; simp [closedPc] at ho'
        rw [pcs_ne q hne] at hq; rw [pcs_ne q' hne'] at hq'
        exact hi.key q q' qc qc' hq hq' ho ho' hk
      · exact hi.lis

theorem closePc_inv (s : State) (p : Nat) (hi : Inv s) : Inv (closePc s p) := closePc1_inv s p hi

theorem foldl_inv {α β : Type} (P : β → Prop) (f : β → α → β) (l : List α) (b : β)
    (h0 : P b) (hs : ∀ b a, P b → P (f b a)) : P (l.foldl f b) := by
  induction l generalizing b with
  | nil => simpa
  | cons a l ih => exact ih _ (hs _ _ h0)

theorem closePcsWhere_inv (sel : PConn → Bool) (s : State) (hi : Inv s) : Inv (closePcsWhere sel s) := by
  unfold closePcsWhere
  apply foldl_inv Inv _ _ _ hi
  intro b a hb
  split
  · split
    · exact closePc_inv _ _ hb
    · exact hb
  · exact hb

/-! ## the reader -/

/-- everything `drain` leaves alone, and the shape of what it changes -/
structure DrainOk (k p : Nat) (peer : Addr) (pc : PConn) (d : Drain) : Prop where
  key : d.pc.key = pc.key
  closed : d.pc.closed = pc.closed
  alive : d.pc.alive = pc.alive
  provisional : d.pc.provisional = pc.provisional
  refs : d.pc.refs = pc.refs
  claimed : d.pc.claimed = pc.claimed
  created : d.pc.created = pc.created
  readLog : d.pc.readLog = pc.readLog
  hist : pc.hist <+: d.pc.hist
  shape :
    (d.phase = .attached p ∧ d.pc.conns = pc.conns ∧
      ((d.reader = .idle ∧ d.pc.blockedQ = pc.blockedQ) ∨
       (∃ pkt, d.reader = .blocked pkt false ∧ d.pc.blockedQ = pc.blockedQ ++ [k]))) ∨
    (d.phase = .closed ∧ d.pc.conns = pc.conns.filter (fun c => !decide (c.1 = peer)) ∧
      ((d.reader = .none ∧ d.pc.blockedQ = pc.blockedQ) ∨
       (∃ pkt, d.reader = .blocked pkt true ∧ d.pc.blockedQ = pc.blockedQ ++ [k])))

theorem drainFail_ok (cap k p : Nat) (peer : Addr) (e : ErrKind) (pc : PConn) :
    DrainOk k p peer pc (drainFail cap k p peer e pc) := by
  unfold drainFail
  simp only
  split
  · split
    · constructor <;> simp [enqueue]
    · constructor <;> simp
  · constructor <;> simp

theorem drain_ok (cap k p : Nat) (peer : Addr) (inbox : List Item) (pc : PConn) :
    DrainOk k p peer pc (drain cap k p peer inbox pc) := by
  induction inbox generalizing pc with
  | nil => unfold drain; constructor <;> simp
  | cons it rest ih =>
    cases it with
    | frame f =>
      unfold drain
      split
      · exact drainFail_ok ..
      · simp only
        split
        · have h := ih (enqueue pc { src := peer, fid := f.fid, len := f.len, err := none, conn := k })
          constructor
          · exact h.key
          · exact h.closed
          · exact h.alive
          · exact h.provisional
          · exact h.refs
          · exact h.claimed
          · exact h.created
          · exact h.readLog
          · exact List.IsPrefix.trans (by simp [enqueue]) h.hist
          · simpa [enqueue] using h.shape
        · constructor <;> simp
    | eof => unfold drain; exact drainFail_ok ..
    | reset => unfold drain; exact drainFail_ok ..

theorem nodup_fst_unique {l : List (Addr × Nat)} (h : (l.map (·.1)).Nodup) {a : Addr} {j k : Nat}
    (hj : (a, j) ∈ l) (hk : (a, k) ∈ l) : j = k := by
  induction l with
  | nil => cases hj
  | cons x xs ih =>
    simp only [List.map_cons, List.nodup_cons, List.mem_map, not_exists, not_and] at h
    simp only [List.mem_cons] at hj hk
    rcases hj with hj | hj <;> rcases hk with hk | hk
    · rw [← hj] at hk; cases hk; rfl
    · exact absurd (by rw [← hj]) (h.1 (a, k) hk)
    · exact absurd (by rw [← hk]) (h.1 (a, j) hj)
    · exact ih h.2 hj hk

theorem getElem?_modify_ne {α : Type} (l : List α) (i j : Nat) (f : α → α) (h : j ≠ i) :
    (l.modify i f)[j]? = l[j]? := by
  rw [List.getElem?_modify]
  cases l[j]? <;> simp [Ne.symm h]

theorem getElem?_modify_eq {α : Type} (l : List α) (i : Nat) (f : α → α) :
    (l.modify i f)[i]? = (l[i]?).map f := by
  rw [List.getElem?_modify]
  cases l[i]? <;> simp

theorem runReader_inv (s : State) (k : Nat) (hi : Inv s) : Inv (runReader s k) := by
  unfold runReader
  cases ht : s.tcps[k]? with
  | none => exact hi
  | some t =>
    simp only
    cases hph : t.phase with
    | pending d => exact hi
    | closed => exact hi
    | attached p =>
      cases hrd : t.reader with
      | none => exact hi
      | blocked _ _ => exact hi
      | idle =>
        simp only
        cases hp : s.pcs[p]? with
        | none => exact hi
        | some pc =>
          simp only
          generalize hd : drain s.cfg.cap k p t.peer t.inbox pc = d
          have dok : DrainOk k p t.peer pc d := hd ▸ drain_ok ..
          have hpcok := hi.pc p pc hp
          have hphk := hi.phase k t ht
          simp only [PhaseOk, hph] at hphk
          obtain ⟨htpc, pc', hp', hopen, hmemk⟩ := hphk
          rw [hp] at hp'; cases hp'
          have hknb : k ∉ pc.blockedQ := by
            intro hb
            obtain ⟨t2, ht2, _, pkt, fin, hr2⟩ := hpcok.2.2.1 k hb
            rw [ht] at ht2; cases ht2; rw [hrd] at hr2; cases hr2
          -- abbreviations for the new state
          have tk : ∀ j, j ≠ k → (s.tcps.modify k (fun t => { t with phase := d.phase, reader := d.reader, inbox := d.inbox }))[j]? = s.tcps[j]? :=
            fun j hj => getElem?_modify_ne _ _ _ _ hj
          have tkk : (s.tcps.modify k (fun t => { t with phase := d.phase, reader := d.reader, inbox := d.inbox }))[k]?
              = some { t with phase := d.phase, reader := d.reader, inbox := d.inbox } := by
            rw [getElem?_modify_eq, ht]; rfl
          have pq : ∀ q, q ≠ p → (s.pcs.modify p (fun _ => d.pc))[q]? = s.pcs[q]? :=
            fun q hq => getElem?_modify_ne _ _ _ _ hq
          have pp : (s.pcs.modify p (fun _ => d.pc))[p]? = some d.pc := by
            rw [getElem?_modify_eq, hp]; rfl
          have dopen : d.pc.closed = false := by rw [dok.closed]; exact hopen
          have bq_mono : ∀ j, j ∈ pc.blockedQ → j ∈ d.pc.blockedQ := by
            intro j hj
            rcases dok.shape with ⟨_, _, ⟨_, h⟩ | ⟨_, _, h⟩⟩ | ⟨_, _, ⟨_, h⟩ | ⟨_, _, h⟩⟩ <;> rw [h] <;> simp [hj]
          have conns_sub : ∀ e, e ∈ d.pc.conns → e ∈ pc.conns := by
            intro e he
            rcases dok.shape with ⟨_, h, _⟩ | ⟨_, h, _⟩
            · rw [h] at he; exact he
            · rw [h] at he; exact (List.mem_filter.1 he).1
          constructor
          · -- reader
            intro j tj htj
            by_cases hjk : j = k
            · subst hjk
              rw [tkk] at htj; cases htj
              rcases dok.shape with ⟨h1, _, h3 | ⟨pkt, h3, h4⟩⟩ | ⟨h1, _, h3 | ⟨pkt, h3, h4⟩⟩
              · simp [ReaderOk, h3.1, h1]
              · simp only [ReaderOk, h3, h1]
                exact ⟨⟨p, d.pc, htpc, pp, dopen, by rw [h4]; simp⟩, by simp⟩
              · simp [ReaderOk, h3.1, h1]
              · simp only [ReaderOk, h3, h1]
                exact ⟨⟨p, d.pc, htpc, pp, dopen, by rw [h4]; simp⟩, by simp⟩
            · rw [tk j hjk] at htj
              have hr := hi.reader j tj htj
              unfold ReaderOk at hr ⊢
              cases hrj : tj.reader with
              | none => simpa [hrj] using hr
              | idle => simpa [hrj] using hr
              | blocked pkt fin =>
                simp only [hrj] at hr ⊢
                refine ⟨?_, hr.2⟩
                obtain ⟨p0, pc0, h0, h1, h2, h3⟩ := hr.1
                by_cases hp0 : p0 = p
                · subst hp0
                  rw [hp] at h1; cases h1
                  exact ⟨p0, d.pc, h0, pp, dopen, bq_mono j h3⟩
                · exact ⟨p0, pc0, h0, by rw [pq p0 hp0]; exact h1, h2, h3⟩
          · -- phase
            intro j tj htj
            by_cases hjk : j = k
            · subst hjk
              rw [tkk] at htj; cases htj
              rcases dok.shape with ⟨h1, h2, _⟩ | ⟨h1, _, _⟩
              · simp only [PhaseOk, h1]
                exact ⟨htpc, d.pc, pp, dopen, by rw [h2]; exact hmemk⟩
              · simp [PhaseOk, h1]
            · rw [tk j hjk] at htj
              have hpj := hi.phase j tj htj
              unfold PhaseOk at hpj ⊢
              cases hphj : tj.phase with
              | pending d => simpa [hphj] using hpj
              | closed => trivial
              | attached q =>
                simp only [hphj] at hpj ⊢
                obtain ⟨hq1, pcq, hq2, hq3, hq4⟩ := hpj
                by_cases hqp : q = p
                · subst hqp
                  rw [hp] at hq2; cases hq2
                  refine ⟨hq1, d.pc, pp, dopen, ?_⟩
                  rcases dok.shape with ⟨_, h, _⟩ | ⟨_, h, _⟩
                  · rw [h]; exact hq4
                  · rw [h]
                    refine List.mem_filter.2 ⟨hq4, ?_⟩
                    simp only [Bool.not_eq_true', decide_eq_false_iff_not]
                    intro he
                    rw [he] at hq4
                    exact hjk (nodup_fst_unique hpcok.2.1 hq4 hmemk)
                · exact ⟨hq1, pcq, by rw [pq q hqp]; exact hq2, hq3, hq4⟩
          · -- pc
            intro q qc hq
            by_cases hqp : q = p
            · subst hqp
              rw [pp] at hq; cases hq
              obtain ⟨c1, c2, c3, c4, c5, c6⟩ := hpcok
              refine ⟨?_, ?_, ?_, ?_, ?_, ?_⟩
              · intro a j haj
                obtain ⟨tj, htj, hphj, hpej⟩ := c1 a j (conns_sub _ haj)
                by_cases hjk : j = k
                · subst hjk
                  rw [ht] at htj; cases htj
                  rcases dok.shape with ⟨h1, _, _⟩ | ⟨_, h2, _⟩
                  · exact ⟨_, tkk, h1, hpej⟩
                  · rw [h2] at haj
                    have := (List.mem_filter.1 haj).2
                    simp [hpej] at this
                · exact ⟨tj, by rw [tk j hjk]; exact htj, hphj, hpej⟩
              · rcases dok.shape with ⟨_, h, _⟩ | ⟨_, h, _⟩
                · rw [h]; exact c2
                · rw [h]; exact List.Nodup.sublist (List.Sublist.map _ List.filter_sublist) c2
              · intro j hj
                have hcase : j ∈ pc.blockedQ ∨ (j = k ∧ ∃ pkt fin, d.reader = .blocked pkt fin) := by
                  rcases dok.shape with ⟨_, _, h | ⟨pkt, h, h'⟩⟩ | ⟨_, _, h | ⟨pkt, h, h'⟩⟩
                  · rw [h.2] at hj; exact Or.inl hj
                  · rw [h'] at hj; simp at hj; rcases hj with hj | hj
                    · exact Or.inl hj
                    · exact Or.inr ⟨hj, pkt, false, h⟩
                  · rw [h.2] at hj; exact Or.inl hj
                  · rw [h'] at hj; simp at hj; rcases hj with hj | hj
                    · exact Or.inl hj
                    · exact Or.inr ⟨hj, pkt, true, h⟩
                rcases hcase with hj | ⟨hj, pkt, fin, hr⟩
                · obtain ⟨tj, htj, hpcj, hrj⟩ := c3 j hj
                  have hjk : j ≠ k := fun he => hknb (he ▸ hj)
                  exact ⟨tj, by rw [tk j hjk]; exact htj, hpcj, hrj⟩
                · subst hj
                  exact ⟨_, tkk, htpc, pkt, fin, hr⟩
              · rcases dok.shape with ⟨_, _, h | ⟨_, _, h⟩⟩ | ⟨_, _, h | ⟨_, _, h⟩⟩
                · rw [h.2]; exact c4
                · rw [h]; exact List.nodup_append.2 ⟨c4, by simp, by
                    intro a ha b hb he; simp at hb; subst hb; subst he; exact hknb ha⟩
                · rw [h.2]; exact c4
                · rw [h]; exact List.nodup_append.2 ⟨c4, by simp, by
                    intro a ha b hb he; simp at hb; subst hb; subst he; exact hknb ha⟩
              · intro hcl; rw [dopen] at hcl; cases hcl
              · intro dl hdl; rw [dok.alive] at hdl; exact c6 dl hdl
            · rw [pq q hqp] at hq
              obtain ⟨c1, c2, c3, c4, c5, c6⟩ := hi.pc q qc hq
              refine ⟨?_, c2, ?_, c4, c5, c6⟩
              · intro a j haj
                obtain ⟨tj, htj, hphj, hpej⟩ := c1 a j haj
                have hjk : j ≠ k := by
                  intro he; subst he; rw [ht] at htj; cases htj; rw [hph] at hphj; cases hphj; exact hqp rfl
                exact ⟨tj, by rw [tk j hjk]; exact htj, hphj, hpej⟩
              · intro j hj
                obtain ⟨tj, htj, hpcj, hrj⟩ := c3 j hj
                have hjk : j ≠ k := by
                  intro he; subst he; rw [ht] at htj; cases htj; rw [htpc] at hpcj; cases hpcj; exact hqp rfl
                exact ⟨tj, by rw [tk j hjk]; exact htj, hpcj, hrj⟩
          · -- key
            intro q q' qc qc' hq hq' ho ho' hk
            have e1 : ∃ qc0, s.pcs[q]? = some qc0 ∧ qc0.closed = qc.closed ∧ qc0.key = qc.key := by
              by_cases hqp : q = p
              · subst hqp; rw [pp] at hq; cases hq; exact ⟨pc, hp, dok.closed.symm, dok.key.symm⟩
              · rw [pq q hqp] at hq; exact ⟨qc, hq, rfl, rfl⟩
            have e2 : ∃ qc0, s.pcs[q']? = some qc0 ∧ qc0.closed = qc'.closed ∧ qc0.key = qc'.key := by
              by_cases hqp : q' = p
              · subst hqp; rw [pp] at hq'; cases hq'; exact ⟨pc, hp, dok.closed.symm, dok.key.symm⟩
              · rw [pq q' hqp] at hq'; exact ⟨qc', hq', rfl, rfl⟩
            obtain ⟨a, a1, a2, a3⟩ := e1
            obtain ⟨b, b1, b2, b3⟩ := e2
            exact hi.key q q' a b a1 b1 (by rw [a2]; exact ho) (by rw [b2]; exact ho') (by rw [a3, b3]; exact hk)
          · exact hi.lis

/-! ## updates that do not touch what the invariant talks about -/

theorem inv_of_irrel (s s' : State) (g : Nat → Tcp → Tcp) (h : Nat → PConn → PConn)
    (hnow : s'.now = s.now)
    (hlis : s'.muxClosed = true → s'.listenerOpen = false)
    (htc : ∀ j, s'.tcps[j]? = (s.tcps[j]?).map (g j))
    (hpc : ∀ q, s'.pcs[q]? = (s.pcs[q]?).map (h q))
    (hg : ∀ j t, (g j t).phase = t.phase ∧ (g j t).reader = t.reader ∧ (g j t).pc = t.pc ∧ (g j t).peer = t.peer)
    (hh : ∀ q pc, (h q pc).key = pc.key ∧ (h q pc).closed = pc.closed ∧ (h q pc).conns = pc.conns ∧
      (h q pc).blockedQ = pc.blockedQ ∧ ((h q pc).alive = pc.alive ∨ (h q pc).alive = none))
    (hi : Inv s) : Inv s' := by
  have tget : ∀ j t', s'.tcps[j]? = some t' → ∃ t, s.tcps[j]? = some t ∧ t' = g j t := by
    intro j t' ht'
    rw [htc j] at ht'
    cases ht : s.tcps[j]? with
    | none => simp [ht] at ht'
    | some t => simp only [ht, Option.map_some, Option.some.injEq] at ht'; exact ⟨t, rfl, ht'.symm⟩
  have pget : ∀ q pc', s'.pcs[q]? = some pc' → ∃ pc, s.pcs[q]? = some pc ∧ pc' = h q pc := by
    intro q pc' hq'
    rw [hpc q] at hq'
    cases hq : s.pcs[q]? with
    | none => simp [hq] at hq'
    | some pc => simp only [hq, Option.map_some, Option.some.injEq] at hq'; exact ⟨pc, rfl, hq'.symm⟩
  have pfw : ∀ q pc, s.pcs[q]? = some pc → s'.pcs[q]? = some (h q pc) := by
    intro q pc hq; rw [hpc q, hq]; rfl
  have tfw : ∀ j t, s.tcps[j]? = some t → s'.tcps[j]? = some (g j t) := by
    intro j t ht; rw [htc j, ht]; rfl
  constructor
  · intro j t' ht'
    obtain ⟨t, ht, rfl⟩ := tget j t' ht'
    obtain ⟨g1, g2, g3, g4⟩ := hg j t
    have hr := hi.reader j t ht
    unfold ReaderOk at hr ⊢
    rw [g2, g1, g3]
    cases hrd : t.reader with
    | none => simpa [hrd] using hr
    | idle => simpa [hrd] using hr
    | blocked pkt fin =>
      simp only [hrd] at hr ⊢
      obtain ⟨⟨p0, pc0, a1, a2, a3, a4⟩, hr2⟩ := hr
      obtain ⟨b1, b2, b3, b4, b5⟩ := hh p0 pc0
      exact ⟨⟨p0, h p0 pc0, a1, pfw p0 pc0 a2, by rw [b2]; exact a3, by rw [b4]; exact a4⟩, hr2⟩
  · intro j t' ht'
    obtain ⟨t, ht, rfl⟩ := tget j t' ht'
    obtain ⟨g1, g2, g3, g4⟩ := hg j t
    have hp := hi.phase j t ht
    unfold PhaseOk at hp ⊢
    rw [g1, g3, g4]
    cases hph : t.phase with
    | pending d => simp only [hph] at hp ⊢; rw [hnow]; exact hp
    | closed => trivial
    | attached q =>
      simp only [hph] at hp ⊢
      obtain ⟨a0, pcq, a1, a2, a3⟩ := hp
      obtain ⟨b1, b2, b3, b4, b5⟩ := hh q pcq
      exact ⟨a0, h q pcq, pfw q pcq a1, by rw [b2]; exact a2, by rw [b3]; exact a3⟩
  · intro q pc' hq'
    obtain ⟨pc, hq, rfl⟩ := pget q pc' hq'
    obtain ⟨b1, b2, b3, b4, b5⟩ := hh q pc
    obtain ⟨c1, c2, c3, c4, c5, c6⟩ := hi.pc q pc hq
    refine ⟨?_, by rw [b3]; exact c2, ?_, by rw [b4]; exact c4, ?_, ?_⟩
    · intro a j haj
      rw [b3] at haj
      obtain ⟨t, ht, e1, e2⟩ := c1 a j haj
      obtain ⟨g1, g2, g3, g4⟩ := hg j t
      exact ⟨g j t, tfw j t ht, by rw [g1]; exact e1, by rw [g4]; exact e2⟩
    · intro j hj
      rw [b4] at hj
      obtain ⟨t, ht, e1, pkt, fin, e2⟩ := c3 j hj
      obtain ⟨g1, g2, g3, g4⟩ := hg j t
      exact ⟨g j t, tfw j t ht, by rw [g3]; exact e1, pkt, fin, by rw [g2]; exact e2⟩
    · intro hcl
      rw [b2] at hcl
      obtain ⟨d1, d2, d3⟩ := c5 hcl
      refine ⟨by rw [b3]; exact d1, by rw [b4]; exact d2, ?_⟩
      rcases b5 with b5 | b5 <;> rw [b5]
      exact d3
    · intro d hd
      rw [hnow]
      rcases b5 with b5 | b5
      · rw [b5] at hd; exact c6 d hd
      · rw [b5] at hd; cases hd
  · intro q q' qc qc' hq hq' ho ho' hk
    obtain ⟨pc, e1, rfl⟩ := pget q qc hq
    obtain ⟨pc', e1', rfl⟩ := pget q' qc' hq'
    obtain ⟨b1, b2, _⟩ := hh q pc
    obtain ⟨b1', b2', _⟩ := hh q' pc'
    exact hi.key q q' pc pc' e1 e1' (by rw [← b2]; exact ho) (by rw [← b2']; exact ho') (by rw [← b1, ← b1']; exact hk)
  · exact hlis

/-- pointwise description of `List.modify` -/
theorem getElem?_modify_map {α : Type} (l : List α) (i j : Nat) (f : α → α) :
    (l.modify i f)[j]? = (l[j]?).map (fun a => if i = j then f a else a) := by
  rw [List.getElem?_modify]; rfl

theorem map_id_pointwise {α : Type} (o : Option α) : o = o.map (fun a => a) := by cases o <;> rfl

/-- `setTcp` with a function that keeps phase, reader, packet connection and peer -/
theorem setTcp_irrel_inv (s : State) (k : Nat) (f : Tcp → Tcp)
    (hf : ∀ t, (f t).phase = t.phase ∧ (f t).reader = t.reader ∧ (f t).pc = t.pc ∧ (f t).peer = t.peer)
    (hi : Inv s) : Inv (setTcp s k f) := by
  apply inv_of_irrel s (setTcp s k f) (fun j t => if k = j then f t else t) (fun _ pc => pc) rfl hi.lis
  · intro j; exact getElem?_modify_map ..
  · intro q; exact map_id_pointwise _
  · intro j t; by_cases h : k = j <;> simp [h, hf t]
  · intro q pc; simp
  · exact hi

/-- `setPc` with a function that keeps key, closed, conns, blockedQ and keeps or clears the alive timer -/
theorem setPc_irrel_inv (s : State) (p : Nat) (f : PConn → PConn)
    (hf : ∀ pc, (f pc).key = pc.key ∧ (f pc).closed = pc.closed ∧ (f pc).conns = pc.conns ∧
      (f pc).blockedQ = pc.blockedQ ∧ ((f pc).alive = pc.alive ∨ (f pc).alive = none))
    (hi : Inv s) : Inv (setPc s p f) := by
  apply inv_of_irrel s (setPc s p f) (fun _ t => t) (fun q pc => if p = q then f pc else pc) rfl hi.lis
  · intro j; exact map_id_pointwise _
  · intro q; exact getElem?_modify_map ..
  · intro j t; simp
  · intro q pc; by_cases h : p = q <;> simp [h, hf pc]
  · exact hi

/-- changes to the handle table are invisible to the invariant -/
theorem handles_irrel_inv (s : State) (hs : List Handle) (hi : Inv s) : Inv { s with handles := hs } := by
  apply inv_of_irrel s { s with handles := hs } (fun _ t => t) (fun _ pc => pc) rfl hi.lis
  · intro j; exact map_id_pointwise _
  · intro q; exact map_id_pointwise _
  · intro j t; simp
  · intro q pc; simp
  · exact hi

/-! ## a pending connection is referenced by nothing -/

theorem pending_unref (s : State) (hi : Inv s) (k : Nat) (t : Tcp) (ht : s.tcps[k]? = some t)
    (d : Nat) (hph : t.phase = .pending d) :
    (∀ (q : Nat) (qc : PConn) (a : Addr), s.pcs[q]? = some qc → (a, k) ∉ qc.conns) ∧
    (∀ (q : Nat) (qc : PConn), s.pcs[q]? = some qc → k ∉ qc.blockedQ) ∧
    t.reader = .none := by
  have hr := hi.reader k t ht
  have hrn : t.reader = .none := by
    unfold ReaderOk at hr
    cases hrd : t.reader with
    | none => rfl
    | idle => simp only [hrd] at hr; obtain ⟨p, hp⟩ := hr; rw [hph] at hp; cases hp
    | blocked pkt fin =>
      simp only [hrd] at hr
      have := hr.2
      cases fin with
      | true => simp at this; rw [hph] at this; cases this
      | false => simp at this; obtain ⟨p, hp⟩ := this; rw [hph] at hp; cases hp
  refine ⟨?_, ?_, hrn⟩
  · intro q qc a hq hm
    obtain ⟨t2, ht2, h2, _⟩ := (hi.pc q qc hq).1 a k hm
    rw [ht] at ht2; cases ht2; rw [hph] at h2; cases h2
  · intro q qc hq hm
    obtain ⟨t2, ht2, _, pkt, fin, h2⟩ := (hi.pc q qc hq).2.2.1 k hm
    rw [ht] at ht2; cases ht2; rw [hrn] at h2; cases h2

/-- a pending connection may be closed (first-frame reject, timeout, early close) -/
theorem closePending_inv (s : State) (hi : Inv s) (k : Nat) (t : Tcp) (ht : s.tcps[k]? = some t)
    (d : Nat) (hph : t.phase = .pending d) (f : Tcp → Tcp)
    (hf : (f t).phase = .closed ∧ (f t).reader = .none) : Inv (setTcp s k f) := by
  obtain ⟨u1, u2, u3⟩ := pending_unref s hi k t ht d hph
  have tk : ∀ j, j ≠ k → (s.tcps.modify k f)[j]? = s.tcps[j]? := fun j hj => getElem?_modify_ne _ _ _ _ hj
  have tkk : (s.tcps.modify k f)[k]? = some (f t) := by rw [getElem?_modify_eq, ht]; rfl
  constructor
  · intro j tj htj
    by_cases hjk : j = k
    · subst hjk
      simp only [setTcp] at htj; rw [tkk] at htj; cases htj
      simp [ReaderOk, hf.1, hf.2]
    · simp only [setTcp] at htj; rw [tk j hjk] at htj
      exact hi.reader j tj htj
  · intro j tj htj
    by_cases hjk : j = k
    · subst hjk
      simp only [setTcp] at htj; rw [tkk] at htj; cases htj
      simp [PhaseOk, hf.1]
    · simp only [setTcp] at htj; rw [tk j hjk] at htj
      exact hi.phase j tj htj
  · intro q qc hq
    simp only [setTcp] at hq
    obtain ⟨c1, c2, c3, c4, c5, c6⟩ := hi.pc q qc hq
    refine ⟨?_, c2, ?_, c4, c5, c6⟩
    · intro a j haj
      obtain ⟨tj, htj, e⟩ := c1 a j haj
      have hjk : j ≠ k := fun he => u1 q qc a hq (he ▸ haj)
      exact ⟨tj, by simp only [setTcp]; rw [tk j hjk]; exact htj, e⟩
    · intro j hj
      obtain ⟨tj, htj, e⟩ := c3 j hj
      have hjk : j ≠ k := fun he => u2 q qc hq (he ▸ hj)
      exact ⟨tj, by simp only [setTcp]; rw [tk j hjk]; exact htj, e⟩
  · exact hi.key
  · exact hi.lis

/-- a newly accepted connection -/
theorem appendTcp_inv (s : State) (hi : Inv s) (t : Tcp) (hr : t.reader = .none)
    (hp : (∃ d, t.phase = .pending d ∧ s.now < d) ∨ t.phase = .closed) :
    Inv { s with tcps := s.tcps ++ [t] } := by
  have old : ∀ (j : Nat) (tj : Tcp), s.tcps[j]? = some tj → (s.tcps ++ [t])[j]? = some tj := by
    intro j tj h
    have hl : j < s.tcps.length := by
      apply Nat.lt_of_not_le; intro hle; rw [List.getElem?_eq_none_iff.2 hle] at h; cases h
    rw [List.getElem?_append_left hl]; exact h
  have new : ∀ (j : Nat) (tj : Tcp), (s.tcps ++ [t])[j]? = some tj → s.tcps[j]? = some tj ∨ (j = s.tcps.length ∧ tj = t) := by
    intro j tj h
    rw [List.getElem?_append] at h
    split at h
    · exact Or.inl h
    · rename_i hge
      have : j - s.tcps.length = 0 := by
        cases hjl : j - s.tcps.length with
        | zero => rfl
        | succ n => rw [hjl] at h; simp at h
      rw [this] at h; simp at h
      exact Or.inr ⟨by omega, h.symm⟩
  constructor
  · intro j tj htj
    rcases new j tj htj with h | ⟨_, rfl⟩
    · exact hi.reader j tj h
    · simp only [ReaderOk, hr]
      intro p
      rcases hp with ⟨d, h, _⟩ | h <;> rw [h] <;> simp
  · intro j tj htj
    rcases new j tj htj with h | ⟨_, rfl⟩
    · exact hi.phase j tj h
    · rcases hp with ⟨d, h, hd⟩ | h
      · simp only [PhaseOk, h]; exact hd
      · simp [PhaseOk, h]
  · intro q qc hq
    obtain ⟨c1, c2, c3, c4, c5, c6⟩ := hi.pc q qc hq
    refine ⟨?_, c2, ?_, c4, c5, c6⟩
    · intro a j haj
      obtain ⟨tj, htj, e⟩ := c1 a j haj
      exact ⟨tj, old j tj htj, e⟩
    · intro j hj
      obtain ⟨tj, htj, e⟩ := c3 j hj
      exact ⟨tj, old j tj htj, e⟩
  · exact hi.key
  · exact hi.lis

/-- a new, empty packet connection under a key no open one has -/
theorem appendPc_inv (s : State) (hi : Inv s) (npc : PConn)
    (h1 : npc.closed = false) (h2 : npc.conns = []) (h3 : npc.blockedQ = [])
    (h4 : ∀ d, npc.alive = some d → s.now < d)
    (h5 : ∀ (q : Nat) (qc : PConn), s.pcs[q]? = some qc → qc.closed = false → qc.key ≠ npc.key) :
    Inv { s with pcs := s.pcs ++ [npc] } := by
  have old : ∀ (q : Nat) (qc : PConn), s.pcs[q]? = some qc → (s.pcs ++ [npc])[q]? = some qc := by
    intro q qc h
    have hl : q < s.pcs.length := by
      apply Nat.lt_of_not_le; intro hle; rw [List.getElem?_eq_none_iff.2 hle] at h; cases h
    rw [List.getElem?_append_left hl]; exact h
  have new : ∀ (q : Nat) (qc : PConn), (s.pcs ++ [npc])[q]? = some qc → s.pcs[q]? = some qc ∨ (q = s.pcs.length ∧ qc = npc) := by
    intro q qc h
    rw [List.getElem?_append] at h
    split at h
    · exact Or.inl h
    · rename_i hge
      have : q - s.pcs.length = 0 := by
        cases hjl : q - s.pcs.length with
        | zero => rfl
        | succ n => rw [hjl] at h; simp at h
      rw [this] at h; simp at h
      exact Or.inr ⟨by omega, h.symm⟩
  constructor
  · intro j tj htj
    have hr := hi.reader j tj htj
    unfold ReaderOk at hr ⊢
    cases hrd : tj.reader with
    | none => simpa [hrd] using hr
    | idle => simpa [hrd] using hr
    | blocked pkt fin =>
      simp only [hrd] at hr ⊢
      obtain ⟨⟨p0, pc0, a1, a2, a3, a4⟩, hr2⟩ := hr
      exact ⟨⟨p0, pc0, a1, old p0 pc0 a2, a3, a4⟩, hr2⟩
  · intro j tj htj
    have hp := hi.phase j tj htj
    unfold PhaseOk at hp ⊢
    cases hph : tj.phase with
    | pending d => simpa [hph] using hp
    | closed => trivial
    | attached q =>
      simp only [hph] at hp ⊢
      obtain ⟨a0, pcq, a1, a2, a3⟩ := hp
      exact ⟨a0, pcq, old q pcq a1, a2, a3⟩
  · intro q qc hq
    rcases new q qc hq with h | ⟨_, rfl⟩
    · exact hi.pc q qc h
    · refine ⟨by simp [h2], by simp [h2], by simp [h3], by simp [h3], ?_, h4⟩
      intro hc; rw [h1] at hc; cases hc
  · intro q q' qc qc' hq hq' ho ho' hk
    rcases new q qc hq with h | ⟨e, rfl⟩ <;> rcases new q' qc' hq' with h' | ⟨e', rfl⟩
    · exact hi.key q q' qc qc' h h' ho ho' hk
    · exact absurd hk (h5 q qc h ho)
    · exact absurd hk.symm (h5 q' qc' h' ho')
    · rw [e, e']
  · exact hi.lis

theorem lookupConn_none {conns : List (Addr × Nat)} {a : Addr} (h : lookupConn conns a = none) :
    ∀ e, e ∈ conns → e.1 ≠ a := by
  intro e he hea
  unfold lookupConn at h
  simp only [Option.map_eq_none_iff] at h
  have := List.find?_eq_none.1 h e he
  simp [hea] at this

/-- `AddConn`: a pending connection is registered under its remote address and its reader starts -/
theorem register_inv (s : State) (hi : Inv s) (k p : Nat) (t : Tcp) (pc : PConn)
    (ht : s.tcps[k]? = some t) (d : Nat) (hph : t.phase = .pending d)
    (hp : s.pcs[p]? = some pc) (hopen : pc.closed = false) (hdup : lookupConn pc.conns t.peer = none)
    (f : Tcp → Tcp) (hf : (f t).phase = .attached p ∧ (f t).reader = .idle ∧ (f t).pc = some p ∧ (f t).peer = t.peer) :
    Inv (setTcp (setPc s p (fun pc => { pc with conns := pc.conns ++ [(t.peer, k)] })) k f) := by
  obtain ⟨u1, u2, u3⟩ := pending_unref s hi k t ht d hph
  have tk : ∀ j, j ≠ k → (s.tcps.modify k f)[j]? = s.tcps[j]? := fun j hj => getElem?_modify_ne _ _ _ _ hj
  have tkk : (s.tcps.modify k f)[k]? = some (f t) := by rw [getElem?_modify_eq, ht]; rfl
  let g : PConn → PConn := fun pc => { pc with conns := pc.conns ++ [(t.peer, k)] }
  have pq : ∀ q, q ≠ p → (s.pcs.modify p g)[q]? = s.pcs[q]? := fun q hq => getElem?_modify_ne _ _ _ _ hq
  have pp : (s.pcs.modify p g)[p]? = some (g pc) := by rw [getElem?_modify_eq, hp]; rfl
  have pfw : ∀ (q : Nat) (qc : PConn), s.pcs[q]? = some qc → ∃ qc', (s.pcs.modify p g)[q]? = some qc' ∧ qc'.closed = qc.closed ∧
      qc'.blockedQ = qc.blockedQ ∧ (∀ e, e ∈ qc.conns → e ∈ qc'.conns) := by
    intro q qc hq
    by_cases hqp : q = p
    · subst hqp; rw [hp] at hq; cases hq
      exact ⟨g pc, pp, rfl, rfl, fun e he => by simp [g, he]⟩
    · exact ⟨qc, by rw [pq q hqp]; exact hq, rfl, rfl, fun e he => he⟩
  show Inv { s with pcs := s.pcs.modify p g, tcps := s.tcps.modify k f }
  constructor
  · intro j tj htj
    by_cases hjk : j = k
    · subst hjk
      simp only at htj; rw [tkk] at htj; cases htj
      simp only [ReaderOk, hf.2.1]; exact ⟨p, hf.1⟩
    · simp only at htj; rw [tk j hjk] at htj
      have hr := hi.reader j tj htj
      unfold ReaderOk at hr ⊢
      cases hrd : tj.reader with
      | none => simpa [hrd] using hr
      | idle => simpa [hrd] using hr
      | blocked pkt fin =>
        simp only [hrd] at hr ⊢
        obtain ⟨⟨p0, pc0, a1, a2, a3, a4⟩, hr2⟩ := hr
        obtain ⟨qc', b1, b2, b3, _⟩ := pfw p0 pc0 a2
        exact ⟨⟨p0, qc', a1, b1, by rw [b2]; exact a3, by rw [b3]; exact a4⟩, hr2⟩
  · intro j tj htj
    by_cases hjk : j = k
    · subst hjk
      simp only at htj; rw [tkk] at htj; cases htj
      simp only [PhaseOk, hf.1]
      exact ⟨hf.2.2.1, g pc, pp, hopen, by simp [g, hf.2.2.2]⟩
    · simp only at htj; rw [tk j hjk] at htj
      have hpj := hi.phase j tj htj
      unfold PhaseOk at hpj ⊢
      cases hphj : tj.phase with
      | pending d => simpa [hphj] using hpj
      | closed => trivial
      | attached q =>
        simp only [hphj] at hpj ⊢
        obtain ⟨a0, pcq, a1, a2, a3⟩ := hpj
        obtain ⟨qc', b1, b2, _, b4⟩ := pfw q pcq a1
        exact ⟨a0, qc', b1, by rw [b2]; exact a2, b4 _ a3⟩
  · intro q qc hq
    simp only at hq
    by_cases hqp : q = p
    · subst hqp
      rw [pp] at hq; cases hq
      obtain ⟨c1, c2, c3, c4, c5, c6⟩ := hi.pc q pc hp
      refine ⟨?_, ?_, ?_, c4, ?_, c6⟩
      · intro a j haj
        simp only [g, List.mem_append, List.mem_singleton, Prod.mk.injEq] at haj
        rcases haj with haj | ⟨rfl, rfl⟩
        · obtain ⟨tj, htj, e⟩ := c1 a j haj
          have hjk : j ≠ k := fun he => u1 q pc a hp (he ▸ haj)
          exact ⟨tj, by rw [tk j hjk]; exact htj, e⟩
        · exact ⟨f t, tkk, hf.1, hf.2.2.2⟩
      · simp only [g, List.map_append, List.map_cons, List.map_nil]
        refine List.nodup_append.2 ⟨c2, by simp, ?_⟩
        intro a ha b hb
        simp only [List.mem_singleton] at hb
        subst hb
        obtain ⟨e, he, rfl⟩ := List.mem_map.1 ha
        exact lookupConn_none hdup e he
      · intro j hj
        obtain ⟨tj, htj, e⟩ := c3 j hj
        have hjk : j ≠ k := fun he => u2 q pc hp (he ▸ hj)
        exact ⟨tj, by rw [tk j hjk]; exact htj, e⟩
      · intro hc; simp only [g] at hc; rw [hopen] at hc; cases hc
    · rw [pq q hqp] at hq
      obtain ⟨c1, c2, c3, c4, c5, c6⟩ := hi.pc q qc hq
      refine ⟨?_, c2, ?_, c4, c5, c6⟩
      · intro a j haj
        obtain ⟨tj, htj, e⟩ := c1 a j haj
        have hjk : j ≠ k := fun he => u1 q qc a hq (he ▸ haj)
        exact ⟨tj, by rw [tk j hjk]; exact htj, e⟩
      · intro j hj
        obtain ⟨tj, htj, e⟩ := c3 j hj
        have hjk : j ≠ k := fun he => u2 q qc hq (he ▸ hj)
        exact ⟨tj, by rw [tk j hjk]; exact htj, e⟩
  · intro q q' qc qc' hq hq' ho ho' hk
    simp only at hq hq'
    have e1 : ∃ qc0, s.pcs[q]? = some qc0 ∧ qc0.closed = qc.closed ∧ qc0.key = qc.key := by
      by_cases hqp : q = p
      · subst hqp; rw [pp] at hq; cases hq; exact ⟨pc, hp, rfl, rfl⟩
      · rw [pq q hqp] at hq; exact ⟨qc, hq, rfl, rfl⟩
    have e2 : ∃ qc0, s.pcs[q']? = some qc0 ∧ qc0.closed = qc'.closed ∧ qc0.key = qc'.key := by
      by_cases hqp : q' = p
      · subst hqp; rw [pp] at hq'; cases hq'; exact ⟨pc, hp, rfl, rfl⟩
      · rw [pq q' hqp] at hq'; exact ⟨qc', hq', rfl, rfl⟩
    obtain ⟨a, a1, a2, a3⟩ := e1
    obtain ⟨b, b1, b2, b3⟩ := e2
    exact hi.key q q' a b a1 b1 (by rw [a2]; exact ho) (by rw [b2]; exact ho') (by rw [a3, b3]; exact hk)
  · exact hi.lis

/-- a `ReadFrom` takes the packet of the first blocked reader: that reader goes on (or ends) -/
theorem unblock_inv (s : State) (hi : Inv s) (k p : Nat) (t : Tcp) (pc : PConn) (bq : List Nat)
    (bp : Pkt) (fin : Bool)
    (ht : s.tcps[k]? = some t) (hrd : t.reader = .blocked bp fin)
    (hp : s.pcs[p]? = some pc) (hbq : pc.blockedQ = k :: bq)
    (g : PConn → PConn)
    (hg : (g pc).key = pc.key ∧ (g pc).closed = pc.closed ∧ (g pc).conns = pc.conns ∧ (g pc).alive = pc.alive ∧
      (g pc).blockedQ = bq) :
    Inv (setTcp (setPc s p g) k (fun t => { t with reader := if fin then .none else .idle })) := by
  let f : Tcp → Tcp := fun t => { t with reader := if fin then .none else .idle }
  obtain ⟨c1, c2, c3, c4, c5, c6⟩ := hi.pc p pc hp
  have hkmem : k ∈ pc.blockedQ := by rw [hbq]; simp
  have htpc : t.pc = some p := by
    obtain ⟨t2, ht2, e, _⟩ := c3 k hkmem
    rw [ht] at ht2; cases ht2; exact e
  have hknbq : k ∉ bq := by
    have := c4; rw [hbq] at this; exact (List.nodup_cons.1 this).1
  have hopen : pc.closed = false := by
    cases hc : pc.closed with
    | false => rfl
    | true => have := (c5 hc).2.1; rw [hbq] at this; cases this
  have hrk := hi.reader k t ht
  simp only [ReaderOk, hrd] at hrk
  have tk : ∀ j, j ≠ k → (s.tcps.modify k f)[j]? = s.tcps[j]? := fun j hj => getElem?_modify_ne _ _ _ _ hj
  have tkk : (s.tcps.modify k f)[k]? = some (f t) := by rw [getElem?_modify_eq, ht]; rfl
  have pq : ∀ q, q ≠ p → (s.pcs.modify p g)[q]? = s.pcs[q]? := fun q hq => getElem?_modify_ne _ _ _ _ hq
  have pp : (s.pcs.modify p g)[p]? = some (g pc) := by rw [getElem?_modify_eq, hp]; rfl
  obtain ⟨g1, g2, g3, g4, g5⟩ := hg
  show Inv { s with pcs := s.pcs.modify p g, tcps := s.tcps.modify k f }
  constructor
  · intro j tj htj
    by_cases hjk : j = k
    · subst hjk
      simp only at htj; rw [tkk] at htj; cases htj
      cases fin with
      | true =>
        have := hrk.2; simp at this
        simp [ReaderOk, f, this]
      | false =>
        have := hrk.2; simp at this
        simpa [ReaderOk, f] using this
    · simp only at htj; rw [tk j hjk] at htj
      have hr := hi.reader j tj htj
      unfold ReaderOk at hr ⊢
      cases hrj : tj.reader with
      | none => simpa [hrj] using hr
      | idle => simpa [hrj] using hr
      | blocked pkt fin' =>
        simp only [hrj] at hr ⊢
        obtain ⟨⟨p0, pc0, a1, a2, a3, a4⟩, hr2⟩ := hr
        refine ⟨?_, hr2⟩
        by_cases hp0 : p0 = p
        · subst hp0
          rw [hp] at a2; cases a2
          refine ⟨p0, g pc, a1, pp, by rw [g2]; exact a3, ?_⟩
          rw [g5]; rw [hbq] at a4
          rcases List.mem_cons.1 a4 with h | h
          · exact absurd h hjk
          · exact h
        · exact ⟨p0, pc0, a1, by rw [pq p0 hp0]; exact a2, a3, a4⟩
  · intro j tj htj
    have key : ∀ tj0 : Tcp, s.tcps[j]? = some tj0 → tj.phase = tj0.phase → tj.pc = tj0.pc → tj.peer = tj0.peer →
        PhaseOk { s with pcs := s.pcs.modify p g, tcps := s.tcps.modify k f } j tj := by
      intro tj0 h0 e1 e2 e3
      have hpj := hi.phase j tj0 h0
      unfold PhaseOk at hpj ⊢
      rw [e1, e2, e3]
      cases hphj : tj0.phase with
      | pending d => simpa [hphj] using hpj
      | closed => trivial
      | attached q =>
        simp only [hphj] at hpj ⊢
        obtain ⟨a0, pcq, a1, a2, a3⟩ := hpj
        by_cases hqp : q = p
        · subst hqp
          rw [hp] at a1; cases a1
          exact ⟨a0, g pc, pp, by rw [g2]; exact a2, by rw [g3]; exact a3⟩
        · exact ⟨a0, pcq, by rw [pq q hqp]; exact a1, a2, a3⟩
    by_cases hjk : j = k
    · subst hjk
      simp only at htj; rw [tkk] at htj; cases htj
      exact key t ht rfl rfl rfl
    · simp only at htj; rw [tk j hjk] at htj
      exact key tj htj rfl rfl rfl
  · intro q qc hq
    simp only at hq
    -- every old tcp is still there with the same phase, pc, peer; reader too unless it is k
    have tfw : ∀ (j : Nat) (tj : Tcp), s.tcps[j]? = some tj → ∃ tj', (s.tcps.modify k f)[j]? = some tj' ∧
        tj'.phase = tj.phase ∧ tj'.pc = tj.pc ∧ tj'.peer = tj.peer ∧ (j ≠ k → tj'.reader = tj.reader) := by
      intro j tj h
      by_cases hjk : j = k
      · subst hjk; rw [ht] at h; cases h
        exact ⟨f t, tkk, rfl, rfl, rfl, fun h => absurd rfl h⟩
      · exact ⟨tj, by rw [tk j hjk]; exact h, rfl, rfl, rfl, fun _ => rfl⟩
    by_cases hqp : q = p
    · subst hqp
      rw [pp] at hq; cases hq
      refine ⟨?_, by rw [g3]; exact c2, ?_, ?_, ?_, ?_⟩
      · intro a j haj
        rw [g3] at haj
        obtain ⟨tj, htj, e1, e2⟩ := c1 a j haj
        obtain ⟨tj', h1, h2, _, h4, _⟩ := tfw j tj htj
        exact ⟨tj', h1, by rw [h2]; exact e1, by rw [h4]; exact e2⟩
      · intro j hj
        rw [g5] at hj
        have hjk : j ≠ k := fun he => hknbq (he ▸ hj)
        obtain ⟨tj, htj, e1, pkt, fin', e2⟩ := c3 j (by rw [hbq]; exact List.mem_cons_of_mem _ hj)
        obtain ⟨tj', h1, _, h3, _, h5⟩ := tfw j tj htj
        exact ⟨tj', h1, by rw [h3]; exact e1, pkt, fin', by rw [h5 hjk]; exact e2⟩
      · rw [g5]; have := c4; rw [hbq] at this; exact (List.nodup_cons.1 this).2
      · intro hc; rw [g2, hopen] at hc; cases hc
      · intro d hd; rw [g4] at hd; exact c6 d hd
    · rw [pq q hqp] at hq
      obtain ⟨d1, d2, d3, d4, d5, d6⟩ := hi.pc q qc hq
      refine ⟨?_, d2, ?_, d4, d5, d6⟩
      · intro a j haj
        obtain ⟨tj, htj, e1, e2⟩ := d1 a j haj
        obtain ⟨tj', h1, h2, _, h4, _⟩ := tfw j tj htj
        exact ⟨tj', h1, by rw [h2]; exact e1, by rw [h4]; exact e2⟩
      · intro j hj
        obtain ⟨tj, htj, e1, pkt, fin', e2⟩ := d3 j hj
        have hjk : j ≠ k := by
          intro he; subst he; rw [ht] at htj; cases htj; rw [htpc] at e1; cases e1; exact hqp rfl
        obtain ⟨tj', h1, _, h3, _, h5⟩ := tfw j tj htj
        exact ⟨tj', h1, by rw [h3]; exact e1, pkt, fin', by rw [h5 hjk]; exact e2⟩
  · intro q q' qc qc' hq hq' ho ho' hk
    simp only at hq hq'
    have e1 : ∃ qc0, s.pcs[q]? = some qc0 ∧ qc0.closed = qc.closed ∧ qc0.key = qc.key := by
      by_cases hqp : q = p
      · subst hqp; rw [pp] at hq; cases hq; exact ⟨pc, hp, g2.symm, g1.symm⟩
      · rw [pq q hqp] at hq; exact ⟨qc, hq, rfl, rfl⟩
    have e2 : ∃ qc0, s.pcs[q']? = some qc0 ∧ qc0.closed = qc'.closed ∧ qc0.key = qc'.key := by
      by_cases hqp : q' = p
      · subst hqp; rw [pp] at hq'; cases hq'; exact ⟨pc, hp, g2.symm, g1.symm⟩
      · rw [pq q' hqp] at hq'; exact ⟨qc', hq', rfl, rfl⟩
    obtain ⟨a, a1, a2, a3⟩ := e1
    obtain ⟨b, b1, b2, b3⟩ := e2
    exact hi.key q q' a b a1 b1 (by rw [a2]; exact ho) (by rw [b2]; exact ho') (by rw [a3, b3]; exact hk)
  · exact hi.lis

end IceProofs.TcpMux
