import IceModel.AgentCore
/-!
# Frame lemmas for C07: what the control plane never touches of the data plane

`Fr0 a b` relates a state `a` to a later state `b`: the reader queue `rx` and the two connection byte
counters are equal, `nextPairID` has not decreased, every pair listed in `b` under an id is either the
pair listed in `a` under that id with the same four data counters or has an id issued after `a`
(`> a.nextPairID`), "listed ids are issued (≤ nextPairID) and pairwise distinct" is preserved, and a closed
agent stays closed.
`Fr a b` adds: `nextUid` is equal, either the candidate lists agree on (uid, net, addr) and the caches are
equal or all three are empty (Failed / Restart / Close wipe), and "every listed pair names a current local
and a current remote candidate" (`Res`) is preserved.
Both are reflexive and transitive.  `Fr` holds across every function reached from `Agent.contact`, the
selectors' handlers and Restart (`AgentC07Ctl`); candidate insertion, `handleInbound` and `step` are in
`AgentC07Inv`.
-/
namespace IceProofs.AgentC07
open IceModel.AgentCore

/-- the four data counters of a pair -/
def ctr (p : Pair) : Nat × Nat × Nat × Nat := (p.pktSent, p.bytesSent, p.pktRecv, p.bytesRecv)

/-- what the data plane reads of a candidate -/
def ckey (c : Cand) : Nat × Nat × Nat := (c.uid, c.net, c.addr)

/-- every listed pair id has been issued (`≤ nextPairID`) and no id is listed twice -/
def IdsBounded (a : Agent) : Prop :=
  (∀ p ∈ a.checklist, p.id ≤ a.nextPairID) ∧ a.checklist.Pairwise (fun x y => x.id ≠ y.id)

def luids (a : Agent) : List Nat := a.locals.map (·.uid)
def ruids (a : Agent) : List Nat := a.remotes.map (·.uid)

/-- every listed pair names a current local and a current remote candidate -/
def Res (a : Agent) : Prop := ∀ p ∈ a.checklist, p.l ∈ luids a ∧ p.r ∈ ruids a

structure Fr0 (a b : Agent) : Prop where
  rx : b.rx = a.rx
  sent : b.connBytesSent = a.connBytesSent
  recv : b.connBytesRecv = a.connBytesRecv
  npid : a.nextPairID ≤ b.nextPairID
  ctr : ∀ id q, b.pairById id = some q → (∃ p, a.pairById id = some p ∧ ctr p = ctr q) ∨ a.nextPairID < id
  bnd : IdsBounded a → IdsBounded b
  closed : a.closed = true → b.closed = true

def Keep (a b : Agent) : Prop :=
  b.locals.map ckey = a.locals.map ckey ∧ b.remotes.map ckey = a.remotes.map ckey ∧ b.caches = a.caches

def Wiped (b : Agent) : Prop := b.locals = [] ∧ b.remotes = [] ∧ b.caches = []

structure Fr (a b : Agent) : Prop extends Fr0 a b where
  nuid : b.nextUid = a.nextUid
  cands : Keep a b ∨ Wiped b
  rsv : Res a → Res b

theorem uid_of_ckey (l : List Cand) : l.map (·.uid) = (l.map ckey).map (·.1) := by
  rw [List.map_map]; rfl

theorem Keep.luids {a b : Agent} (h : Keep a b) : luids b = luids a := by
  unfold IceProofs.AgentC07.luids; rw [uid_of_ckey, uid_of_ckey a.locals, h.1]

theorem Keep.ruids {a b : Agent} (h : Keep a b) : ruids b = ruids a := by
  unfold IceProofs.AgentC07.ruids; rw [uid_of_ckey, uid_of_ckey a.remotes, h.2.1]

theorem Fr0.refl (a : Agent) : Fr0 a a :=
  ⟨rfl, rfl, rfl, Nat.le_refl _, fun _ q h => Or.inl ⟨q, h, rfl⟩, id, id⟩

theorem Fr.refl (a : Agent) : Fr a a := ⟨Fr0.refl a, rfl, Or.inl ⟨rfl, rfl, rfl⟩, id⟩

theorem Fr0.trans {a b c : Agent} (h1 : Fr0 a b) (h2 : Fr0 b c) : Fr0 a c where
  rx := h2.rx.trans h1.rx
  sent := h2.sent.trans h1.sent
  recv := h2.recv.trans h1.recv
  npid := Nat.le_trans h1.npid h2.npid
  ctr := fun id q h => by
    rcases h2.ctr id q h with ⟨p, hp, e⟩ | h
    · rcases h1.ctr id p hp with ⟨p0, hp0, e0⟩ | h
      · exact Or.inl ⟨p0, hp0, e0.trans e⟩
      · exact Or.inr h
    · exact Or.inr (Nat.lt_of_le_of_lt h1.npid h)
  bnd := fun h => h2.bnd (h1.bnd h)
  closed := fun h => h2.closed (h1.closed h)

theorem Fr.trans {a b c : Agent} (h1 : Fr a b) (h2 : Fr b c) : Fr a c where
  toFr0 := h1.toFr0.trans h2.toFr0
  nuid := h2.nuid.trans h1.nuid
  cands := by
    rcases h2.cands with ⟨k1, k2, k3⟩ | w
    · rcases h1.cands with ⟨j1, j2, j3⟩ | ⟨w1, w2, w3⟩
      · exact Or.inl ⟨k1.trans j1, k2.trans j2, k3.trans j3⟩
      · right
        rw [w1] at k1; rw [w2] at k2; rw [w3] at k3
        exact ⟨List.map_eq_nil_iff.mp k1, List.map_eq_nil_iff.mp k2, k3⟩
    · exact Or.inr w
  rsv := fun h => h2.rsv (h1.rsv h)

/-- a state that agrees with `a` on every field the frame looks at -/
theorem Fr.of_fields {a b : Agent} (h1 : b.rx = a.rx) (h2 : b.connBytesSent = a.connBytesSent)
    (h3 : b.connBytesRecv = a.connBytesRecv) (h4 : b.nextPairID = a.nextPairID) (h5 : b.checklist = a.checklist)
    (h6 : b.nextUid = a.nextUid) (h7 : b.locals = a.locals) (h8 : b.remotes = a.remotes)
    (h9 : b.caches = a.caches) (h10 : b.closed = a.closed) : Fr a b where
  rx := h1
  sent := h2
  recv := h3
  npid := Nat.le_of_eq h4.symm
  ctr := fun id q h => Or.inl ⟨q, by simpa [Agent.pairById, h5] using h, rfl⟩
  bnd := fun h => by unfold IdsBounded; rw [h4, h5]; exact h
  closed := fun h => h10.trans h
  nuid := h6
  cands := Or.inl ⟨by rw [h7], by rw [h8], h9⟩
  rsv := fun h => by unfold Res luids ruids; rw [h5, h7, h8]; exact h

/-- `c` agrees with `b` on the framed fields -/
theorem Fr.congr {a b c : Agent} (h : Fr a b) (h1 : c.rx = b.rx) (h2 : c.connBytesSent = b.connBytesSent)
    (h3 : c.connBytesRecv = b.connBytesRecv) (h4 : c.nextPairID = b.nextPairID) (h5 : c.checklist = b.checklist)
    (h6 : c.nextUid = b.nextUid) (h7 : c.locals = b.locals) (h8 : c.remotes = b.remotes)
    (h9 : c.caches = b.caches) (h10 : c.closed = b.closed) : Fr a c :=
  h.trans (Fr.of_fields h1 h2 h3 h4 h5 h6 h7 h8 h9 h10)

/-! ## Atomic modifications -/

theorem find?_updPair (l : List Pair) (id k : Nat) (f : Pair → Pair) (hf : ∀ p, (f p).id = p.id) :
    (updPair l id f).find? (·.id == k) = (l.find? (·.id == k)).map fun p => if p.id == id then f p else p := by
  unfold updPair
  rw [List.find?_map]
  congr 1
  congr 1
  funext p
  simp only [Function.comp]
  split
  · rw [hf]
  · rfl

theorem pairById_modPair (a : Agent) (id k : Nat) (f : Pair → Pair) (hf : ∀ p, (f p).id = p.id) :
    (a.modPair id f).pairById k = (a.pairById k).map fun p => if p.id == id then f p else p :=
  find?_updPair a.checklist id k f hf

theorem Fr.modPair (a : Agent) (id : Nat) (f : Pair → Pair)
    (hf : ∀ p, (f p).id = p.id ∧ ctr (f p) = ctr p ∧ (f p).l = p.l ∧ ((f p).r = p.r ∨ (f p).r ∈ ruids a)) :
    Fr a (a.modPair id f) where
  rx := rfl
  sent := rfl
  recv := rfl
  npid := Nat.le_refl _
  ctr := fun k q h => by
    rw [pairById_modPair a id k f (fun p => (hf p).1)] at h
    rcases Option.map_eq_some_iff.mp h with ⟨p, hp, e⟩
    refine Or.inl ⟨p, hp, ?_⟩
    rw [← e]
    split
    · exact (hf p).2.1.symm
    · rfl
  bnd := fun h => by
    refine ⟨fun p hp => ?_, ?_⟩
    · simp only [Agent.modPair, updPair, List.mem_map] at hp
      rcases hp with ⟨p0, hp0, e⟩
      have := h.1 p0 hp0
      rw [← e]
      split
      · rw [(hf p0).1]; exact this
      · exact this
    · simp only [Agent.modPair, updPair]
      rw [List.pairwise_map]
      refine List.Pairwise.imp ?_ h.2
      intro x y hxy
      have e1 : (if (x.id == id) = true then f x else x).id = x.id := by split; exact (hf x).1; rfl
      have e2 : (if (y.id == id) = true then f y else y).id = y.id := by split; exact (hf y).1; rfl
      rw [e1, e2]; exact hxy
  closed := fun h => h
  nuid := rfl
  cands := Or.inl ⟨rfl, rfl, rfl⟩
  rsv := fun h p hp => by
    simp only [Agent.modPair, updPair, List.mem_map] at hp
    rcases hp with ⟨p0, hp0, e⟩
    have := h p0 hp0
    rw [← e]
    show _ ∈ luids a ∧ _ ∈ ruids a
    split
    · rw [(hf p0).2.2.1]
      refine ⟨this.1, ?_⟩
      rcases (hf p0).2.2.2 with h' | h'
      · rw [h']; exact this.2
      · exact h'
    · exact this

theorem Fr.wipe (a : Agent) : Fr a a.wipe where
  rx := rfl
  sent := rfl
  recv := rfl
  npid := Nat.le_refl _
  ctr := fun k q h => by simp [Agent.wipe, Agent.pairById] at h
  bnd := fun _ => ⟨fun p hp => by simp [Agent.wipe] at hp, by simp [Agent.wipe]⟩
  closed := fun h => h
  nuid := rfl
  cands := Or.inr ⟨rfl, rfl, rfl⟩
  rsv := fun _ p hp => by simp [Agent.wipe] at hp

theorem map_ckey_updCand (l : List Cand) (uid : Nat) (f : Cand → Cand) (hf : ∀ c, ckey (f c) = ckey c) :
    (updCand l uid f).map ckey = l.map ckey := by
  unfold updCand
  rw [List.map_map]
  congr 1
  funext c
  simp only [Function.comp]
  split
  · exact hf c
  · rfl

theorem Fr.seenLocalSent (a : Agent) (uid now : Nat) : Fr a (a.seenLocalSent uid now) where
  rx := rfl
  sent := rfl
  recv := rfl
  npid := Nat.le_refl _
  ctr := fun _ q h => Or.inl ⟨q, h, rfl⟩
  bnd := id
  closed := fun h => h
  nuid := rfl
  cands := Or.inl ⟨map_ckey_updCand _ _ _ (fun _ => rfl), rfl, rfl⟩
  rsv := fun h => by
    have k : Keep a (a.seenLocalSent uid now) := ⟨map_ckey_updCand _ _ _ (fun _ => rfl), rfl, rfl⟩
    unfold Res; rw [k.luids, k.ruids]; exact h

theorem Fr.seenRemoteRecv (a : Agent) (uid now : Nat) : Fr a (a.seenRemoteRecv uid now) where
  rx := rfl
  sent := rfl
  recv := rfl
  npid := Nat.le_refl _
  ctr := fun _ q h => Or.inl ⟨q, h, rfl⟩
  bnd := id
  closed := fun h => h
  nuid := rfl
  cands := Or.inl ⟨rfl, map_ckey_updCand _ _ _ (fun _ => rfl), rfl⟩
  rsv := fun h => by
    have k : Keep a (a.seenRemoteRecv uid now) := ⟨rfl, map_ckey_updCand _ _ _ (fun _ => rfl), rfl⟩
    unfold Res; rw [k.luids, k.ruids]; exact h

theorem Fr.addPair (a : Agent) (l r : Cand) (hl : l.uid ∈ luids a) (hr : r.uid ∈ ruids a) : Fr a (a.addPair l r).1 where
  rx := rfl
  sent := rfl
  recv := rfl
  npid := Nat.le_succ _
  ctr := fun k q h => by
    simp only [Agent.addPair, Agent.pairById, List.find?_append] at h
    cases h0 : a.checklist.find? (·.id == k) with
    | some p =>
      rw [h0] at h
      simp only [Option.some_or] at h
      exact Or.inl ⟨p, h0, by rw [Option.some.inj h]⟩
    | none =>
      rw [h0] at h
      simp only [Option.none_or] at h
      right
      have := List.find?_some h
      have hm := List.mem_of_find?_eq_some h
      simp only [List.mem_singleton] at hm
      subst hm
      simp only [beq_iff_eq] at this
      omega
  bnd := fun h => by
    refine ⟨fun p hp => ?_, ?_⟩
    · simp only [Agent.addPair, List.mem_append, List.mem_singleton] at hp ⊢
      rcases hp with hp | hp
      · exact Nat.le_succ_of_le (h.1 p hp)
      · subst hp; exact Nat.le_refl _
    · simp only [Agent.addPair]
      refine List.pairwise_append.mpr ⟨h.2, List.pairwise_singleton _ _, ?_⟩
      intro x hx y hy
      rw [List.mem_singleton.mp hy]
      have := h.1 x hx
      show x.id ≠ a.nextPairID + 1
      omega
  closed := fun h => h
  nuid := rfl
  cands := Or.inl ⟨rfl, rfl, rfl⟩
  rsv := fun h p hp => by
    simp only [Agent.addPair, List.mem_append, List.mem_singleton] at hp
    rcases hp with hp | hp
    · exact h p hp
    · subst hp; exact ⟨hl, hr⟩

end IceProofs.AgentC07
