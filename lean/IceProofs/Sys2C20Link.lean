import IceProofs.Sys2C20Run
import IceProofs.Sys2C20Resp
/-!
# C20 on `Sys2` — what A has answered, B has processed

Transaction ids (`TInv`, along ALL schedules): A hands out even ids below `2 * nextTid`, B odd ids; a response carries
the id of the request it answers.  In an exchange (`LInv`): a request in flight with the id of an outstanding valued
transaction of A IS that nomination; a success response in flight with that id was sent by B after it had handed the
nomination to its selector, so B's highest accepted value is at least the value; hence the same for every nomination
whose response A has processed.
-/
namespace IceProofs.C20S
open IceModel.AgentCore IceModel.Sys2 IceProofs.Sys2Run IceProofs.Agent IceProofs.Sys2C05

/-! ## transaction ids -/

/-- the id of a request or success response in flight is an id A has handed out, or an odd id (B's) -/
def TidOK (n : Nat) (d : Dgram) : Prop :=
  ∀ m, d.p = .stun m → m.cls = 0 ∨ m.cls = 2 → (∃ k, m.tid = 2 * k ∧ k < n) ∨ ∃ k, m.tid = 2 * k + 1

theorem TidOK.mono {n n' : Nat} {d : Dgram} (h : TidOK n d) (hn : n ≤ n') : TidOK n' d := by
  intro m hm hc
  rcases h m hm hc with ⟨k, h1, h2⟩ | h2
  · exact Or.inl ⟨k, h1, by omega⟩
  · exact Or.inr h2

structure TInv (s : Sys) : Prop where
  tagA : s.a.tag = 0
  tagB : s.b.tag = 1
  pendTid : ∀ pd ∈ s.a.pending, ∃ k, pd.tid = 2 * k ∧ k < s.a.nextTid
  flTid : ∀ d ∈ s.inflight, TidOK s.a.nextTid d

theorem evOf_inbound {s : Sys} {d : Dgram} {now la src : Nat} {m : Msg} (h : evOf s d = .inbound now la src m) :
    d.p = .stun m := by
  unfold evOf at h
  cases hp : d.p with
  | stun m' =>
    rw [hp] at h
    simp only [Ev.inbound.injEq] at h
    rw [h.2.2.2]
  | data n => rw [hp] at h; cases h

/-- the request a success response answers was in flight -/
theorem resp_of_request {s : Sys} {a : Agent} {ev : Ev} {D : Dgram → Prop}
    (hadm : (∀ now la src m, ev ≠ .inbound now la src m) ∨ ∃ d, D d ∧ ev = evOf s d)
    {f t : Nat} {m : Msg} (hm : Out.dgram f t m ∈ (step a ev).2) (hc : m.cls = 2) :
    ∃ d m' now la src, D d ∧ d.p = .stun m' ∧ ev = .inbound now la src m' ∧ m'.cls = 0 ∧ m'.tid = m.tid ∧
      roleConflict a m' = none ∧ (a.controlling = false → cldDeliversEv a ev = some m') := by
  obtain ⟨now, la, src, m', he, h1, h2, h3, h4⟩ := step_out_resp a ev f t m hm hc
  rcases hadm with hni | ⟨d, hd, hev⟩
  · exact absurd he (hni now la src m')
  · exact ⟨d, m', now, la, src, hd, evOf_inbound (hev.symm.trans he), he, h1, h2, h3, h4⟩

theorem tinv_agentEv {s : Sys} (t : TInv s) (X : Bool) (ev : Ev)
    (hadm : (∀ now la src m, ev ≠ .inbound now la src m) ∨ ∃ d, TidOK s.a.nextTid d ∧ ev = evOf s d) :
    TInv (s.agentEv X ev).1 := by
  cases X with
  | false =>
    obtain ⟨hn, hreq, hpend⟩ := step_tids s.a ev
    rw [t.tagA] at hreq hpend
    refine ⟨?_, t.tagB, ?_, ?_⟩
    · rw [agentEv_a_false]; exact (step_constants s.a ev).2.2.trans t.tagA
    · intro pd hpd
      rw [agentEv_a_false] at hpd ⊢
      rcases hpend pd hpd with h | ⟨k, h1, _, h3⟩
      · obtain ⟨k, h1, h2⟩ := t.pendTid pd h
        exact ⟨k, h1, by omega⟩
      · exact ⟨k, by omega, h3⟩
    · intro d hd
      rw [agentEv_inflight_false] at hd
      rw [agentEv_a_false]
      rcases List.mem_append.mp hd with hd | hd
      · exact (t.flTid d hd).mono hn
      · intro m hm hc
        have hmem := mem_dgramsOf_stun hd hm
        rcases hc with hc | hc
        · obtain ⟨k, h1, _, h3⟩ := hreq _ _ m hmem hc
          exact Or.inl ⟨k, by omega, h3⟩
        · obtain ⟨d', m', _, _, _, hd', hp', _, hc', ht', _, _⟩ := resp_of_request hadm hmem hc
          rw [← ht']
          exact (hd'.mono hn) m' hp' (Or.inl hc')
  | true =>
    obtain ⟨_, hreq, _⟩ := step_tids s.b ev
    rw [t.tagB] at hreq
    refine ⟨t.tagA, ?_, t.pendTid, ?_⟩
    · rw [agentEv_b_true]; exact (step_constants s.b ev).2.2.trans t.tagB
    · intro d hd
      rw [agentEv_inflight_true] at hd
      rw [agentEv_a_true]
      rcases List.mem_append.mp hd with hd | hd
      · exact t.flTid d hd
      · intro m hm hc
        have hmem := mem_dgramsOf_stun hd hm
        rcases hc with hc | hc
        · obtain ⟨k, h1, _, _⟩ := hreq _ _ m hmem hc
          exact Or.inr ⟨k, h1⟩
        · obtain ⟨d', m', _, _, _, hd', hp', _, hc', ht', _, _⟩ := resp_of_request hadm hmem hc
          rw [← ht']
          exact hd' m' hp' (Or.inl hc')

theorem tinv_clos : ClosOK TInv (fun s d => TidOK s.a.nextTid d) where
  dgram := fun _ t d hd => t.flTid d hd
  dframe := fun _ _ _ hd ha _ => by rw [ha]; exact hd
  frame := fun s s' t ha hb hf =>
    ⟨ha ▸ t.tagA, hb ▸ t.tagB, by rw [ha]; exact t.pendTid, fun d hd => by rw [ha]; exact t.flTid d (hf d hd)⟩
  agent := fun _ X ev t hadm => tinv_agentEv t X ev hadm

/-- transaction ids are in order in every state reachable from two fresh agents -/
theorem init_tinv {s0 : Sys} (hi : Sys.Init s0) (es : List SysEv) : TInv (Sys.runs s0 es) :=
  clos_runs tinv_clos
    ⟨hi.a_tag, hi.b_tag, fun pd hpd => (by rw [hi.a_pending] at hpd; cases hpd),
     fun d hd => (by rw [hi.inflight] at hd; cases hd)⟩ es

/-! ## the link -/

/-- what is known of a datagram in flight relative to A's outstanding valued transactions -/
def LinkOK (s : Sys) (d : Dgram) : Prop :=
  ∀ pd ∈ s.a.pending, ∀ v, pd.nom = some v → ∀ m, d.p = .stun m → m.tid = pd.tid →
    (m.cls = 0 → m.nom = some v ∧ ∃ tb, m.role = some (true, tb)) ∧
    (m.cls = 2 → ∃ last, s.b.lastNomination = some last ∧ v ≤ last)

structure LInv (h : Hist) (s : Sys) : Prop where
  tids : TInv s
  link : ∀ d ∈ s.inflight, LinkOK s d
  /-- B has processed every nomination whose response A has processed -/
  ansB : ∀ x ∈ h.answered, ∃ last, s.b.lastNomination = some last ∧ x.1 ≤ last

/-- an answered transaction was outstanding, and the event is a success response with its id -/
theorem answerOf_tid {a : Agent} {ev : Ev} {pd : Pending} {id : Nat} (h : answerOf a ev = some (pd, id)) :
    ∃ now la src m, ev = .inbound now la src m ∧ m.cls = 2 ∧ m.tid = pd.tid := by
  cases ev with
  | inbound now la src m =>
    refine ⟨now, la, src, m, rfl, ?_⟩
    unfold answerOf at h
    cases hin : inboundOn a (.inbound now la src m) with
    | none => rw [hin] at h; cases h
    | some x =>
      obtain ⟨n1, l1, s1, m1⟩ := x
      rw [hin] at h
      simp only [] at h
      have hm1 : m1 = m ∧ n1 = now := by
        have hin' : inboundOn a (.inbound now la src m)
            = if a.closed || !a.started then none else (a.localByAddr la).map fun l => (now, l, src, m) := rfl
        rw [hin'] at hin
        split at hin
        · cases hin
        · simp only [Option.map_eq_some_iff] at hin
          obtain ⟨_, _, heq⟩ := hin
          simp only [Prod.mk.injEq] at heq
          exact ⟨heq.2.2.2.symm, heq.1.symm⟩
      obtain ⟨rfl, rfl⟩ := hm1
      split at h
      · rename_i hcond
        simp only [Bool.and_eq_true, beq_iff_eq] at hcond
        refine ⟨hcond.1.2, ?_⟩
        cases hr : a.findRemote l1.net s1 with
        | none => rw [hr] at h; cases h
        | some r =>
          rw [hr] at h
          simp only [] at h
          cases htp : (a.takePending n1 m1.tid).2 with
          | none => rw [htp] at h; cases h
          | some pd' =>
            rw [htp] at h
            simp only [] at h
            split at h
            · simp only [Option.map_eq_some_iff] at h
              obtain ⟨p, _, heq⟩ := h
              simp only [Prod.mk.injEq] at heq
              rw [← heq.1]
              exact (IceProofs.C03.takePending_mem a n1 m1.tid pd' htp).2.symm
            · cases h
      · cases h
  | _ =>
    unfold answerOf inboundOn at h
    cases h

/-- B's highest accepted value does not shrink in a step that keeps the selector -/
theorem last_mono {b : Agent} {ev : Ev} (hr : resetsSelector b ev = false) (l : Nat)
    (hl : b.lastNomination = some l) : ∃ l', (step b ev).1.lastNomination = some l' ∧ l ≤ l' := by
  cases hat : acceptAt b ev with
  | none => exact ⟨l, (last_of_no_accept hr hat).trans hl, Nat.le_refl _⟩
  | some x =>
    obtain ⟨v, la, src⟩ := x
    obtain ⟨h1, h2, _⟩ := last_of_accept hr hat
    exact ⟨v, h1, Nat.le_of_lt (h2 l hl)⟩

/-- after the controlled selector has been handed a nomination with value `v`, the highest accepted value is ≥ `v` -/
theorem last_of_delivery {b : Agent} {ev : Ev} (hr : resetsSelector b ev = false) {m' : Msg} {v : Nat}
    (hd : cldDeliversEv b ev = some m') (hv : m'.nom = some v) :
    ∃ l', (step b ev).1.lastNomination = some l' ∧ v ≤ l' := by
  have h := step_lastNomination b ev
  rw [hr, hd] at h
  simp only [Bool.false_eq_true, if_false, hv] at h
  rw [accept_some_fst] at h
  cases hacc : (shouldAcceptNomination (some v) b.lastNomination).2 with
  | true =>
    rw [hacc] at h
    exact ⟨v, h, Nat.le_refl _⟩
  | false =>
    rw [hacc] at h
    simp only [Bool.false_eq_true, if_false] at h
    have hn : ¬ ∀ l, b.lastNomination = some l → l < v := by
      intro hall
      have := (accept_some_iff v b.lastNomination).2 hall
      rw [hacc] at this; cases this
    cases hl : b.lastNomination with
    | none => exact absurd (fun l hl' => by rw [hl] at hl'; cases hl') hn
    | some l =>
      refine ⟨l, h.trans hl, ?_⟩
      apply Classical.byContradiction
      intro hlt
      exact hn (fun l' hl' => by rw [hl] at hl'; cases hl'; omega)

/-- the combined invariant -/
def QL (nat : List (Nat × Nat)) (h : Hist) (s : Sys) : Prop := QInv nat h s ∧ LInv h s

theorem linv_frame {h : Hist} {s s' : Sys} (l : LInv h s) (ha : s'.a = s.a) (hb : s'.b = s.b)
    (hf : ∀ d ∈ s'.inflight, d ∈ s.inflight) : LInv h s' := by
  refine ⟨tinv_clos.frame s s' l.tids ha hb hf, ?_, ?_⟩
  · intro d hd
    have := l.link d (hf d hd)
    unfold LinkOK at this ⊢
    rw [ha, hb]; exact this
  · rw [hb]; exact l.ansB

theorem ql_agentEv {nat : List (Nat × Nat)} {h : Hist} {s : Sys} (ql : QL nat h s) (X : Bool) (ev : Ev)
    (hk : keeps ev = true)
    (hadm : (∀ now la src m, ev ≠ .inbound now la src m) ∨
      ∃ d, (DgramOK h d ∧ TidOK s.a.nextTid d ∧ LinkOK s d) ∧ ev = evOf s d)
    (hsess : Session (s.agentEv X ev).1) (hz : ∀ x ∈ (hstep h X (s.agent X) ev).issued, 0 < x.1) :
    QL nat (hstep h X (s.agent X) ev) (s.agentEv X ev).1 := by
  obtain ⟨q, l⟩ := ql
  have hadmQ : (∀ now la src m, ev ≠ .inbound now la src m) ∨ ∃ d, DgramOK h d ∧ ev = evOf s d := by
    rcases hadm with h1 | ⟨d, hd, he⟩
    · exact Or.inl h1
    · exact Or.inr ⟨d, hd.1, he⟩
  have hadmT : (∀ now la src m, ev ≠ .inbound now la src m) ∨ ∃ d, TidOK s.a.nextTid d ∧ ev = evOf s d := by
    rcases hadm with h1 | ⟨d, hd, he⟩
    · exact Or.inl h1
    · exact Or.inr ⟨d, hd.2.1, he⟩
  have hadmL : (∀ now la src m, ev ≠ .inbound now la src m) ∨ ∃ d, LinkOK s d ∧ ev = evOf s d := by
    rcases hadm with h1 | ⟨d, hd, he⟩
    · exact Or.inl h1
    · exact Or.inr ⟨d, hd.2.2, he⟩
  have q' := qinv_agentEv q X ev hk hadmQ hsess hz
  have t' := tinv_agentEv l.tids X ev hadmT
  refine ⟨q', t', ?_, ?_⟩
  · -- the link for the datagrams in flight afterwards
    cases X with
    | false =>
      have eA : s.agent false = s.a := rfl
      rw [eA] at hz
      obtain ⟨hs1, hs2, hs3, hs4, hs5, hs6, hs7, hs8, hs9⟩ := q.sess
      have hpA := session_postA hsess
      rw [agentEv_a_false] at hpA
      obtain ⟨hp1, hp2, hp3, hp4⟩ := hpA
      obtain ⟨hn, hreq, hpendT⟩ := step_tids s.a ev
      rw [l.tids.tagA] at hreq hpendT
      have hseq := sq_step s.a ev
      have hvl := step_valued_link s.a ev
      have hadmTL : (∀ now la src m, ev ≠ .inbound now la src m) ∨
          ∃ d, (TidOK s.a.nextTid d ∧ LinkOK s d) ∧ ev = evOf s d := by
        rcases hadm with h1 | ⟨d, hd, he⟩
        · exact Or.inl h1
        · exact Or.inr ⟨d, ⟨hd.2.1, hd.2.2⟩, he⟩
      -- a valued transaction outstanding afterwards was outstanding before, or is new: then its id is fresh, and the
      -- request this step emits with that id carries its value (whoever issued it: `RenominateCandidate` or the
      -- automatic check)
      have hpd : ∀ pd ∈ (step s.a ev).1.pending, ∀ v, pd.nom = some v →
          pd ∈ s.a.pending ∨ ((∃ k, pd.tid = 2 * k ∧ s.a.nextTid ≤ k) ∧
            ∀ f t m, Out.dgram f t m ∈ (step s.a ev).2 → m.cls = 0 → m.tid = pd.tid → m.nom = some v) := by
        intro pd hpd v hv
        rcases hvl pd hpd with h1 | h1 | ⟨m0, hm0, hc0, ht0, hn0⟩
        · exact Or.inl h1
        · rw [h1] at hv; cases hv
        · rcases hpendT pd hpd with h3 | ⟨k, h3, h4, _⟩
          · exact Or.inl h3
          · refine Or.inr ⟨⟨k, by omega, h4⟩, fun f t m hm hc ht => ?_⟩
            have := hseq.tid_inj hm hm0 hc hc0 (ht.trans ht0.symm)
            rw [this, hn0]; exact hv
      intro d hd pd hpdm v hv m hm ht
      rw [agentEv_a_false] at hpdm
      rw [agentEv_b_false]
      rw [agentEv_inflight_false] at hd
      rcases List.mem_append.mp hd with hd | hd
      · -- the datagram was in flight before
        rcases hpd pd hpdm v hv with hold | ⟨⟨k0, hk0, hk1⟩, _⟩
        · exact l.link d hd pd hold v hv m hm ht
        · -- a new transaction has an id no datagram in flight carries
          refine ⟨fun hc => ?_, fun hc => ?_⟩
          · rcases l.tids.flTid d hd m hm (Or.inl hc) with ⟨k, h1, h2⟩ | ⟨k, h1⟩ <;> omega
          · rcases l.tids.flTid d hd m hm (Or.inr hc) with ⟨k, h1, h2⟩ | ⟨k, h1⟩ <;> omega
      · -- the datagram is emitted by this step
        have hmem := mem_dgramsOf_stun hd hm
        refine ⟨fun hc => ?_, fun hc => ?_⟩
        · rcases hpd pd hpdm v hv with hold | ⟨_, hlink⟩
          · obtain ⟨k, h1, h2, _⟩ := hreq _ _ m hmem hc
            obtain ⟨k', h3, h4⟩ := l.tids.pendTid pd hold
            omega
          · have h3 := hlink _ _ m hmem hc ht
            obtain ⟨⟨tb, hrole⟩, _⟩ := (IceProofs.C03.step_hsel s.a ev).out d.src d.dst m hmem hc
            rw [hp3] at hrole
            exact ⟨h3, tb, hrole⟩
        · -- A answers no request that carries its own role
          obtain ⟨d', m', now, la, src, hd', hp', he, hc', ht', hrc, _⟩ := resp_of_request hadmTL hmem hc
          have hold : pd ∈ s.a.pending := by
            rcases hpd pd hpdm v hv with hold | ⟨⟨k0, hk0, hk1⟩, _⟩
            · exact hold
            · -- the answered request was in flight before: its id is not a fresh one
              rcases hd'.1 m' hp' (Or.inl hc') with ⟨k, h1, h2⟩ | ⟨k, h1⟩ <;> omega
          obtain ⟨tb, hrole⟩ := ((hd'.2 pd hold v hv m' hp' (ht'.trans ht)).1 hc').2
          unfold roleConflict at hrc
          rw [hrole, hs5] at hrc
          simp at hrc
    | true =>
      obtain ⟨hs1, hs2, hs3, hs4, hs5, hs6, hs7, hs8, hs9⟩ := q.sess
      have hpB := session_postB hsess
      rw [agentEv_b_true] at hpB
      obtain ⟨hp1, hp2, hp3, hp4, hp5⟩ := hpB
      have hnr : resetsSelector s.b ev = false := no_reset hs2 hk (hp3.trans hs6.symm)
      obtain ⟨_, hreq, _⟩ := step_tids s.b ev
      rw [l.tids.tagB] at hreq
      intro d hd pd hpdm v hv m hm ht
      rw [agentEv_a_true] at hpdm
      rw [agentEv_b_true]
      rw [agentEv_inflight_true] at hd
      rcases List.mem_append.mp hd with hd | hd
      · obtain ⟨h1, h2⟩ := l.link d hd pd hpdm v hv m hm ht
        refine ⟨h1, fun hc => ?_⟩
        obtain ⟨last, hl1, hl2⟩ := h2 hc
        obtain ⟨l', hl1', hl2'⟩ := last_mono hnr last hl1
        exact ⟨l', hl1', by omega⟩
      · have hmem := mem_dgramsOf_stun hd hm
        refine ⟨fun hc => ?_, fun hc => ?_⟩
        · obtain ⟨k, h1, _, _⟩ := hreq _ _ m hmem hc
          obtain ⟨k', h3, _⟩ := l.tids.pendTid pd hpdm
          omega
        · obtain ⟨d', m', now, la, src, hd', hp', he, hc', ht', _, hcld⟩ := resp_of_request hadmL hmem hc
          have hnom := ((hd' pd hpdm v hv m' hp' (ht'.trans ht)).1 hc').1
          exact last_of_delivery hnr (hcld hs6) hnom
  · -- the nominations answered
    intro x hx
    cases X with
    | false =>
      have eA : s.agent false = s.a := rfl
      rw [eA] at hx
      rw [hstepA_answered] at hx
      rw [agentEv_b_false]
      rcases List.mem_append.mp hx with hx | hx
      · exact l.ansB x hx
      · cases hao : answeredNom s.a ev with
        | none => rw [hao] at hx; cases hx
        | some y =>
        rw [hao] at hx
        simp only [Option.toList_some, List.mem_singleton] at hx
        subst hx
        unfold answeredNom at hao
        cases ha : answerOf s.a ev with
        | none => rw [ha] at hao; cases hao
        | some z =>
          obtain ⟨pd, id⟩ := z
          rw [ha] at hao
          simp only [] at hao
          split at hao
          · simp only [Option.map_eq_some_iff] at hao
            obtain ⟨v, hv, heq⟩ := hao
            obtain ⟨hs1, _, _, _, hs5, _⟩ := q.sess
            have hpA := session_postA hsess
            rw [agentEv_a_false] at hpA
            obtain ⟨_, _, hp3, hp4⟩ := hpA
            obtain ⟨_, _, hans⟩ := step_frame_ctl s.a ev q.invA hs1 hk hs5 hp3 hp4
            obtain ⟨hpdm, _⟩ := hans pd id ha
            obtain ⟨now, la, src, m, he, hc, ht⟩ := answerOf_tid ha
            rcases hadmL with hni | ⟨d, hd, hev⟩
            · exact absurd he (hni now la src m)
            · have hp := evOf_inbound (hev.symm.trans he)
              have := (hd pd hpdm v hv m hp ht).2 hc
              rw [← heq]
              exact this
          · cases hao
    | true =>
      have eB : s.agent true = s.b := rfl
      rw [eB] at hx
      rw [hstepB_answered] at hx
      rw [agentEv_b_true]
      obtain ⟨last, hl1, hl2⟩ := l.ansB x hx
      obtain ⟨_, hs2, _, _, _, hs6, _⟩ := q.sess
      have hpB := session_postB hsess
      rw [agentEv_b_true] at hpB
      have hnr : resetsSelector s.b ev = false := no_reset hs2 hk (hpB.2.2.1.trans hs6.symm)
      obtain ⟨l', hl1', hl2'⟩ := last_mono hnr last hl1
      exact ⟨l', hl1', by omega⟩

theorem ql_sched (nat : List (Nat × Nat)) :
    SchedOK keeps (QL nat) (fun h s d => DgramOK h d ∧ TidOK s.a.nextTid d ∧ LinkOK s d) where
  hub := fun _ h => keeps_of_not_api h
  sess := fun _ _ q => q.1.sess
  dgram := fun _ _ q d hd => ⟨q.1.fl d hd, q.2.tids.flTid d hd, q.2.link d hd⟩
  dframe := fun _ _ _ _ hd ha hb _ => ⟨hd.1, by rw [ha]; exact hd.2.1, by unfold LinkOK; rw [ha, hb]; exact hd.2.2⟩
  frame := fun _ _ _ q ha hb hn hf => ⟨qinv_frame q.1 ha hb hn hf, linv_frame q.2 ha hb hf⟩
  agent := fun _ _ X ev q hk hadm hs hz => ql_agentEv q X ev hk hadm hs hz

end IceProofs.C20S
