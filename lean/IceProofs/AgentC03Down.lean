import IceProofs.AgentC03Lite
/-!
# C03 — the priority guard: where the selection moves from `pid` to another pair `qid` without a
nomination value, the decision compared their priorities in a state `d` from which priorities are
carried unchanged (`Rel True`) to the end of the step.
-/
set_option linter.unusedSimpArgs false
namespace IceProofs.C03
open IceModel.AgentCore

/-- in state `a` the pairs `i`, `j` are listed and their priorities are related by `R` -/
structure Down (R : Nat → Nat → Prop) (a : Agent) (i j : Nat) : Prop where
  exi : ∃ p ∈ a.checklist, p.id = i
  exj : ∃ q ∈ a.checklist, q.id = j
  rel : ∀ p ∈ a.checklist, ∀ q ∈ a.checklist, p.id = i → q.id = j → R (a.pairPrio p) (a.pairPrio q)

theorem Down.transfer {R : Nat → Nat → Prop} {a b : Agent} {i j : Nat} (h : Down R a i j) (hia : Inv3 a)
    (hr : Rel True a b) :
    ∀ p' ∈ b.checklist, ∀ q' ∈ b.checklist, p'.id = i → q'.id = j → R (b.pairPrio p') (b.pairPrio q') := by
  intro p' hp' q' hq' ei ej
  obtain ⟨p, hp, hpi⟩ := h.exi
  obtain ⟨q, hq, hqj⟩ := h.exj
  obtain ⟨p0, hp0, e0, _, hpr0⟩ := hr.old p' hp' (by rw [ei, ← hpi]; exact hia.ids.le p hp)
  obtain ⟨q0, hq0, e1, _, hpr1⟩ := hr.old q' hq' (by rw [ej, ← hqj]; exact hia.ids.le q hq)
  rw [hpr0 trivial, hpr1 trivial]
  exact h.rel p0 hp0 q0 hq0 (e0.trans ei) (e1.trans ej)

/-- the witness: a decision state `d` -/
def Wit (R : Nat → Nat → Prop) (b : Agent) (i j : Nat) : Prop :=
  ∃ d : Agent, Inv3 d ∧ Rel True d b ∧ Down R d i j

theorem Wit.mono {R : Nat → Nat → Prop} {b c : Agent} {i j : Nat} (h : Wit R b i j) (hr : Rel True b c) :
    Wit R c i j := by
  obtain ⟨d, hd, hr0, hdn⟩ := h
  exact ⟨d, hd, hr0.trans hr, hdn⟩

theorem Wit.concl {R : Nat → Nat → Prop} {b : Agent} {i j : Nat} (h : Wit R b i j) :
    ∀ p' ∈ b.checklist, ∀ q' ∈ b.checklist, p'.id = i → q'.id = j → R (b.pairPrio p') (b.pairPrio q') := by
  obtain ⟨d, hd, hr0, hdn⟩ := h
  exact hdn.transfer hd hr0

/-! ## the controlled selector, immediate path -/

theorem cldNom_down (a : Agent) (id : Nat) (m : Msg) (hi : Inv3 a) (hm : Marked a id m)
    (hneed : needsPrioCheck a.cfg = true) (hnom : m.nom = none) {pid qid : Nat}
    (hs : a.selected = some pid) (hs' : (cldNom a id m).1.selected = some qid) (hne : pid ≠ qid) :
    Wit (· < ·) (cldNom a id m).1 pid qid := by
  rcases cldNom_cases a id m with ⟨h, _⟩ | ⟨hn, h | ⟨p, hp, hps, hsw, h⟩ | ⟨p, _, _, h⟩⟩
  · rw [h] at hs'; rw [hs] at hs'; cases hs'; exact absurd rfl hne
  · rw [h, (cldLite_frame a id).2.2, hs] at hs'; cases hs'; exact absurd rfl hne
  · have hg : ∀ q ∈ a.checklist, q.id = id → q.gNomReq = true := fun q hq e => (hm.2 q hq e).2 hn
    have hd : Inv3 (cldLite a id) := ((cldLite_pres (wp := True) (ex := True) a id hg) hi).1
    rw [h] at hs' ⊢
    rw [select_selected] at hs'
    cases hs'
    refine ⟨cldLite a id, hd, select_rel _ _, ?_⟩
    have hsd : (cldLite a id).selected = some pid := (cldLite_frame a id).2.2.trans hs
    obtain ⟨sp, hspm, hspid, _⟩ := hd.sel pid hsd
    have hsp : (cldLite a id).pairById pid = some sp := hspid ▸ pairById_of_mem hd.ids hspm
    obtain ⟨hpm, hpid⟩ := pairById_mem hp
    have hlt : (cldLite a id).pairPrio sp < (cldLite a id).pairPrio p := by
      unfold cldSw at hsw
      rw [hsd] at hsw
      simp only [Option.bind_some, hsp] at hsw
      have e1 : (sp.id == id) = false := by rw [hspid]; simpa using hne
      rw [(cldLite_frame a id).1] at hsw
      simp [e1, hnom, hneed] at hsw
      exact hsw.2
    refine ⟨⟨sp, hspm, hspid⟩, ⟨p, hpm, hpid⟩, ?_⟩
    intro p' hp' q' hq' e1 e2
    rw [mem_unique hd.ids hp' hspm (e1.trans hspid.symm), mem_unique hd.ids hq' hpm (e2.trans hpid.symm)]
    exact hlt
  · rw [h] at hs'
    have : (cldLite a id).selected = some qid := hs'
    rw [(cldLite_frame a id).2.2, hs] at this; cases this; exact absurd rfl hne

theorem cldHandleRequest_down (a : Agent) (now : Nat) (m : Msg) (l r : Cand) (hi : Inv3 a)
    (hc : a.controlling = false) (hneed : needsPrioCheck a.cfg = true) (hnom : m.nom = none) {pid qid : Nat}
    (hs : a.selected = some pid) (hs' : (a.cldHandleRequest now m l r).1.selected = some qid) (hne : pid ≠ qid) :
    Wit (· < ·) (a.cldHandleRequest now m l r).1 pid qid := by
  rw [cldHandleRequest_eq] at hs' ⊢
  obtain ⟨h1, hm1⟩ := cldPre_hok a m l r
  have hi1 := (h1.pres hi).1
  have hs1 : (cldPre a m l r).1.selected = some pid := (h1.selected_eq hi).trans hs
  generalize (cldPre a m l r).1 = a1 at h1 hm1 hi1 hs1 hs' ⊢
  generalize (cldPre a m l r).2 = id at hm1 hs' ⊢
  have h2 := cldAccept_hok (wp := True) (ex := True) a1 m
  have hm2 := cldAccept_marked a1 m id hm1
  have hi2 := (h2.pres hi1).1
  have hs2 : (cldAccept a1 m).1.selected = some pid := (cldAccept_selected a1 m).trans hs1
  have hcfg2 : (cldAccept a1 m).1.cfg = a.cfg := h2.cfg.trans h1.cfg
  have hc2 : (cldAccept a1 m).1.controlling = false := (h2.ctl.trans h1.ctl).trans hc
  generalize (cldAccept a1 m).1 = a2 at h2 hm2 hi2 hs2 hcfg2 hc2 hs' ⊢
  split at hs'
  · rw [sendSuccess_selected, hs2] at hs'; cases hs'; exact absurd rfl hne
  · rename_i hcond
    rw [if_neg hcond]
    have h3 := cldNom_hsel a2 id m hc2 hm2
    have hi3 := h3.inv hi2
    have h4 := cldTail_hok (wp := True) (ex := True) (cldNom a2 id m).1 now m l r id
    rw [(cldTail_out _ now m l r id _).1] at hs' ⊢
    have hs3 : (cldNom a2 id m).1.selected = some qid := (h4.selected_eq hi3).symm.trans hs'
    exact (cldNom_down a2 id m hi2 hm2 (hcfg2 ▸ hneed) hnom hs2 hs3 hne).mono (h4.pres hi3).2.toRel

/-! ## `HandleSuccessResponse`, deferred path -/

theorem hsSel_down (a : Agent) (p : Pair) (pd : Pending) (hi : Inv3 a) (hneed : needsPrioCheck a.cfg = true)
    (hdef : p.deferredNom = none) (hpd : pd.nom = none)
    (hq : ∃ q ∈ a.checklist, q.id = p.id ∧ PrioF p q) {pid qid : Nat}
    (hs : a.selected = some pid) (hs' : (hsSel a p pd).1.selected = some qid) (hne : pid ≠ qid) :
    Wit (· ≤ ·) (hsSel a p pd).1 pid qid := by
  obtain ⟨sp, hspm, hspid, _⟩ := hi.sel pid hs
  have hsp : a.pairById pid = some sp := hspid ▸ pairById_of_mem hi.ids hspm
  obtain ⟨q, hqm, hqid, hqf⟩ := hq
  have hsame : ∀ x : Agent × List Out, x = (a, []) → x.1.selected = some qid → False := by
    intro x hx h; rw [hx, hs] at h; cases h; exact hne rfl
  have hsel : ∀ x : Agent × List Out, x = a.select p.id → x.1.selected = some qid →
      a.pairPrio sp ≤ a.pairPrio p → Wit (· ≤ ·) x.1 pid qid := by
    intro x hx h hle
    rw [hx] at h ⊢
    rw [select_selected] at h
    cases h
    refine ⟨a, hi, select_rel _ _, ⟨sp, hspm, hspid⟩, ⟨q, hqm, hqid⟩, ?_⟩
    intro p' hp' q' hq' e1 e2
    rw [mem_unique hi.ids hp' hspm (e1.trans hspid.symm), mem_unique hi.ids hq' hqm (e2.trans hqid.symm),
      pairPrio_congr a hqf]
    exact hle
  generalize hres : hsSel a p pd = res at hs' ⊢
  unfold hsSel at hres
  simp only [hdef, hs, hpd, Option.isSome_none, Option.isNone_some, Option.bind_some, hsp,
    Bool.false_eq_true, if_false] at hres
  repeat' split at hres
  all_goals subst hres
  all_goals first
    | exact absurd hs' (fun h => hsame _ rfl h)
    | skip
  rename_i h3
  refine hsel _ rfl hs' ?_
  simp only [hneed, Bool.not_true, Bool.false_or, Bool.and_eq_true, decide_eq_true_eq] at h3
  exact h3.2

theorem handleSuccess_down (a : Agent) (now : Nat) (m : Msg) (l r : Cand) (src : Nat) (hi : Inv3 a)
    (hneed : needsPrioCheck a.cfg = true) {pid qid : Nat}
    (hdef : ∀ q0 ∈ a.checklist, q0.id = qid → q0.deferredNom = none)
    (hpd : ∀ pd ∈ a.pending, pd.tid = m.tid → pd.nom = none)
    (hs : a.selected = some pid) (hs' : (a.handleSuccess now m l r src).1.selected = some qid) (hne : pid ≠ qid) :
    Wit (· ≤ ·) (a.handleSuccess now m l r src).1 pid qid := by
  rw [handleSuccess_eq] at hs' ⊢
  have h0 := takePending_hok (wp := True) (ex := True) a now m.tid
  have hf := takePending_frame a now m.tid
  have hmem := takePending_mem a now m.tid
  have hi1 := (h0.pres hi).1
  generalize (a.takePending now m.tid).1 = a1 at h0 hf hi1 hs' ⊢
  have hs1 : a1.selected = some pid := hf.2.trans hs
  have hsame : a1.selected = some qid → False := by
    intro h; rw [hs1] at h; cases h; exact hne rfl
  split at hs'
  · exact absurd hs' hsame
  · rename_i pd hpdeq
    split at hs'
    · exact absurd hs' hsame
    · split at hs'
      · exact absurd hs' hsame
      · rename_i hsym _ p hfp
        simp only [hpdeq, hsym, hfp, if_false]
        have hpm : p ∈ a1.checklist := findPair_mem hfp
        have hi2 : Inv3 (a1.modPair p.id (hsMark pd)) := ((hsMark_pres (wp := True) (ex := True) a1 p.id pd) hi1).1
        have hs3 : (hsSel (a1.modPair p.id (hsMark pd)) p pd).1.selected = some qid := by
          have h3 : (hsFin (a1.modPair p.id (hsMark pd)) p pd (hsSel (a1.modPair p.id (hsMark pd)) p pd).1).selected
              = some qid := hs'
          rw [hsFin_selected] at h3
          exact h3
        have hqid : qid = p.id := by
          rcases hsSel_cases (a1.modPair p.id (hsMark pd)) p pd with h | ⟨h, _⟩
          · rw [h] at hs3; exact absurd hs3 hsame
          · rw [h, select_selected] at hs3; cases hs3; rfl
        have hw := hsSel_down (a1.modPair p.id (hsMark pd)) p pd hi2 (h0.cfg ▸ hneed)
          (hdef p (hf.1 ▸ hpm) hqid.symm) (hpd pd (hmem pd hpdeq).1 (hmem pd hpdeq).2)
          ⟨hsMark pd p, by
            have := mem_updPair_of_mem (id := p.id) (f := hsMark pd) hpm
            simp only [beq_self_eq_true, if_true] at this
            exact this, rfl, ⟨rfl, rfl, rfl, rfl⟩⟩ hs1 hs3 hne
        have hk := hsSel_hsel (a1.modPair p.id (hsMark pd)) p pd
          ⟨hsMark pd p, by
            have := mem_updPair_of_mem (id := p.id) (f := hsMark pd) hpm
            simp only [beq_self_eq_true, if_true] at this
            exact this, rfl, rfl, fun _ hu => by simp [hsMark, hu], fun _ hn => (hi1.pairs p hpm).deferred hn⟩
        have hF := hsFin_pres (wp := True) (ex := True) (a1.modPair p.id (hsMark pd)) p pd
          (hsSel (a1.modPair p.id (hsMark pd)) p pd).1 (hk.inv hi2)
        exact hw.mono (hF.2.toRel.trans
          ((modPair_core (wp := True) (ex := True) _ p.id (Pair.gotResponse now pd.ts)
            (fun p => ⟨rfl, rfl, rfl, rfl, rfl, rfl, rfl, rfl, rfl, rfl, rfl, rfl⟩)) hF.1).2.toRel)

/-! ## `handleInbound` and `step` -/

theorem hiReq_down (a : Agent) (now : Nat) (l r : Cand) (m : Msg) (hi : Inv3 a)
    (hneed : needsPrioCheck a.cfg = true) (hnom : m.nom = none) {pid qid : Nat}
    (hs : a.selected = some pid) (hs' : (hiReq a now l r m []).1.selected = some qid) (hne : pid ≠ qid) :
    Wit (· < ·) (hiReq a now l r m []).1 pid qid := by
  unfold hiReq at hs' ⊢
  cases hc : a.controlling
  · simp only [hc, Bool.false_eq_true, if_false] at hs' ⊢
    have hs2 : (a.cldHandleRequest now m l r).1.selected = some qid := hs'
    exact (cldHandleRequest_down a now m l r hi hc hneed hnom hs hs2 hne).mono
      ((seenRemoteRecv_pres (wp := True) (ex := True) _ r.uid now) ((cldHandleRequest_hsel a now m l r hc).inv hi)).2.toRel
  · simp only [hc, if_true] at hs' ⊢
    have hs2 : (a.ctlHandleRequest now m l r).1.selected = some qid := hs'
    rw [(ctlHandleRequest_hok a now m l r hc).selected_eq hi, hs] at hs2
    cases hs2; exact absurd rfl hne

theorem handleInbound_down_req (a : Agent) (now : Nat) (l : Cand) (src : Nat) (m : Msg) (hi : Inv3 a)
    (hneed : needsPrioCheck a.cfg = true) (h0 : m.cls = 0) (hnom : m.nom = none) {pid qid : Nat}
    (hs : a.selected = some pid) (hs' : (a.handleInbound now l src m).1.selected = some qid) (hne : pid ≠ qid) :
    Wit (· < ·) (a.handleInbound now l src m).1 pid qid := by
  have hsame : ∀ b : Agent, b.selected = a.selected → b.selected = some qid → False := by
    intro b hb h; rw [hb, hs] at h; cases h; exact hne rfl
  obtain ⟨hd, hn⟩ := hiDisc_hok a l src m
  have hi1 := (hd.pres hi).1
  have hs1 : (hiDisc a l src m).1.selected = a.selected := hd.selected_eq hi
  generalize hres : a.handleInbound now l src m = res at hs' ⊢
  rw [handleInbound_eq] at hres
  have e2 : (m.cls == 2) = false := by rw [h0]; rfl
  have e0 : (m.cls == 0) = true := by rw [h0]; rfl
  simp only [e2, e0, Bool.false_eq_true, if_false, if_true] at hres
  repeat' split at hres
  all_goals subst hres
  all_goals first
    | exact absurd hs' (hsame _ rfl)
    | exact absurd hs' (hsame _ hs1)
    | skip
  rename_i r _
  rw [(hiRole_out _ now l r m _).1] at hs' ⊢
  rcases hiRole_cases (hiDisc a l src m).1 now l r m with ⟨m', _, h⟩ | h | h
  · rw [h] at hs'; exact absurd hs' (hsame _ hs1)
  · rw [h] at hs'; exact absurd hs' (hsame _ hs1)
  · rw [h] at hs' ⊢
    exact hiReq_down _ now l r m hi1 (hd.cfg ▸ hneed) hnom (hs1.trans hs) hs' hne

theorem handleInbound_down_resp (a : Agent) (now : Nat) (l : Cand) (src : Nat) (m : Msg) (hi : Inv3 a)
    (hneed : needsPrioCheck a.cfg = true) (h2 : m.cls = 2) {pid qid : Nat}
    (hdef : ∀ q0 ∈ a.checklist, q0.id = qid → q0.deferredNom = none)
    (hpd : ∀ pd ∈ a.pending, pd.tid = m.tid → pd.nom = none)
    (hs : a.selected = some pid) (hs' : (a.handleInbound now l src m).1.selected = some qid) (hne : pid ≠ qid) :
    Wit (· ≤ ·) (a.handleInbound now l src m).1 pid qid := by
  have hsame : ∀ b : Agent, b.selected = a.selected → b.selected = some qid → False := by
    intro b hb h; rw [hb, hs] at h; cases h; exact hne rfl
  generalize hres : a.handleInbound now l src m = res at hs' ⊢
  rw [handleInbound_eq] at hres
  have e2 : (m.cls == 2) = true := by rw [h2]; rfl
  simp only [e2, if_true] at hres
  repeat' split at hres
  all_goals subst hres
  all_goals first
    | exact absurd hs' (hsame _ rfl)
    | skip
  rename_i r _
  have hs2 : (a.handleSuccess now m l r src).1.selected = some qid := hs'
  exact (handleSuccess_down a now m l r src hi hneed hdef hpd hs hs2 hne).mono
    ((seenRemoteRecv_pres (wp := True) (ex := True) _ r.uid now) ((handleSuccess_hsel a now m l r src).inv hi)).2.toRel

/-- other message classes never move the selection -/
theorem handleInbound_other (a : Agent) (now : Nat) (l : Cand) (src : Nat) (m : Msg) (h0 : m.cls ≠ 0) (h2 : m.cls ≠ 2) :
    (a.handleInbound now l src m).1.selected = a.selected := by
  rw [handleInbound_eq]
  have e2 : (m.cls == 2) = false := by simpa using h2
  have e0 : (m.cls == 0) = false := by simpa using h0
  simp only [e2, e0, Bool.false_eq_true, if_false]
  repeat' split
  all_goals rfl

/-- the inbound step in projection form -/
theorem step_inbound_eq (a : Agent) (now la src : Nat) (m : Msg) :
    step a (.inbound now la src m) =
    if a.closed || !a.started then (a, []) else
    match a.localByAddr la with
    | none => (a, [])
    | some l => (((a.handleInbound now l src m).1.runForced now).1,
        (a.handleInbound now l src m).2 ++ ((a.handleInbound now l src m).1.runForced now).2) := rfl

theorem step_inbound_down (a : Agent) (now la src : Nat) (m : Msg) (hi : Inv3 a)
    (hneed : needsPrioCheck a.cfg = true) {pid qid : Nat}
    (hplainReq : m.cls = 0 → m.nom = none)
    (hplainResp : m.cls = 2 → (∀ q0 ∈ a.checklist, q0.id = qid → q0.deferredNom = none) ∧
      (∀ pd ∈ a.pending, pd.tid = m.tid → pd.nom = none))
    (hs : a.selected = some pid) (hs' : (step a (.inbound now la src m)).1.selected = some qid) (hne : pid ≠ qid) :
    Wit (· ≤ ·) (step a (.inbound now la src m)).1 pid qid ∧
    (m.cls = 0 → Wit (· < ·) (step a (.inbound now la src m)).1 pid qid) := by
  have hsame : ∀ b : Agent, b.selected = a.selected → b.selected = some qid → False := by
    intro b hb h; rw [hb, hs] at h; cases h; exact hne rfl
  rw [step_inbound_eq] at hs' ⊢
  split at hs'
  · exact absurd hs' (hsame _ rfl)
  · rename_i hcs
    rw [if_neg hcs]
    split at hs'
    · exact absurd hs' (hsame _ rfl)
    · rename_i l hl
      simp only [hl]
      have hH := handleInbound_hsel a now l src m
      have hi1 := hH.inv hi
      have hF := runForced_hok (wp := True) (a.handleInbound now l src m).1 now
      have hs1 : (a.handleInbound now l src m).1.selected = some qid := by
        rcases (hF.pres hi1).2.sel with e | e
        · exact e.1 ▸ hs'
        · have h : ((a.handleInbound now l src m).1.runForced now).1.selected = some qid := hs'
          rw [e.2] at h; cases h
      have hr := (hF.pres hi1).2.toRel
      by_cases h0 : m.cls = 0
      · have hw := handleInbound_down_req a now l src m hi hneed h0 (hplainReq h0) hs hs1 hne
        refine ⟨?_, fun _ => hw.mono hr⟩
        obtain ⟨d, hd, hr0, hdn⟩ := hw.mono hr
        exact ⟨d, hd, hr0, hdn.exi, hdn.exj, fun p hp q hq e1 e2 => Nat.le_of_lt (hdn.rel p hp q hq e1 e2)⟩
      · by_cases h2 : m.cls = 2
        · exact ⟨(handleInbound_down_resp a now l src m hi hneed h2 (hplainResp h2).1 (hplainResp h2).2 hs hs1 hne).mono hr,
            fun h => absurd h h0⟩
        · exact absurd hs1 (hsame _ (handleInbound_other a now l src m h0 h2))

/-! ## priorities seen from the pre-state -/

/-- without peer-reflexive discovery in this message, `handleInbound` leaves every pair's priority alone -/
theorem handleInbound_rel_true (a : Agent) (now : Nat) (l : Cand) (src : Nat) (m : Msg)
    (hknown : m.cls = 0 → ∃ r, a.findRemote l.net src = some r) (hi : Inv3 a) :
    Rel True a (a.handleInbound now l src m).1 := by
  rw [handleInbound_eq]
  have hrefl : Rel True a a := Rel.refl _ _
  split
  · exact hrefl
  · split
    · split
      · exact hrefl
      · split
        · exact hrefl
        · rename_i r _
          exact ((handleSuccess_hsel a now m l r src).rel hi).trans
            ((seenRemoteRecv_pres (wp := True) (ex := True) _ r.uid now) ((handleSuccess_hsel a now m l r src).inv hi)).2.toRel
    · split
      · rename_i h0
        obtain ⟨r0, hr0⟩ := hknown (by simpa using h0)
        have hd : hiDisc a l src m = (a, [], some r0) := by unfold hiDisc; rw [hr0]
        split
        · exact hrefl
        · split
          · exact hrefl
          · rw [hd]
            simp only []
            exact (hiRole_hsel a now l r0 m).rel hi
      · split
        · exact ((seenRemoteRecv_pres (wp := True) (ex := True) a _ now) hi).2.toRel
        · exact hrefl

theorem step_inbound_rel_true (a : Agent) (now la src : Nat) (m : Msg)
    (hknown : m.cls = 0 → ∀ l, a.localByAddr la = some l → ∃ r, a.findRemote l.net src = some r) (hi : Inv3 a) :
    Rel True a (step a (.inbound now la src m)).1 := by
  rw [step_inbound_eq]
  split
  · exact Rel.refl _ _
  · split
    · exact Rel.refl _ _
    · rename_i l hl
      have h1 := handleInbound_rel_true a now l src m (fun h0 => hknown h0 l hl) hi
      exact h1.trans ((runForced_hok (wp := True) _ now).pres ((handleInbound_hsel a now l src m).inv hi)).2.toRel

end IceProofs.C03
