import IceModel.Gather
/-!
Lemmas about the resource programs of `IceModel.Gather` (ledger semantics `Prog.run`, checker
`Prog.ok`): soundness of the checker for ALL answer sequences, and `ok` for every gatherer program,
including the parameterised ones (any number of mapped / relayed addresses).
-/
namespace IceProofs.GatherLedger
open IceModel.Gather

/-! ### the checker is sound for every answer sequence -/

theorem run_ret (as : List Ans) (l : Led) : Prog.ret.run as l = some l := by
  cases as <;> rfl

theorem run_release (i : Nat) (n : Prog) (as : List Ans) (l : Led) :
    (Prog.release i n).run as l = n.run as (l.set i .released) := by
  cases as <;> rfl

/-- if every path of `p` from ledger `l` is balanced, then the run of `p` on ANY answer sequence that
lets it return ends balanced -/
theorem ok_sound (p : Prog) : ∀ (l : Led) (as : List Ans) (l' : Led),
    p.ok l = true → p.run as l = some l' → l'.balanced = true := by
  induction p with
  | ret =>
    intro l as l' h hr
    rw [run_ret] at hr
    cases hr
    simpa [Prog.ok] using h
  | acquire lb k a b iha ihb =>
    intro l as l' h hr
    simp only [Prog.ok, Bool.and_eq_true] at h
    cases as with
    | nil => simp [Prog.run] at hr
    | cons x xs =>
      simp only [Prog.run] at hr
      split at hr
      · exact iha _ _ _ h.1 hr
      · exact ihb _ _ _ h.2 hr
  | step lb a b iha ihb =>
    intro l as l' h hr
    simp only [Prog.ok, Bool.and_eq_true] at h
    cases as with
    | nil => simp [Prog.run] at hr
    | cons x xs =>
      simp only [Prog.run] at hr
      split at hr
      · exact iha _ _ _ h.1 hr
      · exact ihb _ _ _ h.2 hr
  | release i n ih =>
    intro l as l' h hr
    rw [run_release] at hr
    simp only [Prog.ok] at h
    exact ih _ _ _ h hr
  | addCand ci is st fl ihs ihf =>
    intro l as l' h hr
    simp only [Prog.ok, Bool.and_eq_true] at h
    cases as with
    | nil => simp [Prog.run] at hr
    | cons x xs =>
      cases x with
      | ok => simp only [Prog.run] at hr; exact ihs _ _ _ h.1.1 hr
      | dup => simp only [Prog.run] at hr; exact ihs _ _ _ h.1.2 hr
      | fail => simp only [Prog.run] at hr; exact ihf _ _ _ h.2 hr

/-- what "balanced" says: no slot is still held, no slot was misused -/
theorem balanced_iff (l : Led) :
    l.balanced = true ↔ l.misuse = false ∧ ∀ s ∈ l.slots, s ≠ SlotSt.held := by
  simp [Led.balanced, List.all_eq_true]

/-! ### settled ledgers -/

/-- no misuse so far and nothing held -/
def Settled (l : Led) : Prop := l.misuse = false ∧ ∀ s ∈ l.slots, s ≠ SlotSt.held

theorem Settled.balanced {l : Led} (h : Settled l) : l.balanced = true := (balanced_iff l).2 h

theorem set_push_last (l : Led) (i : Nat) (to : SlotSt) (hi : l.slots.length = i) :
    (l.push).set i to = { slots := l.slots ++ [to], misuse := l.misuse } := by
  subst hi
  simp [Led.push, Led.set]

theorem settled_snoc {l : Led} (h : Settled l) (to : SlotSt) (ht : to ≠ .held) :
    Settled { slots := l.slots ++ [to], misuse := l.misuse } := by
  refine ⟨h.1, ?_⟩
  intro s hs
  simp only [List.mem_append, List.mem_singleton] at hs
  rcases hs with hs | hs
  · exact h.2 s hs
  · exact hs ▸ ht

/-! ### the parameterised programs -/

theorem borrowLoop_ok (k : Nat) : ∀ (i : Nat) (l : Led), (borrowLoop i k).ok l = l.balanced := by
  induction k with
  | zero => intro i l; simp [borrowLoop, Prog.ok]
  | succ k ih => intro i l; simp [borrowLoop, Prog.ok, Led.setAll, ih]

theorem mappedLoop_ok (k : Nat) : ∀ (i : Nat) (l : Led), Settled l → l.slots.length = i → 0 < i →
    (mappedLoop i k).ok l = true := by
  induction k with
  | zero => intro i l hs _ _; simpa [mappedLoop, Prog.ok] using hs.balanced
  | succ k ih =>
    intro i l hs hlen hpos
    have hne : (i == 0) = false := by simp; omega
    have next : ∀ to : SlotSt, to ≠ .held →
        (mappedLoop (i + 1) k).ok { slots := l.slots ++ [to], misuse := l.misuse } = true := by
      intro to ht
      exact ih (i + 1) _ (settled_snoc hs to ht) (by simp [hlen]) (by omega)
    simp only [mappedLoop, hne, Prog.ok, Led.setAll, List.foldl, Bool.false_eq_true, ↓reduceIte]
    rw [set_push_last l i _ hlen, set_push_last l i _ hlen, set_push_last l i _ hlen]
    simp [next, hs.balanced]

/-- first iteration: slot 0 (the socket opened before the loop) is held -/
theorem mappedLoop_zero_ok (k : Nat) :
    (mappedLoop 0 (k + 1)).ok { slots := [.held], misuse := false } = true := by
  have next : ∀ to : SlotSt, to ≠ .held →
      (mappedLoop 1 k).ok { slots := [to], misuse := false } = true := by
    intro to ht
    exact mappedLoop_ok k 1 _ ⟨rfl, by simpa using ht⟩ rfl (by omega)
  simp [mappedLoop, Prog.ok, Led.setAll, Led.set, next]

theorem srflxMappedProg_ok (n : Nat) : (srflxMappedProg (n + 1)).ok {} = true := by
  have h := mappedLoop_zero_ok n
  simp only [srflxMappedProg, Prog.ok, Led.push, List.nil_append, Bool.and_eq_true]
  refine ⟨⟨h, ?_⟩, ?_⟩ <;> decide

theorem relayProg_ok (n : Nat) : (relayProg n).ok {} = true := by
  simp [relayProg, relayProgWith, relayTail, Prog.ok, borrowLoop_ok, Led.push, Led.set, Led.setAll, Led.balanced]

theorem hostUdpProg_ok : hostUdpProg.ok {} = true := by decide
theorem hostTcpProg_ok : hostTcpProg.ok {} = true := by decide
theorem hostMuxProg_ok : hostMuxProg.ok {} = true := by decide
theorem srflxProg_ok : srflxProg.ok {} = true := by decide
theorem srflxMuxProg_ok : srflxMuxProg.ok {} = true := by decide

/-- the unrepaired programs are rejected by the checker (it is not vacuous) -/
theorem srflxProgF6_not_ok : srflxProgF6.ok {} = false := by decide
theorem relayProgF10_not_ok : (relayProgWith false 1).ok {} = false := by decide

/-- … and the rejected path is a real run: reply arrives, addCandidate fails, the socket stays held -/
theorem srflxProgF6_leaks :
    srflxProgF6.run [.ok, .ok, .ok, .ok, .fail] {} = some { slots := [.held], misuse := false } := by decide

theorem relayProgF10_leaks :
    (relayProgWith false 1).run [.ok, .ok, .ok, .ok, .ok, .fail] {}
      = some { slots := [.held, .held, .held], misuse := false } := by decide

/-- every unit has an `ok` program -/
theorem progOf_ok (u : GUnit) : (progOf u).ok {} = true := by
  obtain ⟨kind, net, bind, url, n⟩ := u
  cases kind <;> simp only [progOf]
  · exact hostUdpProg_ok
  · exact hostTcpProg_ok
  · exact hostMuxProg_ok
  · exact srflxProg_ok
  · exact srflxMuxProg_ok
  · obtain ⟨m, hm⟩ : ∃ m, max 1 n = m + 1 := ⟨max 1 n - 1, by omega⟩
    rw [hm]
    exact srflxMappedProg_ok m
  · exact relayProg_ok n

end IceProofs.GatherLedger
