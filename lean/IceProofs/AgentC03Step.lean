import IceProofs.AgentC03Inbound
/-!
# C03 — every `step` is an `HSel` transition; reachability; a lite controlled agent emits no request
-/
namespace IceProofs.C03
open IceModel.AgentCore

theorem noReq_res (s : String) : NoReq [Out.res s] := by intro f t m hm; simp at hm

/-- a silent update that keeps configuration and selection (the role may change) -/
theorem HSel.of_pres {wp : Prop} {a a' : Agent} (hp : Pres wp True a a') (hc : a'.cfg = a.cfg) :
    HSel wp a (a', []) := by
  refine ⟨fun hi => (hp hi).1, fun hi => (hp hi).2.toRel, hc, OutR.nil _, ?_, ?_⟩
  · intro hi id hs hn
    rcases (hp hi).2.sel with e | e
    · rw [e.1] at hs; exact absurd hs hn
    · exact absurd trivial e.1
  · intro hi _
    rcases (hp hi).2.sel with e | e
    · exact e.2
    · exact absurd trivial e.1

/-- append request-free outputs -/
theorem HSel.add_out {wp : Prop} {a a' : Agent} {o : List Out} (h : HSel wp a (a', o)) (o' : List Out)
    (hn : NoReq o') : HSel wp a (a', o ++ o') :=
  ⟨h.inv, h.rel, h.cfg, h.out.append (hn.outR _), h.sel, h.fwd⟩

theorem HSel.pre_out {wp : Prop} {a a' : Agent} {o : List Out} (h : HSel wp a (a', o)) (o' : List Out)
    (hn : NoReq o') : HSel wp a (a', o' ++ o) :=
  ⟨h.inv, h.rel, h.cfg, (hn.outR _).append h.out, h.sel, h.fwd⟩

theorem HSel.refl_out (wp : Prop) (a : Agent) (o : List Out) (hn : NoReq o) : HSel wp a (a, o) := by
  have := ((HOK.refl wp True a).hsel).add_out o hn
  simpa using this

/-! ## data plane -/

theorem writeVia_hok {wp ex : Prop} (a : Agent) (now : Nat) (p : Pair) (len : Nat) :
    HOK wp ex a (a.writeVia now p len) ∧ NoReq (a.writeVia now p len).2 := by
  unfold Agent.writeVia
  split
  · simp only []
    refine ⟨⟨?_, ?_, ?_, NoReq.outR (fun f t m hm => by simp at hm) _⟩, fun f t m hm => by simp at hm⟩
    · split
      · exact (seenLocalSent_pres a _ now).trans (modPair_core _ _
          (fun q => { q with pktSent := q.pktSent + 1, bytesSent := q.bytesSent + len })
          fun p => ⟨rfl, rfl, rfl, rfl, rfl, rfl, rfl, rfl, rfl, rfl, rfl, rfl⟩)
      · exact seenLocalSent_pres a _ now
    · split <;> rfl
    · split <;> rfl
  · exact ⟨⟨Pres.refl _ _ _, rfl, rfl, NoReq.outR (fun f t m hm => by simp at hm) _⟩, fun f t m hm => by simp at hm⟩

theorem write_hsel (a : Agent) (now len : Nat) (sl : Bool) : HSel False a (a.write now len sl) ∧ NoReq (a.write now len sl).2 := by
  unfold Agent.write
  split
  · exact ⟨HSel.refl_out _ _ _ (noReq_res _), noReq_res _⟩
  · split
    · exact ⟨HSel.refl_out _ _ _ (noReq_res _), noReq_res _⟩
    · split
      · exact ⟨HSel.refl_out _ _ _ (noReq_res _), noReq_res _⟩
      · rename_i p _
        obtain ⟨h, hn⟩ := writeVia_hok (wp := False) (ex := True) a now p len
        rcases hk : a.writeVia now p len with ⟨a1, o1⟩
        rw [hk] at h hn
        simp only []
        exact ⟨(h.andThen (a2 := { a1 with connBytesSent := a1.connBytesSent + len })
          (Pres.of_eq rfl rfl rfl rfl fun _ => rfl) rfl rfl).hsel, hn⟩

theorem writeToPair_hsel (a : Agent) (now id len : Nat) (sl : Bool) :
    HSel False a (a.writeToPair now id len sl) ∧ NoReq (a.writeToPair now id len sl).2 := by
  unfold Agent.writeToPair
  split
  · exact ⟨HSel.refl_out _ _ _ (noReq_res _), noReq_res _⟩
  · split
    · exact ⟨HSel.refl_out _ _ _ (noReq_res _), noReq_res _⟩
    · split
      · exact ⟨HSel.refl_out _ _ _ (noReq_res _), noReq_res _⟩
      · split
        · exact ⟨HSel.refl_out _ _ _ (noReq_res _), noReq_res _⟩
        · rename_i p _ _
          obtain ⟨h, hn⟩ := writeVia_hok (wp := False) (ex := True) a now p len
          exact ⟨h.hsel, hn⟩

/-- source validation of `inboundData` (verbatim) -/
def idFind (a : Agent) (now : Nat) (l : Cand) (src : Nat) : Agent × Bool :=
  match a.caches.find? fun (lu, s, _) => lu == l.uid && s == src with
    | some (_, _, ru) => (a.seenRemoteRecv ru now, true)
    | none =>
      match a.findRemote l.net src with
      | some r => ({ (a.seenRemoteRecv r.uid now) with caches := a.caches ++ [(l.uid, src, r.uid)] }, true)
      | none => (a, false)

/-- queueing + counters of `inboundData` (verbatim) -/
def idCount (a : Agent) (len : Nat) : Agent :=
    let a := { a with rx := a.rx ++ [len] }
    if len > 0 then
        match a.selected with
        | some id => a.modPair id fun p => { p with pktRecv := p.pktRecv + 1, bytesRecv := p.bytesRecv + len }
        | none => a
      else a

theorem inboundData_eq (a : Agent) (now : Nat) (l : Cand) (src len : Nat) :
    a.inboundData now l src len =
    if !(idFind a now l src).2 then ((idFind a now l src).1, [])
    else if !rxFits (idFind a now l src).1.rx len then ((idFind a now l src).1, [])
    else (idCount (idFind a now l src).1 len, []) := by
  unfold Agent.inboundData idFind idCount
  rfl

theorem idFind_hok (a : Agent) (now : Nat) (l : Cand) (src : Nat) : HOK False True a ((idFind a now l src).1, []) := by
  unfold idFind
  split
  · exact HOK.silent (seenRemoteRecv_pres _ _ _) rfl rfl
  · split
    · rename_i r _
      exact HOK.silent ((seenRemoteRecv_pres a r.uid now).trans (Pres.of_eq_np rfl rfl rfl rfl)) rfl rfl
    · exact HOK.refl _ _ _

theorem idCount_hok (a : Agent) (len : Nat) : HOK False True a (idCount a len, []) := by
  unfold idCount
  have h1 : HOK False True a (({ a with rx := a.rx ++ [len] } : Agent), []) :=
    HOK.silent (Pres.of_eq rfl rfl rfl rfl fun _ => rfl) rfl rfl
  simp only []
  split
  · split
    · exact h1.andThen (modPair_core _ _ (fun p => { p with pktRecv := p.pktRecv + 1, bytesRecv := p.bytesRecv + len })
        fun p => ⟨rfl, rfl, rfl, rfl, rfl, rfl, rfl, rfl, rfl, rfl, rfl, rfl⟩) rfl rfl
    · exact h1
  · exact h1

theorem inboundData_hsel (a : Agent) (now : Nat) (l : Cand) (src len : Nat) :
    HSel False a (a.inboundData now l src len) ∧ NoReq (a.inboundData now l src len).2 := by
  rw [inboundData_eq]
  split
  · exact ⟨(idFind_hok a now l src).hsel, NoReq.nil⟩
  split
  · exact ⟨(idFind_hok a now l src).hsel, NoReq.nil⟩
  · exact ⟨((idFind_hok a now l src).chain (idCount_hok _ len)).hsel, NoReq.nil⟩

/-! ## `doRestart`, `step` -/

theorem doRestart_hok (a : Agent) (now : Nat) (u p : String) : HOK False False a (a.doRestart now u p) := by
  unfold Agent.doRestart
  simp only []
  have h0 : HOK False False a
      (({ a with localUfrag := u, localPwd := p, remoteUfrag := "", remotePwd := "" } : Agent), []) :=
    HOK.silent (Pres.of_eq rfl rfl rfl rfl fun _ => rfl) rfl rfl
  have h1 := h0.andThen (wipe_pres _) rfl rfl
  have h2 := h1.andThen (a2 := { (Agent.resetSelector (Agent.wipe
      ({ a with localUfrag := u, localPwd := p, remoteUfrag := "", remotePwd := "" } : Agent)) now) with
      generation := a.generation + 1 }) (Pres.of_eq rfl rfl rfl rfl fun _ => rfl) rfl rfl
  split
  · exact h2.chain (setConnState_hok _ _)
  · exact h2

/-- `HSel` followed by the forced tick -/
theorem HSel.thenForced {a : Agent} {r : Agent × List Out} (h : HSel False a r) (now : Nat) :
    HSel False a ((r.1.runForced now).1, r.2 ++ (r.1.runForced now).2) :=
  HSel.seq_hok (a1 := r.1) (o1 := r.2) h (runForced_hok (wp := False) r.1 now)

/-- the pieces of the successful branch of `start` -/
def startA0 (a : Agent) (now : Nat) (controlling : Bool) (ru rp : String) : Agent :=
  Agent.resetSelector { a with controlling := controlling, remoteUfrag := ru, remotePwd := rp, started := true } now

def startA1 (a : Agent) : Agent :=
  { a.requestCheck with lastSeen := .unknown, checkingStart := 0, checkingTimeout := a.initialCheckingTimeout }

def startCore (a : Agent) (now : Nat) (controlling : Bool) (ru rp : String) : Agent × List Out :=
  (((startA1 ((startA0 a now controlling ru rp).setConnState .checking).1).runForced now).1,
   ((startA0 a now controlling ru rp).setConnState .checking).2 ++ [.res "ok"] ++
     ((startA1 ((startA0 a now controlling ru rp).setConnState .checking).1).runForced now).2)

theorem step_start_eq (a : Agent) (now : Nat) (controlling : Bool) (ru rp : String) :
    step a (.start now controlling ru rp) =
    if a.closed then (a, [.res "err:closed"])
    else if a.started then (a, [.res "err:multiplestart"])
    else if ru == "" then (a, [.res "err:ufragempty"])
    else if rp == "" then (a, [.res "err:pwdempty"])
    else startCore a now controlling ru rp := rfl

theorem startCore_hsel (a : Agent) (now : Nat) (ctl : Bool) (ru rp : String) :
    HSel False a (startCore a now ctl ru rp) := by
  have h0 : HSel False a (startA0 a now ctl ru rp, []) :=
    HSel.of_pres (Pres.of_eq rfl rfl rfl rfl fun _ => rfl) rfl
  have h1 : HSel False a (((startA0 a now ctl ru rp).setConnState .checking).1,
      [] ++ ((startA0 a now ctl ru rp).setConnState .checking).2) :=
    h0.seq_hok (ex := False) (setConnState_hok (wp := False) (startA0 a now ctl ru rp) .checking)
  have h2 : HSel False a (startA1 ((startA0 a now ctl ru rp).setConnState .checking).1,
      [] ++ ((startA0 a now ctl ru rp).setConnState .checking).2 ++ [] ++ [.res "ok"]) :=
    (h1.seq_hok (ex := False) (a2 := startA1 ((startA0 a now ctl ru rp).setConnState .checking).1) (o2 := [])
      (HOK.silent (Pres.of_eq rfl rfl rfl rfl fun _ => rfl) rfl rfl)).add_out _ (noReq_res _)
  have h3 := h2.thenForced now
  simp only [List.append_nil, List.nil_append] at h3
  exact h3

theorem step_hsel (a : Agent) (e : Ev) : HSel False a (step a e) := by
  cases e with
  | addLocal now c =>
    exact ((addLocalCandidate_hok (ex := True) a c).1.hsel).thenForced now
  | addRemote now c =>
    simp only [step]
    split
    · exact HSel.refl_out _ _ _ (noReq_res _)
    · split
      · exact (HOK.refl False True a).hsel
      · exact HSel.thenForced (r := ((a.addRemoteCandidate c).1, (a.addRemoteCandidate c).2.1))
          ((addRemoteCandidate_hok (ex := True) a c).1.hsel) now
  | start now ctl ru rp =>
    rw [step_start_eq]
    split
    · exact HSel.refl_out _ _ _ (noReq_res _)
    · split
      · exact HSel.refl_out _ _ _ (noReq_res _)
      · split
        · exact HSel.refl_out _ _ _ (noReq_res _)
        · split
          · exact HSel.refl_out _ _ _ (noReq_res _)
          · exact startCore_hsel a now ctl ru rp
  | setRemoteCreds ru rp =>
    simp only [step]
    split
    · exact HSel.refl_out _ _ _ (noReq_res _)
    · split
      · exact HSel.refl_out _ _ _ (noReq_res _)
      · split
        · exact HSel.refl_out _ _ _ (noReq_res _)
        · have := (HSel.of_pres (wp := False) (a := a) (a' := { a with remoteUfrag := ru, remotePwd := rp })
            (Pres.of_eq rfl rfl rfl rfl fun _ => rfl) rfl).add_out _ (noReq_res "ok")
          simpa using this
  | advance now => exact (runTimers_hok (wp := False) a now 100000).hsel
  | inbound now la src m =>
    simp only [step]
    split
    · exact (HOK.refl False True a).hsel
    · split
      · exact (HOK.refl False True a).hsel
      · rename_i l _
        exact (handleInbound_hsel a now l src m).thenForced now
  | inboundData now la src len sl =>
    simp only [step]
    split
    · exact (HOK.refl False True a).hsel
    · split
      · exact (HOK.refl False True a).hsel
      · exact (inboundData_hsel a now _ src len).1
  | write now len sl => exact (write_hsel a now len sl).1
  | writeToPair now id len sl => exact (writeToPair_hsel a now id len sl).1
  | read cap =>
    simp only [step]
    split
    · exact HSel.refl_out _ _ _ (noReq_res _)
    · split
      · exact HSel.refl_out _ _ _ (noReq_res _)
      · rename_i n rest _
        have := (HSel.of_pres (wp := False) (a := a) (a' := { a with rx := rest, connBytesRecv := a.connBytesRecv + min n cap })
            (Pres.of_eq rfl rfl rfl rfl fun _ => rfl) rfl).add_out _ (noReq_res (if cap < n then s!"short:{cap}" else s!"read:{n}"))
        simpa using this
  | renominate now la ri v =>
    simp only [step]
    split
    · exact HSel.refl_out _ _ _ (noReq_res _)
    · rename_i hc
      have hc' : a.controlling = true := by simpa using hc
      split
      · exact HSel.refl_out _ _ _ (noReq_res _)
      · split
        · rename_i l r _ _
          split
          · exact HSel.refl_out _ _ _ (noReq_res _)
          · have h := sendRequest_hok (wp := False) (ex := True) a now l r true (if v > 0 then some v else none)
              (fun _ => hc')
            generalize a.sendRequest now l r true (if v > 0 then some v else none) = s1 at h ⊢
            obtain ⟨a1, o1⟩ := s1
            exact ((h.andThen (a2 := { a1 with nomIssued := a1.nomIssued ++ [(v, l.addr, r.addr)] })
              (Pres.of_eq rfl rfl rfl rfl fun _ => rfl) rfl rfl).hsel).add_out _ (noReq_res _)
        · exact HSel.refl_out _ _ _ (noReq_res _)
  | restart now u p =>
    simp only [step]
    split
    · exact HSel.refl_out _ _ _ (noReq_res _)
    · have h := doRestart_hok a now u p
      generalize a.doRestart now u p = s1 at h ⊢
      obtain ⟨a1, o1⟩ := s1
      exact h.hsel.add_out _ (noReq_res _)
  | close =>
    simp only [step]
    split
    · exact HSel.refl_out _ _ _ (noReq_res _)
    · have h0 : HOK False False a (({ a with locals := [], remotes := [], caches := [], closed := true } : Agent), []) :=
        HOK.silent (Pres.of_eq_np rfl rfl rfl rfl) rfl rfl
      have h := h0.chain (setConnState_hok (wp := False) _ .closed)
      generalize Agent.setConnState ({ a with locals := [], remotes := [], caches := [], closed := true } : Agent) .closed = s1 at h ⊢
      obtain ⟨a1, o1⟩ := s1
      exact h.hsel.add_out _ (noReq_res _)

end IceProofs.C03
